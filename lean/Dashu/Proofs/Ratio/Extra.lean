import Dashu.Proofs.Ratio.Prog
import Mathlib.Data.Rat.Lemmas
/-
  Canonical form is unique (structural equality = value equality), signed constructors,
  `div_rem_euclid`, and `Relaxed = RBig` for the same operands.
-/
namespace Dashu.Model.Ratio
open Dashu.Model

/-- a reduced pair is exactly (numerator, denominator) of its value in Lean's normalised `Rat` -/
theorem Reduced.num_den_eq {q : Q} (h : Reduced q) : q.val.num = q.num ∧ q.val.den = q.den := by
  have hb : (0 : ℤ) < (q.den : ℤ) := by exact_mod_cast h.den_pos
  have hc : Nat.Coprime q.num.natAbs (q.den : ℤ).natAbs := by simpa using h.2
  have e : q.val = (q.num : ℚ) / ((q.den : ℤ) : ℚ) := by simp [Q.val_def]
  constructor
  · rw [e]; exact Rat.num_div_eq_of_coprime hb hc
  · have := Rat.den_div_eq_of_coprime hb hc
    rw [e]; exact_mod_cast this

/-- the canonical form is unique: two reduced pairs with the same value are the same pair
    (this is what makes the structural `PartialEq`/`Hash` of `RBig` sound) -/
theorem Reduced.ext {a b : Q} (ha : Reduced a) (hb : Reduced b) (h : a.val = b.val) : a = b := by
  obtain ⟨a1, a2⟩ := ha.num_den_eq
  obtain ⟨b1, b2⟩ := hb.num_den_eq
  cases a; cases b
  simp only [Q.mk.injEq]
  simp only at a1 a2 b1 b2
  exact ⟨by rw [← a1, ← b1, h], by rw [← a2, ← b2, h]⟩

theorem sgn_natAbs_val (n d : ℤ) (hd : d ≠ 0) :
    ((n * sgn d : ℤ) : ℚ) / ((d.natAbs : ℕ) : ℚ) = (n : ℚ) / d := by
  rw [natAbs_cast_eq]
  have h5 : (d : ℚ) ≠ 0 := by exact_mod_cast hd
  have h6 := sgn_cast_ne_zero d
  push_cast; field_simp

/-- `RBig::from_parts_signed` -/
theorem rFromPartsSigned_spec (n d : ℤ) :
    (d = 0 → rFromPartsSigned n d = .error .divideByZero) ∧
    (d ≠ 0 → ∃ r, rFromPartsSigned n d = .ok r ∧ Reduced r ∧ r.val = (n : ℚ) / d) := by
  constructor
  · intro h; simp [rFromPartsSigned, h, rFromParts]
  · intro h
    obtain ⟨r, h1, h2, h3⟩ := rFromParts_spec (n * sgn d) d.natAbs (Int.natAbs_pos.mpr h)
    exact ⟨r, h1, h2, by rw [h3, sgn_natAbs_val n d h]⟩

/-- `Relaxed::from_parts_signed` -/
theorem xFromPartsSigned_spec (n d : ℤ) :
    (d = 0 → xFromPartsSigned n d = .error .divideByZero) ∧
    (d ≠ 0 → ∃ r, xFromPartsSigned n d = .ok r ∧ RelaxedInv r ∧ r.val = (n : ℚ) / d) := by
  constructor
  · intro h; simp [xFromPartsSigned, h, xFromParts]
  · intro h
    obtain ⟨r, h1, h2, h3⟩ := xFromParts_spec (n * sgn d) d.natAbs (Int.natAbs_pos.mpr h)
    exact ⟨r, h1, h2, by rw [h3, sgn_natAbs_val n d h]⟩

/-- `impl_euclid_divrem_with_rbig` -/
theorem R.divRemEuclid_spec (x y : Q) (hx : Reduced x) (hy : Reduced y) :
    (y.num = 0 → R.divRemEuclid x y = .error .divideByZero) ∧
    (y.num ≠ 0 → ∃ r, R.divRemEuclid x y = .ok (Spec.divEuclid x.val y.val, r) ∧ Reduced r ∧
        r.val = Spec.remEuclid x.val y.val) := by
  obtain ⟨a, b⟩ := x
  obtain ⟨c, d⟩ := y
  have hb : 0 < b := hx.den_pos
  have hd : 0 < d := hy.den_pos
  have hgpos : 0 < Nat.gcd b d := Nat.gcd_pos_of_pos_left _ hb
  have hbg : b = Nat.gcd b d * (b / Nat.gcd b d) := (Nat.mul_div_cancel' (Nat.gcd_dvd_left b d)).symm
  have hdg : d = Nat.gcd b d * (d / Nat.gcd b d) := (Nat.mul_div_cancel' (Nat.gcd_dvd_right b d)).symm
  have hb'pos : 0 < b / Nat.gcd b d := Nat.div_pos (Nat.le_of_dvd hb (Nat.gcd_dvd_left _ _)) hgpos
  have hd'pos : 0 < d / Nat.gcd b d := Nat.div_pos (Nat.le_of_dvd hd (Nat.gcd_dvd_right _ _)) hgpos
  constructor
  · intro h
    simp only at h
    simp [R.divRemEuclid, gcdK_of_pos_right b hd, h, divEuclidK, bind_ok', bind_error']
  · intro hc
    simp only at hc
    obtain ⟨r, hr1, hr2, hr3⟩ := (R.remEuclid_spec ⟨a, b⟩ ⟨c, d⟩ hx hy).2 hc
    have hR : ((b / Nat.gcd b d : ℕ) : ℤ) * c ≠ 0 := mul_ne_zero (by exact_mod_cast hb'pos.ne') hc
    have hDpos : 0 < b * (d / Nat.gcd b d) := Nat.mul_pos hb hd'pos
    simp only [R.remEuclid, gcdK_of_pos_right b hd, bind_ok', remEuclidK, if_neg hR] at hr1
    refine ⟨r, ?_, hr2, hr3⟩
    simp only [R.divRemEuclid, gcdK_of_pos_right b hd, bind_ok', remEuclidK, divEuclidK, if_neg hR,
      hr1]
    have hq : Spec.divEuclid (⟨a, b⟩ : Q).val (⟨c, d⟩ : Q).val
        = (((d / Nat.gcd b d : ℕ) : ℤ) * a) / (((b / Nat.gcd b d : ℕ) : ℤ) * c) := by
      set g := Nat.gcd b d
      set b' := b / g
      set d' := d / g
      have e1 : (b : ℚ) = g * b' := by exact_mod_cast hbg
      have e2 : (d : ℚ) = g * d' := by exact_mod_cast hdg
      have hg0 : (g : ℚ) ≠ 0 := by exact_mod_cast hgpos.ne'
      have hb0 : (b' : ℚ) ≠ 0 := by exact_mod_cast hb'pos.ne'
      have hd0 : (d' : ℚ) ≠ 0 := by exact_mod_cast hd'pos.ne'
      apply divEuclid_bridge _ _ hR (((b * d' : ℕ) : ℚ)) (by exact_mod_cast hDpos)
      · simp only [Q.val_mk]; push_cast; rw [e1]; field_simp
      · simp only [Q.val_mk]; push_cast; rw [e1, e2]; field_simp
    rw [hq]; rfl

/-- `impl_euclid_divrem_with_relaxed` -/
theorem X.divRemEuclid_spec (x y : Q) (hx : RelaxedInv x) (hy : RelaxedInv y) :
    (y.num = 0 → X.divRemEuclid x y = .error .divideByZero) ∧
    (y.num ≠ 0 → ∃ r, X.divRemEuclid x y = .ok (Spec.divEuclid x.val y.val, r) ∧ RelaxedInv r ∧
        r.val = Spec.remEuclid x.val y.val) := by
  obtain ⟨a, b⟩ := x
  obtain ⟨c, d⟩ := y
  have hb : 0 < b := hx.den_pos
  have hd : 0 < d := hy.den_pos
  constructor
  · intro h
    simp only at h
    simp [X.divRemEuclid, h, divEuclidK, bind_error']
  · intro hc
    simp only at hc
    obtain ⟨r, hr1, hr2, hr3⟩ := (X.remEuclid_spec ⟨a, b⟩ ⟨c, d⟩ hx hy).2 hc
    have hR : c * (b : ℤ) ≠ 0 := mul_ne_zero hc (by exact_mod_cast hb.ne')
    have hDpos : 0 < b * d := Nat.mul_pos hb hd
    simp only [X.remEuclid, bind_ok', remEuclidK, if_neg hR] at hr1
    refine ⟨r, ?_, hr2, hr3⟩
    simp only [X.divRemEuclid, bind_ok', remEuclidK, divEuclidK, if_neg hR, hr1]
    have hq : Spec.divEuclid (⟨a, b⟩ : Q).val (⟨c, d⟩ : Q).val = (a * (d : ℤ)) / (c * (b : ℤ)) := by
      have hb0 : (b : ℚ) ≠ 0 := by exact_mod_cast hb.ne'
      have hd0 : (d : ℚ) ≠ 0 := by exact_mod_cast hd.ne'
      apply divEuclid_bridge _ _ hR (((b * d : ℕ) : ℚ)) (by exact_mod_cast hDpos)
      · simp only [Q.val_mk]; push_cast; field_simp
      · simp only [Q.val_mk]; push_cast; field_simp
    rw [hq]; rfl

/-- **Relaxed = RBig**: on operands denoting the same numbers, every binary operator either
    panics with the same kind on both types or returns the same rational value. -/
theorem relaxed_eq_rbig (o : Bin) (x y x' y' : Q) (hx : RelaxedInv x) (hy : RelaxedInv y)
    (hx' : Reduced x') (hy' : Reduced y') (ex : x.val = x'.val) (ey : y.val = y'.val) :
    match evalBin o .X x y, evalBin o .R x' y' with
    | .ok r, .ok r' => r.val = r'.val ∧ reduce r = .ok r'
    | .error e, .error e' => e = e'
    | _, _ => False := by
  have h1 := evalBin_good o .X x y hx hy
  have h2 := evalBin_good o .R x' y' hx' hy'
  rw [ex, ey] at h1
  unfold Good at h1 h2
  cases hX : evalBin o .X x y with
  | ok r =>
    cases hR : evalBin o .R x' y' with
    | ok r' =>
      rw [hX] at h1; rw [hR] at h2
      simp only at h1 h2 ⊢
      have hv : r.val = r'.val := by
        have := h1.2.symm.trans h2.2
        exact Option.some.inj this
      refine ⟨hv, ?_⟩
      obtain ⟨c, hc1, hc2, hc3⟩ := reduce_spec r (Kind.Inv.den_pos h1.1)
      rw [hc1, Reduced.ext hc2 h2.1 (hc3.trans hv)]
    | error e' =>
      rw [hX] at h1; rw [hR] at h2
      simp only at h1 h2
      rw [h1.2] at h2
      exact absurd h2.2 (by simp)
  | error e =>
    cases hR : evalBin o .R x' y' with
    | ok r' =>
      rw [hX] at h1; rw [hR] at h2
      simp only at h1 h2
      rw [h1.2] at h2
      exact absurd h2.2 (by simp)
    | error e' =>
      rw [hX] at h1; rw [hR] at h2
      simp only at h1 h2 ⊢
      rw [h1.1, h2.1]

end Dashu.Model.Ratio
