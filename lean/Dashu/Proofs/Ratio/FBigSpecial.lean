import Dashu.Proofs.Ratio.FBigFinal
/-
  C18 FBig clause, special inputs of `RBig::simplest_from_float`
  (rational/src/third_party/dashu_float.rs): an infinite float gives `None`, zero gives 0, a float
  of unlimited precision (context precision 0) gives the number itself.
-/
namespace Dashu.Model.Ratio
open Dashu.Model

/-- infinite float (`Repr::is_infinite`: significand 0, exponent ≠ 0) ⇒ `None`, for every
    mode, base, precision and every combination of the deviation switches -/
theorem rbigSimplestFromFloat_infinite (k : Quirks) (simpler : Q → Q → Bool) (mode : RMode)
    (b : ℕ) (exp : ℤ) (p : ℕ) (he : exp ≠ 0) :
    rbigSimplestFromFloat k simpler mode b 0 exp p = .ok (some none) := by
  unfold rbigSimplestFromFloat fbigIsInfinite
  simp [he]

/-- `None` ONLY for an infinite float: a finite float never gives `None` -/
theorem rbigSimplestFromFloat_none_iff (k : Quirks) (simpler : Q → Q → Bool) (mode : RMode)
    (b : ℕ) (signif exp : ℤ) (p : ℕ) :
    rbigSimplestFromFloat k simpler mode b signif exp p = .ok (some none) ↔
      (signif = 0 ∧ exp ≠ 0) := by
  unfold rbigSimplestFromFloat fbigIsInfinite
  by_cases h : signif = 0 ∧ exp ≠ 0
  · simp [h.1, h.2]
  · have hb : ((signif == 0) && (exp != 0)) = false := by
      rcases not_and_or.mp h with h1 | h1
      · simp [h1]
      · simp [not_not.mp h1]
    simp only [hb, Bool.false_eq_true, if_false, h, iff_false]
    cases hres : simplestFromFBig k simpler mode b signif exp p with
    | error e => simp [Except.map]
    | ok v => cases v <;> simp [Except.map]

/-- the float zero ⇒ `Some(0)` -/
theorem rbigSimplestFromFloat_zero (k : Quirks) (simpler : Q → Q → Bool) (mode : RMode)
    (b p : ℕ) : rbigSimplestFromFloat k simpler mode b 0 0 p = .ok (some (some Q.zero)) := by
  unfold rbigSimplestFromFloat fbigIsInfinite simplestFromFBig
  simp [Except.map]

/-- **unlimited precision ⇒ the number itself**, for every mode and every setting of the deviation
    switches (the code returns `Self::try_from(f.clone())` before it asks for the error bounds): the
    reduced fraction of value `signif · b^exp` -/
theorem rbigSimplestFromFloat_unlimited (k : Quirks) (simpler : Q → Q → Bool) (mode : RMode)
    (b : ℕ) (hb : 2 ≤ b) (signif exp : ℤ) (hs : signif ≠ 0) :
    ∃ r, rbigSimplestFromFloat k simpler mode b signif exp 0 = .ok (some (some r)) ∧
      Reduced r ∧ r.val = (signif : ℚ) * (b : ℚ) ^ exp := by
  obtain ⟨hv, hd⟩ := scaleQ_val signif b hb exp
  obtain ⟨r, hr, hred, hval⟩ := reduce_spec (scaleQ signif b exp) hd
  refine ⟨r, ?_, hred, by rw [hval, hv]⟩
  have hinf : fbigIsInfinite signif exp = false := by simp [fbigIsInfinite, hs]
  unfold rbigSimplestFromFloat simplestFromFBig
  simp only [hinf, Bool.false_eq_true, if_false, if_neg hs, if_true, hr]
  rfl

/-- on finite, non-zero, limited-precision input the wrapper is the finite body -/
theorem rbigSimplestFromFloat_finite (k : Quirks) (simpler : Q → Q → Bool) (mode : RMode)
    (b : ℕ) (signif exp : ℤ) (p : ℕ) (hs : signif ≠ 0) :
    rbigSimplestFromFloat k simpler mode b signif exp p =
      (simplestFromFBig k simpler mode b signif exp p).map (Option.map some) := by
  have hinf : fbigIsInfinite signif exp = false := by simp [fbigIsInfinite, hs]
  unfold rbigSimplestFromFloat
  simp [hinf]

end Dashu.Model.Ratio
