import Dashu.Proofs.Ratio.PowGuard
import Dashu.Proofs.Ratio.Hist
/-
  C04 round 7: helper lemmas for the "below memory" side of the allocation guard of `pow` (Props/C04Pow, section 7):
  the contrapositive of `pow_panic_only_beyond_memory`, size criteria for `v ^ n < 2^(2^62)`, and the component bound of
  a reduced pair against any stored pair denoting the same number.
-/
namespace Dashu.Model.Ratio
open Dashu.Model

/-- the guard is silent below memory (64-bit words): an exact power of fewer than `2^62` bits never panics -/
theorem pow_guard_silent_below_memory (v n : Nat) (h : v ^ n < 2 ^ (2 ^ 62)) : upowPanics 64 v n = false := by
  cases hp : upowPanics 64 v n with
  | false => rfl
  | true => exact absurd (pow_panic_only_beyond_memory v n hp) (Nat.not_le.mpr h)

theorem pow_lt_of_bits (v n a : Nat) (hv : v < 2 ^ a) (ha : a * n ≤ 2 ^ 62) : v ^ n < 2 ^ (2 ^ 62) := by
  rcases Nat.eq_zero_or_pos n with h0 | hpos
  · subst h0
    rw [Nat.pow_zero]
    exact Nat.one_lt_two_pow (by decide)
  · calc v ^ n < (2 ^ a) ^ n := Nat.pow_lt_pow_left hv (by omega)
      _ = 2 ^ (a * n) := by rw [Nat.pow_mul]
      _ ≤ 2 ^ (2 ^ 62) := Nat.pow_le_pow_right (by omega) ha

theorem small_of_lt (v n b : Nat) (h : v ^ n < 2 ^ b) (hb : b ≤ 2 ^ 62) : v ^ n < 2 ^ (2 ^ 62) :=
  Nat.lt_of_lt_of_le h (Nat.pow_le_pow_right (by decide) hb)

/-- a reduced pair denoting the same number as a stored pair has components no larger than the stored ones -/
theorem reduced_components_le {x y : Q} (hd : 0 < x.den) (hy : Reduced y) (hv : x.val = y.val) :
    y.num.natAbs ≤ x.num.natAbs ∧ y.den ≤ x.den := by
  have h := reduce_eq_of_val_eq hd hy hv
  unfold reduce at h
  by_cases h0 : x.num = 0
  · rw [if_pos h0] at h
    cases h
    exact ⟨by simp [Q.zero], by simp only [Q.zero]; omega⟩
  · rw [if_neg h0, gcdK_of_pos_right _ hd] at h
    cases h
    refine ⟨?_, Nat.div_le_self _ _⟩
    simp only [Int.natAbs_tdiv, Int.natAbs_natCast]
    exact Nat.div_le_self _ _

end Dashu.Model.Ratio
