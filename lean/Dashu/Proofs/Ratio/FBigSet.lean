import Dashu.Proofs.Ratio.FBigCore
import Mathlib.Data.Int.Log
/-
  C18 FBig clause: correct rounding to `p` digits in base `b` under each mode of dashu-float,
  and the rounding set of an FBig value.
-/
namespace Dashu.Model.Ratio
open Dashu.Model

/-- `x ≠ 0` rounds to `v` at `p` significant base-`b` digits under mode `m`: with `t` the binade
    of `|x|` (`b^(t-1) ≤ |x| < b^t`), `v = roundInt m (x / b^(t-p)) · b^(t-p)`, where
    `Float.roundInt` is builder-float's definition of the modes.  (This is `Float.specRound` with
    its `ulpExp` spelled out as `t - p`.) -/
def RoundsTo (b : ℕ) (m : FMode) (p : ℕ) (x v : ℚ) : Prop :=
  ∃ t : ℤ, (b : ℚ) ^ (t - 1) ≤ |x| ∧ |x| < (b : ℚ) ^ t ∧
    v = (Float.roundInt m (x / (b : ℚ) ^ (t - p)) : ℚ) * (b : ℚ) ^ (t - p)

theorem exists_binade (b : ℕ) (hb : 2 ≤ b) (y : ℚ) (hy : 0 < y) :
    ∃ t : ℤ, (b : ℚ) ^ (t - 1) ≤ y ∧ y < (b : ℚ) ^ t := by
  refine ⟨Int.log b y + 1, ?_, ?_⟩
  · rw [add_sub_cancel_right]; exact Int.zpow_log_le_self (by omega) hy
  · exact Int.lt_zpow_succ_log_self (by omega) y

/-- the signed quotient rounds to `±n` with `n` in the window of the sign -/
theorem roundInt_signed (m : FMode) (x Qq : ℚ) (hQ : 0 < Qq) (hx : x ≠ 0) :
    ∃ n : ℕ, Float.roundInt m (x / Qq) = (if x < 0 then -(n : ℤ) else (n : ℤ)) ∧
      InW (windowOf m (decide (x < 0))) n (|x| / Qq) := by
  have hz : 0 ≤ |x| / Qq := div_nonneg (abs_nonneg x) hQ.le
  by_cases hneg : x < 0
  · have e : x / Qq = -(|x| / Qq) := by rw [abs_of_neg hneg]; ring
    obtain ⟨n, hr, hin⟩ := roundInt_pos_sound (flipMode m) (|x| / Qq) hz
    refine ⟨n, ?_, ?_⟩
    · rw [if_pos hneg, e, roundInt_neg, hr]
    · simp only [hneg, decide_true]; rw [windowOf_flip]; exact hin
  · have e : x / Qq = |x| / Qq := by rw [abs_of_nonneg (not_lt.mp hneg)]
    obtain ⟨n, hr, hin⟩ := roundInt_pos_sound m (|x| / Qq) hz
    refine ⟨n, ?_, ?_⟩
    · rw [if_neg hneg, e, hr]
    · simp only [hneg, decide_false]; exact hin

/-- **the rounding set of an FBig value**: for every base `b ≥ 2`, precision `p ≥ 1`, mode and
    `p`-digit significand `S`, a rational `x ≠ 0` rounds to the float `± S·b^e` iff it has the
    float's sign and `|x|` lies in `FSet` of the mode's window: `[S·b^e − dlo·below, S·b^e + dhi·b^e]`
    with `below = b^e`, or `b^(e-1)` when `S = b^(p-1)`, boundaries by the window's flags. -/
theorem fbig_rounding_set (m : FMode) (b p S : ℕ) (hb : 2 ≤ b) (hp : 1 ≤ p)
    (hS1 : b ^ (p - 1) ≤ S) (hS2 : S < b ^ p) (e : ℤ) (neg : Bool) (x : ℚ) (hx : x ≠ 0) :
    RoundsTo b m p x ((if neg then -(S : ℚ) else (S : ℚ)) * (b : ℚ) ^ e) ↔
      ((x < 0 ↔ neg = true) ∧ FSet (windowOf m neg) b p S e |x|) := by
  have hSpos : (0 : ℚ) < S := by
    have : 0 < S := lt_of_lt_of_le (Nat.pow_pos (by omega)) hS1
    exact_mod_cast this
  have hUpos := bpow_pos b hb e
  constructor
  · rintro ⟨t, ht1, ht2, hv⟩
    have hQ := bpow_pos b hb (t - p)
    obtain ⟨n, hr, hin⟩ := roundInt_signed m x _ hQ hx
    rw [hr] at hv
    -- signs agree
    have hsign : (x < 0 ↔ neg = true) := by
      have hn0 : (0 : ℚ) ≤ (n : ℚ) * (b : ℚ) ^ (t - p) := mul_nonneg (by positivity) hQ.le
      have hSU : 0 < (S : ℚ) * (b : ℚ) ^ e := mul_pos hSpos hUpos
      by_cases hneg : x < 0
      · cases neg
        · exfalso
          rw [if_pos hneg] at hv
          simp only [Bool.false_eq_true, if_false] at hv
          push_cast at hv; nlinarith
        · simp [hneg]
      · cases neg
        · simp [hneg]
        · exfalso
          rw [if_neg hneg] at hv
          simp only [if_true] at hv
          push_cast at hv; nlinarith
    refine ⟨hsign, ?_⟩
    have hdec : decide (x < 0) = neg := by
      cases neg <;> simp [hsign]
    rw [hdec] at hin
    apply fbig_core_mp _ (windowOf_ok m neg) b p S hb hp hS1 hS2 e _ t ht1 ht2 n hin
    by_cases hneg : x < 0
    · have : neg = true := hsign.1 hneg
      rw [if_pos hneg, this] at hv
      simp only [if_true] at hv
      push_cast at hv; linarith
    · have : neg = false := by cases neg <;> simp_all
      rw [if_neg hneg, this] at hv
      simp only [Bool.false_eq_true, if_false] at hv
      push_cast at hv; linarith
  · rintro ⟨hsign, hset⟩
    obtain ⟨t, ht1, ht2⟩ := exists_binade b hb |x| (abs_pos.mpr hx)
    have hQ := bpow_pos b hb (t - p)
    obtain ⟨n, hr, hin⟩ := roundInt_signed m x _ hQ hx
    have hdec : decide (x < 0) = neg := by
      cases neg <;> simp [hsign]
    rw [hdec] at hin
    have hval := fbig_core_mpr _ (windowOf_ok m neg) b p S hb hp hS1 hS2 e _ t ht1 ht2 n hin hset
    refine ⟨t, ht1, ht2, ?_⟩
    rw [hr]
    by_cases hneg : x < 0
    · have : neg = true := hsign.1 hneg
      rw [if_pos hneg, this]; simp only [if_true]; push_cast; linarith
    · have : neg = false := by cases neg <;> simp_all
      rw [if_neg hneg, this]; simp only [Bool.false_eq_true, if_false]; push_cast; linarith

end Dashu.Model.Ratio
