import Dashu.Gen.RatFns
import Dashu.Proofs.Ratio.Gen
/-
  Tie A of C04, part 2: the regenerated `Repr`-level function bodies (`Gen/RatFns.lean`) are the hand-written
  model functions.
-/
namespace Dashu.Model.Ratio
open Dashu.Model Dashu.Gen

syntax "fsimp" ("[" Lean.Parser.Tactic.simpLemma,* "]")? : tactic
macro_rules
  | `(tactic| fsimp) => `(tactic| (simp [-Int.natCast_natAbs, -Nat.cast_natAbs, G.is_zero, G.is_one, G.repr, G.mk_rbig, G.mk_relaxed, G.div,
      G.mul, G.add, G.sub, G.neg, G.sign, G.unsigned_abs, G.relaxed_from_parts, G.rbig_from_parts, G.reduce_with_hint,
      G.into, G.into_parts, G.ibig_from_parts, G.lt, G.div_p, G.rem_p, G.div_rem, G.gt, G.ge, G.eq, G.shr, G.shl, G.min,
      G.trailing_zeros, G.unwrap_or_default, G.unwrap, G.sqr, G.cubic, G.pow, G.reduce, G.reduce2]; try simp only [← Int.natCast_ediv, ← Int.natCast_mul, Int.toNat_natCast]))
  | `(tactic| fsimp [$ts,*]) => `(tactic| (simp [-Int.natCast_natAbs, -Nat.cast_natAbs, G.is_zero, G.is_one, G.repr, G.mk_rbig, G.mk_relaxed, G.div,
      G.mul, G.add, G.sub, G.neg, G.sign, G.unsigned_abs, G.relaxed_from_parts, G.rbig_from_parts, G.reduce_with_hint,
      G.into, G.into_parts, G.ibig_from_parts, G.lt, G.div_p, G.rem_p, G.div_rem, G.gt, G.ge, G.eq, G.shr, G.shl, G.min,
      G.trailing_zeros, G.unwrap_or_default, G.unwrap, G.sqr, G.cubic, G.pow, G.reduce, G.reduce2, $ts,*]; try simp only [← Int.natCast_ediv, ← Int.natCast_mul, Int.toNat_natCast]))

theorem gen_Repr_reduce (x : Q) : RatFns.Repr_reduce x.num x.den = reduce x := by
  unfold RatFns.Repr_reduce reduce
  by_cases h0 : x.num = 0
  · fsimp [h0]
  · rw [G.gcd_eq]
    simp only [Int.natAbs_natCast]
    cases hg : gcdK x.num.natAbs x.den with
    | error e => fsimp [h0]
    | ok g =>
      have hp : g ≠ 0 := (gcdK_ok_pos hg).ne'
      fsimp [h0, hp]

/-- for a positive denominator (every caller: the hint is a gcd of denominators).  The proof normalises the gcds modulo
    associativity/commutativity, so a source rewrite that only re-associates `hint.gcd(a).gcd(b)` regenerates a body that this
    same script still proves equal to the model. -/
theorem gen_Repr_reduce_with_hint (x : Q) (hint : Nat) (hd : 0 < x.den) :
    RatFns.Repr_reduce_with_hint x.num x.den hint = reduceWithHint x hint := by
  unfold RatFns.Repr_reduce_with_hint reduceWithHint
  by_cases h0 : x.num = 0
  · fsimp [h0]
  · have hn : 0 < x.num.natAbs := Int.natAbs_pos.mpr h0
    have hg : ∀ a, gcdK a x.den = .ok (Nat.gcd a x.den) := fun a => gcdK_of_pos_right a hd
    have hg' : ∀ a, gcdK x.den a = .ok (Nat.gcd x.den a) := fun a => gcdK_of_pos_left a hd
    have hm : ∀ a, gcdK a x.num.natAbs = .ok (Nat.gcd a x.num.natAbs) := fun a => gcdK_of_pos_right a hn
    have hm' : ∀ a, gcdK x.num.natAbs a = .ok (Nat.gcd x.num.natAbs a) := fun a => gcdK_of_pos_left a hn
    simp only [G.gcd_eq, Int.natAbs_natCast, hg, hg', hm, hm', map_ok, ok_bind]
    fsimp [h0, hd.ne', Nat.gcd_comm, Nat.gcd_assoc, Nat.gcd_left_comm]

theorem natCast_shiftRight_toNat (d z : Nat) : ((d : Int) >>> z).toNat = d >>> z := by
  rw [Int.shiftRight_eq_div_pow, Nat.shiftRight_eq_div_pow]
  norm_cast

theorem gen_Repr_reduce2 (x : Q) : RatFns.Repr_reduce2 x.num x.den = reduce2 x := by
  unfold RatFns.Repr_reduce2 reduce2
  by_cases h0 : x.num = 0
  · fsimp [h0]
  · by_cases hd : x.den = 0
    · fsimp [h0, hd]
    · by_cases hle : tz x.num.natAbs ≤ tz x.den
      · have hm : min (tz x.num.natAbs) (tz x.den) = tz x.num.natAbs := Nat.min_eq_left hle
        simp only [hm]
        by_cases hz : 0 < tz x.num.natAbs
        · fsimp [h0, hd, hle, hz, natCast_shiftRight_toNat]
        · fsimp [h0, hd, hle, hz]
      · have hm : min (tz x.num.natAbs) (tz x.den) = tz x.den := Nat.min_eq_right (by omega)
        simp only [hm]
        by_cases hz : 0 < tz x.den
        · fsimp [h0, hd, hle, hz, natCast_shiftRight_toNat]
        · fsimp [h0, hd, hle, hz]

theorem gen_Repr_split_at_point (x : Q) : RatFns.Repr_split_at_point x.num x.den = splitAtPoint x := by
  unfold RatFns.Repr_split_at_point splitAtPoint
  fsimp
  cases divRemK x.num x.den with
  | error e => rfl
  | ok p => obtain ⟨t, r⟩ := p; by_cases hr : r = 0 <;> fsimp [hr]

theorem gen_Repr_ceil (x : Q) : RatFns.Repr_ceil x.num x.den = ceil x := by
  unfold RatFns.Repr_ceil ceil
  fsimp

theorem gen_Repr_floor (x : Q) : RatFns.Repr_floor x.num x.den = floor x := by
  unfold RatFns.Repr_floor floor
  fsimp

theorem gen_Repr_trunc (x : Q) : RatFns.Repr_trunc x.num x.den = trunc x := by
  unfold RatFns.Repr_trunc trunc divRemK
  by_cases hd : x.den = 0 <;> fsimp [hd]

theorem gen_Repr_fract (x : Q) : RatFns.Repr_fract x.num x.den = fract x := by
  unfold RatFns.Repr_fract fract divRemK
  by_cases hd : x.den = 0
  · fsimp [hd]
  · by_cases hr : Int.tmod x.num x.den = 0 <;> fsimp [hd, hr]

theorem gen_Repr_round (x : Q) : RatFns.Repr_round x.num x.den = round x := by
  unfold RatFns.Repr_round round
  fsimp
  cases divRemK x.num x.den with
  | error e => rfl
  | ok p =>
    obtain ⟨t, r⟩ := p
    fsimp
    have e1 : ((x.den : Int) ≤ (r.natAbs : Int) * 2) ↔ (x.den ≤ r.natAbs * 2) := by omega
    have e2 : sgn x.num = 1 ↔ ¬ x.num < 0 := by unfold sgn; split <;> simp_all
    by_cases hc : x.den ≤ r.natAbs * 2
    · by_cases hn : x.num < 0 <;> simp [-Int.natCast_natAbs, -Nat.cast_natAbs, hc, e1, e2, hn]
    · simp [-Int.natCast_natAbs, -Nat.cast_natAbs, hc, e1]

theorem gen_Repr_inv (x : Q) : RatFns.Repr_inv x.num x.den = inv x := by
  unfold RatFns.Repr_inv inv
  by_cases h0 : x.num = 0 <;> fsimp [h0]

theorem gen_Repr_neg (x : Q) : RatFns.Repr_neg x.num x.den = .ok (neg x) := by
  unfold RatFns.Repr_neg neg; fsimp

theorem gen_Repr_abs (x : Q) : RatFns.Repr_abs x.num x.den = .ok (abs x) := by
  unfold RatFns.Repr_abs abs
  fsimp
  unfold sgn
  by_cases h : x.num < 0
  · simp [-Int.natCast_natAbs, -Nat.cast_natAbs, h]; omega
  · simp [-Int.natCast_natAbs, -Nat.cast_natAbs, h]; omega

theorem gen_Repr_mul_sign (x : Q) (s : Bool) :
    RatFns.Repr_mul_sign x.num x.den (if s then -1 else 1) = .ok (mulSign x s) := by
  unfold RatFns.Repr_mul_sign mulSign
  cases s <;> fsimp

theorem gen_Repr_sqr (x : Q) : RatFns.Repr_sqr x.num x.den = .ok (sqr x) := by
  unfold RatFns.Repr_sqr sqr; fsimp

theorem gen_Repr_cubic (x : Q) : RatFns.Repr_cubic x.num x.den = .ok (cubic x) := by
  unfold RatFns.Repr_cubic cubic; fsimp

theorem gen_Repr_pow (x : Q) (n : Nat) : RatFns.Repr_pow x.num x.den n = .ok (pow x n) := by
  unfold RatFns.Repr_pow
  rw [pow_def]
  fsimp [ipowK_eq]
  norm_cast

theorem gen_RBig_from_parts (n : Int) (d : Nat) : RatFns.RBig_from_parts n d = rFromParts n d := by
  unfold RatFns.RBig_from_parts rFromParts
  by_cases hd : d = 0 <;> fsimp [hd]

theorem gen_Relaxed_from_parts (n : Int) (d : Nat) : RatFns.Relaxed_from_parts n d = xFromParts n d := by
  unfold RatFns.Relaxed_from_parts xFromParts
  by_cases hd : d = 0 <;> fsimp [hd]

theorem gen_RBig_from_parts_signed (n d : Int) : RatFns.RBig_from_parts_signed n d = rFromPartsSigned n d := by
  unfold RatFns.RBig_from_parts_signed rFromPartsSigned; fsimp

theorem gen_Relaxed_from_parts_signed (n d : Int) :
    RatFns.Relaxed_from_parts_signed n d = xFromPartsSigned n d := by
  unfold RatFns.Relaxed_from_parts_signed xFromPartsSigned; fsimp

-- ------------------------------------------------------------------ from_parts_const

/-- the regenerated `while r > 1 { (y, r) = (r, y % r) }` IS the model's `constGcdLoop` -/
theorem while_dec_constGcdLoop : ∀ (r y : Nat),
    G.while_dec (fun (s : Int × Int) => s.2.toNat) (fun s => G.gt s.2 (1 : Int))
      (fun s => (s.2, G.rem_u s.1 s.2)) ((y : Int), (r : Int))
      = (((constGcdLoop y r).1 : Int), ((constGcdLoop y r).2 : Int)) := by
  intro r
  induction r using Nat.strong_induction_on with
  | _ r ih =>
    intro y
    unfold G.while_dec constGcdLoop
    by_cases h : r > 1
    · have hc : G.gt (r : Int) 1 = true := by simp [G.gt]; omega
      have hlt : y % r < r := Nat.mod_lt _ (by omega)
      have hm : ((G.rem_u (y : Int) (r : Int)).toNat) < (r : Int).toNat := by
        simp only [G.rem_u, ← Int.natCast_emod, Int.toNat_natCast]; exact hlt
      simp only [hc, if_true, hm, dite_true, h]
      have := ih (y % r) hlt r
      simp only [G.rem_u, ← Int.natCast_emod] at this ⊢
      exact this
    · have hc : G.gt (r : Int) 1 = false := by simp [G.gt]; omega
      simp [hc, h]

theorem gen_RBig_from_parts_const (neg : Bool) (n d : Nat) :
    RatFns.RBig_from_parts_const (if neg then -1 else 1) n d = rFromPartsConst neg n d := by
  unfold RatFns.RBig_from_parts_const rFromPartsConst
  by_cases hd : d = 0
  · fsimp [hd]
  · by_cases hn : n = 0
    · fsimp [hd, hn]
    · have hloop := while_dec_constGcdLoop (n % d) d
      by_cases hb : n > 1 ∧ d > 1
      · have hb' : G.and (G.gt (n : Int) 1) (G.gt (d : Int) 1) = true := by
          simp [G.and, G.gt]; omega
        simp only [G.eq, Int.natCast_eq_zero, hd, hn, decide_false, Bool.false_eq_true, if_false, hb', if_true, hb,
          G.rem_u, ← Int.natCast_emod]
        simp only [G.rem_u, ← Int.natCast_emod] at hloop
        rw [show (fun (x : Int × Int) => match x with | (y, r) => r.toNat) = (fun s : Int × Int => s.2.toNat) from rfl,
          show (fun (x : Int × Int) => match x with | (y, r) => G.gt r 1) = (fun s : Int × Int => G.gt s.2 1) from rfl] at *
        simp only [hloop]
        generalize constGcdLoop d (n % d) = p
        obtain ⟨y, r⟩ := p
        by_cases hr : r = 0
        · cases neg <;> fsimp [hr, G.div_u]
        · cases neg <;> fsimp [hr, G.div_u]
      · have hb2 : ¬ (1 < n ∧ 1 < d) := hb
        cases neg <;> fsimp [hd, hn, hb2, G.and]

theorem gen_Relaxed_from_parts_const (neg : Bool) (n d : Nat) :
    RatFns.Relaxed_from_parts_const (if neg then -1 else 1) n d = xFromPartsConst neg n d := by
  unfold RatFns.Relaxed_from_parts_const xFromPartsConst
  by_cases hd : d = 0
  · fsimp [hd]
  · by_cases hn : n = 0
    · fsimp [hd, hn]
    · by_cases hle : tz n ≤ tz d
      · cases neg <;> fsimp [hd, hn, hle, G.le, G.tz_prim, natCast_shiftRight_toNat] <;> norm_cast
      · cases neg <;> fsimp [hd, hn, hle, G.le, G.tz_prim, natCast_shiftRight_toNat] <;> norm_cast

end Dashu.Model.Ratio
