import Dashu.Proofs.Ratio.Relaxed
/-
  `RBig::from_parts_const` / `Relaxed::from_parts_const` (rational/src/rbig.rs): the naive const
  Euclid loop finds the gcd, so the RBig is in lowest terms; the Relaxed one strips the common
  power of two.
-/
namespace Dashu.Model.Ratio
open Dashu.Model

/-- the loop `while r > 1 { (y, r) = (r, y % r) }` keeps `gcd(y, r)` and ends with `r ≤ 1` -/
theorem constGcdLoop_spec : ∀ (r y : ℕ),
    Nat.gcd (constGcdLoop y r).1 (constGcdLoop y r).2 = Nat.gcd y r ∧ (constGcdLoop y r).2 ≤ 1 := by
  intro r
  induction r using Nat.strong_induction_on with
  | _ r ih =>
    intro y
    rw [constGcdLoop]
    by_cases h : r > 1
    · simp only [h, dite_true]
      have hlt : y % r < r := Nat.mod_lt _ (by omega)
      obtain ⟨h1, h2⟩ := ih (y % r) hlt r
      refine ⟨?_, h2⟩
      rw [h1, Nat.gcd_comm r (y % r), ← Nat.gcd_rec, Nat.gcd_comm]
    · simp only [h, dite_false]
      exact ⟨trivial, by omega⟩

/-- **`RBig::from_parts_const`**: zero denominator panics; otherwise the result is in lowest terms
    and has the value `± n/d` -/
theorem rFromPartsConst_spec (neg : Bool) (n d : ℕ) :
    (d = 0 → rFromPartsConst neg n d = .error .divideByZero) ∧
    (0 < d → ∃ r, rFromPartsConst neg n d = .ok r ∧ Reduced r ∧
      r.val = (if neg then -((n : ℚ) / d) else (n : ℚ) / d)) := by
  constructor
  · intro h; simp [rFromPartsConst, h]
  · intro hd
    unfold rFromPartsConst
    rw [if_neg (by omega)]
    by_cases hn : n = 0
    · rw [if_pos hn]
      exact ⟨Q.zero, rfl, reduced_zero, by subst hn; cases neg <;> simp [Q.zero, Q.val_def]⟩
    · rw [if_neg hn]
      -- the pair (n', d') chosen by the code
      have key : ∀ n' d' : ℕ, 0 < d' → Nat.gcd n' d' = 1 → (n' : ℚ) / d' = (n : ℚ) / d →
          ∃ r, (Except.ok ⟨if neg then -(n' : ℤ) else (n' : ℤ), d'⟩ : Except PanicKind Q) = .ok r ∧
            Reduced r ∧ r.val = (if neg then -((n : ℚ) / d) else (n : ℚ) / d) := by
        intro n' d' hd' hg hv
        refine ⟨_, rfl, ⟨hd', ?_⟩, ?_⟩
        · cases neg <;> simpa using hg
        · cases neg
          · simp only [Bool.false_eq_true, if_false, Q.val_def, Int.cast_natCast]; exact hv
          · simp only [if_true, Q.val_def, Int.cast_neg, Int.cast_natCast, neg_div]; rw [hv]
      by_cases hbig : n > 1 ∧ d > 1
      · simp only [hbig, and_self, if_true]
        obtain ⟨hg, hr⟩ := constGcdLoop_spec (n % d) d
        have hgnd : Nat.gcd d (n % d) = Nat.gcd n d := by
          rw [Nat.gcd_comm d (n % d), ← Nat.gcd_rec, Nat.gcd_comm]
        rw [hgnd] at hg
        generalize constGcdLoop d (n % d) = yr at hg hr
        obtain ⟨y, r⟩ := yr
        simp only at hg hr ⊢
        by_cases hr0 : r = 0
        · simp only [hr0, if_true]
          rw [hr0, Nat.gcd_zero_right] at hg
          rw [hg]
          have hgpos : 0 < Nat.gcd n d := Nat.gcd_pos_of_pos_right _ hd
          apply key
          · exact Nat.div_pos (Nat.le_of_dvd hd (Nat.gcd_dvd_right _ _)) hgpos
          · exact Nat.coprime_div_gcd_div_gcd hgpos
          · have hg0 : ((Nat.gcd n d : ℕ) : ℚ) ≠ 0 := by exact_mod_cast hgpos.ne'
            rw [Nat.cast_div (Nat.gcd_dvd_left _ _) hg0, Nat.cast_div (Nat.gcd_dvd_right _ _) hg0,
              div_div_div_cancel_right₀ hg0]
        · simp only [hr0, if_false]
          have hr1 : r = 1 := by omega
          rw [hr1, Nat.gcd_one_right] at hg
          exact key n d hd hg.symm rfl
      · simp only [hbig, if_false]
        apply key n d hd _ rfl
        have : n = 1 ∨ d = 1 := by omega
        rcases this with h | h <;> simp [h]

/-- `Relaxed::from_parts_const` is `reduce2` of the signed pair -/
theorem xFromPartsConst_eq_reduce2 (neg : Bool) (n d : ℕ) (hd : 0 < d) :
    xFromPartsConst neg n d = reduce2 ⟨if neg then -(n : ℤ) else (n : ℤ), d⟩ := by
  unfold xFromPartsConst reduce2
  rw [if_neg (by omega)]
  by_cases hn : n = 0
  · subst hn; cases neg <;> simp
  · have hnum : (if neg then -(n : ℤ) else (n : ℤ)) ≠ 0 := by cases neg <;> simp <;> omega
    have habs : (if neg then -(n : ℤ) else (n : ℤ)).natAbs = n := by cases neg <;> simp
    simp only [if_neg hn, if_neg hnum, if_neg (by omega : ¬ d = 0), habs]
    have hz : (if tz n ≤ tz d then tz n else tz d) = min (tz n) (tz d) := by
      rw [Nat.min_def]
    rw [hz]
    set z := min (tz n) (tz d) with hzd
    have hdvd : 2 ^ z ∣ n := (pow_dvd_pow 2 (min_le_left _ _)).trans (tz_spec n hn).1
    have hshift : (if neg then -(n : ℤ) else (n : ℤ)) >>> z =
        (if neg then -((n >>> z : ℕ) : ℤ) else ((n >>> z : ℕ) : ℤ)) := by
      rw [Int.shiftRight_eq_div_pow, Nat.shiftRight_eq_div_pow]
      have hdz : ((2 ^ z : ℕ) : ℤ) ∣ (n : ℤ) := by exact_mod_cast hdvd
      cases neg
      · simp only [Bool.false_eq_true, if_false]; push_cast; rfl
      · simp only [if_true]
        have : (-(n : ℤ)) / ((2 : ℤ) ^ z) = -((n : ℤ) / (2 : ℤ) ^ z) := by
          apply Int.neg_ediv_of_dvd; exact_mod_cast hdz
        push_cast at this ⊢
        rw [this]
    by_cases hzp : z > 0
    · rw [if_pos hzp, hshift]
    · rw [if_neg hzp]
      have hz0 : z = 0 := by omega
      rw [hz0]; simp

/-- **`Relaxed::from_parts_const`**: zero denominator panics; otherwise a valid Relaxed pair of
    value `± n/d` from which exactly the common power of two is removed -/
theorem xFromPartsConst_spec (neg : Bool) (n d : ℕ) :
    (d = 0 → xFromPartsConst neg n d = .error .divideByZero) ∧
    (0 < d → ∃ r, xFromPartsConst neg n d = .ok r ∧ RelaxedInv r ∧
      r.val = (if neg then -((n : ℚ) / d) else (n : ℚ) / d) ∧
      (n ≠ 0 → ∃ k, n = r.num.natAbs * 2 ^ k ∧ d = r.den * 2 ^ k)) := by
  constructor
  · intro h; simp [xFromPartsConst, h]
  · intro hd
    rw [xFromPartsConst_eq_reduce2 neg n d hd]
    obtain ⟨r, h1, h2, h3, h4⟩ := reduce2_spec ⟨if neg then -(n : ℤ) else (n : ℤ), d⟩ hd
    refine ⟨r, h1, h2, ?_, ?_⟩
    · rw [h3]; cases neg <;> simp [Q.val_def, neg_div]
    · intro hn
      obtain ⟨k, hk1, hk2⟩ := h4 (by cases neg <;> simp <;> omega)
      refine ⟨k, ?_, hk2⟩
      have := congrArg Int.natAbs hk1
      simp only [Int.natAbs_mul, Int.natAbs_pow] at this
      cases neg <;> simpa using this

end Dashu.Model.Ratio
