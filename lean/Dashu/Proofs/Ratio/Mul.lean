import Dashu.Proofs.Ratio.Basic
/-
  `rational/src/mul.rs`, `div.rs` (quotients, inverse), `sign.rs`: cross cancellation
  `gcd(a,d)`, `gcd(b,c)` before multiplying leaves nothing to reduce afterwards.
-/
namespace Dashu.Model.Ratio
open Dashu.Model

theorem sgn_mul_natAbs (a : ℤ) : sgn a * (a.natAbs : ℤ) = a := by
  unfold sgn; split <;> omega

theorem natAbs_sgn (a : ℤ) : (sgn a).natAbs = 1 := by
  unfold sgn; split <;> rfl

theorem sgn_cast_ne_zero (a : ℤ) : ((sgn a : ℤ) : ℚ) ≠ 0 := by
  unfold sgn; split <;> norm_num

theorem sgn_mul_sgn (a : ℤ) : sgn a * sgn a = 1 := by
  unfold sgn; split <;> norm_num

theorem natAbs_cast_eq (a : ℤ) : ((a.natAbs : ℕ) : ℚ) = (sgn a : ℚ) * (a : ℚ) := by
  have h := sgn_mul_natAbs a
  have h2 : (a.natAbs : ℤ) = sgn a * a := by
    have := congrArg (fun t => sgn a * t) h
    simp only [← mul_assoc, sgn_mul_sgn, one_mul] at this
    exact this
  have : ((a.natAbs : ℤ) : ℚ) = ((sgn a * a : ℤ) : ℚ) := by rw [h2]
  simpa using this

theorem cast_tdiv_of_dvd (n : ℤ) (g : ℕ) (hg : 0 < g) (h : g ∣ n.natAbs) :
    ((Int.tdiv n g : ℤ) : ℚ) = (n : ℚ) / (g : ℚ) := by
  have hn : (g : ℤ) ∣ n := natCast_dvd_of_dvd_natAbs h
  rw [Int.tdiv_eq_ediv_of_dvd hn, Int.cast_div hn (by exact_mod_cast hg.ne')]
  simp

theorem cast_ndiv_of_dvd (n g : ℕ) (hg : 0 < g) (h : g ∣ n) :
    ((n / g : ℕ) : ℚ) = (n : ℚ) / (g : ℚ) :=
  Nat.cast_div h (by exact_mod_cast hg.ne')

theorem natAbs_tdiv_nat (n : ℤ) (g : ℕ) : (Int.tdiv n g).natAbs = n.natAbs / g := by
  rw [Int.natAbs_tdiv, Int.natAbs_natCast]; rfl

/-- `impl_mul_with_rbig` -/
theorem R.mul_spec (x y : Q) (hx : Reduced x) (hy : Reduced y) :
    ∃ r, R.mul x y = .ok r ∧ Reduced r ∧ r.val = x.val * y.val := by
  obtain ⟨a, b⟩ := x
  obtain ⟨c, d⟩ := y
  have hb : 0 < b := hx.den_pos
  have hd : 0 < d := hy.den_pos
  have hab : Nat.Coprime a.natAbs b := hx.2
  have hcd : Nat.Coprime c.natAbs d := hy.2
  unfold R.mul
  simp only [gcdK_of_pos_right _ hd, gcdK_of_pos_left _ hb, bind_ok']
  set g1 := Nat.gcd a.natAbs d with hg1
  set g2 := Nat.gcd b c.natAbs with hg2
  have hg1pos : 0 < g1 := Nat.gcd_pos_of_pos_right _ hd
  have hg2pos : 0 < g2 := Nat.gcd_pos_of_pos_left _ hb
  have d1a : g1 ∣ a.natAbs := Nat.gcd_dvd_left _ _
  have d1d : g1 ∣ d := Nat.gcd_dvd_right _ _
  have d2b : g2 ∣ b := Nat.gcd_dvd_left _ _
  have d2c : g2 ∣ c.natAbs := Nat.gcd_dvd_right _ _
  refine ⟨_, rfl, ⟨?_, ?_⟩, ?_⟩
  · exact Nat.mul_pos (Nat.div_pos (Nat.le_of_dvd hb d2b) hg2pos)
      (Nat.div_pos (Nat.le_of_dvd hd d1d) hg1pos)
  · show Nat.Coprime _ _
    simp only [Int.natAbs_mul, natAbs_tdiv_nat]
    have c1 : Nat.Coprime (a.natAbs / g1) (d / g1) := Nat.coprime_div_gcd_div_gcd hg1pos
    have c2 : Nat.Coprime (b / g2) (c.natAbs / g2) := Nat.coprime_div_gcd_div_gcd hg2pos
    have c3 : Nat.Coprime (a.natAbs / g1) (b / g2) :=
      (hab.coprime_div_left d1a).coprime_div_right d2b
    have c4 : Nat.Coprime (c.natAbs / g2) (d / g1) :=
      (hcd.coprime_div_left d2c).coprime_div_right d1d
    exact Nat.Coprime.mul_left (Nat.Coprime.mul_right c3 c1) (Nat.Coprime.mul_right c2.symm c4)
  · simp only [Q.val_mk]
    push_cast
    rw [cast_tdiv_of_dvd a g1 hg1pos d1a, cast_tdiv_of_dvd c g2 hg2pos d2c,
      cast_ndiv_of_dvd b g2 hg2pos d2b, cast_ndiv_of_dvd d g1 hg1pos d1d]
    have h1 : (g1 : ℚ) ≠ 0 := by exact_mod_cast hg1pos.ne'
    have h2 : (g2 : ℚ) ≠ 0 := by exact_mod_cast hg2pos.ne'
    have h3 : (b : ℚ) ≠ 0 := by exact_mod_cast hb.ne'
    have h4 : (d : ℚ) ≠ 0 := by exact_mod_cast hd.ne'
    field_simp

/-- `impl_mul_int_with_rbig` -/
theorem R.mulInt_spec (x : Q) (i : ℤ) (hx : Reduced x) :
    ∃ r, R.mulInt x i = .ok r ∧ Reduced r ∧ r.val = x.val * i := by
  obtain ⟨a, b⟩ := x
  have hb : 0 < b := hx.den_pos
  have hab : Nat.Coprime a.natAbs b := hx.2
  unfold R.mulInt
  simp only [gcdK_of_pos_left _ hb, bind_ok']
  set g := Nat.gcd b i.natAbs with hg
  have hgpos : 0 < g := Nat.gcd_pos_of_pos_left _ hb
  have db : g ∣ b := Nat.gcd_dvd_left _ _
  have di : g ∣ i.natAbs := Nat.gcd_dvd_right _ _
  refine ⟨_, rfl, ⟨Nat.div_pos (Nat.le_of_dvd hb db) hgpos, ?_⟩, ?_⟩
  · show Nat.Coprime _ _
    simp only [Int.natAbs_mul, natAbs_tdiv_nat]
    have c1 : Nat.Coprime (b / g) (i.natAbs / g) := Nat.coprime_div_gcd_div_gcd hgpos
    exact Nat.Coprime.mul_left (hab.coprime_div_right db) c1.symm
  · simp only [Q.val_mk]
    push_cast
    rw [cast_tdiv_of_dvd i g hgpos di, cast_ndiv_of_dvd b g hgpos db]
    have h1 : (g : ℚ) ≠ 0 := by exact_mod_cast hgpos.ne'
    have h3 : (b : ℚ) ≠ 0 := by exact_mod_cast hb.ne'
    field_simp

/-- `impl_div_with_rbig`: zero divisor ⇒ `DivideByZero`, otherwise reduced and exact -/
theorem R.div_spec (x y : Q) (hx : Reduced x) (hy : Reduced y) :
    (y.num = 0 → R.div x y = .error .divideByZero) ∧
    (y.num ≠ 0 → ∃ r, R.div x y = .ok r ∧ Reduced r ∧ r.val = x.val / y.val) := by
  obtain ⟨a, b⟩ := x
  obtain ⟨c, d⟩ := y
  have hb : 0 < b := hx.den_pos
  have hd : 0 < d := hy.den_pos
  have hab : Nat.Coprime a.natAbs b := hx.2
  have hcd : Nat.Coprime c.natAbs d := hy.2
  constructor
  · intro h; simp only at h; simp [R.div, h]
  · intro hc
    simp only at hc
    have hcpos : 0 < c.natAbs := Int.natAbs_pos.mpr hc
    unfold R.div
    simp only [if_neg hc, gcdK_of_pos_right _ hcpos, gcdK_of_pos_right _ hd, bind_ok']
    set g1 := Nat.gcd a.natAbs c.natAbs with hg1
    set g2 := Nat.gcd b d with hg2
    have hg1pos : 0 < g1 := Nat.gcd_pos_of_pos_right _ hcpos
    have hg2pos : 0 < g2 := Nat.gcd_pos_of_pos_left _ hb
    have d1a : g1 ∣ a.natAbs := Nat.gcd_dvd_left _ _
    have d1c : g1 ∣ c.natAbs := Nat.gcd_dvd_right _ _
    have d2b : g2 ∣ b := Nat.gcd_dvd_left _ _
    have d2d : g2 ∣ d := Nat.gcd_dvd_right _ _
    refine ⟨_, rfl, ⟨?_, ?_⟩, ?_⟩
    · exact Nat.mul_pos (Nat.div_pos (Nat.le_of_dvd hb d2b) hg2pos)
        (Nat.div_pos (Nat.le_of_dvd hcpos d1c) hg1pos)
    · show Nat.Coprime _ _
      simp only [Int.natAbs_mul, natAbs_tdiv_nat, natAbs_sgn, Int.natAbs_natCast, mul_one]
      have c1 : Nat.Coprime (a.natAbs / g1) (c.natAbs / g1) := Nat.coprime_div_gcd_div_gcd hg1pos
      have c2 : Nat.Coprime (b / g2) (d / g2) := Nat.coprime_div_gcd_div_gcd hg2pos
      have c3 : Nat.Coprime (a.natAbs / g1) (b / g2) :=
        (hab.coprime_div_left d1a).coprime_div_right d2b
      have c4 : Nat.Coprime (d / g2) (c.natAbs / g1) :=
        (hcd.symm.coprime_div_left d2d).coprime_div_right d1c
      exact Nat.Coprime.mul_left (Nat.Coprime.mul_right c3 c1) (Nat.Coprime.mul_right c2.symm c4)
    · simp only [Q.val_mk, Int.cast_mul, Int.cast_natCast, Nat.cast_mul]
      rw [cast_tdiv_of_dvd a g1 hg1pos d1a, cast_ndiv_of_dvd d g2 hg2pos d2d,
        cast_ndiv_of_dvd b g2 hg2pos d2b, cast_ndiv_of_dvd _ g1 hg1pos d1c, natAbs_cast_eq]
      have h1 : (g1 : ℚ) ≠ 0 := by exact_mod_cast hg1pos.ne'
      have h2 : (g2 : ℚ) ≠ 0 := by exact_mod_cast hg2pos.ne'
      have h3 : (b : ℚ) ≠ 0 := by exact_mod_cast hb.ne'
      have h4 : (d : ℚ) ≠ 0 := by exact_mod_cast hd.ne'
      have h5 : (c : ℚ) ≠ 0 := by exact_mod_cast hc
      have h6 := sgn_cast_ne_zero c
      field_simp

/-- `impl_rbig_div_ubig` / `impl_rbig_div_ibig` -/
theorem R.divInt_spec (x : Q) (i : ℤ) (hx : Reduced x) :
    (i = 0 → R.divInt x i = .error .divideByZero) ∧
    (i ≠ 0 → ∃ r, R.divInt x i = .ok r ∧ Reduced r ∧ r.val = x.val / i) := by
  obtain ⟨a, b⟩ := x
  have hb : 0 < b := hx.den_pos
  have hab : Nat.Coprime a.natAbs b := hx.2
  constructor
  · intro h; simp [R.divInt, h]
  · intro hi
    have hipos : 0 < i.natAbs := Int.natAbs_pos.mpr hi
    unfold R.divInt
    simp only [if_neg hi, gcdK_of_pos_right _ hipos, bind_ok']
    set g := Nat.gcd a.natAbs i.natAbs with hg
    have hgpos : 0 < g := Nat.gcd_pos_of_pos_right _ hipos
    have da : g ∣ a.natAbs := Nat.gcd_dvd_left _ _
    have di : g ∣ i.natAbs := Nat.gcd_dvd_right _ _
    refine ⟨_, rfl, ⟨Nat.mul_pos hb (Nat.div_pos (Nat.le_of_dvd hipos di) hgpos), ?_⟩, ?_⟩
    · show Nat.Coprime _ _
      simp only [Int.natAbs_mul, natAbs_tdiv_nat, natAbs_sgn, mul_one]
      have c1 : Nat.Coprime (a.natAbs / g) (i.natAbs / g) := Nat.coprime_div_gcd_div_gcd hgpos
      exact Nat.Coprime.mul_right (hab.coprime_div_left da) c1
    · simp only [Q.val_mk]
      push_cast
      rw [cast_tdiv_of_dvd a g hgpos da, cast_ndiv_of_dvd _ g hgpos di, natAbs_cast_eq]
      have h1 : (g : ℚ) ≠ 0 := by exact_mod_cast hgpos.ne'
      have h3 : (b : ℚ) ≠ 0 := by exact_mod_cast hb.ne'
      have h5 : (i : ℚ) ≠ 0 := by exact_mod_cast hi
      have h6 := sgn_cast_ne_zero i
      field_simp

/-- `impl_ubig_or_ibig_div_rbig`: `int / RBig` -/
theorem R.intDiv_spec (i : ℤ) (x : Q) (hx : Reduced x) :
    (x.num = 0 → R.intDiv i x = .error .divideByZero) ∧
    (x.num ≠ 0 → ∃ r, R.intDiv i x = .ok r ∧ Reduced r ∧ r.val = i / x.val) := by
  obtain ⟨a, b⟩ := x
  have hb : 0 < b := hx.den_pos
  have hab : Nat.Coprime a.natAbs b := hx.2
  constructor
  · intro h; simp only at h; simp [R.intDiv, h]
  · intro ha
    simp only at ha
    have hapos : 0 < a.natAbs := Int.natAbs_pos.mpr ha
    unfold R.intDiv
    simp only [if_neg ha, gcdK_of_pos_left _ hapos, bind_ok']
    set g := Nat.gcd a.natAbs i.natAbs with hg
    have hgpos : 0 < g := Nat.gcd_pos_of_pos_left _ hapos
    have da : g ∣ a.natAbs := Nat.gcd_dvd_left _ _
    have di : g ∣ i.natAbs := Nat.gcd_dvd_right _ _
    refine ⟨_, rfl, ⟨Nat.div_pos (Nat.le_of_dvd hapos da) hgpos, ?_⟩, ?_⟩
    · show Nat.Coprime _ _
      simp only [Int.natAbs_mul, natAbs_tdiv_nat, natAbs_sgn, Int.natAbs_natCast, mul_one]
      have c1 : Nat.Coprime (a.natAbs / g) (i.natAbs / g) := Nat.coprime_div_gcd_div_gcd hgpos
      exact Nat.Coprime.mul_left (hab.symm.coprime_div_right da) c1.symm
    · simp only [Q.val_mk]
      push_cast
      rw [cast_tdiv_of_dvd i g hgpos di, cast_ndiv_of_dvd _ g hgpos da, natAbs_cast_eq]
      have h1 : (g : ℚ) ≠ 0 := by exact_mod_cast hgpos.ne'
      have h3 : (b : ℚ) ≠ 0 := by exact_mod_cast hb.ne'
      have h5 : (a : ℚ) ≠ 0 := by exact_mod_cast ha
      have h6 := sgn_cast_ne_zero a
      field_simp

/-- `Inverse for Repr` (with the required zero test) -/
theorem inv_spec (x : Q) (hx : Reduced x) :
    (x.num = 0 → inv x = .error .divideByZero) ∧
    (x.num ≠ 0 → ∃ r, inv x = .ok r ∧ Reduced r ∧ r.val = 1 / x.val) := by
  obtain ⟨a, b⟩ := x
  have hb : 0 < b := hx.den_pos
  have hab : Nat.Coprime a.natAbs b := hx.2
  constructor
  · intro h; simp only at h; simp [inv, h]
  · intro ha
    simp only at ha
    have hapos : 0 < a.natAbs := Int.natAbs_pos.mpr ha
    unfold inv
    simp only [if_neg ha]
    refine ⟨_, rfl, ⟨hapos, ?_⟩, ?_⟩
    · show Nat.Coprime _ _
      simp only [Int.natAbs_mul, natAbs_sgn, Int.natAbs_natCast, one_mul]
      exact hab.symm
    · simp only [Q.val_mk]
      push_cast
      rw [natAbs_cast_eq]
      have h3 : (b : ℚ) ≠ 0 := by exact_mod_cast hb.ne'
      have h5 : (a : ℚ) ≠ 0 := by exact_mod_cast ha
      have h6 := sgn_cast_ne_zero a
      field_simp

/-- `Repr::pow` (and `sqr`, `cubic`): powers of coprime numbers are coprime -/
theorem pow_spec (x : Q) (n : ℕ) (hx : Reduced x) :
    Reduced (pow x n) ∧ (pow x n).val = x.val ^ n := by
  obtain ⟨a, b⟩ := x
  rw [pow_def]
  refine ⟨⟨Nat.pow_pos hx.den_pos, ?_⟩, ?_⟩
  · show Nat.Coprime _ _
    simp only [Int.natAbs_pow]
    exact Nat.Coprime.pow n n hx.2
  · simp [div_pow]

theorem sqr_eq_pow (x : Q) : sqr x = pow x 2 := by
  simp [sqr, pow_def, _root_.pow_two]

theorem cubic_eq_pow (x : Q) : cubic x = pow x 3 := by
  simp [cubic, pow_def, _root_.pow_succ]

theorem neg_spec (x : Q) (hx : Reduced x) : Reduced (neg x) ∧ (neg x).val = -x.val := by
  refine ⟨by simpa [Reduced, neg] using hx, ?_⟩
  simp [neg, Q.val_def, neg_div]

theorem abs_spec (x : Q) (hx : Reduced x) : Reduced (abs x) ∧ (abs x).val = |x.val| := by
  refine ⟨by simpa [Reduced, abs, Int.natAbs_abs] using hx, ?_⟩
  have hb : (0 : ℚ) < x.den := by exact_mod_cast hx.den_pos
  have e : ((x.num.natAbs : ℤ) : ℚ) = |(x.num : ℚ)| := by rw [Int.natCast_natAbs, Int.cast_abs]
  simp only [abs, Q.val_def, abs_div, abs_of_pos hb, e]

theorem signum_spec (x : Q) : Reduced (signum x) ∧ (signum x).val = Spec.sgnRat x.val ∨ x.den = 0 := by
  rcases Nat.eq_zero_or_pos x.den with h | h
  · exact Or.inr h
  · left
    have hb : (0 : ℚ) < x.den := by exact_mod_cast h
    refine ⟨⟨by simp [signum], ?_⟩, ?_⟩
    · simp [signum]
    · simp only [signum, Q.val_def, Spec.sgnRat, Nat.cast_one, div_one]
      rcases lt_trichotomy x.num 0 with hn | hn | hn
      · have : ((x.num : ℚ)) / x.den < 0 := div_neg_of_neg_of_pos (by exact_mod_cast hn) hb
        simp [this, Int.sign_eq_neg_one_of_neg hn]
      · simp [hn]
      · have : 0 < ((x.num : ℚ)) / x.den := div_pos (by exact_mod_cast hn) hb
        simp [this.not_gt, this.ne', Int.sign_eq_one_of_pos hn]

theorem mulSign_spec (x : Q) (s : Bool) (hx : Reduced x) :
    Reduced (mulSign x s) ∧ (mulSign x s).val = if s then -x.val else x.val := by
  cases s
  · exact ⟨by simpa [Reduced, mulSign] using hx, by simp [mulSign, Q.val_def]⟩
  · exact ⟨by simpa [Reduced, mulSign] using hx, by simp [mulSign, Q.val_def, neg_div]⟩

end Dashu.Model.Ratio
