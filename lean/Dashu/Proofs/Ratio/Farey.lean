import Dashu.Proofs.Ratio.Simplify
/-
  `RBig::farey_neighbors` (rational/src/simplify.rs): the mediant walk keeps two fractions
  `a/b ≤ x < c/d` with `b·c − a·d = 1` and stops when `b + d > limit`; such a pair is a pair of
  consecutive elements of the Farey sequence of order `limit`.
-/
namespace Dashu.Model.Ratio
open Dashu.Model

/-- invariant of the mediant walk -/
structure FInv (x : Q) (limit : Nat) (l r : Q) : Prop where
  lden : 0 < l.den
  rden : 0 < r.den
  lle : l.den ≤ limit
  rle : r.den ≤ limit
  det : r.num * l.den - l.num * r.den = 1
  lo : l.val ≤ x.val
  hi : x.val < r.val

theorem mediant_reduced {l r : Q} (hl : 0 < l.den) (hdet : r.num * l.den - l.num * r.den = 1) :
    Reduced ⟨l.num + r.num, l.den + r.den⟩ := by
  rw [reduced_iff_isCoprime]
  refine ⟨by simp only; omega, ?_⟩
  -- r.num·(b+d) − d·(a+c) = 1
  refine ⟨-(r.den : ℤ), r.num, ?_⟩
  push_cast
  linear_combination hdet

/-- between neighbours with determinant 1 every fraction has a denominator ≥ the sum -/
theorem between_den_ge {a c p : ℤ} {b d q : ℕ} (hb : 0 < b) (hd : 0 < d) (hq : 0 < q)
    (hdet : c * b - a * d = 1) (h1 : (a : ℚ) / b < (p : ℚ) / q) (h2 : (p : ℚ) / q < (c : ℚ) / d) :
    b + d ≤ q := by
  have e1 : a * q < p * b := (cast_lt_iff a b p q hb hq).1 h1
  have e2 : p * d < c * q := (cast_lt_iff p q c d hq hd).1 h2
  -- q = q(cb − ad) = b(cq − dp) + d(bp − aq)
  have hx : 1 ≤ c * q - p * d := by omega
  have hy : 1 ≤ p * b - a * q := by omega
  have hbZ : (0 : ℤ) < b := by exact_mod_cast hb
  have hdZ : (0 : ℤ) < d := by exact_mod_cast hd
  have key : (q : ℤ) = b * (c * q - p * d) + d * (p * b - a * q) := by
    linear_combination (-(q : ℤ)) * hdet
  have : (b : ℤ) + d ≤ q := by nlinarith
  exact_mod_cast this

/-- **`farey_neighbors`**: the walk terminates and returns neighbours `left ≤ x < right` with
    determinant 1, denominators `≤ limit`, and `left.den + right.den > limit` -/
theorem fareyLoop_spec (x : Q) (limit : Nat) (hx : 0 < x.den) :
    ∀ (fuel : Nat) (l r : Q), FInv x limit l r → 1 ≤ fuel → limit + 2 ≤ fuel + (l.den + r.den) →
      ∃ l' r', fareyLoop x limit fuel l r = .ok (some (l', r')) ∧ FInv x limit l' r' ∧
        limit < l'.den + r'.den := by
  intro fuel
  induction fuel with
  | zero => intro l r h h1 hf; omega
  | succ fuel ih =>
    intro l r h _ hf
    have hmed := mediant_reduced h.lden h.det
    have hred := reduce_of_reduced _ hmed
    simp only [fareyLoop]
    by_cases hbig : l.den + r.den > limit
    · -- stop
      simp only [hbig, if_true, hred, bind_ok', and_self]
      exact ⟨l, r, rfl, h, hbig⟩
    · have hsm : ¬ ((⟨l.num + r.num, l.den + r.den⟩ : Q).den > limit) := hbig
      simp only [hsm, if_false, bind_ok', false_and, pure_bind]
      have hmden : 0 < l.den + r.den := by have := h.lden; omega
      by_cases hgt : cmpQ ⟨l.num + r.num, l.den + r.den⟩ x = .gt
      · rw [if_pos hgt]
        have hv := (cmpQ_gt_iff _ x hmden hx).1 hgt
        apply ih
        · exact {
            lden := h.lden, rden := hmden, lle := h.lle, rle := by simp only; omega,
            det := by
              have := h.det
              simp only
              push_cast
              linarith,
            lo := h.lo, hi := hv }
        · omega
        · simp only; have := h.lden; omega
      · rw [if_neg hgt]
        have hv : (⟨l.num + r.num, l.den + r.den⟩ : Q).val ≤ x.val := by
          by_contra hc
          exact hgt ((cmpQ_gt_iff _ x hmden hx).2 (not_le.mp hc))
        apply ih
        · exact {
            lden := hmden, rden := h.rden, lle := by simp only; omega, rle := h.rle,
            det := by
              have := h.det
              simp only
              push_cast
              linarith,
            lo := hv, hi := h.hi }
        · omega
        · simp only; have := h.rden; omega

end Dashu.Model.Ratio

namespace Dashu.Model.Ratio
open Dashu.Model

theorem FInv.reduced_left {x : Q} {limit : Nat} {l r : Q} (h : FInv x limit l r) : Reduced l := by
  rw [reduced_iff_isCoprime]
  exact ⟨h.lden, ⟨-(r.den : ℤ), r.num, by linear_combination h.det⟩⟩

theorem FInv.reduced_right {x : Q} {limit : Nat} {l r : Q} (h : FInv x limit l r) : Reduced r := by
  rw [reduced_iff_isCoprime]
  exact ⟨h.rden, ⟨(l.den : ℤ), -l.num, by linear_combination h.det⟩⟩

/-- neighbours are consecutive in the Farey sequence of order `limit`: nothing with a
    denominator `≤ limit` lies strictly between them -/
theorem FInv.consecutive {x : Q} {limit : Nat} {l r : Q} (h : FInv x limit l r)
    (hsum : limit < l.den + r.den) (p : ℤ) (q : ℕ) (hq : 0 < q)
    (h1 : l.val < (p : ℚ) / q) (h2 : (p : ℚ) / q < r.val) : limit < q := by
  have := between_den_ge h.lden h.rden hq h.det h1 h2
  omega

/-- **`RBig::farey_neighbors(x, limit)`** for `−1 ≤ x < 1`, `limit ≥ 1` -/
theorem fareyNeighbors_spec (x : Q) (limit : Nat) (hx : 0 < x.den) (hl : 1 ≤ limit)
    (h1 : -1 ≤ x.val) (h2 : x.val < 1) :
    ∃ l r, fareyNeighbors x limit = .ok (some (l, r)) ∧ FInv x limit l r ∧
      limit < l.den + r.den := by
  unfold fareyNeighbors
  by_cases hneg : x.num < 0
  · simp only [hneg, if_true]
    apply fareyLoop_spec x limit hx
    · exact {
        lden := by decide, rden := by decide, lle := hl, rle := hl, det := by decide,
        lo := by simpa [Q.negOne, Q.val_def] using h1,
        hi := by simpa [Q.zero, Q.val_def] using (val_neg_iff x hx).2 hneg }
    · omega
    · simp [Q.negOne, Q.zero]; omega
  · simp only [hneg, if_false]
    apply fareyLoop_spec x limit hx
    · exact {
        lden := by decide, rden := by decide, lle := hl, rle := hl, det := by decide,
        lo := by simpa [Q.zero, Q.val_def] using (val_nonneg_iff x hx).2 (by omega),
        hi := by simpa [Q.one, Q.val_def] using h2 }
    · omega
    · simp [Q.one, Q.zero]; omega

/-- the fractional part of a reduced non-integer: same denominator, value in `(−1, 1)` -/
theorem split_facts (x : Q) (hx : Reduced x) (hd : 1 < x.den) :
    ∃ f, splitAtPoint x = .ok (Int.tdiv x.num x.den, f) ∧ Reduced f ∧ f.den = x.den ∧
      f.val = x.val - (Int.tdiv x.num x.den : ℚ) ∧ -1 < f.val ∧ f.val < 1 := by
  obtain ⟨a, b⟩ := x
  have hb : 0 < b := hx.den_pos
  simp only at hd
  obtain ⟨hdc, _, _, h3, h4⟩ := tdecomp a b hb
  have hbq : (0 : ℚ) < b := by exact_mod_cast hb
  -- the remainder is non-zero: otherwise b ∣ a and gcd = b > 1
  have hne : Int.tmod a b ≠ 0 := by
    intro h0
    have hdvd : (b : ℤ) ∣ a := Int.dvd_of_tmod_eq_zero h0
    have : b ∣ Nat.gcd a.natAbs b :=
      Nat.dvd_gcd (Int.natCast_dvd.mp hdvd) (dvd_refl b)
    rw [hx.2] at this
    have := Nat.le_of_dvd (by decide) this
    omega
  obtain ⟨f, hf1, hf2, hf3⟩ := R.fract_spec ⟨a, b⟩ hx
  simp only [fract, divRemK_pos _ hb, bind_ok', if_neg hne] at hf1
  have hfeq : f = ⟨Int.tmod a b, b⟩ := by
    have := hf1; simp only [pure, Except.pure, Except.ok.injEq] at this; exact this.symm
  refine ⟨f, ?_, hf2, by rw [hfeq], ?_, ?_, ?_⟩
  · simp only [splitAtPoint, divRemK_pos _ hb, bind_ok', if_neg hne, hfeq]; rfl
  · rw [hf3, Q.val_mk, trunc_bridge a b hb]
  · rw [hfeq, Q.val_mk, lt_div_iff₀ hbq]; linarith
  · rw [hfeq, Q.val_mk, div_lt_iff₀ hbq]; linarith

/-- adding the integer part back -/
theorem shift_spec (r : Q) (t : ℤ) (hr : Reduced r) :
    Reduced (R.addSubInt false r t) ∧ (R.addSubInt false r t).val = r.val + t ∧
      (R.addSubInt false r t).den = r.den := by
  have := R.addSubInt_spec false r t hr
  exact ⟨this.1, by simpa using this.2, rfl⟩

/-- **`next_up` / `next_down`** when the denominator exceeds the limit: the result has a
    denominator `≤ limit`, lies strictly above / below `x`, and no fraction with a denominator
    `≤ limit` lies strictly between `x` and it (the adjacent element of the Farey sequence). -/
theorem nextUpDown_spec_big (up : Bool) (x : Q) (limit : Nat) (hx : Reduced x) (hl : 1 ≤ limit)
    (hbig : limit < x.den) :
    ∃ r, nextUpDown up x limit = .ok (some r) ∧ Reduced r ∧ r.den ≤ limit ∧
      (if up then x.val < r.val else r.val < x.val) ∧
      ∀ (p : ℤ) (q : ℕ), 0 < q →
        (if up then x.val < (p : ℚ) / q ∧ (p : ℚ) / q < r.val
         else r.val < (p : ℚ) / q ∧ (p : ℚ) / q < x.val) → limit < q := by
  obtain ⟨f, hsplit, hfred, hfden, hfval, hf1, hf2⟩ := split_facts x hx (by omega)
  set t := Int.tdiv x.num x.den with ht
  obtain ⟨l, r, hfn, hinv, hsum⟩ := fareyNeighbors_spec f limit hfred.den_pos hl hf1.le hf2
  have hlred := hinv.reduced_left
  have hrred := hinv.reduced_right
  -- left is strictly below f: different denominators
  have hlt : l.val < f.val := by
    rcases lt_or_eq_of_le hinv.lo with h | h
    · exact h
    · have := Reduced.ext hlred hfred h
      have hd : l.den = f.den := by rw [this]
      have := hinv.lle
      omega
  have hres : nextUpDown up x limit = .ok (some (R.addSubInt false (if up then r else l) t)) := by
    simp only [nextUpDown, if_neg (by omega : ¬ limit = 0), hsplit, bind_ok',
      if_neg (by omega : ¬ x.den ≤ limit), pure_bind, hfn]
    rfl
  have hxv : x.val = f.val + t := by rw [hfval]; ring
  cases up
  · -- next_down
    obtain ⟨s1, s2, s3⟩ := shift_spec l t hlred
    refine ⟨_, hres, s1, by simpa [s3] using hinv.lle, ?_, ?_⟩
    · simp only [Bool.false_eq_true, if_false, s2, hxv]; linarith
    · intro p q hq hpq
      simp only [Bool.false_eq_true, if_false, s2, hxv] at hpq
      have e : ((p - t * q : ℤ) : ℚ) / q = (p : ℚ) / q - t := by
        have : (q : ℚ) ≠ 0 := by exact_mod_cast hq.ne'
        push_cast; field_simp
      apply hinv.consecutive hsum (p - t * q) q hq
      · rw [e]; linarith [hpq.1]
      · rw [e]; linarith [hpq.2, hinv.hi]
  · -- next_up
    obtain ⟨s1, s2, s3⟩ := shift_spec r t hrred
    refine ⟨_, hres, s1, by simpa [s3] using hinv.rle, ?_, ?_⟩
    · simp only [if_true, s2, hxv]; linarith [hinv.hi]
    · intro p q hq hpq
      simp only [if_true, s2, hxv] at hpq
      have e : ((p - t * q : ℤ) : ℚ) / q = (p : ℚ) / q - t := by
        have : (q : ℚ) ≠ 0 := by exact_mod_cast hq.ne'
        push_cast; field_simp
      apply hinv.consecutive hsum (p - t * q) q hq
      · rw [e]; linarith [hpq.1]
      · rw [e]; linarith [hpq.2]

end Dashu.Model.Ratio
