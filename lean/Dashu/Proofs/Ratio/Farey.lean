import Dashu.Proofs.Ratio.Simplify
/-
  `RBig::farey_neighbors` (rational/src/simplify.rs): the mediant walk keeps two fractions
  `a/b ≤ x < c/d` with `b·c − a·d = 1` and stops when `b + d > limit`; such a pair is a pair of
  consecutive elements of the Farey sequence of order `limit`.
-/
namespace Dashu.Model.Ratio
open Dashu.Model

/-- invariant of the mediant walk -/
structure FInv (x : Q) (limit : Nat) (l r : Q) : Prop where
  lden : 0 < l.den
  rden : 0 < r.den
  lle : l.den ≤ limit
  rle : r.den ≤ limit
  det : r.num * l.den - l.num * r.den = 1
  lo : l.val ≤ x.val
  hi : x.val < r.val

theorem mediant_reduced {l r : Q} (hl : 0 < l.den) (hdet : r.num * l.den - l.num * r.den = 1) :
    Reduced ⟨l.num + r.num, l.den + r.den⟩ := by
  rw [reduced_iff_isCoprime]
  refine ⟨by simp only; omega, ?_⟩
  -- r.num·(b+d) − d·(a+c) = 1
  refine ⟨-(r.den : ℤ), r.num, ?_⟩
  push_cast
  linear_combination hdet

/-- between neighbours with determinant 1 every fraction has a denominator ≥ the sum -/
theorem between_den_ge {a c p : ℤ} {b d q : ℕ} (hb : 0 < b) (hd : 0 < d) (hq : 0 < q)
    (hdet : c * b - a * d = 1) (h1 : (a : ℚ) / b < (p : ℚ) / q) (h2 : (p : ℚ) / q < (c : ℚ) / d) :
    b + d ≤ q := by
  have e1 : a * q < p * b := (cast_lt_iff a b p q hb hq).1 h1
  have e2 : p * d < c * q := (cast_lt_iff p q c d hq hd).1 h2
  -- q = q(cb − ad) = b(cq − dp) + d(bp − aq)
  have hx : 1 ≤ c * q - p * d := by omega
  have hy : 1 ≤ p * b - a * q := by omega
  have hbZ : (0 : ℤ) < b := by exact_mod_cast hb
  have hdZ : (0 : ℤ) < d := by exact_mod_cast hd
  have key : (q : ℤ) = b * (c * q - p * d) + d * (p * b - a * q) := by
    linear_combination (-(q : ℤ)) * hdet
  have : (b : ℤ) + d ≤ q := by nlinarith
  exact_mod_cast this

/-- **`farey_neighbors`**: the walk terminates and returns neighbours `left ≤ x < right` with
    determinant 1, denominators `≤ limit`, and `left.den + right.den > limit` -/
theorem fareyLoop_spec (x : Q) (limit : Nat) (hx : 0 < x.den) :
    ∀ (fuel : Nat) (l r : Q), FInv x limit l r → 1 ≤ fuel → limit + 2 ≤ fuel + (l.den + r.den) →
      ∃ l' r', fareyLoop x limit fuel l r = .ok (some (l', r')) ∧ FInv x limit l' r' ∧
        limit < l'.den + r'.den := by
  intro fuel
  induction fuel with
  | zero => intro l r h h1 hf; omega
  | succ fuel ih =>
    intro l r h _ hf
    have hmed := mediant_reduced h.lden h.det
    have hred := reduce_of_reduced _ hmed
    simp only [fareyLoop]
    by_cases hbig : l.den + r.den > limit
    · -- stop
      simp only [hbig, if_true, hred, bind_ok', and_self]
      exact ⟨l, r, rfl, h, hbig⟩
    · have hsm : ¬ ((⟨l.num + r.num, l.den + r.den⟩ : Q).den > limit) := hbig
      simp only [hsm, if_false, bind_ok', false_and, pure_bind]
      have hmden : 0 < l.den + r.den := by have := h.lden; omega
      by_cases hgt : cmpQ ⟨l.num + r.num, l.den + r.den⟩ x = .gt
      · rw [if_pos hgt]
        have hv := (cmpQ_gt_iff _ x hmden hx).1 hgt
        apply ih
        · exact {
            lden := h.lden, rden := hmden, lle := h.lle, rle := by simp only; omega,
            det := by
              have := h.det
              simp only
              push_cast
              linarith,
            lo := h.lo, hi := hv }
        · omega
        · simp only; have := h.lden; omega
      · rw [if_neg hgt]
        have hv : (⟨l.num + r.num, l.den + r.den⟩ : Q).val ≤ x.val := by
          by_contra hc
          exact hgt ((cmpQ_gt_iff _ x hmden hx).2 (not_le.mp hc))
        apply ih
        · exact {
            lden := hmden, rden := h.rden, lle := by simp only; omega, rle := h.rle,
            det := by
              have := h.det
              simp only
              push_cast
              linarith,
            lo := hv, hi := h.hi }
        · omega
        · simp only; have := h.rden; omega

end Dashu.Model.Ratio

namespace Dashu.Model.Ratio
open Dashu.Model

theorem FInv.reduced_left {x : Q} {limit : Nat} {l r : Q} (h : FInv x limit l r) : Reduced l := by
  rw [reduced_iff_isCoprime]
  exact ⟨h.lden, ⟨-(r.den : ℤ), r.num, by linear_combination h.det⟩⟩

theorem FInv.reduced_right {x : Q} {limit : Nat} {l r : Q} (h : FInv x limit l r) : Reduced r := by
  rw [reduced_iff_isCoprime]
  exact ⟨h.rden, ⟨(l.den : ℤ), -l.num, by linear_combination h.det⟩⟩

/-- neighbours are consecutive in the Farey sequence of order `limit`: nothing with a
    denominator `≤ limit` lies strictly between them -/
theorem FInv.consecutive {x : Q} {limit : Nat} {l r : Q} (h : FInv x limit l r)
    (hsum : limit < l.den + r.den) (p : ℤ) (q : ℕ) (hq : 0 < q)
    (h1 : l.val < (p : ℚ) / q) (h2 : (p : ℚ) / q < r.val) : limit < q := by
  have := between_den_ge h.lden h.rden hq h.det h1 h2
  omega

/-- **`RBig::farey_neighbors(x, limit)`** for `−1 ≤ x < 1`, `limit ≥ 1` -/
theorem fareyNeighbors_spec (x : Q) (limit : Nat) (hx : 0 < x.den) (hl : 1 ≤ limit)
    (h1 : -1 ≤ x.val) (h2 : x.val < 1) :
    ∃ l r, fareyNeighbors x limit = .ok (some (l, r)) ∧ FInv x limit l r ∧
      limit < l.den + r.den := by
  unfold fareyNeighbors
  by_cases hneg : x.num < 0
  · simp only [hneg, if_true]
    apply fareyLoop_spec x limit hx
    · exact {
        lden := by decide, rden := by decide, lle := hl, rle := hl, det := by decide,
        lo := by simpa [Q.negOne, Q.val_def] using h1,
        hi := by simpa [Q.zero, Q.val_def] using (val_neg_iff x hx).2 hneg }
    · omega
    · simp [Q.negOne, Q.zero]; omega
  · simp only [hneg, if_false]
    apply fareyLoop_spec x limit hx
    · exact {
        lden := by decide, rden := by decide, lle := hl, rle := hl, det := by decide,
        lo := by simpa [Q.zero, Q.val_def] using (val_nonneg_iff x hx).2 (by omega),
        hi := by simpa [Q.one, Q.val_def] using h2 }
    · omega
    · simp [Q.one, Q.zero]; omega

/-- the fractional part of a reduced non-integer: same denominator, value in `(−1, 1)` -/
theorem split_facts (x : Q) (hx : Reduced x) (hd : 1 < x.den) :
    ∃ f, splitAtPoint x = .ok (Int.tdiv x.num x.den, f) ∧ Reduced f ∧ f.den = x.den ∧
      f.val = x.val - (Int.tdiv x.num x.den : ℚ) ∧ -1 < f.val ∧ f.val < 1 := by
  obtain ⟨a, b⟩ := x
  have hb : 0 < b := hx.den_pos
  simp only at hd
  obtain ⟨hdc, _, _, h3, h4⟩ := tdecomp a b hb
  have hbq : (0 : ℚ) < b := by exact_mod_cast hb
  -- the remainder is non-zero: otherwise b ∣ a and gcd = b > 1
  have hne : Int.tmod a b ≠ 0 := by
    intro h0
    have hdvd : (b : ℤ) ∣ a := Int.dvd_of_tmod_eq_zero h0
    have : b ∣ Nat.gcd a.natAbs b :=
      Nat.dvd_gcd (Int.natCast_dvd.mp hdvd) (dvd_refl b)
    rw [hx.2] at this
    have := Nat.le_of_dvd (by decide) this
    omega
  obtain ⟨f, hf1, hf2, hf3⟩ := R.fract_spec ⟨a, b⟩ hx
  simp only [fract, divRemK_pos _ hb, bind_ok', if_neg hne] at hf1
  have hfeq : f = ⟨Int.tmod a b, b⟩ := by
    have := hf1; simp only [pure, Except.pure, Except.ok.injEq] at this; exact this.symm
  refine ⟨f, ?_, hf2, by rw [hfeq], ?_, ?_, ?_⟩
  · simp only [splitAtPoint, divRemK_pos _ hb, bind_ok', if_neg hne, hfeq]; rfl
  · rw [hf3, Q.val_mk, trunc_bridge a b hb]
  · rw [hfeq, Q.val_mk, lt_div_iff₀ hbq]; linarith
  · rw [hfeq, Q.val_mk, div_lt_iff₀ hbq]; linarith

/-- adding the integer part back -/
theorem shift_spec (r : Q) (t : ℤ) (hr : Reduced r) :
    Reduced (R.addSubInt false r t) ∧ (R.addSubInt false r t).val = r.val + t ∧
      (R.addSubInt false r t).den = r.den := by
  have := R.addSubInt_spec false r t hr
  exact ⟨this.1, by simpa using this.2, rfl⟩

/-- **`next_up` / `next_down`** when the denominator exceeds the limit: the result has a
    denominator `≤ limit`, lies strictly above / below `x`, and no fraction with a denominator
    `≤ limit` lies strictly between `x` and it (the adjacent element of the Farey sequence). -/
theorem nextUpDown_spec_big (up : Bool) (x : Q) (limit : Nat) (hx : Reduced x) (hl : 1 ≤ limit)
    (hbig : limit < x.den) :
    ∃ r, nextUpDown up x limit = .ok (some r) ∧ Reduced r ∧ r.den ≤ limit ∧
      (if up then x.val < r.val else r.val < x.val) ∧
      ∀ (p : ℤ) (q : ℕ), 0 < q →
        (if up then x.val < (p : ℚ) / q ∧ (p : ℚ) / q < r.val
         else r.val < (p : ℚ) / q ∧ (p : ℚ) / q < x.val) → limit < q := by
  obtain ⟨f, hsplit, hfred, hfden, hfval, hf1, hf2⟩ := split_facts x hx (by omega)
  set t := Int.tdiv x.num x.den with ht
  obtain ⟨l, r, hfn, hinv, hsum⟩ := fareyNeighbors_spec f limit hfred.den_pos hl hf1.le hf2
  have hlred := hinv.reduced_left
  have hrred := hinv.reduced_right
  -- left is strictly below f: different denominators
  have hlt : l.val < f.val := by
    rcases lt_or_eq_of_le hinv.lo with h | h
    · exact h
    · have := Reduced.ext hlred hfred h
      have hd : l.den = f.den := by rw [this]
      have := hinv.lle
      omega
  have hres : nextUpDown up x limit = .ok (some (R.addSubInt false (if up then r else l) t)) := by
    simp only [nextUpDown, if_neg (by omega : ¬ limit = 0), hsplit, bind_ok',
      if_neg (by omega : ¬ (limit = 1 ∧ x.den = 1)),
      if_neg (by omega : ¬ x.den ≤ limit), pure_bind, hfn]
    rfl
  have hxv : x.val = f.val + t := by rw [hfval]; ring
  cases up
  · -- next_down
    obtain ⟨s1, s2, s3⟩ := shift_spec l t hlred
    refine ⟨_, hres, s1, by simpa [s3] using hinv.lle, ?_, ?_⟩
    · simp only [Bool.false_eq_true, if_false, s2, hxv]; linarith
    · intro p q hq hpq
      simp only [Bool.false_eq_true, if_false, s2, hxv] at hpq
      have e : ((p - t * q : ℤ) : ℚ) / q = (p : ℚ) / q - t := by
        have : (q : ℚ) ≠ 0 := by exact_mod_cast hq.ne'
        push_cast; field_simp
      apply hinv.consecutive hsum (p - t * q) q hq
      · rw [e]; linarith [hpq.1]
      · rw [e]; linarith [hpq.2, hinv.hi]
  · -- next_up
    obtain ⟨s1, s2, s3⟩ := shift_spec r t hrred
    refine ⟨_, hres, s1, by simpa [s3] using hinv.rle, ?_, ?_⟩
    · simp only [if_true, s2, hxv]; linarith [hinv.hi]
    · intro p q hq hpq
      simp only [if_true, s2, hxv] at hpq
      have e : ((p - t * q : ℤ) : ℚ) / q = (p : ℚ) / q - t := by
        have : (q : ℚ) ≠ 0 := by exact_mod_cast hq.ne'
        push_cast; field_simp
      apply hinv.consecutive hsum (p - t * q) q hq
      · rw [e]; linarith [hpq.1]
      · rw [e]; linarith [hpq.2]

end Dashu.Model.Ratio

namespace Dashu.Model.Ratio
open Dashu.Model

/-- two different fractions are at least `1/(q·b)` apart -/
theorem frac_gap (a p : ℤ) (b q : ℕ) (hb : 0 < b) (hq : 0 < q) (h : (a : ℚ) / b < (p : ℚ) / q) :
    1 / ((q : ℚ) * b) ≤ (p : ℚ) / q - (a : ℚ) / b := by
  have hbq : (0 : ℚ) < b := by exact_mod_cast hb
  have hqq : (0 : ℚ) < q := by exact_mod_cast hq
  have e1 : a * q < p * b := (cast_lt_iff a b p q hb hq).1 h
  have e2 : (1 : ℤ) ≤ p * b - a * q := by omega
  have e3 : (1 : ℚ) ≤ (p : ℚ) * b - a * q := by exact_mod_cast e2
  have : (p : ℚ) / q - (a : ℚ) / b = ((p : ℚ) * b - a * q) / (q * b) := by field_simp
  rw [this]
  exact div_le_div_of_nonneg_right e3 (by positivity)

/-- `1/L²` is too small a step to jump over an element of the Farey sequence of order `L ≥ 2`:
    no fraction with denominator `≤ L` lies in `(f, f + 1/L²]` when `f` has denominator `≤ L` -/
theorem no_frac_in_small_step (f : Q) (L : ℕ) (hL : 2 ≤ L) (hfd : 0 < f.den) (hfL : f.den ≤ L)
    (p : ℤ) (q : ℕ) (hq : 0 < q) (hqL : q ≤ L) (h1 : f.val < (p : ℚ) / q) :
    f.val + 1 / ((L : ℚ) * L) < (p : ℚ) / q := by
  have hLq : (0 : ℚ) < L := by exact_mod_cast (by omega : 0 < L)
  have hbq : (0 : ℚ) < f.den := by exact_mod_cast hfd
  have hqq : (0 : ℚ) < q := by exact_mod_cast hq
  have hgap := frac_gap f.num p f.den q hfd hq h1
  rw [← Q.val_def] at hgap
  -- q·b ≤ L², with equality only if q = b = L
  have hqb : (q : ℚ) * f.den ≤ (L : ℚ) * L := by
    have h1 : (q : ℚ) ≤ L := by exact_mod_cast hqL
    have h2 : (f.den : ℚ) ≤ L := by exact_mod_cast hfL
    nlinarith
  have hstep : 1 / ((L : ℚ) * L) ≤ 1 / ((q : ℚ) * f.den) :=
    one_div_le_one_div_of_le (by positivity) hqb
  rcases lt_or_eq_of_le (le_trans hstep hgap) with hlt | heq
  · linarith
  · -- equality forces q = f.den = L and (p − f.num)·L = 1
    exfalso
    have hq1 : 1 / ((L : ℚ) * L) = 1 / ((q : ℚ) * f.den) := le_antisymm hstep (heq ▸ hgap)
    have hprod : (q : ℚ) * f.den = (L : ℚ) * L := by
      have := congrArg (fun t => 1 / t) hq1
      simpa using this.symm
    have hprodN : q * f.den = L * L := by exact_mod_cast hprod
    have hqL' : q = L := by
      by_contra hne
      have : q < L := by omega
      have : q * f.den < L * L := by
        calc q * f.den ≤ q * L := Nat.mul_le_mul_left q hfL
          _ < L * L := Nat.mul_lt_mul_of_pos_right this (by omega)
      omega
    have hfL' : f.den = L := by
      rw [hqL'] at hprodN
      exact Nat.eq_of_mul_eq_mul_left (by omega) hprodN
    -- p/L − a/L = 1/L²  ⇒  (p − a)·L = 1
    have : (p : ℚ) / L - (f.num : ℚ) / L = 1 / ((L : ℚ) * L) := by
      have := heq.symm
      rw [Q.val_def, hqL', hfL'] at this
      exact this
    have h3 : ((p : ℚ) - f.num) * L = 1 := by
      field_simp at this
      linarith
    have h4 : (p - f.num) * (L : ℤ) = 1 := by exact_mod_cast h3
    have hu : ((L : ℤ)) ∣ 1 := ⟨p - f.num, by rw [← h4]; ring⟩
    have := Int.le_of_dvd (by decide) hu
    omega

end Dashu.Model.Ratio

namespace Dashu.Model.Ratio
open Dashu.Model

/-- fractional part of any reduced number -/
theorem split_facts' (x : Q) (hx : Reduced x) :
    ∃ f, splitAtPoint x = .ok (Int.tdiv x.num x.den, f) ∧ Reduced f ∧ f.den ≤ x.den ∧
      f.val = x.val - (Int.tdiv x.num x.den : ℚ) ∧ -1 < f.val ∧ f.val < 1 := by
  obtain ⟨a, b⟩ := x
  have hb : 0 < b := hx.den_pos
  obtain ⟨hdc, _, _, h3, h4⟩ := tdecomp a b hb
  have hbq : (0 : ℚ) < b := by exact_mod_cast hb
  obtain ⟨f, hf1, hf2, hf3⟩ := R.fract_spec ⟨a, b⟩ hx
  simp only [fract, divRemK_pos _ hb, bind_ok'] at hf1
  have hfeq : f = if Int.tmod a b = 0 then Q.zero else ⟨Int.tmod a b, b⟩ := by
    have := hf1; simp only [pure, Except.pure, Except.ok.injEq] at this; exact this.symm
  have hfv : f.val = (Int.tmod a b : ℚ) / b := by
    rw [hfeq]; split
    · rename_i h0; simp [Q.zero, Q.val_def, h0]
    · rfl
  refine ⟨f, ?_, hf2, ?_, ?_, ?_, ?_⟩
  · simp only [splitAtPoint, divRemK_pos _ hb, bind_ok', hfeq]; rfl
  · rw [hfeq]; split
    · simp only [Q.zero]; omega
    · exact le_refl _
  · rw [hf3, Q.val_mk, trunc_bridge a b hb]
  · rw [hfv, lt_div_iff₀ hbq]; linarith
  · rw [hfv, div_lt_iff₀ hbq]; linarith

theorem val_neg_q (f : Q) : (⟨-f.num, f.den⟩ : Q).val = -f.val := by
  simp [Q.val_def, neg_div]

/-- mirror image of `no_frac_in_small_step` -/
theorem no_frac_in_small_step_down (f : Q) (L : ℕ) (hL : 2 ≤ L) (hfd : 0 < f.den)
    (hfL : f.den ≤ L) (p : ℤ) (q : ℕ) (hq : 0 < q) (hqL : q ≤ L) (h1 : (p : ℚ) / q < f.val) :
    (p : ℚ) / q < f.val - 1 / ((L : ℚ) * L) := by
  have := no_frac_in_small_step ⟨-f.num, f.den⟩ L hL hfd hfL (-p) q hq hqL
    (by rw [val_neg_q]; push_cast; rw [neg_div]; linarith)
  rw [val_neg_q] at this
  push_cast at this
  rw [neg_div] at this
  linarith

theorem one_over_sq_reduced (L : ℕ) (hL : 0 < L) : Reduced ⟨1, L * L⟩ :=
  ⟨Nat.mul_pos hL hL, by simp⟩

/-- **`next_up` / `next_down`** when the denominator already fits (`limit ≥ 2`): the `1/limit²`
    nudge finds the adjacent element of the Farey sequence -/
theorem nextUpDown_spec_small (up : Bool) (x : Q) (limit : Nat) (hx : Reduced x) (hl : 2 ≤ limit)
    (hsm : x.den ≤ limit) :
    ∃ r, nextUpDown up x limit = .ok (some r) ∧ Reduced r ∧ r.den ≤ limit ∧
      (if up then x.val < r.val else r.val < x.val) ∧
      ∀ (p : ℤ) (q : ℕ), 0 < q →
        (if up then x.val < (p : ℚ) / q ∧ (p : ℚ) / q < r.val
         else r.val < (p : ℚ) / q ∧ (p : ℚ) / q < x.val) → limit < q := by
  obtain ⟨f, hsplit, hfred, hfden, hfval, hf1, hf2⟩ := split_facts' x hx
  set t := Int.tdiv x.num x.den with ht
  have hLpos : 0 < limit := by omega
  have hLq : (0 : ℚ) < limit := by exact_mod_cast hLpos
  have hsq := one_over_sq_reduced limit hLpos
  have hsqv : (⟨1, limit * limit⟩ : Q).val = 1 / ((limit : ℚ) * limit) := by
    simp [Q.val_def]
  have hstep : (0 : ℚ) < 1 / ((limit : ℚ) * limit) := by positivity
  have hfL : f.den ≤ limit := le_trans hfden hsm
  have hxv : x.val = f.val + t := by rw [hfval]; ring
  have e (p : ℤ) (q : ℕ) (hq : 0 < q) : ((p - t * q : ℤ) : ℚ) / q = (p : ℚ) / q - t := by
    have : (q : ℚ) ≠ 0 := by exact_mod_cast hq.ne'
    push_cast; field_simp
  cases up
  · -- next_down: target = f − 1/L²
    obtain ⟨tg, htg1, htg2, htg3⟩ := R.sub_spec f ⟨1, limit * limit⟩ hfred hsq
    rw [hsqv] at htg3
    have hlow : -1 < tg.val := by
      rw [htg3]
      have := no_frac_in_small_step_down f limit hl hfred.den_pos hfL (-1) 1 (by decide)
        (by omega) (by simpa using hf1)
      simpa using this
    obtain ⟨l, r, hfn, hinv, hsum⟩ := fareyNeighbors_spec tg limit htg2.den_pos (by omega)
      hlow.le (by rw [htg3]; linarith)
    obtain ⟨s1, s2, s3⟩ := shift_spec l t hinv.reduced_left
    have hres : nextUpDown false x limit = .ok (some (R.addSubInt false l t)) := by
      simp only [nextUpDown, if_neg (by omega : ¬ limit = 0), hsplit, bind_ok',
        if_neg (by omega : ¬ (limit = 1 ∧ x.den = 1)), if_pos hsm,
        Bool.false_eq_true, if_false, htg1, hfn]
      rfl
    refine ⟨_, hres, s1, by simpa [s3] using hinv.lle, ?_, ?_⟩
    · simp only [Bool.false_eq_true, if_false, s2, hxv]
      have := hinv.lo; rw [htg3] at this; linarith
    · intro p q hq hpq
      simp only [Bool.false_eq_true, if_false, s2, hxv] at hpq
      by_contra hcon
      have hqL : q ≤ limit := by omega
      have h3 := no_frac_in_small_step_down f limit hl hfred.den_pos hfL (p - t * q) q hq hqL
        (by rw [e p q hq]; linarith [hpq.2])
      have := hinv.consecutive hsum (p - t * q) q hq (by rw [e p q hq]; linarith [hpq.1])
        (by have := hinv.hi; rw [htg3] at this; linarith)
      omega
  · -- next_up: target = f + 1/L²
    obtain ⟨tg, htg1, htg2, htg3⟩ := R.add_spec f ⟨1, limit * limit⟩ hfred hsq
    rw [hsqv] at htg3
    have hhigh : tg.val < 1 := by
      rw [htg3]
      have := no_frac_in_small_step f limit hl hfred.den_pos hfL 1 1 (by decide) (by omega)
        (by simpa using hf2)
      simpa using this
    obtain ⟨l, r, hfn, hinv, hsum⟩ := fareyNeighbors_spec tg limit htg2.den_pos (by omega)
      (by rw [htg3]; linarith) hhigh
    obtain ⟨s1, s2, s3⟩ := shift_spec r t hinv.reduced_right
    have hres : nextUpDown true x limit = .ok (some (R.addSubInt false r t)) := by
      simp only [nextUpDown, if_neg (by omega : ¬ limit = 0), hsplit, bind_ok',
        if_neg (by omega : ¬ (limit = 1 ∧ x.den = 1)), if_pos hsm,
        if_true, htg1, hfn]
      rfl
    refine ⟨_, hres, s1, by simpa [s3] using hinv.rle, ?_, ?_⟩
    · simp only [if_true, s2, hxv]
      have := hinv.hi; rw [htg3] at this; linarith
    · intro p q hq hpq
      simp only [if_true, s2, hxv] at hpq
      by_contra hcon
      have hqL : q ≤ limit := by omega
      have h3 := no_frac_in_small_step f limit hl hfred.den_pos hfL (p - t * q) q hq hqL
        (by rw [e p q hq]; linarith [hpq.1])
      have := hinv.consecutive hsum (p - t * q) q hq
        (by have := hinv.lo; rw [htg3] at this; linarith) (by rw [e p q hq]; linarith [hpq.2])
      omega

end Dashu.Model.Ratio

namespace Dashu.Model.Ratio
open Dashu.Model

/-- `limit = 1`: integers; the early return gives the neighbours `n ∓ 1` -/
theorem nextUpDown_limit_one (up : Bool) (n : ℤ) :
    nextUpDown up ⟨n, 1⟩ 1 = .ok (some ⟨if up then n + 1 else n - 1, 1⟩) := by
  have hsplit : splitAtPoint ⟨n, 1⟩ = .ok (n, Q.zero) := by
    simp [splitAtPoint, divRemK]
  unfold nextUpDown
  simp only [hsplit, bind_ok', Nat.one_ne_zero, if_false, and_self, if_true]
  cases up
  · simp only [Bool.false_eq_true, if_false, R.intSub, Q.one, pure, Except.pure]
    congr 2; simp
  · simp only [if_true, R.addSubInt, Q.one, Bool.false_eq_true, if_false, pure, Except.pure]
    congr 2; simp; ring

/-- **`RBig::next_up` / `RBig::next_down`** for every reduced `x` and every `limit ≥ 1`: the
    result is reduced with a denominator `≤ limit`, lies strictly above / below `x`, and no
    fraction with a denominator `≤ limit` lies strictly between `x` and it — it is the adjacent
    element of the Farey sequence of order `limit`.  `limit = 0` panics. -/
theorem nextUpDown_spec (up : Bool) (x : Q) (limit : Nat) (hx : Reduced x) :
    (limit = 0 → nextUpDown up x limit = .error .divideByZero) ∧
    (1 ≤ limit → ∃ r, nextUpDown up x limit = .ok (some r) ∧ Reduced r ∧ r.den ≤ limit ∧
      (if up then x.val < r.val else r.val < x.val) ∧
      ∀ (p : ℤ) (q : ℕ), 0 < q →
        (if up then x.val < (p : ℚ) / q ∧ (p : ℚ) / q < r.val
         else r.val < (p : ℚ) / q ∧ (p : ℚ) / q < x.val) → limit < q) := by
  constructor
  · intro h; simp [nextUpDown, h]
  · intro hl
    by_cases hbig : limit < x.den
    · exact nextUpDown_spec_big up x limit hx hl hbig
    · by_cases h2 : 2 ≤ limit
      · exact nextUpDown_spec_small up x limit hx h2 (by omega)
      · -- limit = 1, x an integer
        have hL : limit = 1 := by omega
        have hd : x.den = 1 := by have := hx.den_pos; omega
        obtain ⟨n, d⟩ := x
        simp only at hd
        subst hd; subst hL
        refine ⟨_, nextUpDown_limit_one up n, ⟨by simp, by simp⟩, le_refl _, ?_, ?_⟩
        · cases up <;> simp [Q.val_def]
        · intro p q hq hpq
          by_contra hcon
          have hq1 : q = 1 := by omega
          subst hq1
          cases up
          · simp only [Bool.false_eq_true, if_false, Q.val_def, Nat.cast_one, div_one] at hpq
            have a : n - 1 < p := by exact_mod_cast hpq.1
            have b : p < n := by exact_mod_cast hpq.2
            omega
          · simp only [if_true, Q.val_def, Nat.cast_one, div_one] at hpq
            have a : n < p := by exact_mod_cast hpq.1
            have b : p < n + 1 := by exact_mod_cast hpq.2
            omega

/-- **`RBig::nearest`**: exact iff the denominator fits; otherwise the closer of `next_down` /
    `next_up` (the lower one on a tie) with the sign of `result − x` -/
theorem nearest_spec (x : Q) (limit : Nat) (hx : Reduced x) :
    (limit = 0 → nearest x limit = .error .divideByZero) ∧
    (1 ≤ limit → x.den ≤ limit → nearest x limit = .ok (some (.exact x))) ∧
    (1 ≤ limit → limit < x.den → ∃ dn up, nextUpDown false x limit = .ok (some dn) ∧
      nextUpDown true x limit = .ok (some up) ∧ dn.val < x.val ∧ x.val < up.val ∧
      ((up.val - x.val < x.val - dn.val ∧ nearest x limit = .ok (some (.inexact up false))) ∨
       (x.val - dn.val ≤ up.val - x.val ∧ nearest x limit = .ok (some (.inexact dn true))))) := by
  refine ⟨fun h => by simp [nearest, h], fun hl hsm => ?_, fun hl hbig => ?_⟩
  · have h0 : limit ≠ 0 := by omega
    simp [nearest, h0, hsm]
  · obtain ⟨f, hsplit, hfred, hfden, hfval, hf1, hf2⟩ := split_facts x hx (by omega)
    set t := Int.tdiv x.num x.den with ht
    obtain ⟨l, r, hfn, hinv, hsum⟩ := fareyNeighbors_spec f limit hfred.den_pos hl hf1.le hf2
    have hlred := hinv.reduced_left
    have hrred := hinv.reduced_right
    have hlt : l.val < f.val := by
      rcases lt_or_eq_of_le hinv.lo with h | h
      · exact h
      · have := Reduced.ext hlred hfred h
        have hd : l.den = f.den := by rw [this]
        have := hinv.lle
        omega
    have hxv : x.val = f.val + t := by rw [hfval]; ring
    obtain ⟨sl1, sl2, _⟩ := shift_spec l t hlred
    obtain ⟨sr1, sr2, _⟩ := shift_spec r t hrred
    have hdn : nextUpDown false x limit = .ok (some (R.addSubInt false l t)) := by
      simp only [nextUpDown, if_neg (by omega : ¬ limit = 0), hsplit, bind_ok',
        if_neg (by omega : ¬ (limit = 1 ∧ x.den = 1)),
        if_neg (by omega : ¬ x.den ≤ limit), pure_bind, hfn]
      rfl
    have hup : nextUpDown true x limit = .ok (some (R.addSubInt false r t)) := by
      simp only [nextUpDown, if_neg (by omega : ¬ limit = 0), hsplit, bind_ok',
        if_neg (by omega : ¬ (limit = 1 ∧ x.den = 1)),
        if_neg (by omega : ¬ x.den ≤ limit), pure_bind, hfn]
      rfl
    obtain ⟨s, hs1, hs2, hs3⟩ := R.add_spec l r hlred hrred
    have hmid : (⟨s.num, s.den * 2⟩ : Q).val = (l.val + r.val) / 2 := by
      have hsd : (s.den : ℚ) ≠ 0 := by exact_mod_cast hs2.den_pos.ne'
      rw [← hs3]; simp only [Q.val_def]; push_cast; field_simp
    have hmd : 0 < (⟨s.num, s.den * 2⟩ : Q).den := by
      have := hs2.den_pos; simp only; omega
    refine ⟨_, _, hdn, hup, by rw [sl2, hxv]; linarith, by rw [sr2, hxv]; linarith [hinv.hi], ?_⟩
    have hnear : nearest x limit =
        if cmpQ f ⟨s.num, s.den * 2⟩ = .gt then .ok (some (.inexact (R.addSubInt false r t) false))
        else .ok (some (.inexact (R.addSubInt false l t) true)) := by
      simp only [nearest, if_neg (by omega : ¬ limit = 0), if_neg (by omega : ¬ x.den ≤ limit),
        hsplit, bind_ok', hfn, hs1]
      split <;> rfl
    by_cases hgt : cmpQ f ⟨s.num, s.den * 2⟩ = .gt
    · left
      have := (cmpQ_gt_iff f _ hfred.den_pos hmd).1 hgt
      rw [hmid] at this
      refine ⟨by rw [sl2, sr2, hxv]; linarith, by rw [hnear, if_pos hgt]⟩
    · right
      have : f.val ≤ (⟨s.num, s.den * 2⟩ : Q).val := by
        by_contra hc
        exact hgt ((cmpQ_gt_iff f _ hfred.den_pos hmd).2 (not_le.mp hc))
      rw [hmid] at this
      refine ⟨by rw [sl2, sr2, hxv]; linarith, by rw [hnear, if_neg hgt]⟩

end Dashu.Model.Ratio
