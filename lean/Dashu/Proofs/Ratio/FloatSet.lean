import Dashu.Proofs.Conv.Ratio
import Dashu.Proofs.Ratio.Pick
/-
  C18 float clause: the rounding interval used by `simplest_from_f32/f64` is exactly the
  preimage of the float under round-to-nearest-even (`Dashu.Model.Conv.ieeeRoundRat`, the IEEE
  specification of builder-conv, read-only).
-/
namespace Dashu.Model.Ratio
open Dashu.Model Dashu.Model.Conv

/-- `n` is the integer nearest to `y`, ties to even -/
def IsRNE (y : ℚ) (n : ℕ) : Prop :=
  (n : ℚ) - 1 / 2 ≤ y ∧ y ≤ n + 1 / 2 ∧ (y = n - 1 / 2 → n % 2 = 0) ∧ (y = n + 1 / 2 → n % 2 = 0)

theorem IsRNE.unique {y : ℚ} {n n' : ℕ} (h : IsRNE y n) (h' : IsRNE y n') : n = n' := by
  obtain ⟨a1, a2, a3, a4⟩ := h
  obtain ⟨b1, b2, b3, b4⟩ := h'
  rcases lt_trichotomy n n' with hlt | heq | hgt
  · exfalso
    have h1 : (n : ℚ) + 1 ≤ n' := by exact_mod_cast hlt
    have e1 : y = n + 1 / 2 := by linarith
    have e2 : y = n' - 1 / 2 := by linarith
    have e3 : (n' : ℚ) = n + 1 := by linarith
    have e4 : n' = n + 1 := by exact_mod_cast e3
    have := a4 e1; have := b3 e2
    omega
  · exact heq
  · exfalso
    have h1 : (n' : ℚ) + 1 ≤ n := by exact_mod_cast hgt
    have e1 : y = n' + 1 / 2 := by linarith
    have e2 : y = n - 1 / 2 := by linarith
    have e3 : (n : ℚ) = n' + 1 := by linarith
    have e4 : n = n' + 1 := by exact_mod_cast e3
    have := b4 e1; have := a3 e2
    omega

theorem isRNE_rneDiv (num den : ℕ) (hd : 0 < den) : IsRNE ((num : ℚ) / den) (rneDiv num den) := by
  obtain ⟨h1, h2⟩ := rneDiv_half num den hd
  have hdq : (0 : ℚ) < den := by exact_mod_cast hd
  set n := rneDiv num den with hn
  have h1q : 2 * ((n : ℚ) * den) ≤ 2 * num + den := by exact_mod_cast h1
  have h2q : 2 * (num : ℚ) ≤ 2 * ((n : ℚ) * den) + den := by exact_mod_cast h2
  have hdm := Nat.div_add_mod num den
  have hr := Nat.mod_lt num hd
  refine ⟨?_, ?_, ?_, ?_⟩
  · rw [le_div_iff₀ hdq]; nlinarith
  · rw [div_le_iff₀ hdq]; nlinarith
  · intro he
    rw [eq_comm, eq_div_iff hdq.ne'] at he
    have he' : 2 * (n * den) = 2 * num + den := by
      have : 2 * ((n : ℚ) * den) = 2 * num + den := by linarith
      exact_mod_cast this
    apply rneDiv_tie_even num den
    -- num = (n-1)·den + den/2
    have hnpos : 1 ≤ n := by
      by_contra hc
      have : n = 0 := by omega
      rw [this] at he'; omega
    obtain ⟨k, hk⟩ : ∃ k, n = k + 1 := ⟨n - 1, by omega⟩
    have e : 2 * num = 2 * (den * k) + den := by rw [hk] at he'; nlinarith
    -- num = den*k + r with 2r = den
    have hq : num / den = k := by
      apply Nat.div_eq_of_lt_le
      · nlinarith
      · nlinarith
    have : den * k + num % den = num := by rw [← hq]; exact hdm
    omega
  · intro he
    rw [eq_comm, eq_div_iff hdq.ne'] at he
    have he' : 2 * num = 2 * (n * den) + den := by
      have : 2 * (num : ℚ) = 2 * ((n : ℚ) * den) + den := by linarith
      exact_mod_cast this
    apply rneDiv_tie_even num den
    have hq : num / den = n := by
      apply Nat.div_eq_of_lt_le
      · nlinarith
      · nlinarith
    have : den * n + num % den = num := by rw [← hq]; exact hdm
    nlinarith

theorem zpow_natCast_two (k : ℕ) : ((2 ^ k : ℕ) : ℚ) = (2 : ℚ) ^ (k : ℤ) := by
  push_cast; rw [zpow_natCast]

theorem zpow_toNat_two (z : ℤ) (h : 0 ≤ z) : ((2 ^ z.toNat : ℕ) : ℚ) = (2 : ℚ) ^ z := by
  rw [zpow_natCast_two, Int.toNat_of_nonneg h]

theorem two_zpow_pos (z : ℤ) : (0 : ℚ) < (2 : ℚ) ^ z := zpow_pos (by norm_num) z

theorem two_zpow_succ (z : ℤ) : (2 : ℚ) ^ (z + 1) = 2 * (2 : ℚ) ^ z := by
  rw [zpow_add_one₀ (by norm_num)]; ring

theorem two_zpow_pred (z : ℤ) : (2 : ℚ) ^ z = 2 * (2 : ℚ) ^ (z - 1) := by
  have := two_zpow_succ (z - 1); rw [sub_add_cancel] at this; exact this

theorem two_zpow_mono {a b : ℤ} (h : a ≤ b) : (2 : ℚ) ^ a ≤ (2 : ℚ) ^ b :=
  zpow_le_zpow_right₀ (by norm_num) h

theorem two_zpow_strict {a b : ℤ} (h : a < b) : (2 : ℚ) ^ a < (2 : ℚ) ^ b :=
  zpow_lt_zpow_right₀ (by norm_num) h

/-- the spec's scaled quotient `a·2^(−q) / (b·2^q)` is `(a/b) / 2^q` -/
theorem scaled_quot (a b : ℕ) (hb : 0 < b) (q : ℤ) :
    ((a * 2 ^ (-q).toNat : ℕ) : ℚ) / ((b * 2 ^ q.toNat : ℕ) : ℚ) = ((a : ℚ) / b) / (2 : ℚ) ^ q := by
  have hbq : (b : ℚ) ≠ 0 := by exact_mod_cast hb.ne'
  rcases le_total 0 q with h | h
  · have e1 : (-q).toNat = 0 := by omega
    rw [e1, Nat.cast_mul, Nat.cast_mul, zpow_toNat_two q h]
    simp only [pow_zero, Nat.cast_one, mul_one]
    rw [div_div]
  · have e1 : q.toNat = 0 := by omega
    rw [e1, Nat.cast_mul, Nat.cast_mul, zpow_toNat_two (-q) (by omega)]
    simp only [pow_zero, Nat.cast_one, mul_one]
    rw [zpow_neg]
    field_simp

/-- `ratTop a b` is the binade of `a/b` -/
theorem ratTop_spec (a b : ℕ) (ha : a ≠ 0) (hb : b ≠ 0) :
    (2 : ℚ) ^ (ratTop a b - 1) ≤ (a : ℚ) / b ∧ (a : ℚ) / b < (2 : ℚ) ^ (ratTop a b) := by
  have hal : ((2 ^ (bitLen a - 1) : ℕ) : ℚ) ≤ a := by exact_mod_cast bitLen_le ha
  have hah : (a : ℚ) < ((2 ^ bitLen a : ℕ) : ℚ) := by exact_mod_cast @bitLen_lt a
  have hbl : ((2 ^ (bitLen b - 1) : ℕ) : ℚ) ≤ b := by exact_mod_cast bitLen_le hb
  have hbh : (b : ℚ) < ((2 ^ bitLen b : ℕ) : ℚ) := by exact_mod_cast @bitLen_lt b
  have hla := bitLen_pos ha
  have hlb := bitLen_pos hb
  rw [zpow_natCast_two] at hal hah hbl hbh
  have hbq : (0 : ℚ) < b := by exact_mod_cast Nat.pos_of_ne_zero hb
  have haq : (0 : ℚ) < a := by exact_mod_cast Nat.pos_of_ne_zero ha
  set d : ℤ := (bitLen a : ℤ) - (bitLen b : ℤ) with hd
  -- 2^(d-1) < a/b < 2^(d+1)
  have hlow : (2 : ℚ) ^ (d - 1) < (a : ℚ) / b := by
    rw [lt_div_iff₀ hbq]
    have e : (2 : ℚ) ^ (d - 1) * (2 : ℚ) ^ ((bitLen b : ℕ) : ℤ) = (2 : ℚ) ^ (((bitLen a - 1 : ℕ)) : ℤ) := by
      rw [← zpow_add₀ (by norm_num)]; congr 1
      have : ((bitLen a - 1 : ℕ) : ℤ) = (bitLen a : ℤ) - 1 := by omega
      rw [this, hd]; ring
    calc (2 : ℚ) ^ (d - 1) * b < (2 : ℚ) ^ (d - 1) * (2 : ℚ) ^ ((bitLen b : ℕ) : ℤ) :=
          mul_lt_mul_of_pos_left hbh (two_zpow_pos _)
      _ = _ := e
      _ ≤ a := hal
  have hhigh : (a : ℚ) / b < (2 : ℚ) ^ (d + 1) := by
    rw [div_lt_iff₀ hbq]
    have e : (2 : ℚ) ^ (d + 1) * (2 : ℚ) ^ (((bitLen b - 1 : ℕ)) : ℤ) = (2 : ℚ) ^ ((bitLen a : ℕ) : ℤ) := by
      rw [← zpow_add₀ (by norm_num)]; congr 1
      have : ((bitLen b - 1 : ℕ) : ℤ) = (bitLen b : ℤ) - 1 := by omega
      rw [this, hd]; ring
    calc (a : ℚ) < (2 : ℚ) ^ ((bitLen a : ℕ) : ℤ) := hah
      _ = (2 : ℚ) ^ (d + 1) * (2 : ℚ) ^ (((bitLen b - 1 : ℕ)) : ℤ) := e.symm
      _ ≤ (2 : ℚ) ^ (d + 1) * b := mul_le_mul_of_nonneg_left hbl (two_zpow_pos _).le
  -- the test of ratTop decides a/b ≥ 2^d
  have htest : (b * 2 ^ d.toNat ≤ a * 2 ^ (-d).toNat) ↔ (2 : ℚ) ^ d ≤ (a : ℚ) / b := by
    rw [le_div_iff₀ hbq]
    rcases le_total 0 d with h | h
    · have e1 : (-d).toNat = 0 := by omega
      rw [e1, pow_zero, Nat.mul_one, ← zpow_toNat_two d h]
      constructor
      · intro hh
        have : ((b * 2 ^ d.toNat : ℕ) : ℚ) ≤ a := by exact_mod_cast hh
        push_cast at this ⊢; linarith
      · intro hh
        have : ((b * 2 ^ d.toNat : ℕ) : ℚ) ≤ a := by push_cast at hh ⊢; linarith
        exact_mod_cast this
    · have e1 : d.toNat = 0 := by omega
      rw [e1, pow_zero, Nat.mul_one]
      have e2 : (2 : ℚ) ^ d = 1 / ((2 ^ (-d).toNat : ℕ) : ℚ) := by
        rw [zpow_toNat_two (-d) (by omega), zpow_neg]; simp
      have hp : (0 : ℚ) < ((2 ^ (-d).toNat : ℕ) : ℚ) := by positivity
      rw [e2, div_mul_eq_mul_div, one_mul, div_le_iff₀ hp]
      constructor
      · intro hh; exact_mod_cast hh
      · intro hh; exact_mod_cast hh
  unfold ratTop
  simp only [← hd]
  by_cases hc : b * 2 ^ d.toNat ≤ a * 2 ^ (-d).toNat
  · rw [if_pos hc]
    refine ⟨?_, hhigh⟩
    rw [add_sub_cancel_right]; exact htest.1 hc
  · rw [if_neg hc]
    refine ⟨hlow.le, ?_⟩
    by_contra hcon
    exact hc (htest.2 (not_lt.mp hcon))

end Dashu.Model.Ratio
