import Dashu.Proofs.Ratio.FloatCore
/-
  C18 float clause, part 3: from the core to builder-conv's IEEE specification
  `ieeeRoundRat F .halfEven` (round-to-nearest-even of a rational to the format).
-/
namespace Dashu.Model.Ratio
open Dashu.Model Dashu.Model.Conv

theorem magBits_lt_inf (F : Ieee) (hF : F.Ok) (m : ℕ) (exp : ℤ) (hc : Canon F m exp)
    (hfin : exp + F.MB ≤ F.emax) : magBits F m exp < F.infBits := by
  rw [F.infBits_eq hF]
  unfold magBits
  have hB := F.B_ge hF
  have hemax := F.emax_eq
  have hqmin := F.qmin_eq
  have hP2 : 2 ^ (F.MB + 1) = 2 * 2 ^ F.MB := by rw [pow_succ]; ring
  set P : ℕ := 2 ^ F.MB with hP
  have hPpos : 0 < P := Nat.two_pow_pos _
  have hm : m < 2 * P := by
    rcases hc with ⟨_, h, _⟩ | ⟨_, h, _⟩
    · rw [hP2] at h; exact h
    · omega
  have hq : F.qmin ≤ exp := by rcases hc with ⟨_, _, h⟩ | ⟨_, _, h⟩ <;> omega
  obtain ⟨e', he'⟩ : ∃ e' : ℕ, exp - F.qmin = e' := ⟨(exp - F.qmin).toNat, by omega⟩
  rw [he', Int.toNat_natCast]
  have he : e' + 2 ≤ 2 * F.B - 1 := by omega
  have : (e' + 2) * P ≤ (2 * F.B - 1) * P := Nat.mul_le_mul_right P he
  have e2 : (e' + 2) * P = e' * P + 2 * P := by ring
  omega

theorem infBits_lt_signBit (F : Ieee) (hF : F.Ok) : F.infBits < F.signBit := by
  unfold Ieee.infBits Ieee.signBit
  rw [pow_add]
  have : 0 < 2 ^ F.EB := Nat.two_pow_pos _
  exact Nat.mul_lt_mul_of_pos_right (by omega) (Nat.two_pow_pos _)

/-- the spec's ingredients for a positive rational `a/b` -/
theorem spec_ingredients (F : Ieee) (neg : Bool) (a b : ℕ) (ha : a ≠ 0) (hb : b ≠ 0) :
    let t := ratTop a b
    let q : ℤ := max (t - F.prec) F.qmin
    let n := (roundMagMode .halfEven neg (a * 2 ^ (-q).toNat) (b * 2 ^ q.toNat)).1
    (2 : ℚ) ^ (t - 1) ≤ (a : ℚ) / b ∧ (a : ℚ) / b < (2 : ℚ) ^ t ∧
      IsRNE (((a : ℚ) / b) / (2 : ℚ) ^ q) n ∧
      (ieeeRoundRatMag F .halfEven neg a b).1 =
        if 2 ^ (F.emax + 1 - F.qmin).toNat ≤ n * 2 ^ (q - F.qmin).toNat then F.infBits
        else (q - F.qmin).toNat * 2 ^ F.MB + n := by
  intro t q n
  obtain ⟨h1, h2⟩ := ratTop_spec a b ha hb
  have hden : 0 < b * 2 ^ q.toNat := Nat.mul_pos (Nat.pos_of_ne_zero hb) (Nat.two_pow_pos _)
  refine ⟨h1, h2, ?_, ?_⟩
  · have := isRNE_rneDiv (a * 2 ^ (-q).toNat) (b * 2 ^ q.toNat) hden
    rw [scaled_quot a b (Nat.pos_of_ne_zero hb) q] at this
    show IsRNE _ (roundMagMode .halfEven neg _ _).1
    rw [roundMagMode_halfEven neg _ _ hden]
    exact this
  · unfold ieeeRoundRatMag
    simp only
    split <;> rfl

/-- **magnitudes**: `a/b` rounds (nearest, ties to even) to the canonical finite float `m·2^exp`
    iff it lies in the float's rounding set -/
theorem mag_iff (F : Ieee) (hF : F.Ok) (neg : Bool) (a b : ℕ) (ha : a ≠ 0) (hb : b ≠ 0) (m : ℕ)
    (exp : ℤ) (hc : Canon F m exp) (hfin : exp + F.MB ≤ F.emax) :
    (ieeeRoundRatMag F .halfEven neg a b).1 = magBits F m exp ↔ InSet F m exp ((a : ℚ) / b) := by
  obtain ⟨h1, h2, hn, hout⟩ := spec_ingredients F neg a b ha hb
  rw [hout]
  constructor
  · intro h
    split at h
    · exact absurd h (ne_of_gt (magBits_lt_inf F hF m exp hc hfin))
    · exact core_mp F hF _ _ h1 h2 _ hn m exp hc h
  · intro h
    have hcode := core_mpr F hF _ _ h1 h2 _ hn m exp hc h
    have hub := units_bound F _ _ h1 h2 _ hn m exp hc hfin hcode
    rw [if_neg (by omega)]
    exact hcode

/-- the spec's magnitude output never reaches the sign bit -/
theorem mag_lt_signBit (F : Ieee) (hF : F.Ok) (neg : Bool) (a b : ℕ) (ha : a ≠ 0) (hb : b ≠ 0) :
    (ieeeRoundRatMag F .halfEven neg a b).1 < F.signBit := by
  obtain ⟨h1, h2, hn, hout⟩ := spec_ingredients F neg a b ha hb
  rw [hout]
  split
  · exact infBits_lt_signBit F hF
  · rename_i hno
    obtain ⟨hR1, hR2⟩ := regime F _ _ h1 h2 _ hn
    have hrange := F.range_toNat hF
    have hB := F.B_ge hF
    have hP2 : 2 ^ (F.MB + 1) = 2 * 2 ^ F.MB := by rw [pow_succ]; ring
    unfold Ieee.signBit
    rw [pow_add, F.two_B hF]
    set P : ℕ := 2 ^ F.MB with hP
    have hPpos : 0 < P := Nat.two_pow_pos _
    set t := ratTop a b
    set n := (roundMagMode .halfEven neg (a * 2 ^ (-(max (t - (F.prec : ℤ)) F.qmin)).toNat)
      (b * 2 ^ (max (t - (F.prec : ℤ)) F.qmin).toNat)).1
    by_cases hq : F.qmin ≤ t - F.prec
    · obtain ⟨hn1, hn2, _, _⟩ := hR1 hq
      rw [hP2] at hn2
      rw [max_eq_left hq] at hno ⊢
      set k := (t - (F.prec : ℤ) - F.qmin).toNat
      -- P·2^k ≤ n·2^k < 2^(2B-2+MB) = P·2^(2B-2)  ⇒  k < 2B-2
      rw [hrange] at hno
      have hlt : n * 2 ^ k < 2 ^ (2 * F.B - 2 + F.MB) := by omega
      have h3 : P * 2 ^ k ≤ n * 2 ^ k := Nat.mul_le_mul_right _ hn1
      have h4 : 2 ^ (2 * F.B - 2 + F.MB) = P * 2 ^ (2 * F.B - 2) := by rw [pow_add]; ring
      rw [h4] at hlt
      have h5 : 2 ^ k < 2 ^ (2 * F.B - 2) := by
        have := lt_of_le_of_lt h3 hlt
        exact Nat.lt_of_mul_lt_mul_left this
      have hk : k < 2 * F.B - 2 := (Nat.pow_lt_pow_iff_right (by decide)).mp h5
      have h6 : (k + 2) * P ≤ (2 * F.B) * P := Nat.mul_le_mul_right P (by omega)
      have e2 : (k + 2) * P = k * P + 2 * P := by ring
      have : k * P + n < 2 * F.B * P := by
        -- n ≤ 2P but n = 2P needs strictness: k + 2 ≤ 2B - 1
        have h7 : (k + 3) * P ≤ (2 * F.B) * P := Nat.mul_le_mul_right P (by omega)
        have e3 : (k + 3) * P = k * P + 3 * P := by ring
        omega
      exact this
    · have hq' : t - (F.prec : ℤ) < F.qmin := by omega
      obtain ⟨hn1, _⟩ := hR2 hq'
      rw [max_eq_right hq'.le, sub_self, Int.toNat_zero, Nat.zero_mul, Nat.zero_add]
      have : 1 * P < 2 * F.B * P := Nat.mul_lt_mul_of_pos_right (by omega) hPpos
      omega

/-- **signed**: `num/den` rounds to the float with sign `s` and canonical magnitude `m·2^exp` iff
    it is non-zero, has that sign, and its magnitude lies in the rounding set -/
theorem round_iff (F : Ieee) (hF : F.Ok) (s : Bool) (m : ℕ) (exp : ℤ) (hc : Canon F m exp)
    (hfin : exp + F.MB ≤ F.emax) (num : ℤ) (den : ℕ) (hden : 0 < den) :
    (ieeeRoundRat F .halfEven num den).1 = (if s then F.signBit else 0) + magBits F m exp ↔
      (num ≠ 0 ∧ (num < 0 ↔ s = true) ∧ InSet F m exp ((num.natAbs : ℚ) / den)) := by
  have hmpos : 0 < magBits F m exp := by
    unfold magBits
    rcases hc with ⟨h, _, _⟩ | ⟨h, _, _⟩
    · have := Nat.two_pow_pos F.MB; omega
    · omega
  have hmlt := lt_trans (magBits_lt_inf F hF m exp hc hfin) (infBits_lt_signBit F hF)
  unfold ieeeRoundRat
  by_cases h0 : num = 0
  · simp only [h0, if_true]
    constructor
    · intro h; cases s <;> simp at h <;> omega
    · intro h; exact absurd rfl h.1
  · simp only [if_neg h0]
    have ha : num.natAbs ≠ 0 := by omega
    have hb : den ≠ 0 := by omega
    have hiff := mag_iff F hF (decide (num < 0)) num.natAbs den ha hb m exp hc hfin
    have hlt := mag_lt_signBit F hF (decide (num < 0)) num.natAbs den ha hb
    set r := (ieeeRoundRatMag F .halfEven (decide (num < 0)) num.natAbs den).1
    by_cases hneg : num < 0
    · simp only [hneg, decide_true, if_true]
      cases s
      · simp only [Bool.false_eq_true, if_false, Nat.zero_add, iff_false, and_false]
        constructor
        · intro h; omega
        · intro h; exact absurd h.2.1 (by simp)
      · simp only [if_true, iff_true]
        constructor
        · intro h
          exact ⟨h0, trivial, hiff.1 (by omega)⟩
        · intro h
          have := hiff.2 h.2.2
          omega
    · simp only [hneg, decide_false, Bool.false_eq_true, if_false, Nat.zero_add]
      cases s
      · simp only [Bool.false_eq_true, if_false, Nat.zero_add, iff_false, not_false_eq_true,
          true_and]
        constructor
        · intro h; exact ⟨h0, hiff.1 h⟩
        · intro h; exact hiff.2 h.2
      · simp only [if_true, iff_true]
        constructor
        · intro h; omega
        · intro h; exact absurd h.2.1 (by simp)

end Dashu.Model.Ratio
