import Dashu.Proofs.Ratio.Add
import Dashu.Proofs.Ratio.Round
/-
  History theorem: every step of every register program returns a value that satisfies the
  invariant of its type and equals the value-level specification; a step panics exactly where
  the specification divides by zero, with `DivideByZero`.
-/
namespace Dashu.Model.Ratio
open Dashu.Model

def Kind.Inv : Kind → Q → Prop
  | .R => Reduced
  | .X => RelaxedInv

theorem Reg.inv_iff (r : Reg) : r.Inv ↔ r.kind.Inv r.q := by
  obtain ⟨k, q⟩ := r; cases k <;> rfl

theorem Kind.Inv.den_pos {k : Kind} {q : Q} (h : k.Inv q) : 0 < q.den := by
  cases k
  · exact Reduced.den_pos h
  · exact RelaxedInv.den_pos h

theorem val_eq_zero_iff {q : Q} (hd : 0 < q.den) : q.val = 0 ↔ q.num = 0 := by
  have : (q.den : ℚ) ≠ 0 := by exact_mod_cast hd.ne'
  rw [Q.val_def, div_eq_zero_iff]
  constructor
  · rintro (h | h)
    · exact_mod_cast h
    · exact absurd h this
  · intro h; left; exact_mod_cast h

/-- a model outcome agrees with a specification outcome -/
def Good (k : Kind) (m : Except PanicKind Q) (spec : Option ℚ) : Prop :=
  match m with
  | .ok q => k.Inv q ∧ spec = some q.val
  | .error e => e = .divideByZero ∧ spec = none

theorem good_ok {k : Kind} {q : Q} {v : ℚ} (h : k.Inv q) (hv : q.val = v) :
    Good k (.ok q) (some v) := ⟨h, by rw [hv]⟩

theorem good_ex {k : Kind} {m : Except PanicKind Q} {v : ℚ}
    (h : ∃ r, m = .ok r ∧ k.Inv r ∧ r.val = v) : Good k m (some v) := by
  obtain ⟨r, rfl, h1, h2⟩ := h; exact good_ok h1 h2

theorem good_split {k : Kind} {m : Except PanicKind Q} {c : Prop} [Decidable c] {v : ℚ}
    (h : (c → m = .error .divideByZero) ∧ (¬ c → ∃ r, m = .ok r ∧ k.Inv r ∧ r.val = v)) :
    Good k m (if c then none else some v) := by
  by_cases hc : c
  · rw [if_pos hc, h.1 hc]; exact ⟨rfl, rfl⟩
  · rw [if_neg hc]; exact good_ex (h.2 hc)

theorem evalBin_good (o : Bin) (k : Kind) (x y : Q) (hx : k.Inv x) (hy : k.Inv y) :
    Good k (evalBin o k x y) (Spec.bin o x.val y.val) := by
  have hz := val_eq_zero_iff hy.den_pos
  cases k <;> cases o <;> simp only [evalBin, Spec.bin, hz]
  · exact good_ex (R.add_spec x y hx hy)
  · exact good_ex (R.sub_spec x y hx hy)
  · exact good_ex (R.mul_spec x y hx hy)
  · exact good_split (R.div_spec x y hx hy)
  · exact good_split (R.rem_spec x y hx hy)
  · exact good_split (R.remEuclid_spec x y hx hy)
  · exact good_ex (by simpa [X.add, Kind.Inv] using X.addSub_spec false x y hx hy)
  · exact good_ex (by simpa [X.sub, Kind.Inv] using X.addSub_spec true x y hx hy)
  · exact good_ex (X.mul_spec x y hx hy)
  · exact good_split (X.div_spec x y hx hy)
  · exact good_split (X.rem_spec x y hx hy)
  · exact good_split (X.remEuclid_spec x y hx hy)

theorem evalIntR_good (o : IntOp) (k : Kind) (x : Q) (z : ℤ) (hx : k.Inv x) :
    Good k (evalIntR o k x z) (Spec.intR o x.val z) := by
  have hz : ((z : ℚ) = 0) ↔ z = 0 := by exact_mod_cast Iff.rfl
  cases k <;> cases o <;> simp only [evalIntR, Spec.intR]
  · exact good_ok (R.addSubInt_spec false x z hx).1 (by simpa using (R.addSubInt_spec false x z hx).2)
  · exact good_ok (R.addSubInt_spec true x z hx).1 (by simpa using (R.addSubInt_spec true x z hx).2)
  · exact good_ex (R.mulInt_spec x z hx)
  · exact good_split (R.divInt_spec x z hx)
  · exact good_ok (X.addSubInt_spec false x z hx).1 (by simpa using (X.addSubInt_spec false x z hx).2)
  · exact good_ok (X.addSubInt_spec true x z hx).1 (by simpa using (X.addSubInt_spec true x z hx).2)
  · exact good_ex (X.mulInt_spec x z hx)
  · exact good_split (X.divInt_spec x z hx)

theorem evalIntL_good (o : IntOp) (k : Kind) (z : ℤ) (x : Q) (hx : k.Inv x) :
    Good k (evalIntL o k z x) (Spec.intL o z x.val) := by
  have hz := val_eq_zero_iff hx.den_pos
  cases k <;> cases o <;> simp only [evalIntL, Spec.intL, hz]
  · exact good_ok (R.addSubInt_spec false x z hx).1
      (by rw [(R.addSubInt_spec false x z hx).2]; simp [add_comm])
  · exact good_ok (R.intSub_spec z x hx).1 (R.intSub_spec z x hx).2
  · exact good_ex (by obtain ⟨r, h1, h2, h3⟩ := R.mulInt_spec x z hx
                      exact ⟨r, h1, h2, by rw [h3, mul_comm]⟩)
  · exact good_split (R.intDiv_spec z x hx)
  · exact good_ok (X.addSubInt_spec false x z hx).1
      (by rw [(X.addSubInt_spec false x z hx).2]; simp [add_comm])
  · exact good_ok (X.intSub_spec z x hx).1 (X.intSub_spec z x hx).2
  · exact good_ex (by obtain ⟨r, h1, h2, h3⟩ := X.mulInt_spec x z hx
                      exact ⟨r, h1, h2, by rw [h3, mul_comm]⟩)
  · exact good_split (X.intDiv_spec z x hx)

/-- outcome of a register-level operation against the specification -/
def GoodReg (m : Except PanicKind Reg) (spec : Option ℚ) : Prop :=
  match m with
  | .ok r => r.Inv ∧ spec = some r.val
  | .error e => e = .divideByZero ∧ spec = none

theorem goodReg_map {k : Kind} {m : Except PanicKind Q} {spec : Option ℚ} (h : Good k m spec) :
    GoodReg (m.map (Reg.mk k)) spec := by
  cases m with
  | ok q => exact ⟨(Reg.inv_iff _).2 h.1, h.2⟩
  | error e => exact h

theorem goodReg_ok {r : Reg} {v : ℚ} (h : r.kind.Inv r.q) (hv : r.q.val = v) :
    GoodReg (.ok r) (some v) := ⟨(Reg.inv_iff _).2 h, by rw [← hv]; rfl⟩

theorem kind_pow (k : Kind) (x : Q) (n : ℕ) (hx : k.Inv x) :
    k.Inv (pow x n) ∧ (pow x n).val = x.val ^ n := by
  cases k
  · exact pow_spec x n hx
  · exact relaxed_pow x n hx

theorem kind_mulSign (k : Kind) (x : Q) (s : Bool) (hx : k.Inv x) :
    k.Inv (mulSign x s) ∧ (mulSign x s).val = if s then -x.val else x.val := by
  cases k
  · exact mulSign_spec x s hx
  · exact relaxed_mulSign x s hx

theorem evalUn_good (o : Un) (r : Reg) (hr : r.Inv) :
    GoodReg (evalUn o r) (Spec.un o r.val) := by
  obtain ⟨k, x⟩ := r
  have hx : k.Inv x := (Reg.inv_iff _).1 hr
  have hpos := hx.den_pos
  have hz := val_eq_zero_iff hpos
  change GoodReg (evalUn o ⟨k, x⟩) (Spec.un o x.val)
  cases o <;> simp only [evalUn, Spec.un]
  · -- neg
    cases k
    · exact goodReg_ok (neg_spec x hx).1 (neg_spec x hx).2
    · exact goodReg_ok (relaxed_neg x hx).1 (relaxed_neg x hx).2
  · -- abs
    have habs : (if 0 ≤ x.val then x.val else -x.val) = |x.val| := by
      split
      · rename_i h; exact (abs_of_nonneg h).symm
      · rename_i h; exact (abs_of_neg (not_le.mp h)).symm
    rw [habs]
    cases k
    · exact goodReg_ok (abs_spec x hx).1 (abs_spec x hx).2
    · exact goodReg_ok (relaxed_abs x hx).1 (relaxed_abs x hx).2
  · -- inv
    simp only [hz]
    apply goodReg_map
    cases k
    · exact good_split (inv_spec x hx)
    · exact good_split (relaxed_inv x hx)
  · -- sqr
    have := kind_pow k x 2 hx
    rw [← sqr_eq_pow] at this
    exact goodReg_ok this.1 (by rw [this.2, pow_two])
  · -- cubic
    have := kind_pow k x 3 hx
    rw [← cubic_eq_pow] at this
    exact goodReg_ok this.1 (by rw [this.2]; ring)
  · -- signum
    rcases signum_spec x with h | h
    · cases k
      · exact goodReg_ok h.1 h.2
      · exact goodReg_ok (relaxed_signum x) h.2
    · omega
  · -- fract
    apply goodReg_map
    cases k
    · exact good_ex (R.fract_spec x hx)
    · exact good_ex (X.fract_spec x hx)
  · -- relax
    cases k
    · exact goodReg_ok (r := ⟨.X, x⟩) (Reduced.relaxedInv hx) rfl
    · exact goodReg_ok (r := ⟨.X, x⟩) hx rfl
  · -- canon
    apply goodReg_map (k := .R)
    exact good_ex (reduce_spec x hpos)

/-- what a step has to do -/
def StepOK (env : List Reg) (op : Op) : Prop :=
  match step env op with
  | .ok r => r.Inv ∧ Spec.step (env.map Reg.val) op = some r.val
  | .panic k => k = .divideByZero ∧ Spec.step (env.map Reg.val) op = none
  | .bad => True

theorem stepOK_of_good {k : Kind} {m : Except PanicKind Q} {spec : Option ℚ}
    (h : Good k m spec) :
    match liftQ k m with
    | .ok r => r.Inv ∧ spec = some r.val
    | .panic e => e = .divideByZero ∧ spec = none
    | .bad => True := by
  cases m with
  | ok q => exact ⟨(Reg.inv_iff _).2 h.1, h.2⟩
  | error e => exact h

theorem stepOK_of_goodReg {m : Except PanicKind Reg} {spec : Option ℚ} (h : GoodReg m spec) :
    match liftR m with
    | .ok r => r.Inv ∧ spec = some r.val
    | .panic e => e = .divideByZero ∧ spec = none
    | .bad => True := by
  cases m with
  | ok q => exact h
  | error e => exact h

theorem getElem?_map_val (env : List Reg) (i : ℕ) :
    (env.map Reg.val)[i]? = (env[i]?).map Reg.val := by simp

/-- **step theorem**: in an environment of valid registers every step returns a valid register
    with the specified value, or the `DivideByZero` panic exactly where the specification divides
    by zero. -/
theorem step_sound (env : List Reg) (op : Op) (henv : ∀ r ∈ env, r.Inv) : StepOK env op := by
  unfold StepOK
  cases op with
  | bin o i j =>
    simp only [step, Spec.step, getElem?_map_val]
    cases hi : env[i]? with
    | none => simp
    | some a =>
      cases hj : env[j]? with
      | none => simp
      | some b =>
        have ha : a.Inv := henv a (List.mem_of_getElem? hi)
        have hb : b.Inv := henv b (List.mem_of_getElem? hj)
        by_cases hk : a.kind = b.kind
        · simp only [hk, if_true, Option.map_some, Option.bind_eq_bind, Option.bind_some, Reg.val]
          have hb' : b.kind.Inv b.q := (Reg.inv_iff b).1 hb
          have ha' : b.kind.Inv a.q := hk ▸ (Reg.inv_iff a).1 ha
          exact stepOK_of_good (evalBin_good o b.kind a.q b.q ha' hb')
        · simp [hk]
  | un o i =>
    simp only [step, Spec.step, getElem?_map_val]
    cases hi : env[i]? with
    | none => simp
    | some a =>
      have ha : a.Inv := henv a (List.mem_of_getElem? hi)
      simp only [Option.map_some, Option.bind_eq_bind, Option.bind_some]
      exact stepOK_of_goodReg (evalUn_good o a ha)
  | pow i n =>
    simp only [step, Spec.step, getElem?_map_val]
    cases hi : env[i]? with
    | none => simp
    | some a =>
      have ha : a.Inv := henv a (List.mem_of_getElem? hi)
      have := kind_pow a.kind a.q n ((Reg.inv_iff a).1 ha)
      simp only [Option.map_some, Option.bind_eq_bind, Option.bind_some, Spec.qpow_eq]
      exact goodReg_ok (r := ⟨a.kind, _⟩) this.1 this.2
  | mulSign i s =>
    simp only [step, Spec.step, getElem?_map_val]
    cases hi : env[i]? with
    | none => simp
    | some a =>
      have ha : a.Inv := henv a (List.mem_of_getElem? hi)
      have := kind_mulSign a.kind a.q s ((Reg.inv_iff a).1 ha)
      simp only [Option.map_some, Option.bind_eq_bind, Option.bind_some]
      exact goodReg_ok (r := ⟨a.kind, _⟩) this.1 this.2
  | intR o i z =>
    simp only [step, Spec.step, getElem?_map_val]
    cases hi : env[i]? with
    | none => simp
    | some a =>
      have ha : a.Inv := henv a (List.mem_of_getElem? hi)
      simp only [Option.map_some, Option.bind_eq_bind, Option.bind_some]
      exact stepOK_of_good (evalIntR_good o a.kind a.q z ((Reg.inv_iff a).1 ha))
  | intL o z i =>
    simp only [step, Spec.step, getElem?_map_val]
    cases hi : env[i]? with
    | none => simp
    | some a =>
      have ha : a.Inv := henv a (List.mem_of_getElem? hi)
      simp only [Option.map_some, Option.bind_eq_bind, Option.bind_some]
      exact stepOK_of_good (evalIntL_good o a.kind z a.q ((Reg.inv_iff a).1 ha))

/-- **history theorem** (invariants): started from valid registers, every register a program
    ever produces — including those produced before a panic — satisfies the invariant of its
    type (`RBig`: positive denominator coprime to the numerator; `Relaxed`: not both even). -/
theorem run_inv (ops : List Op) (env : List Reg) (henv : ∀ r ∈ env, r.Inv) :
    ∀ r ∈ (run ops env).1, r.Inv := by
  induction ops generalizing env with
  | nil => simpa [run] using henv
  | cons op ops ih =>
    have hs := step_sound env op henv
    unfold StepOK at hs
    unfold run
    cases hstep : step env op with
    | ok r =>
      rw [hstep] at hs
      simp only
      apply ih
      intro r' hr'
      rcases List.mem_append.mp hr' with h | h
      · exact henv r' h
      · rw [List.mem_singleton.mp h]; exact hs.1
    | panic k => simpa using henv
    | bad => simpa using henv

/-- **history theorem** (values): a well-formed program computes exactly the value-level
    interpretation `Spec.run` of the same program — same values in every register, stops at the
    same step, and only ever panics with `DivideByZero`. -/
theorem run_vals (ops : List Op) (env : List Reg) (henv : ∀ r ∈ env, r.Inv) :
    match (run ops env).2 with
    | .done => Spec.run ops (env.map Reg.val) = ((run ops env).1.map Reg.val, true)
    | .panic k => k = .divideByZero ∧
        Spec.run ops (env.map Reg.val) = ((run ops env).1.map Reg.val, false)
    | .bad => True := by
  induction ops generalizing env with
  | nil => simp [run, Spec.run]
  | cons op ops ih =>
    have hs := step_sound env op henv
    unfold StepOK at hs
    unfold run
    cases hstep : step env op with
    | ok r =>
      rw [hstep] at hs
      simp only
      have henv' : ∀ r' ∈ env ++ [r], r'.Inv := by
        intro r' hr'
        rcases List.mem_append.mp hr' with h | h
        · exact henv r' h
        · rw [List.mem_singleton.mp h]; exact hs.1
      have := ih (env ++ [r]) henv'
      have e : Spec.run (op :: ops) (env.map Reg.val) = Spec.run ops ((env ++ [r]).map Reg.val) := by
        simp only [Spec.run, hs.2, List.map_append, List.map_cons, List.map_nil]
      rw [e]
      exact this
    | panic k =>
      rw [hstep] at hs
      simp only
      exact ⟨hs.1, by simp only [Spec.run, hs.2]⟩
    | bad => simp

end Dashu.Model.Ratio
