import Dashu.Model.Ratio.PowGuard
import Dashu.Proofs.Ratio.Basic
import Dashu.Proofs.Int.Pow
import Dashu.Proofs.Int.Repr
/-
  C04 round 6: the allocation panic of `UBig::pow` / `IBig::pow` (value-level guard `upowPanics`, 64-bit words) is raised
  only when the exact power has at least `2^62` bits (512 PiB) — every branch of the guard: the up-front result
  buffer of `pow_word_base` / `pow_dword_base`, `exp.checked_mul(shift)`, the `Buffer::allocate` of the final shift.
-/
namespace Dashu.Model.Ratio
open Dashu.Model

theorem natWords_len_bound (W : Nat) (hW : 1 ≤ W) (n : Nat) (hn : n ≠ 0) :
    2 ^ (W * ((natWords W n).length - 1)) ≤ n := by
  induction n using Nat.strongRecOn with
  | _ n ih =>
    have hW0 : ¬ W = 0 := by omega
    have hunf : natWords W n = n % 2 ^ W :: natWords W (n / 2 ^ W) := by
      rw [natWords]; simp [hn, hW0]
    rw [hunf]
    by_cases hq : n / 2 ^ W = 0
    · rw [hq, natWords_zero]; simp; omega
    · have hlt : n / 2 ^ W < n :=
        Nat.div_lt_self (Nat.pos_of_ne_zero hn) (Nat.one_lt_two_pow hW0)
      have := ih _ hlt hq
      have hne : natWords W (n / 2 ^ W) ≠ [] := by
        rw [natWords]; simp [hq, hW0]
      have hl : 1 ≤ (natWords W (n / 2 ^ W)).length := by
        cases h : natWords W (n / 2 ^ W) with
        | nil => exact absurd h hne
        | cons a t => simp
      simp only [List.length_cons, Nat.add_sub_cancel]
      have e : W * (natWords W (n / 2 ^ W)).length = W * ((natWords W (n / 2 ^ W)).length - 1) + W := by
        have : (natWords W (n / 2 ^ W)).length = ((natWords W (n / 2 ^ W)).length - 1) + 1 := by omega
        rw [this, Nat.mul_add, Nat.mul_one]; simp
      rw [e, Nat.pow_add]
      calc 2 ^ (W * ((natWords W (n / 2 ^ W)).length - 1)) * 2 ^ W ≤ n / 2 ^ W * 2 ^ W :=
            Nat.mul_le_mul_right _ this
        _ ≤ n := Nat.div_mul_le_self n (2 ^ W)

theorem two_pow_le_pow (v n k : Nat) (hv : 2 ≤ v) (hk : k ≤ n) : 2 ^ k ≤ v ^ n :=
  calc 2 ^ k ≤ 2 ^ n := Nat.pow_le_pow_right (by omega) hk
    _ ≤ v ^ n := Nat.pow_le_pow_left hv n

/-- `o ^ wexp ≥ 2^32` for a 64-bit word base `o > 2` (the loop of `max_exp_in_word` starts at `64 / bit_len(o)`) -/
theorem wexp_pow_lb (o : Nat) (h2 : 2 < o) (hlt : o < 2 ^ 64) : 2 ^ 32 ≤ o ^ (maxExpInWord 64 o).1 := by
  unfold maxExpInWord
  split
  · rename_i hbig
    simp only [Nat.pow_one]
    omega
  · rename_i hsmall
    have hne : o ≠ 0 := by omega
    have hbl : bitLen o = Nat.log2 o + 1 := by unfold bitLen; rw [if_neg hne]
    have hlo : 2 ^ Nat.log2 o ≤ o := Nat.log2_self_le hne
    have hhi : o < 2 ^ bitLen o := by rw [hbl]; exact Nat.lt_log2_self
    have hl1 : 1 ≤ Nat.log2 o := by
      rcases Nat.eq_zero_or_pos (Nat.log2 o) with h | h
      · rw [hbl, h] at hhi; omega
      · exact h
    have hl32 : Nat.log2 o < 32 := by
      apply (Nat.log2_lt hne).mpr; omega
    generalize hb : bitLen o = b at *
    have hb2 : 2 ≤ b := by omega
    have hb32 : b < 33 := by omega
    have hp0 : o ^ (64 / b) < 2 ^ 64 := by
      have hbpos : 0 < b := by omega
      have he0 : 64 / b ≠ 0 := by
        have : 1 ≤ 64 / b := Nat.div_pos (by omega) hbpos
        omega
      calc o ^ (64 / b) < (2 ^ b) ^ (64 / b) := Nat.pow_lt_pow_left hhi he0
        _ = 2 ^ (b * (64 / b)) := by rw [Nat.pow_mul]
        _ ≤ 2 ^ 64 := Nat.pow_le_pow_right (by omega) (Nat.mul_div_le 64 b)
    obtain ⟨_, i2, _⟩ := maxExpLoop_spec 64 o 64 (64 / b) (o ^ (64 / b)) rfl hp0
    have key : ∀ b < 33, 2 ≤ b → 32 ≤ (b - 1) * (64 / b) := by decide
    have hk := key b hb32 hb2
    have hlog : Nat.log2 o = b - 1 := by omega
    calc 2 ^ 32 ≤ 2 ^ ((b - 1) * (64 / b)) := Nat.pow_le_pow_right (by omega) hk
      _ = (2 ^ (b - 1)) ^ (64 / b) := by rw [Nat.pow_mul]
      _ ≤ o ^ (64 / b) := Nat.pow_le_pow_left (by rw [← hlog]; exact hlo) _
      _ ≤ o ^ (maxExpLoop 64 o 64 (64 / b) (o ^ (64 / b))).1 := Nat.pow_le_pow_right (by omega) i2

set_option exponentiation.threshold 300 in
theorem pow_panic_only_beyond_memory (v n : Nat) (h : upowPanics 64 v n = true) :
    2 ^ (2 ^ 62) ≤ v ^ n := by
  have hspec := trailingZeros_spec v
  have hcap : bufMaxCapacity 64 = 2 ^ 58 - 1 := by decide +kernel
  generalize hs : trailingZeros v = s at *
  generalize ho : v / 2 ^ s = o at *
  have hvo : o ≤ v := by rw [← hspec]; exact Nat.le_mul_of_pos_right _ (Nat.two_pow_pos s)
  unfold upowPanics at h
  rw [hs, ho, Bool.or_eq_true] at h
  rcases h with h | h
  · -- the up-front result buffer of the odd part's power
    unfold ofNat at h
    split at h
    · unfold powBufAllocPanics at h
      simp only [Bool.and_eq_true, Bool.not_eq_true', decide_eq_false_iff_not, hcap] at h
      obtain ⟨_, h⟩ := h
      split at h
      · rename_i hw
        simp only [Bool.and_eq_true, Bool.not_eq_true', decide_eq_false_iff_not, decide_eq_true_eq] at h
        obtain ⟨h1, h2⟩ := h
        have ho2 : 2 < o := by omega
        have hlb := wexp_pow_lb o ho2 hw
        generalize (maxExpInWord 64 o).1 = w at *
        have hq : 2 ^ 58 - 1 ≤ n / w := by omega
        have hn : w * (n / w) ≤ n := Nat.mul_div_le n w
        calc 2 ^ (2 ^ 62) ≤ 2 ^ (32 * (n / w)) := Nat.pow_le_pow_right (by omega) (by omega)
          _ = (2 ^ 32) ^ (n / w) := by rw [Nat.pow_mul]
          _ ≤ (o ^ w) ^ (n / w) := Nat.pow_le_pow_left hlb _
          _ = o ^ (w * (n / w)) := by rw [Nat.pow_mul]
          _ ≤ o ^ n := Nat.pow_le_pow_right (by omega) hn
          _ ≤ v ^ n := Nat.pow_le_pow_left hvo n
      · rename_i hw
        simp only [decide_eq_true_eq] at h
        have ho64 : 2 ^ 64 ≤ o := by omega
        calc 2 ^ (2 ^ 62) ≤ 2 ^ (64 * n) := Nat.pow_le_pow_right (by omega) (by omega)
          _ = (2 ^ 64) ^ n := by rw [Nat.pow_mul]
          _ ≤ o ^ n := Nat.pow_le_pow_left ho64 n
          _ ≤ v ^ n := Nat.pow_le_pow_left hvo n
    · simp [powBufAllocPanics] at h
  · rw [Bool.and_eq_true, Bool.or_eq_true] at h
    obtain ⟨hs0, h⟩ := h
    have hs0' : s ≠ 0 := by simpa using hs0
    have ho0 : o ≠ 0 := by
      intro h0; rw [h0] at hspec; simp at hspec; rw [← hspec] at hs
      have := trailingZeros_zero
      omega
    have hvn : v ^ n = o ^ n * 2 ^ (s * n) := by rw [← hspec, Nat.mul_pow, ← Nat.pow_mul]
    have hon : 1 ≤ o ^ n := Nat.one_le_pow _ _ (by omega)
    have hshift : ∀ k, k ≤ s * n → 2 ^ k ≤ v ^ n := by
      intro k hk
      rw [hvn]
      calc 2 ^ k ≤ 2 ^ (s * n) := Nat.pow_le_pow_right (by omega) hk
        _ = 1 * 2 ^ (s * n) := by rw [Nat.one_mul]
        _ ≤ o ^ n * 2 ^ (s * n) := Nat.mul_le_mul_right _ hon
    rcases h with h | h
    · have h' : 2 ^ usizeBits ≤ n * s := of_decide_eq_true h
      rw [show usizeBits = 64 from rfl] at h'
      exact hshift _ (by rw [Nat.mul_comm]; omega)
    · rw [upowK_eq] at h
      by_cases hlt : o ^ n < 2 ^ (2 * 64)
      · have e : ofNat 64 (o ^ n) = .small (o ^ n) := by unfold ofNat; rw [if_pos hlt]
        rw [e] at h
        simp only [shlAllocateWords] at h
        by_cases c1 : o ^ n = 0
        · omega
        · rw [if_neg c1] at h
          by_cases c2 : n * s ≤ 2 * 64 - bitLenNat (o ^ n)
          · rw [if_pos c2] at h; simp at h
          · rw [if_neg c2] at h
            by_cases c3 : o ^ n = 1
            · rw [if_pos c3] at h
              simp only [hcap, decide_eq_true_eq] at h
              exact hshift _ (by rw [Nat.mul_comm]; omega)
            · rw [if_neg c3] at h
              simp only [hcap, decide_eq_true_eq] at h
              exact hshift _ (by rw [Nat.mul_comm]; omega)
      · have e : ofNat 64 (o ^ n) = .large (natWords 64 (o ^ n)) := by unfold ofNat; rw [if_neg hlt]
        rw [e] at h
        simp only [shlAllocateWords, hcap, decide_eq_true_eq] at h
        have hm0 : o ^ n ≠ 0 := by omega
        have hb := natWords_len_bound 64 (by omega) (o ^ n) hm0
        rw [hvn]
        generalize (natWords 64 (o ^ n)).length = len at *
        calc 2 ^ (2 ^ 62) ≤ 2 ^ (64 * (len - 1) + s * n) := Nat.pow_le_pow_right (by omega) (by rw [Nat.mul_comm s n]; omega)
          _ = 2 ^ (64 * (len - 1)) * 2 ^ (s * n) := Nat.pow_add _ _ _
          _ ≤ o ^ n * 2 ^ (s * n) := Nat.mul_le_mul_right _ hb

end Dashu.Model.Ratio
