import Dashu.Model.Float.Spec
import Dashu.Proofs.Ratio.Pick
import Mathlib.Data.Rat.Floor
/-
  C18 FBig clause: rounding a rational to an integer under each mode of dashu-float
  (`Dashu.Model.Float.roundInt`, builder-float's definition of the modes, read-only) as a
  "window" around the result.
-/
namespace Dashu.Model.Ratio
open Dashu.Model

abbrev FMode := Dashu.Model.Float.Mode

theorem floorQ_eq (x : ℚ) : Float.floorQ x = ⌊x⌋ := by
  unfold Float.floorQ; rw [Rat.floor_def']

/-- `roundInt` in terms of floor, as a plain case table -/
theorem roundInt_eq (m : FMode) (x : ℚ) :
    Float.roundInt m x =
      if (⌊x⌋ : ℚ) = x then ⌊x⌋ else
      match m with
      | .down => ⌊x⌋
      | .up => ⌊x⌋ + 1
      | .zero => if x < 0 then ⌊x⌋ + 1 else ⌊x⌋
      | .away => if x < 0 then ⌊x⌋ else ⌊x⌋ + 1
      | .halfAway =>
        if 2 * (x - ⌊x⌋) < 1 then ⌊x⌋ else if 2 * (x - ⌊x⌋) = 1 then (if x < 0 then ⌊x⌋ else ⌊x⌋ + 1)
        else ⌊x⌋ + 1
      | .halfEven =>
        if 2 * (x - ⌊x⌋) < 1 then ⌊x⌋ else if 2 * (x - ⌊x⌋) = 1 then (if ⌊x⌋ % 2 = 0 then ⌊x⌋ else ⌊x⌋ + 1)
        else ⌊x⌋ + 1 := by
  unfold Float.roundInt Float.cmpQ
  simp only [floorQ_eq]
  split
  · rfl
  · cases m <;> simp only <;> (try rfl)
    all_goals
      by_cases h1 : 2 * (x - (⌊x⌋ : ℚ)) < 1
      · simp only [if_pos h1]
      · by_cases h2 : 2 * (x - (⌊x⌋ : ℚ)) = 1
        · simp only [if_neg h1, if_pos h2]
        · simp only [if_neg h1, if_neg h2]

/-- mirror image of a mode -/
def flipMode : FMode → FMode
  | .up => .down | .down => .up | m => m

theorem floor_neg_of_not_int (x : ℚ) (h : (⌊x⌋ : ℚ) ≠ x) : ⌊-x⌋ = -⌊x⌋ - 1 := by
  rw [Int.floor_eq_iff]
  have h1 := Int.floor_le x
  have h2 := Int.lt_floor_add_one x
  have h3 : (⌊x⌋ : ℚ) < x := lt_of_le_of_ne h1 h
  push_cast
  constructor <;> linarith

/-- rounding is odd up to swapping `Up` and `Down` -/
theorem roundInt_neg (m : FMode) (x : ℚ) :
    Float.roundInt m (-x) = -Float.roundInt (flipMode m) x := by
  rw [roundInt_eq, roundInt_eq]
  by_cases hint : (⌊x⌋ : ℚ) = x
  · have hfl : ⌊-x⌋ = -⌊x⌋ := by
      have hx : x = ((⌊x⌋ : ℤ) : ℚ) := hint.symm
      generalize ⌊x⌋ = k at hx
      subst hx
      rw [← Int.cast_neg, Int.floor_intCast]
    rw [if_pos (by rw [hfl]; push_cast; rw [hint]), if_pos hint, hfl]
  · have hf := floor_neg_of_not_int x hint
    have hne : ¬ (((⌊-x⌋ : ℤ) : ℚ) = -x) := by
      rw [hf]; push_cast; intro h
      have h2 := Int.lt_floor_add_one x
      have : (⌊x⌋ : ℚ) + 1 = x := by linarith
      linarith
    rw [if_neg hne, if_neg hint, hf]
    have h1 := Int.floor_le x
    have h3 : (⌊x⌋ : ℚ) < x := lt_of_le_of_ne h1 hint
    have hx0 : x ≠ 0 := by intro h; rw [h] at hint; simp at hint
    have e : 2 * (-x - ((-⌊x⌋ - 1 : ℤ) : ℚ)) = 2 - 2 * (x - ⌊x⌋) := by push_cast; ring
    have hsign : (-x < 0) ↔ ¬ (x < 0) := by
      constructor
      · intro h; linarith
      · intro h
        have : 0 < x := lt_of_le_of_ne (not_lt.mp h) (Ne.symm hx0)
        linarith
    generalize hfg : ⌊x⌋ = f at *
    cases m <;> simp only [flipMode]
    · -- zero
      by_cases hx : x < 0
      · simp only [if_neg (fun h => (hsign.1 h) hx), if_pos hx]; omega
      · simp only [if_pos (hsign.2 hx), if_neg hx]; omega
    · -- away
      by_cases hx : x < 0
      · simp only [if_neg (fun h => (hsign.1 h) hx), if_pos hx]; omega
      · simp only [if_pos (hsign.2 hx), if_neg hx]; omega
    · omega   -- up
    · omega   -- down
    · -- halfEven
      rcases lt_trichotomy (2 * (x - (f : ℚ))) 1 with h | h | h
      · have l1 : ¬ (2 - 2 * (x - (f : ℚ)) < 1) := by linarith
        have l2 : ¬ (2 - 2 * (x - (f : ℚ)) = 1) := by intro hh; linarith
        simp only [e, if_neg l1, if_neg l2, if_pos h]; omega
      · have l1 : ¬ (2 - 2 * (x - (f : ℚ)) < 1) := by linarith
        have l2 : 2 - 2 * (x - (f : ℚ)) = 1 := by linarith
        have r1 : ¬ (2 * (x - (f : ℚ)) < 1) := by linarith
        simp only [e, if_neg l1, if_pos l2, if_neg r1, if_pos h]
        by_cases hev : f % 2 = 0
        · have : ¬ ((-f - 1) % 2 = 0) := by omega
          simp only [if_neg this, if_pos hev]; omega
        · have : (-f - 1) % 2 = 0 := by omega
          simp only [if_pos this, if_neg hev]; omega
      · have l1 : 2 - 2 * (x - (f : ℚ)) < 1 := by linarith
        have r1 : ¬ (2 * (x - (f : ℚ)) < 1) := by linarith
        have r2 : ¬ (2 * (x - (f : ℚ)) = 1) := by intro hh; linarith
        simp only [e, if_pos l1, if_neg r1, if_neg r2]; omega
    · -- halfAway
      rcases lt_trichotomy (2 * (x - (f : ℚ))) 1 with h | h | h
      · have l1 : ¬ (2 - 2 * (x - (f : ℚ)) < 1) := by linarith
        have l2 : ¬ (2 - 2 * (x - (f : ℚ)) = 1) := by intro hh; linarith
        simp only [e, if_neg l1, if_neg l2, if_pos h]; omega
      · have l1 : ¬ (2 - 2 * (x - (f : ℚ)) < 1) := by linarith
        have l2 : 2 - 2 * (x - (f : ℚ)) = 1 := by linarith
        have r1 : ¬ (2 * (x - (f : ℚ)) < 1) := by linarith
        simp only [e, if_neg l1, if_pos l2, if_neg r1, if_pos h]
        by_cases hx : x < 0
        · simp only [if_neg (fun h => (hsign.1 h) hx), if_pos hx]; omega
        · simp only [if_pos (hsign.2 hx), if_neg hx]; omega
      · have l1 : 2 - 2 * (x - (f : ℚ)) < 1 := by linarith
        have r1 : ¬ (2 * (x - (f : ℚ)) < 1) := by linarith
        have r2 : ¬ (2 * (x - (f : ℚ)) = 1) := by intro hh; linarith
        simp only [e, if_pos l1, if_neg r1, if_neg r2]; omega

end Dashu.Model.Ratio
