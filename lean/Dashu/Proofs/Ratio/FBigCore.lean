import Dashu.Proofs.Ratio.FBigWindow
/-
  C18 FBig clause: the rounding set of a `p`-digit base-`b` float for a tiling window.
-/
namespace Dashu.Model.Ratio
open Dashu.Model

/-- rounding set of the magnitude `S·b^e` (`S` a `p`-digit significand) for the window `W`:
    `dhi` quanta above, `dlo` quanta below — of the finer quantum `b^(e-1)` when `S = b^(p-1)` -/
def FSet (W : Window) (b p S : ℕ) (e : ℤ) (y : ℚ) : Prop :=
  let U : ℚ := (b : ℚ) ^ e
  let lo : ℚ := if S = b ^ (p - 1) then S * U - W.dlo * (U / b) else S * U - W.dlo * U
  let hi : ℚ := S * U + W.dhi * U
  lo ≤ y ∧ y ≤ hi ∧
    (y = lo → (if S = b ^ (p - 1) then W.inclLo (b ^ p) else W.inclLo S) = true) ∧
    (y = hi → W.inclHi S = true)

theorem inW_self {W : Window} (hW : W.Ok) (n : ℕ) : InW W n (n : ℚ) := by
  refine ⟨by linarith [hW.lo_nonneg], by linarith [hW.hi_nonneg], fun h => ?_, fun h => ?_⟩
  · exact hW.lo_zero (by linarith) n
  · exact hW.hi_zero (by linarith) n

theorem bpow_pos (b : ℕ) (hb : 2 ≤ b) (z : ℤ) : (0 : ℚ) < (b : ℚ) ^ z :=
  zpow_pos (by exact_mod_cast (by omega : 0 < b)) z

theorem bpow_succ (b : ℕ) (hb : 2 ≤ b) (z : ℤ) : (b : ℚ) ^ (z + 1) = (b : ℚ) ^ z * b := by
  rw [zpow_add_one₀ (by exact_mod_cast (by omega : b ≠ 0))]

theorem bpow_mono (b : ℕ) (hb : 2 ≤ b) {x y : ℤ} (h : x ≤ y) : (b : ℚ) ^ x ≤ (b : ℚ) ^ y :=
  zpow_le_zpow_right₀ (by exact_mod_cast (by omega : 1 ≤ b)) h

theorem bbinade_unique (b : ℕ) (hb : 2 ≤ b) {x : ℚ} {s t : ℤ} (hs1 : (b : ℚ) ^ (s - 1) ≤ x)
    (hs2 : x < (b : ℚ) ^ s) (ht1 : (b : ℚ) ^ (t - 1) ≤ x) (ht2 : x < (b : ℚ) ^ t) : s = t := by
  rcases lt_trichotomy s t with h | h | h
  · exfalso
    have := bpow_mono b hb (by omega : s ≤ t - 1)
    linarith
  · exact h
  · exfalso
    have := bpow_mono b hb (by omega : t ≤ s - 1)
    linarith

set_option maxHeartbeats 400000 in
/-- core, direction "the rounded value is `S·b^e` ⇒ `y` lies in its rounding set" -/
theorem fbig_core_mp (W : Window) (hW : W.Ok) (b p S : ℕ) (hb : 2 ≤ b) (hp : 1 ≤ p)
    (hS1 : b ^ (p - 1) ≤ S) (hS2 : S < b ^ p) (e : ℤ) (y : ℚ) (t : ℤ)
    (ht1 : (b : ℚ) ^ (t - 1) ≤ y) (ht2 : y < (b : ℚ) ^ t) (n : ℕ)
    (hn : InW W n (y / (b : ℚ) ^ (t - p)))
    (hval : (n : ℚ) * (b : ℚ) ^ (t - p) = (S : ℚ) * (b : ℚ) ^ e) : FSet W b p S e y := by
  have hbq : (2 : ℚ) ≤ (b : ℚ) := by exact_mod_cast hb
  have hb0 : (b : ℚ) ≠ 0 := by linarith
  have hMN : b ^ p = b * b ^ (p - 1) := by
    obtain ⟨k, hk⟩ : ∃ k, p = k + 1 := ⟨p - 1, by omega⟩
    rw [hk, Nat.add_sub_cancel, pow_succ]; ring
  set N : ℕ := b ^ (p - 1) with hN
  have hNpos : 0 < N := Nat.pow_pos (by omega)
  have hNq : (1 : ℚ) ≤ (N : ℚ) := by exact_mod_cast hNpos
  have hS1q : (N : ℚ) ≤ S := by exact_mod_cast hS1
  have hS2q : (S : ℚ) + 1 ≤ (b : ℚ) * N := by
    have : S + 1 ≤ b * N := by rw [← hMN]; omega
    exact_mod_cast this
  have hMq : ((b ^ p : ℕ) : ℚ) = (b : ℚ) * N := by rw [hMN]; push_cast; ring
  have hdlo := hW.lo_nonneg
  have hdhi := hW.hi_nonneg
  have hsum := hW.sum
  -- the quantum and the binade in terms of it
  set Qq : ℚ := (b : ℚ) ^ (t - p) with hQ
  have hQpos : 0 < Qq := bpow_pos b hb _
  have e1 : (b : ℚ) ^ (t - 1) = (N : ℚ) * Qq := by
    have : t - 1 = (t - p) + ((p - 1 : ℕ) : ℤ) := by omega
    rw [this, zpow_add₀ hb0, zpow_natCast, hQ, hN]; push_cast; ring
  have e2 : (b : ℚ) ^ t = (b : ℚ) * N * Qq := by
    have : t = (t - 1) + 1 := by ring
    rw [this, bpow_succ b hb, e1]; ring
  rw [e1] at ht1; rw [e2] at ht2
  set z : ℚ := y / Qq with hz
  have hyz : y = z * Qq := by rw [hz, div_mul_cancel₀ _ hQpos.ne']
  have hz1 : (N : ℚ) ≤ z := by rw [hz, le_div_iff₀ hQpos]; exact ht1
  have hz2 : z < (b : ℚ) * N := by rw [hz, div_lt_iff₀ hQpos]; exact ht2
  obtain ⟨n1, n2, n3, n4⟩ := hn
  -- N ≤ n ≤ bN
  have hnlo : N ≤ n := by
    by_contra hc
    have h1 : (n : ℚ) + 1 ≤ N := by exact_mod_cast (by omega : n + 1 ≤ N)
    have hzN : z = N := by linarith
    have := InW.unique hW (⟨n1, n2, n3, n4⟩ : InW W n z) (by rw [hzN]; exact inW_self hW N)
    omega
  have hnhi : n ≤ b * N := by
    by_contra hc
    have h1 : (b : ℚ) * N + 1 ≤ n := by exact_mod_cast (by omega : b * N + 1 ≤ n)
    linarith
  have hnloq : (N : ℚ) ≤ n := by exact_mod_cast hnlo
  have hnhiq : (n : ℚ) ≤ (b : ℚ) * N := by exact_mod_cast hnhi
  set U : ℚ := (b : ℚ) ^ e with hU
  have hUpos : 0 < U := bpow_pos b hb _
  unfold FSet
  dsimp only
  rw [← hU]
  -- compare exponents: d = e - (t - p)
  have hUQ : U = Qq * (b : ℚ) ^ (e - (t - p)) := by
    rw [hU, hQ, ← zpow_add₀ hb0]; congr 1; ring
  set d : ℤ := e - (t - p) with hd
  have hD := bpow_pos b hb d
  have hnS : (n : ℚ) = S * (b : ℚ) ^ d := by
    have : (n : ℚ) * Qq = S * (b : ℚ) ^ d * Qq := by rw [hval, hUQ]; ring
    exact mul_right_cancel₀ hQpos.ne' this
  rcases lt_trichotomy d 0 with hdneg | hd0 | hdpos
  · -- d ≤ -1: n ≤ S/b < N
    exfalso
    have h1 : (b : ℚ) ^ d ≤ (b : ℚ) ^ (-1 : ℤ) := bpow_mono b hb (by omega)
    rw [zpow_neg_one] at h1
    have h2 : (n : ℚ) ≤ S * (b : ℚ)⁻¹ := by rw [hnS]; exact mul_le_mul_of_nonneg_left h1 (by linarith)
    have h3 : (S : ℚ) * (b : ℚ)⁻¹ < N := by
      rw [mul_inv_lt_iff₀ (by linarith)]; linarith
    linarith
  · -- d = 0: same quantum, n = S
    rw [hd0, zpow_zero, mul_one] at hnS hUQ
    have hnSn : n = S := by exact_mod_cast hnS
    rw [← hUQ] at hyz
    rw [hnSn] at n1 n2 n3 n4
    have hylo : (S : ℚ) * U - W.dlo * U ≤ y := by rw [hyz]; nlinarith
    have hyhi : y ≤ (S : ℚ) * U + W.dhi * U := by rw [hyz]; nlinarith
    have htielo : y = (S : ℚ) * U - W.dlo * U → W.inclLo S = true := by
      intro h; apply n3
      have : z * U = ((S : ℚ) - W.dlo) * U := by rw [← hyz, h]; ring
      exact mul_right_cancel₀ hUpos.ne' this
    have htiehi : y = (S : ℚ) * U + W.dhi * U → W.inclHi S = true := by
      intro h; apply n4
      have : z * U = ((S : ℚ) + W.dhi) * U := by rw [← hyz, h]; ring
      exact mul_right_cancel₀ hUpos.ne' this
    by_cases hpow : S = N
    · rw [if_pos hpow, if_pos hpow]
      have hUb : 0 < U / b := div_pos hUpos (by linarith)
      have hySU : (S : ℚ) * U ≤ y := by
        rw [hyz, hpow]; exact mul_le_mul_of_nonneg_right hz1 hUpos.le
      have hnn := mul_nonneg hdlo hUb.le
      refine ⟨by linarith, hyhi, fun h => ?_, htiehi⟩
      have : W.dlo * (U / b) = 0 := by linarith
      have hd0' : W.dlo = 0 := by
        rcases mul_eq_zero.mp this with h | h
        · exact h
        · exact absurd h hUb.ne'
      exact hW.lo_zero hd0' _
    · rw [if_neg hpow, if_neg hpow]
      exact ⟨hylo, hyhi, htielo, htiehi⟩
  · -- d ≥ 1: n = S b^d ≥ bN forces n = bN, S = N, d = 1
    have h1 : (b : ℚ) ^ (1 : ℤ) ≤ (b : ℚ) ^ d := bpow_mono b hb (by omega)
    rw [zpow_one] at h1
    have h2 : (S : ℚ) * b ≤ n := by rw [hnS]; exact mul_le_mul_of_nonneg_left h1 (by linarith)
    have hSN : (S : ℚ) = N := by
      have h3 : (S : ℚ) * b ≤ (N : ℚ) * b := by linarith
      have := le_of_mul_le_mul_right h3 (by linarith : (0 : ℚ) < b)
      linarith
    have hnM : (n : ℚ) = (b : ℚ) * N := by rw [hSN] at h2; linarith
    have hbd : (b : ℚ) ^ d = b := by
      have : (N : ℚ) * (b : ℚ) ^ d = N * b := by
        have h4 := hnS; rw [hnM, hSN] at h4; linarith
      exact mul_left_cancel₀ (by linarith) this
    have hpow : S = N := by exact_mod_cast hSN
    have hUb : U / b = Qq := by rw [hUQ, hbd]; field_simp
    have hnMn : n = b ^ p := by rw [hMN]; exact_mod_cast hnM
    rw [if_pos hpow, if_pos hpow, hUb]
    rw [hnM] at n1 n2
    have hSU : (S : ℚ) * U = (b : ℚ) * N * Qq := by rw [hSN, hUQ, hbd]; ring
    have hzlt := mul_lt_mul_of_pos_right hz2 hQpos
    have hnnhi := mul_nonneg hdhi hUpos.le
    refine ⟨by rw [hyz, hSU]; linarith [mul_le_mul_of_nonneg_right n1 hQpos.le],
      by rw [hyz, hSU]; linarith, fun h => ?_, fun h => ?_⟩
    · rw [← hnMn]; apply n3
      have : z * Qq = ((n : ℚ) - W.dlo) * Qq := by rw [← hyz, h, hSU, hnM]; ring
      exact mul_right_cancel₀ hQpos.ne' this
    · exfalso
      have : y < (S : ℚ) * U := by rw [hyz, hSU]; exact hzlt
      linarith

set_option maxHeartbeats 400000 in
/-- core, direction "`y` lies in the rounding set of `S·b^e` ⇒ the rounded value is `S·b^e`" -/
theorem fbig_core_mpr (W : Window) (hW : W.Ok) (b p S : ℕ) (hb : 2 ≤ b) (hp : 1 ≤ p)
    (hS1 : b ^ (p - 1) ≤ S) (hS2 : S < b ^ p) (e : ℤ) (y : ℚ) (t : ℤ)
    (ht1 : (b : ℚ) ^ (t - 1) ≤ y) (ht2 : y < (b : ℚ) ^ t) (n : ℕ)
    (hn : InW W n (y / (b : ℚ) ^ (t - p)))
    (hin : FSet W b p S e y) : (n : ℚ) * (b : ℚ) ^ (t - p) = (S : ℚ) * (b : ℚ) ^ e := by
  unfold FSet at hin
  dsimp only at hin
  have hbq : (2 : ℚ) ≤ (b : ℚ) := by exact_mod_cast hb
  have hb0 : (b : ℚ) ≠ 0 := by linarith
  have hMN : b ^ p = b * b ^ (p - 1) := by
    obtain ⟨k, hk⟩ : ∃ k, p = k + 1 := ⟨p - 1, by omega⟩
    rw [hk, Nat.add_sub_cancel, pow_succ]; ring
  set N : ℕ := b ^ (p - 1) with hN
  have hNpos : 0 < N := Nat.pow_pos (by omega)
  have hNq : (1 : ℚ) ≤ (N : ℚ) := by exact_mod_cast hNpos
  have hS1q : (N : ℚ) ≤ S := by exact_mod_cast hS1
  have hS2q : (S : ℚ) + 1 ≤ (b : ℚ) * N := by
    have : S + 1 ≤ b * N := by rw [← hMN]; omega
    exact_mod_cast this
  have hMq : ((b ^ p : ℕ) : ℚ) = (b : ℚ) * N := by rw [hMN]; push_cast; ring
  have hdlo := hW.lo_nonneg
  have hdhi := hW.hi_nonneg
  have hsum := hW.sum
  -- the quantum and the binade in terms of it
  set Qq : ℚ := (b : ℚ) ^ (t - p) with hQ
  have hQpos : 0 < Qq := bpow_pos b hb _
  have e1 : (b : ℚ) ^ (t - 1) = (N : ℚ) * Qq := by
    have : t - 1 = (t - p) + ((p - 1 : ℕ) : ℤ) := by omega
    rw [this, zpow_add₀ hb0, zpow_natCast, hQ, hN]; push_cast; ring
  have e2 : (b : ℚ) ^ t = (b : ℚ) * N * Qq := by
    have : t = (t - 1) + 1 := by ring
    rw [this, bpow_succ b hb, e1]; ring
  rw [e1] at ht1; rw [e2] at ht2
  set z : ℚ := y / Qq with hz
  have hyz : y = z * Qq := by rw [hz, div_mul_cancel₀ _ hQpos.ne']
  have hz1 : (N : ℚ) ≤ z := by rw [hz, le_div_iff₀ hQpos]; exact ht1
  have hz2 : z < (b : ℚ) * N := by rw [hz, div_lt_iff₀ hQpos]; exact ht2
  obtain ⟨n1, n2, n3, n4⟩ := hn
  -- N ≤ n ≤ bN
  have hnlo : N ≤ n := by
    by_contra hc
    have h1 : (n : ℚ) + 1 ≤ N := by exact_mod_cast (by omega : n + 1 ≤ N)
    have hzN : z = N := by linarith
    have := InW.unique hW (⟨n1, n2, n3, n4⟩ : InW W n z) (by rw [hzN]; exact inW_self hW N)
    omega
  have hnhi : n ≤ b * N := by
    by_contra hc
    have h1 : (b : ℚ) * N + 1 ≤ n := by exact_mod_cast (by omega : b * N + 1 ≤ n)
    linarith
  have hnloq : (N : ℚ) ≤ n := by exact_mod_cast hnlo
  have hnhiq : (n : ℚ) ≤ (b : ℚ) * N := by exact_mod_cast hnhi
  set U : ℚ := (b : ℚ) ^ e with hU
  have hUpos : 0 < U := bpow_pos b hb _
  obtain ⟨f1, f2, f3, f4⟩ := hin
  by_cases hlow : y < (N : ℚ) * U
  · -- the lower binade: S = N, quantum U / b
    have hpow : S = N := by
      by_contra hne
      have : (N : ℚ) + 1 ≤ S := by exact_mod_cast (by omega : N + 1 ≤ S)
      simp only [if_neg hne] at f1
      have hdle : W.dlo ≤ 1 := by linarith
      nlinarith
    simp only [if_pos hpow] at f1 f3
    have hSN : (S : ℚ) = N := by exact_mod_cast hpow
    have hUb : 0 < U / b := div_pos hUpos (by linarith)
    have hUeq : U = (U / b) * b := by field_simp
    -- binade: (e + p - 1)
    have hb1 : (b : ℚ) ^ ((e + p - 1) - 1) ≤ y := by
      have ee : (b : ℚ) ^ ((e + p - 1) - 1) = (N : ℚ) * (U / b) := by
        have : (e + p - 1) - 1 = (e - 1) + ((p - 1 : ℕ) : ℤ) := by omega
        rw [this, zpow_add₀ hb0, zpow_natCast, hU]
        have : (b : ℚ) ^ (e - 1) = (b : ℚ) ^ e / b := by
          rw [zpow_sub_one₀ hb0]; rfl
        rw [this, hN]; push_cast; ring
      rw [ee]
      have hdle : W.dlo ≤ 1 := by linarith
      have : (N : ℚ) * (U / b) ≤ (S : ℚ) * U - W.dlo * (U / b) := by
        rw [hSN]
        have : (N : ℚ) * U = (N : ℚ) * b * (U / b) := by field_simp
        rw [this]; nlinarith
      linarith
    have hb2 : y < (b : ℚ) ^ (e + p - 1) := by
      have ee : (b : ℚ) ^ (e + p - 1) = (N : ℚ) * U := by
        have : e + p - 1 = e + ((p - 1 : ℕ) : ℤ) := by omega
        rw [this, zpow_add₀ hb0, zpow_natCast, hU, hN]; push_cast; ring
      rw [ee]; exact hlow
    have e1' : (b : ℚ) ^ (t - 1) = (N : ℚ) * Qq := e1
    have htt : e + p - 1 = t :=
      bbinade_unique b hb hb1 hb2 (by rw [e1']; exact ht1) (by rw [e2]; exact ht2)
    have hQU : Qq = U / b := by
      rw [hQ, hU, ← htt]
      have : e + p - 1 - p = e - 1 := by ring
      rw [this, zpow_sub_one₀ hb0]; rfl
    -- z ∈ window of bN
    have hzin : InW W (b * N) z := by
      have hyq : y = z * (U / b) := by rw [hyz, hQU]
      have hSU : (S : ℚ) * U = (b : ℚ) * N * (U / b) := by rw [hSN]; field_simp
      rw [hSU] at f1 f3
      have hz2' : z < (b : ℚ) * N := hz2
      have hcast : (((b * N : ℕ)) : ℚ) = (b : ℚ) * N := by push_cast; ring
      unfold InW
      rw [hcast]
      refine ⟨?_, by linarith, fun h => ?_, fun h => ?_⟩
      · have : ((b : ℚ) * N - W.dlo) * (U / b) ≤ z * (U / b) := by rw [← hyq]; linarith
        exact le_of_mul_le_mul_right this hUb
      · rw [← hMN]; exact f3 (by rw [hyq, h]; ring)
      · exfalso; linarith
    have hnbN : n = b * N := InW.unique hW ⟨n1, n2, n3, n4⟩ hzin
    rw [hnbN, hQU, hSN]; push_cast; field_simp
  · -- the binade of the float: quantum U
    have hge : (N : ℚ) * U ≤ y := not_lt.mp hlow
    have hb1 : (b : ℚ) ^ ((e + p) - 1) ≤ y := by
      have ee : (b : ℚ) ^ ((e + p) - 1) = (N : ℚ) * U := by
        have : e + p - 1 = e + ((p - 1 : ℕ) : ℤ) := by omega
        rw [this, zpow_add₀ hb0, zpow_natCast, hU, hN]; push_cast; ring
      rw [ee]; exact hge
    have hb2 : y < (b : ℚ) ^ (e + p) := by
      have ee : (b : ℚ) ^ (e + p) = (b : ℚ) * N * U := by
        have : e + (p : ℤ) = (e + p - 1) + 1 := by ring
        rw [this, bpow_succ b hb]
        have : e + p - 1 = e + ((p - 1 : ℕ) : ℤ) := by omega
        rw [this, zpow_add₀ hb0, zpow_natCast, hU, hN]; push_cast; ring
      rw [ee]
      -- y ≤ (S + dhi) U ≤ bN·U, equality impossible
      have hdle : W.dhi ≤ 1 := by linarith
      have hle : y ≤ (b : ℚ) * N * U := by nlinarith
      rcases lt_or_eq_of_le hle with h | h
      · exact h
      · exfalso
        have hS : (S : ℚ) + W.dhi = (b : ℚ) * N := by
          have : ((S : ℚ) + W.dhi) * U = (b : ℚ) * N * U := by nlinarith
          exact mul_right_cancel₀ hUpos.ne' this
        have hd1 : W.dhi = 1 := by linarith
        have hd0 : W.dlo = 0 := by linarith
        have := f4 (by rw [h, ← hS]; ring)
        exact hW.excl S ⟨this, hW.lo_zero hd0 _⟩
    have htt : e + p = t :=
      bbinade_unique b hb hb1 hb2 (by rw [e1]; exact ht1) (by rw [e2]; exact ht2)
    have hQU : Qq = U := by
      rw [hQ, hU, ← htt]; congr 1; ring
    rw [hQU] at hyz
    have hzin : InW W S z := by
      have hz1' : (N : ℚ) ≤ z := hz1
      refine ⟨?_, ?_, fun h => ?_, fun h => ?_⟩
      · by_cases hpow : S = N
        · have : (S : ℚ) = N := by exact_mod_cast hpow
          linarith
        · simp only [if_neg hpow] at f1
          have : ((S : ℚ) - W.dlo) * U ≤ z * U := by rw [← hyz]; linarith
          exact le_of_mul_le_mul_right this hUpos
      · have : z * U ≤ ((S : ℚ) + W.dhi) * U := by rw [← hyz]; linarith
        exact le_of_mul_le_mul_right this hUpos
      · by_cases hpow : S = N
        · have hSN : (S : ℚ) = N := by exact_mod_cast hpow
          exact hW.lo_zero (by linarith) S
        · simp only [if_neg hpow] at f3
          apply f3; rw [hyz, h]; ring
      · apply f4; rw [hyz, h]; ring
    have hnS : n = S := InW.unique hW ⟨n1, n2, n3, n4⟩ hzin
    rw [hnS, hQU]


end Dashu.Model.Ratio
