import Dashu.Proofs.Ratio.FloatSet
/-
  C18 float clause, part 2: the core — for a positive rational `x` in binade `t`, rounded at
  the quantum `q = max (t − prec) qmin` to `n` (nearest, ties to even), the field code
  `(q − qmin)·2^MB + n` is the code of the canonical float `m·2^exp` iff `x` lies in its rounding set.
-/
namespace Dashu.Model.Ratio
open Dashu.Model Dashu.Model.Conv

/-- canonical finite non-zero magnitude `m·2^exp` of format `F` -/
def Canon (F : Ieee) (m : ℕ) (exp : ℤ) : Prop :=
  (2 ^ F.MB ≤ m ∧ m < 2 ^ (F.MB + 1) ∧ F.qmin ≤ exp) ∨ (1 ≤ m ∧ m < 2 ^ F.MB ∧ exp = F.qmin)

/-- bit pattern (without sign) of the canonical magnitude: exponent field · 2^MB + stored mantissa -/
def magBits (F : Ieee) (m : ℕ) (exp : ℤ) : ℕ := (exp - F.qmin).toNat * 2 ^ F.MB + m

/-- the rounding set of `m·2^exp`: half an ulp to each side, a quarter below a power of two that
    is not in the lowest binade; a boundary belongs to it iff the mantissa is even -/
def InSet (F : Ieee) (m : ℕ) (exp : ℤ) (x : ℚ) : Prop :=
  let U : ℚ := (2 : ℚ) ^ exp
  let lo : ℚ := if m = 2 ^ F.MB ∧ F.qmin < exp then m * U - U / 4 else m * U - U / 2
  let hi : ℚ := m * U + U / 2
  lo ≤ x ∧ x ≤ hi ∧ (x = lo → m % 2 = 0) ∧ (x = hi → m % 2 = 0)

theorem binade_unique {x : ℚ} {s t : ℤ} (hs1 : (2 : ℚ) ^ (s - 1) ≤ x) (hs2 : x < (2 : ℚ) ^ s)
    (ht1 : (2 : ℚ) ^ (t - 1) ≤ x) (ht2 : x < (2 : ℚ) ^ t) : s = t := by
  rcases lt_trichotomy s t with h | h | h
  · exfalso
    have : (2 : ℚ) ^ s ≤ (2 : ℚ) ^ (t - 1) := two_zpow_mono (by omega)
    linarith
  · exact h
  · exfalso
    have : (2 : ℚ) ^ t ≤ (2 : ℚ) ^ (s - 1) := two_zpow_mono (by omega)
    linarith

theorem two_zpow_add_nat (e : ℤ) (k : ℕ) : (2 : ℚ) ^ (e + k) = ((2 ^ k : ℕ) : ℚ) * (2 : ℚ) ^ e := by
  rw [zpow_add₀ (by norm_num), zpow_natCast_two]; ring

/-- facts about the rounded quotient in the two regimes -/
theorem regime (F : Ieee) (x : ℚ) (t : ℤ) (ht1 : (2 : ℚ) ^ (t - 1) ≤ x) (ht2 : x < (2 : ℚ) ^ t)
    (n : ℕ) (hn : IsRNE (x / (2 : ℚ) ^ (max (t - F.prec) F.qmin)) n) :
    (F.qmin ≤ t - F.prec → 2 ^ F.MB ≤ n ∧ n ≤ 2 ^ (F.MB + 1) ∧
        ((2 ^ F.MB : ℕ) : ℚ) * (2 : ℚ) ^ (t - F.prec) ≤ x ∧
        x < ((2 ^ (F.MB + 1) : ℕ) : ℚ) * (2 : ℚ) ^ (t - F.prec)) ∧
    (t - F.prec < F.qmin → n ≤ 2 ^ F.MB ∧ x < ((2 ^ F.MB : ℕ) : ℚ) * (2 : ℚ) ^ F.qmin) := by
  obtain ⟨a1, a2, _, _⟩ := hn
  constructor
  · intro hq
    rw [max_eq_left hq] at a1 a2
    set q := t - (F.prec : ℤ) with hqd
    have hQ := two_zpow_pos q
    have e1 : (2 : ℚ) ^ (t - 1) = ((2 ^ F.MB : ℕ) : ℚ) * (2 : ℚ) ^ q := by
      rw [← two_zpow_add_nat]; congr 1; simp only [hqd, Ieee.prec]; push_cast; ring
    have e2 : (2 : ℚ) ^ t = ((2 ^ (F.MB + 1) : ℕ) : ℚ) * (2 : ℚ) ^ q := by
      rw [← two_zpow_add_nat]; congr 1; simp only [hqd, Ieee.prec]; push_cast; ring
    rw [e1] at ht1; rw [e2] at ht2
    have hy1 : ((2 ^ F.MB : ℕ) : ℚ) ≤ x / (2 : ℚ) ^ q := by rw [le_div_iff₀ hQ]; exact ht1
    have hy2 : x / (2 : ℚ) ^ q < ((2 ^ (F.MB + 1) : ℕ) : ℚ) := by rw [div_lt_iff₀ hQ]; exact ht2
    refine ⟨?_, ?_, ht1, ht2⟩
    · by_contra hc
      have : (n : ℚ) + 1 ≤ ((2 ^ F.MB : ℕ) : ℚ) := by exact_mod_cast (by omega : n + 1 ≤ 2 ^ F.MB)
      linarith
    · by_contra hc
      have : ((2 ^ (F.MB + 1) : ℕ) : ℚ) + 1 ≤ (n : ℚ) := by
        exact_mod_cast (by omega : 2 ^ (F.MB + 1) + 1 ≤ n)
      linarith
  · intro hq
    rw [max_eq_right hq.le] at a1 a2
    have hQ := two_zpow_pos F.qmin
    have e2 : (2 : ℚ) ^ t ≤ ((2 ^ F.MB : ℕ) : ℚ) * (2 : ℚ) ^ F.qmin := by
      rw [← two_zpow_add_nat]; apply two_zpow_mono; simp only [Ieee.prec] at hq; push_cast at hq ⊢; omega
    have hx : x < ((2 ^ F.MB : ℕ) : ℚ) * (2 : ℚ) ^ F.qmin := lt_of_lt_of_le ht2 e2
    have hy2 : x / (2 : ℚ) ^ F.qmin < ((2 ^ F.MB : ℕ) : ℚ) := by rw [div_lt_iff₀ hQ]; exact hx
    refine ⟨?_, hx⟩
    by_contra hc
    have : ((2 ^ F.MB : ℕ) : ℚ) + 1 ≤ (n : ℚ) := by exact_mod_cast (by omega : 2 ^ F.MB + 1 ≤ n)
    linarith

end Dashu.Model.Ratio

namespace Dashu.Model.Ratio
open Dashu.Model Dashu.Model.Conv

/-- `IsRNE (x / Q) n` in terms of `x` -/
theorem isRNE_scaled {x Q : ℚ} (hQ : 0 < Q) {n : ℕ} :
    IsRNE (x / Q) n ↔ (n : ℚ) * Q - Q / 2 ≤ x ∧ x ≤ (n : ℚ) * Q + Q / 2 ∧
      (x = (n : ℚ) * Q - Q / 2 → n % 2 = 0) ∧ (x = (n : ℚ) * Q + Q / 2 → n % 2 = 0) := by
  unfold IsRNE
  rw [le_div_iff₀ hQ, div_le_iff₀ hQ, div_eq_iff hQ.ne', div_eq_iff hQ.ne']
  have e1 : ((n : ℚ) - 1 / 2) * Q = (n : ℚ) * Q - Q / 2 := by ring
  have e2 : ((n : ℚ) + 1 / 2) * Q = (n : ℚ) * Q + Q / 2 := by ring
  rw [e1, e2]

theorem pow_even_of_ok (F : Ieee) (hF : F.Ok) : 2 ^ F.MB % 2 = 0 := by
  obtain ⟨k, hk⟩ : ∃ k, F.MB = k + 1 := ⟨F.MB - 1, by have := hF.hMB; omega⟩
  rw [hk, pow_succ]; omega

/-- direction "rounds to the float ⇒ in its rounding set" -/
theorem core_mp (F : Ieee) (hF : F.Ok) (x : ℚ) (t : ℤ) (ht1 : (2 : ℚ) ^ (t - 1) ≤ x)
    (ht2 : x < (2 : ℚ) ^ t) (n : ℕ)
    (hn : IsRNE (x / (2 : ℚ) ^ (max (t - F.prec) F.qmin)) n) (m : ℕ) (exp : ℤ)
    (hc : Canon F m exp)
    (hcode : (max (t - F.prec) F.qmin - F.qmin).toNat * 2 ^ F.MB + n = magBits F m exp) :
    InSet F m exp x := by
  obtain ⟨hR1, hR2⟩ := regime F x t ht1 ht2 n hn
  have hPeven := pow_even_of_ok F hF
  have hP2 : 2 ^ (F.MB + 1) = 2 * 2 ^ F.MB := by rw [pow_succ]; ring
  unfold magBits at hcode
  unfold InSet
  dsimp only
  set P : ℕ := 2 ^ F.MB with hP
  have hPpos : 0 < P := Nat.two_pow_pos _
  have hPq : (0 : ℚ) < (P : ℚ) := by exact_mod_cast hPpos
  set U : ℚ := (2 : ℚ) ^ exp with hU
  have hUpos : 0 < U := two_zpow_pos exp
  by_cases hq : F.qmin ≤ t - F.prec
  · -- normal regime
    obtain ⟨hn1, hn2, hx1, hx2⟩ := hR1 hq
    rw [hP2] at hn2 hx2
    rw [max_eq_left hq] at hcode hn
    set q : ℤ := t - (F.prec : ℤ) with hqd
    obtain ⟨k, hk⟩ : ∃ k : ℕ, q - F.qmin = k := ⟨(q - F.qmin).toNat, by omega⟩
    rw [hk, Int.toNat_natCast] at hcode
    rcases hc with ⟨hm1, hm2, hexp⟩ | ⟨hm1, hm2, hexp⟩
    · -- m normal
      rw [hP2] at hm2
      obtain ⟨e', he'⟩ : ∃ e' : ℕ, exp - F.qmin = e' := ⟨(exp - F.qmin).toNat, by omega⟩
      rw [he', Int.toNat_natCast] at hcode
      rcases lt_trichotomy k e' with hlt | heq | hgt
      · -- k < e': n = (e'-k)P + m forces e' = k+1, m = P, n = 2P
        have h1 : (k + 1) * P ≤ e' * P := Nat.mul_le_mul_right P hlt
        have h2 : e' * P ≤ (k + 1) * P := by
          by_contra hcon
          have : (k + 2) * P ≤ e' * P := Nat.mul_le_mul_right P (by
            by_contra h3
            have : e' ≤ k + 1 := by omega
            have := Nat.mul_le_mul_right P this
            omega)
          nlinarith
        have he'k : e' = k + 1 := by
          have := Nat.eq_of_mul_eq_mul_right hPpos (le_antisymm h2 h1)
          omega
        have hnm : n = 2 * P ∧ m = P := by
          rw [he'k] at hcode
          have : (k + 1) * P = k * P + P := by ring
          omega
        obtain ⟨hn2P, hmP⟩ := hnm
        have hexpq : exp = q + 1 := by omega
        have hUq : U = 2 * (2 : ℚ) ^ q := by rw [hU, hexpq, two_zpow_succ]
        have hQ := two_zpow_pos q
        obtain ⟨b1, b2, b3, b4⟩ := (isRNE_scaled hQ).1 hn
        have hlo : m = P ∧ F.qmin < exp := ⟨hmP, by omega⟩
        rw [if_pos hlo]
        rw [hn2P] at b1 b3
        push_cast at b1 b3 hx2
        rw [hmP]
        refine ⟨by nlinarith, by nlinarith, fun _ => hPeven, fun he => ?_⟩
        exfalso; nlinarith
      · -- k = e': n = m, q = exp
        have hnm : n = m := by rw [heq] at hcode; omega
        have hexpq : exp = q := by omega
        have hUq : U = (2 : ℚ) ^ q := by rw [hU, hexpq]
        obtain ⟨b1, b2, b3, b4⟩ := (isRNE_scaled (two_zpow_pos q)).1 hn
        rw [← hUq, hnm] at b1 b2 b3 b4
        rw [← hUq] at hx1
        by_cases hlo : m = P ∧ F.qmin < exp
        · rw [if_pos hlo]
          have hmP := hlo.1
          rw [hmP] at b2 b4 ⊢
          refine ⟨by nlinarith, b2, fun he => ?_, b4⟩
          exfalso; nlinarith
        · rw [if_neg hlo]
          refine ⟨by nlinarith, b2, b3, b4⟩
      · -- k > e': n = m − (k−e')P < P, impossible
        exfalso
        have h1 : (e' + 1) * P ≤ k * P := Nat.mul_le_mul_right P hgt
        have : (e' + 1) * P = e' * P + P := by ring
        omega
    · -- m subnormal: code < P ≤ n
      exfalso
      rw [hexp, sub_self, Int.toNat_zero, Nat.zero_mul, Nat.zero_add] at hcode
      have : 0 ≤ k * P := Nat.zero_le _
      omega
  · -- subnormal regime: q = qmin
    have hq' : t - (F.prec : ℤ) < F.qmin := by omega
    obtain ⟨hn1, hx1⟩ := hR2 hq'
    rw [max_eq_right hq'.le] at hcode hn
    rw [sub_self, Int.toNat_zero, Nat.zero_mul, Nat.zero_add] at hcode
    obtain ⟨b1, b2, b3, b4⟩ := (isRNE_scaled (two_zpow_pos F.qmin)).1 hn
    rcases hc with ⟨hm1, hm2, hexp⟩ | ⟨hm1, hm2, hexp⟩
    · -- m normal: n = P = m, exp = qmin
      obtain ⟨e', he'⟩ : ∃ e' : ℕ, exp - F.qmin = e' := ⟨(exp - F.qmin).toNat, by omega⟩
      rw [he', Int.toNat_natCast] at hcode
      have he0 : e' = 0 := by
        by_contra hne
        have : 1 * P ≤ e' * P := Nat.mul_le_mul_right P (by omega)
        omega
      rw [he0, Nat.zero_mul, Nat.zero_add] at hcode
      have hmP : m = P := by omega
      have hexpq : exp = F.qmin := by omega
      have hUq : U = (2 : ℚ) ^ F.qmin := by rw [hU, hexpq]
      rw [← hUq, hcode] at b1 b2 b3 b4
      have hlo : ¬ (m = P ∧ F.qmin < exp) := by omega
      rw [if_neg hlo]
      exact ⟨by nlinarith, b2, b3, b4⟩
    · -- m subnormal: n = m
      rw [hexp, sub_self, Int.toNat_zero, Nat.zero_mul, Nat.zero_add] at hcode
      have hUq : U = (2 : ℚ) ^ F.qmin := by rw [hU, hexp]
      rw [← hUq, hcode] at b1 b2 b3 b4
      have hlo : ¬ (m = P ∧ F.qmin < exp) := by omega
      rw [if_neg hlo]
      exact ⟨by nlinarith, b2, b3, b4⟩

end Dashu.Model.Ratio

namespace Dashu.Model.Ratio
open Dashu.Model Dashu.Model.Conv

/-- direction "in the rounding set ⇒ rounds to the float" -/
theorem core_mpr (F : Ieee) (hF : F.Ok) (x : ℚ) (t : ℤ) (ht1 : (2 : ℚ) ^ (t - 1) ≤ x)
    (ht2 : x < (2 : ℚ) ^ t) (n : ℕ)
    (hn : IsRNE (x / (2 : ℚ) ^ (max (t - F.prec) F.qmin)) n) (m : ℕ) (exp : ℤ)
    (hc : Canon F m exp) (hin : InSet F m exp x) :
    (max (t - F.prec) F.qmin - F.qmin).toNat * 2 ^ F.MB + n = magBits F m exp := by
  have hPeven := pow_even_of_ok F hF
  have hP2 : 2 ^ (F.MB + 1) = 2 * 2 ^ F.MB := by rw [pow_succ]; ring
  have hMB := hF.hMB
  unfold magBits
  unfold InSet at hin
  dsimp only at hin
  set P : ℕ := 2 ^ F.MB with hP
  have hPpos : 0 < P := Nat.two_pow_pos _
  have hPq : (0 : ℚ) < (P : ℚ) := by exact_mod_cast hPpos
  have hP2le : (2 : ℚ) ≤ (P : ℚ) := by
    have : 2 ^ 1 ≤ 2 ^ F.MB := Nat.pow_le_pow_right (by decide) hMB
    exact_mod_cast this
  set U : ℚ := (2 : ℚ) ^ exp with hU
  have hUpos : 0 < U := two_zpow_pos exp
  obtain ⟨i1, i2, i3, i4⟩ := hin
  have hprec : (F.prec : ℤ) = F.MB + 1 := by simp [Ieee.prec]
  by_cases hexp : exp = F.qmin
  · -- lowest binade(s): the quantum is 2^qmin
    have hlo : ¬ (m = P ∧ F.qmin < exp) := by omega
    rw [if_neg hlo] at i1 i3
    have hmlt : m < 2 * P := by
      rcases hc with ⟨_, h, _⟩ | ⟨_, h, _⟩
      · rw [hP2] at h; exact h
      · omega
    have hmq : (m : ℚ) + 1 ≤ 2 * P := by exact_mod_cast hmlt
    -- t ≤ qmin + prec
    have ht : t - (F.prec : ℤ) ≤ F.qmin := by
      by_contra hcon
      have h1 : (2 : ℚ) ^ (F.qmin + ((F.MB + 1 : ℕ) : ℤ)) ≤ (2 : ℚ) ^ (t - 1) :=
        two_zpow_mono (by push_cast; omega)
      rw [two_zpow_add_nat, hP2, ← hexp, ← hU] at h1
      push_cast at h1
      nlinarith
    rw [max_eq_right ht] at hn ⊢
    rw [sub_self, Int.toNat_zero, Nat.zero_mul, Nat.zero_add, hexp, sub_self, Int.toNat_zero,
      Nat.zero_mul, Nat.zero_add]
    have hUq : U = (2 : ℚ) ^ F.qmin := by rw [hU, hexp]
    have hm' : IsRNE (x / (2 : ℚ) ^ F.qmin) m := by
      rw [isRNE_scaled (two_zpow_pos _), ← hUq]
      exact ⟨i1, i2, i3, i4⟩
    exact hn.unique hm'
  · -- exp > qmin: m is normal
    rcases hc with ⟨hm1, hm2, hexp'⟩ | ⟨_, _, h⟩
    swap
    · exact absurd h hexp
    have hgt : F.qmin < exp := by omega
    rw [hP2] at hm2
    have hm1q : (P : ℚ) ≤ m := by exact_mod_cast hm1
    have hm2q : (m : ℚ) + 1 ≤ 2 * P := by exact_mod_cast hm2
    obtain ⟨e', he'⟩ : ∃ e' : ℕ, exp - F.qmin = e' := ⟨(exp - F.qmin).toNat, by omega⟩
    have he'pos : 1 ≤ e' := by omega
    rw [he', Int.toNat_natCast]
    by_cases hxlow : x < (P : ℚ) * U
    · -- below the binade of the float: m = P and the quantum is 2^(exp-1)
      have hmP : m = P := by
        by_contra hne
        have : P + 1 ≤ m := by omega
        have hq : (P : ℚ) + 1 ≤ m := by exact_mod_cast this
        have hlo : ¬ (m = P ∧ F.qmin < exp) := by tauto
        rw [if_neg hlo] at i1
        nlinarith
      rw [if_pos ⟨hmP, hgt⟩] at i1 i3
      rw [hmP] at i1 i3 ⊢
      -- binade MB + exp
      have hs1 : (2 : ℚ) ^ ((F.MB : ℤ) + exp - 1) ≤ x := by
        have e : (2 : ℚ) ^ ((F.MB : ℤ) + exp - 1) = (P : ℚ) * U / 2 := by
          have : (F.MB : ℤ) + exp - 1 = (exp - 1) + (F.MB : ℕ) := by ring
          rw [this, two_zpow_add_nat, ← hP, hU, two_zpow_pred exp]; ring
        rw [e]; nlinarith
      have hs2 : x < (2 : ℚ) ^ ((F.MB : ℤ) + exp) := by
        have e : (2 : ℚ) ^ ((F.MB : ℤ) + exp) = (P : ℚ) * U := by
          rw [add_comm, two_zpow_add_nat, ← hP, hU]
        rw [e]; exact hxlow
      have htt : (F.MB : ℤ) + exp = t := binade_unique hs1 hs2 ht1 ht2
      have hq : max (t - (F.prec : ℤ)) F.qmin = exp - 1 := by
        rw [← htt, hprec, max_eq_left (by omega)]; ring
      rw [hq] at hn ⊢
      have hUq : (2 : ℚ) ^ (exp - 1) = U / 2 := by rw [hU, two_zpow_pred exp]; ring
      have hN : IsRNE (x / (2 : ℚ) ^ (exp - 1)) (2 * P) := by
        rw [isRNE_scaled (two_zpow_pos _), hUq]
        push_cast
        refine ⟨by nlinarith, by nlinarith, fun _ => by omega, fun he => ?_⟩
        exfalso; nlinarith
      have hn2 : n = 2 * P := hn.unique hN
      have hk : (exp - 1 - F.qmin).toNat = e' - 1 := by omega
      rw [hk, hn2]
      have : (e' - 1) * P + 2 * P = e' * P + P := by
        obtain ⟨j, hj⟩ : ∃ j, e' = j + 1 := ⟨e' - 1, by omega⟩
        rw [hj]; simp only [Nat.add_sub_cancel]; ring
      exact this
    · -- in the binade of the float: the quantum is 2^exp
      have hxge : (P : ℚ) * U ≤ x := not_lt.mp hxlow
      have hs1 : (2 : ℚ) ^ ((F.MB : ℤ) + 1 + exp - 1) ≤ x := by
        have e : (2 : ℚ) ^ ((F.MB : ℤ) + 1 + exp - 1) = (P : ℚ) * U := by
          have : (F.MB : ℤ) + 1 + exp - 1 = exp + (F.MB : ℕ) := by ring
          rw [this, two_zpow_add_nat, ← hP, hU]
        rw [e]; exact hxge
      have hs2 : x < (2 : ℚ) ^ ((F.MB : ℤ) + 1 + exp) := by
        have e : (2 : ℚ) ^ ((F.MB : ℤ) + 1 + exp) = 2 * (P : ℚ) * U := by
          have : (F.MB : ℤ) + 1 + exp = exp + ((F.MB + 1 : ℕ) : ℤ) := by push_cast; ring
          rw [this, two_zpow_add_nat, hP2, hU]; push_cast; ring
        rw [e]; nlinarith
      have htt : (F.MB : ℤ) + 1 + exp = t := binade_unique hs1 hs2 ht1 ht2
      have hq : max (t - (F.prec : ℤ)) F.qmin = exp := by
        rw [← htt, hprec, max_eq_left (by omega)]; ring
      rw [hq] at hn ⊢
      have hm' : IsRNE (x / (2 : ℚ) ^ exp) m := by
        rw [isRNE_scaled (two_zpow_pos _), ← hU]
        by_cases hlo : m = P ∧ F.qmin < exp
        · rw [if_pos hlo] at i1 i3
          have hmP := hlo.1
          refine ⟨by rw [hmP]; nlinarith, i2, fun he => ?_, i4⟩
          exfalso; rw [hmP] at he; nlinarith
        · rw [if_neg hlo] at i1 i3
          exact ⟨i1, i2, i3, i4⟩
      rw [hn.unique hm', he', Int.toNat_natCast]

/-- the rounded value in units of the least subnormal stays below the overflow threshold -/
theorem units_bound (F : Ieee) (x : ℚ) (t : ℤ) (ht1 : (2 : ℚ) ^ (t - 1) ≤ x)
    (ht2 : x < (2 : ℚ) ^ t) (n : ℕ)
    (hn : IsRNE (x / (2 : ℚ) ^ (max (t - F.prec) F.qmin)) n) (m : ℕ) (exp : ℤ)
    (hc : Canon F m exp) (hfin : exp + F.MB ≤ F.emax)
    (hcode : (max (t - F.prec) F.qmin - F.qmin).toNat * 2 ^ F.MB + n = magBits F m exp) :
    n * 2 ^ (max (t - F.prec) F.qmin - F.qmin).toNat < 2 ^ (F.emax + 1 - F.qmin).toNat := by
  obtain ⟨hR1, hR2⟩ := regime F x t ht1 ht2 n hn
  have hP2 : 2 ^ (F.MB + 1) = 2 * 2 ^ F.MB := by rw [pow_succ]; ring
  unfold magBits at hcode
  have hexpq : F.qmin ≤ exp := by
    rcases hc with ⟨_, _, h⟩ | ⟨_, _, h⟩ <;> omega
  obtain ⟨e', he'⟩ : ∃ e' : ℕ, exp - F.qmin = e' := ⟨(exp - F.qmin).toNat, by omega⟩
  rw [he', Int.toNat_natCast] at hcode
  have hm2 : m < 2 ^ (F.MB + 1) := by
    rcases hc with ⟨_, h, _⟩ | ⟨_, h, _⟩
    · exact h
    · rw [hP2]; omega
  -- it suffices: n·2^k < 2^(MB+1+e')
  have htop : 2 ^ (F.MB + 1 + e') ≤ 2 ^ (F.emax + 1 - F.qmin).toNat :=
    Nat.pow_le_pow_right (by decide) (by omega)
  refine lt_of_lt_of_le ?_ htop
  set P : ℕ := 2 ^ F.MB with hP
  have hPpos : 0 < P := Nat.two_pow_pos _
  rw [hP2] at hm2
  have hgoal : 2 ^ (F.MB + 1 + e') = 2 * P * 2 ^ e' := by rw [pow_add, hP2]
  rw [hgoal]
  by_cases hq : F.qmin ≤ t - F.prec
  · obtain ⟨hn1, hn2, _, _⟩ := hR1 hq
    rw [hP2] at hn2
    rw [max_eq_left hq] at hcode ⊢
    obtain ⟨k, hk⟩ : ∃ k : ℕ, t - (F.prec : ℤ) - F.qmin = k :=
      ⟨(t - (F.prec : ℤ) - F.qmin).toNat, by omega⟩
    rw [hk, Int.toNat_natCast] at hcode ⊢
    rcases lt_trichotomy k e' with hlt | heq | hgt
    · -- n = (e'-k)P + m ≤ 2P forces e' = k + 1 and n = 2P
      have h1 : (k + 1) * P ≤ e' * P := Nat.mul_le_mul_right P hlt
      have hnle : n ≤ 2 * P := hn2
      have he : e' = k + 1 := by
        by_contra hne
        have h2 : (k + 2) * P ≤ e' * P := Nat.mul_le_mul_right P (by omega)
        have e2 : (k + 2) * P = k * P + 2 * P := by ring
        have hm1 : 1 ≤ m := by
          rcases hc with ⟨h, _, _⟩ | ⟨h, _, _⟩
          · omega
          · exact h
        omega
      rw [he, pow_succ]
      have : n * 2 ^ k ≤ 2 * P * 2 ^ k := Nat.mul_le_mul_right _ hnle
      have hpos : 0 < 2 * P * 2 ^ k := by positivity
      nlinarith
    · rw [heq] at hcode ⊢
      have : n = m := by omega
      rw [this]
      exact Nat.mul_lt_mul_of_pos_right hm2 (Nat.two_pow_pos _)
    · exfalso
      have h1 : (e' + 1) * P ≤ k * P := Nat.mul_le_mul_right P hgt
      have : (e' + 1) * P = e' * P + P := by ring
      omega
  · have hq' : t - (F.prec : ℤ) < F.qmin := by omega
    obtain ⟨hn1, _⟩ := hR2 hq'
    rw [max_eq_right hq'.le, sub_self, Int.toNat_zero, pow_zero, Nat.mul_one]
    have : 1 ≤ 2 ^ e' := Nat.one_le_two_pow
    nlinarith

end Dashu.Model.Ratio
