import Dashu.Proofs.Ratio.Farey
/-
  `pickSimplest` (tail of `simplest_from_f32/f64/float`): among the fractions strictly inside a
  positive interval and the end points that are allowed, the result is a simplest one
  (least denominator, then least numerator magnitude).
-/
namespace Dashu.Model.Ratio
open Dashu.Model

/-- `a` is at least as simple as `b` (positive numbers: denominator, then numerator magnitude) -/
def AsSimple (a b : Q) : Prop := a.den < b.den ∨ (a.den = b.den ∧ a.num.natAbs ≤ b.num.natAbs)

theorem AsSimple.refl (a : Q) : AsSimple a a := Or.inr ⟨rfl, le_refl _⟩

theorem AsSimple.trans {a b c : Q} (h1 : AsSimple a b) (h2 : AsSimple b c) : AsSimple a c := by
  unfold AsSimple at *
  rcases h1 with h1 | ⟨e1, l1⟩ <;> rcases h2 with h2 | ⟨e2, l2⟩
  · left; omega
  · left; omega
  · left; omega
  · right; exact ⟨by omega, by omega⟩

theorem AsSimple.total (a b : Q) : AsSimple a b ∨ AsSimple b a := by
  unfold AsSimple; omega

/-- on positive numbers the documented order is the strict part of `AsSimple` -/
theorem simplerSpec_iff {a b : Q} (hb : 0 < b.num) : simplerSpec a b = true ↔ ¬ AsSimple b a := by
  unfold simplerSpec AsSimple
  simp only [Bool.or_eq_true, Bool.and_eq_true, decide_eq_true_eq]
  omega

/-- **`pickSimplest`** on a positive interval `0 < lo < hi` of reduced end points -/
theorem pickSimplest_spec (lo hi : Q) (hlo : Reduced lo) (hhi : Reduced hi) (hpos : 0 < lo.num)
    (hlt : lo.val < hi.val) (inclLo inclHi : Bool) :
    ∃ r, pickSimplest simplerSpec lo hi inclLo inclHi = .ok (some r) ∧ Reduced r ∧ 0 < r.num ∧
      lo.val ≤ r.val ∧ r.val ≤ hi.val ∧ (r.val = lo.val → inclLo = true) ∧
      (r.val = hi.val → inclHi = true) ∧
      (∀ (p : ℤ) (s : ℕ), 0 < s → lo.val < (p : ℚ) / s → (p : ℚ) / s < hi.val →
        AsSimple r ⟨p, s⟩) ∧
      (inclLo = true → AsSimple r lo) ∧ (inclHi = true → AsSimple r hi) := by
  obtain ⟨s0, h0, hred0, hin1, hin2, hmin0⟩ :=
    (simplestIn_spec lo hi hlo.den_pos hhi.den_pos).2 (ne_of_lt hlt)
  rw [min_eq_left hlt.le] at hin1 hmin0
  rw [max_eq_right hlt.le] at hin2 hmin0
  have hlopos : 0 < lo.val := (val_pos_iff lo hlo.den_pos).2 hpos
  have hhipos : 0 < hi.num := (val_pos_iff hi hhi.den_pos).1 (lt_trans hlopos hlt)
  have hs0pos : 0 < s0.num := (val_pos_iff s0 hred0.den_pos).1 (lt_trans hlopos hin1)
  have hint : ∀ (p : ℤ) (s : ℕ), 0 < s → lo.val < (p : ℚ) / s → (p : ℚ) / s < hi.val →
      AsSimple s0 ⟨p, s⟩ := by
    intro p s hs h1 h2
    obtain ⟨a, b⟩ := hmin0 p s hs h1 h2
    unfold AsSimple
    simp only
    omega
  -- first replacement
  set s1 : Q := if inclLo = true ∧ simplerSpec lo s0 = true then lo else s0 with hs1
  have h1a : AsSimple s1 s0 := by
    rw [hs1]; split
    · rename_i h
      rcases AsSimple.total lo s0 with t | t
      · exact t
      · exact absurd t ((simplerSpec_iff hs0pos).1 h.2)
    · exact AsSimple.refl _
  have h1b : inclLo = true → AsSimple s1 lo := by
    intro hi'
    rw [hs1]; split
    · exact AsSimple.refl _
    · rename_i h
      have : ¬ simplerSpec lo s0 = true := fun hh => h ⟨hi', hh⟩
      by_contra hc
      exact this ((simplerSpec_iff hs0pos).2 hc)
  have hs1pos : 0 < s1.num := by rw [hs1]; split <;> assumption
  have hs1red : Reduced s1 := by rw [hs1]; split <;> assumption
  -- second replacement
  set s2 : Q := if inclHi = true ∧ simplerSpec hi s1 = true then hi else s1 with hs2
  have h2a : AsSimple s2 s1 := by
    rw [hs2]; split
    · rename_i h
      rcases AsSimple.total hi s1 with t | t
      · exact t
      · exact absurd t ((simplerSpec_iff hs1pos).1 h.2)
    · exact AsSimple.refl _
  have h2b : inclHi = true → AsSimple s2 hi := by
    intro hi'
    rw [hs2]; split
    · exact AsSimple.refl _
    · rename_i h
      have : ¬ simplerSpec hi s1 = true := fun hh => h ⟨hi', hh⟩
      by_contra hc
      exact this ((simplerSpec_iff hs1pos).2 hc)
  have hres : pickSimplest simplerSpec lo hi inclLo inclHi = .ok (some s2) := by
    simp only [pickSimplest, h0, bind_ok']
    rfl
  -- where s2 can be
  have hcases : s2 = s0 ∨ (s2 = lo ∧ inclLo = true) ∨ (s2 = hi ∧ inclHi = true) := by
    rw [hs2]; split
    · rename_i h; exact Or.inr (Or.inr ⟨rfl, h.1⟩)
    · rw [hs1]; split
      · rename_i h; exact Or.inr (Or.inl ⟨rfl, h.1⟩)
      · exact Or.inl rfl
  refine ⟨s2, hres, ?_, ?_, ?_, ?_, ?_, ?_, ?_, ?_, ?_⟩
  · rw [hs2]; split <;> assumption
  · rw [hs2]; split <;> assumption
  · rcases hcases with h | ⟨h, _⟩ | ⟨h, _⟩ <;> rw [h] <;> linarith
  · rcases hcases with h | ⟨h, _⟩ | ⟨h, _⟩ <;> rw [h] <;> linarith
  · intro he
    rcases hcases with h | ⟨_, h⟩ | ⟨h, _⟩
    · rw [h] at he; linarith
    · exact h
    · rw [h] at he; linarith
  · intro he
    rcases hcases with h | ⟨h, _⟩ | ⟨_, h⟩
    · rw [h] at he; linarith
    · rw [h] at he; linarith
    · exact h
  · intro p s hs a b
    exact (h2a.trans h1a).trans (hint p s hs a b)
  · intro h; exact h2a.trans (h1b h)
  · exact h2b

end Dashu.Model.Ratio

namespace Dashu.Model.Ratio
open Dashu.Model

/-- what `pickSimplest_spec` says about a result `r` for the set described by `lo hi incl…` -/
def SimplestOfSet (lo hi : Q) (inclLo inclHi : Bool) (r : Q) : Prop :=
  Reduced r ∧ 0 < r.num ∧ lo.val ≤ r.val ∧ r.val ≤ hi.val ∧ (r.val = lo.val → inclLo = true) ∧
    (r.val = hi.val → inclHi = true) ∧
    (∀ (p : ℤ) (s : ℕ), 0 < s → lo.val < (p : ℚ) / s → (p : ℚ) / s < hi.val →
      AsSimple r ⟨p, s⟩) ∧
    (inclLo = true → AsSimple r lo) ∧ (inclHi = true → AsSimple r hi)

theorem roundingInterval_pos (mb : ℕ) (minExp : ℤ) (m : ℕ) (exp : ℤ) (hm : 0 < m) :
    0 < (roundingInterval mb minExp m exp).1.den ∧ 0 < (roundingInterval mb minExp m exp).2.den ∧
    0 < (roundingInterval mb minExp m exp).1.val ∧
    (roundingInterval mb minExp m exp).1.val < (roundingInterval mb minExp m exp).2.val := by
  unfold roundingInterval
  have hlow : (0 : ℤ) < (if m = 2 ^ mb ∧ exp > minExp then 4 * (m : ℤ) - 1 else 4 * (m : ℤ) - 2) := by
    split <;> omega
  have hlh : (if m = 2 ^ mb ∧ exp > minExp then 4 * (m : ℤ) - 1 else 4 * (m : ℤ) - 2)
      < 4 * (m : ℤ) + 2 := by split <;> omega
  set lowNum : ℤ := if m = 2 ^ mb ∧ exp > minExp then 4 * (m : ℤ) - 1 else 4 * (m : ℤ) - 2
  simp only
  split
  · have h2 : (0 : ℚ) < (2 : ℚ) ^ (exp - 2).toNat := by positivity
    have hlq : (0 : ℚ) < (lowNum : ℚ) := by exact_mod_cast hlow
    have hlhq : (lowNum : ℚ) < 4 * (m : ℚ) + 2 := by exact_mod_cast hlh
    refine ⟨by simp, by simp, ?_, ?_⟩
    · simp only [Q.val_def]; push_cast; simp only [div_one]; positivity
    · simp only [Q.val_def]; push_cast; simp only [div_one]; nlinarith
  · have h2 : (0 : ℚ) < ((2 ^ (-(exp - 2)).toNat : ℕ) : ℚ) := by positivity
    have hlq : (0 : ℚ) < (lowNum : ℚ) := by exact_mod_cast hlow
    have hlhq : (lowNum : ℚ) < 4 * (m : ℚ) + 2 := by exact_mod_cast hlh
    refine ⟨by positivity, by positivity, ?_, ?_⟩
    · simp only [Q.val_def]; positivity
    · simp only [Q.val_def]; push_cast
      apply div_lt_div_of_pos_right _ (by positivity)
      exact_mod_cast hlh

/-- **`simplest_from_f32/f64`** (required semantics): NaN/inf ⇒ `None`, zeros ⇒ 0; otherwise the
    sign of the float times the simplest element of its round-to-nearest-even interval
    `roundingInterval` (end points allowed iff the mantissa is even). -/
theorem simplestFromFloat_spec (eb mb bits : ℕ) :
    (floatDecode eb mb bits = none →
      simplestFromFloat simplerSpec eb mb bits = .ok (some none)) ∧
    (∀ man exp, floatDecode eb mb bits = some (man, exp) →
      (man = 0 → simplestFromFloat simplerSpec eb mb bits = .ok (some (some Q.zero))) ∧
      (man ≠ 0 → ∃ lo hi s,
        reduce (roundingInterval mb (1 - (2 ^ (eb - 1) - 1) - mb) man.natAbs exp).1 = .ok lo ∧
        reduce (roundingInterval mb (1 - (2 ^ (eb - 1) - 1) - mb) man.natAbs exp).2 = .ok hi ∧
        lo.val = (roundingInterval mb (1 - (2 ^ (eb - 1) - 1) - mb) man.natAbs exp).1.val ∧
        hi.val = (roundingInterval mb (1 - (2 ^ (eb - 1) - 1) - mb) man.natAbs exp).2.val ∧
        simplestFromFloat simplerSpec eb mb bits =
          .ok (some (some (mulSign s (decide (man < 0))))) ∧
        SimplestOfSet lo hi (decide (man.natAbs % 2 = 0)) (decide (man.natAbs % 2 = 0)) s)) := by
  constructor
  · intro h; simp [simplestFromFloat, h]
  · intro man exp h
    constructor
    · intro h0; simp [simplestFromFloat, h, h0]
    · intro hne
      have hm : 0 < man.natAbs := Int.natAbs_pos.mpr hne
      obtain ⟨d1, d2, p1, p2⟩ :=
        roundingInterval_pos mb (1 - (2 ^ (eb - 1) - 1) - mb) man.natAbs exp hm
      obtain ⟨lo, hlo1, hlo2, hlo3⟩ := reduce_spec _ d1
      obtain ⟨hi, hhi1, hhi2, hhi3⟩ := reduce_spec _ d2
      have hlopos : 0 < lo.num := (val_pos_iff lo hlo2.den_pos).1 (by rw [hlo3]; exact p1)
      obtain ⟨s, hs, hrest⟩ := pickSimplest_spec lo hi hlo2 hhi2 hlopos
        (by rw [hlo3, hhi3]; exact p2) (decide (man.natAbs % 2 = 0)) (decide (man.natAbs % 2 = 0))
      refine ⟨lo, hi, s, hlo1, hhi1, hlo3, hhi3, ?_, hrest⟩
      simp only [simplestFromFloat, h, if_neg hne, hlo1, hhi1, bind_ok', hs]
      rfl

end Dashu.Model.Ratio

namespace Dashu.Model.Ratio
open Dashu.Model

/-- a reduced pair has the least denominator and numerator among the pairs with its value -/
theorem reduced_minimal (a : Q) (ha : Reduced a) (p : ℤ) (s : ℕ) (hs : 0 < s)
    (h : a.val = (p : ℚ) / s) : a.den ≤ s ∧ a.num.natAbs ≤ p.natAbs := by
  have hd : (0 : ℚ) < a.den := by exact_mod_cast ha.den_pos
  have hsq : (0 : ℚ) < s := by exact_mod_cast hs
  rw [Q.val_def, div_eq_div_iff hd.ne' hsq.ne'] at h
  have hz : a.num * (s : ℤ) = p * (a.den : ℤ) := by exact_mod_cast h
  have hcop : IsCoprime (a.den : ℤ) a.num := ha.isCoprime.symm
  have hdvd : (a.den : ℤ) ∣ (s : ℤ) := by
    apply hcop.dvd_of_dvd_mul_left
    exact ⟨p, by linear_combination hz⟩
  obtain ⟨c, hc⟩ := hdvd
  have hdz : (0 : ℤ) < a.den := by exact_mod_cast ha.den_pos
  have hsz : (0 : ℤ) < s := by exact_mod_cast hs
  have hcpos : 0 < c := by
    by_contra hcon
    have : c ≤ 0 := by omega
    have : (a.den : ℤ) * c ≤ 0 := Int.mul_nonpos_of_nonneg_of_nonpos hdz.le this
    omega
  have hp : p = a.num * c := by
    have : (a.den : ℤ) * (a.num * c) = (a.den : ℤ) * p := by
      rw [hc] at hz; linarith
    exact (Int.eq_of_mul_eq_mul_left hdz.ne' this).symm
  constructor
  · have : (a.den : ℤ) * 1 ≤ (a.den : ℤ) * c := Int.mul_le_mul_of_nonneg_left (by omega) hdz.le
    have : (a.den : ℤ) ≤ s := by rw [hc]; linarith
    exact_mod_cast this
  · rw [hp, Int.natAbs_mul]
    have : 1 ≤ c.natAbs := by omega
    calc a.num.natAbs = a.num.natAbs * 1 := (Nat.mul_one _).symm
      _ ≤ a.num.natAbs * c.natAbs := Nat.mul_le_mul_left _ this

end Dashu.Model.Ratio
