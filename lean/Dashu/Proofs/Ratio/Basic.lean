import Dashu.Model.Ratio.Spec
import Mathlib.Tactic.Ring
import Mathlib.Tactic.Linarith
import Mathlib.Tactic.LinearCombination
import Mathlib.Tactic.FieldSimp
import Mathlib.Tactic.Positivity
import Mathlib.Data.Rat.Defs
import Mathlib.Algebra.Order.Field.Rat
import Mathlib.Data.Int.GCD
import Mathlib.Data.Nat.Cast.Field
import Mathlib.Data.Int.Cast.Field
import Mathlib.RingTheory.Coprime.Lemmas
/-
  Reductions of `rational/src/repr.rs`: `reduce`, `reduce_with_hint`, `reduce2` return the
  canonical form of the same rational number.
-/
namespace Dashu.Model.Ratio
open Dashu.Model

theorem Q.val_def (q : Q) : q.val = (q.num : ℚ) / (q.den : ℚ) := rfl

@[simp] theorem Q.val_mk (n : ℤ) (d : ℕ) : (⟨n, d⟩ : Q).val = (n : ℚ) / (d : ℚ) := rfl

theorem reduced_iff_isCoprime (q : Q) :
    Reduced q ↔ 0 < q.den ∧ IsCoprime q.num (q.den : ℤ) := by
  unfold Reduced
  rw [Int.isCoprime_iff_gcd_eq_one, Int.gcd_eq_natAbs_gcd_natAbs, Int.natAbs_natCast]

theorem Reduced.den_pos {q : Q} (h : Reduced q) : 0 < q.den := h.1

theorem Reduced.isCoprime {q : Q} (h : Reduced q) : IsCoprime q.num (q.den : ℤ) :=
  ((reduced_iff_isCoprime q).1 h).2

theorem reduced_zero : Reduced Q.zero := by decide

/-- zero is stored as 0/1 -/
theorem Reduced.zero_den {q : Q} (h : Reduced q) (h0 : q.num = 0) : q.den = 1 := by
  have := h.2; rw [h0] at this; simpa using this

theorem gcdK_of_pos_right (a : ℕ) {b : ℕ} (h : 0 < b) : gcdK a b = .ok (Nat.gcd a b) := by
  unfold gcdK; rw [if_neg]; omega

theorem gcdK_of_pos_left {a : ℕ} (b : ℕ) (h : 0 < a) : gcdK a b = .ok (Nat.gcd a b) := by
  unfold gcdK; rw [if_neg]; omega

/-- the contract of the gcd kernel makes every divisor taken from it positive -/
theorem gcdK_ok_pos {a b g : ℕ} (h : gcdK a b = .ok g) : 0 < g := by
  unfold gcdK at h
  split at h
  · cases h
  · rename_i hn
    cases h
    rcases Nat.eq_zero_or_pos a with ha | ha
    · have hb : 0 < b := by omega
      exact Nat.gcd_pos_of_pos_right _ hb
    · exact Nat.gcd_pos_of_pos_left _ ha

@[simp] theorem bind_ok' {α β : Type} (a : α) (f : α → Except PanicKind β) :
    (Except.ok a >>= f) = f a := rfl

/-- dividing numerator and denominator by a common positive divisor keeps the value -/
theorem val_div_common (n : ℤ) (d g : ℕ) (hg : 0 < g) (hn : (g : ℤ) ∣ n) (hd : g ∣ d) :
    (⟨Int.tdiv n g, d / g⟩ : Q).val = (⟨n, d⟩ : Q).val := by
  have hg' : (g : ℚ) ≠ 0 := by exact_mod_cast hg.ne'
  simp only [Q.val_mk]
  rw [Int.tdiv_eq_ediv_of_dvd hn, Int.cast_div hn (by exact_mod_cast hg.ne'), Nat.cast_div hd hg']
  simp only [Int.cast_natCast]
  rw [div_div_div_cancel_right₀ hg']

theorem natCast_dvd_of_dvd_natAbs {g : ℕ} {n : ℤ} (h : g ∣ n.natAbs) : (g : ℤ) ∣ n :=
  Int.natCast_dvd.mpr h

/-- dividing by the full gcd yields the canonical form -/
theorem reduced_div_gcd (n : ℤ) (d : ℕ) (hd : 0 < d) :
    Reduced ⟨Int.tdiv n (Nat.gcd n.natAbs d : ℕ), d / Nat.gcd n.natAbs d⟩ := by
  have hg : 0 < Nat.gcd n.natAbs d := Nat.gcd_pos_of_pos_right _ hd
  refine ⟨Nat.div_pos (Nat.le_of_dvd hd (Nat.gcd_dvd_right _ _)) hg, ?_⟩
  simp only [Int.natAbs_tdiv, Int.natAbs_natCast]
  exact Nat.coprime_div_gcd_div_gcd hg

/-- `Repr::reduce` -/
theorem reduce_spec (q : Q) (hd : 0 < q.den) :
    ∃ r, reduce q = .ok r ∧ Reduced r ∧ r.val = q.val := by
  unfold reduce
  by_cases h0 : q.num = 0
  · refine ⟨Q.zero, by simp [h0], reduced_zero, ?_⟩
    simp [Q.val_def, Q.zero, h0]
  · rw [if_neg h0, gcdK_of_pos_right _ hd]
    refine ⟨_, rfl, reduced_div_gcd _ _ hd, ?_⟩
    exact val_div_common _ _ _ (Nat.gcd_pos_of_pos_right _ hd)
      (natCast_dvd_of_dvd_natAbs (Nat.gcd_dvd_left _ _)) (Nat.gcd_dvd_right _ _)

/-- `Repr::reduce_with_hint`: correct whenever the hint is a positive multiple of the common factor -/
theorem reduceWithHint_spec (q : Q) (hint : ℕ) (hd : 0 < q.den) (hh : 0 < hint)
    (hdvd : Nat.gcd q.num.natAbs q.den ∣ hint) :
    ∃ r, reduceWithHint q hint = .ok r ∧ Reduced r ∧ r.val = q.val := by
  unfold reduceWithHint
  by_cases h0 : q.num = 0
  · refine ⟨Q.zero, by simp [h0], reduced_zero, ?_⟩
    simp [Q.val_def, Q.zero, h0]
  · rw [if_neg h0, gcdK_of_pos_left _ hh]
    simp only [bind_ok']
    rw [gcdK_of_pos_right _ hd]
    simp only [bind_ok']
    have key : Nat.gcd (Nat.gcd hint q.num.natAbs) q.den = Nat.gcd q.num.natAbs q.den := by
      apply Nat.dvd_antisymm
      · exact Nat.dvd_gcd ((Nat.gcd_dvd_left _ _).trans (Nat.gcd_dvd_right _ _)) (Nat.gcd_dvd_right _ _)
      · exact Nat.dvd_gcd (Nat.dvd_gcd hdvd (Nat.gcd_dvd_left _ _)) (Nat.gcd_dvd_right _ _)
    rw [key]
    refine ⟨_, rfl, reduced_div_gcd _ _ hd, ?_⟩
    exact val_div_common _ _ _ (Nat.gcd_pos_of_pos_right _ hd)
      (natCast_dvd_of_dvd_natAbs (Nat.gcd_dvd_left _ _)) (Nat.gcd_dvd_right _ _)

/-- `RBig::from_parts` -/
theorem rFromParts_spec (n : ℤ) (d : ℕ) (hd : 0 < d) :
    ∃ r, rFromParts n d = .ok r ∧ Reduced r ∧ r.val = (n : ℚ) / (d : ℚ) := by
  unfold rFromParts
  rw [if_neg (by omega)]
  exact reduce_spec ⟨n, d⟩ hd

theorem rFromParts_zero (n : ℤ) : rFromParts n 0 = .error .divideByZero := by
  simp [rFromParts]

-- ------------------------------------------------------------------ powers (kernels at their contract)

theorem upowK_eq (b n : ℕ) : upowK b n = b ^ n := by
  unfold upowK
  split
  · next h => rw [h, pow_zero]
  · next h =>
    split
    · next hb => rw [hb, zero_pow h]
    · split
      · next hb => rw [hb, one_pow]
      · rfl

theorem ipowK_eq (a : ℤ) (n : ℕ) : ipowK a n = a ^ n := by
  unfold ipowK
  rw [upowK_eq]
  push_cast
  split
  · next h =>
    have ho : Odd n := Nat.odd_iff.mpr h.2
    rw [abs_of_neg h.1, ho.neg_pow, neg_neg]
  · next h =>
    by_cases ha : a < 0
    · have he : Even n := by
        rcases Nat.even_or_odd n with he | ho
        · exact he
        · exact absurd ⟨ha, Nat.odd_iff.mp ho⟩ h
      rw [abs_of_neg ha, he.neg_pow]
    · rw [abs_of_nonneg (not_lt.mp ha)]

/-- `Repr::pow` is component-wise `^` -/
theorem pow_def (x : Q) (n : ℕ) : pow x n = ⟨x.num ^ n, x.den ^ n⟩ := by
  unfold pow; rw [ipowK_eq, upowK_eq]

theorem Spec.qpow_eq (x : ℚ) (n : ℕ) : Spec.qpow x n = x ^ n := by
  unfold Spec.qpow
  split
  · next h => rw [h, pow_zero]
  · next h =>
    split
    · next hx => rw [hx, zero_pow h]
    · split
      · next hx => rw [hx, one_pow]
      · split
        · next hx =>
          rw [hx]
          split
          · next he => rw [(Nat.even_iff.mpr he).neg_one_pow]
          · next he => rw [(Nat.odd_iff.mpr (by omega)).neg_one_pow]
        · rfl

end Dashu.Model.Ratio
