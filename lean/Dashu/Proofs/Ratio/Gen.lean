import Dashu.Gen.RatOps
import Dashu.Proofs.Ratio.Basic
/-
  Tie A of C04: the regenerated macro bodies of rational/src/{add,mul,div}.rs (`Gen/RatOps.lean`) are the
  hand-written model functions (`Model/Ratio/Ops.lean`) the driver executes and `Props/C04` is about.
-/
namespace Dashu.Model.Ratio
open Dashu.Model Dashu.Gen

@[simp] theorem tdiv_natCast (n g : Nat) : Int.tdiv (n : Int) (g : Int) = ((n / g : Nat) : Int) := rfl

@[simp] theorem toNat_natCast_div (n g : Nat) : ((n : Int) / (g : Int)).toNat = n / g := by
  rw [← Int.natCast_ediv, Int.toNat_natCast]

@[simp] theorem toNat_natCast_mul (n g : Nat) : ((n : Int) * (g : Int)).toNat = n * g := by
  rw [← Int.natCast_mul, Int.toNat_natCast]

@[simp] theorem G.gcd_eq (a b : Int) :
    G.gcd a b = (gcdK a.natAbs b.natAbs).map (fun g : Nat => (g : Int)) := by
  unfold G.gcd; cases gcdK a.natAbs b.natAbs <;> rfl

@[simp] theorem throw_eq {α : Type} (e : PanicKind) : (throw e : Except PanicKind α) = .error e := rfl

@[simp] theorem error_bind {α β : Type} (e : PanicKind) (f : α → Except PanicKind β) :
    ((Except.error e : Except PanicKind α) >>= f) = .error e := rfl

@[simp] theorem ok_bind {α β : Type} (a : α) (f : α → Except PanicKind β) :
    ((Except.ok a : Except PanicKind α) >>= f) = f a := rfl

@[simp] theorem map_ok {α β : Type} (a : α) (f : α → β) :
    (Except.map f (Except.ok a : Except PanicKind α)) = .ok (f a) := rfl

@[simp] theorem map_error {α β : Type} (e : PanicKind) (f : α → β) :
    (Except.map f (Except.error e : Except PanicKind α)) = .error e := rfl

@[simp] theorem bind_ok_self {α : Type} (m : Except PanicKind α) : (m >>= fun a => Except.ok a) = m := by
  cases m <;> rfl

@[simp] theorem pure_eq_ok {α : Type} (a : α) : (pure a : Except PanicKind α) = .ok a := rfl

syntax "gsimp" ("[" Lean.Parser.Tactic.simpLemma,* "]")? : tactic
macro_rules
  | `(tactic| gsimp) => `(tactic| (simp [-Int.natCast_natAbs, -Nat.cast_natAbs, G.is_zero, G.is_one, G.repr, G.mk_rbig, G.mk_relaxed, G.div,
  G.mul, G.add, G.sub, G.neg, G.sign, G.unsigned_abs, G.relaxed_from_parts, G.rbig_from_parts, G.reduce_with_hint,
  G.into, G.into_parts, G.ibig_from_parts, G.lt]; try simp only [← Int.natCast_ediv, ← Int.natCast_mul, Int.toNat_natCast]))
  | `(tactic| gsimp [$ts,*]) => `(tactic| (simp [-Int.natCast_natAbs, -Nat.cast_natAbs, G.is_zero, G.is_one, G.repr, G.mk_rbig, G.mk_relaxed, G.div,
  G.mul, G.add, G.sub, G.neg, G.sign, G.unsigned_abs, G.relaxed_from_parts, G.rbig_from_parts, G.reduce_with_hint,
  G.into, G.into_parts, G.ibig_from_parts, G.lt, $ts,*]; try simp only [← Int.natCast_ediv, ← Int.natCast_mul, Int.toNat_natCast]))

theorem bind_map_cast {α : Type} (m : Except PanicKind Nat) (f : Int → Except PanicKind α) :
    (m.map (fun g : Nat => (g : Int)) >>= f) = (m >>= fun g => f (g : Int)) := by
  cases m <;> rfl

theorem gen_addsub_int_with_rbig (sub : Bool) (x : Q) (i : Int) :
    RatOps.impl_addsub_int_with_rbig (if sub then (· - ·) else (· + ·)) x.num x.den i x.num x.den i
      = .ok (R.addSubInt sub x i) := by
  cases sub <;> (unfold RatOps.impl_addsub_int_with_rbig R.addSubInt; gsimp)

theorem gen_int_sub_rbig (x : Q) (i : Int) :
    RatOps.impl_int_sub_rbig (· - ·) x.num x.den i x.num x.den i = .ok (R.intSub i x) := by
  unfold RatOps.impl_int_sub_rbig R.intSub; gsimp

theorem gen_addsub_int_with_relaxed (sub : Bool) (x : Q) (i : Int) :
    RatOps.impl_addsub_int_with_relaxed (if sub then (· - ·) else (· + ·)) x.num x.den i x.num x.den i
      = .ok (X.addSubInt sub x i) := by
  cases sub <;> (unfold RatOps.impl_addsub_int_with_relaxed X.addSubInt; gsimp)

theorem gen_int_sub_relaxed (x : Q) (i : Int) :
    RatOps.impl_int_sub_relaxed (· - ·) x.num x.den i x.num x.den i = .ok (X.intSub i x) := by
  unfold RatOps.impl_int_sub_relaxed X.intSub; gsimp

theorem gen_mul_int_with_rbig (x : Q) (i : Int) :
    RatOps.impl_mul_int_with_rbig (· * ·) x.num x.den i x.num x.den i = R.mulInt x i := by
  unfold RatOps.impl_mul_int_with_rbig R.mulInt
  rw [G.gcd_eq]
  simp only [Int.natAbs_natCast]
  cases gcdK x.den i.natAbs <;> gsimp

theorem gen_mul_int_with_relaxed (x : Q) (i : Int) :
    RatOps.impl_mul_int_with_relaxed (· * ·) x.num x.den i x.num x.den i = X.mulInt x i := by
  unfold RatOps.impl_mul_int_with_relaxed X.mulInt; gsimp

theorem gen_rbig_div_ibig (x : Q) (i : Int) :
    RatOps.impl_rbig_div_ibig x.num x.den i x.num x.den i = R.divInt x i := by
  unfold RatOps.impl_rbig_div_ibig R.divInt
  rw [G.gcd_eq]
  by_cases hi : i = 0
  · gsimp [hi]
  · cases gcdK x.num.natAbs i.natAbs <;> gsimp [hi]

theorem gen_rbig_div_ubig (x : Q) (i : Int) (h : 0 ≤ i) :
    RatOps.impl_rbig_div_ubig x.num x.den i x.num x.den i = R.divInt x i := by
  unfold RatOps.impl_rbig_div_ubig R.divInt
  rw [G.gcd_eq]
  obtain ⟨n, rfl⟩ := Int.eq_ofNat_of_zero_le h
  by_cases hi : n = 0
  · gsimp [hi]
  · have hs : sgn (n : Int) = 1 := by unfold sgn; rw [if_neg (by omega)]
    simp only [Int.natAbs_natCast]
    cases gcdK x.num.natAbs n <;> gsimp [hi, hs]

theorem gen_ubig_or_ibig_div_rbig (i : Int) (x : Q) :
    RatOps.impl_ubig_or_ibig_div_rbig x.num x.den i x.num x.den i = R.intDiv i x := by
  unfold RatOps.impl_ubig_or_ibig_div_rbig R.intDiv
  rw [G.gcd_eq]
  by_cases hi : x.num = 0
  · gsimp [hi]
  · cases gcdK x.num.natAbs i.natAbs <;> gsimp [hi]

theorem gen_relaxed_div_ibig (x : Q) (i : Int) :
    RatOps.impl_relaxed_div_ibig x.num x.den i x.num x.den i = X.divInt x i := by
  unfold RatOps.impl_relaxed_div_ibig X.divInt
  by_cases hi : i = 0
  · gsimp [hi]
  · gsimp [hi]

theorem gen_relaxed_div_ubig (x : Q) (i : Int) (h : 0 ≤ i) :
    RatOps.impl_relaxed_div_ubig x.num x.den i x.num x.den i = X.divInt x i := by
  unfold RatOps.impl_relaxed_div_ubig X.divInt
  obtain ⟨n, rfl⟩ := Int.eq_ofNat_of_zero_le h
  by_cases hi : n = 0
  · gsimp [hi]
  · have hs : sgn (n : Int) = 1 := by unfold sgn; rw [if_neg (by omega)]
    gsimp [hi, hs]

theorem gen_ubig_or_ibig_div_relaxed (i : Int) (x : Q) :
    RatOps.impl_ubig_or_ibig_div_relaxed x.num x.den i x.num x.den i = X.intDiv i x := by
  unfold RatOps.impl_ubig_or_ibig_div_relaxed X.intDiv
  by_cases hi : x.num = 0
  · gsimp [hi]
  · gsimp [hi]

-- ------------------------------------------------------------------ binary operators

theorem gen_add_or_sub_with_rbig (sub : Bool) (x y : Q) :
    RatOps.impl_add_or_sub_with_rbig (if sub then (· - ·) else (· + ·)) x.num x.den y.num y.den x.num x.den y.num y.den
      = R.addSub sub x y := by
  unfold RatOps.impl_add_or_sub_with_rbig R.addSub
  rw [G.gcd_eq]
  simp only [Int.natAbs_natCast]
  cases gcdK x.den y.den with
  | error e => rfl
  | ok g =>
    by_cases hg : g = 1
    · cases sub <;> gsimp [hg, mul_comm]
    · have hg' : ¬ ((g : Int) = 1) := by exact_mod_cast hg
      cases sub <;> gsimp [hg, hg']

theorem gen_addsub_with_relaxed (sub : Bool) (x y : Q) :
    RatOps.impl_addsub_with_relaxed (if sub then (· - ·) else (· + ·)) x.num x.den y.num y.den x.num x.den y.num y.den
      = X.addSub sub x y := by
  cases sub <;> (unfold RatOps.impl_addsub_with_relaxed X.addSub; gsimp)

theorem gcdK_error {a b : Nat} {e : PanicKind} (h : gcdK a b = .error e) : e = .gcdZeroZero := by
  unfold gcdK at h
  split at h
  · cases h; rfl
  · cases h

/-- (order-insensitive proof: the two independent gcds may be computed in either order in the source) -/
theorem gen_mul_with_rbig (x y : Q) :
    RatOps.impl_mul_with_rbig (· * ·) x.num x.den y.num y.den x.num x.den y.num y.den = R.mul x y := by
  unfold RatOps.impl_mul_with_rbig R.mul
  rw [G.gcd_eq, G.gcd_eq]
  simp only [Int.natAbs_natCast]
  cases h1 : gcdK x.num.natAbs y.den <;> cases h2 : gcdK x.den y.num.natAbs <;> gsimp
  all_goals (first | rfl | (rw [gcdK_error h1, gcdK_error h2]) | (rw [gcdK_error h1]) | (rw [gcdK_error h2]))

theorem gen_mul_with_relaxed (x y : Q) :
    RatOps.impl_mul_with_relaxed (· * ·) x.num x.den y.num y.den x.num x.den y.num y.den = X.mul x y := by
  unfold RatOps.impl_mul_with_relaxed X.mul; gsimp

theorem gen_div_with_rbig (x y : Q) :
    RatOps.impl_div_with_rbig x.num x.den y.num y.den x.num x.den y.num y.den = R.div x y := by
  unfold RatOps.impl_div_with_rbig R.div
  rw [G.gcd_eq, G.gcd_eq]
  simp only [Int.natAbs_natCast]
  by_cases hi : y.num = 0
  · gsimp [hi]
  · cases h1 : gcdK x.num.natAbs y.num.natAbs <;> cases h2 : gcdK x.den y.den <;> gsimp [hi]
    all_goals (first | rfl | (rw [gcdK_error h1, gcdK_error h2]) | (rw [gcdK_error h1]) | (rw [gcdK_error h2]))

theorem gen_div_with_relaxed (x y : Q) :
    RatOps.impl_div_with_relaxed x.num x.den y.num y.den x.num x.den y.num y.den = X.div x y := by
  unfold RatOps.impl_div_with_relaxed X.div
  by_cases hi : y.num = 0 <;> gsimp [hi]

theorem gen_euclid_div (x y : Q) :
    RatOps.impl_euclid_div G.m_div_euclid x.num x.den y.num y.den x.num x.den y.num y.den = R.divEuclid x y := by
  unfold RatOps.impl_euclid_div R.divEuclid G.m_div_euclid
  by_cases hi : y.num = 0 <;> gsimp [hi]

theorem gen_euclid_rem_with_rbig (x y : Q) :
    RatOps.impl_euclid_rem_with_rbig G.m_rem_euclid x.num x.den y.num y.den x.num x.den y.num y.den
      = R.remEuclid x y := by
  unfold RatOps.impl_euclid_rem_with_rbig R.remEuclid G.m_rem_euclid
  rw [G.gcd_eq]
  simp only [Int.natAbs_natCast]
  cases gcdK x.den y.den with
  | error e => rfl
  | ok g => gsimp

theorem gen_euclid_rem_with_relaxed (x y : Q) :
    RatOps.impl_euclid_rem_with_relaxed G.m_rem_euclid x.num x.den y.num y.den x.num x.den y.num y.den
      = X.remEuclid x y := by
  unfold RatOps.impl_euclid_rem_with_relaxed X.remEuclid G.m_rem_euclid
  gsimp

theorem gen_euclid_divrem_with_rbig (x y : Q) :
    RatOps.impl_euclid_divrem_with_rbig G.m_div_rem_euclid x.num x.den y.num y.den x.num x.den y.num y.den
      = R.divRemEuclid x y := by
  unfold RatOps.impl_euclid_divrem_with_rbig R.divRemEuclid G.m_div_rem_euclid
  rw [G.gcd_eq]
  simp only [Int.natAbs_natCast]
  cases gcdK x.den y.den with
  | error e => rfl
  | ok g => gsimp

theorem gen_euclid_divrem_with_relaxed (x y : Q) :
    RatOps.impl_euclid_divrem_with_relaxed G.m_div_rem_euclid x.num x.den y.num y.den x.num x.den y.num y.den
      = X.divRemEuclid x y := by
  unfold RatOps.impl_euclid_divrem_with_relaxed X.divRemEuclid G.m_div_rem_euclid
  gsimp

/-- the remainder selection of `impl_rem_with_*` written over `IBig`/`UBig` values as the macro does
    (`right - &r1` never underflows: `r1 = |left % right| < right`) -/
theorem nearestRem_eq (left : Int) (right : Nat) :
    nearestRem left right = (do
      let t ← G.m_rem left right
      let r1 : Int := (t.natAbs : Int)
      let r2 : Int := (right : Int) - r1
      if r1 < r2 then pure (sgn t * r1) else pure (-sgn t * r2)) := by
  unfold nearestRem G.m_rem
  by_cases h0 : right = 0
  · simp [h0]
  · have hr : (0 : Int) < right := by exact_mod_cast Nat.pos_of_ne_zero h0
    have hlt : (Int.tmod left right).natAbs < right := by
      have h1 := Int.tmod_lt_of_pos left hr
      have h2 : -(right : Int) < Int.tmod left right := by
        have := Int.tmod_lt_of_pos (-left) hr
        rw [Int.neg_tmod] at this
        omega
      omega
    have hcast : (((right - (Int.tmod left right).natAbs : Nat)) : Int) = (right : Int) - ((Int.tmod left right).natAbs : Int) := by
      omega
    simp only [h0, if_false]
    have e : ((Int.tmod left right).natAbs < right - (Int.tmod left right).natAbs) ↔
        (((Int.tmod left right).natAbs : Int) < (right : Int) - ((Int.tmod left right).natAbs : Int)) := by
      omega
    have hne : ¬ ((right : Int) = 0) := by omega
    simp only [hne, if_false, ok_bind, pure_eq_ok]
    by_cases hc : (Int.tmod left right).natAbs < right - (Int.tmod left right).natAbs
    · rw [if_pos hc, if_pos (e.mp hc)]
    · rw [if_neg hc, if_neg (fun h => hc (e.mpr h)), hcast]

theorem gen_rem_with_rbig (x y : Q) :
    RatOps.impl_rem_with_rbig G.m_rem x.num x.den y.num y.den x.num x.den y.num y.den = R.rem x y := by
  unfold RatOps.impl_rem_with_rbig R.rem
  rw [G.gcd_eq]
  simp only [Int.natAbs_natCast]
  cases gcdK x.den y.den with
  | error e => rfl
  | ok g =>
    simp only [map_ok, ok_bind, nearestRem_eq]
    have e1 : G.mul (G.div (↑x.den) ↑g) (G.unsigned_abs y.num) = ((x.den / g * y.num.natAbs : Nat) : Int) := by
      gsimp
    have e2 : G.mul (G.div (↑y.den) ↑g) x.num = ((y.den / g : Nat) : Int) * x.num := by gsimp
    rw [e1, e2]
    cases G.m_rem (((y.den / g : Nat) : Int) * x.num) ((x.den / g * y.num.natAbs : Nat) : Int) with
    | error e => rfl
    | ok t =>
      simp only [ok_bind]
      by_cases hc : ((t.natAbs : Int) < ((x.den / g * y.num.natAbs : Nat) : Int) - (t.natAbs : Int))
      · gsimp [hc]
      · gsimp [hc]

theorem gen_rem_with_relaxed (x y : Q) :
    RatOps.impl_rem_with_relaxed G.m_rem x.num x.den y.num y.den x.num x.den y.num y.den = X.rem x y := by
  unfold RatOps.impl_rem_with_relaxed X.rem
  simp only [nearestRem_eq]
  have e1 : G.mul (G.unsigned_abs y.num) (↑x.den) = ((y.num.natAbs * x.den : Nat) : Int) := by gsimp
  have e2 : G.mul x.num (↑y.den) = x.num * (y.den : Int) := rfl
  simp only [e1, e2]
  cases G.m_rem (x.num * (y.den : Int)) ((y.num.natAbs * x.den : Nat) : Int) with
  | error e => rfl
  | ok t =>
    simp only [ok_bind]
    by_cases hc : ((t.natAbs : Int) < ((y.num.natAbs * x.den : Nat) : Int) - (t.natAbs : Int))
    · gsimp [hc]
    · gsimp [hc]

end Dashu.Model.Ratio
