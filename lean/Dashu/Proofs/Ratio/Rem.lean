import Dashu.Proofs.Ratio.Relaxed
import Mathlib.Data.Rat.Floor
/-
  `%`, `rem_euclid`, `div_euclid`, `div_rem_euclid` (div.rs) and `trunc/fract/floor/ceil/round/
  split_at_point` (round.rs) against the `Rat`-level specification `Spec.*`.
-/
namespace Dashu.Model.Ratio
open Dashu.Model

theorem rat_floor_eq (q : ℚ) : q.floor = ⌊q⌋ := rfl

@[simp] theorem bind_error' {α β : Type} (e : PanicKind) (f : α → Except PanicKind β) :
    (Except.error e >>= f) = Except.error e := rfl

theorem cast_eq_sgn_mul_natAbs (c : ℤ) : (c : ℚ) = (sgn c : ℚ) * ((c.natAbs : ℕ) : ℚ) := by
  have := congrArg (Int.cast : ℤ → ℚ) (sgn_mul_natAbs c)
  simp only [Int.cast_mul, Int.cast_natCast] at this
  exact this.symm

/-- characterisation of `Spec.round` (nearest integer, ties away from zero) by bounds -/
theorem round_eq_of_bounds (q : ℚ) (k : ℤ)
    (h1 : 0 ≤ q → (k : ℚ) - 1 / 2 ≤ q ∧ q < k + 1 / 2)
    (h2 : q < 0 → (k : ℚ) - 1 / 2 < q ∧ q ≤ k + 1 / 2) : Spec.round q = k := by
  unfold Spec.round
  by_cases h : 0 ≤ q
  · rw [if_pos h, rat_floor_eq, Int.floor_eq_iff]
    obtain ⟨a, b⟩ := h1 h
    constructor <;> linarith
  · rw [if_neg h, rat_floor_eq]
    obtain ⟨a, b⟩ := h2 (not_le.mp h)
    have : ⌊-q + 1 / 2⌋ = -k := by
      rw [Int.floor_eq_iff]; push_cast; constructor <;> linarith
    rw [this]; ring

theorem round_bounds (q : ℚ) :
    (0 ≤ q → ((Spec.round q : ℤ) : ℚ) - 1 / 2 ≤ q ∧ q < (Spec.round q : ℤ) + 1 / 2) ∧
    (q < 0 → ((Spec.round q : ℤ) : ℚ) - 1 / 2 < q ∧ q ≤ (Spec.round q : ℤ) + 1 / 2) := by
  unfold Spec.round
  constructor
  · intro h
    rw [if_pos h, rat_floor_eq]
    have a := Int.floor_le (q + 1 / 2)
    have b := Int.lt_floor_add_one (q + 1 / 2)
    constructor <;> linarith
  · intro h
    rw [if_neg (not_le.mpr h), rat_floor_eq]
    have a := Int.floor_le (-q + 1 / 2)
    have b := Int.lt_floor_add_one (-q + 1 / 2)
    push_cast
    constructor <;> linarith

/-- rounding half away from zero is an odd function -/
theorem round_neg (q : ℚ) : Spec.round (-q) = -Spec.round q := by
  obtain ⟨b1, b2⟩ := round_bounds q
  apply round_eq_of_bounds
  · intro h
    push_cast
    rcases eq_or_lt_of_le (neg_nonneg.mp h) with h0 | hlt
    · -- q = 0
      have hr : Spec.round q = 0 := by
        rw [h0]; apply round_eq_of_bounds <;> intro _ <;> norm_num
      rw [hr, h0]; norm_num
    · obtain ⟨a, b⟩ := b2 hlt
      constructor <;> linarith
  · intro h
    push_cast
    obtain ⟨a, b⟩ := b1 (by linarith)
    constructor <;> linarith

/-- the remainder selection of `impl_rem_*`: least-magnitude remainder, ties away from zero -/
theorem nearestRem_spec (L : ℤ) (m : ℕ) (hm : 0 < m) :
    ∃ R, nearestRem L m = .ok R ∧ (R : ℚ) = L - m * (Spec.round ((L : ℚ) / m) : ℚ) := by
  have hmZ : (0 : ℤ) < m := by exact_mod_cast hm
  have hmq : (0 : ℚ) < m := by exact_mod_cast hm
  set t := Int.tmod L m with ht
  set q0 := Int.tdiv L m with hq0
  have hdecomp : (m : ℤ) * q0 + t = L := Int.mul_tdiv_add_tmod L m
  have hlt : t < m := Int.tmod_lt_of_pos L hmZ
  have hgt : -(m : ℤ) < t := Int.lt_tmod_of_pos L hmZ
  have hsign1 : 0 ≤ L → 0 ≤ t := fun h => Int.tmod_nonneg _ h
  have hsign2 : L < 0 → t ≤ 0 := by
    intro h
    have : 0 ≤ Int.tmod (-L) m := Int.tmod_nonneg _ (by omega)
    rw [Int.neg_tmod] at this
    omega
  have hr1 : (t.natAbs : ℤ) < m := by omega
  have hst : sgn t * (t.natAbs : ℤ) = t := sgn_mul_natAbs t
  have hLq : (L : ℚ) = m * q0 + t := by exact_mod_cast hdecomp.symm
  unfold nearestRem
  rw [if_neg (by omega)]
  simp only [← ht]
  -- the Nat subtraction m - |t| is exact
  have hsub : ((m - t.natAbs : ℕ) : ℤ) = m - t.natAbs := by omega
  by_cases hc : t.natAbs < m - t.natAbs
  · -- |t| < m - |t| : remainder t, quotient q0
    rw [if_pos hc]
    refine ⟨_, rfl, ?_⟩
    have hk : Spec.round ((L : ℚ) / m) = q0 := by
      apply round_eq_of_bounds
      · intro hq
        have hL : 0 ≤ L := by
          have : (0 : ℚ) ≤ L := by
            have := mul_nonneg hq hmq.le
            rwa [div_mul_cancel₀ _ hmq.ne'] at this
          exact_mod_cast this
        have t0 := hsign1 hL
        have h2t : 2 * t < m := by omega
        have t0q : (0 : ℚ) ≤ t := by exact_mod_cast t0
        have h2tq : 2 * (t : ℚ) < m := by exact_mod_cast h2t
        rw [le_div_iff₀ hmq, div_lt_iff₀ hmq, hLq]
        constructor <;> nlinarith
      · intro hq
        have hL : L < 0 := by
          have : (L : ℚ) < 0 := by
            have := mul_neg_of_neg_of_pos hq hmq
            rwa [div_mul_cancel₀ _ hmq.ne'] at this
          exact_mod_cast this
        have t0 := hsign2 hL
        have h2t : -(m : ℤ) < 2 * t := by omega
        have t0q : (t : ℚ) ≤ 0 := by exact_mod_cast t0
        have h2tq : -(m : ℚ) < 2 * (t : ℚ) := by exact_mod_cast h2t
        rw [lt_div_iff₀ hmq, div_le_iff₀ hmq, hLq]
        constructor <;> nlinarith
    rw [hk]
    have : ((sgn t * (t.natAbs : ℤ) : ℤ) : ℚ) = t := by rw [hst]
    rw [this, hLq]; ring
  · -- remainder t - s·m, quotient q0 + s
    rw [if_neg hc]
    refine ⟨_, rfl, ?_⟩
    have hval : (-sgn t * ((m - t.natAbs : ℕ) : ℤ) : ℤ) = t - sgn t * m := by
      rw [hsub]
      have : -sgn t * ((m : ℤ) - t.natAbs) = sgn t * (t.natAbs : ℤ) - sgn t * m := by ring
      rw [this, hst]
    have hk : Spec.round ((L : ℚ) / m) = q0 + sgn t := by
      apply round_eq_of_bounds
      · intro hq
        have hL : 0 ≤ L := by
          have : (0 : ℚ) ≤ L := by
            have := mul_nonneg hq hmq.le
            rwa [div_mul_cancel₀ _ hmq.ne'] at this
          exact_mod_cast this
        have t0 := hsign1 hL
        have hs : sgn t = 1 := by unfold sgn; rw [if_neg (by omega)]
        have h2t : (m : ℤ) ≤ 2 * t := by omega
        have h2tq : (m : ℚ) ≤ 2 * (t : ℚ) := by exact_mod_cast h2t
        have hltq : (t : ℚ) < m := by exact_mod_cast hlt
        rw [hs, le_div_iff₀ hmq, div_lt_iff₀ hmq, hLq]
        push_cast
        constructor <;> nlinarith
      · intro hq
        have hL : L < 0 := by
          have : (L : ℚ) < 0 := by
            have := mul_neg_of_neg_of_pos hq hmq
            rwa [div_mul_cancel₀ _ hmq.ne'] at this
          exact_mod_cast this
        have t0 := hsign2 hL
        have htneg : t < 0 := by omega
        have hs : sgn t = -1 := by unfold sgn; rw [if_pos htneg]
        have h2t : 2 * t ≤ -(m : ℤ) := by omega
        have h2tq : 2 * (t : ℚ) ≤ -(m : ℚ) := by exact_mod_cast h2t
        have hgtq : -(m : ℚ) < t := by exact_mod_cast hgt
        rw [hs, lt_div_iff₀ hmq, div_le_iff₀ hmq, hLq]
        push_cast
        constructor <;> nlinarith
    rw [hk, hval, hLq]; push_cast; ring

theorem nearestRem_zero (L : ℤ) : nearestRem L 0 = .error .divideByZero := by
  simp [nearestRem]

/-- from the integer pair `(L, ±m)` over a common denominator to `Spec.rem` -/
theorem rem_bridge (L : ℤ) (m : ℕ) (hm : 0 < m) (D : ℚ) (hD : D ≠ 0) (x y : ℚ) (σ : ℤ)
    (hσ : σ = 1 ∨ σ = -1) (hx : x = L / D) (hy : y = σ * m / D) (R : ℤ)
    (hR : (R : ℚ) = L - m * (Spec.round ((L : ℚ) / m) : ℚ)) : (R : ℚ) / D = Spec.rem x y := by
  have hmq : (m : ℚ) ≠ 0 := by exact_mod_cast hm.ne'
  unfold Spec.rem
  rcases hσ with h | h
  · subst h
    simp only [Int.cast_one, one_mul] at hy
    have hxy : x / y = (L : ℚ) / m := by rw [hx, hy]; field_simp
    rw [hxy, hR, hx, hy]; push_cast; field_simp
  · subst h
    simp only [Int.cast_neg, Int.cast_one] at hy
    have hxy : x / y = -((L : ℚ) / m) := by rw [hx, hy]; field_simp
    rw [hxy, round_neg, hR, hx, hy]; push_cast; field_simp

theorem sgn_cases (c : ℤ) : sgn c = 1 ∨ sgn c = -1 := by
  unfold sgn; split <;> simp

/-- `impl_rem_with_rbig` -/
theorem R.rem_spec (x y : Q) (hx : Reduced x) (hy : Reduced y) :
    (y.num = 0 → R.rem x y = .error .divideByZero) ∧
    (y.num ≠ 0 → ∃ r, R.rem x y = .ok r ∧ Reduced r ∧ r.val = Spec.rem x.val y.val) := by
  obtain ⟨a, b⟩ := x
  obtain ⟨c, d⟩ := y
  have hb : 0 < b := hx.den_pos
  have hd : 0 < d := hy.den_pos
  have hgpos : 0 < Nat.gcd b d := Nat.gcd_pos_of_pos_left _ hb
  have hbg : b = Nat.gcd b d * (b / Nat.gcd b d) := (Nat.mul_div_cancel' (Nat.gcd_dvd_left b d)).symm
  have hdg : d = Nat.gcd b d * (d / Nat.gcd b d) := (Nat.mul_div_cancel' (Nat.gcd_dvd_right b d)).symm
  have hb'pos : 0 < b / Nat.gcd b d := Nat.div_pos (Nat.le_of_dvd hb (Nat.gcd_dvd_left _ _)) hgpos
  have hd'pos : 0 < d / Nat.gcd b d := Nat.div_pos (Nat.le_of_dvd hd (Nat.gcd_dvd_right _ _)) hgpos
  constructor
  · intro h
    simp only at h
    simp [R.rem, gcdK_of_pos_right b hd, h, nearestRem_zero, bind_ok', bind_error']
  · intro hc
    simp only at hc
    have hcpos : 0 < c.natAbs := Int.natAbs_pos.mpr hc
    have hm : 0 < (b / Nat.gcd b d) * c.natAbs := Nat.mul_pos hb'pos hcpos
    obtain ⟨rr, hR1, hR2⟩ := nearestRem_spec (((d / Nat.gcd b d : ℕ) : ℤ) * a) _ hm
    have hDpos : 0 < b * (d / Nat.gcd b d) := Nat.mul_pos hb hd'pos
    obtain ⟨r, hr1, hr2, hr3⟩ := rFromParts_spec rr _ hDpos
    refine ⟨r, ?_, hr2, ?_⟩
    · simp only [R.rem, gcdK_of_pos_right b hd, bind_ok']
      rw [hR1]; exact hr1
    · rw [hr3]
      set g := Nat.gcd b d
      set b' := b / g
      set d' := d / g
      have e1 : (b : ℚ) = g * b' := by exact_mod_cast hbg
      have e2 : (d : ℚ) = g * d' := by exact_mod_cast hdg
      have hg0 : (g : ℚ) ≠ 0 := by exact_mod_cast hgpos.ne'
      have hb0 : (b' : ℚ) ≠ 0 := by exact_mod_cast hb'pos.ne'
      have hd0 : (d' : ℚ) ≠ 0 := by exact_mod_cast hd'pos.ne'
      apply rem_bridge _ _ hm _ (by exact_mod_cast hDpos.ne') _ _ (sgn c) (sgn_cases c) _ _ rr hR2
      · simp only [Q.val_mk]; push_cast; rw [e1]; field_simp
      · simp only [Q.val_mk]
        have hcabs := cast_eq_sgn_mul_natAbs c
        rw [hcabs]; push_cast; rw [e1, e2]; field_simp

/-- `impl_rem_with_relaxed` -/
theorem X.rem_spec (x y : Q) (hx : RelaxedInv x) (hy : RelaxedInv y) :
    (y.num = 0 → X.rem x y = .error .divideByZero) ∧
    (y.num ≠ 0 → ∃ r, X.rem x y = .ok r ∧ RelaxedInv r ∧ r.val = Spec.rem x.val y.val) := by
  obtain ⟨a, b⟩ := x
  obtain ⟨c, d⟩ := y
  have hb : 0 < b := hx.den_pos
  have hd : 0 < d := hy.den_pos
  constructor
  · intro h
    simp only at h
    simp [X.rem, h, nearestRem_zero, bind_error']
  · intro hc
    simp only at hc
    have hcpos : 0 < c.natAbs := Int.natAbs_pos.mpr hc
    have hm : 0 < c.natAbs * b := Nat.mul_pos hcpos hb
    obtain ⟨rr, hR1, hR2⟩ := nearestRem_spec (a * d) _ hm
    have hDpos : 0 < b * d := Nat.mul_pos hb hd
    obtain ⟨r, hr1, hr2, hr3⟩ := xFromParts_spec rr _ hDpos
    refine ⟨r, ?_, hr2, ?_⟩
    · simp only [X.rem]
      rw [hR1]; exact hr1
    · rw [hr3]
      have hb0 : (b : ℚ) ≠ 0 := by exact_mod_cast hb.ne'
      have hd0 : (d : ℚ) ≠ 0 := by exact_mod_cast hd.ne'
      apply rem_bridge _ _ hm _ (by exact_mod_cast hDpos.ne') _ _ (sgn c) (sgn_cases c) _ _ rr hR2
      · simp only [Q.val_mk]; push_cast; field_simp
      · simp only [Q.val_mk]
        have hcabs := cast_eq_sgn_mul_natAbs c
        rw [hcabs]; push_cast; field_simp

-- ------------------------------------------------------------------ Euclidean division

theorem floor_int_div_pos (L R : ℤ) (h : 0 < R) : ⌊(L : ℚ) / R⌋ = L / R := by
  have : (R : ℚ) = ((R.toNat : ℕ) : ℚ) := by
    have := Int.toNat_of_nonneg h.le
    exact_mod_cast this.symm
  rw [this, Rat.floor_intCast_div_natCast, Int.toNat_of_nonneg h.le]

/-- `Spec.divEuclid` of two fractions over a common positive denominator is `Int.ediv` -/
theorem divEuclid_bridge (L R : ℤ) (hR : R ≠ 0) (D : ℚ) (hD : 0 < D) (x y : ℚ)
    (hx : x = L / D) (hy : y = R / D) : Spec.divEuclid x y = L / R := by
  unfold Spec.divEuclid
  rcases lt_or_gt_of_ne hR with h | h
  · have hyneg : ¬ (0 < y) := by
      rw [hy]; exact not_lt.mpr (div_nonpos_of_nonpos_of_nonneg (by exact_mod_cast h.le) hD.le)
    rw [if_neg hyneg, rat_floor_eq]
    have : x / -y = (L : ℚ) / ((-R : ℤ) : ℚ) := by
      rw [hx, hy]; push_cast; field_simp
    rw [this, floor_int_div_pos L (-R) (by omega), Int.ediv_neg, neg_neg]
  · have hypos : 0 < y := by rw [hy]; exact div_pos (by exact_mod_cast h) hD
    rw [if_pos hypos, rat_floor_eq]
    have : x / y = (L : ℚ) / (R : ℚ) := by
      rw [hx, hy]; field_simp
    rw [this, floor_int_div_pos L R h]

theorem remEuclid_bridge (L R : ℤ) (hR : R ≠ 0) (D : ℚ) (hD : 0 < D) (x y : ℚ)
    (hx : x = L / D) (hy : y = R / D) : ((L % R : ℤ) : ℚ) / D = Spec.remEuclid x y := by
  unfold Spec.remEuclid
  rw [divEuclid_bridge L R hR D hD x y hx hy, Int.emod_def, hx, hy]
  push_cast; field_simp

/-- `impl_euclid_div` (both types; only positivity of the denominators is used) -/
theorem divEuclid_spec (x y : Q) (hb : 0 < x.den) (hd : 0 < y.den) :
    (y.num = 0 → R.divEuclid x y = .error .divideByZero) ∧
    (y.num ≠ 0 → R.divEuclid x y = .ok (Spec.divEuclid x.val y.val)) := by
  obtain ⟨a, b⟩ := x
  obtain ⟨c, d⟩ := y
  simp only at hb hd
  constructor
  · intro h; simp only at h; simp [R.divEuclid, h]
  · intro hc
    simp only at hc
    have hbq : (0 : ℚ) < b := by exact_mod_cast hb
    have hdq : (0 : ℚ) < d := by exact_mod_cast hd
    have hR : (b : ℤ) * c ≠ 0 := mul_ne_zero (by exact_mod_cast hb.ne') hc
    simp only [R.divEuclid, if_neg hc, divEuclidK, if_neg hR]
    congr 1
    symm
    apply divEuclid_bridge (a * d) (b * c) hR ((b : ℚ) * d) (mul_pos hbq hdq)
    · simp only [Q.val_mk]; push_cast; field_simp
    · simp only [Q.val_mk]; push_cast; field_simp

/-- `impl_euclid_rem_with_rbig` -/
theorem R.remEuclid_spec (x y : Q) (hx : Reduced x) (hy : Reduced y) :
    (y.num = 0 → R.remEuclid x y = .error .divideByZero) ∧
    (y.num ≠ 0 → ∃ r, R.remEuclid x y = .ok r ∧ Reduced r ∧ r.val = Spec.remEuclid x.val y.val) := by
  obtain ⟨a, b⟩ := x
  obtain ⟨c, d⟩ := y
  have hb : 0 < b := hx.den_pos
  have hd : 0 < d := hy.den_pos
  have hgpos : 0 < Nat.gcd b d := Nat.gcd_pos_of_pos_left _ hb
  have hbg : b = Nat.gcd b d * (b / Nat.gcd b d) := (Nat.mul_div_cancel' (Nat.gcd_dvd_left b d)).symm
  have hdg : d = Nat.gcd b d * (d / Nat.gcd b d) := (Nat.mul_div_cancel' (Nat.gcd_dvd_right b d)).symm
  have hb'pos : 0 < b / Nat.gcd b d := Nat.div_pos (Nat.le_of_dvd hb (Nat.gcd_dvd_left _ _)) hgpos
  have hd'pos : 0 < d / Nat.gcd b d := Nat.div_pos (Nat.le_of_dvd hd (Nat.gcd_dvd_right _ _)) hgpos
  constructor
  · intro h
    simp only at h
    simp [R.remEuclid, gcdK_of_pos_right b hd, h, remEuclidK, bind_ok', bind_error']
  · intro hc
    simp only at hc
    have hR : ((b / Nat.gcd b d : ℕ) : ℤ) * c ≠ 0 := mul_ne_zero (by exact_mod_cast hb'pos.ne') hc
    have hDpos : 0 < b * (d / Nat.gcd b d) := Nat.mul_pos hb hd'pos
    obtain ⟨r, hr1, hr2, hr3⟩ := rFromParts_spec
      ((((d / Nat.gcd b d : ℕ) : ℤ) * a) % (((b / Nat.gcd b d : ℕ) : ℤ) * c)) _ hDpos
    refine ⟨r, ?_, hr2, ?_⟩
    · simp only [R.remEuclid, gcdK_of_pos_right b hd, bind_ok', remEuclidK, if_neg hR]
      exact hr1
    · rw [hr3]
      set g := Nat.gcd b d
      set b' := b / g
      set d' := d / g
      have e1 : (b : ℚ) = g * b' := by exact_mod_cast hbg
      have e2 : (d : ℚ) = g * d' := by exact_mod_cast hdg
      have hg0 : (g : ℚ) ≠ 0 := by exact_mod_cast hgpos.ne'
      have hb0 : (b' : ℚ) ≠ 0 := by exact_mod_cast hb'pos.ne'
      have hd0 : (d' : ℚ) ≠ 0 := by exact_mod_cast hd'pos.ne'
      apply remEuclid_bridge _ _ hR _ (by exact_mod_cast hDpos)
      · simp only [Q.val_mk]; push_cast; rw [e1]; field_simp
      · simp only [Q.val_mk]; push_cast; rw [e1, e2]; field_simp

/-- `impl_euclid_rem_with_relaxed` -/
theorem X.remEuclid_spec (x y : Q) (hx : RelaxedInv x) (hy : RelaxedInv y) :
    (y.num = 0 → X.remEuclid x y = .error .divideByZero) ∧
    (y.num ≠ 0 → ∃ r, X.remEuclid x y = .ok r ∧ RelaxedInv r ∧ r.val = Spec.remEuclid x.val y.val) := by
  obtain ⟨a, b⟩ := x
  obtain ⟨c, d⟩ := y
  have hb : 0 < b := hx.den_pos
  have hd : 0 < d := hy.den_pos
  constructor
  · intro h
    simp only at h
    simp [X.remEuclid, h, remEuclidK, bind_error']
  · intro hc
    simp only at hc
    have hR : c * (b : ℤ) ≠ 0 := mul_ne_zero hc (by exact_mod_cast hb.ne')
    have hDpos : 0 < b * d := Nat.mul_pos hb hd
    obtain ⟨r, hr1, hr2, hr3⟩ := xFromParts_spec ((a * (d : ℤ)) % (c * (b : ℤ))) _ hDpos
    refine ⟨r, ?_, hr2, ?_⟩
    · simp only [X.remEuclid, bind_ok', remEuclidK, if_neg hR]
      exact hr1
    · rw [hr3]
      have hb0 : (b : ℚ) ≠ 0 := by exact_mod_cast hb.ne'
      have hd0 : (d : ℚ) ≠ 0 := by exact_mod_cast hd.ne'
      apply remEuclid_bridge _ _ hR _ (by exact_mod_cast hDpos)
      · simp only [Q.val_mk]; push_cast; field_simp
      · simp only [Q.val_mk]; push_cast; field_simp

end Dashu.Model.Ratio
