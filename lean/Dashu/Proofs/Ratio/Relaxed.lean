import Dashu.Proofs.Ratio.Mul
import Mathlib.Algebra.Group.Int.Even
import Mathlib.Algebra.Group.Nat.Even
/-
  `Relaxed`: `reduce2` strips exactly the common power of two; every `Relaxed` operation returns
  the exact value and keeps the invariant "positive denominator, not both even".
-/
namespace Dashu.Model.Ratio
open Dashu.Model

/-- `tz n` is the exponent of the largest power of two dividing `n ≠ 0` -/
theorem tz_spec : ∀ n : ℕ, n ≠ 0 → 2 ^ tz n ∣ n ∧ ¬ 2 ^ (tz n + 1) ∣ n := by
  intro n
  induction n using Nat.strong_induction_on with
  | _ n ih =>
    intro hn
    rw [tz]
    simp only [hn, dite_false]
    by_cases hodd : n % 2 = 1
    · simp only [hodd, if_true]
      refine ⟨by simp, ?_⟩
      intro h
      have : 2 ∣ n := by simpa using h
      omega
    · simp only [hodd, if_false]
      have hlt : n / 2 < n := Nat.div_lt_self (Nat.pos_of_ne_zero hn) (by decide)
      have hne : n / 2 ≠ 0 := by omega
      obtain ⟨h1, h2⟩ := ih (n / 2) hlt hne
      have hn2 : n = 2 * (n / 2) := by omega
      constructor
      · rw [pow_succ]
        conv_rhs => rw [hn2]
        rw [mul_comm]
        exact Nat.mul_dvd_mul_left 2 h1
      · intro h
        apply h2
        rw [pow_succ] at h
        conv_rhs at h => rw [hn2]
        rw [mul_comm] at h
        exact Nat.dvd_of_mul_dvd_mul_left (by decide) h

theorem tz_odd_quot (n : ℕ) (hn : n ≠ 0) : (n / 2 ^ tz n) % 2 = 1 := by
  obtain ⟨h1, h2⟩ := tz_spec n hn
  generalize tz n = t at h1 h2 ⊢
  by_contra hc
  apply h2
  obtain ⟨k, hk⟩ := h1
  have hq : n / 2 ^ t = k := by
    rw [hk]; exact Nat.mul_div_cancel_left k (Nat.two_pow_pos _)
  rw [hq] at hc
  have : 2 ∣ k := by omega
  obtain ⟨j, hj⟩ := this
  exact ⟨j, by rw [hk, hj, pow_succ]; ring⟩

theorem RelaxedInv.den_pos {q : Q} (h : RelaxedInv q) : 0 < q.den := h.1

theorem relaxedInv_zero : RelaxedInv Q.zero := by decide

/-- a reduced pair is in particular a valid `Relaxed` pair (`RBig::relax`) -/
theorem Reduced.relaxedInv {q : Q} (h : Reduced q) : RelaxedInv q := by
  refine ⟨h.1, ?_⟩
  rintro ⟨h1, h2⟩
  have hn : 2 ∣ q.num.natAbs := by omega
  have hd : 2 ∣ q.den := by omega
  have := Nat.dvd_gcd hn hd
  rw [h.2] at this
  omega

/-- `Repr::reduce2` strips exactly the common power of two: the result times `2^k` is the input,
    and the result is not even/even any more; the value is unchanged. -/
theorem reduce2_spec (q : Q) (hd : 0 < q.den) :
    ∃ r, reduce2 q = .ok r ∧ RelaxedInv r ∧ r.val = q.val ∧
      (q.num ≠ 0 → ∃ k, q.num = r.num * 2 ^ k ∧ q.den = r.den * 2 ^ k) := by
  unfold reduce2
  by_cases h0 : q.num = 0
  · refine ⟨Q.zero, by simp [h0], relaxedInv_zero, ?_, fun h => absurd h0 h⟩
    simp [Q.val_def, Q.zero, h0]
  · rw [if_neg h0, if_neg (by omega)]
    have hn0 : q.num.natAbs ≠ 0 := by simpa using h0
    have hd0 : q.den ≠ 0 := by omega
    obtain ⟨hn1, hn2⟩ := tz_spec _ hn0
    obtain ⟨hd1, hd2⟩ := tz_spec _ hd0
    set z := min (tz q.num.natAbs) (tz q.den) with hz
    have hzn : 2 ^ z ∣ q.num.natAbs := (pow_dvd_pow 2 (min_le_left _ _)).trans hn1
    have hzd : 2 ^ z ∣ q.den := (pow_dvd_pow 2 (min_le_right _ _)).trans hd1
    have hznZ : ((2 ^ z : ℕ) : ℤ) ∣ q.num := natCast_dvd_of_dvd_natAbs hzn
    have hp : 0 < 2 ^ z := Nat.two_pow_pos z
    -- the shifted pair
    have hnum : q.num >>> z = Int.tdiv q.num ((2 ^ z : ℕ) : ℤ) := by
      rw [Int.shiftRight_eq_div_pow, Int.tdiv_eq_ediv_of_dvd hznZ]
    have hden : q.den >>> z = q.den / 2 ^ z := Nat.shiftRight_eq_div_pow _ _
    have hv : (⟨q.num >>> z, q.den >>> z⟩ : Q).val = q.val := by
      rw [hnum, hden]; exact val_div_common _ _ _ hp hznZ hzd
    have hk : q.num = (q.num >>> z) * 2 ^ z ∧ q.den = (q.den >>> z) * 2 ^ z := by
      rw [hnum, hden]
      constructor
      · rw [Int.tdiv_eq_ediv_of_dvd hznZ]
        have := Int.ediv_mul_cancel hznZ
        push_cast at this ⊢
        exact this.symm
      · exact (Nat.div_mul_cancel hzd).symm
    have hinv : RelaxedInv ⟨q.num >>> z, q.den >>> z⟩ := by
      refine ⟨?_, ?_⟩
      · show 0 < q.den >>> z
        rw [hden]; exact Nat.div_pos (Nat.le_of_dvd hd hzd) hp
      · rintro ⟨e1, e2⟩
        simp only at e1 e2
        rcases le_total (tz q.num.natAbs) (tz q.den) with hle | hle
        · have hzeq : z = tz q.num.natAbs := by rw [hz]; exact min_eq_left hle
          have hodd := tz_odd_quot _ hn0
          rw [← hzeq] at hodd
          have : (q.num >>> z).natAbs = q.num.natAbs / 2 ^ z := by
            rw [hnum, natAbs_tdiv_nat]
          have h2 : (q.num >>> z).natAbs % 2 = 0 := by omega
          rw [this] at h2
          omega
        · have hzeq : z = tz q.den := by rw [hz]; exact min_eq_right hle
          have hodd := tz_odd_quot _ hd0
          rw [← hzeq] at hodd
          rw [hden] at e2
          omega
    by_cases hzpos : z > 0
    · rw [if_pos hzpos]
      exact ⟨_, rfl, hinv, hv, fun _ => ⟨z, hk⟩⟩
    · rw [if_neg hzpos]
      have hz0 : z = 0 := by omega
      refine ⟨q, rfl, ?_, rfl, fun _ => ⟨0, by simp⟩⟩
      have : (⟨q.num >>> z, q.den >>> z⟩ : Q) = q := by
        rw [hz0]; cases q; simp
      rw [this] at hinv
      exact hinv

/-- `Relaxed::from_parts` -/
theorem xFromParts_spec (n : ℤ) (d : ℕ) (hd : 0 < d) :
    ∃ r, xFromParts n d = .ok r ∧ RelaxedInv r ∧ r.val = (n : ℚ) / (d : ℚ) := by
  unfold xFromParts
  rw [if_neg (by omega)]
  obtain ⟨r, h1, h2, h3, _⟩ := reduce2_spec ⟨n, d⟩ hd
  exact ⟨r, h1, h2, h3⟩

-- ------------------------------------------------------------------ operations

theorem X.addSub_spec (sub : Bool) (x y : Q) (hx : RelaxedInv x) (hy : RelaxedInv y) :
    ∃ r, X.addSub sub x y = .ok r ∧ RelaxedInv r ∧
      r.val = if sub then x.val - y.val else x.val + y.val := by
  have hb : (x.den : ℚ) ≠ 0 := by exact_mod_cast hx.den_pos.ne'
  have hd : (y.den : ℚ) ≠ 0 := by exact_mod_cast hy.den_pos.ne'
  obtain ⟨r, h1, h2, h3⟩ := xFromParts_spec
    (if sub then x.num * y.den - y.num * x.den else x.num * y.den + y.num * x.den)
    (x.den * y.den) (Nat.mul_pos hx.den_pos hy.den_pos)
  refine ⟨r, h1, h2, ?_⟩
  rw [h3]
  cases sub <;> simp [Q.val_def] <;> field_simp

theorem X.mul_spec (x y : Q) (hx : RelaxedInv x) (hy : RelaxedInv y) :
    ∃ r, X.mul x y = .ok r ∧ RelaxedInv r ∧ r.val = x.val * y.val := by
  have hb : (x.den : ℚ) ≠ 0 := by exact_mod_cast hx.den_pos.ne'
  have hd : (y.den : ℚ) ≠ 0 := by exact_mod_cast hy.den_pos.ne'
  obtain ⟨r, h1, h2, h3⟩ := xFromParts_spec (x.num * y.num) (x.den * y.den)
    (Nat.mul_pos hx.den_pos hy.den_pos)
  refine ⟨r, h1, h2, ?_⟩
  rw [h3]; simp [Q.val_def]; field_simp

theorem X.mulInt_spec (x : Q) (i : ℤ) (hx : RelaxedInv x) :
    ∃ r, X.mulInt x i = .ok r ∧ RelaxedInv r ∧ r.val = x.val * i := by
  have hb : (x.den : ℚ) ≠ 0 := by exact_mod_cast hx.den_pos.ne'
  obtain ⟨r, h1, h2, h3⟩ := xFromParts_spec (x.num * i) x.den hx.den_pos
  refine ⟨r, h1, h2, ?_⟩
  rw [h3]; simp [Q.val_def]; field_simp

theorem X.div_spec (x y : Q) (hx : RelaxedInv x) (hy : RelaxedInv y) :
    (y.num = 0 → X.div x y = .error .divideByZero) ∧
    (y.num ≠ 0 → ∃ r, X.div x y = .ok r ∧ RelaxedInv r ∧ r.val = x.val / y.val) := by
  constructor
  · intro h; simp [X.div, h]
  · intro hc
    have hcpos : 0 < y.num.natAbs := Int.natAbs_pos.mpr hc
    have hb : (x.den : ℚ) ≠ 0 := by exact_mod_cast hx.den_pos.ne'
    have hd : (y.den : ℚ) ≠ 0 := by exact_mod_cast hy.den_pos.ne'
    have h5 : (y.num : ℚ) ≠ 0 := by exact_mod_cast hc
    have h6 := sgn_cast_ne_zero y.num
    obtain ⟨r, h1, h2, h3⟩ := xFromParts_spec (x.num * y.den * sgn y.num) (x.den * y.num.natAbs)
      (Nat.mul_pos hx.den_pos hcpos)
    refine ⟨r, by simp only [X.div, if_neg hc]; exact h1, h2, ?_⟩
    rw [h3]
    simp only [Q.val_def, Int.cast_mul, Int.cast_natCast, Nat.cast_mul, natAbs_cast_eq]
    field_simp

theorem X.divInt_spec (x : Q) (i : ℤ) (hx : RelaxedInv x) :
    (i = 0 → X.divInt x i = .error .divideByZero) ∧
    (i ≠ 0 → ∃ r, X.divInt x i = .ok r ∧ RelaxedInv r ∧ r.val = x.val / i) := by
  constructor
  · intro h; simp [X.divInt, h]
  · intro hi
    have hipos : 0 < i.natAbs := Int.natAbs_pos.mpr hi
    have hb : (x.den : ℚ) ≠ 0 := by exact_mod_cast hx.den_pos.ne'
    have h5 : (i : ℚ) ≠ 0 := by exact_mod_cast hi
    have h6 := sgn_cast_ne_zero i
    obtain ⟨r, h1, h2, h3⟩ := xFromParts_spec (x.num * sgn i) (x.den * i.natAbs)
      (Nat.mul_pos hx.den_pos hipos)
    refine ⟨r, by simp only [X.divInt, if_neg hi]; exact h1, h2, ?_⟩
    rw [h3]
    simp only [Q.val_def, Int.cast_mul, Nat.cast_mul, natAbs_cast_eq]
    field_simp

theorem X.intDiv_spec (i : ℤ) (x : Q) (hx : RelaxedInv x) :
    (x.num = 0 → X.intDiv i x = .error .divideByZero) ∧
    (x.num ≠ 0 → ∃ r, X.intDiv i x = .ok r ∧ RelaxedInv r ∧ r.val = i / x.val) := by
  constructor
  · intro h; simp [X.intDiv, h]
  · intro ha
    have hapos : 0 < x.num.natAbs := Int.natAbs_pos.mpr ha
    have hb : (x.den : ℚ) ≠ 0 := by exact_mod_cast hx.den_pos.ne'
    have h5 : (x.num : ℚ) ≠ 0 := by exact_mod_cast ha
    have h6 := sgn_cast_ne_zero x.num
    obtain ⟨r, h1, h2, h3⟩ := xFromParts_spec (x.den * i * sgn x.num) x.num.natAbs hapos
    refine ⟨r, by simp only [X.intDiv, if_neg ha]; exact h1, h2, ?_⟩
    rw [h3]
    simp only [Q.val_def, Int.cast_mul, Int.cast_natCast, natAbs_cast_eq]
    field_simp

theorem emod_two_add_mul (a b i : ℤ) (hb : b % 2 = 0) : (a + b * i) % 2 = a % 2 := by
  have : (2 : ℤ) ∣ b * i := Dvd.dvd.mul_right (Int.dvd_of_emod_eq_zero hb) i
  rw [Int.add_emod, Int.emod_eq_zero_of_dvd this]; simp

/-- `impl_addsub_int_with_relaxed` (no `reduce2` call: the parity pattern is preserved) -/
theorem X.addSubInt_spec (sub : Bool) (x : Q) (i : ℤ) (hx : RelaxedInv x) :
    RelaxedInv (X.addSubInt sub x i) ∧
      (X.addSubInt sub x i).val = if sub then x.val - i else x.val + i := by
  obtain ⟨a, b⟩ := x
  have hb0 : (b : ℚ) ≠ 0 := by exact_mod_cast hx.den_pos.ne'
  constructor
  · refine ⟨hx.1, ?_⟩
    rintro ⟨e1, e2⟩
    apply hx.2
    change b % 2 = 0 at e2
    have e2' : (b : ℤ) % 2 = 0 := by omega
    refine ⟨?_, e2⟩
    cases sub
    · simp only [X.addSubInt, Bool.false_eq_true, if_false] at e1
      rwa [emod_two_add_mul a b i e2'] at e1
    · simp only [X.addSubInt, if_true] at e1
      have := emod_two_add_mul a b (-i) e2'
      rw [mul_neg, ← sub_eq_add_neg] at this
      rwa [this] at e1
  · cases sub <;> simp [X.addSubInt] <;> field_simp

theorem X.intSub_spec (i : ℤ) (x : Q) (hx : RelaxedInv x) :
    RelaxedInv (X.intSub i x) ∧ (X.intSub i x).val = i - x.val := by
  obtain ⟨a, b⟩ := x
  have hb0 : (b : ℚ) ≠ 0 := by exact_mod_cast hx.den_pos.ne'
  constructor
  · refine ⟨hx.1, ?_⟩
    rintro ⟨e1, e2⟩
    apply hx.2
    change b % 2 = 0 at e2
    have e2' : (b : ℤ) % 2 = 0 := by omega
    refine ⟨?_, e2⟩
    simp only [X.intSub] at e1
    have := emod_two_add_mul (-a) b i e2'
    have e3 : (b : ℤ) * i - a = -a + b * i := by ring
    rw [e3, this] at e1
    simp only
    omega
  · simp [X.intSub]; field_simp

theorem relaxed_neg (x : Q) (hx : RelaxedInv x) : RelaxedInv (neg x) ∧ (neg x).val = -x.val := by
  refine ⟨⟨hx.1, ?_⟩, by simp [neg, Q.val_def, neg_div]⟩
  rintro ⟨e1, e2⟩
  apply hx.2
  simp only [neg] at e1 e2
  exact ⟨by omega, e2⟩

theorem relaxed_abs (x : Q) (hx : RelaxedInv x) : RelaxedInv (abs x) ∧ (abs x).val = |x.val| := by
  refine ⟨⟨hx.1, ?_⟩, ?_⟩
  · rintro ⟨e1, e2⟩
    apply hx.2
    simp only [abs] at e1 e2
    exact ⟨by omega, e2⟩
  · have hb : (0 : ℚ) < x.den := by exact_mod_cast hx.den_pos
    have e : ((x.num.natAbs : ℤ) : ℚ) = |(x.num : ℚ)| := by rw [Int.natCast_natAbs, Int.cast_abs]
    simp only [abs, Q.val_def, abs_div, abs_of_pos hb, e]

theorem relaxed_mulSign (x : Q) (s : Bool) (hx : RelaxedInv x) :
    RelaxedInv (mulSign x s) ∧ (mulSign x s).val = if s then -x.val else x.val := by
  cases s
  · exact ⟨by simpa [RelaxedInv, mulSign] using hx, by simp [mulSign, Q.val_def]⟩
  · refine ⟨⟨hx.1, ?_⟩, by simp [mulSign, Q.val_def, neg_div]⟩
    rintro ⟨e1, e2⟩
    apply hx.2
    simp only [mulSign, if_true] at e1 e2
    exact ⟨by omega, e2⟩

theorem relaxed_signum (x : Q) : RelaxedInv (signum x) := by
  refine ⟨by simp [signum], ?_⟩
  simp [signum]

theorem relaxed_inv (x : Q) (hx : RelaxedInv x) :
    (x.num = 0 → inv x = .error .divideByZero) ∧
    (x.num ≠ 0 → ∃ r, inv x = .ok r ∧ RelaxedInv r ∧ r.val = 1 / x.val) := by
  obtain ⟨a, b⟩ := x
  have hb : 0 < b := hx.den_pos
  constructor
  · intro h; simp only at h; simp [inv, h]
  · intro ha
    simp only at ha
    have hapos : 0 < a.natAbs := Int.natAbs_pos.mpr ha
    unfold inv
    simp only [if_neg ha]
    refine ⟨_, rfl, ⟨hapos, ?_⟩, ?_⟩
    · rintro ⟨e1, e2⟩
      apply hx.2
      change (sgn a * (b : ℤ)) % 2 = 0 at e1
      change a.natAbs % 2 = 0 at e2
      change a % 2 = 0 ∧ b % 2 = 0
      constructor
      · omega
      · unfold sgn at e1
        split at e1 <;> omega
    · simp only [Q.val_mk]
      push_cast
      rw [natAbs_cast_eq]
      have h3 : (b : ℚ) ≠ 0 := by exact_mod_cast hb.ne'
      have h5 : (a : ℚ) ≠ 0 := by exact_mod_cast ha
      have h6 := sgn_cast_ne_zero a
      field_simp

theorem relaxed_pow (x : Q) (n : ℕ) (hx : RelaxedInv x) :
    RelaxedInv (pow x n) ∧ (pow x n).val = x.val ^ n := by
  obtain ⟨a, b⟩ := x
  rw [pow_def]
  refine ⟨⟨Nat.pow_pos hx.den_pos, ?_⟩, by simp [div_pow]⟩
  rintro ⟨e1, e2⟩
  apply hx.2
  simp only at e1 e2
  have h1 : Even (a ^ n) := Int.even_iff.mpr e1
  have h2 : Even (b ^ n) := Nat.even_iff.mpr e2
  rw [Int.even_pow] at h1
  rw [Nat.even_pow] at h2
  exact ⟨Int.even_iff.mp h1.1, Nat.even_iff.mp h2.1⟩

end Dashu.Model.Ratio
