import Dashu.Proofs.Ratio.Basic
/-
  `rational/src/add.rs`: `a/b ± c/d` through `g = gcd(b, d)`.
  Key fact (`addsub_gcd_dvd`): with `b = g·b'`, `d = g·d'`, the only common factor the pair
  `(d'·a ± b'·c, b·d')` can still have divides `g` — which is why `reduce_with_hint g` (a gcd with
  the small number `g` instead of with the big numerator/denominator) is a full reduction, and why
  nothing has to be reduced at all when `g = 1`.
-/
namespace Dashu.Model.Ratio
open Dashu.Model

/-- the remaining common factor of the un-reduced sum divides the gcd of the denominators -/
theorem addsub_gcd_dvd (a c : ℤ) (b d : ℕ) (hb : 0 < b) (hd : 0 < d)
    (hab : IsCoprime a (b : ℤ)) (hcd : IsCoprime c (d : ℤ)) (s : ℤ) (hs : s = 1 ∨ s = -1) :
    Nat.gcd (((d / Nat.gcd b d : ℕ) : ℤ) * a + s * (((b / Nat.gcd b d : ℕ) : ℤ) * c)).natAbs
      (b * (d / Nat.gcd b d)) ∣ Nat.gcd b d := by
  set g := Nat.gcd b d with hg
  have hgpos : 0 < g := Nat.gcd_pos_of_pos_left _ hb
  set b' := b / g with hb'
  set d' := d / g with hd'
  have hbg : b = g * b' := (Nat.mul_div_cancel' (Nat.gcd_dvd_left b d)).symm
  have hdg : d = g * d' := (Nat.mul_div_cancel' (Nat.gcd_dvd_right b d)).symm
  have hcop : Nat.Coprime b' d' := Nat.coprime_div_gcd_div_gcd hgpos
  have hcopZ : IsCoprime (b' : ℤ) (d' : ℤ) := Nat.isCoprime_iff_coprime.mpr hcop
  -- a is coprime to b' (a divisor of b), c to d'
  have hab' : IsCoprime a (b' : ℤ) :=
    hab.of_isCoprime_of_dvd_right ⟨(g : ℤ), by rw [hbg]; push_cast; ring⟩
  have hcd' : IsCoprime c (d' : ℤ) :=
    hcd.of_isCoprime_of_dvd_right ⟨(g : ℤ), by rw [hdg]; push_cast; ring⟩
  set N : ℤ := (d' : ℤ) * a + s * ((b' : ℤ) * c) with hN
  -- N is coprime to b' and to d'
  have hNb : IsCoprime N (b' : ℤ) := by
    have h1 : IsCoprime ((d' : ℤ) * a) (b' : ℤ) := IsCoprime.mul_left hcopZ.symm hab'
    have := h1.add_mul_left_left (s * c)
    have e : N = (d' : ℤ) * a + (b' : ℤ) * (s * c) := by rw [hN]; ring
    rw [e]; exact this
  have hNd : IsCoprime N (d' : ℤ) := by
    have hsu : IsUnit s := by rcases hs with h | h <;> simp [h]
    have h1 : IsCoprime (s * ((b' : ℤ) * c)) (d' : ℤ) :=
      (isCoprime_mul_unit_left_left hsu _ _).mpr (IsCoprime.mul_left hcopZ hcd')
    have := h1.add_mul_left_left a
    have e : N = s * ((b' : ℤ) * c) + (d' : ℤ) * a := by rw [hN]; ring
    rw [e]; exact this
  have hNb' : Nat.Coprime N.natAbs b' := by
    have := Int.isCoprime_iff_gcd_eq_one.mp hNb
    rwa [Int.gcd_eq_natAbs_gcd_natAbs, Int.natAbs_natCast] at this
  have hNd' : Nat.Coprime N.natAbs d' := by
    have := Int.isCoprime_iff_gcd_eq_one.mp hNd
    rwa [Int.gcd_eq_natAbs_gcd_natAbs, Int.natAbs_natCast] at this
  -- p = gcd(N, g b' d') is coprime to b' and d', hence divides g
  set p := Nat.gcd N.natAbs (b * d') with hp
  have hpN : p ∣ N.natAbs := Nat.gcd_dvd_left _ _
  have hpD : p ∣ g * b' * d' := by
    have : p ∣ b * d' := Nat.gcd_dvd_right _ _
    rwa [hbg] at this
  have hpb : Nat.Coprime p b' := Nat.Coprime.coprime_dvd_left hpN hNb'
  have hpd : Nat.Coprime p d' := Nat.Coprime.coprime_dvd_left hpN hNd'
  have h1 : p ∣ g * b' := hpd.dvd_of_dvd_mul_right hpD
  exact hpb.dvd_of_dvd_mul_right h1

/-- value of `a/b ± c/d` written over the denominator `b·d/g` -/
theorem addsub_val (a c : ℤ) (b d : ℕ) (hb : 0 < b) (hd : 0 < d) (s : ℤ) :
    ((((d / Nat.gcd b d : ℕ) : ℤ) * a + s * (((b / Nat.gcd b d : ℕ) : ℤ) * c) : ℤ) : ℚ)
      / ((b * (d / Nat.gcd b d) : ℕ) : ℚ) = (a : ℚ) / b + s * ((c : ℚ) / d) := by
  set g := Nat.gcd b d with hg
  have hgpos : 0 < g := Nat.gcd_pos_of_pos_left _ hb
  have hbg : b = g * (b / g) := (Nat.mul_div_cancel' (Nat.gcd_dvd_left b d)).symm
  have hdg : d = g * (d / g) := (Nat.mul_div_cancel' (Nat.gcd_dvd_right b d)).symm
  set b' := b / g
  set d' := d / g
  have hb'pos : 0 < b' := Nat.pos_of_mul_pos_left (hbg ▸ hb)
  have hd'pos : 0 < d' := Nat.pos_of_mul_pos_left (hdg ▸ hd)
  have e1 : (b : ℚ) = g * b' := by exact_mod_cast hbg
  have e2 : (d : ℚ) = g * d' := by exact_mod_cast hdg
  have hg0 : (g : ℚ) ≠ 0 := by exact_mod_cast hgpos.ne'
  have hb0 : (b' : ℚ) ≠ 0 := by exact_mod_cast hb'pos.ne'
  have hd0 : (d' : ℚ) ≠ 0 := by exact_mod_cast hd'pos.ne'
  push_cast
  rw [e1, e2]
  field_simp

/-- `impl_add_or_sub_with_rbig`: for reduced operands the result is reduced and exact -/
theorem R.addSub_spec (sub : Bool) (x y : Q) (hx : Reduced x) (hy : Reduced y) :
    ∃ r, R.addSub sub x y = .ok r ∧ Reduced r ∧
      r.val = if sub then x.val - y.val else x.val + y.val := by
  obtain ⟨a, b⟩ := x
  obtain ⟨c, d⟩ := y
  have hb : 0 < b := hx.den_pos
  have hd : 0 < d := hy.den_pos
  have hab : IsCoprime a (b : ℤ) := hx.isCoprime
  have hcd : IsCoprime c (d : ℤ) := hy.isCoprime
  set s : ℤ := if sub then -1 else 1 with hs
  have hs' : s = 1 ∨ s = -1 := by cases sub <;> simp [hs]
  have hdvd := addsub_gcd_dvd a c b d hb hd hab hcd s hs'
  have hval := addsub_val a c b d hb hd s
  have hgpos : 0 < Nat.gcd b d := Nat.gcd_pos_of_pos_left _ hb
  have hd'pos : 0 < d / Nat.gcd b d :=
    Nat.div_pos (Nat.le_of_dvd hd (Nat.gcd_dvd_right _ _)) hgpos
  have hnum : (if sub then ((d / Nat.gcd b d : ℕ) : ℤ) * a - ((b / Nat.gcd b d : ℕ) : ℤ) * c
      else ((d / Nat.gcd b d : ℕ) : ℤ) * a + ((b / Nat.gcd b d : ℕ) : ℤ) * c)
      = ((d / Nat.gcd b d : ℕ) : ℤ) * a + s * (((b / Nat.gcd b d : ℕ) : ℤ) * c) := by
    cases sub <;> simp [hs] <;> ring
  have hrhs : (if sub then (a : ℚ) / b - (c : ℚ) / d else (a : ℚ) / b + (c : ℚ) / d)
      = (a : ℚ) / b + s * ((c : ℚ) / d) := by
    cases sub <;> simp [hs] <;> ring
  unfold R.addSub
  simp only [gcdK_of_pos_right b hd, bind_ok', Q.val_mk]
  rw [hrhs]
  by_cases hg1 : Nat.gcd b d = 1
  · -- coprime denominators: no reduction needed
    rw [if_pos hg1]
    rw [hg1] at hdvd hval
    simp only [Nat.div_one] at hdvd hval
    refine ⟨_, rfl, ⟨Nat.mul_pos hb hd, ?_⟩, ?_⟩
    · have : (if sub then a * (d : ℤ) - c * (b : ℤ) else a * (d : ℤ) + c * (b : ℤ))
          = (d : ℤ) * a + s * ((b : ℤ) * c) := by cases sub <;> simp [hs] <;> ring
      simp only [this]
      exact Nat.eq_one_of_dvd_one hdvd
    · have : (if sub then a * (d : ℤ) - c * (b : ℤ) else a * (d : ℤ) + c * (b : ℤ))
          = (d : ℤ) * a + s * ((b : ℤ) * c) := by cases sub <;> simp [hs] <;> ring
      simp only [Q.val_mk, this]
      exact hval
  · rw [if_neg hg1]
    simp only [hnum]
    obtain ⟨r, hr, hred, hv⟩ := reduceWithHint_spec
      ⟨((d / Nat.gcd b d : ℕ) : ℤ) * a + s * (((b / Nat.gcd b d : ℕ) : ℤ) * c), b * (d / Nat.gcd b d)⟩
      (Nat.gcd b d) (Nat.mul_pos hb hd'pos) hgpos hdvd
    exact ⟨r, hr, hred, by rw [hv]; exact hval⟩

theorem R.add_spec (x y : Q) (hx : Reduced x) (hy : Reduced y) :
    ∃ r, R.add x y = .ok r ∧ Reduced r ∧ r.val = x.val + y.val := by
  simpa [R.add] using R.addSub_spec false x y hx hy

theorem R.sub_spec (x y : Q) (hx : Reduced x) (hy : Reduced y) :
    ∃ r, R.sub x y = .ok r ∧ Reduced r ∧ r.val = x.val - y.val := by
  simpa [R.sub] using R.addSub_spec true x y hx hy

/-- `impl_addsub_int_with_rbig`: `gcd(a ± b·i, b) = gcd(a, b)` -/
theorem R.addSubInt_spec (sub : Bool) (x : Q) (i : ℤ) (hx : Reduced x) :
    Reduced (R.addSubInt sub x i) ∧
      (R.addSubInt sub x i).val = if sub then x.val - i else x.val + i := by
  obtain ⟨a, b⟩ := x
  have hb : 0 < b := hx.den_pos
  have hab : IsCoprime a (b : ℤ) := hx.isCoprime
  have hb0 : (b : ℚ) ≠ 0 := by exact_mod_cast hb.ne'
  constructor
  · rw [reduced_iff_isCoprime]
    refine ⟨hb, ?_⟩
    cases sub
    · simpa [R.addSubInt] using hab.add_mul_left_left i
    · have := hab.add_mul_left_left (-i)
      simpa [R.addSubInt, sub_eq_add_neg] using this
  · cases sub <;> simp [R.addSubInt] <;> field_simp

/-- `impl_int_sub_rbig` -/
theorem R.intSub_spec (i : ℤ) (x : Q) (hx : Reduced x) :
    Reduced (R.intSub i x) ∧ (R.intSub i x).val = i - x.val := by
  obtain ⟨a, b⟩ := x
  have hb : 0 < b := hx.den_pos
  have hab : IsCoprime a (b : ℤ) := hx.isCoprime
  have hb0 : (b : ℚ) ≠ 0 := by exact_mod_cast hb.ne'
  constructor
  · rw [reduced_iff_isCoprime]
    refine ⟨hb, ?_⟩
    have h1 : IsCoprime (-a) (b : ℤ) := hab.neg_left
    have := h1.add_mul_left_left i
    simpa [R.intSub, sub_eq_add_neg, add_comm] using this
  · simp [R.intSub]; field_simp

end Dashu.Model.Ratio
