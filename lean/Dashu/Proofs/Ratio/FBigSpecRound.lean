import Dashu.Proofs.Ratio.FBigSet
import Dashu.Proofs.Float.Value
import Dashu.Proofs.Float.Digits
/-
  C18 ↔ C03: `RoundsTo` (the rounding relation of the FBig clause of C18) is builder-float's
  `Float.specRound`: the identity `ulpExp B p x = t − p` for the binade `t` of `|x|`
  (`ilogQ` is the floor of `log_B`).
-/
namespace Dashu.Model.Ratio
open Dashu.Model Dashu.Model.Float

theorem natpow_cast_zpow (B : ℕ) (k : ℤ) (hk : 0 ≤ k) : ((B ^ k.toNat : ℕ) : ℚ) = (B : ℚ) ^ k := by
  conv_rhs => rw [← Int.toNat_of_nonneg hk]
  rw [zpow_natCast]; push_cast; rfl

/-- **`ilogQ B n d = ⌊log_B (n/d)⌋`** for positive `n`, `d` and every base `B ≥ 2` -/
theorem ilogQ_spec (B : ℕ) (hB : 2 ≤ B) (n d : ℕ) (hn : 0 < n) (hd : 0 < d) :
    (B : ℚ) ^ (ilogQ B n d) ≤ (n : ℚ) / d ∧ (n : ℚ) / d < (B : ℚ) ^ (ilogQ B n d + 1) := by
  obtain ⟨hn0, hn1, hn2⟩ := digits_spec B hB n hn
  obtain ⟨hd0, hd1, hd2⟩ := digits_spec B hB d hd
  have hB0 : (B : ℚ) ≠ 0 := by exact_mod_cast (by omega : B ≠ 0)
  have hdq : (0 : ℚ) < d := by exact_mod_cast hd
  obtain ⟨a, ha⟩ : ∃ a, digits B n = a + 1 := ⟨digits B n - 1, by omega⟩
  obtain ⟨c, hc⟩ : ∃ c, digits B d = c + 1 := ⟨digits B d - 1, by omega⟩
  rw [ha] at hn1 hn2; rw [hc] at hd1 hd2
  simp only [Nat.add_sub_cancel] at hn1 hd1
  have Hn1 : (B : ℚ) ^ (a : ℤ) ≤ n := by rw [zpow_natCast]; exact_mod_cast hn1
  have Hn2 : (n : ℚ) < (B : ℚ) ^ ((a : ℤ) + 1) := by
    rw [show ((a : ℤ) + 1) = ((a + 1 : ℕ) : ℤ) by push_cast; rfl, zpow_natCast]; exact_mod_cast hn2
  have Hd1 : (B : ℚ) ^ (c : ℤ) ≤ d := by rw [zpow_natCast]; exact_mod_cast hd1
  have Hd2 : (d : ℚ) < (B : ℚ) ^ ((c : ℤ) + 1) := by
    rw [show ((c : ℤ) + 1) = ((c + 1 : ℕ) : ℤ) by push_cast; rfl, zpow_natCast]; exact_mod_cast hd2
  have hpos : ∀ k : ℤ, (0 : ℚ) < (B : ℚ) ^ k := fun k => zpow_pos (by exact_mod_cast (by omega : 0 < B)) k
  have hk0 : ((digits B n : ℤ) - (digits B d : ℤ)) = (a : ℤ) - c := by rw [ha, hc]; push_cast; ring
  unfold ilogQ
  simp only [hk0]
  -- two generic product facts
  have up : ∀ k : ℤ, k + c = a → (n : ℚ) < (B : ℚ) ^ (k + 1) * d := by
    intro k hk
    calc (n : ℚ) < (B : ℚ) ^ ((a : ℤ) + 1) := Hn2
      _ = (B : ℚ) ^ (k + 1) * (B : ℚ) ^ (c : ℤ) := by rw [← zpow_add₀ hB0]; congr 1; omega
      _ ≤ (B : ℚ) ^ (k + 1) * d := by apply mul_le_mul_of_nonneg_left Hd1 (hpos _).le
  have dn : ∀ k : ℤ, k + c = a → (B : ℚ) ^ (k - 1) * d ≤ n := by
    intro k hk
    calc (B : ℚ) ^ (k - 1) * d ≤ (B : ℚ) ^ (k - 1) * (B : ℚ) ^ ((c : ℤ) + 1) :=
          mul_le_mul_of_nonneg_left Hd2.le (hpos _).le
      _ = (B : ℚ) ^ (a : ℤ) := by rw [← zpow_add₀ hB0]; congr 1; omega
      _ ≤ n := Hn1
  have hk : ((a : ℤ) - c) + c = a := by ring
  by_cases hge : (a : ℤ) - c ≥ 0
  · simp only [hge, if_true]
    by_cases hcond : B ^ ((a : ℤ) - c).toNat * d ≤ n
    · simp only [hcond, if_true]
      have hq : (B : ℚ) ^ ((a : ℤ) - c) * d ≤ n := by
        rw [← natpow_cast_zpow B _ hge]; exact_mod_cast hcond
      exact ⟨(le_div_iff₀ hdq).mpr hq, (div_lt_iff₀ hdq).mpr (up _ hk)⟩
    · simp only [hcond, if_false]
      have hq : (n : ℚ) < (B : ℚ) ^ ((a : ℤ) - c) * d := by
        rw [← natpow_cast_zpow B _ hge]; exact_mod_cast (not_le.mp hcond)
      refine ⟨(le_div_iff₀ hdq).mpr (dn _ hk), (div_lt_iff₀ hdq).mpr ?_⟩
      rw [sub_add_cancel]; exact hq
  · simp only [hge, if_false]
    have hneg : 0 ≤ -((a : ℤ) - c) := by omega
    have hinv : (B : ℚ) ^ ((a : ℤ) - c) * (B : ℚ) ^ (-((a : ℤ) - c)) = 1 := by
      rw [← zpow_add₀ hB0]; simp
    by_cases hcond : d ≤ B ^ (-((a : ℤ) - c)).toNat * n
    · simp only [hcond, if_true]
      have hq : (d : ℚ) ≤ (B : ℚ) ^ (-((a : ℤ) - c)) * n := by
        rw [← natpow_cast_zpow B _ hneg]; exact_mod_cast hcond
      have hq' : (B : ℚ) ^ ((a : ℤ) - c) * d ≤ n := by
        calc (B : ℚ) ^ ((a : ℤ) - c) * d ≤ (B : ℚ) ^ ((a : ℤ) - c) * ((B : ℚ) ^ (-((a : ℤ) - c)) * n) :=
              mul_le_mul_of_nonneg_left hq (hpos _).le
          _ = n := by rw [← mul_assoc, hinv, one_mul]
      exact ⟨(le_div_iff₀ hdq).mpr hq', (div_lt_iff₀ hdq).mpr (up _ hk)⟩
    · simp only [hcond, if_false]
      have hq : (B : ℚ) ^ (-((a : ℤ) - c)) * n < d := by
        rw [← natpow_cast_zpow B _ hneg]; exact_mod_cast (not_le.mp hcond)
      have hq' : (n : ℚ) < (B : ℚ) ^ ((a : ℤ) - c) * d := by
        calc (n : ℚ) = (B : ℚ) ^ ((a : ℤ) - c) * ((B : ℚ) ^ (-((a : ℤ) - c)) * n) := by
              rw [← mul_assoc, hinv, one_mul]
          _ < (B : ℚ) ^ ((a : ℤ) - c) * d := mul_lt_mul_of_pos_left hq (hpos _)
      refine ⟨(le_div_iff₀ hdq).mpr (dn _ hk), (div_lt_iff₀ hdq).mpr ?_⟩
      rw [sub_add_cancel]; exact hq'

/-- the binade of a positive rational is unique -/
theorem zbinade_unique (b : ℕ) (hb : 2 ≤ b) (y : ℚ) (t i : ℤ) (h1 : (b : ℚ) ^ (t - 1) ≤ y)
    (h2 : y < (b : ℚ) ^ t) (h3 : (b : ℚ) ^ i ≤ y) (h4 : y < (b : ℚ) ^ (i + 1)) : t - 1 = i := by
  have hb1 : (1 : ℚ) < b := by exact_mod_cast (by omega : 1 < b)
  have a := (zpow_lt_zpow_iff_right₀ hb1).mp (lt_of_le_of_lt h1 h4)
  have c := (zpow_lt_zpow_iff_right₀ hb1).mp (lt_of_le_of_lt h3 h2)
  omega

theorem abs_eq_natAbs_div_den (x : ℚ) : |x| = (x.num.natAbs : ℚ) / x.den := by
  conv_lhs => rw [← Rat.num_div_den x]
  rw [abs_div, Nat.abs_cast, Nat.cast_natAbs, Int.cast_abs]

/-- **`ulpExp B p x = t − p`**: builder-float's ulp exponent of `x ≠ 0` at `p` digits is the binade
    `t` of `|x|` (`B^(t−1) ≤ |x| < B^t`) minus `p` -/
theorem ulpExp_eq_binade (B : ℕ) (hB : 2 ≤ B) (p : ℕ) (x : ℚ) (hx : x ≠ 0) (t : ℤ)
    (h1 : (B : ℚ) ^ (t - 1) ≤ |x|) (h2 : |x| < (B : ℚ) ^ t) : ulpExp B p x = t - p := by
  have hn : 0 < x.num.natAbs := Int.natAbs_pos.mpr (Rat.num_ne_zero.mpr hx)
  obtain ⟨s1, s2⟩ := ilogQ_spec B hB x.num.natAbs x.den hn x.den_pos
  rw [← abs_eq_natAbs_div_den] at s1 s2
  have := zbinade_unique B hB |x| t _ h1 h2 s1 s2
  unfold ulpExp; omega

/-- every non-zero rational has its binade at `ilogQ + 1` -/
theorem binade_ilogQ (B : ℕ) (hB : 2 ≤ B) (x : ℚ) (hx : x ≠ 0) :
    (B : ℚ) ^ ((ilogQ B x.num.natAbs x.den + 1) - 1) ≤ |x| ∧
      |x| < (B : ℚ) ^ (ilogQ B x.num.natAbs x.den + 1) := by
  have hn : 0 < x.num.natAbs := Int.natAbs_pos.mpr (Rat.num_ne_zero.mpr hx)
  obtain ⟨s1, s2⟩ := ilogQ_spec B hB x.num.natAbs x.den hn x.den_pos
  rw [← abs_eq_natAbs_div_den] at s1 s2
  rw [add_sub_cancel_right]; exact ⟨s1, s2⟩

/-- **`RoundsTo` is `Float.specRound`**: `x ≠ 0` rounds to `v` at `p` digits under mode `m` in the
    sense of C18's FBig clause iff `v` is the value of builder-float's correctly rounded `p`-digit
    float `specRound B m p x` (the canonical representative of the C03 rounding contract). -/
theorem roundsTo_iff_specRound (B : ℕ) (hB : 2 ≤ B) (m : FMode) (p : ℕ) (x v : ℚ) (hx : x ≠ 0) :
    RoundsTo B m p x v ↔ v = (specRound B m p x).1.toRat B := by
  have hval : (specRound B m p x).1.toRat B =
      (Float.roundInt m (x / (B : ℚ) ^ (ulpExp B p x)) : ℚ) * (B : ℚ) ^ (ulpExp B p x) := by
    unfold specRound
    simp only [hx, if_false]
    rw [FRepr.new_value B (by omega), bpowQ_eq_zpow]
  rw [hval]
  constructor
  · rintro ⟨t, h1, h2, hv⟩
    rw [ulpExp_eq_binade B hB p x hx t h1 h2]; exact hv
  · intro hv
    obtain ⟨h1, h2⟩ := binade_ilogQ B hB x hx
    refine ⟨ilogQ B x.num.natAbs x.den + 1, h1, h2, ?_⟩
    rw [hv]
    have : ulpExp B p x = ilogQ B x.num.natAbs x.den + 1 - p := by unfold ulpExp; ring
    rw [this]

end Dashu.Model.Ratio
