import Dashu.Proofs.Ratio.FBigRound
/-
  C18 FBig clause: each rounding mode, on magnitudes, is a window around the result.
-/
namespace Dashu.Model.Ratio
open Dashu.Model

/-- a rounding window on magnitudes: `y` rounds to `n` iff `n − dlo ≤ y ≤ n + dhi`, a boundary
    counting iff its flag says so -/
structure Window where
  dlo : ℚ
  dhi : ℚ
  inclLo : ℕ → Bool
  inclHi : ℕ → Bool

def InW (W : Window) (n : ℕ) (y : ℚ) : Prop :=
  (n : ℚ) - W.dlo ≤ y ∧ y ≤ n + W.dhi ∧ (y = n - W.dlo → W.inclLo n = true) ∧
    (y = n + W.dhi → W.inclHi n = true)

/-- windows tile the line: widths add up to 1 and a shared boundary belongs to one side only -/
structure Window.Ok (W : Window) : Prop where
  lo_nonneg : 0 ≤ W.dlo
  hi_nonneg : 0 ≤ W.dhi
  sum : W.dlo + W.dhi = 1
  excl : ∀ n, ¬ (W.inclHi n = true ∧ W.inclLo (n + 1) = true)
  lo_zero : W.dlo = 0 → ∀ n, W.inclLo n = true
  hi_zero : W.dhi = 0 → ∀ n, W.inclHi n = true

theorem InW.unique {W : Window} (hW : W.Ok) {y : ℚ} {n n' : ℕ} (h : InW W n y) (h' : InW W n' y) :
    n = n' := by
  obtain ⟨a1, a2, a3, a4⟩ := h
  obtain ⟨b1, b2, b3, b4⟩ := h'
  have hs := hW.sum
  rcases lt_trichotomy n n' with hlt | heq | hgt
  · exfalso
    have h1 : (n : ℚ) + 1 ≤ n' := by exact_mod_cast hlt
    have e3 : (n' : ℚ) = n + 1 := by linarith
    have e4 : n' = n + 1 := by exact_mod_cast e3
    have e1 : y = n + W.dhi := by linarith
    have e2 : y = n' - W.dlo := by linarith
    have := a4 e1; have := b3 e2
    rw [e4] at this
    exact hW.excl n ⟨‹_›, this⟩
  · exact heq
  · exfalso
    have h1 : (n' : ℚ) + 1 ≤ n := by exact_mod_cast hgt
    have e3 : (n : ℚ) = n' + 1 := by linarith
    have e4 : n = n' + 1 := by exact_mod_cast e3
    have e1 : y = n' + W.dhi := by linarith
    have e2 : y = n - W.dlo := by linarith
    have := b4 e1; have := a3 e2
    rw [e4] at this
    exact hW.excl n' ⟨‹_›, this⟩

def wToward : Window := ⟨0, 1, fun _ => true, fun _ => false⟩
def wAway : Window := ⟨1, 0, fun _ => false, fun _ => true⟩
def wHalfAway : Window := ⟨1 / 2, 1 / 2, fun _ => true, fun _ => false⟩
def wHalfEven : Window := ⟨1 / 2, 1 / 2, fun n => decide (n % 2 = 0), fun n => decide (n % 2 = 0)⟩

/-- the window of a mode for numbers of a given sign (on magnitudes) -/
def windowOf (m : FMode) (neg : Bool) : Window :=
  match m with
  | .zero => wToward
  | .away => wAway
  | .up => if neg then wToward else wAway
  | .down => if neg then wAway else wToward
  | .halfAway => wHalfAway
  | .halfEven => wHalfEven

theorem wToward_ok : wToward.Ok := ⟨le_refl _, by norm_num [wToward], by norm_num [wToward],
  by simp [wToward], by simp [wToward], by norm_num [wToward]⟩
theorem wAway_ok : wAway.Ok := ⟨by norm_num [wAway], le_refl _, by norm_num [wAway],
  by simp [wAway], by norm_num [wAway], by simp [wAway]⟩
theorem wHalfAway_ok : wHalfAway.Ok := ⟨by norm_num [wHalfAway], by norm_num [wHalfAway],
  by norm_num [wHalfAway], by simp [wHalfAway], by norm_num [wHalfAway], by norm_num [wHalfAway]⟩
theorem wHalfEven_ok : wHalfEven.Ok := ⟨by norm_num [wHalfEven], by norm_num [wHalfEven],
  by norm_num [wHalfEven], by intro n; simp [wHalfEven]; omega, by norm_num [wHalfEven],
  by norm_num [wHalfEven]⟩

theorem windowOf_ok (m : FMode) (neg : Bool) : (windowOf m neg).Ok := by
  cases m <;> cases neg <;> simp only [windowOf] <;>
    first | exact wToward_ok | exact wAway_ok | exact wHalfAway_ok | exact wHalfEven_ok

theorem windowOf_flip (m : FMode) : windowOf m true = windowOf (flipMode m) false := by
  cases m <;> rfl

/-- soundness on non-negative numbers: the result is a natural number inside its window -/
theorem roundInt_pos_sound (m : FMode) (y : ℚ) (hy : 0 ≤ y) :
    ∃ n : ℕ, Float.roundInt m y = (n : ℤ) ∧ InW (windowOf m false) n y := by
  have hf0 : 0 ≤ ⌊y⌋ := Int.floor_nonneg.mpr hy
  obtain ⟨f, hf⟩ : ∃ f : ℕ, ⌊y⌋ = (f : ℤ) := ⟨⌊y⌋.toNat, by omega⟩
  have h1 := Int.floor_le y
  have h2 := Int.lt_floor_add_one y
  have hnn : ¬ (y < 0) := not_lt.mpr hy
  rw [roundInt_eq, hf] at *
  rw [hf] at h1 h2
  push_cast at h1 h2
  by_cases hint : ((f : ℤ) : ℚ) = y
  · rw [if_pos hint]
    have hy' : y = (f : ℚ) := by rw [← hint]; push_cast; rfl
    refine ⟨f, rfl, ?_⟩
    have hW := windowOf_ok m false
    refine ⟨by linarith [hW.lo_nonneg], by linarith [hW.hi_nonneg], fun h => ?_, fun h => ?_⟩
    · exact hW.lo_zero (by linarith) f
    · exact hW.hi_zero (by linarith) f
  · rw [if_neg hint]
    have hlt : (f : ℚ) < y := lt_of_le_of_ne h1 (by intro h; apply hint; rw [← h]; push_cast; rfl)
    cases m <;> simp only [windowOf, Bool.false_eq_true, if_false, hnn]
    · -- zero: floor
      exact ⟨f, rfl, by simp only [InW, wToward]; refine ⟨by linarith, by linarith, fun _ => trivial, fun h => ?_⟩; linarith⟩
    · -- away: floor + 1
      refine ⟨f + 1, by push_cast; rfl, ?_⟩
      simp only [InW, wAway]; push_cast
      refine ⟨by linarith, by linarith, fun h => ?_, fun _ => trivial⟩; linarith
    · -- up
      refine ⟨f + 1, by push_cast; rfl, ?_⟩
      simp only [InW, wAway]; push_cast
      refine ⟨by linarith, by linarith, fun h => ?_, fun _ => trivial⟩; linarith
    · -- down
      exact ⟨f, rfl, by simp only [InW, wToward]; refine ⟨by linarith, by linarith, fun _ => trivial, fun h => ?_⟩; linarith⟩
    · -- halfEven
      push_cast
      rcases lt_trichotomy (2 * (y - (f : ℚ))) 1 with h | h | h
      · rw [if_pos h]
        refine ⟨f, rfl, ?_⟩
        simp only [InW, wHalfEven]
        refine ⟨by linarith, by linarith, fun hh => ?_, fun hh => ?_⟩ <;> linarith
      · rw [if_neg (by linarith), if_pos h]
        by_cases hev : (f : ℤ) % 2 = 0
        · rw [if_pos hev]
          refine ⟨f, rfl, ?_⟩
          simp only [InW, wHalfEven]
          refine ⟨by linarith, by linarith, fun hh => ?_, fun _ => ?_⟩
          · linarith
          · simp; omega
        · rw [if_neg hev]
          refine ⟨f + 1, by push_cast; rfl, ?_⟩
          simp only [InW, wHalfEven]; push_cast
          refine ⟨by linarith, by linarith, fun _ => ?_, fun hh => ?_⟩
          · simp; omega
          · linarith
      · rw [if_neg (by linarith), if_neg (by linarith)]
        refine ⟨f + 1, by push_cast; rfl, ?_⟩
        simp only [InW, wHalfEven]; push_cast
        refine ⟨by linarith, by linarith, fun hh => ?_, fun hh => ?_⟩ <;> linarith
    · -- halfAway
      push_cast
      rcases lt_trichotomy (2 * (y - (f : ℚ))) 1 with h | h | h
      · rw [if_pos h]
        refine ⟨f, rfl, ?_⟩
        simp only [InW, wHalfAway]
        refine ⟨by linarith, by linarith, fun _ => trivial, fun hh => ?_⟩; linarith
      · rw [if_neg (by linarith), if_pos h]
        refine ⟨f + 1, by push_cast; rfl, ?_⟩
        simp only [InW, wHalfAway]; push_cast
        refine ⟨by linarith, by linarith, fun _ => trivial, fun hh => ?_⟩; linarith
      · rw [if_neg (by linarith), if_neg (by linarith)]
        refine ⟨f + 1, by push_cast; rfl, ?_⟩
        simp only [InW, wHalfAway]; push_cast
        refine ⟨by linarith, by linarith, fun _ => trivial, fun hh => ?_⟩; linarith

/-- **each mode is its window**: for a magnitude `y ≥ 0` and a sign, the signed number rounds to
    `±n` iff `y` lies in the window of `n` -/
theorem roundInt_window (m : FMode) (neg : Bool) (y : ℚ) (hy : 0 ≤ y) (n : ℕ) :
    Float.roundInt m (if neg then -y else y) = (if neg then -(n : ℤ) else (n : ℤ)) ↔
      InW (windowOf m neg) n y := by
  cases neg
  · simp only [Bool.false_eq_true, if_false]
    obtain ⟨r, hr, hin⟩ := roundInt_pos_sound m y hy
    constructor
    · intro h; rw [hr] at h
      have : r = n := by exact_mod_cast h
      rw [← this]; exact hin
    · intro h; rw [hr, InW.unique (windowOf_ok m false) hin h]
  · simp only [if_true]
    rw [roundInt_neg, windowOf_flip]
    obtain ⟨r, hr, hin⟩ := roundInt_pos_sound (flipMode m) y hy
    constructor
    · intro h; rw [hr] at h
      have : r = n := by omega
      rw [← this]; exact hin
    · intro h; rw [hr, InW.unique (windowOf_ok _ false) hin h]

end Dashu.Model.Ratio
