import Dashu.Proofs.Ratio.Extra
import Dashu.Model.Ratio.Simplify
/-
  `Repr::simplest_in` (rational/src/simplify.rs): the continued-fraction descent on both end
  points returns the fraction `A/B` strictly inside the interval that has BOTH the least numerator
  and the least denominator among all fractions strictly inside (Stern–Brocot), and terminates.

  Plan: `sb` is the same descent written as a recursion "from the outside in"
  (`simplest(l, r) = q + 1/simplest(1/(r-q), 1/(l-q))`, `q = ⌊l⌋`); `sb_spec` proves soundness,
  simultaneous minimality and termination by induction; `simplestLoop_eq_sb` shows that the
  loop of the code, which accumulates the convergent matrix `(n0 n1; d0 d1)` "from the inside
  out", returns `(n0·A + n1·B, d0·A + d1·B)`.
-/
namespace Dashu.Model.Ratio
open Dashu.Model

/-- the recursion behind the loop: `(a/b, c/d)` is the current interval (`d = 0`: unbounded) -/
def sb : Nat → Int → Int → Int → Int → Option (Int × Int)
  | 0, _, _, _, _ => none
  | fuel + 1, a, b, c, d =>
    let q := Int.tdiv a b
    let r1 := Int.tmod a b
    let r2 := c - q * d
    if d < r2 then some (q + 1, 1)
    else match sb fuel d r2 b r1 with
      | some (A', B') => some (q * A' + B', A')
      | none => none

/-- invariant of the descent: `0 ≤ a/b < c/d ≤ ∞` -/
def SInv (a b c d : Int) : Prop := 0 ≤ a ∧ 0 < b ∧ 0 < c ∧ 0 ≤ d ∧ a * d < c * b

theorem tdiv_facts (a b : Int) (ha : 0 ≤ a) (hb : 0 < b) :
    a = b * Int.tdiv a b + Int.tmod a b ∧ 0 ≤ Int.tdiv a b ∧ 0 ≤ Int.tmod a b ∧ Int.tmod a b < b := by
  refine ⟨(Int.mul_tdiv_add_tmod a b).symm, ?_, Int.tmod_nonneg b ha, Int.tmod_lt_of_pos a hb⟩
  rw [Int.tdiv_eq_ediv_of_nonneg ha]
  exact Int.ediv_nonneg ha hb.le

theorem step_inv {a b c d : Int} (h : SInv a b c d) :
    0 < c - Int.tdiv a b * d ∧ SInv d (c - Int.tdiv a b * d) b (Int.tmod a b) := by
  obtain ⟨ha, hb, hc, hd, hlt⟩ := h
  obtain ⟨e, hq, hr0, hr1⟩ := tdiv_facts a b ha hb
  set q := Int.tdiv a b
  set r1 := Int.tmod a b
  have hr2 : 0 < c - q * d := by
    -- q·b ≤ a and a·d < c·b give q·d < c
    by_contra hcon
    have h1 : c ≤ q * d := by omega
    have h2 : c * b ≤ q * d * b := Int.mul_le_mul_of_nonneg_right h1 hb.le
    have h3 : q * b * d ≤ a * d := by
      apply Int.mul_le_mul_of_nonneg_right _ hd
      nlinarith
    nlinarith
  refine ⟨hr2, hd, hr2, hb, hr0, ?_⟩
  -- d·r1 < b·(c − q d)  ⟸  d·a < b·c
  have : d * r1 = d * a - d * (b * q) := by rw [e]; ring
  nlinarith

/-- **soundness, optimality and termination of the descent** -/
theorem sb_spec : ∀ (fuel : Nat) (a b c d : Int), SInv a b c d → (b + d).toNat < fuel →
    ∃ A B, sb fuel a b c d = some (A, B) ∧ 0 < A ∧ 0 < B ∧ a * B < A * b ∧ A * d < c * B ∧
      ∀ p s : Int, 0 < s → a * s < p * b → p * d < c * s → A ≤ p ∧ B ≤ s := by
  intro fuel
  induction fuel with
  | zero => intro a b c d _ h; omega
  | succ fuel ih =>
    intro a b c d hinv hfuel
    obtain ⟨hr2, hinv'⟩ := step_inv hinv
    obtain ⟨ha, hb, hc, hd, hlt⟩ := hinv
    obtain ⟨e, hq, hr0, hr1⟩ := tdiv_facts a b ha hb
    simp only [sb]
    set q := Int.tdiv a b with hqdef
    set r1 := Int.tmod a b with hr1def
    set r2 := c - q * d with hr2def
    by_cases hbrk : d < r2
    · -- an integer lies strictly inside: q + 1
      rw [if_pos hbrk]
      refine ⟨q + 1, 1, rfl, by omega, by omega, ?_, ?_, ?_⟩
      · nlinarith
      · nlinarith
      · intro p s hs h1 h2
        refine ⟨?_, by omega⟩
        -- q·b·s ≤ a·s < p·b  ⇒  q·s < p  ⇒  q + 1 ≤ p
        have h3 : q * s < p := by
          have : q * b * s ≤ a * s := by
            apply Int.mul_le_mul_of_nonneg_right _ hs.le
            nlinarith
          by_contra hcon
          have h4 : p ≤ q * s := by omega
          have h5 : p * b ≤ q * s * b := Int.mul_le_mul_of_nonneg_right h4 hb.le
          nlinarith
        have h6 : q * 1 ≤ q * s := Int.mul_le_mul_of_nonneg_left (by omega) hq
        omega
    · rw [if_neg hbrk]
      have hle : r2 ≤ d := by omega
      have hfuel' : (r2 + r1).toNat < fuel := by omega
      obtain ⟨A', B', hsb, hA', hB', h1', h2', hmin'⟩ := ih d r2 b r1 hinv' hfuel'
      rw [hsb]
      refine ⟨q * A' + B', A', rfl, by nlinarith, hA', ?_, ?_, ?_⟩
      · -- (q b + r1) A' < (q A' + B') b  ⟸  r1 A' < B' b
        rw [e]; nlinarith
      · -- (q A' + B') d < c A'  ⟸  B' d < r2 A'
        have : r2 * A' = c * A' - q * d * A' := by rw [hr2def]; ring
        nlinarith
      · intro p s hs hp1 hp2
        -- p − q s > 0
        have h3 : q * s < p := by
          have : q * b * s ≤ a * s := by
            apply Int.mul_le_mul_of_nonneg_right _ hs.le
            nlinarith
          by_contra hcon
          have h4 : p ≤ q * s := by omega
          have h5 : p * b ≤ q * s * b := Int.mul_le_mul_of_nonneg_right h4 hb.le
          nlinarith
        have hm := hmin' s (p - q * s) (by omega)
          (by -- d (p − q s) < s r2
              have : s * r2 = s * c - s * (q * d) := by rw [hr2def]; ring
              nlinarith)
          (by -- s r1 < b (p − q s)
              have : s * r1 = s * a - s * (b * q) := by rw [e]; ring
              nlinarith)
        refine ⟨?_, hm.1⟩
        have : q * A' ≤ q * s := Int.mul_le_mul_of_nonneg_left hm.1 hq
        omega

/-- the result of the descent is in lowest terms (a consequence of minimality) -/
theorem sb_coprime {fuel : Nat} {a b c d A B : Int} (hinv : SInv a b c d)
    (hfuel : (b + d).toNat < fuel) (h : sb fuel a b c d = some (A, B)) :
    Nat.gcd A.natAbs B.natAbs = 1 := by
  obtain ⟨A₀, B₀, hsb, hA, hB, h1, h2, hmin⟩ := sb_spec fuel a b c d hinv hfuel
  rw [h] at hsb
  obtain ⟨rfl, rfl⟩ : A = A₀ ∧ B = B₀ := by simpa using hsb
  obtain ⟨ha, hb, hc, hd, hlt⟩ := hinv
  set g := Nat.gcd A.natAbs B.natAbs with hg
  have hgpos : 0 < g := Nat.gcd_pos_of_pos_left _ (Int.natAbs_pos.mpr hA.ne')
  have hgA : (g : Int) ∣ A := Int.natCast_dvd.mpr (Nat.gcd_dvd_left _ _)
  have hgB : (g : Int) ∣ B := Int.natCast_dvd.mpr (Nat.gcd_dvd_right _ _)
  obtain ⟨A1, hA1⟩ := hgA
  obtain ⟨B1, hB1⟩ := hgB
  have hgZ : (0 : Int) < g := by exact_mod_cast hgpos
  have hB1pos : 0 < B1 := by
    by_contra hcon
    have : B1 ≤ 0 := by omega
    have : (g : Int) * B1 ≤ 0 := Int.mul_nonpos_of_nonneg_of_nonpos hgZ.le this
    omega
  -- A1/B1 lies in the same interval
  have hm := hmin A1 B1 hB1pos
    (by have : a * ((g : Int) * B1) < (g : Int) * A1 * b := by rw [← hA1, ← hB1]; exact h1
        have e1 : a * ((g : Int) * B1) = (g : Int) * (a * B1) := by ring
        have e2 : (g : Int) * A1 * b = (g : Int) * (A1 * b) := by ring
        rw [e1, e2] at this
        exact Int.lt_of_mul_lt_mul_left this hgZ.le)
    (by have : (g : Int) * A1 * d < c * ((g : Int) * B1) := by rw [← hA1, ← hB1]; exact h2
        have e1 : (g : Int) * A1 * d = (g : Int) * (A1 * d) := by ring
        have e2 : c * ((g : Int) * B1) = (g : Int) * (c * B1) := by ring
        rw [e1, e2] at this
        exact Int.lt_of_mul_lt_mul_left this hgZ.le)
  -- A ≤ A1 with A = g·A1, A1 > 0 forces g = 1
  have hA1pos : 0 < A1 := by
    by_contra hcon
    have : A1 ≤ 0 := by omega
    have : (g : Int) * A1 ≤ 0 := Int.mul_nonpos_of_nonneg_of_nonpos hgZ.le this
    omega
  have : (g : Int) * A1 ≤ 1 * A1 := by rw [← hA1]; simpa using hm.1
  have hg1 : (g : Int) ≤ 1 := Int.le_of_mul_le_mul_right this hA1pos
  omega

/-- the loop of the code accumulates the convergent matrix; it returns the matrix applied to
    the result of the recursion -/
theorem simplestLoop_eq_sb : ∀ (fuel : Nat) (a b c d n0 d0 n1 d1 : Int), SInv a b c d →
    simplestLoop fuel ⟨a, b, c, d, n0, d0, n1, d1⟩ =
      .ok ((sb fuel a b c d).map fun AB => (n0 * AB.1 + n1 * AB.2, d0 * AB.1 + d1 * AB.2)) := by
  intro fuel
  induction fuel with
  | zero => intros; rfl
  | succ fuel ih =>
    intro a b c d n0 d0 n1 d1 hinv
    obtain ⟨hr2, hinv'⟩ := step_inv hinv
    have hb : b ≠ 0 := by have := hinv.2.1; omega
    simp only [simplestLoop, idivRemK, if_neg hb, bind_ok', sb]
    by_cases hbrk : d < c - Int.tdiv a b * d
    · simp only [if_pos hbrk, Option.map_some]
      congr 2
      ext <;> simp <;> ring
    · simp only [if_neg hbrk]
      rw [ih _ _ _ _ _ _ _ _ hinv']
      cases hsb : sb fuel d (c - Int.tdiv a b * d) b (Int.tmod a b) with
      | none => simp
      | some AB =>
        obtain ⟨A', B'⟩ := AB
        simp only [Option.map_some]
        congr 2
        ext <;> simp <;> ring

end Dashu.Model.Ratio

namespace Dashu.Model.Ratio
open Dashu.Model

theorem cast_lt_iff (a : ℤ) (b : ℕ) (c : ℤ) (d : ℕ) (hb : 0 < b) (hd : 0 < d) :
    (a : ℚ) / b < (c : ℚ) / d ↔ a * d < c * b := by
  have hbq : (0 : ℚ) < b := by exact_mod_cast hb
  have hdq : (0 : ℚ) < d := by exact_mod_cast hd
  rw [div_lt_div_iff₀ hbq hdq]
  exact_mod_cast Iff.rfl

/-- the positive case of `Repr::simplest_in`: `0 ≤ lo < hi` -/
theorem simplest_pos (lo hi : Q) (hlo : 0 ≤ lo.num) (hlod : 0 < lo.den) (hhid : 0 < hi.den)
    (hlt : lo.val < hi.val) :
    ∃ A B : ℤ, simplestLoop (lo.den + hi.den + 1) ⟨lo.num, lo.den, hi.num, hi.den, 1, 0, 0, 1⟩
        = .ok (some (A, B)) ∧ 0 < A ∧ 0 < B ∧ Nat.gcd A.natAbs B.natAbs = 1 ∧
      lo.val < (A : ℚ) / B ∧ (A : ℚ) / B < hi.val ∧
      ∀ (p : ℤ) (s : ℕ), 0 < s → lo.val < (p : ℚ) / s → (p : ℚ) / s < hi.val →
        A ≤ p ∧ B ≤ s := by
  obtain ⟨a, b⟩ := lo
  obtain ⟨c, d⟩ := hi
  simp only at hlo hlod hhid
  have hlt' : a * (d : ℤ) < c * (b : ℤ) := (cast_lt_iff a b c d hlod hhid).1 hlt
  have hbZ : (0 : ℤ) < b := by exact_mod_cast hlod
  have hdZ : (0 : ℤ) < d := by exact_mod_cast hhid
  have hc : 0 < c := by
    by_contra hcon
    have h1 : c ≤ 0 := by omega
    have h2 : c * (b : ℤ) ≤ 0 := Int.mul_nonpos_of_nonpos_of_nonneg h1 hbZ.le
    have h3 : 0 ≤ a * (d : ℤ) := Int.mul_nonneg hlo hdZ.le
    omega
  have hinv : SInv a b c d := ⟨hlo, hbZ, hc, hdZ.le, hlt'⟩
  have hfuel : ((b : ℤ) + (d : ℤ)).toNat < b + d + 1 := by omega
  obtain ⟨A, B, hsb, hA, hB, h1, h2, hmin⟩ := sb_spec (b + d + 1) a b c d hinv hfuel
  have hcop := sb_coprime hinv hfuel hsb
  refine ⟨A, B, ?_, hA, hB, hcop, ?_, ?_, ?_⟩
  · rw [simplestLoop_eq_sb _ _ _ _ _ _ _ _ _ hinv, hsb]
    simp
  · have : (A : ℚ) / B = (A : ℚ) / ((B.toNat : ℕ) : ℚ) := by
      have : ((B.toNat : ℕ) : ℤ) = B := Int.toNat_of_nonneg hB.le
      congr 1; exact_mod_cast this.symm
    rw [this, Q.val_mk, cast_lt_iff a b A B.toNat hlod (by omega), Int.toNat_of_nonneg hB.le]
    exact h1
  · have : (A : ℚ) / B = (A : ℚ) / ((B.toNat : ℕ) : ℚ) := by
      have : ((B.toNat : ℕ) : ℤ) = B := Int.toNat_of_nonneg hB.le
      congr 1; exact_mod_cast this.symm
    rw [this, Q.val_mk, cast_lt_iff A B.toNat c d (by omega) hhid, Int.toNat_of_nonneg hB.le]
    exact h2
  · intro p s hs hp1 hp2
    rw [Q.val_mk, cast_lt_iff a b p s hlod hs] at hp1
    rw [Q.val_mk, cast_lt_iff p s c d hs hhid] at hp2
    exact hmin p s (by exact_mod_cast hs) hp1 hp2

end Dashu.Model.Ratio

namespace Dashu.Model.Ratio
open Dashu.Model

theorem cmpQ_lt_iff (x y : Q) (hx : 0 < x.den) (hy : 0 < y.den) :
    cmpQ x y = .lt ↔ x.val < y.val := by
  unfold cmpQ
  rw [compare_lt_iff_lt, Q.val_def, Q.val_def, cast_lt_iff _ _ _ _ hx hy]

theorem cmpQ_gt_iff (x y : Q) (hx : 0 < x.den) (hy : 0 < y.den) :
    cmpQ x y = .gt ↔ y.val < x.val := by
  unfold cmpQ
  rw [compare_gt_iff_gt, Q.val_def, Q.val_def, cast_lt_iff _ _ _ _ hy hx]

theorem cmpQ_eq_iff (x y : Q) (hx : 0 < x.den) (hy : 0 < y.den) :
    cmpQ x y = .eq ↔ x.val = y.val := by
  have h1 := cmpQ_lt_iff x y hx hy
  have h2 := cmpQ_gt_iff x y hx hy
  constructor
  · intro h
    rw [h] at h1 h2
    have a : ¬ x.val < y.val := fun hh => by simpa using h1.2 hh
    have b : ¬ y.val < x.val := fun hh => by simpa using h2.2 hh
    exact le_antisymm (not_lt.mp b) (not_lt.mp a)
  · intro h
    cases hc : cmpQ x y with
    | lt => exact absurd (h1.1 hc) (by rw [h]; exact lt_irrefl _)
    | gt => exact absurd (h2.1 hc) (by rw [h]; exact lt_irrefl _)
    | eq => rfl

/-- the descent after taking absolute values -/
theorem simplestAbs_spec (l u : Q) (hl : 0 ≤ l.num) (hu : 0 ≤ u.num) (hld : 0 < l.den)
    (hud : 0 < u.den) (neg : Bool) :
    (l.val = u.val → simplestAbs l u neg = .ok (some (mulSign l neg))) ∧
    (l.val ≠ u.val → ∃ A B : ℤ,
      simplestAbs l u neg = .ok (some ⟨if neg then -A else A, B.natAbs⟩) ∧
      0 < A ∧ 0 < B ∧ Nat.gcd A.natAbs B.natAbs = 1 ∧
      min l.val u.val < (A : ℚ) / B ∧ (A : ℚ) / B < max l.val u.val ∧
      ∀ (p : ℤ) (s : ℕ), 0 < s → min l.val u.val < (p : ℚ) / s → (p : ℚ) / s < max l.val u.val →
        A ≤ p ∧ B ≤ s) := by
  constructor
  · intro h
    have := (cmpQ_eq_iff l u hld hud).2 h
    simp [simplestAbs, this]
  · intro hne
    have hneq : cmpQ l u ≠ .eq := fun h => hne ((cmpQ_eq_iff l u hld hud).1 h)
    -- the ordered pair
    rcases lt_or_gt_of_ne hne with hlt | hgt
    · have hc := (cmpQ_lt_iff l u hld hud).2 hlt
      obtain ⟨A, B, hloop, hA, hB, hcop, h1, h2, hmin⟩ := simplest_pos l u hl hld hud hlt
      refine ⟨A, B, ?_, hA, hB, hcop, ?_, ?_, ?_⟩
      · simp only [simplestAbs, hc]
        simp only [reduceCtorEq, if_false, hloop, bind_ok']
        have : (A.natAbs : ℤ) = A := Int.natAbs_of_nonneg hA.le
        simp [this]
        cases neg <;> rfl
      · rw [min_eq_left hlt.le]; exact h1
      · rw [max_eq_right hlt.le]; exact h2
      · intro p s hs hp1 hp2
        rw [min_eq_left hlt.le] at hp1
        rw [max_eq_right hlt.le] at hp2
        exact hmin p s hs hp1 hp2
    · have hc := (cmpQ_gt_iff l u hld hud).2 hgt
      obtain ⟨A, B, hloop, hA, hB, hcop, h1, h2, hmin⟩ := simplest_pos u l hu hud hld hgt
      refine ⟨A, B, ?_, hA, hB, hcop, ?_, ?_, ?_⟩
      · simp only [simplestAbs, hc]
        simp only [if_true, hloop, bind_ok']
        have : (A.natAbs : ℤ) = A := Int.natAbs_of_nonneg hA.le
        simp [this]
        cases neg <;> rfl
      · rw [min_eq_right hgt.le]; exact h1
      · rw [max_eq_left hgt.le]; exact h2
      · intro p s hs hp1 hp2
        rw [min_eq_right hgt.le] at hp1
        rw [max_eq_left hgt.le] at hp2
        exact hmin p s hs hp1 hp2

end Dashu.Model.Ratio

namespace Dashu.Model.Ratio
open Dashu.Model

theorem reduce_of_reduced (q : Q) (h : Reduced q) : reduce q = .ok q := by
  obtain ⟨r, h1, h2, h3⟩ := reduce_spec q h.den_pos
  rw [h1, Reduced.ext h2 h h3]

theorem val_abs_of_nonpos (q : Q) (hd : 0 < q.den) (h : q.num ≤ 0) : (abs q).val = -q.val := by
  have hb : (0 : ℚ) < q.den := by exact_mod_cast hd
  have e : ((q.num.natAbs : ℤ) : ℚ) = -(q.num : ℚ) := by
    have : (q.num.natAbs : ℤ) = -q.num := by omega
    rw [this]; push_cast; ring
  simp only [abs, Q.val_def, e, neg_div]

theorem abs_of_nonneg_num (q : Q) (h : 0 ≤ q.num) : abs q = q := by
  obtain ⟨n, d⟩ := q
  simp only [abs, Q.mk.injEq, and_true]
  simp only at h
  omega

theorem val_nonneg_iff (q : Q) (hd : 0 < q.den) : 0 ≤ q.val ↔ 0 ≤ q.num := by
  have hb : (0 : ℚ) < q.den := by exact_mod_cast hd
  rw [Q.val_def, div_nonneg_iff]
  constructor
  · rintro (⟨h, _⟩ | ⟨_, h⟩)
    · exact_mod_cast h
    · linarith
  · intro h; left; exact ⟨by exact_mod_cast h, hb.le⟩

theorem val_neg_iff (q : Q) (hd : 0 < q.den) : q.val < 0 ↔ q.num < 0 := by
  have := val_nonneg_iff q hd
  constructor
  · intro h; by_contra hc; exact absurd (this.2 (by omega)) (not_le.mpr h)
  · intro h; by_contra hc; have := this.1 (not_lt.mp hc); omega

theorem val_pos_iff (q : Q) (hd : 0 < q.den) : 0 < q.val ↔ 0 < q.num := by
  have hb : (0 : ℚ) < q.den := by exact_mod_cast hd
  rw [Q.val_def, div_pos_iff]
  constructor
  · rintro (⟨h, _⟩ | ⟨_, h⟩)
    · exact_mod_cast h
    · linarith
  · intro h; left; exact ⟨by exact_mod_cast h, hb⟩

/-- **`RBig::simplest_in`**: for equal end points that number; otherwise a reduced fraction
    strictly between the end points (whatever their order and signs) such that every fraction
    `p/s` strictly between them has `s ≥` its denominator AND `|p| ≥` its numerator magnitude. -/
theorem simplestIn_spec (l u : Q) (hld : 0 < l.den) (hud : 0 < u.den) :
    (l.val = u.val → ∃ r, simplestIn l u = .ok (some r) ∧ Reduced r ∧ r.val = l.val) ∧
    (l.val ≠ u.val → ∃ r, simplestIn l u = .ok (some r) ∧ Reduced r ∧
      min l.val u.val < r.val ∧ r.val < max l.val u.val ∧
      ∀ (p : ℤ) (s : ℕ), 0 < s → min l.val u.val < (p : ℚ) / s → (p : ℚ) / s < max l.val u.val →
        r.den ≤ s ∧ r.num.natAbs ≤ p.natAbs) := by
  by_cases hstr : (l.num < 0 ∧ 0 < u.num) ∨ (u.num < 0 ∧ 0 < l.num)
  · -- sign-straddling: 0
    have hres : simplestIn l u = .ok (some Q.zero) := by
      simp only [simplestIn, reprSimplestIn, if_pos hstr, bind_ok']
      rfl
    have hl0 : l.val < 0 ∧ 0 < u.val ∨ u.val < 0 ∧ 0 < l.val := by
      rcases hstr with ⟨a, b⟩ | ⟨a, b⟩
      · exact Or.inl ⟨(val_neg_iff l hld).2 a, (val_pos_iff u hud).2 b⟩
      · exact Or.inr ⟨(val_neg_iff u hud).2 a, (val_pos_iff l hld).2 b⟩
    have hz : Q.zero.val = 0 := by simp [Q.zero, Q.val_def]
    constructor
    · intro h; rcases hl0 with ⟨a, b⟩ | ⟨a, b⟩ <;> linarith
    · intro _
      refine ⟨Q.zero, hres, reduced_zero, ?_, ?_, ?_⟩
      · rw [hz]; rcases hl0 with ⟨a, b⟩ | ⟨a, b⟩
        · exact lt_of_le_of_lt (min_le_left _ _) a
        · exact lt_of_le_of_lt (min_le_right _ _) a
      · rw [hz]; rcases hl0 with ⟨a, b⟩ | ⟨a, b⟩
        · exact lt_of_lt_of_le b (le_max_right _ _)
        · exact lt_of_lt_of_le b (le_max_left _ _)
      · intro p s hs _ _
        exact ⟨by simp only [Q.zero]; omega, by simp [Q.zero]⟩
  · by_cases hneg : l.num < 0 ∨ u.num < 0
    · -- both ≤ 0
      have hl : l.num ≤ 0 := by
        rcases hneg with h | h
        · omega
        · by_contra hc; exact hstr (Or.inr ⟨h, by omega⟩)
      have hu : u.num ≤ 0 := by
        rcases hneg with h | h
        · by_contra hc; exact hstr (Or.inl ⟨h, by omega⟩)
        · omega
      have hla := val_abs_of_nonpos l hld hl
      have hua := val_abs_of_nonpos u hud hu
      have hspec := simplestAbs_spec (abs l) (abs u) (by simp [abs]) (by simp [abs]) hld hud true
      have hrepr : reprSimplestIn l u = simplestAbs (abs l) (abs u) true := by
        simp only [reprSimplestIn, if_neg hstr, hneg, decide_true]
      constructor
      · intro h
        have := hspec.1 (by rw [hla, hua, h])
        have hback : mulSign (abs l) true = l := by
          obtain ⟨n, d⟩ := l
          simp only [mulSign, abs, if_true, Q.mk.injEq, and_true]
          simp only at hl
          omega
        obtain ⟨r, h1, h2, h3⟩ := reduce_spec l hld
        refine ⟨r, ?_, h2, h3⟩
        simp only [simplestIn, hrepr, this, bind_ok', hback, h1]
        rfl
      · intro hne
        obtain ⟨A, B, hres, hA, hB, hcop, h1, h2, hmin⟩ :=
          hspec.2 (by rw [hla, hua]; intro h; exact hne (neg_injective h))
        simp only [if_true] at hres
        have hBn : ((B.natAbs : ℕ) : ℤ) = B := Int.natAbs_of_nonneg hB.le
        have hBq : ((B.natAbs : ℕ) : ℚ) = (B : ℚ) := by
          rw [← Int.cast_natCast, hBn]
        have hred : Reduced ⟨-A, B.natAbs⟩ :=
          ⟨Int.natAbs_pos.mpr hB.ne', by simpa using hcop⟩
        have hval : (⟨-A, B.natAbs⟩ : Q).val = -((A : ℚ) / B) := by
          simp [Q.val_def, hBq, neg_div]
        have hmm : min l.val u.val = -max (-l.val) (-u.val) := by
          rcases le_total l.val u.val with hh | hh
          · rw [min_eq_left hh, max_eq_left (neg_le_neg hh), neg_neg]
          · rw [min_eq_right hh, max_eq_right (neg_le_neg hh), neg_neg]
        have hMM : max l.val u.val = -min (-l.val) (-u.val) := by
          rcases le_total l.val u.val with hh | hh
          · rw [max_eq_right hh, min_eq_right (neg_le_neg hh), neg_neg]
          · rw [max_eq_left hh, min_eq_left (neg_le_neg hh), neg_neg]
        rw [hla, hua] at h1 h2 hmin
        refine ⟨⟨-A, B.natAbs⟩, ?_, hred, ?_, ?_, ?_⟩
        · simp only [simplestIn, hrepr, hres, bind_ok', reduce_of_reduced _ hred]
          rfl
        · rw [hval, hmm]; linarith
        · rw [hval, hMM]; linarith
        · intro p s hs hp1 hp2
          rw [hmm] at hp1
          rw [hMM] at hp2
          have e : ((-p : ℤ) : ℚ) / s = -((p : ℚ) / s) := by push_cast; ring
          have := hmin (-p) s hs (by rw [e]; linarith) (by rw [e]; linarith)
          simp only
          constructor
          · omega
          · rw [Int.natAbs_neg]; omega
    · -- both ≥ 0
      have hl : 0 ≤ l.num := by omega
      have hu : 0 ≤ u.num := by omega
      have hspec := simplestAbs_spec l u hl hu hld hud false
      have hrepr : reprSimplestIn l u = simplestAbs l u false := by
        simp only [reprSimplestIn, if_neg hstr, hneg, decide_false, abs_of_nonneg_num l hl,
          abs_of_nonneg_num u hu]
      constructor
      · intro h
        have := hspec.1 h
        have hback : mulSign l false = l := by simp [mulSign]
        obtain ⟨r, h1, h2, h3⟩ := reduce_spec l hld
        refine ⟨r, ?_, h2, h3⟩
        simp only [simplestIn, hrepr, this, bind_ok', hback, h1]
        rfl
      · intro hne
        obtain ⟨A, B, hres, hA, hB, hcop, h1, h2, hmin⟩ := hspec.2 hne
        simp only [Bool.false_eq_true, if_false] at hres
        have hBn : ((B.natAbs : ℕ) : ℤ) = B := Int.natAbs_of_nonneg hB.le
        have hBq : ((B.natAbs : ℕ) : ℚ) = (B : ℚ) := by
          rw [← Int.cast_natCast, hBn]
        have hred : Reduced ⟨A, B.natAbs⟩ :=
          ⟨Int.natAbs_pos.mpr hB.ne', by simpa using hcop⟩
        have hval : (⟨A, B.natAbs⟩ : Q).val = (A : ℚ) / B := by
          simp [Q.val_def, hBq]
        refine ⟨⟨A, B.natAbs⟩, ?_, hred, ?_, ?_, ?_⟩
        · simp only [simplestIn, hrepr, hres, bind_ok', reduce_of_reduced _ hred]
          rfl
        · rw [hval]; exact h1
        · rw [hval]; exact h2
        · intro p s hs hp1 hp2
          have := hmin p s hs hp1 hp2
          simp only
          constructor <;> omega

end Dashu.Model.Ratio
