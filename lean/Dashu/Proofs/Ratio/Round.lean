import Dashu.Proofs.Ratio.Rem
/-
  `rational/src/round.rs`: `trunc`, `fract`, `split_at_point`, `floor`, `ceil`, `round`.
-/
namespace Dashu.Model.Ratio
open Dashu.Model

theorem divRemK_pos (a : ℤ) {b : ℕ} (hb : 0 < b) :
    divRemK a b = .ok (Int.tdiv a b, Int.tmod a b) := by
  simp [divRemK, hb.ne']

/-- facts about truncated division by a positive natural number, cast to `ℚ` -/
theorem tdecomp (a : ℤ) (b : ℕ) (hb : 0 < b) :
    (a : ℚ) = b * (Int.tdiv a b : ℚ) + (Int.tmod a b : ℚ) ∧
    (0 ≤ a → (0 : ℚ) ≤ (Int.tmod a b : ℚ)) ∧ (a < 0 → (Int.tmod a b : ℚ) ≤ 0) ∧
    (Int.tmod a b : ℚ) < b ∧ -(b : ℚ) < (Int.tmod a b : ℚ) := by
  have hbZ : (0 : ℤ) < b := by exact_mod_cast hb
  refine ⟨?_, ?_, ?_, ?_, ?_⟩
  · exact_mod_cast (Int.mul_tdiv_add_tmod a b).symm
  · intro h; exact_mod_cast Int.tmod_nonneg _ h
  · intro h
    have : 0 ≤ Int.tmod (-a) b := Int.tmod_nonneg _ (by omega)
    rw [Int.neg_tmod] at this
    have : Int.tmod a b ≤ 0 := by omega
    exact_mod_cast this
  · exact_mod_cast Int.tmod_lt_of_pos a hbZ
  · exact_mod_cast Int.lt_tmod_of_pos a hbZ

theorem nonneg_of_div_nonneg (a : ℤ) (b : ℕ) (hb : 0 < b) (h : (0 : ℚ) ≤ (a : ℚ) / b) : 0 ≤ a := by
  have hbq : (0 : ℚ) < b := by exact_mod_cast hb
  have := mul_nonneg h hbq.le
  rw [div_mul_cancel₀ _ hbq.ne'] at this
  exact_mod_cast this

theorem neg_of_div_neg (a : ℤ) (b : ℕ) (hb : 0 < b) (h : (a : ℚ) / b < 0) : a < 0 := by
  have hbq : (0 : ℚ) < b := by exact_mod_cast hb
  have := mul_neg_of_neg_of_pos h hbq
  rw [div_mul_cancel₀ _ hbq.ne'] at this
  exact_mod_cast this

/-- `Repr::trunc` -/
theorem trunc_bridge (a : ℤ) (b : ℕ) (hb : 0 < b) : Spec.trunc ((a : ℚ) / b) = Int.tdiv a b := by
  have hbq : (0 : ℚ) < b := by exact_mod_cast hb
  obtain ⟨hd, h1, h2, h3, h4⟩ := tdecomp a b hb
  unfold Spec.trunc
  by_cases h : (0 : ℚ) ≤ (a : ℚ) / b
  · have ha := nonneg_of_div_nonneg a b hb h
    have t0 := h1 ha
    rw [if_pos h, rat_floor_eq, Int.floor_eq_iff, le_div_iff₀ hbq, div_lt_iff₀ hbq, hd]
    constructor <;> nlinarith
  · have ha := neg_of_div_neg a b hb (not_le.mp h)
    have t0 := h2 ha
    rw [if_neg h, rat_floor_eq]
    have : ⌊-((a : ℚ) / b)⌋ = -Int.tdiv a b := by
      rw [Int.floor_eq_iff, neg_div', le_div_iff₀ hbq, div_lt_iff₀ hbq, hd]
      push_cast
      constructor <;> nlinarith
    rw [this, neg_neg]

theorem trunc_spec (x : Q) (hb : 0 < x.den) : trunc x = .ok (Spec.trunc x.val) := by
  simp [trunc, divRemK_pos _ hb, Q.val_def, trunc_bridge _ _ hb]

/-- `Repr::floor` -/
theorem floor_spec (x : Q) (hb : 0 < x.den) : floor x = .ok x.val.floor := by
  obtain ⟨a, b⟩ := x
  simp only at hb
  have hbq : (0 : ℚ) < b := by exact_mod_cast hb
  obtain ⟨hd, h1, h2, h3, h4⟩ := tdecomp a b hb
  simp only [floor, divRemK_pos _ hb, bind_ok', Q.val_mk, rat_floor_eq]
  congr 1
  symm
  by_cases ht : Int.tmod a b < 0
  · have htq : (Int.tmod a b : ℚ) < 0 := by exact_mod_cast ht
    rw [if_pos ht, Int.floor_eq_iff, le_div_iff₀ hbq, div_lt_iff₀ hbq, hd]
    push_cast
    constructor <;> nlinarith
  · have htq : (0 : ℚ) ≤ (Int.tmod a b : ℚ) := by exact_mod_cast (not_lt.mp ht)
    rw [if_neg ht, Int.floor_eq_iff, le_div_iff₀ hbq, div_lt_iff₀ hbq, hd]
    constructor <;> nlinarith

/-- `Repr::ceil` -/
theorem ceil_spec (x : Q) (hb : 0 < x.den) : ceil x = .ok x.val.ceil := by
  obtain ⟨a, b⟩ := x
  simp only at hb
  have hbq : (0 : ℚ) < b := by exact_mod_cast hb
  obtain ⟨hd, h1, h2, h3, h4⟩ := tdecomp a b hb
  simp only [ceil, divRemK_pos _ hb, bind_ok', Q.val_mk, Rat.ceil_eq_neg_floor_neg, rat_floor_eq]
  congr 1
  by_cases ht : Int.tmod a b > 0
  · have htq : (0 : ℚ) < (Int.tmod a b : ℚ) := by exact_mod_cast ht
    rw [if_pos ht]
    have : ⌊-((a : ℚ) / b)⌋ = -(Int.tdiv a b + 1) := by
      rw [Int.floor_eq_iff, neg_div', le_div_iff₀ hbq, div_lt_iff₀ hbq, hd]
      push_cast
      constructor <;> nlinarith
    rw [this, neg_neg]
  · have htq : (Int.tmod a b : ℚ) ≤ 0 := by exact_mod_cast (not_lt.mp ht)
    rw [if_neg ht]
    have : ⌊-((a : ℚ) / b)⌋ = -(Int.tdiv a b) := by
      rw [Int.floor_eq_iff, neg_div', le_div_iff₀ hbq, div_lt_iff₀ hbq, hd]
      push_cast
      constructor <;> nlinarith
    rw [this, neg_neg]

/-- `Repr::round`: nearest integer, ties away from zero -/
theorem round_spec (x : Q) (hb : 0 < x.den) : round x = .ok (Spec.round x.val) := by
  obtain ⟨a, b⟩ := x
  simp only at hb
  have hbq : (0 : ℚ) < b := by exact_mod_cast hb
  obtain ⟨hd, h1, h2, h3, h4⟩ := tdecomp a b hb
  simp only [round, divRemK_pos _ hb, bind_ok', Q.val_mk]
  congr 1
  symm
  set t := Int.tmod a b with ht
  set q0 := Int.tdiv a b with hq0
  have habs : ((t.natAbs : ℕ) : ℚ) = |(t : ℚ)| := by
    rw [← Int.cast_natCast, Int.natCast_natAbs, Int.cast_abs]
  by_cases hc : t.natAbs * 2 ≥ b
  · have hcq : (b : ℚ) ≤ |(t : ℚ)| * 2 := by
      rw [← habs]; exact_mod_cast hc
    rw [if_pos hc]
    by_cases ha : a < 0
    · rw [if_pos ha]
      have t0 := h2 ha
      rw [abs_of_nonpos t0] at hcq
      apply round_eq_of_bounds
      · intro hq
        have := nonneg_of_div_nonneg a b hb hq
        omega
      · intro _
        rw [lt_div_iff₀ hbq, div_le_iff₀ hbq, hd]
        push_cast
        constructor <;> nlinarith
    · rw [if_neg ha]
      have t0 := h1 (not_lt.mp ha)
      rw [abs_of_nonneg t0] at hcq
      apply round_eq_of_bounds
      · intro _
        rw [le_div_iff₀ hbq, div_lt_iff₀ hbq, hd]
        push_cast
        constructor <;> nlinarith
      · intro hq
        have := neg_of_div_neg a b hb hq
        omega
  · have hcq : |(t : ℚ)| * 2 < b := by
      rw [← habs]; exact_mod_cast (not_le.mp hc)
    rw [if_neg hc]
    apply round_eq_of_bounds
    · intro hq
      have t0 := h1 (nonneg_of_div_nonneg a b hb hq)
      rw [abs_of_nonneg t0] at hcq
      rw [le_div_iff₀ hbq, div_lt_iff₀ hbq, hd]
      constructor <;> nlinarith
    · intro hq
      have t0 := h2 (neg_of_div_neg a b hb hq)
      rw [abs_of_nonpos t0] at hcq
      rw [lt_div_iff₀ hbq, div_le_iff₀ hbq, hd]
      constructor <;> nlinarith

theorem fract_val (a : ℤ) (b : ℕ) (hb : 0 < b) :
    ((Int.tmod a b : ℤ) : ℚ) / b = (a : ℚ) / b - (Spec.trunc ((a : ℚ) / b) : ℚ) := by
  have hbq : (b : ℚ) ≠ 0 := by exact_mod_cast hb.ne'
  rw [trunc_bridge a b hb, Int.tmod_def]
  push_cast; field_simp

/-- `Repr::fract` on an `RBig`: "no need to reduce here" (round.rs) is right -/
theorem R.fract_spec (x : Q) (hx : Reduced x) :
    ∃ r, fract x = .ok r ∧ Reduced r ∧ r.val = x.val - (Spec.trunc x.val : ℚ) := by
  obtain ⟨a, b⟩ := x
  have hb : 0 < b := hx.den_pos
  have hab : IsCoprime a (b : ℤ) := hx.isCoprime
  simp only [fract, divRemK_pos _ hb, bind_ok', Q.val_mk]
  refine ⟨_, rfl, ?_, ?_⟩
  · split
    · exact reduced_zero
    · rw [reduced_iff_isCoprime]
      refine ⟨hb, ?_⟩
      have := hab.add_mul_left_left (-(Int.tdiv a b))
      rw [Int.tmod_def]
      simpa [sub_eq_add_neg] using this
  · rw [← fract_val a b hb]
    split
    · rename_i h0; simp [Q.zero, h0]
    · rfl

/-- `Repr::fract` on a `Relaxed` -/
theorem X.fract_spec (x : Q) (hx : RelaxedInv x) :
    ∃ r, fract x = .ok r ∧ RelaxedInv r ∧ r.val = x.val - (Spec.trunc x.val : ℚ) := by
  obtain ⟨a, b⟩ := x
  have hb : 0 < b := hx.den_pos
  simp only [fract, divRemK_pos _ hb, bind_ok', Q.val_mk]
  refine ⟨_, rfl, ?_, ?_⟩
  · split
    · exact relaxedInv_zero
    · refine ⟨hb, ?_⟩
      rintro ⟨e1, e2⟩
      apply hx.2
      change (Int.tmod a b) % 2 = 0 at e1
      change b % 2 = 0 at e2
      have e2' : (b : ℤ) % 2 = 0 := by omega
      refine ⟨?_, e2⟩
      have := emod_two_add_mul a b (-(Int.tdiv a b)) e2'
      rw [Int.tmod_def, sub_eq_add_neg, ← mul_neg] at e1
      rw [this] at e1
      exact e1
  · rw [← fract_val a b hb]
    split
    · rename_i h0; simp [Q.zero, h0]
    · rfl

/-- `Repr::split_at_point` = `(trunc, fract)` -/
theorem splitAtPoint_eq (x : Q) (hb : 0 < x.den) :
    splitAtPoint x = (trunc x >>= fun t => fract x >>= fun f => pure (t, f)) := by
  simp [splitAtPoint, trunc, fract, divRemK_pos _ hb]

end Dashu.Model.Ratio
