import Dashu.Proofs.Macro.RatLoop
/-
  C20 — the token loop of `parse_integer_with_error` since /repo e26a9db accepts exactly
  `[sign] value [base N]` (sign only for the signed macros).
-/
namespace Dashu.Model.Macro
open Dashu.Model.Serde

theorem IWF_init (signed : Bool) : IWF signed {} := by unfold IWF; simp

theorem intStep_spec (signed : Bool) (st st' : IS) (t : Tok) (h : intStepNew signed st t = some st') (wf : IWF signed st) :
    IWF signed st' ∧ renderInt st' = renderInt st ++ [t] := by
  obtain ⟨w1, w2, w3, w4⟩ := wf
  obtain ⟨sign, val, baseMarked, base⟩ := st
  simp only at w1 w2 w3 w4
  cases t with
  | group g => simp [intStepNew] at h
  | lit s =>
    simp only [intStepNew] at h
    split at h
    · rename_i c; simp at c; subst c
      have := w1 rfl; subst this
      have := w2 rfl; subst this
      simp at h; subst h
      exact ⟨by unfold IWF; simp [isVal]; exact w3, by simp [renderInt]⟩
    · split at h
      · rename_i c0 c; simp at c; obtain ⟨c1, c2⟩ := c; subst c1; subst c2
        simp at h; subst h
        refine ⟨?_, by simp [renderInt]⟩
        unfold IWF; simp
        exact ⟨fun e => by rw [e] at c0; simp at c0, w3, w4⟩
      · simp at h
  | ident s =>
    simp only [intStepNew] at h
    split at h
    · rename_i c; simp at c; subst c
      have := w1 rfl; subst this
      have := w2 rfl; subst this
      simp at h; subst h
      exact ⟨by unfold IWF; simp [isVal]; exact w3, by simp [renderInt]⟩
    · split at h
      · rename_i c0 c; simp at c; obtain ⟨⟨c1, c2⟩, c3⟩ := c; subst c1; subst c2; subst c3
        simp at h; subst h
        refine ⟨?_, by simp [renderInt]⟩
        unfold IWF; simp
        exact ⟨fun e => by rw [e] at c0; simp at c0, w3, w4⟩
      · simp at h
  | punct c =>
    simp only [intStepNew] at h
    split at h
    · rename_i c0
      simp at c0; obtain ⟨⟨⟨c1, c2⟩, c3⟩, c4⟩ := c0; subst c1; subst c2; subst c3
      have := w1 rfl; subst this
      have := w2 rfl; subst this
      simp at h; subst h
      refine ⟨by unfold IWF; simp, ?_⟩
      rcases c4 with e | e <;> subst e <;> simp [renderInt, signTok]
    · simp at h

theorem intLoop_spec (signed : Bool) (toks : List Tok) : ∀ (st st' : IS), intLoopNew signed st toks = some st' →
    IWF signed st → IWF signed st' ∧ renderInt st' = renderInt st ++ toks := by
  induction toks with
  | nil => intro st st' h wf; simp [intLoopNew] at h; subst h; exact ⟨wf, by simp⟩
  | cons t ts ih =>
    intro st st' h wf
    simp only [intLoopNew] at h
    cases h1 : intStepNew signed st t with
    | none => simp [h1] at h
    | some s1 =>
      simp [h1] at h
      obtain ⟨wf1, r1⟩ := intStep_spec signed st s1 t h1 wf
      obtain ⟨wf2, r2⟩ := ih s1 st' h wf1
      exact ⟨wf2, by rw [r2, r1]; simp⟩

/-- **soundness**: an accepted token list is `[sign] value [base [N]]`, the sign only for signed macros -/
theorem intLoopNew_sound (signed : Bool) (toks : List Tok) (st : IS) (h : intLoopNew signed {} toks = some st) :
    toks = renderInt st ∧ IWF signed st := by
  obtain ⟨wf, r⟩ := intLoop_spec signed toks {} st h (IWF_init signed)
  exact ⟨by rw [r]; simp [renderInt, signTok], wf⟩

/-- **completeness** -/
theorem intLoopNew_complete (signed : Bool) (st : IS) (wf : IWF signed st) :
    intLoopNew signed {} (renderInt st) = some st := by
  obtain ⟨w1, w2, w3, w4⟩ := wf
  obtain ⟨sign, val, baseMarked, base⟩ := st
  simp only at w1 w2 w3 w4
  have hs : sign ≠ none → signed = true := w3
  have key : ∀ (sg : Option Bool), (sg ≠ none → signed = true) →
      intLoopNew signed {} (renderInt ⟨sg, val, baseMarked, base⟩) = some ⟨sg, val, baseMarked, base⟩ := by
    intro sg hsg
    cases val with
    | none =>
      have := w1 rfl; subst this
      have := w2 rfl; subst this
      rcases sg with _ | _ | _
      · simp [renderInt, intLoopNew, signTok]
      · have := hsg (by simp); subst this; simp [renderInt, intLoopNew, intStepNew, signTok]
      · have := hsg (by simp); subst this; simp [renderInt, intLoopNew, intStepNew, signTok]
    | some tv =>
      have hv := w4 tv rfl
      rcases sg with _ | _ | _
      · cases baseMarked with
        | false =>
          have := w2 rfl; subst this
          cases tv <;> simp [isVal] at hv <;> simp [renderInt, intLoopNew, intStepNew, signTok]
        | true =>
          cases base <;> cases tv <;> simp [isVal] at hv <;>
            simp [renderInt, intLoopNew, intStepNew, signTok, baseKw_beq]
      · have := hsg (by simp); subst this
        cases baseMarked with
        | false =>
          have := w2 rfl; subst this
          cases tv <;> simp [isVal] at hv <;> simp [renderInt, intLoopNew, intStepNew, signTok]
        | true =>
          cases base <;> cases tv <;> simp [isVal] at hv <;>
            simp [renderInt, intLoopNew, intStepNew, signTok, baseKw_beq]
      · have := hsg (by simp); subst this
        cases baseMarked with
        | false =>
          have := w2 rfl; subst this
          cases tv <;> simp [isVal] at hv <;> simp [renderInt, intLoopNew, intStepNew, signTok]
        | true =>
          cases base <;> cases tv <;> simp [isVal] at hv <;>
            simp [renderInt, intLoopNew, intStepNew, signTok, baseKw_beq]
  exact key sign hs

theorem signTok_eq_signToks (sg : Option Bool) : signTok sg = signToks sg := by
  rcases sg with _ | _ | _ <;> rfl

/-- what the loop accepts, and the code after it does not reject (`val.unwrap()`, `base` without a
    radix literal), is a documented literal `docInt sign value base` — to which
    `int_literal_is_runtime_parse` applies -/
theorem intLoopNew_accepts_documented (signed : Bool) (toks : List Tok) (st : IS) (vt : Tok)
    (h : intLoopNew signed {} toks = some st) (hv : st.val = some vt) (hb : st.baseMarked = true → st.base ≠ none) :
    toks = docInt st.sign vt st.base ∧ (∃ val, isValTok vt = some val) ∧ (st.sign = none ∨ signed = true) := by
  obtain ⟨hr, wf⟩ := intLoopNew_sound signed toks st h
  obtain ⟨w1, w2, w3, w4⟩ := wf
  refine ⟨?_, ?_, ?_⟩
  · rw [hr]
    unfold renderInt docInt
    rw [signTok_eq_signToks, hv]
    cases hbm : st.baseMarked with
    | false => simp [w2 hbm, baseToks]
    | true =>
      cases hbase : st.base with
      | none => exact absurd hbase (hb hbm)
      | some b => simp [baseToks]
  · have := w4 vt hv
    cases vt <;> simp [isVal] at this <;> simp [isValTok]
  · by_cases hs : st.sign = none
    · exact Or.inl hs
    · exact Or.inr (w3 hs)

/-- **accepted ⇒ the run-time parser's value**: whatever `parse_integer_with_error` (since e26a9db)
    accepts is a documented literal and its value is what the model prescribes -/
theorem intNew_is_literal (signed : Bool) (toks : List Tok) (neg : Bool) (m : Nat)
    (htok : ∀ t ∈ toks, isVal t = true → NoSign t.text)
    (h : intNew signed toks = some (neg, m)) : intLiteral signed toks = some (signedVal neg m) := by
  unfold intNew at h
  cases hl : intLoopNew signed {} toks with
  | none => simp [hl] at h
  | some st =>
    simp only [hl, Option.bind_some] at h
    unfold intFinishNew at h
    cases hv : st.val with
    | none => simp [hv] at h
    | some vt =>
      simp only [hv] at h
      have hb : st.baseMarked = true → st.base ≠ none := by
        intro hbm hbase
        simp [hbase, hbm] at h
      obtain ⟨hdoc, ⟨val, hval⟩, hs⟩ := intLoopNew_accepts_documented signed toks st vt hl hv hb
      have htext : vt.text = val := by
        cases vt <;> simp [isValTok] at hval <;> simp [Tok.text, hval]
      have hmem : vt ∈ toks := by
        rw [hdoc]; unfold docInt; simp
      have hisv : isVal vt = true := by
        cases vt <;> simp [isValTok] at hval <;> simp [isVal]
      have hns : NoSign val := by rw [← htext]; exact htok vt hmem hisv
      have hlit := (intLiteral_doc signed st.sign vt val st.base hval hns hs).1
      rw [hdoc, hlit]
      -- the finish computation is `parseMag`
      have hpm : parseMag val st.base = some m ∧ (st.sign == some true) = neg := by
        rw [htext] at h
        unfold parseMag
        cases hbase : st.base with
        | some b =>
          simp only [hbase] at h
          cases hp : parseU32 b with
          | none => simp [hp] at h
          | some r =>
            simp only [hp, Option.bind_some] at h ⊢
            cases hu : ubigRadixOpt val r with
            | none => simp [hu] at h
            | some mm => simp [hu] at h ⊢; exact ⟨h.2, h.1⟩
        | none =>
          simp only [hbase] at h
          have hbm : st.baseMarked = false := by
            by_contra hc
            exact hb (by simpa using hc) hbase
          simp only [hbm, Bool.false_eq_true, if_false] at h
          cases hu : ubigPrefixOpt val 10 with
          | none => simp [hu] at h
          | some p => simp [hu] at h ⊢; exact ⟨h.2, h.1⟩
      rw [hpm.1, hpm.2]
      rfl

end Dashu.Model.Macro
