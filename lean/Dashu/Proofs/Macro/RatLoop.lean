import Dashu.Proofs.Macro.Grammar
/-
  C20 — the token loop of `parse_ratio_with_error` as it is since /repo e26a9db, and the proof that it
  accepts exactly the documented grammar  `[~] [sign] value [/ [sign] value] [base N]`:
    * `ratLoopNew_sound`     whatever the loop accepts is the rendering of its final state (so it has
                             that shape, in that order, nothing repeated or misplaced);
    * `ratLoopNew_complete`  every well-formed state's rendering is accepted, reaching that state.
-/
namespace Dashu.Model.Macro
open Dashu.Model.Serde

theorem WF_init : WF {} := by
  unfold WF; simp

theorem signTok_none : signTok none = [] := rfl

/-- one accepted token: the invariant is kept and the token is appended to the rendering -/
theorem step_spec (st st' : RS) (t : Tok) (h : ratStepNew st t = some st') (wf : WF st) :
    WF st' ∧ render st' = render st ++ [t] := by
  obtain ⟨w1, w2, w3, w4, w5, w6⟩ := wf
  obtain ⟨rel, nSign, nVal, marked, dSign, dVal, baseMarked, base⟩ := st
  simp only at w1 w2 w3 w4 w5 w6
  cases t with
  | group g => simp [ratStepNew] at h
  | lit s =>
    simp only [ratStepNew] at h
    split at h
    · rename_i c
      simp at c; obtain ⟨c1, c2⟩ := c; subst c1; subst c2
      obtain ⟨_, b⟩ := w1 rfl; subst b
      obtain ⟨e1, e2⟩ := w2 rfl; subst e1; subst e2
      have := w3 rfl; subst this
      simp at h; subst h
      refine ⟨?_, by simp [render, signTok]⟩
      unfold WF; simp [isVal]
    · split at h
      · rename_i c0 c
        simp at c; obtain ⟨⟨c1, c2⟩, c3⟩ := c; subst c1; subst c2; subst c3
        have := w3 rfl; subst this
        simp at h; subst h
        refine ⟨?_, by simp [render, signTok]⟩
        unfold WF; simp [isVal]
        refine ⟨?_, w5⟩
        intro e; exact absurd (w1 e).1 (by simp)
      · split at h
        · rename_i c0 c1 c
          simp at c; obtain ⟨c2, c3⟩ := c; subst c2; subst c3
          simp at h; subst h
          refine ⟨?_, by simp [render, signTok]⟩
          unfold WF; simp
          exact ⟨fun e => absurd (w1 e).2 (by simp), w2, fun a b => w4 rfl a b, w5, w6⟩
        · simp at h
  | ident s =>
    simp only [ratStepNew] at h
    split at h
    · rename_i c
      simp at c; obtain ⟨c1, c2⟩ := c; subst c1; subst c2
      obtain ⟨_, b⟩ := w1 rfl; subst b
      obtain ⟨e1, e2⟩ := w2 rfl; subst e1; subst e2
      have := w3 rfl; subst this
      simp at h; subst h
      refine ⟨?_, by simp [render, signTok]⟩
      unfold WF; simp [isVal]
    · split at h
      · rename_i c0 c
        simp at c; obtain ⟨⟨c1, c2⟩, c3⟩ := c; subst c1; subst c2; subst c3
        have := w3 rfl; subst this
        simp at h; subst h
        refine ⟨?_, by simp [render, signTok]⟩
        unfold WF; simp [isVal]
        refine ⟨?_, w5⟩
        intro e; exact absurd (w1 e).1 (by simp)
      · split at h
        · rename_i c0 c1 c
          simp at c; obtain ⟨⟨c2, c3⟩, c4⟩ := c; subst c2; subst c3; subst c4
          simp at h; subst h
          refine ⟨?_, by simp [render, signTok]⟩
          unfold WF; simp
          refine ⟨?_, w2, ?_, w5, w6⟩
          · intro e; subst e
            have := (w1 rfl).1
            simp [this] at c0
          · intro hm hd; subst hm; subst hd; simp at c1
        · simp at h
  | punct c =>
    simp only [ratStepNew] at h
    split at h
    · -- `/`
      rename_i hc
      have hc' : c = 47 := by simpa using hc
      subst hc'
      split at h
      · rename_i c0
        simp at c0; obtain ⟨⟨c1, c2⟩, c3⟩ := c0; subst c2; subst c3
        obtain ⟨e1, e2⟩ := w2 rfl; subst e1; subst e2
        have := w3 rfl; subst this
        simp at h; subst h
        refine ⟨?_, by simp [render, signTok]⟩
        unfold WF; simp
        refine ⟨?_, w5⟩
        intro e; rw [e] at c1; simp at c1
      · simp at h
    · split at h
      · -- `~`
        rename_i hc0 hc
        have hc' : c = 126 := by simpa using hc
        subst hc'
        split at h
        · rename_i c0
          simp at c0; obtain ⟨⟨⟨c1, c2⟩, c3⟩, c4⟩ := c0; subst c1; subst c2; subst c3; subst c4
          obtain ⟨_, b⟩ := w1 rfl; subst b
          obtain ⟨e1, e2⟩ := w2 rfl; subst e1; subst e2
          have := w3 rfl; subst this
          simp at h; subst h
          refine ⟨?_, by simp [render, signTok]⟩
          unfold WF; simp
        · simp at h
      · split at h
        · simp at h
        · rename_i hc0 hc1 hc2
          have hsign : c = 45 ∨ c = 43 := by
            simp at hc2
            by_cases e : c = 45
            · exact Or.inl e
            · exact Or.inr (hc2 e)
          split at h
          · -- sign of the numerator
            rename_i c0
            simp at c0; obtain ⟨⟨c1, c2⟩, c3⟩ := c0; subst c1; subst c2; subst c3
            obtain ⟨_, b⟩ := w1 rfl; subst b
            obtain ⟨e1, e2⟩ := w2 rfl; subst e1; subst e2
            have := w3 rfl; subst this
            simp at h; subst h
            refine ⟨by unfold WF; simp, ?_⟩
            rcases hsign with e | e <;> subst e <;> simp [render, signTok]
          · split at h
            · -- sign of the denominator
              rename_i c0 c1
              simp at c1; obtain ⟨⟨d1, d2⟩, d3⟩ := c1; subst d1; subst d2; subst d3
              have hb : baseMarked = false := by
                by_contra hb
                have hb' : baseMarked = true := by simpa using hb
                exact w4 hb' rfl rfl
              subst hb
              have := w3 rfl; subst this
              simp at h; subst h
              refine ⟨?_, ?_⟩
              · unfold WF; simp
                exact ⟨fun e => absurd (w1 e).1 (by simp), w5⟩
              · rcases hsign with e | e <;> subst e <;> simp [render, signTok]
            · simp at h

theorem loop_spec (toks : List Tok) : ∀ (st st' : RS), ratLoopNew st toks = some st' → WF st →
    WF st' ∧ render st' = render st ++ toks := by
  induction toks with
  | nil => intro st st' h wf; simp [ratLoopNew] at h; subst h; exact ⟨wf, by simp⟩
  | cons t ts ih =>
    intro st st' h wf
    simp only [ratLoopNew] at h
    cases h1 : ratStepNew st t with
    | none => simp [h1] at h
    | some s1 =>
      simp [h1] at h
      obtain ⟨wf1, r1⟩ := step_spec st s1 t h1 wf
      obtain ⟨wf2, r2⟩ := ih s1 st' h wf1
      exact ⟨wf2, by rw [r2, r1]; simp⟩

/-- **soundness**: an accepted token list is the rendering of the final state — sign, value, slash,
    `~` and `base N` each occur at most once and in the documented order -/
theorem ratLoopNew_sound (toks : List Tok) (st : RS) (h : ratLoopNew {} toks = some st) :
    toks = render st ∧ WF st := by
  obtain ⟨wf, r⟩ := loop_spec toks {} st h WF_init
  refine ⟨?_, wf⟩
  rw [r]; simp [render, signTok]

theorem ratLoopNew_append (a b : List Tok) : ∀ st, ratLoopNew st (a ++ b) = (ratLoopNew st a).bind fun s => ratLoopNew s b := by
  induction a with
  | nil => intro st; simp [ratLoopNew]
  | cons t ts ih =>
    intro st
    simp only [List.cons_append, ratLoopNew]
    cases ratStepNew st t with
    | none => simp
    | some s1 => simp [ih s1]

theorem baseKw_beq : (baseKw == baseKw) = true := by decide

set_option maxHeartbeats 1600000 in
/-- **completeness**: the rendering of any well-formed state is accepted and leads to that state -/
theorem ratLoopNew_complete (st : RS) (wf : WF st) : ratLoopNew {} (render st) = some st := by
  obtain ⟨w1, w2, w3, w4, w5, w6⟩ := wf
  obtain ⟨rel, nSign, nVal, marked, dSign, dVal, baseMarked, base⟩ := st
  simp only at w1 w2 w3 w4 w5 w6
  cases nVal with
  | none =>
    obtain ⟨a, b⟩ := w1 rfl; subst a; subst b
    obtain ⟨c, d⟩ := w2 rfl; subst c; subst d
    have := w3 rfl; subst this
    cases rel <;> rcases nSign with _ | _ | _ <;>
      simp [render, ratLoopNew, ratStepNew, signTok]
  | some tn =>
    have hn := w5 tn rfl
    cases marked with
    | false =>
      obtain ⟨c, d⟩ := w2 rfl; subst c; subst d
      cases baseMarked with
      | false =>
        have := w3 rfl; subst this
        cases tn <;> simp [isVal] at hn <;> cases rel <;> rcases nSign with _ | _ | _ <;>
          simp [render, ratLoopNew, ratStepNew, signTok]
      | true =>
        cases base <;> cases tn <;> simp [isVal] at hn <;> cases rel <;> rcases nSign with _ | _ | _ <;>
          simp [render, ratLoopNew, ratStepNew, signTok, baseKw_beq]
    | true =>
      cases dVal with
      | none =>
        have hb : baseMarked = false := by
          by_contra hb
          have hb' : baseMarked = true := by simpa using hb
          exact w4 hb' rfl rfl
        subst hb
        have := w3 rfl; subst this
        cases tn <;> simp [isVal] at hn <;> cases rel <;> rcases nSign with _ | _ | _ <;>
          rcases dSign with _ | _ | _ <;>
          simp [render, ratLoopNew, ratStepNew, signTok]
      | some td =>
        have hd := w6 td rfl
        cases baseMarked with
        | false =>
          have := w3 rfl; subst this
          cases tn <;> simp [isVal] at hn <;> cases td <;> simp [isVal] at hd <;> cases rel <;>
            rcases nSign with _ | _ | _ <;> rcases dSign with _ | _ | _ <;>
            simp [render, ratLoopNew, ratStepNew, signTok]
        | true =>
          cases base <;> cases tn <;> simp [isVal] at hn <;> cases td <;> simp [isVal] at hd <;> cases rel <;>
            rcases nSign with _ | _ | _ <;> rcases dSign with _ | _ | _ <;>
            simp [render, ratLoopNew, ratStepNew, signTok, baseKw_beq]

-- ================================================================ the value computed after the loop

/-- the value tokens are single Literal / Ident tokens: no sign character in front, no `/` inside -/
def TokOK (st : RS) : Prop :=
  (∀ t, st.nVal = some t → NoSign t.text ∧ 47 ∉ t.text) ∧ (∀ t, st.dVal = some t → NoSign t.text ∧ 47 ∉ t.text)

theorem pdCore_full (neg : Bool) (rest : Bytes) (d : Nat) :
    optOk (pdCore neg rest d) =
      (optOk (pdCore false rest d)).map fun p => (signedVal neg p.1.toNat, p.2) := by
  unfold pdCore
  by_cases hv : Text.validRadix (Text.splitPrefix d rest).1 = true
  · simp only [hv, Bool.not_true, Bool.false_eq_true, if_false]
    cases Text.parseBodySpec (Text.splitPrefix d rest).1 (Text.splitPrefix d rest).2 with
    | error e => simp [Except.map, optOk]
    | ok n => cases neg <;> simp [Except.map, optOk, Text.applySign, signedVal]
  · simp [hv, optOk]

/-- signed run-time parse of `sign ++ val` = unsigned parse of `val` with the sign applied, same radix -/
theorem ibigPrefix_sign_full (sg : Option Bool) (val : Bytes) (h : NoSign val) (d : Nat) :
    ibigPrefixOpt (signText sg ++ val) d =
      (ubigPrefixOpt val d).map fun p => (signedVal (optSign sg) p.1, p.2) := by
  rw [ibigPrefixOpt_eq, ubigPrefixOpt_eq, parseDefaultSpec_eq, parseDefaultSpec_eq, splitSign_noSign false val h]
  have key : ∀ neg, optOk (pdCore neg val d) =
      ((optOk (pdCore false val d)).map fun p => (p.1.toNat, p.2)).map fun p => (signedVal neg p.1, p.2) := by
    intro neg
    rw [pdCore_full neg val d]
    cases optOk (pdCore false val d) <;> simp
  cases sg with
  | none =>
    simp only [signText, List.nil_append, optSign]
    rw [splitSign_noSign true val h]
    exact key false
  | some neg =>
    cases neg
    · simp only [signText, List.singleton_append, optSign]
      rw [splitSign_plus]
      exact key false
    · simp only [signText, List.singleton_append, optSign]
      rw [splitSign_minus]
      exact key true

theorem signText_no_slash (sg : Option Bool) : 47 ∉ signText sg := by
  rcases sg with _ | _ | _ <;> simp [signText]

theorem signedVal_neg_iff (b : Bool) (m : Nat) : signedVal b m < 0 ↔ (b = true ∧ m ≠ 0) := by
  unfold signedVal; cases b <;> simp <;> omega

theorem signedVal_natAbs (b : Bool) (m : Nat) : (signedVal b m).natAbs = m := by
  unfold signedVal; cases b <;> simp

theorem signedVal_combine (a b : Bool) (n m : Nat) (hm : m ≠ 0) :
    (if signedVal b m < 0 then -(signedVal a n) else signedVal a n) = signedVal (a != b) n := by
  unfold signedVal
  cases a <;> cases b <;> simp <;> omega

/-- **the value**: on an accepted literal the macro's own computation (unsigned parses of the value
    tokens, signs from the sign tokens, `from_parts_signed`) is the run-time parser on the text -/
theorem ratFinishNew_eq_runtime (st : RS) (wf : WF st) (tok : TokOK st) (fin : finalOK st) :
    ratFinishNew st = ratRuntime st.rel (ratText st) st.base := by
  obtain ⟨w1, w2, w3, w4, w5, w6⟩ := wf
  obtain ⟨t1, t2⟩ := tok
  obtain ⟨f1, f2, f3⟩ := fin
  obtain ⟨rel, nSign, nVal, marked, dSign, dVal, baseMarked, base⟩ := st
  simp only at w1 w2 w3 w4 w5 w6 t1 t2 f1 f2 f3
  cases nVal with
  | none => exact absurd rfl f1
  | some nt =>
    obtain ⟨ns, nslash⟩ := t1 nt rfl
    cases marked with
    | false =>
      obtain ⟨c, d⟩ := w2 rfl; subst c; subst d
      have hsplit : splitAt1 47 (signText nSign ++ nt.text) = none :=
        splitAt1_none 47 _ (by
          intro h; rcases List.mem_append.mp h with h | h
          · exact signText_no_slash nSign h
          · exact nslash h)
      cases base with
      | some b =>
        simp only [ratFinishNew, ratRuntime, ratText, ratRaw, tokText, Bool.false_and, Bool.false_eq_true,
          if_false, List.append_nil, parseQRadixRaw, hsplit]
        cases parseU32 b with
        | none => simp
        | some r =>
          simp only [Option.bind_some]
          rw [ibigRadix_sign nSign nt.text ns r]
          cases ubigRadixOpt nt.text r with
          | none => simp
          | some n => simp [optSign, signedVal]
      | none =>
        have hb : baseMarked = false := by
          by_contra hb
          exact f3 (by simpa using hb) rfl
        subst hb
        simp only [ratFinishNew, ratRuntime, ratText, ratRaw, tokText, Bool.false_and, Bool.false_eq_true,
          if_false, List.append_nil, parseQRaw, hsplit]
        have := ibigPrefix_sign_full nSign nt.text ns 10
        rw [ibigPrefixOpt_eq] at this
        cases hp : ubigPrefixOpt nt.text 10 with
        | none =>
          rw [hp] at this
          cases hq : Text.parseDefaultSpec true (signText nSign ++ nt.text) 10 with
          | error e => simp
          | ok v => rw [hq] at this; simp [optOk] at this
        | some p =>
          rw [hp] at this
          cases hq : Text.parseDefaultSpec true (signText nSign ++ nt.text) 10 with
          | error e => rw [hq] at this; simp [optOk] at this
          | ok v =>
            rw [hq] at this
            simp [optOk] at this
            obtain ⟨v1, v2⟩ := v
            simp at this
            obtain ⟨e1, e2⟩ := this
            subst e1
            simp [optSign, signedVal]
    | true =>
      cases dVal with
      | none => exact absurd rfl (f2 rfl)
      | some dt =>
        obtain ⟨ds, dslash⟩ := t2 dt rfl
        have hsplit : splitAt1 47 (signText nSign ++ nt.text ++ ([47] ++ signText dSign ++ dt.text)) =
            some (signText nSign ++ nt.text, signText dSign ++ dt.text) := by
          have : signText nSign ++ nt.text ++ ([47] ++ signText dSign ++ dt.text) =
              (signText nSign ++ nt.text) ++ 47 :: (signText dSign ++ dt.text) := by simp
          rw [this]
          exact splitAt1_append 47 _ _ (by
            intro h; rcases List.mem_append.mp h with h | h
            · exact signText_no_slash nSign h
            · exact nslash h)
        cases base with
        | some b =>
          simp only [ratFinishNew, ratRuntime, ratText, ratRaw, tokText, Option.isNone_some, Bool.and_false,
            Bool.false_eq_true, if_false, if_true, parseQRadixRaw, hsplit]
          cases parseU32 b with
          | none => simp
          | some r =>
            simp only [Option.bind_some]
            rw [ibigRadix_sign nSign nt.text ns r, ibigRadix_sign dSign dt.text ds r]
            cases ubigRadixOpt nt.text r with
            | none => simp
            | some n =>
              cases ubigRadixOpt dt.text r with
              | none => simp
              | some d =>
                by_cases hd : d = 0
                · subst hd; simp [signedVal_natAbs]
                · simp [hd, signedVal_natAbs, optSign]
                  rw [signedVal_combine _ _ n d hd]
        | none =>
          have hb : baseMarked = false := by
            by_contra hb
            exact f3 (by simpa using hb) rfl
          subst hb
          simp only [ratFinishNew, ratRuntime, ratText, ratRaw, tokText, Option.isNone_some, Bool.and_false,
            Bool.false_eq_true, if_false, if_true, parseQRaw, hsplit]
          have hn := ibigPrefix_sign_full nSign nt.text ns 10
          rw [ibigPrefixOpt_eq] at hn
          cases hp : ubigPrefixOpt nt.text 10 with
          | none =>
            rw [hp] at hn
            cases hq : Text.parseDefaultSpec true (signText nSign ++ nt.text) 10 with
            | error e => simp
            | ok v => rw [hq] at hn; simp [optOk] at hn
          | some p =>
            rw [hp] at hn
            cases hq : Text.parseDefaultSpec true (signText nSign ++ nt.text) 10 with
            | error e => rw [hq] at hn; simp [optOk] at hn
            | ok v =>
              rw [hq] at hn
              simp [optOk] at hn
              obtain ⟨v1, v2⟩ := v
              simp at hn
              obtain ⟨e1, e2⟩ := hn
              subst e1; subst e2
              simp only [Option.bind_some]
              have hdn := ibigPrefix_sign_full dSign dt.text ds p.2
              rw [ibigPrefixOpt_eq] at hdn
              cases hp2 : ubigPrefixOpt dt.text p.2 with
              | none =>
                rw [hp2] at hdn
                cases hq2 : Text.parseDefaultSpec true (signText dSign ++ dt.text) p.2 with
                | error e => simp
                | ok w => rw [hq2] at hdn; simp [optOk] at hdn
              | some q =>
                rw [hp2] at hdn
                cases hq2 : Text.parseDefaultSpec true (signText dSign ++ dt.text) p.2 with
                | error e => rw [hq2] at hdn; simp [optOk] at hdn
                | ok w =>
                  rw [hq2] at hdn
                  simp [optOk] at hdn
                  obtain ⟨w1', w2'⟩ := w
                  simp at hdn
                  obtain ⟨g1, g2⟩ := hdn
                  subst g1; subst g2
                  simp only [Option.bind_some]
                  by_cases hr : p.2 = q.2
                  · by_cases hd : q.1 = 0
                    · simp [hr, hd, signedVal_natAbs]
                    · simp [hr, hd, signedVal_natAbs]
                      rw [signedVal_combine (optSign nSign) (optSign dSign) p.1 q.1 hd]
                  · simp [hr]

theorem ratFinishNew_not_final (st : RS) (h : ¬ finalOK st) : ratFinishNew st = none := by
  obtain ⟨rel, nSign, nVal, marked, dSign, dVal, baseMarked, base⟩ := st
  unfold finalOK at h
  simp only at h
  cases nVal with
  | none => simp [ratFinishNew]
  | some nt =>
    by_cases hm : marked = true ∧ dVal = none
    · obtain ⟨a, b⟩ := hm; subst a; subst b; simp [ratFinishNew]
    · have hb : baseMarked = true ∧ base = none := by
        by_contra hc
        apply h
        refine ⟨by simp, ?_, ?_⟩
        · intro a b; exact hm ⟨a, b⟩
        · intro a b; exact hc ⟨a, b⟩
      obtain ⟨a, b⟩ := hb; subst a; subst b
      simp only [ratFinishNew]
      split <;> simp

theorem mem_render_nVal (st : RS) (t : Tok) (h : st.nVal = some t) : t ∈ render st := by
  unfold render; simp [h]

theorem mem_render_dVal (st : RS) (wf : WF st) (t : Tok) (h : st.dVal = some t) : t ∈ render st := by
  have hm : st.marked = true := by
    by_contra hc
    have := (wf.2.1 (by simpa using hc)).2
    rw [h] at this; cases this
  unfold render; simp [h, hm]

/-- **the macro's own computation is the model's value**: for every token list whose value tokens
    are genuine Literal / Ident tokens (no sign character in front, no `/` inside), what
    `parse_ratio_with_error` computes is what `ratLiteral` prescribes — accepted or rejected alike -/
theorem ratNew_eq_ratLiteral (toks : List Tok)
    (htok : ∀ t ∈ toks, isVal t = true → NoSign t.text ∧ 47 ∉ t.text) : ratNew toks = ratLiteral toks := by
  unfold ratNew ratLiteral
  cases h : ratLoopNew {} toks with
  | none => rfl
  | some st =>
    simp only [Option.bind_some]
    obtain ⟨hr, wf⟩ := ratLoopNew_sound toks st h
    by_cases hf : finalOK st
    · simp only [hf, if_true]
      apply ratFinishNew_eq_runtime st wf _ hf
      constructor
      · intro t ht
        exact htok t (by rw [hr]; exact mem_render_nVal st t ht) (wf.2.2.2.2.1 t ht)
      · intro t ht
        exact htok t (by rw [hr]; exact mem_render_dVal st wf t ht) (wf.2.2.2.2.2 t ht)
    · simp only [hf, if_false]
      exact ratFinishNew_not_final st hf

theorem ratRuntime_canonical (rel : Bool) (text : Bytes) (base : Option Bytes) (q : QVal) (relaxed : Bool)
    (h : ratRuntime rel text base = some (q, relaxed)) :
    relaxed = rel ∧ (relaxed = false → QReduced q) ∧ (relaxed = true → QRelaxed q) := by
  unfold ratRuntime at h
  cases hraw : ratRaw text base with
  | none => simp [hraw] at h
  | some p =>
    obtain ⟨n, d⟩ := p
    simp only [hraw, Option.bind_some] at h
    by_cases hd : d = 0
    · simp [hd] at h
    · simp only [hd, if_false] at h
      simp at h
      obtain ⟨hq, hr⟩ := h
      refine ⟨hr.symm, ?_, ?_⟩
      · intro e
        rw [← hr] at e
        simp [e] at hq
        rw [← hq]; exact qreduce_reduced _ d (by omega)
      · intro e
        rw [← hr] at e
        simp [e] at hq
        rw [← hq]; exact qreduce2_relaxed _ d (by omega)

/-- an accepted rational literal: the tokens are the rendering of a well-formed final state (the
    documented grammar), the value is the run-time parser's on its text, stored reduced resp. relaxed -/
theorem ratLiteral_spec (toks : List Tok) (q : QVal) (relaxed : Bool) (h : ratLiteral toks = some (q, relaxed)) :
    ∃ st, toks = render st ∧ WF st ∧ finalOK st ∧ relaxed = st.rel ∧
      ratRuntime st.rel (ratText st) st.base = some (q, relaxed) ∧
      (relaxed = false → QReduced q) ∧ (relaxed = true → QRelaxed q) := by
  unfold ratLiteral at h
  cases hl : ratLoopNew {} toks with
  | none => simp [hl] at h
  | some st =>
    simp only [hl, Option.bind_some] at h
    obtain ⟨hr, wf⟩ := ratLoopNew_sound toks st hl
    by_cases hf : finalOK st
    · simp only [hf, if_true] at h
      obtain ⟨e, c1, c2⟩ := ratRuntime_canonical _ _ _ q relaxed h
      exact ⟨st, hr, wf, hf, e, h, c1, c2⟩
    · simp [hf] at h

/-- every literal of the documented grammar is accepted (when the run-time parser accepts its text) -/
theorem ratLiteral_complete (st : RS) (wf : WF st) (hf : finalOK st) :
    ratLiteral (render st) = ratRuntime st.rel (ratText st) st.base := by
  unfold ratLiteral
  rw [ratLoopNew_complete st wf]
  simp [hf]

end Dashu.Model.Macro
