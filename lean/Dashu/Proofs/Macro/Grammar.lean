import Dashu.Model.Macro.Literal
import Dashu.Proofs.Serde.Text
/-
  C20 — on the documented token shapes the macro's token loop followed by the unsigned run-time
  parser is the signed run-time parser on the concatenated text; accepted rational literals are
  reduced; accepted float literals are normalised; counterexamples outside the grammar.
-/
namespace Dashu.Model.Macro
open Dashu.Model.Serde Dashu.Model.Text

/-- a value token never starts with a sign character (it is one Literal or Ident token) -/
def NoSign (s : Bytes) : Prop := s.head? ≠ some 43 ∧ s.head? ≠ some 45

theorem splitSign_noSign (signed : Bool) (s : Bytes) (h : NoSign s) : splitSign signed s = (false, s) := by
  obtain ⟨h1, h2⟩ := h
  unfold splitSign
  split
  · simp at h2
  · simp at h1
  · rfl

theorem splitSign_minus (s : Bytes) : splitSign true (45 :: s) = (true, s) := by simp [splitSign]
theorem splitSign_plus (signed : Bool) (s : Bytes) : splitSign signed (43 :: s) = (false, s) := by
  cases signed <;> simp [splitSign]

/-- magnitude parsers used by the macro, as functions of the value token and the base token -/
def parseMag (val : Bytes) (base : Option Bytes) : Option Nat :=
  match base with
  | none => (ubigPrefixOpt val 10).map (·.1)
  | some b => (parseU32 b).bind fun r => ubigRadixOpt val r

def signToks : Option Bool → List Tok
  | none => []
  | some true => [.punct 45]
  | some false => [.punct 43]

def baseToks : Option Bytes → List Tok
  | none => []
  | some b => [.ident baseKw, .lit b]

def isValTok : Tok → Option Bytes
  | .lit s => some s
  | .ident s => some s
  | _ => none

/-- the documented integer literal: optional single sign (signed macros only), one value token,
    optional `base N` -/
def docInt (sg : Option Bool) (vt : Tok) (base : Option Bytes) : List Tok :=
  signToks sg ++ [vt] ++ baseToks base

theorem intAsIs_doc (signed : Bool) (sg : Option Bool) (vt : Tok) (val : Bytes) (base : Option Bytes)
    (hv : isValTok vt = some val) (hs : sg = none ∨ signed = true) :
    intAsIs signed (docInt sg vt base) = (parseMag val base).map fun m => (sg == some true, m) := by
  have hsigned : sg ≠ none → signed = true := fun h => hs.resolve_left h
  cases vt with
  | punct c => simp [isValTok] at hv
  | group g => simp [isValTok] at hv
  | lit s =>
    simp only [isValTok, Option.some.injEq] at hv; subst hv
    cases sg with
    | none =>
      cases base with
      | none =>
        simp [docInt, signToks, baseToks, intAsIs, intLoop, intStep, parseMag]
        cases ubigPrefixOpt s 10 <;> simp
      | some b =>
        simp [docInt, signToks, baseToks, intAsIs, intLoop, intStep, parseMag]
        cases parseU32 b <;> simp
        rename_i r; cases ubigRadixOpt s r <;> simp
    | some neg =>
      have := hsigned (by simp); subst this
      cases neg <;> cases base <;>
        simp [docInt, signToks, baseToks, intAsIs, intLoop, intStep, parseMag]
      all_goals first
        | (cases ubigPrefixOpt s 10 <;> simp)
        | (rename_i b; cases parseU32 b <;> simp; rename_i r; cases ubigRadixOpt s r <;> simp)
  | ident s =>
    simp only [isValTok, Option.some.injEq] at hv; subst hv
    cases sg with
    | none =>
      cases base with
      | none =>
        simp [docInt, signToks, baseToks, intAsIs, intLoop, intStep, parseMag]
        cases ubigPrefixOpt s 10 <;> simp
      | some b =>
        simp [docInt, signToks, baseToks, intAsIs, intLoop, intStep, parseMag]
        cases parseU32 b <;> simp
        rename_i r; cases ubigRadixOpt s r <;> simp
    | some neg =>
      have := hsigned (by simp); subst this
      cases neg <;> cases base <;>
        simp [docInt, signToks, baseToks, intAsIs, intLoop, intStep, parseMag]
      all_goals first
        | (cases ubigPrefixOpt s 10 <;> simp)
        | (rename_i b; cases parseU32 b <;> simp; rename_i r; cases ubigRadixOpt s r <;> simp)

theorem intShape_doc (sg : Option Bool) (vt : Tok) (val : Bytes) (base : Option Bytes)
    (hv : isValTok vt = some val) : intShape (docInt sg vt base) = some (signText sg ++ val, base) := by
  cases vt with
  | punct c => simp [isValTok] at hv
  | group g => simp [isValTok] at hv
  | lit s =>
    simp only [isValTok, Option.some.injEq] at hv; subst hv
    cases sg with
    | none => cases base <;> simp [docInt, signToks, baseToks, intShape, signText]
    | some neg => cases neg <;> cases base <;> simp [docInt, signToks, baseToks, intShape, signText]
  | ident s =>
    simp only [isValTok, Option.some.injEq] at hv; subst hv
    cases sg with
    | none => cases base <;> simp [docInt, signToks, baseToks, intShape, signText]
    | some neg => cases neg <;> cases base <;> simp [docInt, signToks, baseToks, intShape, signText]

/-- `parseDefaultSpec` after the sign has been split off -/
def pdCore (neg : Bool) (rest : Bytes) (d : Nat) : Except ParseError (Int × Nat) :=
  if !validRadix (splitPrefix d rest).1 then .error .unsupportedRadix
  else (parseBodySpec (splitPrefix d rest).1 (splitPrefix d rest).2).map
    fun n => (applySign neg n, (splitPrefix d rest).1)

theorem parseDefaultSpec_eq (signed : Bool) (s : Bytes) (d : Nat) :
    parseDefaultSpec signed s d = pdCore (splitSign signed s).1 (splitSign signed s).2 d := by
  unfold parseDefaultSpec pdCore
  rfl

def optOk {α : Type} : Except ParseError α → Option α
  | .ok v => some v
  | .error _ => none

theorem ubigPrefixOpt_eq (s : Bytes) (d : Nat) :
    ubigPrefixOpt s d = (optOk (parseDefaultSpec false s d)).map fun p => (p.1.toNat, p.2) := by
  unfold ubigPrefixOpt optOk
  cases parseDefaultSpec false s d <;> simp

theorem ibigPrefixOpt_eq (s : Bytes) (d : Nat) : ibigPrefixOpt s d = optOk (parseDefaultSpec true s d) := by
  unfold ibigPrefixOpt optOk
  cases parseDefaultSpec true s d <;> simp

theorem pdCore_fst (neg : Bool) (rest : Bytes) (d : Nat) :
    (optOk (pdCore neg rest d)).map (·.1) =
      (optOk (pdCore false rest d)).map fun p => signedVal neg p.1.toNat := by
  unfold pdCore
  by_cases hv : validRadix (splitPrefix d rest).1 = true
  · simp only [hv, Bool.not_true, Bool.false_eq_true, if_false]
    cases parseBodySpec (splitPrefix d rest).1 (splitPrefix d rest).2 with
    | error e => simp [Except.map, optOk]
    | ok n => cases neg <;> simp [Except.map, optOk, applySign, signedVal]
  · simp [hv, optOk]

/-- the run-time parser on `sign ++ val` in terms of the unsigned parse of `val` -/
theorem ibigPrefix_sign (sg : Option Bool) (val : Bytes) (h : NoSign val) (d : Nat) :
    (ibigPrefixOpt (signText sg ++ val) d).map (·.1) =
      (ubigPrefixOpt val d).map fun p => signedVal (sg == some true) p.1 := by
  rw [ibigPrefixOpt_eq, ubigPrefixOpt_eq, parseDefaultSpec_eq, parseDefaultSpec_eq, splitSign_noSign false val h]
  have key : ∀ neg, (optOk (pdCore neg val d)).map (·.1) =
      ((optOk (pdCore false val d)).map fun p => (p.1.toNat, p.2)).map fun p => signedVal neg p.1 := by
    intro neg
    rw [pdCore_fst neg val d]
    cases optOk (pdCore false val d) <;> simp
  cases sg with
  | none =>
    simp only [signText, List.nil_append]
    rw [splitSign_noSign true val h]
    exact key false
  | some neg =>
    cases neg
    · simp only [signText, List.singleton_append]
      rw [splitSign_plus]
      exact key false
    · simp only [signText, List.singleton_append]
      rw [splitSign_minus]
      exact key true

def prCore (neg : Bool) (body : Bytes) (r : Nat) : Except ParseError Int :=
  if !validRadix r then .error .unsupportedRadix else (parseBodySpec r body).map (applySign neg)

theorem parseRadixSpec_eq (signed : Bool) (s : Bytes) (r : Nat) :
    parseRadixSpec signed s r = prCore (splitSign signed s).1 (splitSign signed s).2 r := by
  unfold parseRadixSpec prCore
  rfl

theorem prCore_val (neg : Bool) (body : Bytes) (r : Nat) :
    optOk (prCore neg body r) = (optOk (prCore false body r)).map fun v => signedVal neg v.toNat := by
  unfold prCore
  by_cases hv : validRadix r = true
  · simp only [hv, Bool.not_true, Bool.false_eq_true, if_false]
    cases parseBodySpec r body with
    | error e => simp [Except.map, optOk]
    | ok n => cases neg <;> simp [Except.map, optOk, applySign, signedVal]
  · simp [hv, optOk]

theorem ibigRadix_sign (sg : Option Bool) (val : Bytes) (h : NoSign val) (r : Nat) :
    ibigRadixOpt (signText sg ++ val) r = (ubigRadixOpt val r).map fun m => signedVal (sg == some true) m := by
  have e1 : ∀ s, ibigRadixOpt s r = optOk (parseRadixSpec true s r) := by
    intro s; unfold ibigRadixOpt optOk; cases parseRadixSpec true s r <;> simp
  have e2 : ubigRadixOpt val r = (optOk (parseRadixSpec false val r)).map fun v => v.toNat := by
    unfold ubigRadixOpt optOk; cases parseRadixSpec false val r <;> simp
  rw [e1, e2, parseRadixSpec_eq, parseRadixSpec_eq, splitSign_noSign false val h]
  have key : ∀ neg, optOk (prCore neg val r) =
      ((optOk (prCore false val r)).map fun v => v.toNat).map fun m => signedVal neg m := by
    intro neg
    rw [prCore_val neg val r]
    cases optOk (prCore false val r) <;> simp
  cases sg with
  | none =>
    simp only [signText, List.nil_append]
    rw [splitSign_noSign true val h]
    exact key false
  | some neg =>
    cases neg
    · simp only [signText, List.singleton_append]
      rw [splitSign_plus]
      exact key false
    · simp only [signText, List.singleton_append]
      rw [splitSign_minus]
      exact key true

/-- the run-time parser's answer on a documented literal -/
theorem rtInt_doc (signed : Bool) (sg : Option Bool) (vt : Tok) (val : Bytes) (base : Option Bytes)
    (hv : isValTok vt = some val) (hn : NoSign val) (hs : sg = none ∨ signed = true) :
    rtInt signed (docInt sg vt base) = some ((parseMag val base).map (signedVal (sg == some true))) := by
  unfold rtInt
  rw [intShape_doc sg vt val base hv]
  simp only [Option.map_some]
  cases signed with
  | true =>
    cases base with
    | none =>
      simp only [if_true, parseMag]
      rw [ibigPrefix_sign sg val hn 10]
      cases ubigPrefixOpt val 10 <;> simp
    | some b =>
      simp only [parseMag]
      cases parseU32 b with
      | none => simp
      | some r => simp [ibigRadix_sign sg val hn r]
  | false =>
    have hsg : sg = none := by
      rcases hs with h | h
      · exact h
      · cases h
    subst hsg
    cases base with
    | none =>
      simp [parseMag, signText]
      cases ubigPrefixOpt val 10 <;> simp [signedVal]
    | some b =>
      simp only [parseMag]
      cases parseU32 b with
      | none => simp
      | some r => simp [signText]; cases ubigRadixOpt val r <;> simp [signedVal]

/-- **documented grammar**: the macro accepts exactly when the run-time parser accepts the same
    text, with the same value — nothing is filtered by `intLiteral` -/
theorem intLiteral_doc (signed : Bool) (sg : Option Bool) (vt : Tok) (val : Bytes) (base : Option Bytes)
    (hv : isValTok vt = some val) (hn : NoSign val) (hs : sg = none ∨ signed = true) :
    intLiteral signed (docInt sg vt base) = (parseMag val base).map (signedVal (sg == some true)) ∧
    rtInt signed (docInt sg vt base) = some (intLiteral signed (docInt sg vt base)) := by
  have h1 := intAsIs_doc signed sg vt val base hv hs
  have h2 := rtInt_doc signed sg vt val base hv hn hs
  unfold intLiteral
  rw [h1, h2]
  cases parseMag val base <;> simp

/-- outside the grammar: `ibig!(--5)` is accepted by the token loop (as −5) although the run-time
    parser rejects `--5` -/
theorem int_double_sign_counterexample :
    intAsIs true [.punct 45, .punct 45, .lit [53]] = some (true, 5) ∧
    rtInt true [.punct 45, .punct 45, .lit [53]] = some none ∧
    intLiteral true [.punct 45, .punct 45, .lit [53]] = none := by
  refine ⟨by decide, by decide, by decide⟩

-- ---------------------------------------------------------------- rationals

/-- an accepted rational literal is stored reduced (`rbig!(a/b)`) resp. without a common factor 2
    (`rbig!(~a/b)`) — the precondition of the `transmute` in `static_rbig!` -/
theorem ratAsIs_canonical (toks : List Tok) (q : QVal) (relaxed : Bool) (h : ratAsIs toks = some (q, relaxed)) :
    (relaxed = false → QReduced q) ∧ (relaxed = true → QRelaxed q) := by
  unfold ratAsIs at h
  cases h1 : ratLoop {} toks with
  | none => simp [h1] at h
  | some st =>
    simp only [h1, Option.bind_eq_bind, Option.bind_some] at h
    cases h2 : st.numVal with
    | none => simp [h2] at h
    | some nv =>
      simp only [h2, Option.bind_some] at h
      generalize hnd : ratParts st nv = nd at h
      cases nd with
      | none => simp at h
      | some p =>
        obtain ⟨n, d⟩ := p
        simp only [Option.bind_some] at h
        by_cases hd : d = 0
        · simp [hd] at h
        · simp only [hd, if_false] at h
          simp at h
          obtain ⟨hq, hr⟩ := h
          constructor
          · intro e
            rw [← hr] at e
            simp [e] at hq
            rw [← hq]; exact qreduce_reduced _ d (by omega)
          · intro e
            rw [← hr] at e
            simp [e] at hq
            rw [← hq]; exact qreduce2_relaxed _ d (by omega)

theorem rtRat_canonical (toks : List Tok) (q : QVal) (relaxed : Bool) (h : rtRat toks = some (some (q, relaxed))) :
    (relaxed = false → QReduced q) ∧ (relaxed = true → QRelaxed q) := by
  unfold rtRat at h
  cases h1 : ratShape toks with
  | none => simp [h1] at h
  | some sh =>
    obtain ⟨rel, text, base⟩ := sh
    simp only [h1, Option.map_some, Option.some.injEq] at h
    generalize hraw : ratRaw text base = raw at h
    cases raw with
    | none => simp at h
    | some p =>
      obtain ⟨n, d⟩ := p
      simp only [Option.bind_some] at h
      by_cases hd : d = 0
      · simp [hd] at h
      · simp only [hd, if_false] at h
        simp at h
        obtain ⟨hq, hr⟩ := h
        constructor
        · intro e
          rw [← hr] at e
          simp [e] at hq
          rw [← hq]; exact qreduce_reduced _ d (by omega)
        · intro e
          rw [← hr] at e
          simp [e] at hq
          rw [← hq]; exact qreduce2_relaxed _ d (by omega)

theorem ratLiteralByShape_canonical (toks : List Tok) (q : QVal) (relaxed : Bool) (h : ratLiteralByShape toks = some (q, relaxed)) :
    (relaxed = false → QReduced q) ∧ (relaxed = true → QRelaxed q) := by
  unfold ratLiteralByShape at h
  by_cases hs : ratDocShape toks = true
  · simp only [hs, if_true] at h
    cases h2 : rtRat toks with
    | none => simp [h2] at h
    | some b =>
      cases b with
      | none => simp [h2] at h
      | some b =>
        simp [h2] at h
        apply rtRat_canonical toks q relaxed
        rw [h2, h]
  · simp [hs] at h

/-- an accepted rational literal has the run-time parser's value -/
theorem ratLiteralByShape_sound (toks : List Tok) (v : QVal × Bool) (h : ratLiteralByShape toks = some v) :
    rtRat toks = some (some v) := by
  unfold ratLiteralByShape at h
  by_cases hs : ratDocShape toks = true
  · simp only [hs, if_true] at h
    cases h2 : rtRat toks with
    | none => simp [h2] at h
    | some b =>
      cases b with
      | none => simp [h2] at h
      | some b => simp [h2] at h; rw [h]
  · simp [hs] at h

/-- outside the grammar: `rbig!(3 4)` is accepted as 3/4 although the text reads `34` -/
theorem rat_missing_slash_counterexample :
    ratAsIs [.lit [51], .lit [52]] = some (⟨3, 4⟩, false) ∧
    rtRat [.lit [51], .lit [52]] = some (some (⟨34, 1⟩, false)) ∧
    ratLiteral [.lit [51], .lit [52]] = none := by
  refine ⟨by decide, by decide, by decide⟩

-- ---------------------------------------------------------------- floats

/-- an accepted float literal has exactly the run-time parser's representation and precision
    (= number of digits written), and the representation is normalised -/
theorem floatLiteral_spec (binary : Bool) (toks : List Tok) (v : FPVal) (h : floatLiteral binary toks = some v) :
    rtFloat binary toks = some v ∧ FCanon (if binary then 2 else 10) ⟨v.signif, v.exp⟩ := by
  unfold floatLiteral at h
  by_cases hc : (binary && fbigSecondSign toks) = true
  · rw [if_pos hc] at h; cases h
  rw [if_neg hc] at h
  cases h1 : (if binary = true then fbigAsIs toks else dbigAsIs toks) with
  | none => simp [h1] at h
  | some a =>
    obtain ⟨neg, mag, e, nd⟩ := a
    cases h2 : rtFloat binary toks with
    | none => simp [h1, h2] at h
    | some w =>
      simp only [h1, h2] at h
      by_cases c : signedVal neg mag = w.signif ∧ e = w.exp ∧ nd = w.prec
      · simp only [c, and_self, if_true] at h
        simp at h; subst h
        refine ⟨rfl, ?_⟩
        -- the run-time parser normalises
        unfold rtFloat at h2
        cases h3 : floatParse (if binary = true then 2 else 10)
            (if binary = true then fbigRtText (concatToks toks) else concatToks toks) with
        | none => simp [h3] at h2
        | some p =>
          obtain ⟨fv, k⟩ := p
          simp [h3] at h2
          have hB : 2 ≤ (if binary = true then 2 else 10) := by split <;> omega
          have := parseF_canonical _ hB _ fv k h3
          rw [← h2]; exact this
      · simp [c] at h

/-- the code as it is: the static expansion and the zero literal lose the precision -/
theorem float_static_precision_counterexample :
    (floatExpansionAsIs true false (2 ^ 40) 0 41).2.prec = 0 ∧ (floatExpansionAsIs false false (2 ^ 40) 0 41).2.prec = 41 ∧
    (floatExpansionAsIs false false 0 0 3).2.prec = 0 := by
  refine ⟨by decide, by decide, by decide⟩

end Dashu.Model.Macro
