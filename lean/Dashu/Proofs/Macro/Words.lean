import Dashu.Model.Macro.Literal
import Dashu.Proofs.Serde.Wire
/-
  C20 — the three code generators denote the parsed value.
-/
namespace Dashu.Model.Macro
open Dashu.Model.Serde

theorem bytesToWords_nil (k : Nat) : bytesToWords k [] = [] := by rw [bytesToWords]; simp

theorem bytesToWords_zero (bs : Bytes) : bytesToWords 0 bs = [] := by rw [bytesToWords]; simp

theorem bytesToWords_cons {k : Nat} {bs : Bytes} (hk : k ≠ 0) (hb : bs ≠ []) :
    bytesToWords k bs = ofLeBytes (bs.take k) :: bytesToWords k (bs.drop k) := by
  rw [bytesToWords]; simp [hk, hb]

theorem ofLeBytes_take_drop (k : Nat) (bs : Bytes) :
    ofLeBytes bs = ofLeBytes (bs.take k) + 256 ^ (min k bs.length) * ofLeBytes (bs.drop k) := by
  conv => lhs; rw [← List.take_append_drop k bs]
  rw [ofLeBytes_append, List.length_take]

/-- the word array of `8k`-bit words denotes the same number as the bytes -/
theorem valWords_bytesToWords (k : Nat) (hk : 0 < k) (bs : Bytes) :
    valWords (8 * k) (bytesToWords k bs) = ofLeBytes bs := by
  induction h : bs.length using Nat.strongRecOn generalizing bs with
  | _ n ih =>
    by_cases hb : bs = []
    · subst hb; rw [bytesToWords_nil]; rfl
    · rw [bytesToWords_cons (by omega) hb, valWords]
      have hlen : 0 < bs.length := List.length_pos_iff.mpr hb
      have hd : (bs.drop k).length < n := by rw [List.length_drop]; omega
      rw [ih _ hd (bs.drop k) rfl, ofLeBytes_take_drop k bs]
      by_cases hle : k ≤ bs.length
      · rw [Nat.min_eq_left hle]
        have : (2 : Nat) ^ (8 * k) = 256 ^ k := by
          rw [Nat.pow_mul]
        rw [this]
      · have hdrop : bs.drop k = [] := List.drop_eq_nil_of_le (by omega)
        rw [hdrop]; simp [ofLeBytes]

theorem bytesToWords_length (k : Nat) (hk : 0 < k) (bs : Bytes) :
    (bytesToWords k bs).length = (bs.length + k - 1) / k := by
  induction h : bs.length using Nat.strongRecOn generalizing bs with
  | _ n ih =>
    subst h
    by_cases hb : bs = []
    · subst hb; rw [bytesToWords_nil]
      simp
      exact (Nat.div_eq_of_lt (by omega)).symm
    · rw [bytesToWords_cons (by omega) hb, List.length_cons]
      have hlen : 0 < bs.length := List.length_pos_iff.mpr hb
      have hd : (bs.drop k).length < bs.length := by rw [List.length_drop]; omega
      rw [ih _ hd (bs.drop k) rfl, List.length_drop]
      by_cases hle : k ≤ bs.length
      · have e : bs.length + k - 1 = (bs.length - k + k - 1) + k := by omega
        rw [e, Nat.add_div_right _ hk]
      · have e1 : bs.length - k = 0 := by omega
        rw [e1]
        have e2 : (0 + k - 1) / k = 0 := Nat.div_eq_of_lt (by omega)
        have e3 : (bs.length + k - 1) / k = 1 := by
          apply Nat.div_eq_of_lt_le <;> omega
        omega

theorem ofLeBytes_pos_of_getLast (bs : Bytes) (hb : bs ≠ []) (h : bs.getLast? ≠ some 0) : 0 < ofLeBytes bs := by
  induction bs with
  | nil => exact absurd rfl hb
  | cons x xs ih =>
    by_cases hx : xs = []
    · subst hx
      simp at h
      simp [ofLeBytes]; omega
    · rw [List.getLast?_cons_of_ne_nil hx] at h
      have := ih hx h
      simp [ofLeBytes]; omega

/-- the normalisation assertion of `from_static_words`: the last word is not zero -/
theorem bytesToWords_getLast (k : Nat) (hk : 0 < k) (bs : Bytes) (h : bs.getLast? ≠ some 0) :
    (bytesToWords k bs).getLast? ≠ some 0 := by
  induction hn : bs.length using Nat.strongRecOn generalizing bs with
  | _ n ih =>
    by_cases hb : bs = []
    · subst hb; rw [bytesToWords_nil]; simp
    · rw [bytesToWords_cons (by omega) hb]
      have hlen : 0 < bs.length := List.length_pos_iff.mpr hb
      by_cases hd : bs.drop k = []
      · rw [hd, bytesToWords_nil]
        have ht : bs.take k = bs := by
          have := List.take_append_drop k bs
          rw [hd, List.append_nil] at this; exact this
        rw [ht]
        have := ofLeBytes_pos_of_getLast bs hb h
        simp; omega
      · have hw : bytesToWords k (bs.drop k) ≠ [] := by
          rw [bytesToWords_cons (by omega) hd]; simp
        rw [List.getLast?_cons_of_ne_nil hw]
        have hdl : (bs.drop k).length < n := by rw [List.length_drop]; omega
        apply ih _ hdl (bs.drop k) _ rfl
        rw [List.getLast?_drop]
        have : ¬ (bs.length ≤ k) := by
          intro hc; exact hd (List.drop_eq_nil_of_le hc)
        simp [this]; exact h

/-- `LEN ≤ max_len`: the padded arrays are long enough for every selector of at least 2 bytes -/
theorem len_le_maxLen (k : Nat) (hk : 2 ≤ k) (len : Nat) : (len + k - 1) / k ≤ (len + 1) / 2 := by
  have h1 : (len + k - 1) / k ≤ (len + 1) / 2 := by
    rw [Nat.div_le_iff_le_mul_add_pred (by omega)]
    have : 2 * ((len + 1) / 2) + 1 ≥ len + 1 := by omega
    calc len + k - 1 ≤ k * ((len + 1) / 2) + (k - 1) := by
          have h2 : len ≤ 2 * ((len + 1) / 2) := by omega
          have h3 : 2 * ((len + 1) / 2) ≤ k * ((len + 1) / 2) := Nat.mul_le_mul_right _ hk
          omega
      _ = k * ((len + 1) / 2) + (k - 1) := rfl
  exact h1

/-- **static path**: for every selector (`k` = 2, 4, 8 bytes per word, in fact any `k ≥ 2`) the data
    `&DATA[..LEN]` handed to `from_static_words` passes its assertion and denotes `n` -/
theorem staticValue_leBytes (k : Nat) (hk : 2 ≤ k) (n : Nat) : staticValue k (leBytes n) = some n := by
  unfold staticValue quoteWords Dashu.Gen.Macro.quote_words_max_len
  simp only
  rw [List.take_left']
  · have hl := bytesToWords_getLast k (by omega) (leBytes n) (leBytes_getLast_ne_zero n)
    simp only [hl, if_false]
    rw [valWords_bytesToWords k (by omega), ofLeBytes_leBytes]
  · rfl

/-- the three selectors the macro emits -/
theorem static_path_all_word_sizes (n : Nat) :
    staticValue 2 (leBytes n) = some n ∧ staticValue 4 (leBytes n) = some n ∧ staticValue 8 (leBytes n) = some n :=
  ⟨staticValue_leBytes 2 (by omega) n, staticValue_leBytes 4 (by omega) n, staticValue_leBytes 8 (by omega) n⟩

/-- the padding really is `max_len - LEN ≥ 0` zeros and the arrays have the common length -/
theorem quoteWords_length (k : Nat) (hk : 2 ≤ k) (bs : Bytes) :
    (quoteWords k bs).2.length = (bs.length + 1) / 2 ∧ (quoteWords k bs).1 ≤ (bs.length + 1) / 2 := by
  unfold quoteWords Dashu.Gen.Macro.quote_words_max_len
  simp only [List.length_append, List.length_replicate]
  have := bytesToWords_length k (by omega) bs
  have h2 := len_le_maxLen k hk bs.length
  omega

-- ---------------------------------------------------------------- const path

theorem bitLen_le_lt (m b : Nat) (h : Dashu.Model.Text.bitLen m ≤ b) : m < 2 ^ b := by
  unfold Dashu.Model.Text.bitLen at h
  by_cases h0 : m = 0
  · subst h0; exact Nat.pos_of_ne_zero (by positivity)
  · simp only [h0, if_false] at h
    calc m < 2 ^ (Nat.log2 m + 1) := Nat.lt_log2_self
      _ ≤ 2 ^ b := Nat.pow_le_pow_right (by omega) h

/-- **const path**: taken only for magnitudes that a `u32` holds, hence also a `DoubleWord` of any
    supported word size -/
theorem const_path_guard (m : Nat) (h : intPath false m = .const) :
    m < 2 ^ 32 ∧ m % 2 ^ 32 = m ∧ ∀ W, 16 ≤ W → m < 2 ^ (2 * W) := by
  unfold intPath Dashu.Gen.Macro.int_const_guard at h
  have hb : Dashu.Model.Text.bitLen m ≤ 32 := by
    by_contra hc
    simp [hc] at h
  have hlt := bitLen_le_lt m 32 hb
  refine ⟨hlt, Nat.mod_eq_of_lt hlt, fun W hW => ?_⟩
  calc m < 2 ^ 32 := hlt
    _ ≤ 2 ^ (2 * W) := Nat.pow_le_pow_right (by omega) (by omega)

/-- the static variants never take the const path, a plain macro never the static one -/
theorem path_by_mode (m : Nat) : intPath true m = .static ∧ intPath false m ≠ .static := by
  unfold intPath Dashu.Gen.Macro.int_const_guard
  constructor
  · simp
  · split <;> simp

end Dashu.Model.Macro
