import Dashu.Proofs.Macro.Grammar
import Dashu.Proofs.Text.FloatGrammar
import Dashu.Proofs.Float.Closing
/-
  C20 — `fbig!`'s own sign / underscore stripping (macros/src/parse/float.rs `parse_binary_float`):
  the mirror of the code (`fbigNew`) equals the run-time parser on the text without the macro-only
  `_`, for EVERY token list; the same for `dbig!` (`dbigNew`).
-/
namespace Dashu.Model.Macro
open Dashu.Model.Serde Dashu.Model.Text Dashu.Model.Float

theorem stripSignF_noSign (s : Bytes) (h : NoSign s) : stripSignF s = (false, s) := by
  obtain ⟨h1, h2⟩ := h
  unfold stripSignF
  split
  · simp at h2
  · simp at h1
  · rfl

/-- a leading `-` in front of an unsigned text negates the significand the parser returns -/
theorem raw_minus (W B : Nat) (rest : Bytes) (h : NoSign rest) :
    fromStrNativeRaw W B (45 :: rest) =
      (match fromStrNativeRaw W B rest with
        | .ok t => .ok (-t.1, t.2.1, t.2.2)
        | .error e => .error e) := by
  unfold fromStrNativeRaw
  have h1 : stripSignF (45 :: rest) = (true, rest) := rfl
  rw [h1, stripSignF_noSign rest h]
  dsimp only
  cases splitScale B (hasHexPrefix rest) rest with
  | error e => rfl
  | ok t =>
    obtain ⟨scale, pm, body⟩ := t
    dsimp only
    cases parseBodyF W B (hasHexPrefix rest) pm body with
    | error e => rfl
    | ok u => obtain ⟨mag, dec, nd⟩ := u; simp

theorem raw_plus (W B : Nat) (rest : Bytes) (h : NoSign rest) :
    fromStrNativeRaw W B (43 :: rest) = fromStrNativeRaw W B rest := by
  unfold fromStrNativeRaw
  have h1 : stripSignF (43 :: rest) = (false, rest) := rfl
  rw [h1, stripSignF_noSign rest h]

/-- an unsigned text never parses to a negative significand -/
theorem raw_nonneg (W B : Nat) (rest : Bytes) (h : NoSign rest) (t : Int × Int × Nat)
    (hr : fromStrNativeRaw W B rest = .ok t) : 0 ≤ t.1 := by
  unfold fromStrNativeRaw at hr
  rw [stripSignF_noSign rest h] at hr
  dsimp only at hr
  cases hs : splitScale B (hasHexPrefix rest) rest with
  | error e => rw [hs] at hr; cases hr
  | ok q =>
    obtain ⟨scale, pm, body⟩ := q
    rw [hs] at hr
    dsimp only at hr
    cases hb : parseBodyF W B (hasHexPrefix rest) pm body with
    | error e => rw [hb] at hr; cases hr
    | ok u =>
      obtain ⟨mag, dec, nd⟩ := u
      rw [hb] at hr
      simp at hr
      rw [← hr]; simp

def negF (p : FVal × Nat) : FVal × Nat := (⟨-p.1.signif, p.1.exp⟩, p.2)

theorem parseF_minus (B : Nat) (rest : Bytes) (h : NoSign rest) :
    parseF B (45 :: rest) = (parseF B rest).map negF := by
  unfold parseF
  rw [raw_minus 64 B rest h]
  cases fromStrNativeRaw 64 B rest with
  | error e => rfl
  | ok t =>
    obtain ⟨sig, e, nd⟩ := t
    dsimp only
    rw [new_neg]
    by_cases hin : inIsize (FRepr.new B sig e).exp
    · simp [FRepr.neg, hin, negF]
    · simp [FRepr.neg, hin]

theorem parseF_plus (B : Nat) (rest : Bytes) (h : NoSign rest) : parseF B (43 :: rest) = parseF B rest := by
  unfold parseF; rw [raw_plus 64 B rest h]

theorem parseF_nonneg (B : Nat) (hB : 0 < B) (rest : Bytes) (h : NoSign rest) (v : FVal) (nd : Nat)
    (hp : parseF B rest = some (v, nd)) : 0 ≤ v.signif := by
  unfold parseF at hp
  cases hr : fromStrNativeRaw 64 B rest with
  | error e => rw [hr] at hp; cases hp
  | ok t =>
    obtain ⟨sig, e, k⟩ := t
    rw [hr] at hp
    dsimp only at hp
    have h0 : 0 ≤ sig := raw_nonneg 64 B rest h _ hr
    split at hp
    · simp at hp
      rw [← hp.1]
      dsimp
      -- the sign of a normalised significand is the sign of the significand
      have hv := FRepr.new_value B hB sig e
      by_contra hneg
      have hlt : (FRepr.new B sig e).signif < 0 := by omega
      have hpos : 0 < bpowQ B (FRepr.new B sig e).exp := bpowQ_pos B hB _
      have hpos2 : 0 < bpowQ B e := bpowQ_pos B hB _
      unfold FRepr.toRat at hv
      have h1 : ((FRepr.new B sig e).signif : ℚ) * bpowQ B (FRepr.new B sig e).exp < 0 :=
        mul_neg_of_neg_of_pos (by exact_mod_cast hlt) hpos
      have h2 : (0 : ℚ) ≤ (sig : ℚ) * bpowQ B e := mul_nonneg (by exact_mod_cast h0) (le_of_lt hpos2)
      rw [hv] at h1
      exact absurd h2 (not_le.mpr h1)
    · cases hp

-- ---------------------------------------------------------------- a second sign is never accepted

def IsSign (c : Nat) : Prop := c = 45 ∨ c = 43

theorem digitOf_sign (r c : Nat) (h : IsSign c) : digitOf r c = none := by
  rcases h with h | h <;> subst h <;> simp [digitOf, alnumVal]

theorem chkDigits_sign (r c : Nat) (u : List Nat) (ae : Bool) (h : IsSign c) :
    chkDigits r (c :: u) ae = .error .invalidDigit := by
  have h95 : c ≠ 95 := by rcases h with h | h <;> omega
  unfold chkDigits digitsOnly
  simp only [List.cons_ne_nil, if_false, List.all_cons]
  have : (c == 95) = false := by simpa using h95
  simp only [this, Bool.false_and, Bool.false_eq_true, if_false]
  have hf : (c :: u).filter (· ≠ 95) = c :: u.filter (· ≠ 95) := by simp [h95]
  rw [hf]
  unfold digitValues
  rw [digitOf_sign r c h]

theorem specBody_sign (B : Nat) (neg : Bool) (scale : Int) (c : Nat) (u : List Nat) (h : IsSign c) :
    ∃ e, specBody B false neg scale (c :: u) = .error e := by
  have h46 : (c == 46) = false := by rcases h with h | h <;> subst h <;> rfl
  unfold specBody
  simp only [Bool.false_eq_true, if_false]
  split
  · exact ⟨_, rfl⟩
  · have hp1 : ∃ u', (splitAtDot (c :: u)).1 = c :: u' := by
      unfold splitAtDot
      rw [List.findIdx?_cons]
      simp only [h46, Bool.false_eq_true, if_false]
      cases List.findIdx? (· == 46) u with
      | none => exact ⟨u, rfl⟩
      | some d => exact ⟨u.take d, by simp⟩
    obtain ⟨u', hu⟩ := hp1
    rw [hu, chkDigits_sign _ c u' _ h]
    exact ⟨_, rfl⟩

theorem isScaleMarker_sign (B : Nat) (hp : Bool) (c : Nat) (h : IsSign c) : isScaleMarker B hp c = false := by
  rcases h with h | h <;> subst h <;> unfold isScaleMarker <;> (repeat' split) <;> rfl

/-- the documented grammar has no literal with two signs -/
theorem spec_second_sign (B : Nat) (s : Bytes) (c : Nat) (u : Bytes) (hs : (stripSignF s).2 = c :: u) (h : IsSign c) :
    ∃ e, parseFloatSpec B s = .error e := by
  have hhex : (B == 2 && hasHexPrefix (c :: u)) = false := by
    have : hasHexPrefix (c :: u) = false := by
      rcases h with h | h <;> subst h <;> cases u <;> simp [hasHexPrefix]
    simp [this]
  cases hr : rfindIdx (isScaleMarker B (B == 2 && hasHexPrefix (stripSignF s).2)) (stripSignF s).2 with
  | none =>
    rw [spec_none B s hr, hs, hhex]
    exact specBody_sign B _ _ c u h
  | some pos =>
    cases hi : parseIsize 64 ((stripSignF s).2.drop (pos + 1)) with
    | error e => exact ⟨e, spec_err B s pos e hr hi⟩
    | ok v =>
      rw [spec_ok B s pos v hr hi, hs, hhex]
      rw [hs] at hr
      obtain ⟨_, hm⟩ := rfindIdx_some hr
      match pos, hm with
      | 0, hm =>
        simp only [List.getD_cons_zero] at hm
        rw [isScaleMarker_sign B _ c h] at hm; cases hm
      | n + 1, _ =>
        rw [List.take_succ_cons]
        exact specBody_sign B _ _ c _ h

theorem parseF_second_sign (B : Nat) (hB : validRadix B = true) (s : Bytes) (c : Nat) (u : Bytes)
    (hs : (stripSignF s).2 = c :: u) (h : IsSign c) : parseF B s = none := by
  obtain ⟨e, he⟩ := spec_second_sign B s c u hs h
  rw [← fromStrNative_eq_spec 64 (by norm_num) B hB] at he
  unfold fromStrNative at he
  unfold parseF
  cases hr : fromStrNativeRaw 64 B s with
  | error e => rfl
  | ok t => rw [hr] at he; simp [Except.map] at he

-- ---------------------------------------------------------------- fbig!'s stripping

def toFP (p : FVal × Nat) : FPVal := ⟨p.1.signif, p.1.exp, p.2⟩

theorem rtFloat_eq (binary : Bool) (toks : List Tok) :
    rtFloat binary toks = (floatParse (if binary then 2 else 10)
      (if binary then fbigRtText (concatToks toks) else concatToks toks)).map toFP := rfl

theorem fbigRtText_minus (r : Bytes) : fbigRtText (45 :: r) = 45 :: stripUs r := rfl
theorem fbigRtText_plus (r : Bytes) : fbigRtText (43 :: r) = 43 :: stripUs r := rfl
theorem fbigRtText_other (s : Bytes) (h : NoSign s) : fbigRtText s = stripUs s := by
  obtain ⟨h1, h2⟩ := h
  unfold fbigRtText
  split
  · simp at h2
  · simp at h1
  · rfl

theorem stripSign_minus (r : Bytes) : stripSign (45 :: r) = (true, r) := rfl
theorem stripSign_plus (r : Bytes) : stripSign (43 :: r) = (false, r) := rfl
theorem stripSign_other (s : Bytes) (h : NoSign s) : stripSign s = (false, s) := by
  obtain ⟨h1, h2⟩ := h
  unfold stripSign
  split
  · simp at h2
  · simp at h1
  · rfl

theorem secondSign_iff (u : Bytes) : (u.head? == some 45 || u.head? == some 43) = false ↔ NoSign u := by
  unfold NoSign
  cases u with
  | nil => simp
  | cons c t => simp; omega

/-- the value the macro computes from an unsigned text `u` and the stripped sign -/
theorem fbig_core (neg : Bool) (u : Bytes) (h : NoSign u) :
    (fbigFinish neg (floatParse 2 u)).map fpOfParts =
    (floatParse 2 u).map (fun p => toFP (if neg then negF p else p)) := by
  unfold floatParse
  cases hp : parseF 2 u with
  | none => rfl
  | some p =>
    obtain ⟨v, nd⟩ := p
    have h0 := parseF_nonneg 2 (by norm_num) u h v nd hp
    have hn : ¬ v.signif < 0 := by omega
    simp only [fbigFinish, hn, if_false, Option.map_some]
    have e : ((v.signif.natAbs : Nat) : Int) = v.signif := Int.natAbs_of_nonneg h0
    cases neg <;> simp [fpOfParts, signedVal, toFP, negF, e]

/-- **`fbig!`'s own sign / underscore stripping, on every token list**: `parse_binary_float` (sign
    stripped, one `_` stripped, second sign refused, `FBig::from_str` of the rest, sign re-attached by
    `IBig::from_parts`) yields exactly what the run-time parser yields on the text without the
    macro-only `_` — and nothing when a sign follows the stripped prefix -/
theorem fbigNew_eq (toks : List Tok) :
    (fbigNew toks).map fpOfParts = (if fbigSecondSign toks then none else rtFloat true toks) := by
  rw [rtFloat_eq]
  simp only [if_true]
  unfold fbigNew fbigAsIs
  cases hc : fbigSecondSign toks with
  | true => simp
  | false =>
    unfold fbigSecondSign at hc
    generalize concatToks toks = s at *
    dsimp only at hc ⊢
    have hns := (secondSign_iff _).mp hc
    simp only [Bool.false_eq_true, if_false]
    rw [fbig_core _ _ hns]
    -- the three shapes of the text
    by_cases h45 : ∃ r, s = 45 :: r
    · obtain ⟨r, rfl⟩ := h45
      rw [stripSign_minus] at hns ⊢
      rw [fbigRtText_minus]
      unfold floatParse
      rw [parseF_minus 2 _ hns]
      simp [Option.map_map, Function.comp_def]
    · by_cases h43 : ∃ r, s = 43 :: r
      · obtain ⟨r, rfl⟩ := h43
        rw [stripSign_plus] at hns ⊢
        rw [fbigRtText_plus]
        unfold floatParse
        rw [parseF_plus 2 _ hns]
        simp
      · have hs : NoSign s := by
          unfold NoSign
          cases s with
          | nil => simp
          | cons c t =>
            simp only [List.head?_cons, ne_eq, Option.some.injEq]
            constructor
            · intro e; exact h43 ⟨t, by rw [e]⟩
            · intro e; exact h45 ⟨t, by rw [e]⟩
        rw [stripSign_other s hs, fbigRtText_other s hs]
        simp

/-- soundness: whatever `fbig!` accepts has the run-time parser's value and precision -/
theorem fbigNew_sound (toks : List Tok) (p : Bool × Nat × Int × Nat) (h : fbigNew toks = some p) :
    rtFloat true toks = some (fpOfParts p) := by
  have e := fbigNew_eq toks
  rw [h] at e
  split at e
  · cases e
  · exact e.symm

/-- the mirror of the code decides exactly what the model prescribes (`floatLiteral`) -/
theorem fbigNew_eq_literal (toks : List Tok) : (fbigNew toks).map fpOfParts = floatLiteral true toks := by
  have e := fbigNew_eq toks
  unfold floatLiteral
  simp only [Bool.true_and, if_true]
  cases hc : fbigSecondSign toks with
  | true => simp [fbigNew, hc]
  | false =>
    rw [hc] at e
    simp only [Bool.false_eq_true, if_false] at e ⊢
    have hn : fbigNew toks = fbigAsIs toks := by simp [fbigNew, hc]
    rw [hn] at e ⊢
    cases ha : fbigAsIs toks with
    | none => rfl
    | some a =>
      obtain ⟨neg, mag, ex, nd⟩ := a
      rw [ha] at e
      simp only [Option.map_some] at e ⊢
      rw [← e]
      simp [fpOfParts]

/-- `dbig!` hands the concatenated text to the run-time parser and re-assembles sign and magnitude -/
theorem dbig_eq (toks : List Tok) : (dbigAsIs toks).map fpOfParts = rtFloat false toks := by
  rw [rtFloat_eq]
  unfold dbigAsIs
  simp only [Bool.false_eq_true, if_false]
  cases floatParse 10 (concatToks toks) with
  | none => rfl
  | some p =>
    obtain ⟨v, nd⟩ := p
    simp only [Option.map_some, fpOfParts, toFP, signedVal]
    by_cases h : v.signif < 0
    · have e : ((v.signif.natAbs : Nat) : Int) = -v.signif := by omega
      simp only [h, decide_true, if_true, e, Int.neg_neg]
    · have e : ((v.signif.natAbs : Nat) : Int) = v.signif := by omega
      simp only [h, decide_false, Bool.false_eq_true, if_false, e]

theorem dbig_eq_literal (toks : List Tok) : (dbigAsIs toks).map fpOfParts = floatLiteral false toks := by
  have e := dbig_eq toks
  unfold floatLiteral
  simp only [Bool.false_and, Bool.false_eq_true, if_false]
  cases ha : dbigAsIs toks with
  | none => rfl
  | some a =>
    obtain ⟨neg, mag, ex, nd⟩ := a
    rw [ha] at e
    simp only [Option.map_some] at e ⊢
    rw [← e]
    simp [fpOfParts]

end Dashu.Model.Macro
