import Dashu.Proofs.Macro.FloatStrip
/-
  C20 — the hexadecimal float forms of `fbig!` (`[sign] 0x int [. frac] [p exponent]`, base 2):
  the literal denotes `± (hex digits) · 2^(exponent − 4·#fraction digits)` exactly, with precision
  4 bits per written hexadecimal digit; through the documented grammar `parseFloatSpec`
  (= `from_str_native` on every byte string, C08) and the parser the macro model runs.
-/
namespace Dashu.Model.Macro
open Dashu.Model.Serde Dashu.Model.Text Dashu.Model.Float

/-- the exponent part behind a marker byte `m` (`p`, `P` or `@`) -/
def pScaleChars (m : Nat) : Option Int → List Nat
  | none => []
  | some z => m :: printSpecInt 10 false z

/-- a hexadecimal literal of base 2: optional sign, `0x` / `0X`, hexadecimal integer digits,
    optional `.` + hexadecimal fraction digits, optional marker + signed decimal binary exponent -/
def renderHex (up : Bool) (x m : Nat) (sign : Option Bool) (di : List Nat) (frac : Option (List Nat))
    (scale : Option Int) : List Nat :=
  signChars sign ++ (48 :: x :: ((chars up di ++ fracChars up frac) ++ pScaleChars m scale))

theorem chkDigits_chars (r : Nat) (hr : r ≤ 36) (up : Bool) (ds : List Nat) (h : ∀ d ∈ ds, d < r) (ae : Bool)
    (hne : ds ≠ [] ∨ ae = true) : chkDigits r (chars up ds) ae = .ok ds := by
  cases ds with
  | nil =>
    rcases hne with h0 | h0
    · exact absurd rfl h0
    · subst h0; rfl
  | cons d t =>
    unfold chkDigits digitsOnly
    have h36 : ∀ x ∈ d :: t, x < 36 := fun x hx => by have := h x hx; omega
    have hne95 := digitChar_ne_us up d (h36 d (by simp))
    have hb : (digitChar up d == 95) = false := by simpa using hne95
    simp only [chars, List.map_cons, List.cons_ne_nil, if_false, List.all_cons, hb, Bool.false_and,
      Bool.false_eq_true]
    have hf := filter_us_map up (d :: t) h36
    simp only [List.map_cons] at hf
    rw [hf]
    have hm := digitValues_map r up hr (d :: t) h
    simp only [List.map_cons] at hm
    rw [hm]

theorem hexDigit_no_marker (up : Bool) (d : Nat) (hd : d < 16) : isScaleMarker 2 true (digitChar up d) = false := by
  have hc := digitChar_cases up d (by omega)
  unfold isScaleMarker
  simp
  omega

theorem hexBody_no_marker (up : Bool) (di : List Nat) (frac : Option (List Nat))
    (hdi : ∀ d ∈ di, d < 16) (hdf : ∀ d ∈ frac.getD [], d < 16) :
    ∀ c ∈ chars up di ++ fracChars up frac, isScaleMarker 2 true c = false := by
  intro c hc
  rcases List.mem_append.mp hc with h | h
  · obtain ⟨d, hd, rfl⟩ := chars_mem h; exact hexDigit_no_marker up d (hdi d hd)
  · cases frac with
    | none => simp [fracChars] at h
    | some df =>
      simp only [fracChars, List.mem_cons] at h
      rcases h with h | h
      · subst h; exact isScaleMarker_dot 2 true
      · obtain ⟨d, hd, rfl⟩ := chars_mem h; exact hexDigit_no_marker up d (hdf d (by simpa using hd))

/-- the grammar on the body of a hexadecimal literal -/
theorem specBody_hex (up : Bool) (x : Nat) (neg : Bool) (scale : Int) (di : List Nat) (frac : Option (List Nat))
    (hdi : ∀ d ∈ di, d < 16) (hdf : ∀ d ∈ frac.getD [], d < 16) (hne : di ≠ [] ∨ frac.getD [] ≠ []) :
    specBody 2 true neg scale (48 :: x :: (chars up di ++ fracChars up frac)) =
      .ok (literalValue 2 16 4 neg di (frac.getD []) scale) := by
  unfold specBody
  simp only [if_true, List.drop_succ_cons, List.drop_zero, Bool.not_true, Bool.and_false, Bool.false_eq_true, if_false]
  cases frac with
  | none =>
    have hd : di ≠ [] := by
      rcases hne with h | h
      · exact h
      · simp at h
    simp only [fracChars, List.append_nil, Option.getD_none]
    have hno : (chars up di).findIdx? (· == 46) = none := findIdx?_none _ (chars_no_dot up di)
    unfold splitAtDot
    rw [hno]
    simp only [Option.isSome_none]
    rw [chkDigits_chars 16 (by norm_num) up di hdi false (Or.inl hd), chk_nil_true]
    simp [hd]
  | some df =>
    simp only [fracChars, Option.getD_some] at hdf hne ⊢
    have hhit : (chars up di ++ 46 :: chars up df).findIdx? (· == 46) = some (chars up di).length :=
      findIdx?_append_hit _ 46 _ (chars_no_dot up di) rfl
    unfold splitAtDot
    rw [hhit]
    simp only [Option.isSome_some, List.take_left']
    have hdrop : (chars up di ++ 46 :: chars up df).drop ((chars up di).length + 1) = chars up df := by
      rw [← List.drop_drop, List.drop_left']; rfl; rfl
    rw [hdrop]
    rw [chkDigits_chars 16 (by norm_num) up di hdi true (Or.inr rfl),
        chkDigits_chars 16 (by norm_num) up df hdf true (Or.inr rfl)]
    have : ¬ (di = [] ∧ df = []) := by
      intro h; rcases hne with h1 | h1
      · exact h1 h.1
      · exact h1 h.2
    simp [this]

/-- **the documented grammar on a hexadecimal literal** -/
theorem spec_hex (up : Bool) (x m : Nat) (hx : x = 120 ∨ x = 88) (hm : m = 112 ∨ m = 80 ∨ m = 64)
    (sign : Option Bool) (di : List Nat) (frac : Option (List Nat)) (scale : Option Int)
    (hdi : ∀ d ∈ di, d < 16) (hdf : ∀ d ∈ frac.getD [], d < 16) (hne : di ≠ [] ∨ frac.getD [] ≠ [])
    (hs : ∀ z, scale = some z → -(2 ^ 63 : Int) ≤ z ∧ z < (2 ^ 63 : Int)) :
    parseFloatSpec 2 (renderHex up x m sign di frac scale) =
      .ok (literalValue 2 16 4 (sign == some true) di (frac.getD []) (scale.getD 0)) := by
  unfold renderHex
  generalize hbody : chars up di ++ fracChars up frac = body
  have hbm : ∀ c ∈ body, isScaleMarker 2 true c = false := by
    rw [← hbody]; exact hexBody_no_marker up di frac hdi hdf
  have hsign := stripSignF_sign sign (48 :: x :: (body ++ pScaleChars m scale)) (by
    intro c hc; simp at hc; omega)
  have hpre : hasHexPrefix (48 :: x :: (body ++ pScaleChars m scale)) = true := by
    rcases hx with h | h <;> subst h <;> simp [hasHexPrefix]
  have hx0 : isScaleMarker 2 true x = false := by
    rcases hx with h | h <;> subst h <;> simp [isScaleMarker]
  have h480 : isScaleMarker 2 true 48 = false := by simp [isScaleMarker]
  have hpm : ∀ c ∈ 48 :: x :: body, isScaleMarker 2 true c = false := by
    intro c hc
    simp only [List.mem_cons] at hc
    rcases hc with h | h | h
    · subst h; exact h480
    · subst h; exact hx0
    · exact hbm c h
  cases scale with
  | none =>
    simp only [pScaleChars, List.append_nil, Option.getD_none] at hsign hpre ⊢
    have hr : rfindIdx (isScaleMarker 2 (2 == 2 && hasHexPrefix (stripSignF (signChars sign ++ 48 :: x :: body)).2))
        (stripSignF (signChars sign ++ 48 :: x :: body)).2 = none := by
      rw [hsign]; dsimp only; rw [hpre]
      exact rfindIdx_none _ hpm
    rw [spec_none 2 _ hr, hsign]
    dsimp only
    rw [hpre, ← hbody]
    exact specBody_hex up x _ 0 di frac hdi hdf hne
  | some z =>
    simp only [pScaleChars, Option.getD_some] at hsign hpre ⊢
    have hmm : isScaleMarker 2 true m = true := by
      rcases hm with h | h | h <;> subst h <;> simp [isScaleMarker]
    have hdec : ∀ c ∈ printSpecInt 10 false z, isScaleMarker 2 true c = false :=
      fun c hc => isScaleMarker_dec 2 true c (printSpecInt10_chars z c hc)
    have hshape : 48 :: x :: (body ++ m :: printSpecInt 10 false z) = (48 :: x :: body) ++ m :: printSpecInt 10 false z := by
      simp
    have hr : rfindIdx (isScaleMarker 2 (2 == 2 && hasHexPrefix (stripSignF (signChars sign ++ 48 :: x :: (body ++ m :: printSpecInt 10 false z))).2))
        (stripSignF (signChars sign ++ 48 :: x :: (body ++ m :: printSpecInt 10 false z))).2 = some (48 :: x :: body).length := by
      rw [hsign]; dsimp only; rw [hpre, hshape]
      exact rfindIdx_hit _ m _ hdec hmm
    have hz := hs z rfl
    have hi : parseIsize 64 ((stripSignF (signChars sign ++ 48 :: x :: (body ++ m :: printSpecInt 10 false z))).2.drop
        ((48 :: x :: body).length + 1)) = .ok z := by
      rw [hsign]; dsimp only; rw [hshape]
      have hdrop : ((48 :: x :: body) ++ m :: printSpecInt 10 false z).drop ((48 :: x :: body).length + 1) =
          printSpecInt 10 false z := by
        rw [← List.drop_drop, List.drop_left']; rfl; rfl
      rw [hdrop]
      exact parseIsize_printSpecInt 64 z (by simpa using hz.1) (by simpa using hz.2)
    rw [spec_ok 2 _ _ z hr hi, hsign]
    dsimp only
    rw [hpre, hshape, List.take_left' rfl, ← hbody]
    exact specBody_hex up x _ z di frac hdi hdf hne

/-- **hexadecimal float literal = the number written**: `[sign] 0x int [. frac] [p exponent]` denotes
    `± (hex digits int ++ frac) · 2^(exponent − 4·|frac|)` exactly, and its precision is four bits per
    hexadecimal digit written; `floatParse 2` (the parser the macro model and the driver run) returns it
    whenever the normalised exponent is an `isize` -/
theorem floatParse_hex (up : Bool) (x m : Nat) (hx : x = 120 ∨ x = 88) (hm : m = 112 ∨ m = 80 ∨ m = 64)
    (sign : Option Bool) (di : List Nat) (frac : Option (List Nat)) (scale : Option Int)
    (hdi : ∀ d ∈ di, d < 16) (hdf : ∀ d ∈ frac.getD [], d < 16) (hne : di ≠ [] ∨ frac.getD [] ≠ [])
    (hs : ∀ z, scale = some z → -(2 ^ 63 : Int) ≤ z ∧ z < (2 ^ 63 : Int)) :
    ∃ r : FRepr,
      r.toRat 2 = (if sign = some true then -1 else 1) * (ofDigits 16 (di ++ frac.getD []) : ℚ) *
        bpowQ 2 (scale.getD 0 - ((4 * (frac.getD []).length : Nat) : Int)) ∧
      (inIsize r.exp → floatParse 2 (renderHex up x m sign di frac scale) =
        some (⟨r.signif, r.exp⟩, 4 * (di.length + (frac.getD []).length))) := by
  have hspec := spec_hex up x m hx hm sign di frac scale hdi hdf hne hs
  rw [← fromStrNative_eq_spec 64 (by norm_num) 2 (by decide)] at hspec
  have hv := literalValue_value 2 16 4 (by norm_num) (by norm_num) (sign == some true) di (frac.getD []) (scale.getD 0)
  refine ⟨(literalValue 2 16 4 (sign == some true) di (frac.getD []) (scale.getD 0)).1, ?_, ?_⟩
  · rw [hv.1]
    have e1 : (frac.getD []).length * 4 = 4 * (frac.getD []).length := Nat.mul_comm _ _
    rw [e1]
    cases sign with
    | none => simp
    | some b => cases b <;> simp
  · intro hin
    unfold floatParse parseF
    unfold fromStrNative at hspec
    cases hraw : fromStrNativeRaw 64 2 (renderHex up x m sign di frac scale) with
    | error e => rw [hraw] at hspec; simp [Except.map] at hspec
    | ok t =>
      obtain ⟨sig, e, nd⟩ := t
      rw [hraw] at hspec
      simp only [Except.map, Except.ok.injEq] at hspec
      have h1 : FRepr.new 2 sig e = (literalValue 2 16 4 (sign == some true) di (frac.getD []) (scale.getD 0)).1 := by
        rw [← hspec]
      have h2 : nd = (literalValue 2 16 4 (sign == some true) di (frac.getD []) (scale.getD 0)).2 := by
        rw [← hspec]
      dsimp only
      rw [h1]
      simp only [hin, if_true]
      rw [h2, hv.2, Nat.mul_comm]

-- ---------------------------------------------------------------- through the macro

theorem stripSign_signChars (sign : Option Bool) (t : Bytes) (ht : NoSign t) :
    stripSign (signChars sign ++ t) = (sign == some true, t) := by
  cases sign with
  | none => simpa [signChars] using stripSign_other t ht
  | some b => cases b <;> rfl

theorem fbigRtText_signChars (sign : Option Bool) (us : Bool) (t : Bytes) (ht : NoSign t) (h95 : t.head? ≠ some 95) :
    fbigRtText (signChars sign ++ ((if us then [95] else []) ++ t)) = signChars sign ++ t := by
  have hu : stripUs ((if us then [95] else []) ++ t) = t := by
    cases us
    · simp only [Bool.false_eq_true, if_false, List.nil_append]
      unfold stripUs
      split
      · simp at h95
      · rfl
    · rfl
  have hns : NoSign ((if us then [95] else []) ++ t) := by
    cases us
    · simpa using ht
    · simp [NoSign]
  cases sign with
  | none =>
    simp only [signChars, List.nil_append]
    rw [fbigRtText_other _ hns, hu]
  | some b =>
    cases b
    · show fbigRtText (43 :: ((if us then [95] else []) ++ t)) = 43 :: t
      rw [fbigRtText_plus, hu]
    · show fbigRtText (45 :: ((if us then [95] else []) ++ t)) = 45 :: t
      rw [fbigRtText_minus, hu]

/-- **`fbig!` on a hexadecimal float literal** (`fbig!(-0xae1fp-8)`, `fbig!(-_0xae.1f)`,
    `fbig!(0x03.efp-2)` …): whenever the tokens spell `[sign] [_] 0x int [. frac] [p exponent]`, the
    macro's own stripping followed by the parser yields exactly `± hex digits · 2^(exponent − 4·|frac|)`
    with precision 4 bits per hexadecimal digit — both as the code computes it (`fbigNew`) and as the
    model prescribes (`floatLiteral`) -/
theorem fbig_hex_literal (toks : List Tok) (us up : Bool) (x m : Nat) (hx : x = 120 ∨ x = 88)
    (hm : m = 112 ∨ m = 80 ∨ m = 64) (sign : Option Bool) (di : List Nat) (frac : Option (List Nat))
    (scale : Option Int) (hdi : ∀ d ∈ di, d < 16) (hdf : ∀ d ∈ frac.getD [], d < 16)
    (hne : di ≠ [] ∨ frac.getD [] ≠ []) (hs : ∀ z, scale = some z → -(2 ^ 63 : Int) ≤ z ∧ z < (2 ^ 63 : Int))
    (htext : concatToks toks = signChars sign ++ ((if us then [95] else []) ++
      (48 :: x :: ((chars up di ++ fracChars up frac) ++ pScaleChars m scale)))) :
    ∃ r : FRepr,
      r.toRat 2 = (if sign = some true then -1 else 1) * (ofDigits 16 (di ++ frac.getD []) : ℚ) *
        bpowQ 2 (scale.getD 0 - ((4 * (frac.getD []).length : Nat) : Int)) ∧
      (inIsize r.exp →
        (fbigNew toks).map fpOfParts = some ⟨r.signif, r.exp, 4 * (di.length + (frac.getD []).length)⟩ ∧
        floatLiteral true toks = some ⟨r.signif, r.exp, 4 * (di.length + (frac.getD []).length)⟩) := by
  obtain ⟨r, hv, hp⟩ := floatParse_hex up x m hx hm sign di frac scale hdi hdf hne hs
  refine ⟨r, hv, ?_⟩
  intro hin
  have hp := hp hin
  generalize hbody : (48 :: x :: ((chars up di ++ fracChars up frac) ++ pScaleChars m scale)) = t at htext
  have ht : NoSign t := by rw [← hbody]; simp [NoSign]
  have h95 : t.head? ≠ some 95 := by rw [← hbody]; simp
  have hrt : fbigRtText (concatToks toks) = renderHex up x m sign di frac scale := by
    rw [htext, fbigRtText_signChars sign us t ht h95, ← hbody]; rfl
  have hsec : fbigSecondSign toks = false := by
    unfold fbigSecondSign
    rw [htext]
    have hns : NoSign ((if us then [95] else []) ++ t) := by
      cases us
      · simpa using ht
      · simp [NoSign]
    rw [stripSign_signChars sign _ hns]
    dsimp only
    cases us
    · simp only [Bool.false_eq_true, if_false, List.nil_append]
      have : stripUs t = t := by rw [← hbody]; rfl
      rw [this, ← hbody]; rfl
    · show ((stripUs (95 :: t)).head? == some 45 || (stripUs (95 :: t)).head? == some 43) = false
      have : stripUs (95 :: t) = t := rfl
      rw [this, ← hbody]; rfl
  have hnew := fbigNew_eq toks
  rw [hsec] at hnew
  simp only [Bool.false_eq_true, if_false] at hnew
  have hr : rtFloat true toks = some ⟨r.signif, r.exp, 4 * (di.length + (frac.getD []).length)⟩ := by
    rw [rtFloat_eq]
    simp only [if_true]
    rw [hrt, hp]; rfl
  refine ⟨by rw [hnew, hr], ?_⟩
  rw [← fbigNew_eq_literal, hnew, hr]

/-- non-vacuity: `fbig!(-_0xae.1f)` — tokens `-`, `_0xae` (identifier), `.`, `1f` -/
example : concatToks [.punct 45, .ident [95, 48, 120, 97, 101], .punct 46, .lit [49, 102]] =
    signChars (some true) ++ ((if true then [95] else []) ++
      (48 :: 120 :: ((chars false [10, 14] ++ fracChars false (some [1, 15])) ++ pScaleChars 112 none))) ∧
    (fbigNew [.punct 45, .ident [95, 48, 120, 97, 101], .punct 46, .lit [49, 102]]).map fpOfParts =
      some ⟨-0xae1f, -8, 16⟩ := by
  refine ⟨by decide, by decide⟩

-- ---------------------------------------------------------------- every accepted literal, any form

/-- **whatever form an accepted float literal has** (underscores, any scale marker, hexadecimal with
    `fbig!`): its value is `± (its digits) · B^(scale − #fraction digits·k)` for digits of radix `B`
    (`k = 1`) or hexadecimal digits (`k = 4`, `fbig!` only), and its precision is `k` times the number
    of digits written -/
theorem floatLiteral_denotes (binary : Bool) (toks : List Tok) (v : FPVal) (h : floatLiteral binary toks = some v) :
    ∃ (neg hex : Bool) (di df : List Nat) (scale : Int), (hex = true → binary = true) ∧
      (∀ d ∈ di ++ df, d < (if hex then 16 else (if binary then 2 else 10))) ∧ di ++ df ≠ [] ∧
      v.prec = (di.length + df.length) * (if hex then 4 else 1) ∧
      (FRepr.mk v.signif v.exp).toRat (if binary then 2 else 10) =
        (if neg then -1 else 1) * (ofDigits (if hex then 16 else (if binary then 2 else 10)) (di ++ df) : ℚ) *
          bpowQ (if binary then 2 else 10) (scale - ((df.length * (if hex then 4 else 1) : Nat) : Int)) := by
  obtain ⟨hrt, _⟩ := floatLiteral_spec binary toks v h
  rw [rtFloat_eq] at hrt
  generalize hB : (if binary = true then 2 else 10) = B at *
  have hBv : validRadix B = true := by rw [← hB]; cases binary <;> decide
  generalize (if binary = true then fbigRtText (concatToks toks) else concatToks toks) = text at hrt
  unfold floatParse parseF at hrt
  cases hraw : fromStrNativeRaw 64 B text with
  | error e => rw [hraw] at hrt; simp at hrt
  | ok t =>
    obtain ⟨sig, e, nd⟩ := t
    rw [hraw] at hrt
    dsimp only at hrt
    split at hrt
    · simp only [Option.map_some, Option.some.injEq] at hrt
      have hspec : parseFloatSpec B text = .ok (FRepr.new B sig e, nd) := by
        rw [← fromStrNative_eq_spec 64 (by norm_num) B hBv]
        unfold fromStrNative; rw [hraw]; rfl
      obtain ⟨neg, hex, di, df, scale, hh, hlt, hne, hp, hval⟩ := spec_ok_denotes B hBv text _ _ hspec
      refine ⟨neg, hex, di, df, scale, ?_, hlt, hne, ?_, ?_⟩
      · intro hx
        have := hh hx
        cases binary
        · simp at hB; omega
        · rfl
      · rw [← hrt]; exact hp
      · rw [← hrt]; exact hval
    · simp at hrt

-- ---------------------------------------------------------------- the constructors of the expansion reproduce the parsed repr

theorem parseF_zero_exp (B : Nat) (hB : 0 < B) (s : Bytes) (v : FVal) (nd : Nat) (h : parseF B s = some (v, nd))
    (h0 : v.signif = 0) : v.exp = 0 := by
  unfold parseF at h
  cases hraw : fromStrNativeRaw 64 B s with
  | error e => simp [hraw] at h
  | ok t =>
    obtain ⟨sig, e, k⟩ := t
    simp only [hraw] at h
    split at h
    · simp only [Option.some.injEq, Prod.mk.injEq] at h
      obtain ⟨hv, _⟩ := h
      subst hv
      have hz := new_zero_exp B hB sig e h0
      show (FRepr.new B sig e).exp = 0
      rw [hz]
    · cases h

/-- **heap / static path of the float macros**: the expansion rebuilds the number with
    `Repr::new(significand, exponent)` (heap) resp. `Repr::from_static_words(sign, words, exponent)`
    (static) from the parts of the parsed, already normalised representation — `Repr::new` leaves them
    unchanged, so the stored representation is exactly the parsed one -/
theorem floatLiteral_repr_fixed (binary : Bool) (toks : List Tok) (v : FPVal) (h : floatLiteral binary toks = some v) :
    fnew (if binary then 2 else 10) v.signif v.exp = some ⟨v.signif, v.exp⟩ := by
  obtain ⟨hrt, hcanon⟩ := floatLiteral_spec binary toks v h
  have hB : 0 < (if binary = true then 2 else 10) := by split <;> omega
  refine fnew_of_canon _ ⟨v.signif, v.exp⟩ hcanon ?_
  rw [rtFloat_eq] at hrt
  cases hp : floatParse (if binary = true then 2 else 10)
      (if binary = true then fbigRtText (concatToks toks) else concatToks toks) with
  | none => rw [hp] at hrt; cases hrt
  | some p =>
    obtain ⟨fv, nd⟩ := p
    rw [hp] at hrt
    simp only [Option.map_some, toFP, Option.some.injEq] at hrt
    intro h0
    have := parseF_zero_exp _ hB _ fv nd hp (by rw [← hrt] at h0; exact h0)
    rw [← hrt]; exact this

end Dashu.Model.Macro
