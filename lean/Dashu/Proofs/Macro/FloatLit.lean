import Dashu.Proofs.Macro.Grammar
import Dashu.Proofs.Text.FloatParse
/-
  C20 — float literals: value and precision of a literal of the documented plain grammar, through the
  parser model the macro model runs (builder-text's `Text.fromStrNativeRaw`, C08's `literal_exact`).
-/
namespace Dashu.Model.Macro
open Dashu.Model.Serde Dashu.Model.Text Dashu.Model.Float

/-- a float literal of the documented plain grammar (optional sign, digits of base `B`, optional
    fraction, optional `@`-exponent) — what `fbig!` / `dbig!` hand to the parser — denotes exactly
    `± digits · B^(scale − #fraction digits)`, and its precision is the number of digits written;
    `floatParse` (the function the macro model and driver run) returns it whenever the normalised
    exponent is an `isize` -/
theorem floatParse_literal (B : Nat) (hB : validRadix B = true) (up : Bool)
    (sign : Option Bool) (di : List Nat) (frac : Option (List Nat)) (scale : Option Int)
    (hdi : ∀ d ∈ di, d < B) (hdf : ∀ d ∈ frac.getD [], d < B) (hne : di ≠ [] ∨ frac.getD [] ≠ [])
    (hs : ∀ z, scale = some z → -(2 ^ 63 : Int) ≤ z ∧ z < (2 ^ 63 : Int)) :
    ∃ r : FRepr, r.toRat B = (if sign = some true then -1 else 1) * (ofDigits B (di ++ frac.getD []) : ℚ) *
        bpowQ B (scale.getD 0 - ((frac.getD []).length : Int)) ∧
      (inIsize r.exp → floatParse B (renderLiteral up sign di frac scale) =
        some (⟨r.signif, r.exp⟩, di.length + (frac.getD []).length)) := by
  obtain ⟨r, hparse, hv⟩ := literal_exact 64 (by norm_num) B hB up sign di frac scale hdi hdf hne hs
  refine ⟨r, hv, ?_⟩
  intro hin
  unfold floatParse parseF
  unfold fromStrNative at hparse
  cases hraw : fromStrNativeRaw 64 B (renderLiteral up sign di frac scale) with
  | error e => rw [hraw] at hparse; simp [Except.map] at hparse
  | ok t =>
    obtain ⟨sig, e, nd⟩ := t
    rw [hraw] at hparse
    simp [Except.map] at hparse
    obtain ⟨h1, h2⟩ := hparse
    simp only [h1, hin, if_true, h2]

end Dashu.Model.Macro
