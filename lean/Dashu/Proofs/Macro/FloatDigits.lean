import Dashu.Proofs.Macro.FloatHex
/-
  C20 — an accepted float literal never has more significant digits than its precision (the number
  of digits written, ×4 for hexadecimal digits): `FBig::from_repr`'s `debug_assert!(digits ≤ precision)`
  in the heap expansion cannot fire.
-/
namespace Dashu.Model.Macro
open Dashu.Model.Serde Dashu.Model.Text Dashu.Model.Float

theorem ofDigits_lt_pow (r : Nat) (ds : List Nat) (h : ∀ d ∈ ds, d < r) : ofDigits r ds < r ^ ds.length := by
  induction ds with
  | nil => simp [ofDigits]
  | cons d t ih =>
    have hd : d < r := h d (by simp)
    have ht := ih (fun x hx => h x (by simp [hx]))
    rw [ofDigits_cons, List.length_cons, Nat.pow_succ]
    calc d * r ^ t.length + ofDigits r t < d * r ^ t.length + r ^ t.length := by omega
      _ = (d + 1) * r ^ t.length := by ring
      _ ≤ r * r ^ t.length := Nat.mul_le_mul_right _ hd
      _ = r ^ t.length * r := Nat.mul_comm _ _

/-- the raw significand of a literal is below `B^(precision)` -/
theorem literalValue_digits (B radix k : Nat) (hB : 2 ≤ B) (hrk : radix = B ^ k) (hk : 1 ≤ k) (neg : Bool)
    (di df : List Nat) (scale : Int) (hlt : ∀ d ∈ di ++ df, d < radix) (hne : di ++ df ≠ []) :
    (literalValue B radix k neg di df scale).1.digits B ≤ (literalValue B radix k neg di df scale).2 := by
  unfold literalValue
  simp only
  have hi := ofDigits_lt_pow radix di (fun d hd => hlt d (List.mem_append_left _ hd))
  have hf := ofDigits_lt_pow radix df (fun d hd => hlt d (List.mem_append_right _ hd))
  have hlen : 1 ≤ di.length + df.length := by
    cases di with
    | nil => cases df with
      | nil => exact absurd rfl hne
      | cons _ _ => simp
    | cons _ _ => simp; omega
  have hq : 1 ≤ (di.length + df.length) * k := Nat.mul_le_mul hlen hk
  have hpi : radix ^ di.length = B ^ (di.length * k) := by rw [hrk, ← Nat.pow_mul, Nat.mul_comm]
  have hpf : radix ^ df.length = B ^ (df.length * k) := by rw [hrk, ← Nat.pow_mul, Nat.mul_comm]
  rw [hpi] at hi
  rw [hpf] at hf
  have hsum : B ^ ((di.length + df.length) * k) = B ^ (di.length * k) * B ^ (df.length * k) := by
    rw [Nat.add_mul, Nat.pow_add]
  have hBpos : 0 < B ^ (df.length * k) := Nat.pow_pos (by omega)
  -- the magnitude
  have hmag : (if ofDigits radix df = 0 then ofDigits radix di else ofDigits radix di * B ^ (df.length * k) + ofDigits radix df)
      < B ^ ((di.length + df.length) * k) := by
    rw [hsum]
    split
    · calc ofDigits radix di < B ^ (di.length * k) := hi
        _ ≤ B ^ (di.length * k) * B ^ (df.length * k) := Nat.le_mul_of_pos_right _ hBpos
    · calc ofDigits radix di * B ^ (df.length * k) + ofDigits radix df
          < ofDigits radix di * B ^ (df.length * k) + B ^ (df.length * k) := by omega
        _ = (ofDigits radix di + 1) * B ^ (df.length * k) := by ring
        _ ≤ B ^ (di.length * k) * B ^ (df.length * k) := Nat.mul_le_mul_right _ hi
  apply new_digits_le_digits B hB _ _ _ hq
  generalize (if ofDigits radix df = 0 then ofDigits radix di else ofDigits radix di * B ^ (df.length * k) + ofDigits radix df) = mag at hmag
  cases neg
  · simp only [Bool.false_eq_true, if_false]
    rw [abs_of_nonneg (by positivity)]
    exact_mod_cast hmag
  · simp only [if_true]
    rw [abs_neg, abs_of_nonneg (by positivity)]
    exact_mod_cast hmag

/-- every string the documented grammar accepts: digits of the value ≤ precision -/
theorem spec_ok_digits (B : Nat) (hB : validRadix B = true) (s : List Nat) (r : FRepr) (p : Nat)
    (h : parseFloatSpec B s = .ok (r, p)) : r.digits B ≤ p := by
  have hr := validRadix_iff.mp hB
  have key : ∃ scale body, specBody B (B == 2 && hasHexPrefix (stripSignF s).2) (stripSignF s).1 scale body
      = .ok (r, p) := by
    cases hf : rfindIdx (isScaleMarker B (B == 2 && hasHexPrefix (stripSignF s).2)) (stripSignF s).2 with
    | none => exact ⟨0, _, by rw [← spec_none B s hf]; exact h⟩
    | some pos =>
      cases hi : parseIsize 64 ((stripSignF s).2.drop (pos + 1)) with
      | error e => rw [spec_err B s pos e hf hi] at h; cases h
      | ok v => exact ⟨v, _, by rw [← spec_ok B s pos v hf hi]; exact h⟩
  obtain ⟨scale, body, hk⟩ := key
  obtain ⟨di, df, hlt, hne, hres⟩ := specBody_ok hk
  generalize hhex : (B == 2 && hasHexPrefix (stripSignF s).2) = hex at *
  have hB2 : hex = true → B = 2 := by
    intro hx; subst hx; simp at hhex; exact hhex.1
  have hrk : (if hex then 16 else B) = B ^ (if hex then 4 else 1) := by
    cases hex
    · simp
    · rw [hB2 rfl]; rfl
  have hk1 : 1 ≤ (if hex then 4 else 1) := by split <;> omega
  have := literalValue_digits B _ _ hr.1 hrk hk1 (stripSignF s).1 di df scale hlt hne
  rw [← hres] at this
  exact this

/-- **digits ≤ precision for every accepted float literal**: the `debug_assert!` of `FBig::from_repr`
    (heap path) holds for the expansion -/
theorem floatLiteral_digits_le_prec (binary : Bool) (toks : List Tok) (v : FPVal) (h : floatLiteral binary toks = some v) :
    (FRepr.mk v.signif v.exp).digits (if binary then 2 else 10) ≤ v.prec := by
  obtain ⟨hrt, _⟩ := floatLiteral_spec binary toks v h
  rw [rtFloat_eq] at hrt
  generalize hB : (if binary = true then 2 else 10) = B at *
  have hBv : validRadix B = true := by rw [← hB]; cases binary <;> decide
  generalize (if binary = true then fbigRtText (concatToks toks) else concatToks toks) = text at hrt
  unfold floatParse parseF at hrt
  cases hraw : fromStrNativeRaw 64 B text with
  | error e => rw [hraw] at hrt; simp at hrt
  | ok t =>
    obtain ⟨sig, e, nd⟩ := t
    rw [hraw] at hrt
    dsimp only at hrt
    split at hrt
    · simp only [Option.map_some, Option.some.injEq] at hrt
      have hspec : parseFloatSpec B text = .ok (FRepr.new B sig e, nd) := by
        rw [← fromStrNative_eq_spec 64 (by norm_num) B hBv]
        unfold fromStrNative; rw [hraw]; rfl
      have := spec_ok_digits B hBv text _ _ hspec
      rw [← hrt]
      exact this
    · simp at hrt

end Dashu.Model.Macro
