import Dashu.Proofs.Serde.Num
import Dashu.Model.Float.Repr
/-
  Bridge between the two models of `Repr::new` (float/src/repr.rs):
  * `Serde.fnew B s e` (Model/Serde/Num.lean, value level: multiplicity of `B` in `|s|`, `none` when
    the normalised exponent leaves `isize`) — what the C20 model of the float macros uses, and
  * `Float.FRepr.new B s e` (Model/Float/Repr.lean, C19/C03's mirror of `.normalize()`: the fuelled
    strip loop on the signed significand, exponent in `Int`).
  For every base ≥ 2, every significand and exponent: `fnew` = the mirror + the `isize` test.
-/
namespace Dashu.Model.Macro
open Dashu.Model.Serde Dashu.Model.Float

theorem stripAux_eq_stripB (B : Nat) (hB : 2 ≤ B) : ∀ (fuel : Nat) (s e : Int) (k : Nat), s ≠ 0 →
    s.natAbs < 2 ^ fuel →
    stripAux B fuel s e =
      ((if s < 0 then -((stripB B s.natAbs k).1 : Int) else ((stripB B s.natAbs k).1 : Int)),
       e + ((stripB B s.natAbs k).2 : Int) - (k : Int)) := by
  intro fuel
  induction fuel with
  | zero => intro s e k hs h; simp at h; omega
  | succ fuel ih =>
    intro s e k hs hlt
    unfold stripAux
    by_cases h : s % (B : Int) = 0
    · simp only [h, if_true]
      have hsB : s = (B : Int) * (s / (B : Int)) := by
        have := Int.mul_ediv_add_emod s B; omega
      have hq0 : s / (B : Int) ≠ 0 := by
        intro hq; rw [hq] at hsB; simp at hsB; exact hs hsB
      have hab : s.natAbs = B * (s / (B : Int)).natAbs := by
        conv_lhs => rw [hsB]
        rw [Int.natAbs_mul]; simp
      have hB0 : 0 < B := by omega
      have hdivn : s.natAbs / B = (s / (B : Int)).natAbs := by
        rw [hab]; exact Nat.mul_div_cancel_left _ hB0
      have hmod : s.natAbs % B = 0 := by rw [hab]; exact Nat.mul_mod_right _ _
      have hsmall : (s / (B : Int)).natAbs < 2 ^ fuel := by
        have : 2 * (s / (B : Int)).natAbs ≤ s.natAbs := by
          rw [hab]; exact Nat.mul_le_mul_right _ hB
        rw [Nat.pow_succ] at hlt
        omega
      have hsign : (s / (B : Int) < 0) ↔ s < 0 := by
        constructor
        · intro hq
          rw [hsB]
          exact Int.mul_neg_of_pos_of_neg (by exact_mod_cast hB0) hq
        · intro hsn
          by_contra hc
          have hq : 0 ≤ s / (B : Int) := by omega
          have : 0 ≤ (B : Int) * (s / (B : Int)) := Int.mul_nonneg (by exact_mod_cast (Nat.zero_le B)) hq
          omega
      have hstep : stripB B s.natAbs k = stripB B (s / (B : Int)).natAbs (k + 1) := by
        rw [stripB_step (by omega), hdivn]
      rw [ih (s / (B : Int)) (e + 1) (k + 1) hq0 hsmall, hstep]
      by_cases hn : s < 0
      · have hn' := hsign.mpr hn
        simp only [hn, hn', if_true]
        refine Prod.ext rfl ?_
        simp only []
        push_cast; omega
      · have hn' : ¬ (s / (B : Int) < 0) := fun c => hn (hsign.mp c)
        simp only [hn, hn', if_false]
        refine Prod.ext rfl ?_
        simp only []
        push_cast; omega
    · simp only [h, if_false]
      have hmod : s.natAbs % B ≠ 0 := by
        intro hc
        apply h
        have hd : (B : Int) ∣ s := Int.natCast_dvd.mpr (Nat.dvd_of_mod_eq_zero hc)
        exact Int.emod_eq_zero_of_dvd hd
      rw [stripB_stop (Or.inr (Or.inr hmod))]
      refine Prod.ext ?_ ?_
      · simp only []
        split <;> omega
      · simp only []
        omega

/-- `Repr::new`: the value-level model used by C20 (`fnew`) is C19's mirror of `normalize`
    (`FRepr.new`) followed by the `isize` test on the normalised exponent — every base ≥ 2, every
    significand, every exponent -/
theorem fnew_eq_mirror (B : Nat) (hB : 2 ≤ B) (s e : Int) :
    fnew B s e =
      if inIsize (FRepr.new B s e).exp then some ⟨(FRepr.new B s e).signif, (FRepr.new B s e).exp⟩
      else none := by
  unfold fnew FRepr.new
  by_cases h0 : s = 0
  · subst h0
    have : inIsize 0 := by unfold inIsize inI64; norm_num
    simp [this]
  · simp only [h0, if_false]
    rw [stripAux_eq_stripB B hB _ s e 0 h0 Nat.lt_log2_self]
    simp only [Int.natCast_zero, Int.sub_zero]

/-- when `fnew` returns a representation, the mirror returns the same one -/
theorem mirror_of_fnew (B : Nat) (hB : 2 ≤ B) (s e : Int) (v : FVal) (h : fnew B s e = some v) :
    FRepr.new B s e = ⟨v.signif, v.exp⟩ := by
  rw [fnew_eq_mirror B hB] at h
  split at h
  · simp only [Option.some.injEq] at h
    subst h
    rfl
  · cases h

end Dashu.Model.Macro
