import Dashu.Proofs.Text.BytesModel
import Dashu.Proofs.Text.Digits
import Dashu.Proofs.Serde.Wire
/-
  C20 ↔ C07 bridge: the value-level byte functions of the macro model (`Serde.leBytes`, `Serde.ofLeBytes`)
  are C07's positional specifications (`leBytesSpec`, `ofLeBytesSpec`), hence — by C07's `toLeBytes_eq` /
  `fromLeBytes_eq` — its word-level mirrors of `to_le_bytes` / `from_le_bytes`.  (Same two facts as
  `Proofs/Serde/WordSize.lean` states for C19; re-proved here so that the closure of Props/C20Link is
  `Proofs/Text` only and not the Props files of C01/C02/C07/C09/C12.)
-/
namespace Dashu.Model.Macro
open Dashu.Model.Serde Dashu.Model.Text

theorem leBytes_eq_leBytesSpec (n : Nat) : leBytes n = leBytesSpec n := by
  unfold leBytesSpec
  induction n using Nat.strongRecOn with
  | _ n ih =>
    by_cases h : n = 0
    · subst h; rw [leBytes_zero, digitsAux_zero]; rfl
    · rw [leBytes_pos h, digitsAux_succ (by omega) h, List.reverse_append,
        ih (n / 256) (Nat.div_lt_self (by omega) (by omega))]
      simp

theorem ofLeBytes_eq_ofLeBytesSpec (bs : Bytes) : ofLeBytes bs = ofLeBytesSpec bs := by
  unfold ofLeBytesSpec
  induction bs with
  | nil => rfl
  | cons b t ih => simp [ofLeBytes, ofDigitsLE, ih]

/-- C07's word-level `to_le_bytes`, any word size that is a multiple of 8 -/
theorem toLeBytes_eq_leBytes (W : Nat) (h8 : 8 ∣ W) (hW : 8 ≤ W) (n : Nat) : toLeBytes W n = leBytes n := by
  rw [toLeBytes_eq W n h8 hW, leBytes_eq_leBytesSpec]

/-- C07's word-level `from_le_bytes`, any word size that is a multiple of 8, any byte string -/
theorem fromLeBytes_eq_ofLeBytes' (W : Nat) (h8 : 8 ∣ W) (hW : 8 ≤ W) (bs : Bytes) : fromLeBytes W bs = ofLeBytes bs := by
  rw [fromLeBytes_eq W h8 hW, ofLeBytes_eq_ofLeBytesSpec]

end Dashu.Model.Macro
