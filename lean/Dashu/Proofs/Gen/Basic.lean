import Dashu.Model.GluePrelude.Ext
import Lean.Elab.Tactic
import Lean.Meta.Tactic.Split
/-
  Lemmas and tactics for the theorems about REGENERATED decision bodies (`Props/Gen*.lean`).

  The proofs must not depend on the literal shape of the generated text: a behaviour-preserving rewrite of
  the Rust source (negated test with swapped arms, reordered match arms, commuted operands, `a >= b` written
  `!(a < b)`) has to leave them checking.  Two things provide that:
  * the translator writes a canonical text (`vlib/extract.py`: comparisons oriented as `<` / `<=`, negations of
    comparisons folded, `if !c` arms swapped, operands of commutative integer operators and closed match arms
    sorted), and
  * the tactics here decide conditions SEMANTICALLY: `gprune` rewrites an `if` / `decide` / `compare` whenever
    `omega` proves (or refutes) its condition from the hypotheses in scope, whatever the condition looks like;
    `gcases h : atom` adds an atom and prunes; `gwalk` splits what is left and closes leaves by `rfl` / `omega`.
  Core Lean only.
-/
namespace Dashu.Proofs.Gen
open Dashu Dashu.GluePrelude

/-! ### the operators of the source text on `Int` -/

theorem compare_int (a b : Int) :
    compare a b = if a < b then Ordering.lt else if a = b then Ordering.eq else Ordering.gt := by
  simp only [compare, compareOfLessAndEq]

theorem compare_nat (a b : Nat) :
    compare a b = if a < b then Ordering.lt else if a = b then Ordering.eq else Ordering.gt := by
  simp only [compare, compareOfLessAndEq]

@[simp] theorem ge_int (a b : Int) : ge_ a b = decide (b ≤ a) := by
  unfold ge_; rw [compare_int]
  by_cases h1 : a < b
  · have : ¬ b ≤ a := by omega
    simp [h1, this]
  · by_cases h2 : a = b
    · simp [h2]
    · have : b ≤ a := by omega
      simp [h1, h2, this]

@[simp] theorem le_int (a b : Int) : le_ a b = decide (a ≤ b) := by
  unfold le_; rw [compare_int]
  by_cases h1 : a < b
  · have : a ≤ b := by omega
    simp [h1, this]
  · by_cases h2 : a = b
    · simp [h2]
    · have : ¬ a ≤ b := by omega
      simp [h1, h2, this]

@[simp] theorem gt_int (a b : Int) : gt_ a b = decide (b < a) := by
  unfold gt_; rw [compare_int]
  by_cases h1 : a < b
  · have : ¬ b < a := by omega
    simp [h1, this]
  · by_cases h2 : a = b
    · simp [h2]
    · have : b < a := by omega
      simp [h1, h2, this]

@[simp] theorem lt_int (a b : Int) : lt_ a b = decide (a < b) := by
  unfold lt_; rw [compare_int]
  by_cases h1 : a < b
  · simp [h1]
  · by_cases h2 : a = b
    · simp [h2]
    · simp [h1, h2]

theorem eq_def {α} [DecidableEq α] (a b : α) : eq_ a b = decide (a = b) := rfl
theorem ne_def {α} [DecidableEq α] (a b : α) : ne_ a b = !decide (a = b) := rfl
@[simp] theorem eq_int (a b : Int) : eq_ a b = decide (a = b) := rfl
@[simp] theorem ne_int (a b : Int) : ne_ a b = !decide (a = b) := rfl
@[simp] theorem cmp_int (a b : Int) : cmp a b = compare a b := rfl
@[simp] theorem add_int (a b : Int) : add_ a b = a + b := rfl
@[simp] theorem sub_int (a b : Int) : sub_ a b = a - b := rfl
@[simp] theorem mul_int (a b : Int) : mul_ a b = a * b := rfl
@[simp] theorem neg_int (a : Int) : neg_ a = -a := rfl
@[simp] theorem is_zero_int (a : Int) : is_zero a = decide (a = 0) := rfl
@[simp] theorem sign_int (a : Int) : sign a = if a < 0 then Sign.Negative else Sign.Positive := rfl

/-! ### `compare` decided by arithmetic -/

theorem compare_int_lt (a b : Int) : (compare a b = Ordering.lt) = (a < b) := by
  rw [compare_int]; apply propext; constructor
  · intro h; split at h
    · assumption
    · split at h <;> cases h
  · intro h; simp [h]
theorem compare_int_eq (a b : Int) : (compare a b = Ordering.eq) = (a = b) := by
  rw [compare_int]; apply propext; constructor
  · intro h; split at h
    · cases h
    · split at h
      · assumption
      · cases h
  · intro h; subst h; simp
theorem compare_int_gt (a b : Int) : (compare a b = Ordering.gt) = (b < a) := by
  rw [compare_int]; apply propext; constructor
  · intro h; split at h
    · cases h
    · split at h
      · cases h
      · omega
  · intro h
    have h1 : ¬ a < b := by omega
    have h2 : ¬ a = b := by omega
    simp [h1, h2]

theorem compare_natCast (a b : Nat) : compare (a : Int) (b : Int) = compare a b := by
  rw [compare_int, compare_nat]; simp only [Int.ofNat_lt, Int.natCast_inj]

theorem compare_natCast_succ (a b : Nat) : compare (a : Int) ((b : Int) + 1) = compare a (b + 1) := by
  rw [← compare_natCast]; simp

theorem compare_nat_lt (a b : Nat) : (compare a b = Ordering.lt) = (a < b) := by
  rw [← compare_natCast, compare_int_lt]; apply propext; omega
theorem compare_nat_eq (a b : Nat) : (compare a b = Ordering.eq) = (a = b) := by
  rw [← compare_natCast, compare_int_eq]; apply propext; omega
theorem compare_nat_gt (a b : Nat) : (compare a b = Ordering.gt) = (b < a) := by
  rw [← compare_natCast, compare_int_gt]; apply propext; omega

theorem compare_self_int (a : Int) : compare a a = Ordering.eq := by rw [compare_int_eq]
theorem compare_self_nat (a : Nat) : compare a a = Ordering.eq := by rw [compare_nat_eq]

-- conditional rewrite rules: the side condition is discharged by `omega`
theorem cmp_lt_of {a b : Int} (h : a < b) : compare a b = Ordering.lt := by rw [compare_int_lt]; exact h
theorem cmp_eq_of {a b : Int} (h : a = b) : compare a b = Ordering.eq := by rw [compare_int_eq]; exact h
theorem cmp_gt_of {a b : Int} (h : b < a) : compare a b = Ordering.gt := by rw [compare_int_gt]; exact h
theorem ncmp_lt_of {a b : Nat} (h : a < b) : compare a b = Ordering.lt := by rw [compare_nat_lt]; exact h
theorem ncmp_eq_of {a b : Nat} (h : a = b) : compare a b = Ordering.eq := by rw [compare_nat_eq]; exact h
theorem ncmp_gt_of {a b : Nat} (h : b < a) : compare a b = Ordering.gt := by rw [compare_nat_gt]; exact h
theorem dec_true_of {p : Prop} [Decidable p] (h : p) : decide p = true := decide_eq_true h
theorem dec_false_of {p : Prop} [Decidable p] (h : ¬ p) : decide p = false := decide_eq_false h

theorem int_tri (a b : Int) :
    (a < b ∧ ¬ a = b ∧ ¬ b < a ∧ ¬ b ≤ a ∧ a ≤ b ∧ compare a b = Ordering.lt) ∨
    (¬ a < b ∧ a = b ∧ ¬ b < a ∧ b ≤ a ∧ a ≤ b ∧ compare a b = Ordering.eq) ∨
    (¬ a < b ∧ ¬ a = b ∧ b < a ∧ b ≤ a ∧ ¬ a ≤ b ∧ compare a b = Ordering.gt) := by
  rcases Int.lt_trichotomy a b with h | h | h
  · left; exact ⟨h, by omega, by omega, by omega, by omega, cmp_lt_of h⟩
  · right; left; exact ⟨by omega, h, by omega, by omega, by omega, cmp_eq_of h⟩
  · right; right; exact ⟨by omega, by omega, h, by omega, by omega, cmp_gt_of h⟩

theorem nat_tri (a b : Nat) :
    (a < b ∧ ¬ a = b ∧ ¬ b < a ∧ ¬ b ≤ a ∧ a ≤ b ∧ compare a b = Ordering.lt) ∨
    (¬ a < b ∧ a = b ∧ ¬ b < a ∧ b ≤ a ∧ a ≤ b ∧ compare a b = Ordering.eq) ∨
    (¬ a < b ∧ ¬ a = b ∧ b < a ∧ b ≤ a ∧ ¬ a ≤ b ∧ compare a b = Ordering.gt) := by
  rcases Nat.lt_trichotomy a b with h | h | h
  · left; exact ⟨h, by omega, by omega, by omega, by omega, ncmp_lt_of h⟩
  · right; left; exact ⟨by omega, h, by omega, by omega, by omega, ncmp_eq_of h⟩
  · right; right; exact ⟨by omega, by omega, h, by omega, by omega, ncmp_gt_of h⟩

/-! ### tactics -/

theorem zero_eq_int (x : Int) : ((0 : Int) = x) = (x = 0) := propext ⟨Eq.symm, Eq.symm⟩
theorem one_eq_int (x : Int) : ((1 : Int) = x) = (x = 1) := propext ⟨Eq.symm, Eq.symm⟩
theorem zero_eq_nat (x : Nat) : ((0 : Nat) = x) = (x = 0) := propext ⟨Eq.symm, Eq.symm⟩

/-- prune both sides of a goal with the hypotheses in scope: rewrites with every hypothesis, evaluates
    `decide`, boolean connectives, `if`s and matches on constructors (syntactic; fast). -/
syntax "gprune" (" [" term,* "]")? : tactic
macro_rules
  | `(tactic| gprune) => `(tactic| simp only [*, decide_true, decide_false, Bool.and_true, Bool.true_and,
      Bool.and_false, Bool.false_and, Bool.or_true, Bool.true_or, Bool.or_false, Bool.false_or, Bool.not_true,
      Bool.not_false, beq_self_eq_true, bne_self_eq_false, Bool.false_eq_true, if_true, if_false, beq_iff_eq,
      bne_iff_ne, ne_eq, not_true_eq_false, not_false_eq_true, reduceIte, reduceCtorEq, Bool.and_eq_true,
      Bool.or_eq_true, and_self, and_true, true_and, and_false, false_and, or_true, true_or, or_false, false_or,
      decide_eq_true_eq, Bool.not_eq_true', decide_eq_false_iff_not, Classical.not_not, Int.natCast_eq_zero, ge_iff_le, gt_iff_lt,
      Int.lt_irrefl, Int.le_refl, Nat.lt_irrefl, Nat.le_refl, Bool.true_eq_false, Bool.decide_eq_true,
      Bool.not_eq_true, Bool.not_eq_false, compare_self_int, compare_self_nat,
      le_int, lt_int, ge_int, gt_int, eq_int, ne_int, add_int, sub_int, mul_int, neg_int, is_zero_int, cmp_int])
  | `(tactic| gprune [$ls:term,*]) => do
    let xs := ls.getElems
    `(tactic| simp only [*, $[$xs:term],*, decide_true, decide_false, Bool.and_true, Bool.true_and,
      Bool.and_false, Bool.false_and, Bool.or_true, Bool.true_or, Bool.or_false, Bool.false_or, Bool.not_true,
      Bool.not_false, beq_self_eq_true, bne_self_eq_false, Bool.false_eq_true, if_true, if_false, beq_iff_eq,
      bne_iff_ne, ne_eq, not_true_eq_false, not_false_eq_true, reduceIte, reduceCtorEq, Bool.and_eq_true,
      Bool.or_eq_true, and_self, and_true, true_and, and_false, false_and, or_true, true_or, or_false, false_or,
      decide_eq_true_eq, Bool.not_eq_true', decide_eq_false_iff_not, Classical.not_not, Int.natCast_eq_zero, ge_iff_le, gt_iff_lt,
      Int.lt_irrefl, Int.le_refl, Nat.lt_irrefl, Nat.le_refl, Bool.true_eq_false, Bool.decide_eq_true,
      Bool.not_eq_true, Bool.not_eq_false, compare_self_int, compare_self_nat,
      le_int, lt_int, ge_int, gt_int, eq_int, ne_int, add_int, sub_int, mul_int, neg_int, is_zero_int, cmp_int])

/-- as `gprune`, and every `if`, `decide`, `compare` whose condition `omega` can prove or refute from the
    hypotheses in scope is evaluated — the condition is NOT matched syntactically, so `a + b < c`, `b + a < c`,
    `¬ c ≤ a + b` are all decided by the same hypothesis.  (Slower: one `omega` call per condition.) -/
syntax "gprune!" (" [" term,* "]")? : tactic
macro_rules
  | `(tactic| gprune!) => `(tactic| gprune! [if_true])
  | `(tactic| gprune! [$ls:term,*]) => do
    let xs := ls.getElems
    `(tactic| simp (disch := omega) only [*, $[$xs:term],*, if_pos, if_neg, dec_true_of, dec_false_of, cmp_lt_of, cmp_eq_of,
      cmp_gt_of, ncmp_lt_of, ncmp_eq_of, ncmp_gt_of, decide_true, decide_false, Bool.and_true, Bool.true_and,
      Bool.and_false, Bool.false_and, Bool.or_true, Bool.true_or, Bool.or_false, Bool.false_or, Bool.not_true,
      Bool.not_false, beq_self_eq_true, bne_self_eq_false, Bool.false_eq_true, if_true, if_false, beq_iff_eq,
      bne_iff_ne, ne_eq, not_true_eq_false, not_false_eq_true, reduceIte, reduceCtorEq, Bool.and_eq_true,
      Bool.or_eq_true, and_self, and_true, true_and, and_false, false_and, or_true, true_or, or_false, false_or,
      decide_eq_true_eq, Bool.not_eq_true', decide_eq_false_iff_not, Classical.not_not, Int.natCast_eq_zero, ge_iff_le, gt_iff_lt,
      Int.lt_irrefl, Int.le_refl, Nat.lt_irrefl, Nat.le_refl, Bool.true_eq_false, Bool.decide_eq_true,
      Bool.not_eq_true, Bool.not_eq_false, compare_self_int, compare_self_nat,
      le_int, lt_int, ge_int, gt_int, eq_int, ne_int, add_int, sub_int, mul_int, neg_int, is_zero_int, cmp_int])

/-- evaluate every `if` / `decide` whose condition `omega` proves or refutes from the hypotheses in scope (the condition
    is not matched syntactically) -/
syntax "gdecide" (" [" term,* "]")? : tactic
macro_rules
  | `(tactic| gdecide) => `(tactic| gdecide [if_true])
  | `(tactic| gdecide [$ls:term,*]) => do
    let xs := ls.getElems
    `(tactic| simp (disch := omega) only [$[$xs:term],*, if_pos, if_neg, dec_true_of, dec_false_of, Bool.and_eq_true,
      Bool.or_eq_true, decide_eq_true_eq, Bool.not_eq_true', decide_eq_false_iff_not, if_true, if_false, Bool.false_eq_true,
      Bool.not_true, Bool.not_false, Bool.true_and, Bool.and_true, Bool.false_and, Bool.and_false, decide_true, decide_false,
      lt_int, le_int, gt_int, ge_int, eq_int, ne_int, add_int, sub_int, is_zero_int, ne_eq, Int.natCast_eq_zero,
      and_true, true_and, and_false, false_and, or_true, true_or, or_false, false_or, not_true_eq_false, not_false_eq_true,
      ge_iff_le, gt_iff_lt])

/-- put sums into a fixed order (ordered rewriting with the permutation lemmas of `+`): after it, `a + b < c` and
    `b + a < c` are the same term, in the goal and in a hypothesis alike -/
syntax "gac" (" at " ident)? : tactic
macro_rules
  | `(tactic| gac) => `(tactic| try simp only [Int.add_comm, Int.add_left_comm, Int.add_assoc, Int.mul_comm, Int.mul_left_comm,
      Int.mul_assoc])
  | `(tactic| gac at $h:ident) => `(tactic| try simp only [Int.add_comm, Int.add_left_comm, Int.add_assoc, Int.mul_comm,
      Int.mul_left_comm, Int.mul_assoc] at $h:ident)

/-- close a leaf: both sides are the same up to the order of operands -/
syntax "gclose" : tactic
macro_rules
  | `(tactic| gclose) => `(tactic| (gac; first | done | rfl | omega | (simp_all; done)))

/-- case on an atom of the decision logic and prune; does nothing when the goal is not affected by it.
    The atom is brought to the same normal form as the goal (`gac`), so it may be written in any operand order. -/
syntax "gcases " ("[" term,* "] ")? ident " : " term : tactic
macro_rules
  | `(tactic| gcases $h:ident : $t:term) => `(tactic| (gac; first | (by_cases $h:ident : $t <;> (gac at $h) <;> gprune) | skip))
  | `(tactic| gcases [$ls:term,*] $h:ident : $t:term) =>
    `(tactic| (gac; first | (by_cases $h:ident : $t <;> (gac at $h) <;> gprune [$ls,*]) | skip))

/-- as `gcases`, pruning semantically (`gprune!`): the atom need not occur literally in the goal -/
syntax "gcases! " ("[" term,* "] ")? ident " : " term : tactic
macro_rules
  | `(tactic| gcases! $h:ident : $t:term) => `(tactic| first | (by_cases $h:ident : $t <;> gprune!) | skip)
  | `(tactic| gcases! [$ls:term,*] $h:ident : $t:term) =>
    `(tactic| first | (by_cases $h:ident : $t <;> gprune! [$ls,*]) | skip)

/-- three-way case on two integers, with every comparison between them decided in each case -/
syntax "gtri " ("[" term,* "] ")? term:max term:max : tactic
macro_rules
  | `(tactic| gtri $a:term $b:term) =>
    `(tactic| (rcases int_tri $a $b with ⟨h_lt, h_ne, h_ngt, h_nge, h_le, h_cmp⟩ | ⟨h_nlt, h_eq, h_ngt, h_ge, h_le, h_cmp⟩ |
        ⟨h_nlt, h_ne, h_gt, h_ge, h_nle, h_cmp⟩ <;> try gprune))
  | `(tactic| gtri [$ls:term,*] $a:term $b:term) =>
    `(tactic| (rcases int_tri $a $b with ⟨h_lt, h_ne, h_ngt, h_nge, h_le, h_cmp⟩ | ⟨h_nlt, h_eq, h_ngt, h_ge, h_le, h_cmp⟩ |
        ⟨h_nlt, h_ne, h_gt, h_ge, h_nle, h_cmp⟩ <;> try gprune [$ls,*]))

/-- three-way case on two naturals -/
syntax "gtrin " ("[" term,* "] ")? term:max term:max : tactic
macro_rules
  | `(tactic| gtrin $a:term $b:term) =>
    `(tactic| (rcases nat_tri $a $b with ⟨h_lt, h_ne, h_ngt, h_nge, h_le, h_cmp⟩ | ⟨h_nlt, h_eq, h_ngt, h_ge, h_le, h_cmp⟩ |
        ⟨h_nlt, h_ne, h_gt, h_ge, h_nle, h_cmp⟩ <;> try gprune))
  | `(tactic| gtrin [$ls:term,*] $a:term $b:term) =>
    `(tactic| (rcases nat_tri $a $b with ⟨h_lt, h_ne, h_ngt, h_nge, h_le, h_cmp⟩ | ⟨h_nlt, h_eq, h_ngt, h_ge, h_le, h_cmp⟩ |
        ⟨h_nlt, h_ne, h_gt, h_ge, h_nle, h_cmp⟩ <;> try gprune [$ls,*]))

/-- bring hypotheses and goal from `Bool` tests to propositions (what `omega` reads) -/
syntax "gnorm" : tactic
macro_rules
  | `(tactic| gnorm) => `(tactic| simp only [decide_eq_true_eq, Bool.not_eq_true', decide_eq_false_iff_not, Bool.and_eq_true,
      Bool.or_eq_true, Bool.not_eq_true, Bool.not_eq_false, beq_iff_eq, bne_iff_ne, ne_eq, Bool.false_eq_true, Bool.true_eq_false,
      decide_true, decide_false, Bool.not_true, Bool.not_false, if_true, if_false, reduceCtorEq, Int.natCast_eq_zero,
      Classical.not_not, not_true_eq_false, not_false_eq_true, and_true, true_and, and_false, false_and, or_true, true_or,
      or_false, false_or, Bool.decide_eq_true, Bool.and_true, Bool.true_and, Bool.and_false, Bool.false_and, Bool.or_true,
      Bool.true_or, Bool.or_false, Bool.false_or, gt_iff_lt, ge_iff_le, Bool.decide_and, Bool.decide_or, compare_int_lt,
      compare_int_eq, compare_int_gt, compare_nat_lt, compare_nat_eq, compare_nat_gt, Sum.inl.injEq, Sum.inr.injEq,
      Option.some.injEq, Prod.mk.injEq, Except.ok.injEq, Except.error.injEq] at *)

open Lean Elab Tactic in
/-- split the first hypothesis that contains an `if` / `match` (as `split at h`, for whatever hypothesis has one) -/
elab "gsplit_hyp" : tactic => do
  let g ← getMainGoal
  let r ← g.withContext do
    let mut res : Option (List MVarId) := none
    for d in (← getLCtx) do
      if d.isImplementationDetail then continue
      if res.isSome then break
      try
        if let some gs ← Lean.Meta.splitLocalDecl? g d.fvarId then
          res := some gs
      catch _ => pure ()
    pure res
  match r with
  | some gs => replaceMainGoal gs
  | none => throwError "gsplit_hyp: no hypothesis contains an if / match"

/-- SHAPE-INDEPENDENT finish of an equation between two decision bodies: whatever `if` / `match` the two sides still
    contain is split (in whatever order and polarity the text has them), every leaf is closed by `rfl` or — when the two
    sides took different branches — by `omega` from the contradictory conditions. -/
syntax "gwalk" : tactic
macro_rules
  | `(tactic| gwalk) => `(tactic| (
      try gnorm
      try subst_vars
      first | done | rfl | omega | (split <;> gwalk) | (gsplit_hyp <;> gwalk)))

end Dashu.Proofs.Gen
