import Mathlib.Algebra.Order.Field.Rat
import Mathlib.Algebra.Order.Ring.Abs
import Mathlib.Tactic.Linarith
import Mathlib.Tactic.Positivity
import Mathlib.Tactic.Ring
import Mathlib.Tactic.FieldSimp
/-
  Propagation of relative rounding errors through squarings and multiplications (over ℚ), used for
  the error bound of `Context::powi` with a non-negative exponent (DESIGN §8 C11 item 2).

  `Approx ε k a b` : `a = b · f` with `(1 − ε)^k ≤ f ≤ (1 + ε)^k` — `a` approximates `b` with `k`
  accumulated relative errors of size `ε` (`0 ≤ ε ≤ 1`).
-/
namespace Dashu.Model.Trans

def Approx (ε : ℚ) (k : ℕ) (a b : ℚ) : Prop :=
  ∃ f : ℚ, a = b * f ∧ (1 - ε) ^ k ≤ f ∧ f ≤ (1 + ε) ^ k

theorem Approx.refl (ε : ℚ) (a : ℚ) : Approx ε 0 a a := ⟨1, by ring, by simp, by simp⟩

/-- one rounding with relative error `ε` -/
theorem approx_of_near {ε r x : ℚ} (hε : 0 ≤ ε) (h : |r - x| ≤ ε * |x|) : Approx ε 1 r x := by
  by_cases hx : x = 0
  · subst hx
    have h0 : |r - 0| ≤ 0 := by simpa using h
    have h1 : |r - 0| = 0 := le_antisymm h0 (abs_nonneg _)
    have hr : r = 0 := by simpa using abs_eq_zero.mp h1
    exact ⟨1, by simp [hr], by simp only [pow_one]; linarith, by simp only [pow_one]; linarith⟩
  · have hxpos : 0 < |x| := abs_pos.mpr hx
    have hq : |r / x - 1| ≤ ε := by
      have e1 : r / x - 1 = (r - x) / x := by field_simp
      rw [e1, abs_div, div_le_iff₀ hxpos]; exact h
    obtain ⟨h1, h2⟩ := abs_le.mp hq
    exact ⟨r / x, by field_simp, by simp only [pow_one]; linarith, by simp only [pow_one]; linarith⟩

/-- a rounded squaring: `2k + 1` accumulated errors -/
theorem Approx.sqr {ε a b r : ℚ} {k : ℕ} (hε : 0 ≤ ε) (hε1 : ε ≤ 1) (h : Approx ε k a b)
    (hr : |r - a * a| ≤ ε * |a * a|) : Approx ε (2 * k + 1) r (b * b) := by
  obtain ⟨f, hf, hf1, hf2⟩ := h
  obtain ⟨g, hg, hg1, hg2⟩ := approx_of_near hε hr
  simp only [pow_one] at hg1 hg2
  have hl0 : 0 ≤ (1 - ε) ^ k := pow_nonneg (by linarith) k
  have hf0 : 0 ≤ f := le_trans hl0 hf1
  have hg0 : 0 ≤ g := le_trans (by linarith) hg1
  refine ⟨f * f * g, by rw [hg, hf]; ring, ?_, ?_⟩
  · have e : (1 - ε) ^ (2 * k + 1) = (1 - ε) ^ k * (1 - ε) ^ k * (1 - ε) := by ring
    rw [e]
    have h1 : (1 - ε) ^ k * (1 - ε) ^ k ≤ f * f := mul_le_mul hf1 hf1 hl0 hf0
    exact mul_le_mul h1 hg1 (by linarith) (mul_nonneg hf0 hf0)
  · have e : (1 + ε) ^ (2 * k + 1) = (1 + ε) ^ k * (1 + ε) ^ k * (1 + ε) := by ring
    rw [e]
    have hu0 : 0 ≤ (1 + ε) ^ k := pow_nonneg (by linarith) k
    have h1 : f * f ≤ (1 + ε) ^ k * (1 + ε) ^ k := mul_le_mul hf2 hf2 hf0 hu0
    exact mul_le_mul h1 hg2 hg0 (mul_nonneg hu0 hu0)

/-- a rounded multiplication by an exact factor: `k + 1` accumulated errors -/
theorem Approx.mul_exact {ε a b c r : ℚ} {k : ℕ} (hε : 0 ≤ ε) (hε1 : ε ≤ 1) (h : Approx ε k a b)
    (hr : |r - a * c| ≤ ε * |a * c|) : Approx ε (k + 1) r (b * c) := by
  obtain ⟨f, hf, hf1, hf2⟩ := h
  obtain ⟨g, hg, hg1, hg2⟩ := approx_of_near hε hr
  simp only [pow_one] at hg1 hg2
  have hl0 : 0 ≤ (1 - ε) ^ k := pow_nonneg (by linarith) k
  have hf0 : 0 ≤ f := le_trans hl0 hf1
  have hg0 : 0 ≤ g := le_trans (by linarith) hg1
  refine ⟨f * g, by rw [hg, hf]; ring, ?_, ?_⟩
  · rw [pow_succ]; exact mul_le_mul hf1 hg1 (by linarith) hf0
  · rw [pow_succ]; exact mul_le_mul hf2 hg2 hg0 (pow_nonneg (by linarith) k)

theorem Approx.mono {ε a b : ℚ} {k k' : ℕ} (hε : 0 ≤ ε) (hε1 : ε ≤ 1) (hk : k ≤ k') (h : Approx ε k a b) :
    Approx ε k' a b := by
  obtain ⟨f, hf, hf1, hf2⟩ := h
  refine ⟨f, hf, le_trans ?_ hf1, le_trans hf2 ?_⟩
  · exact pow_le_pow_of_le_one (by linarith) (by linarith) hk
  · exact pow_le_pow_right₀ (by linarith) hk

/-- `(1 + ε)^K ≤ 1 + 2Kε` as long as `2Kε ≤ 1` -/
theorem pow_le_linear {ε : ℚ} (hε : 0 ≤ ε) : ∀ K : ℕ, 2 * (K : ℚ) * ε ≤ 1 → (1 + ε) ^ K ≤ 1 + 2 * (K : ℚ) * ε := by
  intro K
  induction K with
  | zero => intro _; simp
  | succ K ih =>
    intro h
    have hK : 2 * (K : ℚ) * ε ≤ 1 := by push_cast at h; nlinarith
    have := ih hK
    rw [pow_succ]
    push_cast at h ⊢
    have h1 : (1 + ε) ^ K * (1 + ε) ≤ (1 + 2 * (K : ℚ) * ε) * (1 + ε) :=
      mul_le_mul_of_nonneg_right this (by linarith)
    nlinarith

/-- Bernoulli: `1 − Kε ≤ (1 − ε)^K` for `0 ≤ ε ≤ 1` -/
theorem one_sub_mul_le_pow {ε : ℚ} (hε : 0 ≤ ε) (hε1 : ε ≤ 1) : ∀ K : ℕ, 1 - (K : ℚ) * ε ≤ (1 - ε) ^ K := by
  intro K
  induction K with
  | zero => simp
  | succ K ih =>
    rw [pow_succ]
    push_cast
    have h0 : 0 ≤ (1 - ε) ^ K := pow_nonneg (by linarith) K
    have h1 : (1 - (K : ℚ) * ε) * (1 - ε) ≤ (1 - ε) ^ K * (1 - ε) :=
      mul_le_mul_of_nonneg_right ih (by linarith)
    nlinarith [mul_nonneg (mul_nonneg (Nat.cast_nonneg K : (0:ℚ) ≤ K) hε) hε]

/-- the accumulated error as a plain relative bound -/
theorem Approx.abs_sub_le {ε a b : ℚ} {K : ℕ} (hε : 0 ≤ ε) (hε1 : ε ≤ 1) (hK : 2 * (K : ℚ) * ε ≤ 1)
    (h : Approx ε K a b) : |a - b| ≤ 2 * (K : ℚ) * ε * |b| := by
  obtain ⟨f, hf, hf1, hf2⟩ := h
  have h1 := pow_le_linear hε K hK
  have h2 := one_sub_mul_le_pow hε hε1 K
  have hKε : 0 ≤ (K : ℚ) * ε := mul_nonneg (Nat.cast_nonneg K) hε
  have hf' : |f - 1| ≤ 2 * (K : ℚ) * ε := by
    rw [abs_le]; constructor <;> nlinarith
  have e : a - b = b * (f - 1) := by rw [hf]; ring
  rw [e, abs_mul, mul_comm]
  exact mul_le_mul_of_nonneg_right hf' (abs_nonneg b)

end Dashu.Model.Trans
