import Dashu.Proofs.Trans.StopTest
import Dashu.Props.C14
/-
  C11 (round 8) — link of the stop tests of the series loops to C14's proved comparison kernel.
  The mirror of exp_internal / ln_internal writes `increase.abs_cmp(&sum.sub_ulp())` as `reprAbsCmp` (value order, decided by
  the digit positions when they differ).  C14 proves that the CODE's `AbsOrd for FBig` (`repr_cmp_same_base::<B, true>` with
  its exponent+precision / exponent+digits shortcuts, `reprCmpSameBase`) is the order of the magnitudes for every sound
  estimate oracle.  Here: the decision `≠ Greater` of the stop test is the same whichever of the two is evaluated.
-/
namespace Dashu.Proofs.Trans.StopLink
open Dashu.Model.Float Dashu.Model.Trans Dashu.Model.Cross
open Dashu.Proofs.Trans.SeriesBound Dashu.Proofs.Trans.SumStage Dashu.Proofs.Trans.StopTest

/-- the stop test against `sub_ulp = ⟨1, e⟩` is an inequality of values (both directions) -/
theorem reprAbsCmp_ne_gt_iff (B : Nat) (hB : 2 ≤ B) (a : FRepr) (e : Int) (h0 : 0 < a.signif) :
    reprAbsCmp B a ⟨1, e⟩ ≠ .gt ↔ a.toRat B ≤ bpowQ B e :=
  ⟨val_le_of_reprAbsCmp_ne_gt B hB a e h0, reprAbsCmp_pow_ne_gt B hB a e h0.le⟩

/-- C14's specification of `AbsOrd` on the two operands of the stop test, read as the same inequality -/
theorem absCmp_spec_ne_gt_iff (B : Nat) (hB : 2 ≤ B) (a : FRepr) (e : Int) (h0 : 0 < a.signif) (pa pb : Nat) :
    XVal.absCmp (Num.fbig B a.signif a.exp pa).value (Num.fbig B 1 e pb).value ≠ some .gt
      ↔ a.toRat B ≤ bpowQ B e := by
  have hB0 : 0 < B := by omega
  have hs : a.signif ≠ 0 := by omega
  have h1 : (1 : Int) ≠ 0 := by omega
  simp only [Num.value, if_neg hs, if_neg h1, XVal.absCmp, XVal.abs]
  rw [Ne, Dashu.Props.C14.spec_gt (floatFrac_den_pos hB _ _) (floatFrac_den_pos hB _ _),
    Dashu.Props.C14.abs_value_rat, Dashu.Props.C14.abs_value_rat,
    Dashu.Props.C14.float_value_rat hB, Dashu.Props.C14.float_value_rat hB, not_lt]
  have hbp : (0 : ℚ) < (B : ℚ) := by exact_mod_cast hB0
  have hp1 : (0 : ℚ) < (B : ℚ) ^ e := zpow_pos hbp e
  have hp2 : (0 : ℚ) < (B : ℚ) ^ a.exp := zpow_pos hbp _
  have hsq : (0 : ℚ) < (a.signif : ℚ) := by exact_mod_cast h0
  rw [abs_of_pos (mul_pos hsq hp2), Int.cast_one, one_mul, abs_of_pos hp1]
  unfold FRepr.toRat
  rw [bpowQ_eq_zpow, bpowQ_eq_zpow]

/-- LINK C11 → C14: the stop test `increase.abs_cmp(&sum.sub_ulp()) != Greater` of the mirror decides exactly as the code's
    comparison routine `repr_cmp_same_base::<B, true>` (C14's model of float/src/cmp.rs, with its shortcuts and the estimate
    oracle) on the same operands, for every sound oracle and whatever precisions the two FBig carry. -/
theorem stop_test_is_code_abs_cmp {o : Oracle} (ho : o.Sound) (B : Nat) (hB : 2 ≤ B) (a : FRepr) (e : Int)
    (h0 : 0 < a.signif) (pa pb : Nat) (hpa : PrecOK B a.signif pa) :
    reprAbsCmp B a ⟨1, e⟩ ≠ .gt ↔ reprCmpSameBase o true B a.signif a.exp 1 e (some (pa, pb)) ≠ .gt := by
  have hpb : PrecOK B 1 pb := by
    intro _
    have : 1 < B ^ (min pb isizeMax + 1) := Nat.one_lt_pow (by omega) (by omega)
    simpa using this
  have hc := Dashu.Props.C14.float_abs_cmp_same_base ho hB a.signif a.exp 1 e pa pb hpa hpb
  rw [reprAbsCmp_ne_gt_iff B hB a e h0, ← absCmp_spec_ne_gt_iff B hB a e h0 pa pb, ← hc]
  simp

/-- `reprCmp` answers `Less` exactly when the values are in that order -/
theorem reprCmp_lt_iff (B : Nat) (hB : 2 ≤ B) (a b : FRepr) : reprCmp B a b = .lt ↔ a.toRat B < b.toRat B := by
  refine ⟨fun h => ?_, reprCmp_lt_of_val_lt B hB a b⟩
  have hB0 : 0 < B := by omega
  unfold reprCmp at h
  simp only at h
  have hm1 : min a.exp b.exp ≤ a.exp := min_le_left _ _
  have hm2 : min a.exp b.exp ≤ b.exp := min_le_right _ _
  generalize min a.exp b.exp = em at *
  have s1 := bpowQ_split B hB em a.exp hm1
  have s2 := bpowQ_split B hB em b.exp hm2
  have hpe := bpowQ_pos B hB0 em
  rw [compare_lt_iff_lt] at h
  have hq : ((a.signif * ((B ^ (a.exp - em).toNat : Nat) : Int) : Int) : ℚ) <
      ((b.signif * ((B ^ (b.exp - em).toNat : Nat) : Int) : Int) : ℚ) := by exact_mod_cast h
  unfold FRepr.toRat
  rw [s1, s2]
  have := mul_lt_mul_of_pos_right hq hpe
  push_cast at this ⊢
  nlinarith

/-- C14's specification of `Ord` on the two operands of iacoth's stop test `increase < sum.sub_ulp()` -/
theorem cmp_spec_lt_iff (B : Nat) (hB : 2 ≤ B) (a : FRepr) (e : Int) (hs : a.signif ≠ 0) (pa pb : Nat) :
    XVal.cmp (Num.fbig B a.signif a.exp pa).value (Num.fbig B 1 e pb).value = some .lt
      ↔ a.toRat B < bpowQ B e := by
  have h1 : (1 : Int) ≠ 0 := by omega
  simp only [Num.value, if_neg hs, if_neg h1]
  rw [Dashu.Props.C14.spec_lt (floatFrac_den_pos hB _ _) (floatFrac_den_pos hB _ _),
    Dashu.Props.C14.float_value_rat hB, Dashu.Props.C14.float_value_rat hB, Int.cast_one, one_mul]
  unfold FRepr.toRat
  rw [bpowQ_eq_zpow, bpowQ_eq_zpow]

/-- LINK C11 → C14, the loop of iacoth: its stop test `increase < sum.sub_ulp()` (mirror: `reprCmp … = .lt`) decides exactly
    as the code's `Ord for FBig` (`repr_cmp_same_base::<B, false>`, C14's model) on the same operands. -/
theorem stop_test_is_code_cmp {o : Oracle} (ho : o.Sound) (B : Nat) (hB : 2 ≤ B) (a : FRepr) (e : Int)
    (hs : a.signif ≠ 0) (pa pb : Nat) (hpa : PrecOK B a.signif pa) :
    reprCmp B a ⟨1, e⟩ = .lt ↔ reprCmpSameBase o false B a.signif a.exp 1 e (some (pa, pb)) = .lt := by
  have hpb : PrecOK B 1 pb := by
    intro _
    have : 1 < B ^ (min pb isizeMax + 1) := Nat.one_lt_pow (by omega) (by omega)
    simpa using this
  have hc := reprCmpSameBase_spec ho hB a.signif a.exp 1 e pa pb (fun h => absurd h hs) (fun h => absurd h (by omega))
    hpa hpb
  have hv : (⟨1, e⟩ : FRepr).toRat B = bpowQ B e := by simp [FRepr.toRat]
  rw [reprCmp_lt_iff B hB, hv, ← cmp_spec_lt_iff B hB a e hs pa pb, ← hc]
  simp

end Dashu.Proofs.Trans.StopLink
