import Dashu.Model.Trans.Encl
import Mathlib.Data.Rat.Lemmas
import Mathlib.Algebra.Order.Field.Rat
import Mathlib.Tactic.Linarith
import Mathlib.Tactic.Positivity
import Mathlib.Tactic.FieldSimp
import Mathlib.Tactic.Ring
import Mathlib.Data.Real.Basic
/-
  The dyadic grid roundings `rdn` / `rup` of `Dashu/Model/Trans/Encl.lean` bracket their argument.
-/
namespace Dashu.Model.Trans

theorem rdn_le (m : ℕ) (q : ℚ) : rdn m q ≤ q := by
  unfold rdn
  have hd : (0 : ℚ) < (q.den : ℚ) := by exact_mod_cast q.den_pos
  have hp : (0 : ℚ) < ((2 ^ m : ℕ) : ℚ) := by positivity
  rw [Rat.mkRat_eq_div]
  have hq : q = (q.num : ℚ) / (q.den : ℚ) := (Rat.num_div_den q).symm
  have h1 : ((q.num * ((2 ^ m : ℕ) : ℤ)) / (q.den : ℤ)) * (q.den : ℤ) ≤ q.num * ((2 ^ m : ℕ) : ℤ) :=
    Int.ediv_mul_le _ (by exact_mod_cast q.den_ne_zero)
  have h2 : (((q.num * ((2 ^ m : ℕ) : ℤ)) / (q.den : ℤ) : ℤ) : ℚ) * (q.den : ℚ)
      ≤ (q.num : ℚ) * ((2 ^ m : ℕ) : ℚ) := by exact_mod_cast h1
  rw [div_le_iff₀ (by exact_mod_cast hp)]
  calc (((q.num * ((2 ^ m : ℕ) : ℤ)) / (q.den : ℤ) : ℤ) : ℚ)
      = (((q.num * ((2 ^ m : ℕ) : ℤ)) / (q.den : ℤ) : ℤ) : ℚ) * (q.den : ℚ) / (q.den : ℚ) := by
        field_simp
    _ ≤ (q.num : ℚ) * ((2 ^ m : ℕ) : ℚ) / (q.den : ℚ) := by
        apply div_le_div_of_nonneg_right h2 hd.le
    _ = q * (((2 ^ m : ℕ) : ℤ) : ℚ) := by
        conv_rhs => rw [hq]
        push_cast; ring

theorem le_rup (m : ℕ) (q : ℚ) : q ≤ rup m q := by
  have h := rdn_le m (-q)
  have e : rup m q = - rdn m (-q) := by
    unfold rup rdn
    rw [Rat.mkRat_eq_div, Rat.mkRat_eq_div]
    simp only [Rat.num_neg_eq_neg_num, Rat.den_neg_eq_den, neg_mul]
    push_cast
    ring
  rw [e]; linarith

theorem rdn_nonneg (m : ℕ) {q : ℚ} (h : 0 ≤ q) : 0 ≤ rdn m q := by
  unfold rdn
  rw [Rat.mkRat_eq_div]
  apply div_nonneg
  · have : (0 : ℤ) ≤ (q.num * ((2 ^ m : ℕ) : ℤ)) / (q.den : ℤ) :=
      Int.ediv_nonneg (mul_nonneg (Rat.num_nonneg.mpr h) (by positivity)) (by positivity)
    exact_mod_cast this
  · positivity

theorem rup_nonneg (m : ℕ) {q : ℚ} (h : 0 ≤ q) : 0 ≤ rup m q := le_trans h (le_rup m q)

/-- real-valued forms -/
theorem rdn_le_real (m : ℕ) (q : ℚ) : ((rdn m q : ℚ) : ℝ) ≤ (q : ℝ) := by exact_mod_cast rdn_le m q
theorem le_rup_real (m : ℕ) (q : ℚ) : (q : ℝ) ≤ ((rup m q : ℚ) : ℝ) := by exact_mod_cast le_rup m q

end Dashu.Model.Trans
