import Dashu.Proofs.Trans.SumStage
/-
  C11 (round 6) — error propagation through the loop of `Context::iacoth`
  (`pow *= &inv2; increase = &pow / k; if increase < sum.sub_ulp() { return sum }; sum += increase; k += 2`):
  the terms and the ACCUMULATED partial sum, relative to the values `inv`, `inv2` the loop holds.
-/
namespace Dashu.Proofs.Trans.IacothSum
open Dashu.Model.Float Dashu.Model.Trans Dashu.Proofs.Trans.SeriesBound Dashu.Proofs.Trans.SumStage

/-! ### more algebra of `Approx` -/

theorem approx_mul {ε a b c d : ℚ} {i j : ℕ} (hε1 : ε ≤ 1) (h1 : Approx ε i a b) (h2 : Approx ε j c d) :
    Approx ε (i + j) (a * c) (b * d) := by
  obtain ⟨f, hf, hf1, hf2⟩ := h1
  obtain ⟨g, hg, hg1, hg2⟩ := h2
  have hl0 : 0 ≤ (1 - ε) ^ i := pow_nonneg (by linarith) i
  have hl0' : 0 ≤ (1 - ε) ^ j := pow_nonneg (by linarith) j
  have hf0 : 0 ≤ f := le_trans hl0 hf1
  have hg0 : 0 ≤ g := le_trans hl0' hg1
  refine ⟨f * g, by rw [hf, hg]; ring, ?_, ?_⟩
  · rw [pow_add]; exact mul_le_mul hf1 hg1 hl0' hf0
  · rw [pow_add]; exact mul_le_mul hf2 hg2 hg0 (le_trans hf0 hf2)

/-- the reciprocal of a once-rounded value: two errors, as long as `ε ≤ 1/2` -/
theorem approx_inv {ε a b : ℚ} (hε : 0 ≤ ε) (hε2 : ε ≤ 1 / 2) (h : Approx ε 1 a b) : Approx ε 2 (1 / a) (1 / b) := by
  obtain ⟨f, hf, hf1, hf2⟩ := h
  simp only [pow_one] at hf1 hf2
  have hfpos : 0 < f := by linarith
  have hε1 : ε ≤ 1 := by linarith
  have h3 : ε * ε * ε ≤ ε * ε * 1 := mul_le_mul_of_nonneg_left hε1 (mul_nonneg hε hε)
  have h4 : ε * ε ≤ ε * (1 / 2) := mul_le_mul_of_nonneg_left hε2 hε
  have h5 : ε * ε * ε ≤ ε * ε * (1 / 2) := mul_le_mul_of_nonneg_left hε2 (mul_nonneg hε hε)
  refine ⟨1 / f, by rw [hf, one_div, one_div, one_div, mul_inv], ?_, ?_⟩
  · rw [le_div_iff₀ hfpos]
    have := mul_le_mul_of_nonneg_left hf2 (sq_nonneg (1 - ε))
    nlinarith [mul_nonneg hε hε]
  · rw [div_le_iff₀ hfpos]
    have := mul_le_mul_of_nonneg_left hf1 (sq_nonneg (1 + ε))
    nlinarith [mul_nonneg hε hε]

theorem bpow_eps_le_half (B : Nat) (hB : 2 ≤ B) (w : Nat) (hw : 2 ≤ w) : bpowQ B (1 - (w : Int)) ≤ 1 / 2 := by
  have h1 : bpowQ B (1 - (w : Int)) ≤ bpowQ B (-1) := bpowQ_mono B hB _ _ (by omega)
  have h2 : bpowQ B (-1) = ((B : ℚ))⁻¹ := by rw [bpowQ_eq_zpow, zpow_neg_one]
  have hB2 : (2 : ℚ) ≤ (B : ℚ) := by exact_mod_cast hB
  have h3 : ((B : ℚ))⁻¹ ≤ (2 : ℚ)⁻¹ := inv_anti₀ (by norm_num) hB2
  rw [h2] at h1
  calc bpowQ B (1 - (w : Int)) ≤ ((B : ℚ))⁻¹ := h1
    _ ≤ (2 : ℚ)⁻¹ := h3
    _ = 1 / 2 := by norm_num

/-! ### the states of the loop -/

/-- `pow` after `i` multiplications by `inv2` -/
def iaPow (E : Env) (inv inv2 : FBigM) : Nat → FBigM
  | 0 => inv
  | i + 1 => fMul E (iaPow E inv inv2 i) inv2

/-- the term `increase` of the step with `k = 2i + 3` -/
def iaInc (E : Env) (w : Nat) (inv inv2 : FBigM) (i : Nat) : Except String FBigM :=
  fDiv E (iaPow E inv inv2 (i + 1)) (fConvertInt E w ((2 * i + 3 : Nat) : Int))

/-- `sum` before the step with `k = 2i + 3` -/
def iaSum (E : Env) (w : Nat) (inv inv2 : FBigM) : Nat → FBigM
  | 0 => inv
  | i + 1 =>
    match iaInc E w inv inv2 i with
    | .ok inc => fAddSub E (iaSum E w inv inv2 i) inc 1
    | .error _ => iaSum E w inv inv2 i

/-- the exact partial sums `Σ_{j ≤ i} v·q^j/(2j+1)` -/
def iaPartial (v q : ℚ) : Nat → ℚ
  | 0 => v
  | i + 1 => iaPartial v q i + v * q ^ (i + 1) / ((2 * i + 3 : Nat) : ℚ)

theorem iaPartial_nonneg (v q : ℚ) (hv : 0 ≤ v) (hq : 0 ≤ q) : ∀ i, 0 ≤ iaPartial v q i := by
  intro i
  induction i with
  | zero => simpa only [iaPartial] using hv
  | succ i ih =>
    simp only [iaPartial]
    have : 0 ≤ v * q ^ (i + 1) / ((2 * i + 3 : Nat) : ℚ) :=
      div_nonneg (mul_nonneg hv (pow_nonneg hq _)) (Nat.cast_nonneg _)
    linarith

theorem iacothLoop_unfold (E : Env) (w : Nat) (inv2 : FBigM) (fuel : Nat) (pw sm : FBigM) (k : Nat) :
    iacothLoop E w inv2 (fuel + 1) pw sm k =
      match fDiv E (fMul E pw inv2) (fConvertInt E w (k : Int)) with
      | .error e => .error e
      | .ok increase =>
        if reprCmp E.B increase.repr (fSubUlp E sm) = .lt then .ok (some (sm, k))
        else iacothLoop E w inv2 fuel (fMul E pw inv2) (fAddSub E sm increase 1) (k + 2) := rfl

theorem iaPow_prec (E : Env) (inv inv2 : FBigM) (w : Nat) (h1 : inv.prec = w) (h2 : inv2.prec = w) :
    ∀ i, (iaPow E inv inv2 i).prec = w := by
  intro i
  induction i with
  | zero => exact h1
  | succ i ih => simp only [iaPow, fMul, ih, h2, ctxMaxP_self]

section
variable (E : Env) (hB : 2 ≤ E.B) (hc : CoarseSound E.c) (inv inv2 : FBigM) (w : Nat) (hw : 1 ≤ w)
  (h1 : inv.prec = w) (h2 : inv2.prec = w) (hi : 0 < inv.repr.signif) (hi2 : 0 < inv2.repr.signif)
include hB hc hw h1 h2 hi hi2

/-- `pow` is positive and is `inv·inv2^i` up to `i` relative errors -/
theorem iaPow_error : ∀ i, 0 < val E.B (iaPow E inv inv2 i) ∧
    Approx (bpowQ E.B (1 - (w : Int))) i (val E.B (iaPow E inv inv2 i)) (val E.B inv * (val E.B inv2) ^ i) := by
  have hB0 : 0 < E.B := by omega
  have hε0 : 0 ≤ bpowQ E.B (1 - (w : Int)) := (bpowQ_pos E.B hB0 _).le
  have hε1 := bpow_eps_le_one E.B hB w hw
  have hv : 0 < val E.B inv := val_pos_of_signif E.B hB _ hi
  have hq : 0 < val E.B inv2 := val_pos_of_signif E.B hB _ hi2
  intro i
  induction i with
  | zero => exact ⟨hv, by simpa [iaPow] using Approx.refl (bpowQ E.B (1 - (w : Int))) (val E.B inv)⟩
  | succ i ih =>
    have hpp := iaPow_prec E inv inv2 w h1 h2 i
    have hmp : ctxMaxP (iaPow E inv inv2 i).prec inv2.prec = w := by rw [hpp, h2, ctxMaxP_self]
    have hcon := opMul_contract E.B hB E.m E.c hc w hw (iaPow E inv inv2 i).repr inv2.repr
    have e : val E.B (iaPow E inv inv2 (i + 1)) =
        (opMul E.B E.m E.c w (iaPow E inv inv2 i).repr inv2.repr).1.toRat E.B := by
      simp only [val, iaPow, fMul, hmp]
    rw [e]
    refine ⟨contract_pos hB hw hcon (mul_pos ih.1 hq), ?_⟩
    have hm := near_of_contract E.B hB E.m w _ _ _ hcon
    have := Approx.mul_exact hε0 hε1 ih.2 hm
    have e2 : val E.B inv * val E.B inv2 ^ (i + 1) = val E.B inv * val E.B inv2 ^ i * val E.B inv2 := by ring
    rw [e2]
    exact this

/-- the term of the step `k = 2i + 3`: positive, at precision `w`, and `inv·inv2^(i+1)/(2i+3)` up to `i + 4` errors
    (`w ≥ 2`: the divisor `convert_int(k)` is itself rounded to `w` digits) -/
theorem iaInc_spec (hw2 : 2 ≤ w) (i : Nat) : ∃ inc, iaInc E w inv inv2 i = .ok inc ∧ inc.prec = w ∧ 0 < val E.B inc ∧
    Approx (bpowQ E.B (1 - (w : Int))) (i + 4) (val E.B inc)
      (val E.B inv * (val E.B inv2) ^ (i + 1) / ((2 * i + 3 : Nat) : ℚ)) := by
  have hB0 : 0 < E.B := by omega
  have hε0 : 0 ≤ bpowQ E.B (1 - (w : Int)) := (bpowQ_pos E.B hB0 _).le
  have hε1 := bpow_eps_le_one E.B hB w hw
  have hε2 := bpow_eps_le_half E.B hB w hw2
  obtain ⟨hpwpos, hpwA⟩ := iaPow_error E hB hc inv inv2 w hw h1 h2 hi hi2 (i + 1)
  have hpwp := iaPow_prec E inv inv2 w h1 h2 (i + 1)
  generalize hk : ((2 * i + 3 : Nat) : Int) = k
  have hk1 : 1 ≤ k := by rw [← hk]; push_cast; omega
  have hkq : ((2 * i + 3 : Nat) : ℚ) = (k : ℚ) := by rw [← hk]; push_cast; ring
  have hc1 := fConvertInt_ge_one E hB hc w hw k hk1
  have hcs : (fConvertInt E w k).repr.signif ≠ 0 := by
    intro h
    simp only [val, FRepr.toRat, h] at hc1
    norm_num at hc1
  have hkpos : (0 : ℚ) < val E.B (fConvertInt E w k) := lt_of_lt_of_le one_pos hc1
  have hconk := reprRound_contract E.B hB E.m E.c hc w hw _ (FRepr.new_normalized E.B hB k 0)
  rw [FRepr.new_value E.B hB0, bpowQ_zero, mul_one] at hconk
  have hkA : Approx (bpowQ E.B (1 - (w : Int))) 1 (val E.B (fConvertInt E w k)) (k : ℚ) :=
    approx_of_near hε0 (near_of_contract E.B hB E.m w _ _ _ hconk)
  have hkI := approx_inv hε0 hε2 hkA
  have hP : ctxMaxP (iaPow E inv inv2 (i + 1)).prec (fConvertInt E w k).prec = w := by
    show ctxMaxP (iaPow E inv inv2 (i + 1)).prec w = w
    rw [hpwp, ctxMaxP_self]
  have hp : 1 ≤ ctxMaxP (iaPow E inv inv2 (i + 1)).prec (fConvertInt E w k).prec := by rw [hP]; exact hw
  obtain ⟨q', hq, hcon⟩ := reprDiv_contract E.B hB E.m _ hp (iaPow E inv inv2 (i + 1)).repr (fConvertInt E w k).repr hcs
  refine ⟨⟨q'.1, ctxMaxP (iaPow E inv inv2 (i + 1)).prec (fConvertInt E w k).prec⟩, ?_, hP, ?_, ?_⟩
  · simp only [iaInc, hk, fDiv, hq]
  · exact contract_pos hB hp hcon (div_pos hpwpos hkpos)
  · rw [hP] at hcon
    have hn := approx_of_near hε0 (near_of_contract E.B hB E.m w _ _ _ hcon)
    have hprod := approx_mul hε1 hpwA hkI
    rw [← div_eq_mul_one_div, ← div_eq_mul_one_div] at hprod
    rw [hkq]
    exact Approx.mono hε0 hε1 (by omega : 1 + (i + 1 + 2) ≤ i + 4) (approx_trans hε1 hn hprod)

/-- **accumulated error of the partial sum of `iacoth`**: `sum` before the step `k = 2i + 3` is at least the power of the
    base below `inv`, is held at `w` digits and is `Σ_{j ≤ i} inv·inv2^j/(2j+1)` up to `2i + 4` relative errors `B^(1−w)` -/
theorem iaSum_error (hdub : DubSound E.B E.est.dub) (hw2 : 2 ≤ w) : ∀ i,
    bpowQ E.B (inv.repr.exp + (digitsI E.B inv.repr.signif : Int) - 1) ≤ val E.B (iaSum E w inv inv2 i) ∧
    (iaSum E w inv inv2 i).prec = w ∧
    Approx (bpowQ E.B (1 - (w : Int))) (2 * i + 4) (val E.B (iaSum E w inv inv2 i))
      (iaPartial (val E.B inv) (val E.B inv2) i) := by
  have hB0 : 0 < E.B := by omega
  have hε0 : 0 ≤ bpowQ E.B (1 - (w : Int)) := (bpowQ_pos E.B hB0 _).le
  have hε1 := bpow_eps_le_one E.B hB w hw
  have hv : 0 < val E.B inv := val_pos_of_signif E.B hB _ hi
  have hq : 0 < val E.B inv2 := val_pos_of_signif E.B hB _ hi2
  have hL := toRat_ge E.B hB inv.repr hi
  intro i
  induction i with
  | zero =>
    have h0 : Approx (bpowQ E.B (1 - (w : Int))) 0 (val E.B (iaSum E w inv inv2 0))
        (iaPartial (val E.B inv) (val E.B inv2) 0) := by
      simpa [iaSum, iaPartial] using Approx.refl (bpowQ E.B (1 - (w : Int))) (val E.B inv)
    exact ⟨hL, h1, Approx.mono hε0 hε1 (by omega) h0⟩
  | succ i ih =>
    obtain ⟨hsL, hsp, hA⟩ := ih
    obtain ⟨inc, hinc, hincw, hincpos, hT⟩ := iaInc_spec E hB hc inv inv2 w hw h1 h2 hi hi2 hw2 i
    have hS : iaSum E w inv inv2 (i + 1) = fAddSub E (iaSum E w inv inv2 i) inc 1 := by
      simp only [iaSum, hinc]
    rw [hS]
    have hPw : ctxMaxP (iaSum E w inv inv2 i).prec inc.prec = w := by rw [hsp, hincw, ctxMaxP_self]
    have hpP : 1 ≤ ctxMaxP (iaSum E w inv inv2 i).prec inc.prec := by rw [hPw]; exact hw
    have hsig : 0 < inc.repr.signif := signif_pos_of_val E.B hB _ hincpos
    have hSsig : 0 < (iaSum E w inv inv2 i).repr.signif :=
      signif_pos_of_val E.B hB _ (lt_of_lt_of_le (bpowQ_pos E.B hB0 _) hsL)
    refine ⟨fAddSub_keeps_pow E hB hc hdub _ _ hpP _ hsL hsig, ?_, ?_⟩
    · simp only [fAddSub]; exact hPw
    · have hadd := fAddSub_pos_error E hB hc hdub (iaSum E w inv inv2 i) inc hpP hSsig hsig
      rw [hPw] at hadd
      have ht : 0 ≤ val E.B inv * (val E.B inv2) ^ (i + 1) / ((2 * i + 3 : Nat) : ℚ) :=
        div_nonneg (mul_nonneg hv.le (pow_nonneg hq.le _)) (Nat.cast_nonneg _)
      have hsum := approx_add hε0 hε1 (iaPartial_nonneg _ _ hv.le hq.le i) ht hA
        (Approx.mono hε0 hε1 (by omega : i + 4 ≤ 2 * i + 4) hT)
      have h := approx_trans hε1 hadd hsum
      have e : 2 * (i + 1) + 4 = 2 + (2 * i + 4) := by ring
      rw [e]
      simpa only [iaPartial] using h

end

/-- whatever the loop of `iacoth` returns from a state of its own trajectory is one of the `iaSum`s, with the matching `k` -/
theorem iacothLoop_result (E : Env) (w : Nat) (inv inv2 : FBigM) : ∀ (fuel i : Nat) (res : FBigM × Nat),
    iacothLoop E w inv2 fuel (iaPow E inv inv2 i) (iaSum E w inv inv2 i) (2 * i + 3) = .ok (some res) →
    ∃ j, i ≤ j ∧ res = (iaSum E w inv inv2 j, 2 * j + 3) := by
  intro fuel
  induction fuel with
  | zero => intro i res h; simp [iacothLoop] at h
  | succ fuel ih =>
    intro i res h
    rw [iacothLoop_unfold] at h
    cases hd : iaInc E w inv inv2 i with
    | error e =>
      simp only [iaInc, iaPow] at hd
      rw [hd] at h
      simp at h
    | ok inc =>
      have hS : iaSum E w inv inv2 (i + 1) = fAddSub E (iaSum E w inv inv2 i) inc 1 := by
        simp only [iaSum, hd]
      simp only [iaInc, iaPow] at hd
      rw [hd] at h
      simp only at h
      split at h
      · injection h with h; injection h with h
        exact ⟨i, le_refl _, h.symm⟩
      · have e : 2 * i + 3 + 2 = 2 * (i + 1) + 3 := by omega
        rw [e, ← hS] at h
        obtain ⟨j, hj, hres⟩ := ih (i + 1) res h
        exact ⟨j, by omega, hres⟩

/-- **what the loop of `Context::iacoth` returns** from its entry state (`pow = sum = inv`, `k = 3`), any fuel: `k = 2j + 3`
    and `sum = Σ_{l ≤ j} inv·inv2^l/(2l+1)` up to `2j + 4` accumulated relative errors `B^(1−w)` -/
theorem iacothLoop_result_error (E : Env) (hB : 2 ≤ E.B) (hc : CoarseSound E.c) (hdub : DubSound E.B E.est.dub)
    (inv inv2 : FBigM) (w : Nat) (hw2 : 2 ≤ w) (h1 : inv.prec = w) (h2 : inv2.prec = w) (hi : 0 < inv.repr.signif)
    (hi2 : 0 < inv2.repr.signif) (fuel : Nat) (res : FBigM × Nat)
    (h : iacothLoop E w inv2 fuel inv inv 3 = .ok (some res)) :
    ∃ j, res.2 = 2 * j + 3 ∧ 0 < val E.B res.1 ∧
      Approx (bpowQ E.B (1 - (w : Int))) (2 * j + 4) (val E.B res.1) (iaPartial (val E.B inv) (val E.B inv2) j) := by
  obtain ⟨j, _, hres⟩ := iacothLoop_result E w inv inv2 fuel 0 res h
  subst hres
  have := iaSum_error E hB hc inv inv2 w (by omega) h1 h2 hi hi2 hdub hw2 j
  exact ⟨j, rfl, lt_of_lt_of_le (bpowQ_pos E.B (by omega) _) this.1, this.2.2⟩

end Dashu.Proofs.Trans.IacothSum
