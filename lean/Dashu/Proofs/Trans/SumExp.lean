import Dashu.Proofs.Trans.SumStage
import Dashu.Proofs.Trans.Exp
/-
  C11 (round 6) — the partial sum the Maclaurin loop of `exp_internal` returns, against the REAL exponential:
  accumulated rounding error (`SumStage.expLoop_result_error`) + truncation error of the series (Mathlib's
  `Real.exp_bound'`, `Real.sum_le_exp_of_nonneg`).
-/
namespace Dashu.Proofs.Trans.SumExp
open Dashu.Model.Float Dashu.Model.Trans Dashu.Proofs.Trans.SeriesBound Dashu.Proofs.Trans.SumStage
open Finset

theorem expPartial_eq_sum (r : ℚ) : ∀ i, expPartial r i = ∑ j ∈ range (i + 2), r ^ j / (j.factorial : ℚ) := by
  intro i
  induction i with
  | zero => simp [expPartial, sum_range_succ]
  | succ i ih =>
    have e : i + 1 + 2 = (i + 2) + 1 := by omega
    rw [expPartial, ih, e, sum_range_succ _ (i + 2)]

/-- the exact partial sum lies below `exp r` (`r ≥ 0`) -/
theorem expPartial_le_exp (r : ℚ) (hr : 0 ≤ r) (i : Nat) : ((expPartial r i : ℚ) : ℝ) ≤ Real.exp (r : ℝ) := by
  rw [expPartial_eq_sum]
  have hs : ((∑ j ∈ range (i + 2), r ^ j / (j.factorial : ℚ) : ℚ) : ℝ) =
      ∑ j ∈ range (i + 2), (r : ℝ) ^ j / (j.factorial : ℝ) := by push_cast; rfl
  rw [hs]
  exact Real.sum_le_exp_of_nonneg (by exact_mod_cast hr) _

/-- … and `exp r` exceeds it by at most twice the first omitted term (`0 ≤ r ≤ 1`) -/
theorem exp_le_expPartial (r : ℚ) (hr : 0 ≤ r) (hr1 : r ≤ 1) (i : Nat) :
    Real.exp (r : ℝ) ≤ ((expPartial r i : ℚ) : ℝ) + ((2 * (r ^ (i + 2) / ((i + 2).factorial : ℚ)) : ℚ) : ℝ) := by
  rw [expPartial_eq_sum]
  have hs : ((∑ j ∈ range (i + 2), r ^ j / (j.factorial : ℚ) : ℚ) : ℝ) =
      ∑ j ∈ range (i + 2), (r : ℝ) ^ j / (j.factorial : ℝ) := by push_cast; rfl
  have ht : ((2 * (r ^ (i + 2) / ((i + 2).factorial : ℚ)) : ℚ) : ℝ) =
      2 * ((r : ℝ) ^ (i + 2) / ((i + 2).factorial : ℝ)) := by push_cast; rfl
  rw [hs, ht]
  have hr' : (0 : ℝ) ≤ (r : ℝ) := by exact_mod_cast hr
  have hr1' : (r : ℝ) ≤ 1 := by exact_mod_cast hr1
  refine le_trans (Real.exp_bound' hr' hr1' (by omega : 0 < i + 2)) ?_
  generalize i + 2 = N
  by_cases hN0 : N = 0
  · subst hN0; simp
  have hN : 0 < N := Nat.pos_of_ne_zero hN0
  have hNr : (1 : ℝ) ≤ (N : ℝ) := by exact_mod_cast hN
  have hfac : (0 : ℝ) < (N.factorial : ℝ) := by exact_mod_cast N.factorial_pos
  have hpow : (0 : ℝ) ≤ (r : ℝ) ^ N := pow_nonneg hr' N
  have : (r : ℝ) ^ N * ((N : ℝ) + 1) / ((N.factorial : ℝ) * (N : ℝ))
      ≤ 2 * ((r : ℝ) ^ N / (N.factorial : ℝ)) := by
    rw [div_le_iff₀ (by positivity)]
    have : 2 * ((r : ℝ) ^ N / (N.factorial : ℝ)) * ((N.factorial : ℝ) * (N : ℝ))
        = (r : ℝ) ^ N * (2 * (N : ℝ)) := by field_simp
    rw [this]
    apply mul_le_mul_of_nonneg_left _ hpow
    linarith
  linarith

/-- **the sum the Maclaurin loop of `exp_internal` returns, against `exp r`** (reduced argument `0 < r ≤ 1` held at
    `w ≥ 1` digits; `K = 2(k−2)+2` rounding errors with `2Kε ≤ 1`, `ε = B^(1−w)`):
    `|sum − exp r| ≤ 2Kε·exp r + 2·r^k/k!` — rounding part + truncation part -/
theorem expLoop_result_vs_exp (E : Env) (hB : 2 ≤ E.B) (hc : CoarseSound E.c) (hdub : DubSound E.B E.est.dub) (r : FBigM)
    (w : Nat) (hw : 1 ≤ w) (hrp : r.prec = w) (hr0 : 0 < r.repr.signif) (hr1 : val E.B r ≤ 1)
    (fuel : Nat) (res : FBigM × Nat) (h : expLoop E r fuel 1 r (fAddSub E FBigM.one r 1) 2 = .ok (some res))
    (hK : 2 * ((2 * (res.2 - 2) + 2 : ℕ) : ℚ) * bpowQ E.B (1 - (w : Int)) ≤ 1) :
    |((val E.B res.1 : ℚ) : ℝ) - Real.exp ((val E.B r : ℚ) : ℝ)| ≤
      ((2 * ((2 * (res.2 - 2) + 2 : ℕ) : ℚ) * bpowQ E.B (1 - (w : Int)) : ℚ) : ℝ) * Real.exp ((val E.B r : ℚ) : ℝ)
        + ((2 * ((val E.B r) ^ res.2 / (res.2.factorial : ℚ)) : ℚ) : ℝ) := by
  have hB0 : 0 < E.B := by omega
  have hε0 : 0 ≤ bpowQ E.B (1 - (w : Int)) := (bpowQ_pos E.B hB0 _).le
  have hε1 := bpow_eps_le_one E.B hB w hw
  have hrv : 0 < val E.B r := val_pos_of_signif E.B hB _ hr0
  obtain ⟨hk2, _, hA⟩ := expLoop_result_error E hB hc hdub r w hw hrp hr0 fuel res h
  obtain ⟨j, hj⟩ : ∃ j, res.2 = j + 2 := ⟨res.2 - 2, by omega⟩
  rw [hj] at hA hK ⊢
  simp only [Nat.add_sub_cancel] at hA hK ⊢
  have hP0 := expPartial_nonneg (val E.B r) hrv.le j
  have habs := Approx.abs_sub_le hε0 hε1 hK hA
  rw [abs_of_nonneg hP0] at habs
  have habsR : |((val E.B res.1 : ℚ) : ℝ) - ((expPartial (val E.B r) j : ℚ) : ℝ)| ≤
      ((2 * ((2 * j + 2 : ℕ) : ℚ) * bpowQ E.B (1 - (w : Int)) : ℚ) : ℝ) * ((expPartial (val E.B r) j : ℚ) : ℝ) := by
    exact_mod_cast habs
  have hlo := expPartial_le_exp (val E.B r) hrv.le j
  have hhi := exp_le_expPartial (val E.B r) hrv.le hr1 j
  have hc0 : (0 : ℝ) ≤ ((2 * ((2 * j + 2 : ℕ) : ℚ) * bpowQ E.B (1 - (w : Int)) : ℚ) : ℝ) := by
    have : (0 : ℚ) ≤ 2 * ((2 * j + 2 : ℕ) : ℚ) * bpowQ E.B (1 - (w : Int)) :=
      mul_nonneg (mul_nonneg (by norm_num) (Nat.cast_nonneg _)) hε0
    exact_mod_cast this
  have hcP := mul_le_mul_of_nonneg_left hlo hc0
  obtain ⟨ha1, ha2⟩ := abs_le.mp habsR
  rw [abs_le]
  constructor <;> linarith

end Dashu.Proofs.Trans.SumExp
