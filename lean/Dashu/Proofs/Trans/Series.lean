import Dashu.Model.Trans.Series
/-
  Lemmas about the mirrored series (`Model/Trans/Series.lean`), core Lean only.
-/
namespace Dashu.Proofs.Trans.Series
open Dashu.Model.Float Dashu.Model.Trans

/-! ### the flag-tracking powering loop has the value of the loop of `Props/C11Powi` -/

theorem powLoopF_value (B : Nat) (m : Mode) (c : Coarse) (q : Nat) (base : FRepr) :
    ∀ (bs : List Bool) (cur : Rounded FRepr),
      (powLoopF B m c q base bs cur).1 = powLoop false B m c q base bs cur.1 := by
  intro bs
  induction bs with
  | nil => intro cur; rfl
  | cons b bs ih =>
    intro cur
    simp only [powLoopF, powLoop]
    rw [ih]
    cases b <;> rfl

theorem powiNonnegF_value (E : Env) (p : Nat) (base : FRepr) (n : Nat) :
    (powiNonnegF E p base n).1 = (powiNonneg false E.B E.m E.c p base (lowBits n)).2.1 := by
  simp only [powiNonnegF, powiNonneg]
  rw [powLoopF_value]

/-! ### the result of a series loop does not depend on the fuel -/

theorem expLoop_succ (E : Env) (r : FBigM) :
    ∀ (f : Nat) (fa : Int) (pw sm : FBigM) (k : Nat) (res : FBigM × Nat),
      expLoop E r f fa pw sm k = .ok (some res) → expLoop E r (f + 1) fa pw sm k = .ok (some res) := by
  intro f
  induction f with
  | zero => intro fa pw sm k res h; simp [expLoop] at h
  | succ f ih =>
    intro fa pw sm k res h
    rw [expLoop] at h
    rw [expLoop]
    try dsimp only at h ⊢
    cases hd : fDiv E (fMul E pw r) (fOfInt E.B (fa * (k : Int))) with
    | error e => rw [hd] at h; simp at h
    | ok inc =>
      rw [hd] at h
      try dsimp only at h ⊢
      by_cases hc : reprAbsCmp E.B inc.repr (fSubUlp E sm) ≠ .gt
      · rw [if_pos hc] at h ⊢; exact h
      · rw [if_neg hc] at h ⊢; exact ih _ _ _ _ _ h

theorem lnLoop_succ (E : Env) (w : Nat) (z2 : FBigM) :
    ∀ (f : Nat) (pw sm : FBigM) (k : Nat) (res : FBigM × Nat),
      lnLoop E w z2 f pw sm k = .ok (some res) → lnLoop E w z2 (f + 1) pw sm k = .ok (some res) := by
  intro f
  induction f with
  | zero => intro pw sm k res h; simp [lnLoop] at h
  | succ f ih =>
    intro pw sm k res h
    rw [lnLoop] at h
    rw [lnLoop]
    try dsimp only at h ⊢
    cases hd : fDiv E (fMul E pw z2) (fConvertInt E w (k : Int)) with
    | error e => rw [hd] at h; simp at h
    | ok inc =>
      rw [hd] at h
      try dsimp only at h ⊢
      by_cases hc : reprAbsCmp E.B inc.repr (fSubUlp E sm) ≠ .gt
      · rw [if_pos hc] at h ⊢; exact h
      · rw [if_neg hc] at h ⊢; exact ih _ _ _ _ h

theorem iacothLoop_succ (E : Env) (w : Nat) (inv2 : FBigM) :
    ∀ (f : Nat) (pw sm : FBigM) (k : Nat) (res : FBigM × Nat),
      iacothLoop E w inv2 f pw sm k = .ok (some res) → iacothLoop E w inv2 (f + 1) pw sm k = .ok (some res) := by
  intro f
  induction f with
  | zero => intro pw sm k res h; simp [iacothLoop] at h
  | succ f ih =>
    intro pw sm k res h
    rw [iacothLoop] at h
    rw [iacothLoop]
    try dsimp only at h ⊢
    cases hd : fDiv E (fMul E pw inv2) (fConvertInt E w (k : Int)) with
    | error e => rw [hd] at h; simp at h
    | ok inc =>
      rw [hd] at h
      try dsimp only at h ⊢
      by_cases hc : reprCmp E.B inc.repr (fSubUlp E sm) = .lt
      · rw [if_pos hc] at h ⊢; exact h
      · rw [if_neg hc] at h ⊢; exact ih _ _ _ _ h

theorem expLoop_mono (E : Env) (r : FBigM) (f g : Nat) (hfg : f ≤ g) (fa : Int) (pw sm : FBigM) (k : Nat)
    (res : FBigM × Nat) (h : expLoop E r f fa pw sm k = .ok (some res)) :
    expLoop E r g fa pw sm k = .ok (some res) := by
  induction hfg with
  | refl => exact h
  | step _ ih => exact expLoop_succ E r _ _ _ _ _ _ ih

theorem lnLoop_mono (E : Env) (w : Nat) (z2 : FBigM) (f g : Nat) (hfg : f ≤ g) (pw sm : FBigM) (k : Nat)
    (res : FBigM × Nat) (h : lnLoop E w z2 f pw sm k = .ok (some res)) :
    lnLoop E w z2 g pw sm k = .ok (some res) := by
  induction hfg with
  | refl => exact h
  | step _ ih => exact lnLoop_succ E w z2 _ _ _ _ _ ih

theorem iacothLoop_mono (E : Env) (w : Nat) (inv2 : FBigM) (f g : Nat) (hfg : f ≤ g) (pw sm : FBigM) (k : Nat)
    (res : FBigM × Nat) (h : iacothLoop E w inv2 f pw sm k = .ok (some res)) :
    iacothLoop E w inv2 g pw sm k = .ok (some res) := by
  induction hfg with
  | refl => exact h
  | step _ ih => exact iacothLoop_succ E w inv2 _ _ _ _ _ ih

/-- the last index reported by a loop that ran `f` steps at most is below `start + step·f` -/
theorem expLoop_steps (E : Env) (r : FBigM) :
    ∀ (f : Nat) (fa : Int) (pw sm : FBigM) (k : Nat) (res : FBigM × Nat),
      expLoop E r f fa pw sm k = .ok (some res) → k ≤ res.2 ∧ res.2 < k + f := by
  intro f
  induction f with
  | zero => intro fa pw sm k res h; simp [expLoop] at h
  | succ f ih =>
    intro fa pw sm k res h
    rw [expLoop] at h
    try dsimp only at h
    cases hd : fDiv E (fMul E pw r) (fOfInt E.B (fa * (k : Int))) with
    | error e => rw [hd] at h; simp at h
    | ok inc =>
      rw [hd] at h
      try dsimp only at h
      by_cases hc : reprAbsCmp E.B inc.repr (fSubUlp E sm) ≠ .gt
      · rw [if_pos hc] at h
        cases h
        exact ⟨Nat.le_refl _, by omega⟩
      · rw [if_neg hc] at h
        have := ih _ _ _ _ _ h
        omega

/-! ### flags, precisions, `sub_ulp` -/

theorem markInexact_ne_none (f : Option Rounding) : markInexact f ≠ none := by
  cases f <;> simp [markInexact]

theorem fSubUlp_le (E : Env) (h : DlbSound E.B E.est.dlb) (x : FBigM) :
    (fSubUlp E x).signif = 1 ∧
      (fSubUlp E x).exp ≤ x.repr.exp + (digitsI E.B x.repr.signif : Int) - (x.prec : Int) - 1 := by
  refine ⟨rfl, ?_⟩
  have := h x.repr.signif
  simp only [fSubUlp]
  omega

/-- `exp_internal` behind its guards never reports `Exact` (`mark_inexact`) -/
theorem expBody_flag (fuel : Nat) (E : Env) (p : Nat) (x : FRepr) (minusOne : Bool)
    (v : FBigM) (fl : Option Rounding) (tr : Trace)
    (h : expBody fuel E p x minusOne = .ok ((v, fl), tr)) : fl ≠ none := by
  unfold expBody expTail at h
  simp only [bind, Except.bind, pure, Except.pure] at h
  repeat' split at h
  all_goals (try (simp at h))
  all_goals (try (obtain ⟨⟨_, rfl⟩, _⟩ := h; exact markInexact_ne_none _))

/-- `ln_internal` behind its guards never reports `Exact` -/
theorem lnBody_flag (fuel : Nat) (E : Env) (p : Nat) (x : FRepr) (onePlus : Bool)
    (v : FBigM) (fl : Option Rounding) (tr : Trace)
    (h : lnBody fuel E p x onePlus = .ok ((v, fl), tr)) : fl ≠ none := by
  unfold lnBody at h
  simp only [bind, Except.bind, pure, Except.pure] at h
  repeat' split at h
  all_goals (try (simp at h))
  all_goals (try (obtain ⟨⟨_, rfl⟩, _⟩ := h; exact markInexact_ne_none _))

theorem andThenFlag_ne_none (a b : Option Rounding) (h : a ≠ none) : andThenFlag a b ≠ none := by
  cases b <;> simp [andThenFlag, h]

/-- `exp_internal` with its guards: `Exact` only from the `x = 0` shortcut -/
theorem expFull_flag (fuel : Nat) (E : Env) (p : Nat) (x : FRepr) (minusOne : Bool)
    (v : FBigM) (tr : Trace) (h : expFull fuel E p x minusOne = .ok ((v, none), tr)) : x.isZero = true := by
  unfold expFull at h
  split at h
  · assumption
  · exact absurd rfl (expBody_flag _ _ _ _ _ _ _ _ h)

/-- `ln_internal` with its guards: `Exact` only from the shortcuts `ln 1`, `ln_1p 0` -/
theorem lnFull_flag (fuel : Nat) (E : Env) (p : Nat) (x : FRepr) (onePlus : Bool)
    (v : FBigM) (tr : Trace) (h : lnFull fuel E p x onePlus = .ok ((v, none), tr)) :
    ((onePlus && x.isZero) || (!onePlus && x.signif == 1 && x.exp == 0)) = true := by
  unfold lnFull at h
  split at h
  · assumption
  · repeat' split at h
    all_goals first
      | exact absurd rfl (lnBody_flag _ _ _ _ _ _ _ _ h)
      | (simp at h)


theorem fWithPrecision_prec (B : Nat) (m : Mode) (c : Coarse) (x : FBigM) (p : Nat) :
    (fWithPrecision B m c x p).1.prec = p := by
  unfold fWithPrecision; split <;> rfl

theorem fShl_prec (x : FBigM) (k : Int) : (fShl x k).prec = x.prec := by
  unfold fShl; split <;> rfl

/-- the result of the mirrored `exp_internal` carries the precision of the context -/
theorem expBody_prec (fuel : Nat) (E : Env) (p : Nat) (x : FRepr) (minusOne : Bool)
    (v : FBigM) (fl : Option Rounding) (tr : Trace)
    (h : expBody fuel E p x minusOne = .ok ((v, fl), tr)) : v.prec = p := by
  unfold expBody expTail at h
  simp only [bind, Except.bind, pure, Except.pure] at h
  repeat' split at h
  all_goals (try (simp at h))
  all_goals (try (obtain ⟨⟨rfl, _⟩, _⟩ := h; first | exact fWithPrecision_prec _ _ _ _ _ | exact fShl_prec _ _))

theorem lnBody_prec (fuel : Nat) (E : Env) (p : Nat) (x : FRepr) (onePlus : Bool)
    (v : FBigM) (fl : Option Rounding) (tr : Trace)
    (h : lnBody fuel E p x onePlus = .ok ((v, fl), tr)) : v.prec = p := by
  unfold lnBody at h
  simp only [bind, Except.bind, pure, Except.pure] at h
  repeat' split at h
  all_goals (try (simp at h))
  all_goals (try (obtain ⟨⟨rfl, _⟩, _⟩ := h; exact fWithPrecision_prec _ _ _ _ _))

theorem powfBody_prec (fuel : Nat) (E : Env) (p : Nat) (base exp : FRepr)
    (v : FBigM) (fl : Option Rounding) (tr : Trace)
    (h : powfBody fuel E p base exp = .ok ((v, fl), tr)) : v.prec = p := by
  unfold powfBody at h
  simp only [bind, Except.bind, pure, Except.pure] at h
  repeat' split at h
  all_goals (try (simp at h))
  all_goals (try (obtain ⟨⟨rfl, _⟩, _⟩ := h; exact fWithPrecision_prec _ _ _ _ _))


end Dashu.Proofs.Trans.Series
