import Dashu.Model.Trans.CertFloat
import Dashu.Proofs.Trans.Cert
/-
  Soundness of the float-operand certificates (`Model/Trans/CertFloat.lean`).
-/
namespace Dashu.Model.Trans

theorem lnFloatEncl_encloses (B : ℕ) (hB : 0 < B) (sig ex : ℤ) (hs : 0 < sig) (n : ℕ) :
    Encloses (lnFloatEncl B sig ex n) (Real.log ((sig : ℝ) * (B : ℝ) ^ ex)) := by
  have hB' : (0 : ℝ) < (B : ℝ) := by exact_mod_cast hB
  have hs' : (0 : ℝ) < (sig : ℝ) := by exact_mod_cast hs
  have hsq : (0 : ℚ) < (sig : ℚ) := by exact_mod_cast hs
  have hBq : (0 : ℚ) < (B : ℚ) := by exact_mod_cast hB
  rw [Real.log_mul hs'.ne' (zpow_pos hB' ex).ne', Real.log_zpow]
  unfold lnFloatEncl
  obtain ⟨a1, a2⟩ := lnEncl_sound (sig : ℚ) (n + 2) hsq
  have hl := scaleInt_sound ex _ _ (lnEncl_sound (B : ℚ) (n + ex.natAbs.log2 + 3) hBq).1
    (lnEncl_sound (B : ℚ) (n + ex.natAbs.log2 + 3) hBq).2
  have c1 : (((sig : ℚ)) : ℝ) = (sig : ℝ) := by push_cast; rfl
  have c2 : (((B : ℚ)) : ℝ) = (B : ℝ) := by push_cast; rfl
  rw [c1] at a1 a2
  rw [c2] at hl
  unfold Encloses
  push_cast
  constructor <;> linarith [hl.1, hl.2]

theorem powfFloatScaledEncl_encloses (B : ℕ) (hB : 0 < B) (sig ex : ℤ) (hs : 0 < sig) (y : ℚ) (e : ℤ) (n : ℕ) :
    Encloses (powfFloatScaledEncl B sig ex y e n) (((sig : ℝ) * (B : ℝ) ^ ex) ^ (y : ℝ) / (B : ℝ) ^ e) := by
  have hB' : (0 : ℝ) < (B : ℝ) := by exact_mod_cast hB
  have hs' : (0 : ℝ) < (sig : ℝ) := by exact_mod_cast hs
  have hx : (0 : ℝ) < (sig : ℝ) * (B : ℝ) ^ ex := mul_pos hs' (zpow_pos hB' ex)
  rw [Real.rpow_def_of_pos hx, mul_comm, ← exp_sub_int_mul_log B hB]
  unfold powfFloatScaledEncl
  exact exp_of_encl _ _
    (subLogs_sound B hB _ _ (scaleRat_sound y _ _ (lnFloatEncl_encloses B hB sig ex hs _)) e n) _ _

end Dashu.Model.Trans
