import Dashu.Proofs.Trans.Series
import Dashu.Proofs.Trans.Powi
import Mathlib.Data.Nat.Factorial.Basic
/-
  C11 — an explicit bound on the number of terms of the Maclaurin loop of `exp_internal` (scaled branch, where the
  reduced argument is non-negative), from the C03 contracts of `*`, `/` and `repr_round_sum` (no operand-length
  hypothesis) and an explicit TWO-SIDED hypothesis on the `digits_lb` estimate behind `FBig::sub_ulp`;
  `sum += increase` (same-sign `FBig + FBig`, operands of ANY length) never takes a sum `≥ 1` below one;
  error propagation through one stage (`pow *= r; increase = pow / factorial`) of the loop.
-/
namespace Dashu.Proofs.Trans.SeriesBound
open Dashu.Model.Float Dashu.Model.Trans

/-! ### powers of the base -/

theorem bpowQ_mono (B : Nat) (hB : 2 ≤ B) (a b : Int) (h : a ≤ b) : bpowQ B a ≤ bpowQ B b := by
  rw [bpowQ_eq_zpow, bpowQ_eq_zpow]
  have h1 : (1 : ℚ) ≤ (B : ℚ) := by exact_mod_cast (by omega : 1 ≤ B)
  exact zpow_le_zpow_right₀ h1 h

theorem bpowQ_le_bpowQ (B : Nat) (hB : 2 ≤ B) (a b : Int) (h : bpowQ B a ≤ bpowQ B b) : a ≤ b := by
  by_contra hc
  have hlt : b < a := by omega
  rw [bpowQ_eq_zpow, bpowQ_eq_zpow] at h
  have h1 : (1 : ℚ) < (B : ℚ) := by exact_mod_cast (by omega : 1 < B)
  have := zpow_lt_zpow_right₀ h1 hlt
  linarith

theorem bpowQ_zero (B : Nat) : bpowQ B 0 = 1 := by
  rw [bpowQ_eq_zpow]; simp

/-- `B^b` is an integer multiple of `B^a` for `a ≤ b` -/
theorem bpowQ_split (B : Nat) (hB : 2 ≤ B) (a b : Int) (h : a ≤ b) :
    bpowQ B b = (((B ^ (b - a).toNat : Nat) : Int) : ℚ) * bpowQ B a := by
  have hB0 : 0 < B := by omega
  have e : b = ((b - a).toNat : Int) + a := by rw [Int.toNat_of_nonneg (by omega)]; ring
  conv_lhs => rw [e]
  rw [bpowQ_add B hB0, bpowQ_nat]; push_cast; ring

/-! ### a contract does not cross a power of the base -/

/-- what the error clause of a contract gives for a positive exact value: the unit `B^e ≤ x`, the result on its grid,
    strictly closer than one unit -/
theorem contract_unit {B : Nat} {m : Mode} {p : Nat} {x r : ℚ} {flag : Option Rounding} (hB : 2 ≤ B) (hp : 1 ≤ p)
    (h : Contract B m p x r flag) (hx : 0 ≤ x) (hne : r ≠ x) :
    ∃ e : Int, bpowQ B (e + p - 1) ≤ x ∧ |r - x| < bpowQ B e ∧ ∃ t : Int, r = (t : ℚ) * bpowQ B e := by
  have hB0 : 0 < B := by omega
  obtain ⟨e, h1, h2, t, ht⟩ := h.err hne
  rw [absQ_eq, abs_of_nonneg hx] at h1
  refine ⟨e, h1, ?_, t, ht⟩
  have hpos := bpowQ_pos B hB0 e
  unfold errOk at h2
  split_ifs at h2 with hm
  · rw [absQ_eq] at h2
    have := abs_nonneg (r - x)
    linarith
  · rw [absQ_eq] at h2; exact h2

theorem contract_le_pow {B : Nat} {m : Mode} {p : Nat} {x r : ℚ} {flag : Option Rounding} (hB : 2 ≤ B) (hp : 1 ≤ p)
    (h : Contract B m p x r flag) (hx : 0 ≤ x) (u : Int) (hu : x ≤ bpowQ B u) : 0 ≤ r ∧ r ≤ bpowQ B u := by
  have hB0 : 0 < B := by omega
  by_cases hne : r = x
  · rw [hne]; exact ⟨hx, hu⟩
  · obtain ⟨e, h1, h2, t, ht⟩ := contract_unit hB hp h hx hne
    have hpe := bpowQ_pos B hB0 e
    have hee : bpowQ B e ≤ bpowQ B (e + p - 1) := bpowQ_mono B hB _ _ (by omega)
    obtain ⟨h2a, h2b⟩ := abs_lt.mp h2
    refine ⟨by linarith, ?_⟩
    have heu : e + p - 1 ≤ u := bpowQ_le_bpowQ B hB _ _ (le_trans h1 hu)
    have hsplit := bpowQ_split B hB e u (by omega)
    by_contra hc
    have hgt : bpowQ B u < r := lt_of_not_ge hc
    rw [hsplit, ht] at hgt
    have hlt : (((B ^ (u - e).toNat : Nat) : Int) : ℚ) < (t : ℚ) := lt_of_mul_lt_mul_right hgt hpe.le
    have hlt' : ((B ^ (u - e).toNat : Nat) : Int) + 1 ≤ t := by
      have : ((B ^ (u - e).toNat : Nat) : Int) < t := by exact_mod_cast hlt
      omega
    have hge : ((((B ^ (u - e).toNat : Nat) : Int) : ℚ) + 1) * bpowQ B e ≤ (t : ℚ) * bpowQ B e := by
      apply mul_le_mul_of_nonneg_right _ hpe.le
      exact_mod_cast hlt'
    rw [← ht] at hge
    have : bpowQ B u + bpowQ B e ≤ r := by rw [hsplit]; linarith
    linarith

theorem contract_ge_pow {B : Nat} {m : Mode} {p : Nat} {x r : ℚ} {flag : Option Rounding} (hB : 2 ≤ B) (hp : 1 ≤ p)
    (h : Contract B m p x r flag) (j : Int) (hj : bpowQ B j ≤ x) : bpowQ B j ≤ r := by
  have hB0 : 0 < B := by omega
  have hx : 0 ≤ x := le_trans (bpowQ_pos B hB0 j).le hj
  by_cases hne : r = x
  · rw [hne]; exact hj
  · obtain ⟨e, h1, h2, t, ht⟩ := contract_unit hB hp h hx hne
    have hpe := bpowQ_pos B hB0 e
    have hee : bpowQ B e ≤ bpowQ B (e + p - 1) := bpowQ_mono B hB _ _ (by omega)
    obtain ⟨h2a, h2b⟩ := abs_lt.mp h2
    have hr0 : 0 < r := by linarith
    have ht1 : 1 ≤ t := by
      rw [ht] at hr0
      by_contra hc
      have : (t : ℚ) ≤ 0 := by exact_mod_cast (by omega : t ≤ 0)
      nlinarith
    by_cases hje : j ≤ e
    · have : bpowQ B e ≤ r := by
        rw [ht]
        have : (1 : ℚ) ≤ (t : ℚ) := by exact_mod_cast ht1
        nlinarith
      exact le_trans (bpowQ_mono B hB _ _ hje) this
    · have hsplit := bpowQ_split B hB e j (by omega)
      by_contra hc
      have hlt : r < bpowQ B j := lt_of_not_ge hc
      rw [hsplit, ht] at hlt
      have hlt1 : (t : ℚ) < (((B ^ (j - e).toNat : Nat) : Int) : ℚ) := lt_of_mul_lt_mul_right hlt hpe.le
      have hlt' : t + 1 ≤ ((B ^ (j - e).toNat : Nat) : Int) := by
        have : t < ((B ^ (j - e).toNat : Nat) : Int) := by exact_mod_cast hlt1
        omega
      have hge : ((t : ℚ) + 1) * bpowQ B e ≤ (((B ^ (j - e).toNat : Nat) : Int) : ℚ) * bpowQ B e := by
        apply mul_le_mul_of_nonneg_right _ hpe.le
        exact_mod_cast hlt'
      rw [← hsplit] at hge
      have : r + bpowQ B e ≤ bpowQ B j := by rw [ht]; linarith
      linarith

/-! ### the operators of the series keep the power-of-base bounds -/

theorem ctxMaxP_ge_right (a b : Nat) : b ≤ ctxMaxP a b := by unfold ctxMaxP; split <;> omega
theorem ctxMaxP_ge_left (a b : Nat) : a ≤ ctxMaxP a b := by unfold ctxMaxP; split <;> omega
theorem ctxMaxP_le (a b c : Nat) (ha : a ≤ c) (hb : b ≤ c) : ctxMaxP a b ≤ c := by unfold ctxMaxP; split <;> omega
theorem ctxMaxP_self (a : Nat) : ctxMaxP a a = a := by unfold ctxMaxP; split <;> rfl

/-- value of an `FBig` -/
abbrev val (B : Nat) (x : FBigM) : ℚ := x.repr.toRat B

theorem fMul_bound (E : Env) (hB : 2 ≤ E.B) (hc : CoarseSound E.c) (x y : FBigM)
    (hp : 1 ≤ ctxMaxP x.prec y.prec) (a b : Int) (hx0 : 0 ≤ val E.B x) (hxa : val E.B x ≤ bpowQ E.B a)
    (hy0 : 0 ≤ val E.B y) (hyb : val E.B y ≤ bpowQ E.B b) :
    0 ≤ val E.B (fMul E x y) ∧ val E.B (fMul E x y) ≤ bpowQ E.B (a + b) := by
  have hB0 : 0 < E.B := by omega
  have hcon := opMul_contract E.B hB E.m E.c hc _ hp x.repr y.repr
  have hprod : x.repr.toRat E.B * y.repr.toRat E.B ≤ bpowQ E.B (a + b) := by
    rw [bpowQ_add E.B hB0]
    exact mul_le_mul hxa hyb hy0 (bpowQ_pos E.B hB0 a).le
  exact contract_le_pow hB hp hcon (mul_nonneg hx0 hy0) _ hprod

theorem fOfInt_val (B : Nat) (hB : 2 ≤ B) (F : Int) : val B (fOfInt B F) = (F : ℚ) := by
  simp only [val, fOfInt]
  rw [FRepr.new_value B (by omega), bpowQ_zero]; ring

theorem fOfInt_signif_ne (B : Nat) (hB : 2 ≤ B) (F : Int) (hF : F ≠ 0) : (fOfInt B F).repr.signif ≠ 0 := by
  intro h
  have hv := fOfInt_val B hB F
  simp only [val, FRepr.toRat, h] at hv
  have : (F : ℚ) = 0 := by rw [← hv]; simp
  exact hF (by exact_mod_cast this)

/-- `pow / factorial`: the quotient is at most `B^(a − (digits F − 1))` -/
theorem fDiv_int_bound (E : Env) (hB : 2 ≤ E.B) (x : FBigM) (F : Int) (hF : 1 ≤ F) (a : Int)
    (hx0 : 0 ≤ val E.B x) (hxa : val E.B x ≤ bpowQ E.B a) :
    ∃ inc, fDiv E x (fOfInt E.B F) = .ok inc ∧ inc.prec = ctxMaxP x.prec (max (digitsI E.B F) 1) ∧
      0 ≤ val E.B inc ∧ val E.B inc ≤ bpowQ E.B (a - ((digitsI E.B F : Int) - 1)) := by
  have hB0 : 0 < E.B := by omega
  have hF0 : F ≠ 0 := by omega
  have hp : 1 ≤ ctxMaxP x.prec (fOfInt E.B F).prec := by
    have hM : 1 ≤ max (digitsI E.B F) 1 := le_max_right _ _
    exact le_trans hM (ctxMaxP_ge_right _ _)
  obtain ⟨r, hr, hcon⟩ := reprDiv_contract E.B hB E.m _ hp x.repr (fOfInt E.B F).repr (fOfInt_signif_ne E.B hB F hF0)
  refine ⟨⟨r.1, ctxMaxP x.prec (fOfInt E.B F).prec⟩, ?_, rfl, ?_⟩
  · simp only [fDiv, hr]
  · have hv : (fOfInt E.B F).repr.toRat E.B = (F : ℚ) := fOfInt_val E.B hB F
    rw [hv] at hcon
    obtain ⟨_, hlo, _⟩ := digitsI_spec E.B hB F hF0
    rw [abs_of_pos (by omega : 0 < F)] at hlo
    have hFq : (((E.B ^ (digitsI E.B F - 1) : Nat) : Int) : ℚ) ≤ (F : ℚ) := by exact_mod_cast hlo
    have hFpos : (0 : ℚ) < (F : ℚ) := by exact_mod_cast (by omega : 0 < F)
    have hD : (0 : Int) < digitsI E.B F := by
      have := (digitsI_spec E.B hB F hF0).1; omega
    have hq0 : 0 ≤ x.repr.toRat E.B / (F : ℚ) := div_nonneg hx0 hFpos.le
    have hq : x.repr.toRat E.B / (F : ℚ) ≤ bpowQ E.B (a - ((digitsI E.B F : Int) - 1)) := by
      rw [div_le_iff₀ hFpos]
      have e : a = (a - ((digitsI E.B F : Int) - 1)) + ((digitsI E.B F - 1 : Nat) : Int) := by omega
      have h1 : bpowQ E.B a = bpowQ E.B (a - ((digitsI E.B F : Int) - 1)) *
          (((E.B ^ (digitsI E.B F - 1) : Nat) : Int) : ℚ) := by
        conv_lhs => rw [e]
        rw [bpowQ_add E.B hB0, bpowQ_nat]; push_cast; ring
      calc x.repr.toRat E.B ≤ bpowQ E.B a := hxa
        _ = bpowQ E.B (a - ((digitsI E.B F : Int) - 1)) * (((E.B ^ (digitsI E.B F - 1) : Nat) : Int) : ℚ) := h1
        _ ≤ bpowQ E.B (a - ((digitsI E.B F : Int) - 1)) * (F : ℚ) :=
            mul_le_mul_of_nonneg_left hFq (bpowQ_pos E.B hB0 _).le
    exact contract_le_pow hB hp hcon hq0 _ hq

/-! ### the stop test -/

theorem digitsI_one (B : Nat) (hB : 2 ≤ B) : digitsI B 1 = 1 := by
  obtain ⟨h0, h1, _⟩ := digitsI_spec B hB 1 (by decide)
  by_contra hc
  have h2 : 2 ≤ digitsI B 1 := by omega
  have h3 : B ^ 1 ≤ B ^ (digitsI B 1 - 1) := Nat.pow_le_pow_right (by omega) (by omega)
  have h4 : ((B ^ 1 : Nat) : Int) ≤ ((B ^ (digitsI B 1 - 1) : Nat) : Int) := by exact_mod_cast h3
  simp at h4 h1
  omega

/-- a positive significand: `B^(exp + digits − 1) ≤ value` -/
theorem toRat_ge (B : Nat) (hB : 2 ≤ B) (a : FRepr) (h0 : 0 < a.signif) :
    bpowQ B (a.exp + (digitsI B a.signif : Int) - 1) ≤ a.toRat B := by
  have hB0 : 0 < B := by omega
  obtain ⟨hd, hlo, _⟩ := digitsI_spec B hB a.signif (by omega)
  rw [abs_of_pos h0] at hlo
  have e : a.exp + (digitsI B a.signif : Int) - 1 = ((digitsI B a.signif - 1 : Nat) : Int) + a.exp := by omega
  rw [e, bpowQ_add B hB0, bpowQ_nat]
  unfold FRepr.toRat
  apply mul_le_mul_of_nonneg_right _ (bpowQ_pos B hB0 _).le
  exact_mod_cast hlo

/-- `|increase| <= sub_ulp` holds as soon as the value of `increase ≥ 0` is at most the power `B^e` -/
theorem reprAbsCmp_pow_ne_gt (B : Nat) (hB : 2 ≤ B) (a : FRepr) (e : Int) (h0 : 0 ≤ a.signif)
    (h : a.toRat B ≤ bpowQ B e) : reprAbsCmp B a ⟨1, e⟩ ≠ .gt := by
  have hB0 : 0 < B := by omega
  unfold reprAbsCmp
  by_cases ha : a.signif = 0
  · rw [if_pos (Or.inl ha), ha]; simp only [Int.natAbs_zero, Int.natAbs_one]; decide
  · have hpos : 0 < a.signif := by omega
    have hne : ¬ (a.signif = 0 ∨ (1 : Int) = 0) := by simp [ha]
    rw [if_neg hne]
    simp only [digitsI_one B hB, Nat.cast_one]
    have hge := toRat_ge B hB a hpos
    split_ifs with h1 h2
    · decide
    · exfalso
      have h3 : bpowQ B (e + 1) ≤ bpowQ B (a.exp + (digitsI B a.signif : Int) - 1) :=
        bpowQ_mono B hB _ _ (by omega)
      have h4 : bpowQ B e < bpowQ B (e + 1) := by
        rw [bpowQ_eq_zpow, bpowQ_eq_zpow]
        have h1' : (1 : ℚ) < (B : ℚ) := by exact_mod_cast (by omega : 1 < B)
        exact zpow_lt_zpow_right₀ h1' (by omega)
      linarith
    · skip
      unfold reprCmp
      simp only
      intro hgt
      rw [compare_gt_iff_gt] at hgt
      have hm1 : min a.exp e ≤ a.exp := min_le_left _ _
      have hm2 : min a.exp e ≤ e := min_le_right _ _
      generalize min a.exp e = em at *
      have s1 := bpowQ_split B hB em a.exp hm1
      have s2 := bpowQ_split B hB em e hm2
      have hab : ((a.signif.natAbs : Nat) : Int) = a.signif := Int.natAbs_of_nonneg h0
      rw [hab] at hgt
      have hq : (((1 : Int) * ((B ^ (e - em).toNat : Nat) : Int) : Int) : ℚ) <
          ((a.signif * ((B ^ (a.exp - em).toNat : Nat) : Int) : Int) : ℚ) := by exact_mod_cast hgt
      have hpe := bpowQ_pos B hB0 em
      have : bpowQ B e < a.toRat B := by
        unfold FRepr.toRat
        rw [s1, s2]
        push_cast at hq ⊢
        nlinarith
      linarith

theorem digits_mono (B : Nat) (hB : 2 ≤ B) (a b : Nat) (h : a ≤ b) : digits B a ≤ digits B b := by
  by_cases ha : a = 0
  · subst ha; rw [digits_zero]; omega
  · obtain ⟨_, ha1, _⟩ := digits_spec B hB a (by omega)
    have hb2 := digits_lt_pow B hB b
    by_contra hc
    have h3 : B ^ (digits B b) ≤ B ^ (digits B a - 1) := Nat.pow_le_pow_right (by omega) (by omega)
    omega

theorem digitsI_mul_ge (B : Nat) (hB : 2 ≤ B) (F : Int) (k : Nat) (hk : 1 ≤ k) :
    digitsI B F ≤ digitsI B (F * (k : Int)) := by
  unfold digitsI
  apply digits_mono B hB
  rw [Int.natAbs_mul]
  have : 1 ≤ ((k : Int)).natAbs := by simp; omega
  calc F.natAbs = F.natAbs * 1 := by ring
    _ ≤ F.natAbs * ((k : Int)).natAbs := Nat.mul_le_mul_left _ this

theorem signif_nonneg_of_val (B : Nat) (hB : 2 ≤ B) (a : FRepr) (h : 0 ≤ a.toRat B) : 0 ≤ a.signif := by
  by_contra hc
  have h1 : (a.signif : ℚ) < 0 := by exact_mod_cast (by omega : a.signif < 0)
  have := bpowQ_pos B (by omega) a.exp
  unfold FRepr.toRat at h
  nlinarith

/-- the explicit TWO-SIDED quality hypothesis on `digits_lb`: never more than `cS` digits below the exact count
    (the other side, `DlbSound`, is what makes `sub_ulp` smaller than an ulp) -/
def DlbTight (B : Nat) (dlb : Int → Nat) (cS : Nat) : Prop := ∀ v : Int, digitsI B v ≤ dlb v + cS

/-- `sum += increase` with a positive increase does not take a sum below one (proved for every sound `digits_ub`
    estimate in `fAddSub_keeps`) -/
def AddKeeps (E : Env) : Prop :=
  ∀ x y : FBigM, 1 ≤ ctxMaxP x.prec y.prec → 1 ≤ val E.B x → 0 < y.repr.signif → 1 ≤ val E.B (fAddSub E x y 1)

/-- `sum.sub_ulp()` of a sum `≥ 1` is at least `B^(−cS − precision)` -/
theorem subUlp_ge (E : Env) (hB : 2 ≤ E.B) (cS : Nat) (hd : DlbTight E.B E.est.dlb cS) (sm : FBigM)
    (h1 : 1 ≤ val E.B sm) : -(cS : Int) - (sm.prec : Int) ≤ (fSubUlp E sm).exp := by
  have hlt := toRat_abs_lt E.B hB sm.repr
  have h0 : bpowQ E.B 0 < bpowQ E.B (sm.repr.exp + (sm.repr.digits E.B : Int)) := by
    rw [bpowQ_zero]
    have : val E.B sm ≤ |sm.repr.toRat E.B| := le_abs_self _
    exact lt_of_le_of_lt (le_trans h1 this) hlt
  have hT := bpowQ_lt_bpowQ E.B hB _ _ h0
  have := hd sm.repr.signif
  unfold FRepr.digits at hT
  simp only [fSubUlp]
  omega

/-- **Step bound of the Maclaurin loop of `exp_internal`** (reduced argument `0 ≤ r ≤ B^(−u)`, working precision `w`):
    from any state of the loop (`pow ≤ B^(−u(k−1))`, `sum ≥ 1`, `sum`'s precision at most `max(w, digits factorial)`),
    the loop ends — with a value, not an error — at the latest at the first index `k` with `u·k ≥ w + cS + 1`. -/
theorem expLoop_bound_aux (E : Env) (hB : 2 ≤ E.B) (hc : CoarseSound E.c) (cS : Nat) (hd : DlbTight E.B E.est.dlb cS)
    (hadd : AddKeeps E) (r : FBigM) (w u : Nat) (hw : 1 ≤ w) (hrp : r.prec = w) (hr0 : 0 ≤ val E.B r)
    (hru : val E.B r ≤ bpowQ E.B (-(u : Int))) :
    ∀ (fuel : Nat) (fa : Int) (pw sm : FBigM) (k : Nat),
      1 ≤ fa → pw.prec = w → 0 ≤ val E.B pw → val E.B pw ≤ bpowQ E.B (-((u * (k - 1) : Nat) : Int)) →
      1 ≤ val E.B sm → sm.prec ≤ max w (digitsI E.B fa) → 1 ≤ k →
      w + cS + 1 ≤ u * (k + fuel - 1) → 1 ≤ fuel →
      ∃ res, expLoop E r fuel fa pw sm k = .ok (some res) ∧ k ≤ res.2 ∧ (res.2 = k ∨ u * (res.2 - 1) < w + cS + 1) := by
  have hB0 : 0 < E.B := by omega
  intro fuel
  induction fuel with
  | zero => intro fa pw sm k _ _ _ _ _ _ _ _ h; omega
  | succ fuel ih =>
    intro fa pw sm k hfa hpp hp0 hpu hs1 hsp hk hfuel _
    rw [expLoop]
    try dsimp only
    have hmp : 1 ≤ ctxMaxP pw.prec r.prec := by rw [hpp, hrp, ctxMaxP_self]; exact hw
    obtain ⟨hm0, hmu⟩ := fMul_bound E hB hc pw r hmp _ _ hp0 hpu hr0 hru
    have hfk : 1 ≤ fa * (k : Int) := by
      have : (1 : Int) ≤ (k : Int) := by exact_mod_cast hk
      nlinarith
    obtain ⟨inc, hdiv, hincp, hinc0, hincu⟩ := fDiv_int_bound E hB (fMul E pw r) (fa * (k : Int)) hfk _ hm0 hmu
    rw [hdiv]
    try dsimp only
    have hDD := digitsI_mul_ge E.B hB fa k hk
    have hDpos := (digitsI_spec E.B hB (fa * (k : Int)) (by omega)).1
    have hmprec : (fMul E pw r).prec = w := by simp only [fMul]; rw [hpp, hrp, ctxMaxP_self]
    by_cases hstop : reprAbsCmp E.B inc.repr (fSubUlp E sm) ≠ .gt
    · rw [if_pos hstop]
      exact ⟨(sm, k), rfl, Nat.le_refl _, Or.inl rfl⟩
    · rw [if_neg hstop]
      have hnot : ¬ (w + cS + 1 ≤ u * k) := by
        intro hge
        apply hstop
        have hthr := subUlp_ge E hB cS hd sm hs1
        have hsig := signif_nonneg_of_val E.B hB inc.repr hinc0
        have hsu : fSubUlp E sm = ⟨1, (fSubUlp E sm).exp⟩ := rfl
        rw [hsu]
        apply reprAbsCmp_pow_ne_gt E.B hB inc.repr _ hsig
        refine le_trans hincu (bpowQ_mono E.B hB _ _ ?_)
        have huk : u * (k - 1) + u = u * k := by
          cases k with
          | zero => omega
          | succ k => simp [Nat.mul_succ]
        rcases le_max_iff.mp hsp with h | h <;> push_cast <;> omega
      have hsig0 := signif_nonneg_of_val E.B hB inc.repr hinc0
      have hsigpos : 0 < inc.repr.signif := by
        by_contra hc0
        have hz : inc.repr.signif = 0 := by omega
        apply hstop
        have hsu : fSubUlp E sm = ⟨1, (fSubUlp E sm).exp⟩ := rfl
        rw [hsu]
        apply reprAbsCmp_pow_ne_gt E.B hB inc.repr _ hsig0
        unfold FRepr.toRat
        rw [hz]
        simp only [Int.cast_zero, zero_mul]
        exact (bpowQ_pos E.B hB0 _).le
      have hpinc : 1 ≤ ctxMaxP sm.prec inc.prec := by
        refine le_trans ?_ (ctxMaxP_ge_right _ _)
        rw [hincp, hmprec]
        exact le_trans hw (ctxMaxP_ge_left _ _)
      have hsm' : 1 ≤ val E.B (fAddSub E sm inc 1) := hadd sm inc hpinc hs1 hsigpos
      have hprec' : (fAddSub E sm inc 1).prec ≤ max w (digitsI E.B (fa * (k : Int))) := by
        simp only [fAddSub]
        apply ctxMaxP_le
        · rcases le_max_iff.mp hsp with h | h
          · exact le_trans h (le_max_left _ _)
          · exact le_trans (le_trans h hDD) (le_max_right _ _)
        · rw [hincp, hmprec]
          apply ctxMaxP_le
          · exact le_max_left _ _
          · rw [max_eq_left (by omega : 1 ≤ digitsI E.B (fa * (k : Int)))]
            exact le_max_right _ _
      have hpu' : val E.B (fMul E pw r) ≤ bpowQ E.B (-((u * (k + 1 - 1) : Nat) : Int)) := by
        refine le_trans hmu (le_of_eq ?_)
        congr 1
        have huk : u * (k - 1) + u = u * k := by
          cases k with
          | zero => omega
          | succ k => simp [Nat.mul_succ]
        simp only [Nat.add_sub_cancel]
        push_cast [← huk]; ring
      have hfuel1 : 1 ≤ fuel := by
        by_contra hc0
        have : fuel = 0 := by omega
        subst this
        simp at hfuel
        exact hnot hfuel
      obtain ⟨res, hres, hk1, hk2⟩ := ih (fa * (k : Int)) (fMul E pw r) (fAddSub E sm inc 1) (k + 1) hfk hmprec hm0 hpu'
        hsm' hprec' (by omega) (by rw [show k + 1 + fuel - 1 = k + (fuel + 1) - 1 by omega]; exact hfuel) hfuel1
      refine ⟨res, hres, by omega, ?_⟩
      rcases hk2 with h | h
      · right; rw [h]; simp only [Nat.add_sub_cancel]; omega
      · right; exact h


/-! ### `sum += increase` -/

theorem sgn_pos (v : Int) (h : 0 < v) : sgn v = 1 := by
  unfold sgn; split_ifs <;> omega

theorem bpowQ_shift (B : Nat) (hB : 0 < B) (e : Int) (k : Nat) :
    ((B ^ k : Nat) : ℚ) * bpowQ B (e - (k : Int)) = bpowQ B e := by
  rw [← bpowQ_nat, ← bpowQ_add B hB]; congr 1; ring

/-- value of the aligned sum -/
theorem aligned_value (B : Nat) (hB : 0 < B) (lhs rhs : FRepr) (E : Nat) (hE : (E : Int) = lhs.exp - rhs.exp) :
    ((lhs.signif * ((B ^ E : Nat) : Int) + rhs.signif : Int) : ℚ) * bpowQ B rhs.exp = lhs.toRat B + rhs.toRat B := by
  unfold FRepr.toRat
  have h := bpowQ_shift B hB lhs.exp E
  have e1 : lhs.exp - (E : Int) = rhs.exp := by omega
  rw [e1] at h
  rw [← h]; push_cast; ring

theorem addLargeSmall_pos (B : Nat) (hB : 2 ≤ B) (m : Mode) (c : Coarse) (hc : CoarseSound c) (dub : Int → Nat)
    (p : Nat) (hp : 1 ≤ p) (lhs rhs : FRepr) (hl : 0 < lhs.signif) (hr : 0 < rhs.signif) (hgt : rhs.exp < lhs.exp) :
    ∃ X : ℚ, Contract B m p X ((reprAddLargeSmall B m c dub p lhs rhs 1).1.toRat B)
        (reprAddLargeSmall B m c dub p lhs rhs 1).2 ∧ lhs.toRat B ≤ X ∧
      (¬ (dub rhs.signif + 1 < (lhs.exp - rhs.exp).toNat ∧
          dub rhs.signif + 1 + p < lhs.digits B + (lhs.exp - rhs.exp).toNat) → X = lhs.toRat B + rhs.toRat B) := by
  have hB0 : 0 < B := by omega
  have hp0 : p ≠ 0 := by omega
  have hrq : (0 : ℚ) ≤ rhs.toRat B := by
    unfold FRepr.toRat
    exact mul_nonneg (by exact_mod_cast hr.le) (bpowQ_pos B hB0 _).le
  unfold reprAddLargeSmall
  simp only [shlDigits_eq, sgn_pos _ hl, sgn_pos _ hr, one_mul, ne_eq, not_true_eq_false, decide_false,
    Bool.false_eq_true, if_false, Nat.add_zero, hp0, not_false_eq_true, true_and]
  have hEv : (((lhs.exp - rhs.exp).toNat : Nat) : Int) = lhs.exp - rhs.exp := Int.toNat_of_nonneg (by omega)
  generalize (lhs.exp - rhs.exp).toNat = E at hEv ⊢
  generalize hd : FRepr.digits B lhs = d
  by_cases hfar : dub rhs.signif + 1 < E ∧ dub rhs.signif + 1 + p < d + E
  · rw [if_pos hfar]
    generalize hlk : (if d ≥ p then 2 else p - d + 2) = lk
    have hlk2 : 2 ≤ lk := by rw [← hlk]; split_ifs <;> omega
    have hcon := reprRoundSum_contract B hB m c hc p hp lhs.signif lhs.exp 1 lk false
      (by
        have : 1 < B ^ lk := Nat.one_lt_pow (by omega) (by omega)
        have h2 : (1 : Int) < ((B ^ lk : Nat) : Int) := by exact_mod_cast this
        simpa using h2)
      (by omega) (fun _ => ⟨fun _ => by omega, fun h => by omega⟩) (fun h => by simp at h)
    refine ⟨_, hcon, ?_, fun h => absurd hfar h⟩
    have h := bpowQ_shift B hB0 lhs.exp lk
    have hpos := bpowQ_pos B hB0 (lhs.exp - (lk : Int))
    unfold FRepr.toRat
    rw [← h]; push_cast; nlinarith
  · rw [if_neg hfar]
    obtain ⟨hsplit, hlt, hpos, _⟩ := splitDigits_spec B hB rhs.signif E
    by_cases h2 : d ≥ p
    · rw [if_pos h2]
      have h1 := (hpos hr.le)
      have hcon := reprRoundSum_contract B hB m c hc p hp (lhs.signif + (splitDigits B rhs.signif E).1) lhs.exp
        (splitDigits B rhs.signif E).2 E false hlt (by omega) (fun _ => ⟨fun _ => h1.1, fun h => by omega⟩)
        (fun h => by simp at h)
      have hX : (lhs.signif + (splitDigits B rhs.signif E).1) * ((B ^ E : Nat) : Int) + (splitDigits B rhs.signif E).2 =
          lhs.signif * ((B ^ E : Nat) : Int) + rhs.signif := by
        conv_rhs => rw [hsplit]
        ring
      rw [hX, show lhs.exp - (E : Int) = rhs.exp by omega, aligned_value B hB0 lhs rhs E hEv] at hcon
      exact ⟨_, hcon, by linarith, fun _ => rfl⟩
    · rw [if_neg h2]
      by_cases h3 : E + d > p
      · rw [if_pos h3]
        generalize hls : p - d = lsh
        obtain ⟨hsplit', hlt', hpos', _⟩ := splitDigits_spec B hB rhs.signif (E - lsh)
        have h1 := (hpos' hr.le)
        have hDl := natpow_pos B hB0 lsh
        have hcon := reprRoundSum_contract B hB m c hc p hp
          (lhs.signif * ((B ^ lsh : Nat) : Int) + (splitDigits B rhs.signif (E - lsh)).1) (lhs.exp - (lsh : Int))
          (splitDigits B rhs.signif (E - lsh)).2 (E - lsh) false hlt'
          (by have := Int.mul_pos hl hDl; omega) (fun _ => ⟨fun _ => h1.1, fun h => by
            have := Int.mul_pos hl hDl; omega⟩)
          (fun h => by simp at h)
        have hpow : ((B ^ E : Nat) : Int) = ((B ^ lsh : Nat) : Int) * ((B ^ (E - lsh) : Nat) : Int) := by
          rw [← natpow_add]; congr 2; omega
        have hX : (lhs.signif * ((B ^ lsh : Nat) : Int) + (splitDigits B rhs.signif (E - lsh)).1) *
              ((B ^ (E - lsh) : Nat) : Int) + (splitDigits B rhs.signif (E - lsh)).2 =
            lhs.signif * ((B ^ E : Nat) : Int) + rhs.signif := by
          conv_rhs => rw [hsplit', hpow]
          ring
        have he : lhs.exp - (lsh : Int) - ((E - lsh : Nat) : Int) = rhs.exp := by omega
        rw [hX, he, aligned_value B hB0 lhs rhs E hEv] at hcon
        exact ⟨_, hcon, by linarith, fun _ => rfl⟩
      · rw [if_neg h3]
        have hcon := reprRoundSum_nolow_contract B hB m c hc p hp
          (lhs.signif * ((B ^ E : Nat) : Int) + rhs.signif) rhs.exp false
        rw [aligned_value B hB0 lhs rhs E hEv] at hcon
        exact ⟨_, hcon, by linarith, fun _ => rfl⟩

/-- **`sum += increase` keeps a sum `≥ 1` at or above one** — `FBig + FBig` (`fAddSub … 1`) for a left operand of value
    `≥ 1` and a positive right operand, operands of any length (the quotient `increase` may carry `p+1` digits), at any
    limited precision, every mode, every sound `digits_ub` estimate -/
theorem fAddSub_keeps (E : Env) (hB : 2 ≤ E.B) (hc : CoarseSound E.c) (hdub : DubSound E.B E.est.dub) (x y : FBigM)
    (hp : 1 ≤ ctxMaxP x.prec y.prec) (hx : 1 ≤ val E.B x) (hy : 0 < y.repr.signif) :
    1 ≤ val E.B (fAddSub E x y 1) := by
  have hB0 : 0 < E.B := by omega
  have hxs : 0 < x.repr.signif := by
    by_contra hcon
    have h1 : (x.repr.signif : ℚ) ≤ 0 := by exact_mod_cast (by omega : x.repr.signif ≤ 0)
    have := bpowQ_pos E.B hB0 x.repr.exp
    simp only [val, FRepr.toRat] at hx
    nlinarith
  have hyq : (0 : ℚ) < y.repr.toRat E.B := by
    unfold FRepr.toRat
    exact mul_pos (by exact_mod_cast hy) (bpowQ_pos E.B hB0 _)
  have hxz : x.repr.isZero = false := by
    unfold FRepr.isZero
    have : (x.repr.signif == 0) = false := by simp; omega
    simp [this]
  have hyz : y.repr.isZero = false := by
    unfold FRepr.isZero
    have : (y.repr.signif == 0) = false := by simp; omega
    simp [this]
  have h1 : bpowQ E.B 0 = 1 := bpowQ_zero E.B
  simp only [val, fAddSub, hxz, hyz, Bool.false_eq_true, if_false, one_mul]
  simp only [val] at hx
  by_cases heq : x.repr.exp = y.repr.exp
  · rw [if_pos heq]
    have hcon := reprRound_contract E.B hB E.m E.c hc _ hp _
      (FRepr.new_normalized E.B hB (x.repr.signif + y.repr.signif) x.repr.exp)
    rw [FRepr.new_value E.B hB0] at hcon
    rw [← h1]
    apply contract_ge_pow hB hp hcon
    rw [h1]
    have : ((x.repr.signif + y.repr.signif : Int) : ℚ) * bpowQ E.B x.repr.exp =
        x.repr.toRat E.B + (y.repr.signif : ℚ) * bpowQ E.B x.repr.exp := by
      unfold FRepr.toRat; push_cast; ring
    rw [this]
    have : (0 : ℚ) ≤ (y.repr.signif : ℚ) * bpowQ E.B x.repr.exp :=
      mul_nonneg (by exact_mod_cast hy.le) (bpowQ_pos E.B hB0 _).le
    linarith
  · rw [if_neg heq]
    by_cases hgt : x.repr.exp > y.repr.exp
    · rw [if_pos hgt]
      obtain ⟨X, hcon, hX, _⟩ := addLargeSmall_pos E.B hB E.m E.c hc E.est.dub _ hp x.repr y.repr hxs hy hgt
      rw [← h1]
      apply contract_ge_pow hB hp hcon
      rw [h1]; linarith
    · rw [if_neg hgt]
      have hlt : x.repr.exp < y.repr.exp := by omega
      obtain ⟨X, hcon, hX, hXeq⟩ := addLargeSmall_pos E.B hB E.m E.c hc E.est.dub _ hp ⟨y.repr.signif, y.repr.exp⟩ x.repr
        hy hxs hlt
      rw [← h1]
      apply contract_ge_pow hB hp hcon
      rw [h1]
      by_cases hfar : E.est.dub x.repr.signif + 1 < ((⟨y.repr.signif, y.repr.exp⟩ : FRepr).exp - x.repr.exp).toNat ∧
          E.est.dub x.repr.signif + 1 + ctxMaxP x.prec y.prec <
            (⟨y.repr.signif, y.repr.exp⟩ : FRepr).digits E.B + ((⟨y.repr.signif, y.repr.exp⟩ : FRepr).exp - x.repr.exp).toNat
      · -- the sum lies far below the increase: impossible for a sum ≥ 1 unless the increase itself is ≥ 1
        have hd := hdub x.repr.signif
        have hlt2 := toRat_abs_lt E.B hB x.repr
        have hle : bpowQ E.B (x.repr.exp + (x.repr.digits E.B : Int)) ≤ bpowQ E.B y.repr.exp := by
          apply bpowQ_mono E.B hB
          have := hfar.1
          simp only at this
          unfold FRepr.digits
          omega
        have hxa : x.repr.toRat E.B ≤ |x.repr.toRat E.B| := le_abs_self _
        have hyv : bpowQ E.B y.repr.exp ≤ (⟨y.repr.signif, y.repr.exp⟩ : FRepr).toRat E.B := by
          unfold FRepr.toRat
          simp only
          have : (1 : ℚ) ≤ (y.repr.signif : ℚ) := by exact_mod_cast hy
          have := bpowQ_pos E.B hB0 y.repr.exp
          nlinarith
        linarith
      · rw [hXeq hfar]
        have : (⟨y.repr.signif, y.repr.exp⟩ : FRepr).toRat E.B = y.repr.toRat E.B := rfl
        rw [this]; linarith

theorem addKeeps_of_sound (E : Env) (hB : 2 ≤ E.B) (hc : CoarseSound E.c) (hdub : DubSound E.B E.est.dub) : AddKeeps E :=
  fun x y hp hx hy => fAddSub_keeps E hB hc hdub x y hp hx hy

/-- **Step bound of the Maclaurin loop of `exp_internal`, from its entry state** (`factorial = 1`, `pow = r`,
    `sum = 1 + r`, `k = 2`) for a reduced argument `0 < r ≤ B^(−u)` held at the working precision `w ≥ 1`:
    with ANY fuel `≥ 1` such that `u·(fuel + 1) ≥ w + cS + 1` the loop returns a value (neither the fuel runs out nor a
    division fails), and the index of the last term is `2` or satisfies `u·(k − 1) < w + cS + 1`.
    Hypotheses on the oracles: `round_fract`'s coarse test is sound, `digits_ub` is sound, and `digits_lb` is at most
    `cS` digits below the exact digit count (`DlbTight`, the other side of `DlbSound`). -/
theorem expLoop_bound (E : Env) (hB : 2 ≤ E.B) (hc : CoarseSound E.c) (hdub : DubSound E.B E.est.dub) (cS : Nat)
    (hd : DlbTight E.B E.est.dlb cS) (r : FBigM) (w u : Nat) (hw : 1 ≤ w) (hrp : r.prec = w)
    (hr0 : 0 < r.repr.signif) (hru : val E.B r ≤ bpowQ E.B (-(u : Int)))
    (fuel : Nat) (hf1 : 1 ≤ fuel) (hfuel : w + cS + 1 ≤ u * (fuel + 1)) :
    ∃ res, expLoop E r fuel 1 r (fAddSub E FBigM.one r 1) 2 = .ok (some res) ∧ 2 ≤ res.2 ∧
      (res.2 = 2 ∨ u * (res.2 - 1) < w + cS + 1) := by
  have hB0 : 0 < E.B := by omega
  have hadd := addKeeps_of_sound E hB hc hdub
  have hrv : 0 ≤ val E.B r := by
    simp only [val, FRepr.toRat]
    exact mul_nonneg (by exact_mod_cast hr0.le) (bpowQ_pos E.B hB0 _).le
  have hone : val E.B FBigM.one = 1 := by
    simp only [val, FBigM.one, FRepr.toRat, bpowQ_zero]; norm_num
  have hs1 : 1 ≤ val E.B (fAddSub E FBigM.one r 1) :=
    hadd FBigM.one r (le_trans (by omega) (ctxMaxP_ge_right _ _)) (by rw [hone]) hr0
  have hsp : (fAddSub E FBigM.one r 1).prec ≤ max w (digitsI E.B 1) := by
    simp only [fAddSub]
    exact ctxMaxP_le _ _ _ (by simp [FBigM.one]) (by rw [hrp]; exact le_max_left _ _)
  exact expLoop_bound_aux E hB hc cS hd hadd r w u hw hrp hrv hru fuel 1 r _ 2 (by omega) hrp hrv
    (by simpa using hru) hs1 hsp (by omega) (by rw [show 2 + fuel - 1 = fuel + 1 by omega]; exact hfuel) hf1

/-- the bound as a number of terms: with `u ≥ 1` the fuel `(w + cS) / u + 1` always suffices -/
theorem expLoop_fuel_suffices (w cS u : Nat) (hu : 1 ≤ u) : w + cS + 1 ≤ u * ((w + cS) / u + 1 + 1) := by
  have h := Nat.div_add_mod (w + cS) u
  have hm := Nat.mod_lt (w + cS) (by omega : 0 < u)
  have : u * ((w + cS) / u + 1 + 1) = u * ((w + cS) / u) + 2 * u := by ring
  omega

/-! ### error propagation through one stage of the Maclaurin loop -/

theorem bpowQ_eps_le (B : Nat) (hB : 2 ≤ B) (w P : Nat) (h : w ≤ P) :
    bpowQ B (1 - (P : Int)) ≤ bpowQ B (1 - (w : Int)) := bpowQ_mono B hB _ _ (by omega)

/-- **one stage of the Maclaurin loop** (`pow *= &r; increase = &pow / &factorial`), working precision `w ≥ 1`,
    `ε = B^(1−w)`: if `pow` carries `j` accumulated relative errors of size `ε` against `t`, then the new `pow` carries
    `j + 1` against `t·r` and the term `increase` carries `j + 2` against `t·r / factorial` (the quotient is rounded at
    `max(w, digits factorial) ≥ w` digits) — for every mode, operands of any length -/
theorem expStage_error (E : Env) (hB : 2 ≤ E.B) (hc : CoarseSound E.c) (r pw : FBigM) (w : Nat) (hw : 1 ≤ w)
    (hrp : r.prec = w) (hpp : pw.prec = w) (F : Int) (hF : 1 ≤ F) (j : Nat) (t : ℚ)
    (h : Approx (bpowQ E.B (1 - (w : Int))) j (val E.B pw) t) :
    Approx (bpowQ E.B (1 - (w : Int))) (j + 1) (val E.B (fMul E pw r)) (t * val E.B r) ∧
    ∃ inc, fDiv E (fMul E pw r) (fOfInt E.B F) = .ok inc ∧
      Approx (bpowQ E.B (1 - (w : Int))) (j + 2) (val E.B inc) (t * val E.B r * (1 / (F : ℚ))) := by
  have hB0 : 0 < E.B := by omega
  have hε0 : 0 ≤ bpowQ E.B (1 - (w : Int)) := (bpowQ_pos E.B hB0 _).le
  have hε1 := bpow_eps_le_one E.B hB w hw
  have hmp : ctxMaxP pw.prec r.prec = w := by rw [hpp, hrp, ctxMaxP_self]
  have hm := near_of_contract E.B hB E.m w _ _ _
    (by have := opMul_contract E.B hB E.m E.c hc w hw pw.repr r.repr; exact this)
  have hmul : Approx (bpowQ E.B (1 - (w : Int))) (j + 1) (val E.B (fMul E pw r)) (t * val E.B r) := by
    have : val E.B (fMul E pw r) = (opMul E.B E.m E.c w pw.repr r.repr).1.toRat E.B := by
      simp only [val, fMul, hmp]
    rw [this]
    exact Approx.mul_exact hε0 hε1 h hm
  refine ⟨hmul, ?_⟩
  have hF0 : F ≠ 0 := by omega
  have hP : 1 ≤ ctxMaxP (fMul E pw r).prec (fOfInt E.B F).prec :=
    le_trans (by simp only [fMul, hmp]; exact hw) (ctxMaxP_ge_left _ _)
  have hwP : w ≤ ctxMaxP (fMul E pw r).prec (fOfInt E.B F).prec :=
    le_trans (by simp only [fMul, hmp]; exact le_refl w) (ctxMaxP_ge_left _ _)
  obtain ⟨q, hq, hcon⟩ := reprDiv_contract E.B hB E.m _ hP (fMul E pw r).repr (fOfInt E.B F).repr
    (fOfInt_signif_ne E.B hB F hF0)
  refine ⟨⟨q.1, ctxMaxP (fMul E pw r).prec (fOfInt E.B F).prec⟩, by simp only [fDiv, hq], ?_⟩
  have hv : (fOfInt E.B F).repr.toRat E.B = (F : ℚ) := fOfInt_val E.B hB F
  rw [hv] at hcon
  have hn := near_of_contract E.B hB E.m _ _ _ _ hcon
  have hn' : |q.1.toRat E.B - (fMul E pw r).repr.toRat E.B * (1 / (F : ℚ))| ≤
      bpowQ E.B (1 - (w : Int)) * |(fMul E pw r).repr.toRat E.B * (1 / (F : ℚ))| := by
    rw [mul_one_div]
    refine le_trans hn (mul_le_mul_of_nonneg_right (bpowQ_eps_le E.B hB _ _ hwP) (abs_nonneg _))
  exact Approx.mul_exact hε0 hε1 hmul hn'

/-- the states the loop passes through: `(factorial, pow)` before the step with index `i + 2` -/
def expState (E : Env) (r : FBigM) : Nat → Int × FBigM
  | 0 => (1, r)
  | i + 1 => ((expState E r i).1 * ((i + 2 : Nat) : Int), fMul E (expState E r i).2 r)

/-- the loop's recursive call passes exactly the next state (`rfl`) -/
theorem expLoop_unfold (E : Env) (r : FBigM) (fuel : Nat) (fa : Int) (pw sm : FBigM) (k : Nat) :
    expLoop E r (fuel + 1) fa pw sm k =
      match fDiv E (fMul E pw r) (fOfInt E.B (fa * (k : Int))) with
      | .error e => .error e
      | .ok increase =>
        if reprAbsCmp E.B increase.repr (fSubUlp E sm) ≠ .gt then .ok (some (sm, k))
        else expLoop E r fuel (fa * (k : Int)) (fMul E pw r) (fAddSub E sm increase 1) (k + 1) := rfl

theorem expState_prec (E : Env) (r : FBigM) : ∀ i, (expState E r i).2.prec = r.prec := by
  intro i
  induction i with
  | zero => rfl
  | succ i ih => simp only [expState, fMul, ih, ctxMaxP_self]

theorem expState_fact (E : Env) (r : FBigM) : ∀ i, (expState E r i).1 = ((i + 1).factorial : Int) := by
  intro i
  induction i with
  | zero => simp [expState]
  | succ i ih =>
    simp only [expState, ih]
    rw [Nat.factorial_succ (i + 1)]; push_cast; ring

/-- **error of the terms of the Maclaurin series as the loop computes them**: before the step with index `k = i + 2`
    the loop holds `factorial = (k−1)!` and `pow ≈ r^(k−1)` with `k − 2` accumulated relative errors `ε = B^(1−w)`; the
    term it then forms, `increase = (pow·r) / k!`, is `r^k / k!` up to `k` accumulated relative errors -/
theorem expTerms_error (E : Env) (hB : 2 ≤ E.B) (hc : CoarseSound E.c) (r : FBigM) (w : Nat) (hw : 1 ≤ w)
    (hrp : r.prec = w) (i : Nat) :
    (expState E r i).1 = ((i + 1).factorial : Int) ∧
    Approx (bpowQ E.B (1 - (w : Int))) i (val E.B (expState E r i).2) ((val E.B r) ^ (i + 1)) ∧
    ∃ inc, fDiv E (fMul E (expState E r i).2 r) (fOfInt E.B ((expState E r i).1 * ((i + 2 : Nat) : Int))) = .ok inc ∧
      Approx (bpowQ E.B (1 - (w : Int))) (i + 2) (val E.B inc) ((val E.B r) ^ (i + 2) / ((i + 2).factorial : ℚ)) := by
  have hinv : ∀ i, Approx (bpowQ E.B (1 - (w : Int))) i (val E.B (expState E r i).2) ((val E.B r) ^ (i + 1)) := by
    intro i
    induction i with
    | zero => simpa [expState] using Approx.refl (bpowQ E.B (1 - (w : Int))) (val E.B r)
    | succ i ih =>
      have hpp : (expState E r i).2.prec = w := by rw [expState_prec, hrp]
      have := (expStage_error E hB hc r (expState E r i).2 w hw hrp hpp 1 (le_refl 1) i _ ih).1
      simpa [expState, pow_succ] using this
  refine ⟨expState_fact E r i, hinv i, ?_⟩
  have hpp : (expState E r i).2.prec = w := by rw [expState_prec, hrp]
  have hF : (1 : Int) ≤ (expState E r i).1 * ((i + 2 : Nat) : Int) := by
    rw [expState_fact]
    have h1 : (1 : Int) ≤ ((i + 1).factorial : Int) := by exact_mod_cast Nat.factorial_pos _
    have h2 : (1 : Int) ≤ ((i + 2 : Nat) : Int) := by push_cast; omega
    nlinarith
  obtain ⟨inc, hinc, happ⟩ := (expStage_error E hB hc r (expState E r i).2 w hw hrp hpp _ hF i _ (hinv i)).2
  refine ⟨inc, hinc, ?_⟩
  have e : (val E.B r) ^ (i + 1) * val E.B r * (1 / (((expState E r i).1 * ((i + 2 : Nat) : Int) : Int) : ℚ)) =
      (val E.B r) ^ (i + 2) / ((i + 2).factorial : ℚ) := by
    rw [expState_fact, Nat.factorial_succ (i + 1)]
    push_cast; ring
  rw [e] at happ
  exact happ

/-! ### the loop of `Context::iacoth` (all terms positive) -/

/-- `sum += increase` keeps a sum `≥ B^L` at or above `B^L` (`fAddSub_keeps` is the case `L = 0`) -/
theorem fAddSub_keeps_pow (E : Env) (hB : 2 ≤ E.B) (hc : CoarseSound E.c) (hdub : DubSound E.B E.est.dub) (x y : FBigM)
    (hp : 1 ≤ ctxMaxP x.prec y.prec) (L : Int) (hx : bpowQ E.B L ≤ val E.B x) (hy : 0 < y.repr.signif) :
    bpowQ E.B L ≤ val E.B (fAddSub E x y 1) := by
  have hB0 : 0 < E.B := by omega
  have hLpos := bpowQ_pos E.B hB0 L
  have hxs : 0 < x.repr.signif := by
    by_contra hcon
    have h1 : (x.repr.signif : ℚ) ≤ 0 := by exact_mod_cast (by omega : x.repr.signif ≤ 0)
    have := bpowQ_pos E.B hB0 x.repr.exp
    simp only [val, FRepr.toRat] at hx
    nlinarith
  have hyq : (0 : ℚ) < y.repr.toRat E.B := by
    unfold FRepr.toRat
    exact mul_pos (by exact_mod_cast hy) (bpowQ_pos E.B hB0 _)
  have hxz : x.repr.isZero = false := by
    unfold FRepr.isZero
    have : (x.repr.signif == 0) = false := by simp; omega
    simp [this]
  have hyz : y.repr.isZero = false := by
    unfold FRepr.isZero
    have : (y.repr.signif == 0) = false := by simp; omega
    simp [this]
  simp only [val, fAddSub, hxz, hyz, Bool.false_eq_true, if_false, one_mul]
  simp only [val] at hx
  by_cases heq : x.repr.exp = y.repr.exp
  · rw [if_pos heq]
    have hcon := reprRound_contract E.B hB E.m E.c hc _ hp _
      (FRepr.new_normalized E.B hB (x.repr.signif + y.repr.signif) x.repr.exp)
    rw [FRepr.new_value E.B hB0] at hcon
    apply contract_ge_pow hB hp hcon
    have : ((x.repr.signif + y.repr.signif : Int) : ℚ) * bpowQ E.B x.repr.exp =
        x.repr.toRat E.B + (y.repr.signif : ℚ) * bpowQ E.B x.repr.exp := by
      unfold FRepr.toRat; push_cast; ring
    rw [this]
    have : (0 : ℚ) ≤ (y.repr.signif : ℚ) * bpowQ E.B x.repr.exp :=
      mul_nonneg (by exact_mod_cast hy.le) (bpowQ_pos E.B hB0 _).le
    linarith
  · rw [if_neg heq]
    by_cases hgt : x.repr.exp > y.repr.exp
    · rw [if_pos hgt]
      obtain ⟨X, hcon, hX, _⟩ := addLargeSmall_pos E.B hB E.m E.c hc E.est.dub _ hp x.repr y.repr hxs hy hgt
      apply contract_ge_pow hB hp hcon
      linarith
    · rw [if_neg hgt]
      have hlt : x.repr.exp < y.repr.exp := by omega
      obtain ⟨X, hcon, hX, hXeq⟩ := addLargeSmall_pos E.B hB E.m E.c hc E.est.dub _ hp ⟨y.repr.signif, y.repr.exp⟩ x.repr
        hy hxs hlt
      apply contract_ge_pow hB hp hcon
      by_cases hfar : E.est.dub x.repr.signif + 1 < ((⟨y.repr.signif, y.repr.exp⟩ : FRepr).exp - x.repr.exp).toNat ∧
          E.est.dub x.repr.signif + 1 + ctxMaxP x.prec y.prec <
            (⟨y.repr.signif, y.repr.exp⟩ : FRepr).digits E.B + ((⟨y.repr.signif, y.repr.exp⟩ : FRepr).exp - x.repr.exp).toNat
      · have hd := hdub x.repr.signif
        have hlt2 := toRat_abs_lt E.B hB x.repr
        have hle : bpowQ E.B (x.repr.exp + (x.repr.digits E.B : Int)) ≤ bpowQ E.B y.repr.exp := by
          apply bpowQ_mono E.B hB
          have := hfar.1
          simp only at this
          unfold FRepr.digits
          omega
        have hxa : x.repr.toRat E.B ≤ |x.repr.toRat E.B| := le_abs_self _
        have hyv : bpowQ E.B y.repr.exp ≤ (⟨y.repr.signif, y.repr.exp⟩ : FRepr).toRat E.B := by
          unfold FRepr.toRat
          simp only
          have : (1 : ℚ) ≤ (y.repr.signif : ℚ) := by exact_mod_cast hy
          have := bpowQ_pos E.B hB0 y.repr.exp
          nlinarith
        linarith
      · rw [hXeq hfar]
        have : (⟨y.repr.signif, y.repr.exp⟩ : FRepr).toRat E.B = y.repr.toRat E.B := rfl
        rw [this]; linarith

/-- value order decides `reprCmp` -/
theorem reprCmp_lt_of_val_lt (B : Nat) (hB : 2 ≤ B) (a b : FRepr) (h : a.toRat B < b.toRat B) : reprCmp B a b = .lt := by
  have hB0 : 0 < B := by omega
  unfold reprCmp
  simp only
  have hm1 : min a.exp b.exp ≤ a.exp := min_le_left _ _
  have hm2 : min a.exp b.exp ≤ b.exp := min_le_right _ _
  generalize min a.exp b.exp = em at *
  have s1 := bpowQ_split B hB em a.exp hm1
  have s2 := bpowQ_split B hB em b.exp hm2
  have hpe := bpowQ_pos B hB0 em
  rw [compare_lt_iff_lt]
  unfold FRepr.toRat at h
  rw [s1, s2] at h
  have hq : ((a.signif * ((B ^ (a.exp - em).toNat : Nat) : Int) : Int) : ℚ) <
      ((b.signif * ((B ^ (b.exp - em).toNat : Nat) : Int) : Int) : ℚ) := by
    push_cast at h ⊢
    by_contra hc
    have hge := not_lt.mp hc
    have := mul_le_mul_of_nonneg_right hge hpe.le
    nlinarith
  exact_mod_cast hq

/-- `convert_int(k)` at `w ≥ 1` digits is at least `1` for `k ≥ 1` -/
theorem fConvertInt_ge_one (E : Env) (hB : 2 ≤ E.B) (hc : CoarseSound E.c) (w : Nat) (hw : 1 ≤ w) (k : Int) (hk : 1 ≤ k) :
    1 ≤ val E.B (fConvertInt E w k) := by
  have hB0 : 0 < E.B := by omega
  have hcon := reprRound_contract E.B hB E.m E.c hc w hw _ (FRepr.new_normalized E.B hB k 0)
  rw [FRepr.new_value E.B hB0, bpowQ_zero] at hcon
  have h1 : bpowQ E.B 0 ≤ (k : ℚ) * 1 := by
    rw [bpowQ_zero]
    have : (1 : ℚ) ≤ (k : ℚ) := by exact_mod_cast hk
    linarith
  have := contract_ge_pow hB hw hcon 0 h1
  rw [bpowQ_zero] at this
  simpa [val, fConvertInt] using this

/-- `pow / convert_int(k)`: the quotient does not exceed a power-of-base bound of `pow` -/
theorem fDiv_conv_bound (E : Env) (hB : 2 ≤ E.B) (hc : CoarseSound E.c) (x : FBigM) (w : Nat) (hw : 1 ≤ w) (k : Int)
    (hk : 1 ≤ k) (a : Int) (hx0 : 0 ≤ val E.B x) (hxa : val E.B x ≤ bpowQ E.B a) :
    ∃ inc, fDiv E x (fConvertInt E w k) = .ok inc ∧ inc.prec = ctxMaxP x.prec w ∧
      0 ≤ val E.B inc ∧ val E.B inc ≤ bpowQ E.B a := by
  have hB0 : 0 < E.B := by omega
  have hc1 := fConvertInt_ge_one E hB hc w hw k hk
  have hcs : (fConvertInt E w k).repr.signif ≠ 0 := by
    intro h
    simp only [val, FRepr.toRat, h] at hc1
    norm_num at hc1
  have hp : 1 ≤ ctxMaxP x.prec (fConvertInt E w k).prec := le_trans hw (ctxMaxP_ge_right _ _)
  obtain ⟨r, hr, hcon⟩ := reprDiv_contract E.B hB E.m _ hp x.repr (fConvertInt E w k).repr hcs
  refine ⟨⟨r.1, ctxMaxP x.prec (fConvertInt E w k).prec⟩, by simp only [fDiv, hr], rfl, ?_⟩
  have hcpos : (0 : ℚ) < (fConvertInt E w k).repr.toRat E.B := lt_of_lt_of_le one_pos hc1
  have hq0 : 0 ≤ x.repr.toRat E.B / (fConvertInt E w k).repr.toRat E.B := div_nonneg hx0 hcpos.le
  have hq : x.repr.toRat E.B / (fConvertInt E w k).repr.toRat E.B ≤ bpowQ E.B a :=
    le_trans (div_le_self hx0 hc1) hxa
  exact contract_le_pow hB hp hcon hq0 _ hq

/-- `sum.sub_ulp()` of a sum `≥ B^L` is at least `B^(L − cS − precision)` -/
theorem subUlp_ge_pow (E : Env) (hB : 2 ≤ E.B) (cS : Nat) (hd : DlbTight E.B E.est.dlb cS) (sm : FBigM) (L : Int)
    (h1 : bpowQ E.B L ≤ val E.B sm) : L - (cS : Int) - (sm.prec : Int) ≤ (fSubUlp E sm).exp := by
  have hlt := toRat_abs_lt E.B hB sm.repr
  have h0 : bpowQ E.B L < bpowQ E.B (sm.repr.exp + (sm.repr.digits E.B : Int)) := by
    have : val E.B sm ≤ |sm.repr.toRat E.B| := le_abs_self _
    exact lt_of_le_of_lt (le_trans h1 this) hlt
  have hT := bpowQ_lt_bpowQ E.B hB _ _ h0
  have := hd sm.repr.signif
  unfold FRepr.digits at hT
  simp only [fSubUlp]
  omega

/-- **Step bound of the loop of `Context::iacoth`** (`pow *= inv2; increase = pow / k; if increase < sum.sub_ulp() return;
    sum += increase; k += 2`) with `0 ≤ inv2 ≤ B^(−u)` held at `w ≥ 1` digits: from a state `0 ≤ pow ≤ B^b`, `sum ≥ B^L`, both
    at precision `w`, the loop returns a value within any fuel `≥ 1` with `u·fuel > b − L + cS + w`, and the last index is
    below `k + 2·fuel`. -/
theorem iacothLoop_bound (E : Env) (hB : 2 ≤ E.B) (hc : CoarseSound E.c) (hdub : DubSound E.B E.est.dub) (cS : Nat)
    (hd : DlbTight E.B E.est.dlb cS) (inv2 : FBigM) (w u : Nat) (hw : 1 ≤ w) (hip : inv2.prec = w)
    (hi0 : 0 ≤ val E.B inv2) (hiu : val E.B inv2 ≤ bpowQ E.B (-(u : Int))) (L : Int) :
    ∀ (fuel : Nat) (pw sm : FBigM) (k : Nat) (b : Int),
      pw.prec = w → 0 ≤ val E.B pw → val E.B pw ≤ bpowQ E.B b → bpowQ E.B L ≤ val E.B sm → sm.prec = w → 1 ≤ k →
      1 ≤ fuel → b - L + (cS : Int) + (w : Int) < (u : Int) * (fuel : Int) →
      ∃ res, iacothLoop E w inv2 fuel pw sm k = .ok (some res) ∧ k ≤ res.2 ∧ res.2 < k + 2 * fuel := by
  have hB0 : 0 < E.B := by omega
  intro fuel
  induction fuel with
  | zero => intro pw sm k b _ _ _ _ _ _ h _; omega
  | succ fuel ih =>
    intro pw sm k b hpp hp0 hpb hsL hsp hk _ hfuel
    rw [iacothLoop]
    try dsimp only
    have hmp : 1 ≤ ctxMaxP pw.prec inv2.prec := by rw [hpp, hip, ctxMaxP_self]; exact hw
    obtain ⟨hm0, hmu⟩ := fMul_bound E hB hc pw inv2 hmp _ _ hp0 hpb hi0 hiu
    have hmprec : (fMul E pw inv2).prec = w := by simp only [fMul]; rw [hpp, hip, ctxMaxP_self]
    have hk1 : (1 : Int) ≤ (k : Int) := by exact_mod_cast hk
    obtain ⟨inc, hdiv, hincp, hinc0, hincu⟩ := fDiv_conv_bound E hB hc (fMul E pw inv2) w hw (k : Int) hk1 _ hm0 hmu
    rw [hdiv]
    try dsimp only
    have hincw : inc.prec = w := by rw [hincp, hmprec, ctxMaxP_self]
    by_cases hstop : reprCmp E.B inc.repr (fSubUlp E sm) = .lt
    · rw [if_pos hstop]
      exact ⟨(sm, k), rfl, Nat.le_refl _, by show k < k + 2 * (fuel + 1); omega⟩
    · rw [if_neg hstop]
      have hthr := subUlp_ge_pow E hB cS hd sm L hsL
      rw [hsp] at hthr
      have hthrv : (fSubUlp E sm).toRat E.B = bpowQ E.B (fSubUlp E sm).exp := by
        simp only [fSubUlp, FRepr.toRat]; norm_num
      have hnot : ¬ (b - (u : Int) < L - (cS : Int) - (w : Int)) := by
        intro hlt
        apply hstop
        apply reprCmp_lt_of_val_lt E.B hB
        rw [hthrv]
        have h1 : bpowQ E.B (b + -(u : Int)) < bpowQ E.B (L - (cS : Int) - (w : Int)) := by
          rw [bpowQ_eq_zpow, bpowQ_eq_zpow]
          have h1' : (1 : ℚ) < (E.B : ℚ) := by exact_mod_cast (by omega : 1 < E.B)
          exact zpow_lt_zpow_right₀ h1' (by omega)
        have h2 := bpowQ_mono E.B hB _ _ hthr
        exact lt_of_le_of_lt hincu (lt_of_lt_of_le h1 h2)
      have hsig0 := signif_nonneg_of_val E.B hB inc.repr hinc0
      have hsigpos : 0 < inc.repr.signif := by
        by_contra hc0
        have hz : inc.repr.signif = 0 := by omega
        apply hstop
        apply reprCmp_lt_of_val_lt E.B hB
        rw [hthrv]
        unfold FRepr.toRat
        rw [hz]
        simp only [Int.cast_zero, zero_mul]
        exact bpowQ_pos E.B hB0 _
      have hpinc : 1 ≤ ctxMaxP sm.prec inc.prec := by rw [hsp, hincw, ctxMaxP_self]; exact hw
      have hsm' : bpowQ E.B L ≤ val E.B (fAddSub E sm inc 1) := fAddSub_keeps_pow E hB hc hdub sm inc hpinc L hsL hsigpos
      have hprec' : (fAddSub E sm inc 1).prec = w := by simp only [fAddSub]; rw [hsp, hincw, ctxMaxP_self]
      have hfuel1 : 1 ≤ fuel := by
        by_contra hc0
        have : fuel = 0 := by omega
        subst this
        push_cast at hfuel
        omega
      have hfuel' : (b + -(u : Int)) - L + (cS : Int) + (w : Int) < (u : Int) * (fuel : Int) := by
        push_cast at hfuel
        have : (u : Int) * ((fuel : Int) + 1) = (u : Int) * (fuel : Int) + (u : Int) := by ring
        omega
      obtain ⟨res, hres, hk1', hk2⟩ := ih (fMul E pw inv2) (fAddSub E sm inc 1) (k + 2) (b + -(u : Int)) hmprec hm0 hmu
        hsm' hprec' (by omega) hfuel1 hfuel'
      exact ⟨res, hres, by omega, by omega⟩


end Dashu.Proofs.Trans.SeriesBound
