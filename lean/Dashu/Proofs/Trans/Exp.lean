import Dashu.Proofs.Trans.Grid
import Mathlib.Analysis.Complex.Exponential
import Mathlib.Analysis.SpecialFunctions.Exp
/-
  Soundness of the exponential enclosure `expEncl` of `Dashu/Model/Trans/Encl.lean`:

      (expEncl x n).1 ≤ Real.exp x ≤ (expEncl x n).2      for every rational x and every n.
-/
namespace Dashu.Model.Trans
open Finset

/-- one step of the term recurrence -/
theorem term_succ (y : ℚ) (i : ℕ) :
    y ^ i / (i.factorial : ℚ) * y / ((i + 1 : ℕ) : ℚ) = y ^ (i + 1) / ((i + 1).factorial : ℚ) := by
  have h1 : ((i.factorial : ℕ) : ℚ) ≠ 0 := by exact_mod_cast i.factorial_ne_zero
  have h2 : ((i + 1 : ℕ) : ℚ) ≠ 0 := by exact_mod_cast Nat.succ_ne_zero i
  rw [Nat.factorial_succ]
  push_cast
  field_simp
  ring

/-- invariant of `expSeries` (in ℚ) -/
theorem expSeries_inv (m : ℕ) (yl yu : ℚ) (hyl : 0 ≤ yl) (hyu : 0 ≤ yu) :
    ∀ (f i : ℕ) (tl tu sl su : ℚ),
      0 ≤ tl → tl ≤ yl ^ i / (i.factorial : ℚ) → yu ^ i / (i.factorial : ℚ) ≤ tu →
      sl ≤ ∑ j ∈ range i, yl ^ j / (j.factorial : ℚ) →
      ∑ j ∈ range i, yu ^ j / (j.factorial : ℚ) ≤ su →
      (expSeries m yl yu f i tl tu sl su).1 ≤ ∑ j ∈ range (i + f), yl ^ j / (j.factorial : ℚ) ∧
      ∑ j ∈ range (i + f), yu ^ j / (j.factorial : ℚ) + 2 * (yu ^ (i + f) / ((i + f).factorial : ℚ))
        ≤ (expSeries m yl yu f i tl tu sl su).2 := by
  intro f
  induction f with
  | zero =>
    intro i tl tu sl su _ _ htu hsl hsu
    simp only [expSeries, Nat.add_zero]
    exact ⟨hsl, by linarith⟩
  | succ f ih =>
    intro i tl tu sl su htl0 htl htu hsl hsu
    have hi : (0 : ℚ) < ((i + 1 : ℕ) : ℚ) := by exact_mod_cast Nat.succ_pos i
    have hfac : (0 : ℚ) < (i.factorial : ℚ) := by exact_mod_cast i.factorial_pos
    have htu0 : 0 ≤ tu := le_trans (by positivity) htu
    have e : i + (f + 1) = (i + 1) + f := by omega
    simp only [expSeries]
    rw [e]
    apply ih (i + 1)
    · exact rdn_nonneg m (div_nonneg (mul_nonneg htl0 hyl) hi.le)
    · refine le_trans (rdn_le m _) ?_
      rw [← term_succ]
      apply div_le_div_of_nonneg_right _ hi.le
      exact mul_le_mul_of_nonneg_right htl hyl
    · refine le_trans ?_ (le_rup m _)
      rw [← term_succ]
      apply div_le_div_of_nonneg_right _ hi.le
      exact mul_le_mul_of_nonneg_right htu hyu
    · rw [sum_range_succ]; linarith
    · rw [sum_range_succ]; linarith

theorem expSeries_nonneg (m : ℕ) (yl yu : ℚ) (hyl : 0 ≤ yl) :
    ∀ (f i : ℕ) (tl tu sl su : ℚ), 0 ≤ tl → 0 ≤ sl → 0 ≤ (expSeries m yl yu f i tl tu sl su).1 := by
  intro f
  induction f with
  | zero => intro i tl tu sl su _ h; simpa [expSeries] using h
  | succ f ih =>
    intro i tl tu sl su h1 h2
    simp only [expSeries]
    apply ih
    · exact rdn_nonneg m (div_nonneg (mul_nonneg h1 hyl) (by positivity))
    · linarith

/-- the rounded Taylor evaluation encloses `exp y` whenever `0 ≤ yl ≤ y ≤ yu ≤ 1` -/
theorem expSeries_sound (m : ℕ) (yl yu : ℚ) (y : ℝ) (N : ℕ) (hN : 0 < N)
    (hyl : 0 ≤ yl) (hly : (yl : ℝ) ≤ y) (hyu : y ≤ (yu : ℝ)) (hu1 : yu ≤ 1) :
    0 ≤ (expSeries m yl yu N 0 1 1 0 0).1 ∧
    ((expSeries m yl yu N 0 1 1 0 0).1 : ℝ) ≤ Real.exp y ∧
    Real.exp y ≤ ((expSeries m yl yu N 0 1 1 0 0).2 : ℝ) := by
  have hyl' : (0 : ℝ) ≤ (yl : ℝ) := by exact_mod_cast hyl
  have hyu0 : 0 ≤ yu := by
    have : (0 : ℝ) ≤ (yu : ℝ) := le_trans (le_trans hyl' hly) hyu
    exact_mod_cast this
  have hyu' : (0 : ℝ) ≤ (yu : ℝ) := by exact_mod_cast hyu0
  have hu1' : (yu : ℝ) ≤ 1 := by exact_mod_cast hu1
  obtain ⟨h1, h2⟩ := expSeries_inv m yl yu hyl hyu0 N 0 1 1 0 0 (by norm_num) (by simp) (by simp)
    (by simp) (by simp)
  rw [Nat.zero_add] at h1 h2
  refine ⟨?_, ?_, ?_⟩
  · exact expSeries_nonneg m yl yu hyl N 0 1 1 0 0 (by norm_num) (le_refl 0)
  · have hs : ((∑ j ∈ range N, yl ^ j / (j.factorial : ℚ) : ℚ) : ℝ)
        = ∑ j ∈ range N, (yl : ℝ) ^ j / (j.factorial : ℝ) := by push_cast; rfl
    have h1' : ((expSeries m yl yu N 0 1 1 0 0).1 : ℝ) ≤ ((∑ j ∈ range N, yl ^ j / (j.factorial : ℚ) : ℚ) : ℝ) := by
      exact_mod_cast h1
    rw [hs] at h1'
    exact le_trans h1' (le_trans (Real.sum_le_exp_of_nonneg hyl' N) (Real.exp_le_exp.mpr hly))
  · have hs : ((∑ j ∈ range N, yu ^ j / (j.factorial : ℚ) + 2 * (yu ^ N / (N.factorial : ℚ)) : ℚ) : ℝ)
        = ∑ j ∈ range N, (yu : ℝ) ^ j / (j.factorial : ℝ) + 2 * ((yu : ℝ) ^ N / (N.factorial : ℝ)) := by
      push_cast; rfl
    have h2' : ((∑ j ∈ range N, yu ^ j / (j.factorial : ℚ) + 2 * (yu ^ N / (N.factorial : ℚ)) : ℚ) : ℝ)
        ≤ ((expSeries m yl yu N 0 1 1 0 0).2 : ℝ) := by exact_mod_cast h2
    rw [hs] at h2'
    refine le_trans (Real.exp_le_exp.mpr hyu) (le_trans (Real.exp_bound' hyu' hu1' hN) (le_trans ?_ h2'))
    have hNr : (1 : ℝ) ≤ (N : ℝ) := by exact_mod_cast hN
    have hfac : (0 : ℝ) < (N.factorial : ℝ) := by exact_mod_cast N.factorial_pos
    have hpow : (0 : ℝ) ≤ (yu : ℝ) ^ N := pow_nonneg hyu' N
    have : (yu : ℝ) ^ N * ((N : ℝ) + 1) / ((N.factorial : ℝ) * (N : ℝ))
        ≤ 2 * ((yu : ℝ) ^ N / (N.factorial : ℝ)) := by
      rw [div_le_iff₀ (by positivity)]
      have : 2 * ((yu : ℝ) ^ N / (N.factorial : ℝ)) * ((N.factorial : ℝ) * (N : ℝ))
          = (yu : ℝ) ^ N * (2 * (N : ℝ)) := by field_simp
      rw [this]
      apply mul_le_mul_of_nonneg_left _ hpow
      linarith
    linarith

/-- `k` rounded squarings enclose `E^(2^k)` -/
theorem sqrIter_sound (m : ℕ) :
    ∀ (k : ℕ) (e : ℚ × ℚ) (E : ℝ), 0 ≤ e.1 → (e.1 : ℝ) ≤ E → E ≤ (e.2 : ℝ) →
      0 ≤ (sqrIter m k e).1 ∧ ((sqrIter m k e).1 : ℝ) ≤ E ^ (2 ^ k) ∧ E ^ (2 ^ k) ≤ ((sqrIter m k e).2 : ℝ) := by
  intro k
  induction k with
  | zero => intro e E h0 h1 h2; simpa [sqrIter] using ⟨h0, h1, h2⟩
  | succ k ih =>
    intro e E h0 h1 h2
    have h0' : (0 : ℝ) ≤ (e.1 : ℝ) := by exact_mod_cast h0
    have hE : 0 ≤ E := le_trans h0' h1
    simp only [sqrIter]
    have e2 : E ^ (2 ^ (k + 1)) = (E ^ 2) ^ (2 ^ k) := by rw [← pow_mul, pow_succ, mul_comm]
    rw [e2]
    apply ih
    · exact rdn_nonneg m (mul_nonneg h0 h0)
    · refine le_trans (rdn_le_real m _) ?_
      push_cast
      nlinarith
    · refine le_trans ?_ (le_rup_real m _)
      push_cast
      nlinarith

theorem lt_floorNat_succ (x : ℚ) (hx : 0 ≤ x) : x < ((floorNat x + 1 : ℕ) : ℚ) := by
  unfold floorNat
  have hd : (0 : ℤ) < (x.den : ℤ) := by exact_mod_cast x.den_pos
  have hn : 0 ≤ x.num := Rat.num_nonneg.mpr hx
  have hq : 0 ≤ x.num / (x.den : ℤ) := Int.ediv_nonneg hn hd.le
  have h1 : x.num < (x.num / (x.den : ℤ) + 1) * (x.den : ℤ) := Int.lt_ediv_add_one_mul_self _ hd
  have hc : (((x.num / (x.den : ℤ)).toNat + 1 : ℕ) : ℚ) = ((x.num / (x.den : ℤ) + 1 : ℤ) : ℚ) := by
    push_cast
    rw [show (((x.num / (x.den : ℤ)).toNat : ℕ) : ℚ) = (((x.num / (x.den : ℤ)).toNat : ℤ) : ℚ) from by push_cast; rfl,
      Int.toNat_of_nonneg hq]
  rw [hc]
  have hdq : (0 : ℚ) < (x.den : ℚ) := by exact_mod_cast x.den_pos
  have h2 : (x.num : ℚ) < ((x.num / (x.den : ℤ) + 1 : ℤ) : ℚ) * (x.den : ℚ) := by exact_mod_cast h1
  calc x = (x.num : ℚ) / (x.den : ℚ) := (Rat.num_div_den x).symm
    _ < ((x.num / (x.den : ℤ) + 1 : ℤ) : ℚ) := by rw [div_lt_iff₀ hdq]; exact h2

theorem expNonneg_sound (x : ℚ) (n : ℕ) (hx : 0 ≤ x) :
    0 ≤ (expNonneg x n).1 ∧ ((expNonneg x n).1 : ℝ) ≤ Real.exp (x : ℝ) ∧
      Real.exp (x : ℝ) ≤ ((expNonneg x n).2 : ℝ) := by
  unfold expNonneg
  simp only []
  set k0 := (floorNat x + 1).log2 + 1 with hk0
  set k := k0 + Nat.sqrt n with hk
  set m := n + k + 2 * n.log2 + 8
  set y : ℚ := x / ((2 ^ k : ℕ) : ℚ) with hy
  have hpow : (0 : ℚ) < ((2 ^ k : ℕ) : ℚ) := by positivity
  have hy0 : 0 ≤ y := div_nonneg hx hpow.le
  have hxk : x < ((2 ^ k : ℕ) : ℚ) := by
    have h1 := lt_floorNat_succ x hx
    have h2 : floorNat x + 1 < 2 ^ k0 := Nat.lt_log2_self
    have h3 : 2 ^ k0 ≤ 2 ^ k := Nat.pow_le_pow_right (by norm_num) (by omega)
    have h4 : ((floorNat x + 1 : ℕ) : ℚ) < ((2 ^ k : ℕ) : ℚ) := by exact_mod_cast lt_of_lt_of_le h2 h3
    exact lt_trans h1 h4
  have hy1 : y ≤ 1 := by rw [hy, div_le_one hpow]; exact hxk.le
  have hexp : Real.exp (x : ℝ) = Real.exp (y : ℝ) ^ (2 ^ k) := by
    rw [← Real.exp_nat_mul]
    congr 1
    rw [hy]; push_cast; field_simp
  rw [hexp]
  have hS := expSeries_sound m (max 0 (rdn m y)) (min 1 (rup m y)) (y : ℝ) ((n + k) / (Nat.sqrt n + 1) + 2)
    (Nat.succ_pos _) (le_max_left _ _)
    (by exact_mod_cast max_le hy0 (rdn_le m y))
    (by exact_mod_cast le_min hy1 (le_rup m y))
    (min_le_left _ _)
  exact sqrIter_sound m k _ _ hS.1 hS.2.1 hS.2.2

theorem two_pow_le_exp (k : ℕ) : (2 : ℝ) ^ k ≤ Real.exp (k : ℝ) := by
  have h2 : (2 : ℝ) ≤ Real.exp 1 := by have := Real.add_one_le_exp 1; linarith
  have : Real.exp (k : ℝ) = Real.exp 1 ^ k := by rw [← Real.exp_nat_mul]; simp
  rw [this]
  exact pow_le_pow_left₀ (by norm_num) h2 k

/-- **Soundness of the exponential enclosure**, for every rational argument and every effort `n`. -/
theorem expEncl_sound (x : ℚ) (n : ℕ) :
    ((expEncl x n).1 : ℝ) ≤ Real.exp (x : ℝ) ∧ Real.exp (x : ℝ) ≤ ((expEncl x n).2 : ℝ) := by
  unfold expEncl
  by_cases hx : 0 ≤ x
  · rw [if_pos hx]
    exact (expNonneg_sound x n hx).2
  · rw [if_neg hx]
    by_cases hbig : x < -((16 * n + 4096 : ℕ) : ℚ)
    · rw [if_pos hbig]
      refine ⟨by simpa using (Real.exp_pos _).le, ?_⟩
      have hb : (x : ℝ) < -((16 * n + 4096 : ℕ) : ℝ) := by exact_mod_cast hbig
      have hk : (x : ℝ) ≤ -((n + 64 : ℕ) : ℝ) := by
        have : ((n + 64 : ℕ) : ℝ) ≤ ((16 * n + 4096 : ℕ) : ℝ) := by
          exact_mod_cast (by omega : n + 64 ≤ 16 * n + 4096)
        linarith
      have h1 : Real.exp (x : ℝ) ≤ Real.exp (-((n + 64 : ℕ) : ℝ)) := Real.exp_le_exp.mpr hk
      have h2 := two_pow_le_exp (n + 64)
      have hpos : (0 : ℝ) < (2 : ℝ) ^ (n + 64) := by positivity
      rw [Real.exp_neg] at h1
      refine le_trans h1 ?_
      push_cast at h2 ⊢
      rw [one_div]
      exact inv_anti₀ hpos h2
    rw [if_neg hbig]
    have hx' : 0 ≤ -x := by linarith [not_le.mp hx]
    obtain ⟨h0, h1, h2⟩ := expNonneg_sound (-x) n hx'
    have hcast : ((-x : ℚ) : ℝ) = -(x : ℝ) := by push_cast; rfl
    rw [hcast] at h1 h2
    have hE : Real.exp (x : ℝ) = (Real.exp (-(x : ℝ)))⁻¹ := by
      rw [← Real.exp_neg]; simp
    have hpos : 0 < Real.exp (-(x : ℝ)) := Real.exp_pos _
    simp only []
    constructor
    · -- 1 / hi ≤ 1 / exp(-x)
      rw [hE]
      push_cast
      rw [one_div]
      exact inv_anti₀ hpos h2
    · by_cases hl : 0 < (expNonneg (-x) n).1
      · rw [if_pos hl, hE]
        have hl' : (0 : ℝ) < ((expNonneg (-x) n).1 : ℝ) := by exact_mod_cast hl
        push_cast
        rw [one_div]
        exact inv_anti₀ hl' h1
      · rw [if_neg hl]
        have : Real.exp (x : ℝ) ≤ 1 := by
          rw [← Real.exp_zero]; apply Real.exp_le_exp.mpr
          exact_mod_cast (le_of_lt (not_le.mp hx))
        exact_mod_cast this

end Dashu.Model.Trans
