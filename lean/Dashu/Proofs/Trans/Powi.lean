import Dashu.Model.Trans.Powi
import Dashu.Proofs.Trans.RelErr
import Dashu.Proofs.Float.Closing
/-
  Error bound of the non-negative branch of `Context::powi` (DESIGN §8 C11 item 2), from the C03
  contracts of `sqr` / `mul` / `repr_round` (`Dashu/Proofs/Float`).
-/
namespace Dashu.Model.Trans
open Dashu.Model.Float

/-- a C03 contract at precision `q` is a relative error of at most `B^(1−q)` -/
theorem near_of_contract (B : Nat) (hB : 2 ≤ B) (m : Mode) (q : Nat) (x r : ℚ) (flag : Option Rounding)
    (h : Contract B m q x r flag) : |r - x| ≤ bpowQ B (1 - (q : Int)) * |x| := by
  have hB0 : 0 < B := by omega
  by_cases hrx : r = x
  · subst hrx
    simp only [sub_self, abs_zero]
    exact mul_nonneg (bpowQ_pos B hB0 _).le (abs_nonneg _)
  · obtain ⟨e, h1, h2, _⟩ := h.err hrx
    rw [absQ_eq] at h1
    have hpos := bpowQ_pos B hB0 e
    have herr : |r - x| ≤ bpowQ B e := by
      unfold errOk at h2
      split_ifs at h2 with hm
      · rw [absQ_eq] at h2
        have := abs_nonneg (r - x)
        linarith
      · rw [absQ_eq] at h2
        exact h2.le
    have hsplit : bpowQ B e = bpowQ B (e + q - 1) * bpowQ B (1 - (q : Int)) := by
      rw [← bpowQ_add B hB0]; congr 1; ring
    rw [hsplit] at herr
    have hq := (bpowQ_pos B hB0 (1 - (q : Int))).le
    calc |r - x| ≤ bpowQ B (e + q - 1) * bpowQ B (1 - (q : Int)) := herr
      _ ≤ |x| * bpowQ B (1 - (q : Int)) := mul_le_mul_of_nonneg_right h1 hq
      _ = bpowQ B (1 - (q : Int)) * |x| := mul_comm _ _

/-- number of accumulated errors: `2k+1` per squaring, one more per multiplication -/
def errCount : List Bool → Nat → Nat
  | [], k => k
  | b :: bs, k => errCount bs (2 * k + 1 + (if b then 1 else 0))

theorem errCount_le : ∀ (bs : List Bool) (k : Nat), errCount bs k + 2 ≤ 2 ^ bs.length * (k + 2) := by
  intro bs
  induction bs with
  | nil => intro k; simp [errCount]
  | cons b bs ih =>
    intro k
    simp only [errCount, List.length_cons, pow_succ]
    have := ih (2 * k + 1 + (if b then 1 else 0))
    have hb : (if b then 1 else 0) ≤ 1 := by split <;> omega
    calc errCount bs (2 * k + 1 + (if b then 1 else 0)) + 2
        ≤ 2 ^ bs.length * (2 * k + 1 + (if b then 1 else 0) + 2) := this
      _ ≤ 2 ^ bs.length * (2 * (k + 2)) := Nat.mul_le_mul_left _ (by omega)
      _ = 2 ^ bs.length * 2 * (k + 2) := by ring

theorem bpow_eps_le_one (B : Nat) (hB : 2 ≤ B) (q : Nat) (hq : 1 ≤ q) : bpowQ B (1 - (q : Int)) ≤ 1 := by
  rw [bpowQ_eq_zpow]
  have hB1 : (1 : ℚ) ≤ (B : ℚ) := by exact_mod_cast (by omega : 1 ≤ B)
  exact zpow_le_one_of_nonpos₀ hB1 (by omega)

/-- invariant of the loop -/
theorem powLoop_approx (B : Nat) (hB : 2 ≤ B) (m : Mode) (c : Coarse) (hc : CoarseSound c) (q : Nat) (hq : 1 ≤ q)
    (base : FRepr) :
    ∀ (bs : List Bool) (cur : FRepr) (k acc : Nat),
      Approx (bpowQ B (1 - (q : Int))) k (cur.toRat B) ((base.toRat B) ^ acc) →
      Approx (bpowQ B (1 - (q : Int))) (errCount bs k)
        ((powLoop true B m c q base bs cur).toRat B) ((base.toRat B) ^ (bitsVal bs acc)) := by
  have hB0 : 0 < B := by omega
  have hε0 : 0 ≤ bpowQ B (1 - (q : Int)) := (bpowQ_pos B hB0 _).le
  have hε1 := bpow_eps_le_one B hB q hq
  intro bs
  induction bs with
  | nil => intro cur k acc h; simpa [powLoop, errCount, bitsVal] using h
  | cons b bs ih =>
    intro cur k acc h
    simp only [powLoop, errCount, bitsVal]
    have hs := near_of_contract B hB m q _ _ _ (ctxSqr_contract B hB m c hc q hq cur)
    have hsq := Approx.sqr hε0 hε1 h hs
    cases b with
    | false =>
      simp only [if_false, Bool.false_eq_true, Nat.add_zero]
      apply ih
      have e : (base.toRat B) ^ (2 * acc) = (base.toRat B) ^ acc * (base.toRat B) ^ acc := by
        rw [two_mul, pow_add]
      rw [e]; exact hsq
    | true =>
      simp only [if_true]
      apply ih
      have hm := near_of_contract B hB m q _ _ _
        (opMul_contract B hB m c hc q hq (ctxSqr true B m c q cur).1 base)
      have hmul := Approx.mul_exact hε0 hε1 hsq hm
      have e : (base.toRat B) ^ (2 * acc + 1) = (base.toRat B) ^ acc * (base.toRat B) ^ acc * base.toRat B := by
        rw [pow_succ, two_mul, pow_add]
      rw [e]
      exact hmul

theorem reprRound_normalized (B : Nat) (hB : 2 ≤ B) (m : Mode) (c : Coarse) (p : Nat) (r : FRepr)
    (hn : Normalized B r) : Normalized B (reprRound B m c p r).1 := by
  unfold reprRound
  by_cases hp : p = 0
  · simp only [hp, if_true]; exact hn
  · simp only [hp, if_false]
    by_cases hd : r.digits B > p
    · simp only [hd, if_true]; exact FRepr.new_normalized B hB _ _
    · simp only [hd, if_false]; exact hn

theorem ctxSqr_normalized (fixed : Bool) (B : Nat) (hB : 2 ≤ B) (m : Mode) (c : Coarse) (q : Nat) (a : FRepr) :
    Normalized B (ctxSqr fixed B m c q a).1 := by
  unfold ctxSqr
  exact reprRound_normalized B hB m c q _ (FRepr.new_normalized B hB _ _)

theorem ctxMul_normalized (fixed : Bool) (B : Nat) (hB : 2 ≤ B) (m : Mode) (c : Coarse) (q : Nat) (a b : FRepr) :
    Normalized B (ctxMul fixed B m c q a b).1 := by
  unfold ctxMul
  exact reprRound_normalized B hB m c q _ (FRepr.new_normalized B hB _ _)

/-- the code as it is (with the pre-shrink of over-long operands) runs the same loop as long as the base has
    at most `2q` digits (always true for an `FBig`, whose digits do not exceed its precision `≤ q`) -/
theorem powLoop_asis (B : Nat) (hB : 2 ≤ B) (m : Mode) (c : Coarse) (q : Nat) (hq : 1 ≤ q) (base : FRepr)
    (hbase : base.digits B ≤ 2 * q) :
    ∀ (bs : List Bool) (cur : FRepr), cur.digits B ≤ 2 * q →
      powLoop false B m c q base bs cur = powLoop true B m c q base bs cur := by
  intro bs
  induction bs with
  | nil => intro cur _; rfl
  | cons b bs ih =>
    intro cur hcur
    simp only [powLoop]
    rw [ctxSqr_asis B m c q cur hcur]
    have hs : (ctxSqr true B m c q cur).1.digits B ≤ q := ctxSqr_digits_le true B hB m c q hq cur
    cases b with
    | false =>
      simp only [Bool.false_eq_true, if_false]
      exact ih _ (by omega)
    | true =>
      simp only [if_true]
      rw [ctxMul_asis B m c q _ base (by omega) hbase]
      exact ih _ (by have := ctxMul_digits_le true B hB m c q hq (ctxSqr true B m c q cur).1 base; omega)

theorem powLoop_normalized (fixed : Bool) (B : Nat) (hB : 2 ≤ B) (m : Mode) (c : Coarse) (q : Nat) (base : FRepr) :
    ∀ (bs : List Bool) (cur : FRepr), Normalized B cur → Normalized B (powLoop fixed B m c q base bs cur) := by
  intro bs
  induction bs with
  | nil => intro cur h; exact h
  | cons b bs ih =>
    intro cur _
    simp only [powLoop]
    apply ih
    cases b with
    | false => simp only [Bool.false_eq_true, if_false]; exact ctxSqr_normalized fixed B hB m c q cur
    | true => simp only [if_true]; exact ctxMul_normalized fixed B hB m c q _ base

theorem bitLen_pos (p : Nat) (hp : 1 ≤ p) : 1 ≤ bitLen p := by
  unfold bitLen; split <;> omega

/-- **Error bound of `powi` with a non-negative exponent** `n = bitsVal bs 1` (bit length `L = bs.length + 1`),
    precision `p ≥ 1`, working precision `p + L + bit_len p` as in the source:
    the working value `y` is within relative distance `B^(2 − p − bit_len p)` of `base^n`, and the result is the
    correct mode-`m` rounding of `y` to `p` digits (C03 contract). -/
theorem powi_nonneg_error (B : Nat) (hB : 2 ≤ B) (m : Mode) (c : Coarse) (hc : CoarseSound c) (p : Nat) (hp : 1 ≤ p)
    (base : FRepr) (hn : Normalized B base) (bs : List Bool)
    (hbase : base.digits B ≤ 2 * powiWorkPrec p bs) :
    |(powiNonneg false B m c p base bs).1.toRat B - (base.toRat B) ^ (bitsVal bs 1)|
        ≤ bpowQ B (2 - (p : Int) - (bitLen p : Int)) * |(base.toRat B) ^ (bitsVal bs 1)| ∧
    Contract B m p ((powiNonneg false B m c p base bs).1.toRat B)
      ((powiNonneg false B m c p base bs).2.1.toRat B) (powiNonneg false B m c p base bs).2.2 := by
  have hB0 : 0 < B := by omega
  set q := powiWorkPrec p bs with hq
  have hq1 : 1 ≤ q := by rw [hq]; unfold powiWorkPrec; omega
  have hbl := bitLen_pos p hp
  unfold powiNonneg
  simp only []
  rw [← hq, powLoop_asis B hB m c q hq1 base hbase bs base hbase]
  constructor
  · have h0 : Approx (bpowQ B (1 - (q : Int))) 0 (base.toRat B) ((base.toRat B) ^ 1) := by
      simpa using Approx.refl _ (base.toRat B)
    have hA := powLoop_approx B hB m c hc q hq1 base bs base 0 1 h0
    have hε0 : 0 ≤ bpowQ B (1 - (q : Int)) := (bpowQ_pos B hB0 _).le
    have hε1 := bpow_eps_le_one B hB q hq1
    -- 2·K·ε ≤ B^(2 − p − bl p)
    have hK : errCount bs 0 + 2 ≤ 2 ^ bs.length * 2 := by simpa using errCount_le bs 0
    have hKq : (2 : ℚ) * (errCount bs 0 : ℚ) ≤ (2 : ℚ) ^ (bs.length + 2) := by
      have : 2 * errCount bs 0 ≤ 2 ^ (bs.length + 2) := by
        rw [pow_succ, pow_succ]; omega
      exact_mod_cast this
    have h2B : (2 : ℚ) ^ (bs.length + 2) ≤ (B : ℚ) ^ (bs.length + 2) :=
      pow_le_pow_left₀ (by norm_num) (by exact_mod_cast hB) _
    have hsplit : bpowQ B (2 - (p : Int) - (bitLen p : Int)) =
        bpowQ B ((bs.length + 2 : ℕ) : Int) * bpowQ B (1 - (q : Int)) := by
      rw [← bpowQ_add B hB0]; congr 1
      rw [hq]; unfold powiWorkPrec; push_cast; ring
    have hnat : bpowQ B ((bs.length + 2 : ℕ) : Int) = (B : ℚ) ^ (bs.length + 2) := by
      rw [bpowQ_nat]; push_cast; rfl
    have hbound : 2 * (errCount bs 0 : ℚ) * bpowQ B (1 - (q : Int)) ≤ bpowQ B (2 - (p : Int) - (bitLen p : Int)) := by
      rw [hsplit, hnat]
      exact mul_le_mul_of_nonneg_right (le_trans hKq h2B) hε0
    have hle1 : bpowQ B (2 - (p : Int) - (bitLen p : Int)) ≤ 1 := by
      rw [bpowQ_eq_zpow]
      have hB1 : (1 : ℚ) ≤ (B : ℚ) := by exact_mod_cast (by omega : 1 ≤ B)
      exact zpow_le_one_of_nonpos₀ hB1 (by omega)
    have := Approx.abs_sub_le hε0 hε1 (le_trans hbound hle1) hA
    exact le_trans this (mul_le_mul_of_nonneg_right hbound (abs_nonneg _))
  · exact reprRound_contract B hB m c hc p hp _ (powLoop_normalized true B hB m c q base bs base hn)

/-- Nearest modes: a correct half-mode rounding `r` of a working value `y` that is within relative distance
    `κ` of the true value `X`, with `3·κ·B^p ≤ 1`, is LESS THAN ONE ULP from `X` — for every unit `B^E` that is
    an ulp of `r` or coarser (`|r| < B^(E+p)`; `E = r.exp + digits r − p` is dashu's `ulp()`). -/
theorem half_lt_ulp (B : Nat) (hB : 2 ≤ B) (m : Mode) (hm : m.isHalf = true) (p : Nat) (hp : 1 ≤ p)
    (y r X κ : ℚ) (flag : Option Rounding) (hc : Contract B m p y r flag)
    (hκ0 : 0 ≤ κ) (hyX : |y - X| ≤ κ * |X|) (hθ : 3 * (κ * (B : ℚ) ^ p) ≤ 1)
    (E : Int) (hE : |r| < bpowQ B (E + p)) : |r - X| < bpowQ B E := by
  have hB0 : 0 < B := by omega
  have hBq : (2 : ℚ) ≤ (B : ℚ) := by exact_mod_cast hB
  have hB1 : (1 : ℚ) ≤ (B : ℚ) := by linarith
  set u := bpowQ B E with hu
  have hupos : 0 < u := bpowQ_pos B hB0 E
  have hP : (2 : ℚ) ≤ (B : ℚ) ^ p := by
    calc (2 : ℚ) ≤ (B : ℚ) ^ 1 := by simpa using hBq
      _ ≤ (B : ℚ) ^ p := pow_le_pow_right₀ hB1 hp
  have hEp : bpowQ B (E + p) = (B : ℚ) ^ p * u := by
    rw [bpowQ_add B hB0, bpowQ_nat, mul_comm]; push_cast; rfl
  rw [hEp] at hE
  -- the rounding error is at most half a unit
  have hry : |r - y| ≤ u / 2 := by
    by_cases hne : r = y
    · rw [hne]; simp; positivity
    · obtain ⟨e, h1, h2, t, ht⟩ := hc.err hne
      unfold errOk at h2
      rw [if_pos hm, absQ_eq] at h2
      rw [absQ_eq] at h1
      have hepos := bpowQ_pos B hB0 e
      -- e ≤ E
      have heE : bpowQ B e ≤ u := by
        by_contra hcon
        have hlt : E < e := by
          by_contra hle
          apply hcon
          rw [hu, bpowQ_eq_zpow, bpowQ_eq_zpow]
          exact zpow_le_zpow_right₀ hB1 (by omega)
        -- then B^(E+p) ≤ B^(e+p-1)
        have hmono : (B : ℚ) ^ p * u ≤ bpowQ B (e + p - 1) := by
          rw [← hEp, bpowQ_eq_zpow, bpowQ_eq_zpow]
          exact zpow_le_zpow_right₀ hB1 (by omega)
        -- |t| < B^(p-1), so |t| ≤ B^(p-1) - 1
        have hsplit : bpowQ B (e + p - 1) = ((B ^ (p - 1) : ℕ) : ℚ) * bpowQ B e := by
          rw [show e + (p : Int) - 1 = ((p - 1 : ℕ) : Int) + e from by omega, bpowQ_add B hB0, bpowQ_nat]
        have hrt : |r| = |(t : ℚ)| * bpowQ B e := by rw [ht, abs_mul, abs_of_pos hepos]
        have htlt : |(t : ℚ)| * bpowQ B e < ((B ^ (p - 1) : ℕ) : ℚ) * bpowQ B e := by
          rw [← hrt, ← hsplit]; exact lt_of_lt_of_le hE hmono
        have htlt' : |(t : ℚ)| < ((B ^ (p - 1) : ℕ) : ℚ) := lt_of_mul_lt_mul_right htlt hepos.le
        have htint : |t| < ((B ^ (p - 1) : ℕ) : ℤ) := by exact_mod_cast htlt'
        have htle : |(t : ℚ)| ≤ ((B ^ (p - 1) : ℕ) : ℚ) - 1 := by
          have : |t| ≤ ((B ^ (p - 1) : ℕ) : ℤ) - 1 := by omega
          exact_mod_cast this
        have hrle : |r| ≤ bpowQ B (e + p - 1) - bpowQ B e := by
          rw [hrt, hsplit]
          nlinarith [mul_le_mul_of_nonneg_right htle hepos.le]
        have hyle : |y| ≤ |r| + |r - y| := by
          have := abs_sub_abs_le_abs_sub y r
          rw [abs_sub_comm y r] at this
          linarith
        linarith
      linarith
  -- |X| is not much larger than |r|
  have hκ6 : κ ≤ 1 / 6 := by nlinarith
  have hXle : |X| * (1 - κ) ≤ |y| := by
    have := abs_sub_abs_le_abs_sub X y
    rw [abs_sub_comm X y] at this
    nlinarith
  have hyle : |y| ≤ |r| + u / 2 := by
    have := abs_sub_abs_le_abs_sub y r
    rw [abs_sub_comm y r] at this
    linarith
  have hXub : |X| * (1 - κ) < ((B : ℚ) ^ p + 1 / 2) * u := by nlinarith
  have hκX : κ * |X| < u / 2 := by
    rcases eq_or_lt_of_le hκ0 with h0 | hpos
    · rw [← h0]; simp; positivity
    · have h2 : κ * (|X| * (1 - κ)) < κ * (((B : ℚ) ^ p + 1 / 2) * u) :=
        mul_lt_mul_of_pos_left hXub hpos
      have h3 : κ * ((B : ℚ) ^ p + 1 / 2) ≤ 1 / 3 + 1 / 12 := by nlinarith
      have h3' : κ * (((B : ℚ) ^ p + 1 / 2) * u) ≤ (1 / 3 + 1 / 12) * u := by
        have := mul_le_mul_of_nonneg_right h3 hupos.le
        linarith
      have h5 : (5 : ℚ) / 6 ≤ 1 - κ := by linarith
      have hX0 : 0 ≤ κ * |X| := mul_nonneg hκ0 (abs_nonneg X)
      have h6 : κ * |X| * (5 / 6) ≤ κ * |X| * (1 - κ) := mul_le_mul_of_nonneg_left h5 hX0
      have h7 : κ * |X| * (1 - κ) = κ * (|X| * (1 - κ)) := by ring
      linarith
  calc |r - X| = |(r - y) + (y - X)| := by ring_nf
    _ ≤ |r - y| + |y - X| := abs_add_le _ _
    _ ≤ u / 2 + κ * |X| := add_le_add hry hyX
    _ < u / 2 + u / 2 := by linarith
    _ = u := by ring

/-- the value of a float is below `B^(exp + digits)` -/
theorem toRat_abs_lt (B : Nat) (hB : 2 ≤ B) (r : FRepr) :
    |r.toRat B| < bpowQ B (r.exp + (r.digits B : Int)) := by
  have hB0 : 0 < B := by omega
  unfold FRepr.toRat
  rw [abs_mul, abs_of_pos (bpowQ_pos B hB0 _), add_comm, bpowQ_add B hB0, bpowQ_nat]
  apply mul_lt_mul_of_pos_right _ (bpowQ_pos B hB0 _)
  have := digitsI_abs_lt B hB r.signif
  unfold FRepr.digits
  have h2 : ((|r.signif| : ℤ) : ℚ) < (((B ^ digitsI B r.signif : ℕ) : ℤ) : ℚ) := by exact_mod_cast this
  simpa using h2

/-- **`powi`, non-negative exponent, nearest modes: less than one ulp.**  With the guard digits of the source
    (`exp.bit_len + precision.bit_len`) and `3·B^(2 − bit_len p) ≤ 1` (`p ≥ 8` in base 2, `p ≥ 4` otherwise)
    the result is less than one `ulp()` of itself away from `base^n`. -/
theorem powi_nonneg_half_lt_ulp (B : Nat) (hB : 2 ≤ B) (m : Mode) (hm : m.isHalf = true) (c : Coarse)
    (hc : CoarseSound c) (p : Nat) (hp : 1 ≤ p) (hθ : 3 * bpowQ B (2 - (bitLen p : Int)) ≤ 1)
    (base : FRepr) (hn : Normalized B base) (bs : List Bool)
    (hbase : base.digits B ≤ 2 * powiWorkPrec p bs) :
    let r := (powiNonneg false B m c p base bs).2.1
    |r.toRat B - (base.toRat B) ^ (bitsVal bs 1)| < bpowQ B (r.exp + (r.digits B : Int) - (p : Int)) := by
  intro r
  have hB0 : 0 < B := by omega
  obtain ⟨h1, h2⟩ := powi_nonneg_error B hB m c hc p hp base hn bs hbase
  have hκθ : bpowQ B (2 - (p : Int) - (bitLen p : Int)) * (B : ℚ) ^ p = bpowQ B (2 - (bitLen p : Int)) := by
    have : (B : ℚ) ^ p = bpowQ B (p : Int) := by rw [bpowQ_nat]; push_cast; rfl
    rw [this, ← bpowQ_add B hB0]; congr 1; ring
  refine half_lt_ulp B hB m hm p hp _ _ _ _ _ h2 (bpowQ_pos B hB0 _).le h1 (by rw [hκθ]; exact hθ) _ ?_
  have := toRat_abs_lt B hB r
  have e : r.exp + (r.digits B : Int) - (p : Int) + (p : Int) = r.exp + (r.digits B : Int) := by ring
  rw [e]; exact this

/-! ### the bit list of an exponent -/

theorem bitsVal_range (n : Nat) : ∀ (k acc : Nat),
    bitsVal (((List.range k).reverse).map fun i => n.testBit i) acc = acc * 2 ^ k + n % 2 ^ k := by
  intro k
  induction k with
  | zero => intro acc; simp [bitsVal, Nat.mod_one]
  | succ k ih =>
    intro acc
    rw [List.range_succ, List.reverse_append]
    simp only [List.reverse_cons, List.reverse_nil, List.nil_append, List.singleton_append, List.map_cons, bitsVal]
    rw [ih, Nat.mod_pow_succ, Nat.testBit_eq_decide_div_mod_eq]
    have h2 : n / 2 ^ k % 2 = 0 ∨ n / 2 ^ k % 2 = 1 := by omega
    rcases h2 with h | h <;> simp [h, pow_succ] <;> ring

theorem bitsVal_lowBits (n : Nat) (hn : 1 ≤ n) : bitsVal (lowBits n) 1 = n := by
  unfold lowBits
  rw [bitsVal_range]
  unfold bitLen
  have hn0 : n ≠ 0 := by omega
  simp only [hn0, if_false, Nat.add_sub_cancel]
  have h1 := Nat.log2_self_le hn0
  have h2 : n < 2 ^ (n.log2 + 1) := Nat.lt_log2_self
  have h3 : n / 2 ^ n.log2 = 1 := by
    apply Nat.div_eq_of_lt_le
    · simpa using h1
    · rw [pow_succ] at h2; omega
  have := Nat.div_add_mod n (2 ^ n.log2)
  rw [h3] at this
  omega

theorem lowBits_length (n : Nat) : (lowBits n).length + 1 = max (bitLen n) 1 := by
  unfold lowBits; simp; omega
end Dashu.Model.Trans
