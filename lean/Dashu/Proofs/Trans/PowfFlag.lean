import Dashu.Proofs.Trans.Series
namespace Dashu.Proofs.Trans.PowfFlag
open Dashu.Model.Float Dashu.Model.Trans Dashu.Proofs.Trans.Series

theorem andThenFlag_none (a b : Option Rounding) (h : andThenFlag a b = none) : a = none ∧ b = none := by
  unfold andThenFlag at h
  cases b with
  | none => exact ⟨h, rfl⟩
  | some e => simp at h

theorem powfBody_flag (fuel : Nat) (E : Env) (p : Nat) (base exp : FRepr) (v : FBigM) (tr : Trace)
    (h : powfBody fuel E p base exp = .ok ((v, none), tr)) :
    (base.signif == 1 && base.exp == 0) = true := by
  unfold powfBody at h
  simp only [bind, Except.bind, pure, Except.pure] at h
  split at h
  · simp at h
  · rename_i l hl
    split at h
    · simp at h
    · rename_i e' he
      simp only [Except.ok.injEq, Prod.mk.injEq] at h
      obtain ⟨⟨_, hfl⟩, _⟩ := h
      have h1 := (andThenFlag_none _ _ hfl).1
      have h2 := (andThenFlag_none _ _ h1).1
      have h3 := (andThenFlag_none _ _ h2).1
      obtain ⟨⟨lv, lf⟩, ltr⟩ := l
      simp only at h3
      subst h3
      have := lnFull_flag fuel E _ base false lv ltr hl
      simpa using this

end Dashu.Proofs.Trans.PowfFlag
