import Dashu.Model.Trans.PowiNeg
import Dashu.Proofs.Trans.Powi
import Dashu.Proofs.Float.Div
/-
  Error bound of `Context::powi` with a NEGATIVE exponent (reversed context, inner non-negative power,
  reciprocal, final rounding), from the C03 contracts and `powi_nonneg_error`.
-/
namespace Dashu.Model.Trans
open Dashu.Model.Float

theorem reprDiv_normalized (B : Nat) (hB : 2 ≤ B) (m : Mode) (p : Nat) (l r : FRepr) (v : Rounded FRepr)
    (h : reprDiv B m p l r = .ok v) : Normalized B v.1 := by
  unfold reprDiv at h
  try simp only [shlDigits_eq, shrDigits_eq] at h
  split_ifs at h <;> first
    | (cases h; exact FRepr.new_normalized B hB _ _)
    | (cases h)

/-- two relative errors compose -/
theorem near_trans {r a c ε κ : ℚ} (hε : 0 ≤ ε) (h1 : |r - a| ≤ ε * |a|) (h2 : |a - c| ≤ κ * |c|) :
    |r - c| ≤ (ε + κ + ε * κ) * |c| := by
  have ha : |a| ≤ (1 + κ) * |c| := by
    have := abs_sub_abs_le_abs_sub a c
    linarith
  have h3 : ε * |a| ≤ ε * ((1 + κ) * |c|) := mul_le_mul_of_nonneg_left ha hε
  calc |r - c| = |(r - a) + (a - c)| := by ring_nf
    _ ≤ |r - a| + |a - c| := abs_add_le _ _
    _ ≤ ε * ((1 + κ) * |c|) + κ * |c| := by linarith
    _ = (ε + κ + ε * κ) * |c| := by ring

/-- the reciprocal of an approximation: relative error at most doubled (for `κ ≤ 1/2`) -/
theorem near_inv {a b κ : ℚ} (hκ : 0 ≤ κ) (hκ2 : κ ≤ 1 / 2) (h : |a - b| ≤ κ * |b|) :
    |1 / a - 1 / b| ≤ 2 * κ * |1 / b| := by
  by_cases hb : b = 0
  · subst hb
    have h0 : |a - 0| ≤ 0 := by simpa using h
    have ha : a = 0 := by simpa using abs_eq_zero.mp (le_antisymm h0 (abs_nonneg _))
    subst ha; simp
  · have hbpos : 0 < |b| := abs_pos.mpr hb
    have hab : (1 - κ) * |b| ≤ |a| := by
      have := abs_sub_abs_le_abs_sub b a
      rw [abs_sub_comm b a] at this
      linarith
    have hapos : 0 < |a| := lt_of_lt_of_le (by nlinarith) hab
    have ha : a ≠ 0 := abs_pos.mp hapos
    have e : 1 / a - 1 / b = (b - a) / (a * b) := by field_simp
    rw [e, abs_div, abs_mul, abs_sub_comm b a, abs_div, abs_one, div_le_iff₀ (mul_pos hapos hbpos)]
    have : 2 * κ * (1 / |b|) * (|a| * |b|) = 2 * κ * |a| := by field_simp
    rw [this]
    have hb2 : |b| ≤ 2 * |a| := by nlinarith
    have := mul_le_mul_of_nonneg_left hb2 hκ
    linarith

theorem bpowQ_le_of_le (B : Nat) (hB : 2 ≤ B) {a b : Int} (h : a ≤ b) : bpowQ B a ≤ bpowQ B b := by
  rw [bpowQ_eq_zpow, bpowQ_eq_zpow]
  exact zpow_le_zpow_right₀ (by exact_mod_cast (by omega : 1 ≤ B)) h

theorem bpowQ_neg5_le (B : Nat) (hB : 2 ≤ B) : bpowQ B (-5) ≤ 1 / 32 := by
  rw [bpowQ_eq_zpow]
  have hB2 : (2 : ℚ) ≤ (B : ℚ) := by exact_mod_cast hB
  have h5 : (32 : ℚ) ≤ (B : ℚ) ^ (5 : ℕ) := by
    calc (32 : ℚ) = 2 ^ 5 := by norm_num
      _ ≤ (B : ℚ) ^ 5 := pow_le_pow_left₀ (by norm_num) hB2 5
  have hpos : (0 : ℚ) < (B : ℚ) ^ (5 : ℕ) := by positivity
  rw [show (-5 : Int) = -((5 : ℕ) : Int) from rfl, zpow_neg, zpow_natCast, one_div]
  exact inv_anti₀ (by norm_num) h5

theorem toRat_ne_zero (B : Nat) (hB : 2 ≤ B) (r : FRepr) (h : r.signif ≠ 0) : r.toRat B ≠ 0 := by
  unfold FRepr.toRat
  exact mul_ne_zero (by exact_mod_cast h) (bpowQ_pos B (by omega) _).ne'

theorem signif_ne_zero_of_toRat (B : Nat) (r : FRepr) (h : r.toRat B ≠ 0) : r.signif ≠ 0 := by
  intro h0; apply h; unfold FRepr.toRat; simp [h0]

/-- **Error of `powi` with a negative exponent `-n`** (`n ≥ 1`, `p ≥ 2`, base ≠ 0): the value `inv` handed to the
    final rounding is within relative distance `8·B^(1 − p − 2·bit_len p)` of `base^(-n)`, and the result is the
    correct mode-`m` rounding of `inv` to `p` digits. -/
theorem powi_neg_error (B : Nat) (hB : 2 ≤ B) (m : Mode) (c : Coarse) (hc : CoarseSound c) (p : Nat) (hp : 2 ≤ p)
    (base : FRepr) (hn : Normalized B base) (hb0 : base.signif ≠ 0) (n : Nat) (hn1 : 1 ≤ n)
    (hbase : base.digits B ≤ 2 * powiWorkPrec (powiNegPrec p) (lowBits n)) :
    ∃ pow inv out, powiNeg false B m c p base n = .ok (pow, inv, out) ∧
      |inv.toRat B - 1 / (base.toRat B) ^ n|
        ≤ 8 * bpowQ B (1 - (powiNegPrec p : Int)) * |1 / (base.toRat B) ^ n| ∧
      Contract B m p (inv.toRat B) (out.1.toRat B) out.2 := by
  have hB0 : 0 < B := by omega
  have hbl : 2 ≤ bitLen p := by
    unfold bitLen
    have : p ≠ 0 := by omega
    simp only [this, if_false]
    have : 1 ≤ p.log2 := by
      have h2 : 2 ^ 1 ≤ p := by omega
      exact (Nat.le_log2 (by omega)).mpr h2
    omega
  set p' := powiNegPrec p with hp'
  have hp'6 : 6 ≤ p' := by rw [hp']; unfold powiNegPrec; omega
  have hp'1 : 1 ≤ p' := by omega
  obtain ⟨h1, h2⟩ := Dashu.Model.Trans.powi_nonneg_error B hB (revMode m) c hc p' hp'1 base hn (lowBits n) hbase
  rw [bitsVal_lowBits n hn1] at h1
  set X := (base.toRat B) ^ n with hX
  have hX0 : X ≠ 0 := pow_ne_zero n (toRat_ne_zero B hB base hb0)
  have hXpos : 0 < |X| := abs_pos.mpr hX0
  set y := (powiNonneg false B (revMode m) c p' base (lowBits n)).1.toRat B with hy
  set pow := (powiNonneg false B (revMode m) c p' base (lowBits n)).2.1 with hpow
  set ε := bpowQ B (1 - (p' : Int)) with hε
  have hε0 : 0 ≤ ε := (bpowQ_pos B hB0 _).le
  have hε32 : ε ≤ 1 / 32 := le_trans (bpowQ_le_of_le B hB (by omega)) (bpowQ_neg5_le B hB)
  have hκ0 : bpowQ B (2 - (p' : Int) - (bitLen p' : Int)) ≤ ε := by
    have := bitLen_pos p' hp'1
    exact bpowQ_le_of_le B hB (by omega)
  have hκ00 : 0 ≤ bpowQ B (2 - (p' : Int) - (bitLen p' : Int)) := (bpowQ_pos B hB0 _).le
  have hpy := near_of_contract B hB (revMode m) p' _ _ _ h2
  have hpX := near_trans hε0 hpy h1
  set κ1 := ε + bpowQ B (2 - (p' : Int) - (bitLen p' : Int)) + ε * bpowQ B (2 - (p' : Int) - (bitLen p' : Int)) with hκ1
  have hκ1le : κ1 ≤ 3 * ε := by nlinarith
  have hκ1nn : 0 ≤ κ1 := by positivity
  have hpow0 : pow.toRat B ≠ 0 := by
    intro h0
    rw [h0] at hpX
    simp only [zero_sub, abs_neg] at hpX
    nlinarith
  have hsig := signif_ne_zero_of_toRat B pow hpow0
  obtain ⟨rdiv, hdiv, hcdiv⟩ := reprDiv_contract B hB (revMode m) p' hp'1 ⟨1, 0⟩ pow hsig
  have hone : (⟨1, 0⟩ : FRepr).toRat B = 1 := by
    unfold FRepr.toRat; simp [bpowQ]
  rw [hone] at hcdiv
  have hinv1 := near_of_contract B hB (revMode m) p' _ _ _ hcdiv
  have hinv2 := near_inv hκ1nn (by linarith) hpX
  have hinv := near_trans hε0 hinv1 hinv2
  refine ⟨pow, rdiv.1, reprRound B m c p rdiv.1, ?_, ?_, ?_⟩
  · unfold powiNeg
    simp only []
    rw [← hp', ← hpow, hdiv]
  · refine le_trans hinv (mul_le_mul_of_nonneg_right ?_ (abs_nonneg _))
    nlinarith
  · exact reprRound_contract B hB m c hc p (by omega) _ (reprDiv_normalized B hB _ _ _ _ _ hdiv)

/-- **negative exponent, nearest modes: less than one ulp** when `24·B^(1 − 2·bit_len p) ≤ 1`
    (`p ≥ 4` in base 2, `p ≥ 2` in every other base). -/
theorem powi_neg_half_lt_ulp (B : Nat) (hB : 2 ≤ B) (m : Mode) (hm : m.isHalf = true) (c : Coarse)
    (hc : CoarseSound c) (p : Nat) (hp : 2 ≤ p) (hθ : 24 * bpowQ B (1 - 2 * (bitLen p : Int)) ≤ 1)
    (base : FRepr) (hn : Normalized B base) (hb0 : base.signif ≠ 0) (n : Nat) (hn1 : 1 ≤ n)
    (hbase : base.digits B ≤ 2 * powiWorkPrec (powiNegPrec p) (lowBits n)) :
    ∃ pow inv out, powiNeg false B m c p base n = .ok (pow, inv, out) ∧
      |out.1.toRat B - 1 / (base.toRat B) ^ n| < bpowQ B (out.1.exp + (out.1.digits B : Int) - (p : Int)) := by
  have hB0 : 0 < B := by omega
  obtain ⟨pow, inv, out, h0, h1, h2⟩ := powi_neg_error B hB m c hc p hp base hn hb0 n hn1 hbase
  refine ⟨pow, inv, out, h0, ?_⟩
  have hκθ : 8 * bpowQ B (1 - (powiNegPrec p : Int)) * (B : ℚ) ^ p = 8 * bpowQ B (1 - 2 * (bitLen p : Int)) := by
    have : (B : ℚ) ^ p = bpowQ B (p : Int) := by rw [bpowQ_nat]; push_cast; rfl
    rw [this, mul_assoc, ← bpowQ_add B hB0]
    congr 2
    unfold powiNegPrec; push_cast; ring
  refine half_lt_ulp B hB m hm p (by omega) _ _ _ _ _ h2
    (mul_nonneg (by norm_num) (bpowQ_pos B hB0 _).le) h1 (by rw [hκθ]; linarith) _ ?_
  have := toRat_abs_lt B hB out.1
  have e : out.1.exp + (out.1.digits B : Int) - (p : Int) + (p : Int) = out.1.exp + (out.1.digits B : Int) := by ring
  rw [e]; exact this

end Dashu.Model.Trans
