import Dashu.Proofs.Trans.Powi
import Dashu.Proofs.Float.Arith
/-
  C11 statement review (c): `Context::powi` with a NON-negative exponent `n ≥ 2` at UNLIMITED precision
  (`self.precision = 0`): the `else` arm `Context::<R>::new(0)` of `let work_context = if self.is_limited() {…}`
  (`float/src/exp.rs`) runs the same binary-powering loop at working precision 0, where `Context::sqr` /
  `Context::mul` / `with_precision` do not round (`repr_round`: `if p = 0 then (r, none)`; the pre-shrink of
  `mul.rs` is guarded by `p ≠ 0`).  So the mirrored loop `powLoop … 0 …` returns EXACTLY `base^n`, every step and
  the final `with_precision(0)` flagged `Exact`.
-/
namespace Dashu.Model.Trans
open Dashu.Model.Float

/-- `Context::new(0).sqr(f)`: the exact square, flagged Exact (with or without the pre-shrink) -/
theorem ctxSqr_unlimited (fixed : Bool) (B : Nat) (hB : 0 < B) (m : Mode) (c : Coarse) (f : FRepr) :
    (ctxSqr fixed B m c 0 f).1.toRat B = f.toRat B * f.toRat B ∧ (ctxSqr fixed B m c 0 f).2 = none := by
  have h2 : (2 : Int) * f.exp = f.exp + f.exp := by omega
  cases fixed <;> simp [ctxSqr, preShrink, reprRound, h2, toRat_mul B hB]

/-- `Context::new(0).mul(a, b)`: the exact product, flagged Exact -/
theorem ctxMul_unlimited (fixed : Bool) (B : Nat) (hB : 0 < B) (m : Mode) (c : Coarse) (a b : FRepr) :
    (ctxMul fixed B m c 0 a b).1.toRat B = a.toRat B * b.toRat B ∧ (ctxMul fixed B m c 0 a b).2 = none := by
  cases fixed <;> simp [ctxMul, preShrink, reprRound, toRat_mul B hB]

/-- invariant of the loop at working precision 0: no error is ever introduced -/
theorem powLoop_unlimited (fixed : Bool) (B : Nat) (hB : 0 < B) (m : Mode) (c : Coarse) (base : FRepr) :
    ∀ (bs : List Bool) (cur : FRepr) (acc : Nat), cur.toRat B = (base.toRat B) ^ acc →
      (powLoop fixed B m c 0 base bs cur).toRat B = (base.toRat B) ^ (bitsVal bs acc) := by
  intro bs
  induction bs with
  | nil => intro cur acc h; simpa [powLoop, bitsVal] using h
  | cons b bs ih =>
    intro cur acc h
    simp only [powLoop, bitsVal]
    apply ih
    cases b with
    | false =>
      simp only [Bool.false_eq_true, if_false, Nat.add_zero]
      rw [(ctxSqr_unlimited fixed B hB m c cur).1, h]; ring
    | true =>
      simp only [if_true]
      rw [(ctxMul_unlimited fixed B hB m c _ base).1, (ctxSqr_unlimited fixed B hB m c cur).1, h]; ring

/-- `Context::new(0).powi(base, n)`, `n ≥ 1` given by its bits: the loop returns exactly `base^n`, and the closing
    `with_precision(0)` (`repr_round` at precision 0) returns it unchanged, flagged Exact -/
theorem powi_unlimited_exact (fixed : Bool) (B : Nat) (hB : 0 < B) (m : Mode) (c : Coarse) (base : FRepr)
    (n : Nat) (hn : 1 ≤ n) :
    (powLoop fixed B m c 0 base (lowBits n) base).toRat B = (base.toRat B) ^ n ∧
    reprRound B m c 0 (powLoop fixed B m c 0 base (lowBits n) base)
      = (powLoop fixed B m c 0 base (lowBits n) base, none) := by
  refine ⟨?_, by simp [reprRound]⟩
  have h := powLoop_unlimited fixed B hB m c base (lowBits n) base 1 (by simp)
  rwa [bitsVal_lowBits n hn] at h

/-- non-vacuity / the loop as run: `(3·10⁻¹)^5 = 243·10⁻⁵` at precision 0, mode Down, code as it is -/
example : powLoop false 10 .down coarseNone 0 ⟨3, -1⟩ (lowBits 5) ⟨3, -1⟩ = ⟨243, -5⟩ := by decide +kernel

end Dashu.Model.Trans
