import Dashu.Proofs.Trans.Log
import Mathlib.Analysis.SpecialFunctions.Pow.Real
/-
  The closed formulas that `float/src/exp.rs` and `float/src/log.rs` evaluate are exact identities of real
  analysis (what remains between them and the returned float is rounding and series truncation only):

  * `ln2`   : log 2  = 4·L(6) + 2·L(99)                     (`Context::ln2`)
  * `ln10`  : log 10 = 3·log 2 + 2·L(9)                      (`Context::ln10`)
  * `iacoth`: L(n) = atanh(1/n) = ½·log((n+1)/(n−1)) = Σ 1/((2i+1)·n^(2i+1))     (`Context::iacoth`)
  * `ln_internal`: log x = 2·atanh((x'−1)/(x'+1)) + s·log 2 with x' = x/2^s;  log(1+x) = 2·atanh(x/(x+2))
  * `exp_internal`: exp x = B^s · (exp r)^(B^n) with r = (x − s·log B)/B^n
-/
namespace Dashu.Model.Trans
open Real

/-- `L(n) = acoth n = atanh (1/n) = ½ log((n+1)/(n−1))` -/
noncomputable def acothL (n : ℝ) : ℝ := (Real.log (n + 1) - Real.log (n - 1)) / 2

theorem acothL_eq_atanhL (n : ℝ) (hn : 1 < n) : acothL n = atanhL (1 / n) / 2 := by
  unfold acothL atanhL
  have hn0 : (0 : ℝ) < n := by linarith
  have e1 : 1 + 1 / n = (n + 1) / n := by field_simp
  have e2 : 1 - 1 / n = (n - 1) / n := by field_simp
  rw [e1, e2, Real.log_div (by linarith) hn0.ne', Real.log_div (by linarith) hn0.ne']
  ring

/-- the series summed by `Context::iacoth` -/
theorem iacoth_series (n : ℝ) (hn : 1 < n) :
    HasSum (fun i : ℕ => 1 / ((2 * (i : ℝ) + 1) * n ^ (2 * i + 1))) (acothL n) := by
  have hn0 : (0 : ℝ) < n := by linarith
  have hx : |1 / n| < 1 := by
    rw [abs_of_pos (by positivity)]; rw [div_lt_one hn0]; exact hn
  have h := (Real.hasSum_log_sub_log_of_abs_lt_one hx).div_const 2
  have e : acothL n = (Real.log (1 + 1 / n) - Real.log (1 - 1 / n)) / 2 := by
    rw [acothL_eq_atanhL n hn]; rfl
  rw [e]
  have hfun : (fun i : ℕ => 1 / ((2 * (i : ℝ) + 1) * n ^ (2 * i + 1)))
      = fun i : ℕ => 2 * (1 / (2 * (i : ℝ) + 1)) * (1 / n) ^ (2 * i + 1) / 2 := by
    funext i
    have h1 : (2 * (i : ℝ) + 1) ≠ 0 := by positivity
    have h2 : n ^ (2 * i + 1) ≠ 0 := by positivity
    rw [one_div_pow]
    field_simp
  rw [hfun]
  exact h

/-- `Context::ln2`: log 2 = 4 L(6) + 2 L(99) -/
theorem ln2_formula : Real.log 2 = 4 * acothL 6 + 2 * acothL 99 := by
  unfold acothL
  have h7 : Real.log (6 + 1) = Real.log 7 := by norm_num
  have h5 : Real.log (6 - 1) = Real.log 5 := by norm_num
  have h100 : Real.log (99 + 1) = 2 * Real.log 2 + 2 * Real.log 5 := by
    have : (99 + 1 : ℝ) = 2 ^ 2 * 5 ^ 2 := by norm_num
    rw [this, Real.log_mul (by norm_num) (by norm_num), Real.log_pow, Real.log_pow]; push_cast; ring
  have h98 : Real.log (99 - 1) = Real.log 2 + 2 * Real.log 7 := by
    have : (99 - 1 : ℝ) = 2 * 7 ^ 2 := by norm_num
    rw [this, Real.log_mul (by norm_num) (by norm_num), Real.log_pow]; push_cast; ring
  rw [h7, h5, h100, h98]; ring

/-- `Context::ln10`: log 10 = 3 log 2 + 2 L(9) -/
theorem ln10_formula : Real.log 10 = 3 * Real.log 2 + 2 * acothL 9 := by
  unfold acothL
  have h10 : Real.log (9 + 1) = Real.log 10 := by norm_num
  have h8 : Real.log (9 - 1) = 3 * Real.log 2 := by
    have : (9 - 1 : ℝ) = 2 ^ 3 := by norm_num
    rw [this, Real.log_pow]; push_cast; ring
  rw [h10, h8]; ring

/-- `ln_internal`, scaled path: log x = 2·atanh(z) + s·log 2, z = (x' − 1)/(x' + 1), x' = x / 2^s ≥ 1
    (`atanhL z = 2 atanh z = log((1+z)/(1−z))`) -/
theorem ln_reduction (x : ℝ) (hx : 0 < x) (s : ℤ) (hs : 1 ≤ x / (2 : ℝ) ^ s) :
    Real.log x = atanhL ((x / (2 : ℝ) ^ s - 1) / (x / (2 : ℝ) ^ s + 1)) + s * Real.log 2 := by
  have h2 : (0 : ℝ) < (2 : ℝ) ^ s := zpow_pos (by norm_num) s
  rw [atanhL_eq_log hs, Real.log_div hx.ne' h2.ne', Real.log_zpow]
  ring

/-- `ln_internal`, unscaled `ln_1p` path: log(1 + x) = 2·atanh(x / (x + 2)) for x > −1 -/
theorem ln_1p_reduction (x : ℝ) (hx : -1 < x) : Real.log (1 + x) = atanhL (x / (x + 2)) := by
  unfold atanhL
  have h2 : (0 : ℝ) < x + 2 := by linarith
  have e1 : 1 + x / (x + 2) = (2 * (1 + x)) / (x + 2) := by field_simp; ring
  have e2 : 1 - x / (x + 2) = 2 / (x + 2) := by field_simp; ring
  rw [e1, e2, Real.log_div (by linarith) h2.ne', Real.log_div (by norm_num) h2.ne',
    Real.log_mul (by norm_num) (by linarith)]
  ring

/-- `exp_internal`: exp x = B^s · (exp r)^(B^n) with r = (x − s·log B) / B^n -/
theorem exp_reduction (B : ℕ) (hB : 0 < B) (x : ℝ) (s : ℤ) (n : ℕ) :
    Real.exp x = (B : ℝ) ^ s * Real.exp ((x - s * Real.log B) / (B : ℝ) ^ n) ^ (B ^ n) := by
  have hB' : (0 : ℝ) < (B : ℝ) := by exact_mod_cast hB
  have hpow : ((B ^ n : ℕ) : ℝ) = (B : ℝ) ^ n := by push_cast; rfl
  rw [← Real.exp_nat_mul, hpow]
  have hne : ((B : ℝ) ^ n) ≠ 0 := by positivity
  rw [mul_div_cancel₀ _ hne, Real.exp_sub, mul_comm (s : ℝ), ← Real.rpow_def_of_pos hB', Real.rpow_intCast]
  have hz : (B : ℝ) ^ s ≠ 0 := (zpow_pos hB' s).ne'
  field_simp

end Dashu.Model.Trans
