import Dashu.Proofs.Trans.PowfFlag
import Dashu.Proofs.Trans.SeriesBound
namespace Dashu.Proofs.Trans.PowfOne
open Dashu.Model.Float Dashu.Model.Trans Dashu.Proofs.Trans.Series Dashu.Proofs.Trans.SeriesBound

/-- `powf(1, y)` through the mirrored body: `ln 1 = 0` exactly, `0·y = 0`, `exp 0 = 1`, `with_precision`: the result is `1`,
    flagged `Exact` -/
theorem powfBody_base_one (fuel : Nat) (E : Env) (hB : 2 ≤ E.B) (p : Nat) (hp : 1 ≤ p) (exp : FRepr) :
    powfBody fuel E p ⟨1, 0⟩ exp =
      .ok ((⟨⟨1, 0⟩, p⟩, none), ⟨p + powfGuardDigits E.est p ⟨1, 0⟩ exp, 0⟩) := by
  have hp0 : p ≠ 0 := by omega
  have hd1 : digitsI E.B 1 = 1 := digitsI_one E.B hB
  have hln : ∀ w, lnFull fuel E w ⟨1, 0⟩ false = .ok ((FBigM.zero, none), ⟨0, 0⟩) := by
    intro w; simp [lnFull, FRepr.isZero]
  unfold powfBody
  simp only [bind, Except.bind, pure, Except.pure, hln]
  have hz : ∀ w, (ctxMul false E.B E.m E.c w FBigM.zero.repr exp).1 = ⟨0, 0⟩ := by
    intro w
    simp [ctxMul, preShrink, FBigM.zero, FRepr.digits, digitsI_zero, FRepr.new, reprRound]
  have hz2 : ∀ w, (ctxMul false E.B E.m E.c w FBigM.zero.repr exp).2 = none := by
    intro w
    simp [ctxMul, preShrink, FBigM.zero, FRepr.digits, digitsI_zero, FRepr.new, reprRound]
  have hpp : 0 < p := by omega
  have hnl : ¬ (p < 1) := by omega
  simp [hz, hz2, expFull, FRepr.isZero, fWithPrecision, FBigM.one, reprRound, FRepr.digits, hd1, andThenFlag, hp0, hpp, hnl]


/-- `powf` (mirror behind its guards) flagged `Exact` ⇒ the base is `1` and the result is `1 = 1^y`: Exact only if exact -/
theorem powfBody_exact_is_exact (fuel : Nat) (E : Env) (hB : 2 ≤ E.B) (p : Nat) (hp : 1 ≤ p) (base exp : FRepr)
    (v : FBigM) (tr : Trace) (h : powfBody fuel E p base exp = .ok ((v, none), tr)) :
    base = ⟨1, 0⟩ ∧ v = ⟨⟨1, 0⟩, p⟩ := by
  have hb := Dashu.Proofs.Trans.PowfFlag.powfBody_flag fuel E p base exp v tr h
  have hbase : base = ⟨1, 0⟩ := by
    obtain ⟨s, e⟩ := base
    simp only [Bool.and_eq_true, beq_iff_eq] at hb
    obtain ⟨h1, h2⟩ := hb
    subst h1; subst h2; rfl
  subst hbase
  rw [powfBody_base_one fuel E hB p hp exp] at h
  simp only [Except.ok.injEq, Prod.mk.injEq] at h
  exact ⟨rfl, h.1.1.symm⟩

end Dashu.Proofs.Trans.PowfOne
