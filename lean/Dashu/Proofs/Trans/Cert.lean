import Dashu.Model.Trans.Cert
import Dashu.Proofs.Trans.Exp
import Dashu.Proofs.Trans.Log
import Mathlib.Analysis.SpecialFunctions.Pow.Real
/-
  Soundness of the certificate test of `Dashu/Model/Trans/Cert.lean`, for all inputs:
  a `certified` verdict implies `|r − v| < ulp ∧ (Exact → r = v)`, a `violation` verdict implies
  the negation, where `v` is the true real value (`Real.exp`, `Real.log`, `Real.rpow`, `zpow`).
-/
namespace Dashu.Model.Trans

/-- what C11 requires of a result `r` with tolerance `u` and flag `exact` for the true value `v`:
    less than one ulp away (or equal: a zero result has no ulp), and flagged Exact only if equal -/
def Within (r u : ℚ) (exact : Bool) (v : ℝ) : Prop :=
  (|(r : ℝ) - v| < (u : ℝ) ∨ (r : ℝ) = v) ∧ (exact = true → (r : ℝ) = v)

/-- `Encloses e v`: the rational pair brackets the real `v` -/
def Encloses (e : ℚ × ℚ) (v : ℝ) : Prop := (e.1 : ℝ) ≤ v ∧ v ≤ (e.2 : ℝ)

theorem eq_of_point {lo hi r : ℚ} {v : ℝ} (h1 : (lo : ℝ) ≤ v) (h2 : v ≤ (hi : ℝ)) (c : lo = r ∧ hi = r) :
    (r : ℝ) = v := by
  obtain ⟨c1, c2⟩ := c
  have c1' : (lo : ℝ) = (r : ℝ) := by exact_mod_cast c1
  have c2' : (hi : ℝ) = (r : ℝ) := by exact_mod_cast c2
  linarith [le_antisymm (c2' ▸ h2) (c1' ▸ h1)]

theorem judge_certified {lo hi r u : ℚ} {exact : Bool} {v : ℝ} (hv : Encloses (lo, hi) v)
    (h : judge lo hi r u exact = .certified) : Within r u exact v := by
  unfold judge at h
  split_ifs at h with hc
  obtain ⟨ab, c⟩ := hc
  obtain ⟨h1, h2⟩ := hv
  simp only at h1 h2
  refine ⟨?_, fun he => eq_of_point h1 h2 (c he)⟩
  rcases ab with ⟨a, b⟩ | c'
  · left
    have a' : (r : ℝ) - (u : ℝ) < (lo : ℝ) := by exact_mod_cast a
    have b' : (hi : ℝ) < (r : ℝ) + (u : ℝ) := by exact_mod_cast b
    rw [abs_lt]; constructor <;> linarith
  · right; exact eq_of_point h1 h2 c'

theorem ne_of_distinct {lo hi r : ℚ} {v : ℝ} (h1 : (lo : ℝ) ≤ v) (h2 : v ≤ (hi : ℝ)) (d : r < lo ∨ hi < r) :
    (r : ℝ) ≠ v := by
  rcases d with d | d
  · have : (r : ℝ) < (lo : ℝ) := by exact_mod_cast d
    intro h; linarith
  · have : (hi : ℝ) < (r : ℝ) := by exact_mod_cast d
    intro h; linarith

theorem judge_violation {lo hi r u : ℚ} {exact : Bool} {v : ℝ} (hv : Encloses (lo, hi) v)
    (h : judge lo hi r u exact = .violation) : ¬ Within r u exact v := by
  unfold judge at h
  split_ifs at h with hc hd
  obtain ⟨h1, h2⟩ := hv
  simp only at h1 h2
  rintro ⟨w1, w2⟩
  rcases hd with ⟨far, dist⟩ | ⟨he, dist⟩
  · rcases w1 with w1 | w1
    · rw [abs_lt] at w1
      rcases far with d | d
      · have : (hi : ℝ) ≤ (r : ℝ) - (u : ℝ) := by exact_mod_cast d
        linarith
      · have : (r : ℝ) + (u : ℝ) ≤ (lo : ℝ) := by exact_mod_cast d
        linarith
    · exact ne_of_distinct h1 h2 dist w1
  · exact ne_of_distinct h1 h2 dist (w2 he)

theorem refine_sound (encl : ℕ → ℚ × ℚ) (r u : ℚ) (exact : Bool) (v : ℝ)
    (hencl : ∀ n, Encloses (encl n) v) :
    ∀ fuel n, ((refine encl r u exact fuel n).1 = .certified → Within r u exact v) ∧
      ((refine encl r u exact fuel n).1 = .violation → ¬ Within r u exact v) := by
  intro fuel
  induction fuel with
  | zero => intro n; simp [refine]
  | succ f ih =>
    intro n
    simp only [refine]
    cases hj : judge (encl n).1 (encl n).2 r u exact with
    | certified =>
      simp only
      exact ⟨fun _ => judge_certified (hencl n) hj, (by intro h; cases h)⟩
    | violation =>
      simp only
      exact ⟨(by intro h; cases h), fun _ => judge_violation (hencl n) hj⟩
    | undecided =>
      simp only
      exact ih _

/-! ### enclosures of the individual functions -/

theorem expEncl_encloses (x : ℚ) (n : ℕ) : Encloses (expEncl x n) (Real.exp (x : ℝ)) :=
  expEncl_sound x n

theorem lnEncl_encloses (x : ℚ) (hx : 0 < x) (n : ℕ) : Encloses (lnEncl x n) (Real.log (x : ℝ)) :=
  lnEncl_sound x n hx

theorem expm1Encl_encloses (x : ℚ) (n : ℕ) : Encloses (expm1Encl x n) (Real.exp (x : ℝ) - 1) := by
  obtain ⟨h1, h2⟩ := expEncl_sound x n
  unfold expm1Encl Encloses
  push_cast
  constructor <;> linarith

theorem scaleRat_sound (y : ℚ) (e : ℚ × ℚ) (v : ℝ) (h : Encloses e v) :
    Encloses (scaleRat y e) ((y : ℝ) * v) := by
  obtain ⟨h1, h2⟩ := h
  unfold scaleRat Encloses
  by_cases hy : 0 ≤ y
  · rw [if_pos hy]
    have hy' : (0 : ℝ) ≤ (y : ℝ) := by exact_mod_cast hy
    push_cast
    exact ⟨mul_le_mul_of_nonneg_left h1 hy', mul_le_mul_of_nonneg_left h2 hy'⟩
  · rw [if_neg hy]
    have hy' : (y : ℝ) ≤ 0 := by exact_mod_cast (le_of_lt (not_le.mp hy))
    push_cast
    exact ⟨mul_le_mul_of_nonpos_left h2 hy', mul_le_mul_of_nonpos_left h1 hy'⟩

/-- monotone composition: an enclosure of the argument gives an enclosure of its exponential -/
theorem exp_of_encl (a : ℚ × ℚ) (w : ℝ) (h : Encloses a w) (n1 n2 : ℕ) :
    Encloses ((expEncl a.1 n1).1, (expEncl a.2 n2).2) (Real.exp w) := by
  obtain ⟨h1, h2⟩ := h
  exact ⟨le_trans (expEncl_sound a.1 n1).1 (Real.exp_le_exp.mpr h1),
    le_trans (Real.exp_le_exp.mpr h2) (expEncl_sound a.2 n2).2⟩

theorem powfEncl_encloses (x y : ℚ) (hx : 0 < x) (n : ℕ) :
    Encloses (powfEncl x y n) ((x : ℝ) ^ (y : ℝ)) := by
  have hx' : (0 : ℝ) < (x : ℝ) := by exact_mod_cast hx
  rw [Real.rpow_def_of_pos hx', mul_comm]
  unfold powfEncl
  exact exp_of_encl _ _ (scaleRat_sound y _ _ (lnEncl_sound x _ hx)) _ _

theorem sub_encl (a l : ℚ × ℚ) (w t : ℝ) (ha : Encloses a w) (hl : Encloses l t) :
    Encloses (a.1 - l.2, a.2 - l.1) (w - t) := by
  obtain ⟨a1, a2⟩ := ha
  obtain ⟨l1, l2⟩ := hl
  unfold Encloses
  push_cast
  constructor <;> linarith

theorem exp_sub_int_mul_log (B : ℕ) (hB : 0 < B) (w : ℝ) (e : ℤ) :
    Real.exp (w - (e : ℝ) * Real.log (B : ℝ)) = Real.exp w / (B : ℝ) ^ e := by
  have hB' : (0 : ℝ) < (B : ℝ) := by exact_mod_cast hB
  rw [Real.exp_sub, mul_comm, ← Real.rpow_def_of_pos hB', Real.rpow_intCast]

theorem subLogs_sound (B : ℕ) (hB : 0 < B) (a : ℚ × ℚ) (w : ℝ) (ha : Encloses a w) (e : ℤ) (n : ℕ) :
    Encloses (subLogs B a e n) (w - (e : ℝ) * Real.log (B : ℝ)) := by
  have hBq : (0 : ℚ) < (B : ℚ) := by exact_mod_cast hB
  unfold subLogs
  have hl := scaleInt_sound e _ _ (lnEncl_sound (B : ℚ) (n + e.natAbs.log2 + 3) hBq).1
    (lnEncl_sound (B : ℚ) (n + e.natAbs.log2 + 3) hBq).2
  have hl' : Encloses (scaleInt e (lnEncl (B : ℚ) (n + e.natAbs.log2 + 3))) ((e : ℝ) * Real.log (B : ℝ)) := by
    simpa [Encloses] using hl
  exact sub_encl a _ _ _ ha hl'

theorem expScaledEncl_encloses (B : ℕ) (hB : 0 < B) (x : ℚ) (e : ℤ) (n : ℕ) :
    Encloses (expScaledEncl B x e n) (Real.exp (x : ℝ) / (B : ℝ) ^ e) := by
  rw [← exp_sub_int_mul_log B hB]
  unfold expScaledEncl
  have hx : Encloses ((x, x) : ℚ × ℚ) (x : ℝ) := ⟨le_refl _, le_refl _⟩
  exact exp_of_encl _ _ (subLogs_sound B hB _ _ hx e n) _ _

theorem powfScaledEncl_encloses (B : ℕ) (hB : 0 < B) (x y : ℚ) (hx : 0 < x) (e : ℤ) (n : ℕ) :
    Encloses (powfScaledEncl B x y e n) ((x : ℝ) ^ (y : ℝ) / (B : ℝ) ^ e) := by
  have hx' : (0 : ℝ) < (x : ℝ) := by exact_mod_cast hx
  rw [Real.rpow_def_of_pos hx', mul_comm, ← exp_sub_int_mul_log B hB]
  unfold powfScaledEncl
  exact exp_of_encl _ _ (subLogs_sound B hB _ _ (scaleRat_sound y _ _ (lnEncl_sound x _ hx)) e n) _ _

theorem le_absQ (q : ℚ) : q ≤ absQ q := by
  unfold absQ; split_ifs with h
  · exact le_refl _
  · linarith [not_le.mp h]

theorem absQ_nonneg (q : ℚ) : 0 ≤ absQ q := by
  unfold absQ; split_ifs with h
  · exact h
  · linarith [not_le.mp h]

theorem lt_two_pow_magBound' (r u : ℚ) :
    ((absQ r : ℚ) : ℝ) + ((absQ u : ℚ) : ℝ) < (2 : ℝ) ^ magBound r u := by
  unfold magBound
  have h0 : 0 ≤ absQ r + absQ u := add_nonneg (absQ_nonneg r) (absQ_nonneg u)
  have h1 := lt_floorNat_succ _ h0
  have h2 : floorNat (absQ r + absQ u) + 1 < 2 ^ ((floorNat (absQ r + absQ u) + 1).log2 + 1) :=
    Nat.lt_log2_self
  have h3 : ((floorNat (absQ r + absQ u) + 1 : ℕ) : ℚ)
      < ((2 ^ ((floorNat (absQ r + absQ u) + 1).log2 + 1) : ℕ) : ℚ) := by exact_mod_cast h2
  have h4 := lt_trans h1 h3
  have h5 : ((absQ r + absQ u : ℚ) : ℝ) < (((2 ^ ((floorNat (absQ r + absQ u) + 1).log2 + 1) : ℕ) : ℚ) : ℝ) := by
    exact_mod_cast h4
  push_cast at h5
  exact h5

theorem lt_two_pow_magBound (r u : ℚ) : (r : ℝ) + (u : ℝ) < (2 : ℝ) ^ magBound r u := by
  unfold magBound
  have h0 : 0 ≤ absQ r + absQ u := add_nonneg (absQ_nonneg r) (absQ_nonneg u)
  have h1 := lt_floorNat_succ _ h0
  have h2 : floorNat (absQ r + absQ u) + 1 < 2 ^ ((floorNat (absQ r + absQ u) + 1).log2 + 1) :=
    Nat.lt_log2_self
  have h3 : ((floorNat (absQ r + absQ u) + 1 : ℕ) : ℚ)
      < ((2 ^ ((floorNat (absQ r + absQ u) + 1).log2 + 1) : ℕ) : ℚ) := by exact_mod_cast h2
  have h4 : r + u < ((2 ^ ((floorNat (absQ r + absQ u) + 1).log2 + 1) : ℕ) : ℚ) :=
    lt_of_le_of_lt (add_le_add (le_absQ r) (le_absQ u)) (lt_trans h1 h3)
  have h5 : ((r + u : ℚ) : ℝ) < (((2 ^ ((floorNat (absQ r + absQ u) + 1).log2 + 1) : ℕ) : ℚ) : ℝ) := by
    exact_mod_cast h4
  push_cast at h5
  exact h5

/-- the cheap pre-test of the scaled certificates is a proof of violation -/
theorem tooBig_violation (w : ℚ × ℚ) (W : ℝ) (hw : Encloses w W) (r u : ℚ) (exact : Bool)
    (h : tooBig w r u = true) : ¬ Within r u exact (Real.exp W) := by
  unfold tooBig at h
  have hk : ((magBound r u : ℕ) : ℚ) ≤ w.1 := of_decide_eq_true h
  have hk' : ((magBound r u : ℕ) : ℝ) ≤ W := le_trans (by exact_mod_cast hk) hw.1
  have h1 : (2 : ℝ) ^ magBound r u ≤ Real.exp W :=
    le_trans (two_pow_le_exp _) (Real.exp_le_exp.mpr hk')
  have h2 := lt_two_pow_magBound r u
  rintro ⟨hw1, _⟩
  rcases hw1 with hw1 | hw1
  · rw [abs_lt] at hw1
    linarith
  · have hu : (0 : ℝ) ≤ (u : ℝ) ∨ (u : ℝ) < 0 := le_or_gt 0 _
    have hr : (r : ℝ) ≤ ((absQ r : ℚ) : ℝ) := by exact_mod_cast le_absQ r
    have hua : (0 : ℝ) ≤ ((absQ u : ℚ) : ℝ) := by exact_mod_cast absQ_nonneg u
    have h3 := lt_two_pow_magBound' r u
    linarith

/-- `x = s^b` with `b = y.den`: then `x^y = s^(y.num)` -/
theorem rpow_of_root (s x y : ℚ) (hs : 0 < s) (hx : s ^ y.den = x) :
    (x : ℝ) ^ (y : ℝ) = (s : ℝ) ^ y.num := by
  have hs' : (0 : ℝ) < (s : ℝ) := by exact_mod_cast hs
  have hd : ((y.den : ℕ) : ℝ) ≠ 0 := by exact_mod_cast y.den_ne_zero
  have hxr : (x : ℝ) = (s : ℝ) ^ ((y.den : ℕ) : ℝ) := by
    rw [Real.rpow_natCast, ← hx]; push_cast; rfl
  rw [hxr, ← Real.rpow_mul hs'.le, ← Real.rpow_intCast]
  congr 1
  have hy : (y : ℝ) = (y.num : ℝ) / (y.den : ℝ) := by
    have := Rat.num_div_den y
    rw [← this]
    push_cast
    simp [Rat.num_div_den]
  rw [hy]; field_simp

/-! ### from the scaled comparison back to the unscaled statement -/

theorem fval_cast (B : ℕ) (sig e : ℤ) : ((fval B sig e : ℚ) : ℝ) = (sig : ℝ) * (B : ℝ) ^ e := by
  unfold fval; push_cast; rfl

theorem ulp_eq_scaled (B : ℕ) (hB : 0 < B) (sig e : ℤ) (p : ℕ) :
    ((ulp B sig e p : ℚ) : ℝ) = ((ulpScaled B sig p : ℚ) : ℝ) * (B : ℝ) ^ e := by
  have hB' : (B : ℝ) ≠ 0 := by exact_mod_cast hB.ne'
  unfold ulp ulpScaled
  by_cases hs : sig = 0
  · simp [hs]
  · rw [if_neg hs, if_neg hs]
    push_cast
    rw [← zpow_add₀ hB']
    congr 1; ring

theorem scaled_eq_iff (B : ℕ) (hB : 0 < B) (sig e : ℤ) (V : ℝ) :
    (((sig : ℚ) : ℝ) = V / (B : ℝ) ^ e) ↔ (((fval B sig e : ℚ) : ℝ) = V) := by
  have hB' : (0 : ℝ) < (B : ℝ) := by exact_mod_cast hB
  have hpow : (0 : ℝ) < (B : ℝ) ^ e := zpow_pos hB' e
  rw [fval_cast]
  push_cast
  constructor
  · intro h; rw [h]; field_simp
  · intro h; rw [← h]; field_simp

theorem scaled_lt_iff (B : ℕ) (hB : 0 < B) (sig e : ℤ) (p : ℕ) (V : ℝ) :
    (|((sig : ℚ) : ℝ) - V / (B : ℝ) ^ e| < ((ulpScaled B sig p : ℚ) : ℝ)) ↔
    (|((fval B sig e : ℚ) : ℝ) - V| < ((ulp B sig e p : ℚ) : ℝ)) := by
  have hB' : (0 : ℝ) < (B : ℝ) := by exact_mod_cast hB
  have hpow : (0 : ℝ) < (B : ℝ) ^ e := zpow_pos hB' e
  rw [fval_cast, ulp_eq_scaled B hB]
  have e1 : (sig : ℝ) * (B : ℝ) ^ e - V = (((sig : ℚ) : ℝ) - V / (B : ℝ) ^ e) * (B : ℝ) ^ e := by
    push_cast; field_simp
  rw [e1, abs_mul, abs_of_pos hpow]
  exact (mul_lt_mul_iff_left₀ hpow).symm

/-- a scaled certificate is a certificate, and conversely -/
theorem within_scaled_iff (B : ℕ) (hB : 0 < B) (sig e : ℤ) (p : ℕ) (exact : Bool) (V : ℝ) :
    Within (sig : ℚ) (ulpScaled B sig p) exact (V / (B : ℝ) ^ e) ↔
    Within (fval B sig e) (ulp B sig e p) exact V := by
  unfold Within
  rw [scaled_lt_iff B hB, scaled_eq_iff B hB]

theorem within_of_scaled (B : ℕ) (hB : 0 < B) (sig e : ℤ) (p : ℕ) (exact : Bool) (V : ℝ)
    (h : Within (sig : ℚ) (ulpScaled B sig p) exact (V / (B : ℝ) ^ e)) :
    Within (fval B sig e) (ulp B sig e p) exact V := (within_scaled_iff B hB sig e p exact V).mp h

theorem scaled_of_within (B : ℕ) (hB : 0 < B) (sig e : ℤ) (p : ℕ) (exact : Bool) (V : ℝ)
    (h : Within (fval B sig e) (ulp B sig e p) exact V) :
    Within (sig : ℚ) (ulpScaled B sig p) exact (V / (B : ℝ) ^ e) := (within_scaled_iff B hB sig e p exact V).mpr h

end Dashu.Model.Trans
