import Dashu.Proofs.Trans.IacothSum
/-
  C11 (round 6) — the atanh loop of `ln_internal` has the recursion of the loop of `iacoth` (only the stop test differs):
  for a positive `z` its returned partial sum carries the accumulated error bound of `IacothSum.iaSum_error`.
-/
namespace Dashu.Proofs.Trans.LnSum
open Dashu.Model.Float Dashu.Model.Trans Dashu.Proofs.Trans.SeriesBound Dashu.Proofs.Trans.SumStage
open Dashu.Proofs.Trans.IacothSum

theorem lnLoop_unfold (E : Env) (w : Nat) (z2 : FBigM) (fuel : Nat) (pw sm : FBigM) (k : Nat) :
    lnLoop E w z2 (fuel + 1) pw sm k =
      match fDiv E (fMul E pw z2) (fConvertInt E w (k : Int)) with
      | .error e => .error e
      | .ok increase =>
        if reprAbsCmp E.B increase.repr (fSubUlp E sm) ≠ .gt then .ok (some (sm, k))
        else lnLoop E w z2 fuel (fMul E pw z2) (fAddSub E sm increase 1) (k + 2) := rfl

/-- whatever the atanh loop returns from a state of its own trajectory is one of the `iaSum`s (with `inv := z`,
    `inv2 := z2`), with the matching `k` -/
theorem lnLoop_result (E : Env) (w : Nat) (z z2 : FBigM) : ∀ (fuel i : Nat) (res : FBigM × Nat),
    lnLoop E w z2 fuel (iaPow E z z2 i) (iaSum E w z z2 i) (2 * i + 3) = .ok (some res) →
    ∃ j, i ≤ j ∧ res = (iaSum E w z z2 j, 2 * j + 3) := by
  intro fuel
  induction fuel with
  | zero => intro i res h; simp [lnLoop] at h
  | succ fuel ih =>
    intro i res h
    rw [lnLoop_unfold] at h
    cases hd : iaInc E w z z2 i with
    | error e =>
      simp only [iaInc, iaPow] at hd
      rw [hd] at h
      simp at h
    | ok inc =>
      have hS : iaSum E w z z2 (i + 1) = fAddSub E (iaSum E w z z2 i) inc 1 := by
        simp only [iaSum, hd]
      simp only [iaInc, iaPow] at hd
      rw [hd] at h
      simp only at h
      split at h
      · injection h with h; injection h with h
        exact ⟨i, le_refl _, h.symm⟩
      · have e : 2 * i + 3 + 2 = 2 * (i + 1) + 3 := by omega
        rw [e, ← hS] at h
        obtain ⟨j, hj, hres⟩ := ih (i + 1) res h
        exact ⟨j, by omega, hres⟩

/-- **what the atanh loop of `ln_internal` returns** for a positive `z` (`x_scaled > 1`), from its entry state
    (`pow = sum = z`, `k = 3`), any fuel: `k = 2j + 3` and `sum = Σ_{l ≤ j} z·z2^l/(2l+1)` up to `2j + 4` accumulated relative
    errors `B^(1−w)` -/
theorem lnLoop_result_error (E : Env) (hB : 2 ≤ E.B) (hc : CoarseSound E.c) (hdub : DubSound E.B E.est.dub)
    (z z2 : FBigM) (w : Nat) (hw2 : 2 ≤ w) (h1 : z.prec = w) (h2 : z2.prec = w) (hz : 0 < z.repr.signif)
    (hz2 : 0 < z2.repr.signif) (fuel : Nat) (res : FBigM × Nat)
    (h : lnLoop E w z2 fuel z z 3 = .ok (some res)) :
    ∃ j, res.2 = 2 * j + 3 ∧ 0 < val E.B res.1 ∧
      Approx (bpowQ E.B (1 - (w : Int))) (2 * j + 4) (val E.B res.1) (iaPartial (val E.B z) (val E.B z2) j) := by
  obtain ⟨j, _, hres⟩ := lnLoop_result E w z z2 fuel 0 res h
  subst hres
  have := iaSum_error E hB hc z z2 w (by omega) h1 h2 hz hz2 hdub hw2 j
  exact ⟨j, rfl, lt_of_lt_of_le (bpowQ_pos E.B (by omega) _) this.1, this.2.2⟩

end Dashu.Proofs.Trans.LnSum
