import Dashu.Proofs.Trans.Grid
import Mathlib.Analysis.SpecialFunctions.Log.Deriv
import Mathlib.Analysis.SpecialFunctions.Log.Basic
import Mathlib.Analysis.SpecificLimits.Basic
/-
  Soundness of the logarithm enclosure `lnEncl` of `Dashu/Model/Trans/Encl.lean`:

      (lnEncl x n).1 ≤ Real.log x ≤ (lnEncl x n).2      for every rational x > 0, every n.
-/
namespace Dashu.Model.Trans

open Finset

/-! ### analytic part: `L z = log (1+z) - log (1-z) = 2 atanh z` -/

/-- `log (1+z) - log (1-z)` -/
noncomputable def atanhL (z : ℝ) : ℝ := Real.log (1 + z) - Real.log (1 - z)

/-- partial sum `Σ_{j<N} z^(2j+1)/(2j+1)` of the `atanh` series -/
def atanhSum {K : Type} [Field K] (z : K) (N : ℕ) : K :=
  ∑ j ∈ range N, z ^ (2 * j + 1) / ((2 * j + 1 : ℕ) : K)

theorem atanhSum_succ {K : Type} [Field K] (z : K) (N : ℕ) :
    atanhSum z (N + 1) = atanhSum z N + z ^ (2 * N + 1) / ((2 * N + 1 : ℕ) : K) := by
  unfold atanhSum; rw [sum_range_succ]

theorem atanhSum_cast (z : ℚ) (N : ℕ) : ((atanhSum z N : ℚ) : ℝ) = atanhSum (z : ℝ) N := by
  unfold atanhSum; push_cast; rfl

theorem atanhSum_term_eq (z : ℝ) (N : ℕ) :
    ∑ k ∈ range N, (2 : ℝ) * (1 / (2 * k + 1)) * z ^ (2 * k + 1) = 2 * atanhSum z N := by
  unfold atanhSum
  rw [mul_sum]
  apply sum_congr rfl
  intro k _
  push_cast
  ring

/-- (a) partial sums are lower bounds -/
theorem atanhSum_le_L {z : ℝ} (h0 : 0 ≤ z) (h1 : z < 1) (N : ℕ) : 2 * atanhSum z N ≤ atanhL z := by
  have h := Real.hasSum_log_sub_log_of_abs_lt_one (x := z) (by rw [abs_of_nonneg h0]; exact h1)
  have := sum_le_hasSum (range N) (fun i _ => by positivity) h
  rw [atanhSum_term_eq] at this
  exact this

/-- (b) partial sum plus geometric tail is an upper bound -/
theorem L_le_atanhSum_add {z : ℝ} (h0 : 0 ≤ z) (h1 : z < 1) (N : ℕ) :
    atanhL z ≤ 2 * atanhSum z N + 2 * z ^ (2 * N + 1) / (((2 * N + 1 : ℕ) : ℝ) * (1 - z ^ 2)) := by
  have h := Real.hasSum_log_sub_log_of_abs_lt_one (x := z) (by rw [abs_of_nonneg h0]; exact h1)
  have h' := (hasSum_nat_add_iff' N).mpr h
  rw [atanhSum_term_eq] at h'
  have hz2 : z ^ 2 < 1 := by nlinarith
  have hz2' : 0 ≤ z ^ 2 := by positivity
  have geo := (hasSum_geometric_of_lt_one hz2' hz2).mul_left (2 * z ^ (2 * N + 1) / ((2 * N + 1 : ℕ) : ℝ))
  have hle := hasSum_le (fun i => ?_) h' geo
  · have e : 2 * z ^ (2 * N + 1) / ((2 * N + 1 : ℕ) : ℝ) * (1 - z ^ 2)⁻¹
        = 2 * z ^ (2 * N + 1) / (((2 * N + 1 : ℕ) : ℝ) * (1 - z ^ 2)) := by
      have hne : (1 - z ^ 2) ≠ 0 := by linarith
      have hne' : ((2 * N + 1 : ℕ) : ℝ) ≠ 0 := by positivity
      field_simp
    rw [e] at hle
    show Real.log (1 + z) - Real.log (1 - z) ≤ _
    linarith
  · -- termwise comparison
    have hp : z ^ (2 * (i + N) + 1) = z ^ (2 * N + 1) * (z ^ 2) ^ i := by
      rw [← pow_mul, ← pow_add]; congr 1; ring
    rw [hp]
    have hN : (0 : ℝ) < ((2 * N + 1 : ℕ) : ℝ) := by positivity
    have hd : (1 : ℝ) / (2 * ((i + N : ℕ) : ℝ) + 1) ≤ 1 / ((2 * N + 1 : ℕ) : ℝ) := by
      apply one_div_le_one_div_of_le hN
      push_cast
      have : (0 : ℝ) ≤ (i : ℝ) := by positivity
      linarith
    have hnn : (0 : ℝ) ≤ z ^ (2 * N + 1) * (z ^ 2) ^ i := by positivity
    calc 2 * (1 / (2 * ((i + N : ℕ) : ℝ) + 1)) * (z ^ (2 * N + 1) * (z ^ 2) ^ i)
        ≤ 2 * (1 / ((2 * N + 1 : ℕ) : ℝ)) * (z ^ (2 * N + 1) * (z ^ 2) ^ i) := by
          apply mul_le_mul_of_nonneg_right _ hnn
          linarith
      _ = 2 * z ^ (2 * N + 1) / ((2 * N + 1 : ℕ) : ℝ) * (z ^ 2) ^ i := by ring

/-- (c) monotonicity on `[0, 1)` -/
theorem atanhL_mono {a b : ℝ} (ha : 0 ≤ a) (hab : a ≤ b) (hb : b < 1) : atanhL a ≤ atanhL b := by
  unfold atanhL
  have h1 : Real.log (1 + a) ≤ Real.log (1 + b) := Real.log_le_log (by linarith) (by linarith)
  have h2 : Real.log (1 - b) ≤ Real.log (1 - a) := Real.log_le_log (by linarith) (by linarith)
  linarith

/-- (d) `log t = L ((t-1)/(t+1))` -/
theorem atanhL_eq_log {t : ℝ} (ht : 1 ≤ t) : atanhL ((t - 1) / (t + 1)) = Real.log t := by
  unfold atanhL
  have hp : (0 : ℝ) < t + 1 := by linarith
  have e1 : 1 + (t - 1) / (t + 1) = 2 * t / (t + 1) := by field_simp; ring
  have e2 : 1 - (t - 1) / (t + 1) = 2 / (t + 1) := by field_simp; ring
  have ht0 : t ≠ 0 := by linarith
  rw [e1, e2, ← Real.log_div (by positivity) (by positivity)]
  congr 1
  field_simp

/-! ### the rounded series -/

theorem atanhSeries_inv (m : ℕ) (zl zu zl2 zu2 : ℚ) (hzl : 0 ≤ zl) (hzu : 0 ≤ zu)
    (hl2 : 0 ≤ zl2) (hl2' : zl2 ≤ zl ^ 2) (hu2 : zu ^ 2 ≤ zu2) :
    ∀ (f i : ℕ) (pl pu sl su : ℚ), 0 ≤ pl → pl ≤ zl ^ (2 * i + 1) → zu ^ (2 * i + 1) ≤ pu →
      sl ≤ atanhSum zl i → atanhSum zu i ≤ su →
      (atanhSeries m zl2 zu2 f i pl pu sl su).1 ≤ atanhSum zl (i + f) ∧
      atanhSum zu (i + f) ≤ (atanhSeries m zl2 zu2 f i pl pu sl su).2.1 ∧
      zu ^ (2 * (i + f) + 1) ≤ (atanhSeries m zl2 zu2 f i pl pu sl su).2.2 := by
  intro f
  induction f with
  | zero =>
    intro i pl pu sl su _ _ hpu hsl hsu
    simp only [atanhSeries, Nat.add_zero]
    exact ⟨hsl, hsu, hpu⟩
  | succ f ih =>
    intro i pl pu sl su hpl0 hpl hpu hsl hsu
    have hpu0 : 0 ≤ pu := le_trans (by positivity) hpu
    have hzu2 : 0 ≤ zu2 := le_trans (by positivity) hu2
    have hi : (0 : ℚ) < ((2 * i + 1 : ℕ) : ℚ) := by positivity
    have e : i + (f + 1) = (i + 1) + f := by omega
    rw [e]
    simp only [atanhSeries]
    apply ih
    · exact rdn_nonneg m (mul_nonneg hpl0 hl2)
    · calc rdn m (pl * zl2) ≤ pl * zl2 := rdn_le _ _
        _ ≤ zl ^ (2 * i + 1) * zl ^ 2 := mul_le_mul hpl hl2' hl2 (by positivity)
        _ = zl ^ (2 * (i + 1) + 1) := by rw [← pow_add]; congr 1
    · calc zu ^ (2 * (i + 1) + 1) = zu ^ (2 * i + 1) * zu ^ 2 := by rw [← pow_add]; congr 1
        _ ≤ pu * zu2 := mul_le_mul hpu hu2 (by positivity) hpu0
        _ ≤ rup m (pu * zu2) := le_rup _ _
    · rw [atanhSum_succ]
      have : rdn m (pl / ((2 * i + 1 : ℕ) : ℚ)) ≤ zl ^ (2 * i + 1) / ((2 * i + 1 : ℕ) : ℚ) :=
        le_trans (rdn_le _ _) (div_le_div_of_nonneg_right hpl hi.le)
      linarith
    · rw [atanhSum_succ]
      have : zu ^ (2 * i + 1) / ((2 * i + 1 : ℕ) : ℚ) ≤ rup m (pu / ((2 * i + 1 : ℕ) : ℚ)) :=
        le_trans (div_le_div_of_nonneg_right hpu hi.le) (le_rup _ _)
      linarith

/-- the core of `lnGe1`, with the heuristic parameters abstracted -/
theorem lnGe1_core (m N : ℕ) (z zl zu zl2 zu2 : ℚ) (hz0 : 0 ≤ z)
    (hzl0 : 0 ≤ zl) (hzl : zl ≤ z) (hzu : z ≤ zu)
    (hl2 : 0 ≤ zl2) (hl2' : zl2 ≤ zl ^ 2) (hu2 : zu ^ 2 ≤ zu2) (hu1 : zu2 < 1) :
    ((2 * (atanhSeries m zl2 zu2 N 0 zl zu 0 0).1 : ℚ) : ℝ) ≤ atanhL (z : ℝ) ∧
    atanhL (z : ℝ) ≤ ((2 * ((atanhSeries m zl2 zu2 N 0 zl zu 0 0).2.1 +
      rup m ((atanhSeries m zl2 zu2 N 0 zl zu 0 0).2.2 / (((2 * N + 1 : ℕ) : ℚ) * (1 - zu2)))) : ℚ) : ℝ) := by
  have hzu0 : 0 ≤ zu := le_trans hz0 hzu
  have hzu1 : zu < 1 := by nlinarith
  have hz1 : z < 1 := lt_of_le_of_lt hzu hzu1
  obtain ⟨h1, h2, h3⟩ := atanhSeries_inv m zl zu zl2 zu2 hzl0 hzu0 hl2 hl2' hu2 N 0 zl zu 0 0
    hzl0 (by simp) (by simp) (by simp [atanhSum]) (by simp [atanhSum])
  rw [Nat.zero_add] at h1 h2 h3
  generalize atanhSeries m zl2 zu2 N 0 zl zu 0 0 = r at h1 h2 h3 ⊢
  have hzR0 : (0 : ℝ) ≤ (z : ℝ) := by exact_mod_cast hz0
  have hzlR0 : (0 : ℝ) ≤ (zl : ℝ) := by exact_mod_cast hzl0
  have hzlR : (zl : ℝ) ≤ (z : ℝ) := by exact_mod_cast hzl
  have hzuR : (z : ℝ) ≤ (zu : ℝ) := by exact_mod_cast hzu
  have hzuR1 : (zu : ℝ) < 1 := by exact_mod_cast hzu1
  have hzR1 : (z : ℝ) < 1 := by exact_mod_cast hz1
  constructor
  · have a := atanhSum_le_L hzlR0 (lt_of_le_of_lt hzlR hzR1) N
    have c := atanhL_mono hzlR0 hzlR hzR1
    have h1R : (r.1 : ℝ) ≤ atanhSum (zl : ℝ) N := by
      rw [← atanhSum_cast]; exact_mod_cast h1
    push_cast
    linarith
  · have b := L_le_atanhSum_add (le_trans hzR0 hzuR) hzuR1 N
    have c := atanhL_mono hzR0 hzuR hzuR1
    have h2R : atanhSum (zu : ℝ) N ≤ (r.2.1 : ℝ) := by
      rw [← atanhSum_cast]; exact_mod_cast h2
    -- tail in ℚ
    have hN : (0 : ℚ) < ((2 * N + 1 : ℕ) : ℚ) := by positivity
    have hd1 : 0 < 1 - zu2 := by linarith
    have hd2 : 1 - zu2 ≤ 1 - zu ^ 2 := by linarith
    have hp0 : 0 ≤ zu ^ (2 * N + 1) := by positivity
    have htail : zu ^ (2 * N + 1) / (((2 * N + 1 : ℕ) : ℚ) * (1 - zu ^ 2))
        ≤ rup m (r.2.2 / (((2 * N + 1 : ℕ) : ℚ) * (1 - zu2))) := by
      refine le_trans ?_ (le_rup _ _)
      apply div_le_div₀ (le_trans hp0 h3) h3 (mul_pos hN hd1)
      exact mul_le_mul_of_nonneg_left hd2 hN.le
    have htailR : (zu : ℝ) ^ (2 * N + 1) / (((2 * N + 1 : ℕ) : ℝ) * (1 - (zu : ℝ) ^ 2))
        ≤ ((rup m (r.2.2 / (((2 * N + 1 : ℕ) : ℚ) * (1 - zu2))) : ℚ) : ℝ) := by
      have := (Rat.cast_le (K := ℝ)).mpr htail
      push_cast at this ⊢
      exact this
    rw [mul_div_assoc] at b
    push_cast at b htailR ⊢
    linarith

theorem lnGe1_sound (t : ℚ) (n : ℕ) (ht : 1 ≤ t) :
    ((lnGe1 t n).1 : ℝ) ≤ Real.log (t : ℝ) ∧ Real.log (t : ℝ) ≤ ((lnGe1 t n).2 : ℝ) := by
  have htR : (1 : ℝ) ≤ (t : ℝ) := by exact_mod_cast ht
  unfold lnGe1
  dsimp only
  have hp : (0 : ℚ) < t + 1 := by linarith
  have hz0 : 0 ≤ (t - 1) / (t + 1) := div_nonneg (by linarith) hp.le
  have hL : atanhL (((t - 1) / (t + 1) : ℚ) : ℝ) = Real.log (t : ℝ) := by
    rw [← atanhL_eq_log htR]; push_cast; rfl
  split_ifs with h hb <;> first
  | (rw [← hL]
     apply lnGe1_core _ _ ((t - 1) / (t + 1)) _ _ _ _ hz0
     · exact le_max_left _ _
     · exact max_le hz0 (rdn_le _ _)
     · exact le_rup _ _
     · exact rdn_nonneg _ (mul_nonneg (le_max_left _ _) (le_max_left _ _))
     · rw [pow_two]; exact rdn_le _ _
     · rw [pow_two]; exact le_rup _ _
     · exact h)
  | (constructor
     · simpa using Real.log_nonneg htR
     · have := Real.log_le_sub_one_of_pos (lt_of_lt_of_le one_pos htR)
       push_cast
       exact this)

theorem lnPos_sound (t : ℚ) (n : ℕ) (ht : 0 < t) :
    ((lnPos t n).1 : ℝ) ≤ Real.log (t : ℝ) ∧ Real.log (t : ℝ) ≤ ((lnPos t n).2 : ℝ) := by
  unfold lnPos
  split_ifs with h
  · exact lnGe1_sound t n h
  · have h : t < 1 := not_le.mp h
    have h1 : 1 ≤ 1 / t := by rw [le_div_iff₀ ht]; linarith
    obtain ⟨a, b⟩ := lnGe1_sound (1 / t) n h1
    have e : Real.log (((1 / t : ℚ)) : ℝ) = - Real.log (t : ℝ) := by
      push_cast; rw [one_div, Real.log_inv]
    rw [e] at a b
    dsimp only
    push_cast
    constructor <;> linarith

/-! ### argument reduction by powers of two -/

theorem log_scale2 (x : ℚ) (s : ℤ) (hx : 0 < x) :
    0 < scale2 x s ∧
    Real.log (x : ℝ) = (s : ℝ) * Real.log 2 + Real.log ((scale2 x s : ℚ) : ℝ) := by
  have hxr : (0 : ℝ) < (x : ℝ) := by exact_mod_cast hx
  unfold scale2
  split_ifs with h
  · obtain ⟨k, rfl⟩ := Int.eq_ofNat_of_zero_le h
    simp only [Int.toNat_natCast]
    constructor
    · positivity
    · push_cast
      rw [Real.log_div hxr.ne' (by positivity), Real.log_pow]; ring
  · obtain ⟨k, hk⟩ := Int.eq_ofNat_of_zero_le (by omega : 0 ≤ -s)
    have hs : s = -(k : ℤ) := by omega
    subst hs
    simp only [neg_neg, Int.toNat_natCast]
    constructor
    · positivity
    · push_cast
      rw [Real.log_mul hxr.ne' (by positivity), Real.log_pow]; ring

theorem scaleInt_sound (s : ℤ) (e : ℚ × ℚ) (v : ℝ) (h1 : (e.1 : ℝ) ≤ v) (h2 : v ≤ (e.2 : ℝ)) :
    ((scaleInt s e).1 : ℝ) ≤ (s : ℝ) * v ∧ (s : ℝ) * v ≤ ((scaleInt s e).2 : ℝ) := by
  unfold scaleInt
  split_ifs with h
  · have hs : (0 : ℝ) ≤ (s : ℝ) := by exact_mod_cast h
    push_cast
    exact ⟨mul_le_mul_of_nonneg_left h1 hs, mul_le_mul_of_nonneg_left h2 hs⟩
  · have hs : (s : ℝ) ≤ 0 := by
      have : s ≤ 0 := by omega
      exact_mod_cast this
    push_cast
    exact ⟨mul_le_mul_of_nonpos_left h2 hs, mul_le_mul_of_nonpos_left h1 hs⟩

theorem lnEncl_sound (x : ℚ) (n : ℕ) (hx : 0 < x) :
    ((lnEncl x n).1 : ℝ) ≤ Real.log (x : ℝ) ∧ Real.log (x : ℝ) ≤ ((lnEncl x n).2 : ℝ) := by
  unfold lnEncl
  dsimp only
  generalize lnShift x = s
  obtain ⟨hpos, hlog⟩ := log_scale2 x s hx
  obtain ⟨a, b⟩ := lnPos_sound (scale2 x s) (n + 2) hpos
  split_ifs with h
  · subst h
    simp only [Int.cast_zero, zero_mul, zero_add] at hlog
    rw [hlog]
    exact ⟨a, b⟩
  · obtain ⟨c, d⟩ := lnGe1_sound 2 (n + s.natAbs.log2 + 3) (by norm_num)
    have e2 : (((2 : ℚ)) : ℝ) = 2 := by norm_num
    rw [e2] at c d
    obtain ⟨c', d'⟩ := scaleInt_sound s _ _ c d
    dsimp only
    push_cast
    rw [hlog]
    constructor <;> linarith

end Dashu.Model.Trans
