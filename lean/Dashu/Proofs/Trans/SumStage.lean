import Dashu.Proofs.Trans.SeriesBound
/-
  C11 (round 6) — error propagation through `sum += increase` of the Maclaurin loop of `exp_internal`, and the
  ACCUMULATED error of the partial sum the loop returns.

  * `fAddSub_pos_error`: `FBig + FBig` of two positive operands of ANY length at the max context `P ≥ 1` is the exact sum
    up to two relative errors `B^(1−P)` (one in the three aligned branches of `repr_add_large_small`; two in its
    far-apart branch, where the small operand is replaced by a sticky unit before the rounding);
  * `expSumState`: the partial sums the loop's recursion passes; `expLoop_result`: a returned sum is one of them;
  * `expSum_error`: the partial sum before the step with index `i + 2` is `Σ_{k ≤ i+1} r^k/k!` up to `2i + 2` accumulated
    relative errors `B^(1−w)`.
-/
namespace Dashu.Proofs.Trans.SumStage
open Dashu.Model.Float Dashu.Model.Trans Dashu.Proofs.Trans.SeriesBound

/-! ### algebra of `Approx` -/

theorem approx_trans {ε a b c : ℚ} {i j : ℕ} (hε1 : ε ≤ 1)
    (h1 : Approx ε i a b) (h2 : Approx ε j b c) : Approx ε (i + j) a c := by
  obtain ⟨f, hf, hf1, hf2⟩ := h1
  obtain ⟨g, hg, hg1, hg2⟩ := h2
  have hl0 : 0 ≤ (1 - ε) ^ i := pow_nonneg (by linarith) i
  have hl0' : 0 ≤ (1 - ε) ^ j := pow_nonneg (by linarith) j
  have hf0 : 0 ≤ f := le_trans hl0 hf1
  have hg0 : 0 ≤ g := le_trans hl0' hg1
  have e1 : (1 - ε) ^ (i + j) = (1 - ε) ^ j * (1 - ε) ^ i := by ring
  have e2 : (1 + ε) ^ (i + j) = (1 + ε) ^ j * (1 + ε) ^ i := by ring
  refine ⟨g * f, by rw [hf, hg]; ring, ?_, ?_⟩
  · rw [e1]; exact mul_le_mul hg1 hf1 hl0 hg0
  · rw [e2]; exact mul_le_mul hg2 hf2 hf0 (le_trans hg0 hg2)

theorem approx_mono_eps {ε ε' a b : ℚ} {k : ℕ} (hε : 0 ≤ ε) (hle : ε ≤ ε') (hε1 : ε' ≤ 1) (h : Approx ε k a b) :
    Approx ε' k a b := by
  obtain ⟨f, hf, hf1, hf2⟩ := h
  refine ⟨f, hf, le_trans ?_ hf1, le_trans hf2 ?_⟩
  · exact pow_le_pow_left₀ (by linarith) (by linarith) k
  · exact pow_le_pow_left₀ (by linarith) (by linarith) k

/-- the sum of approximations of two non-negative quantities approximates their sum (no new error) -/
theorem approx_add {ε a b s t : ℚ} {K : ℕ} (hε : 0 ≤ ε) (hε1 : ε ≤ 1) (hs : 0 ≤ s) (ht : 0 ≤ t)
    (ha : Approx ε K a s) (hb : Approx ε K b t) : Approx ε K (a + b) (s + t) := by
  obtain ⟨f, hf, hf1, hf2⟩ := ha
  obtain ⟨g, hg, hg1, hg2⟩ := hb
  by_cases h0 : s + t = 0
  · have hs0 : s = 0 := by linarith
    have ht0 : t = 0 := by linarith
    refine ⟨1, by rw [hf, hg, hs0, ht0]; ring, ?_, ?_⟩
    · exact pow_le_one₀ (by linarith) (by linarith)
    · exact one_le_pow₀ (by linarith)
  · have hpos : 0 < s + t := lt_of_le_of_ne (by linarith) (Ne.symm h0)
    have h1 := mul_le_mul_of_nonneg_left hf1 hs
    have h2 := mul_le_mul_of_nonneg_left hg1 ht
    have h3 := mul_le_mul_of_nonneg_left hf2 hs
    have h4 := mul_le_mul_of_nonneg_left hg2 ht
    refine ⟨(s * f + t * g) / (s + t), ?_, ?_, ?_⟩
    · rw [hf, hg]; field_simp
    · rw [le_div_iff₀ hpos]; nlinarith
    · rw [div_le_iff₀ hpos]; nlinarith

/-- a contract rounds a positive value to a positive value -/
theorem contract_pos {B : Nat} {m : Mode} {p : Nat} {x r : ℚ} {flag : Option Rounding} (hB : 2 ≤ B) (hp : 1 ≤ p)
    (h : Contract B m p x r flag) (hx : 0 < x) : 0 < r := by
  by_cases hne : r = x
  · rw [hne]; exact hx
  · obtain ⟨e, h1, h2, _, _⟩ := contract_unit hB hp h hx.le hne
    have hee : bpowQ B e ≤ bpowQ B (e + p - 1) := bpowQ_mono B hB _ _ (by omega)
    obtain ⟨h2a, _⟩ := abs_lt.mp h2
    linarith

/-! ### `repr_add_large_small`, far-apart branch -/

theorem addLargeSmall_far (B : Nat) (hB : 2 ≤ B) (m : Mode) (c : Coarse) (hc : CoarseSound c) (dub : Int → Nat)
    (p : Nat) (hp : 1 ≤ p) (lhs rhs : FRepr) (hl : 0 < lhs.signif) (hr : 0 < rhs.signif)
    (hfar : dub rhs.signif + 1 < (lhs.exp - rhs.exp).toNat ∧
          dub rhs.signif + 1 + p < lhs.digits B + (lhs.exp - rhs.exp).toNat) :
    ∃ lk : Nat, 2 ≤ lk ∧ p ≤ lk + lhs.digits B ∧
      Contract B m p (lhs.toRat B + bpowQ B (lhs.exp - (lk : Int)))
        ((reprAddLargeSmall B m c dub p lhs rhs 1).1.toRat B) (reprAddLargeSmall B m c dub p lhs rhs 1).2 := by
  have hB0 : 0 < B := by omega
  have hp0 : p ≠ 0 := by omega
  unfold reprAddLargeSmall
  simp only [sgn_pos _ hl, sgn_pos _ hr, one_mul, ne_eq, not_true_eq_false, decide_false,
    Bool.false_eq_true, if_false, Nat.add_zero, hp0, not_false_eq_true, true_and]
  rw [if_pos hfar]
  generalize hlk : (if FRepr.digits B lhs ≥ p then 2 else p - FRepr.digits B lhs + 2) = lk
  have hlk2 : 2 ≤ lk := by rw [← hlk]; split_ifs <;> omega
  have hlkp : p ≤ lk + FRepr.digits B lhs := by rw [← hlk]; split_ifs <;> omega
  have hcon := reprRoundSum_contract B hB m c hc p hp lhs.signif lhs.exp 1 lk false
    (by
      have : 1 < B ^ lk := Nat.one_lt_pow (by omega) (by omega)
      have h2 : (1 : Int) < ((B ^ lk : Nat) : Int) := by exact_mod_cast this
      simpa using h2)
    (by omega) (fun _ => ⟨fun _ => by omega, fun h => by omega⟩) (fun h => by simp at h)
  refine ⟨lk, hlk2, hlkp, ?_⟩
  have hX : (((lhs.signif * ((B ^ lk : Nat) : Int) + 1 : Int) : ℚ)) * bpowQ B (lhs.exp - (lk : Int)) =
      lhs.toRat B + bpowQ B (lhs.exp - (lk : Int)) := by
    have h := bpowQ_shift B hB0 lhs.exp lk
    unfold FRepr.toRat
    rw [← h]; push_cast; ring
  rw [hX] at hcon
  exact hcon

/-- `repr_add_large_small` on two positive operands (`lhs.exponent > rhs.exponent`, any lengths): the exact sum up to
    two relative errors `B^(1−p)` -/
theorem addLargeSmall_error (B : Nat) (hB : 2 ≤ B) (m : Mode) (c : Coarse) (hc : CoarseSound c) (dub : Int → Nat)
    (hdub : DubSound B dub) (p : Nat) (hp : 1 ≤ p) (lhs rhs : FRepr) (hl : 0 < lhs.signif) (hr : 0 < rhs.signif)
    (hgt : rhs.exp < lhs.exp) :
    Approx (bpowQ B (1 - (p : Int))) 2 ((reprAddLargeSmall B m c dub p lhs rhs 1).1.toRat B)
      (lhs.toRat B + rhs.toRat B) := by
  have hB0 : 0 < B := by omega
  have hε0 := (bpowQ_pos B hB0 (1 - (p : Int))).le
  have hε1 := bpow_eps_le_one B hB p hp
  by_cases hfar : dub rhs.signif + 1 < (lhs.exp - rhs.exp).toNat ∧
          dub rhs.signif + 1 + p < lhs.digits B + (lhs.exp - rhs.exp).toNat
  · obtain ⟨lk, hlk2, hlkp, hcon⟩ := addLargeSmall_far B hB m c hc dub p hp lhs rhs hl hr hfar
    have h1 := approx_of_near hε0 (near_of_contract B hB m p _ _ _ hcon)
    -- the rounded value `X = lhs + B^(lhs.exp − lk)` against the exact sum
    have hL := toRat_ge B hB lhs hl
    have hR := toRat_abs_lt B hB rhs
    have hRpos : 0 < rhs.toRat B := by
      unfold FRepr.toRat
      exact mul_pos (by exact_mod_cast hr) (bpowQ_pos B hB0 _)
    rw [abs_of_pos hRpos] at hR
    have hd := hdub rhs.signif
    have hEv : (((lhs.exp - rhs.exp).toNat : Nat) : Int) = lhs.exp - rhs.exp := Int.toNat_of_nonneg (by omega)
    have hf2 := hfar.2
    unfold FRepr.digits at hf2 hlkp hR
    -- g = B^(lhs.exp + d − p) = ε · B^(lhs.exp + d − 1)
    have hg : bpowQ B (lhs.exp + (digitsI B lhs.signif : Int) - (p : Int)) =
        bpowQ B (1 - (p : Int)) * bpowQ B (lhs.exp + (digitsI B lhs.signif : Int) - 1) := by
      rw [← bpowQ_add B hB0]; congr 1; ring
    have hXg : bpowQ B (lhs.exp - (lk : Int)) ≤ bpowQ B (lhs.exp + (digitsI B lhs.signif : Int) - (p : Int)) :=
      bpowQ_mono B hB _ _ (by omega)
    have hRg : rhs.toRat B ≤ bpowQ B (lhs.exp + (digitsI B lhs.signif : Int) - (p : Int)) :=
      le_trans hR.le (bpowQ_mono B hB _ _ (by omega))
    have hXpos := bpowQ_pos B hB0 (lhs.exp - (lk : Int))
    have hLpos : 0 < lhs.toRat B := lt_of_lt_of_le (bpowQ_pos B hB0 _) hL
    have hnear : |lhs.toRat B + bpowQ B (lhs.exp - (lk : Int)) - (lhs.toRat B + rhs.toRat B)| ≤
        bpowQ B (1 - (p : Int)) * |lhs.toRat B + rhs.toRat B| := by
      rw [abs_of_pos (by linarith : 0 < lhs.toRat B + rhs.toRat B)]
      have hεL : bpowQ B (1 - (p : Int)) * bpowQ B (lhs.exp + (digitsI B lhs.signif : Int) - 1) ≤
          bpowQ B (1 - (p : Int)) * (lhs.toRat B + rhs.toRat B) :=
        mul_le_mul_of_nonneg_left (by linarith) hε0
      rw [abs_le]; constructor <;> linarith
    have h2 := approx_of_near hε0 hnear
    exact approx_trans hε1 h1 h2
  · obtain ⟨X, hcon, _, hXeq⟩ := addLargeSmall_pos B hB m c hc dub p hp lhs rhs hl hr hgt
    rw [hXeq hfar] at hcon
    exact Approx.mono hε0 hε1 (by omega) (approx_of_near hε0 (near_of_contract B hB m p _ _ _ hcon))

/-! ### `FBig + FBig` -/

/-- **`sum += increase`, error of one addition**: `FBig + FBig` (`fAddSub … 1`) of two positive operands of ANY length at
    the max context `P ≥ 1`, every mode, every sound `digits_ub`: the exact sum up to two relative errors `B^(1−P)` -/
theorem fAddSub_pos_error (E : Env) (hB : 2 ≤ E.B) (hc : CoarseSound E.c) (hdub : DubSound E.B E.est.dub) (x y : FBigM)
    (hp : 1 ≤ ctxMaxP x.prec y.prec) (hx : 0 < x.repr.signif) (hy : 0 < y.repr.signif) :
    Approx (bpowQ E.B (1 - (ctxMaxP x.prec y.prec : Int))) 2 (val E.B (fAddSub E x y 1)) (val E.B x + val E.B y) := by
  have hB0 : 0 < E.B := by omega
  have hε0 := (bpowQ_pos E.B hB0 (1 - (ctxMaxP x.prec y.prec : Int))).le
  have hε1 := bpow_eps_le_one E.B hB _ hp
  have hxz : x.repr.isZero = false := by
    unfold FRepr.isZero
    have : (x.repr.signif == 0) = false := by simp; omega
    simp [this]
  have hyz : y.repr.isZero = false := by
    unfold FRepr.isZero
    have : (y.repr.signif == 0) = false := by simp; omega
    simp [this]
  simp only [val, fAddSub, hxz, hyz, Bool.false_eq_true, if_false, one_mul]
  by_cases heq : x.repr.exp = y.repr.exp
  · rw [if_pos heq]
    have hcon := reprRound_contract E.B hB E.m E.c hc _ hp _
      (FRepr.new_normalized E.B hB (x.repr.signif + y.repr.signif) x.repr.exp)
    rw [FRepr.new_value E.B hB0] at hcon
    have e : ((x.repr.signif + y.repr.signif : Int) : ℚ) * bpowQ E.B x.repr.exp =
        x.repr.toRat E.B + y.repr.toRat E.B := by
      unfold FRepr.toRat; rw [← heq]; push_cast; ring
    rw [e] at hcon
    exact Approx.mono hε0 hε1 (by omega) (approx_of_near hε0 (near_of_contract E.B hB E.m _ _ _ _ hcon))
  · rw [if_neg heq]
    by_cases hgt : x.repr.exp > y.repr.exp
    · rw [if_pos hgt]
      exact addLargeSmall_error E.B hB E.m E.c hc E.est.dub hdub _ hp x.repr y.repr hx hy hgt
    · rw [if_neg hgt]
      have h := addLargeSmall_error E.B hB E.m E.c hc E.est.dub hdub _ hp ⟨y.repr.signif, y.repr.exp⟩ x.repr hy hx
        (by show x.repr.exp < y.repr.exp; omega)
      have e : (⟨y.repr.signif, y.repr.exp⟩ : FRepr).toRat E.B + x.repr.toRat E.B =
          x.repr.toRat E.B + y.repr.toRat E.B := by
        unfold FRepr.toRat; ring
      rw [e] at h
      exact h


/-! ### the partial sums of the Maclaurin loop -/

theorem signif_pos_of_val (B : Nat) (hB : 2 ≤ B) (a : FRepr) (h : 0 < a.toRat B) : 0 < a.signif := by
  by_contra hc
  have h1 : (a.signif : ℚ) ≤ 0 := by exact_mod_cast (by omega : a.signif ≤ 0)
  have := bpowQ_pos B (by omega) a.exp
  unfold FRepr.toRat at h
  nlinarith

theorem val_pos_of_signif (B : Nat) (hB : 2 ≤ B) (a : FRepr) (h : 0 < a.signif) : 0 < a.toRat B := by
  unfold FRepr.toRat
  exact mul_pos (by exact_mod_cast h) (bpowQ_pos B (by omega) _)

/-- `pow / factorial` of a positive `pow` is a positive quotient (it never rounds to zero) -/
theorem fDiv_int_pos (E : Env) (hB : 2 ≤ E.B) (x : FBigM) (F : Int) (hF : 1 ≤ F) (hx : 0 < val E.B x)
    (hP : 1 ≤ x.prec) :
    ∃ inc, fDiv E x (fOfInt E.B F) = .ok inc ∧ 0 < val E.B inc ∧ x.prec ≤ inc.prec := by
  have hF0 : F ≠ 0 := by omega
  have hp : 1 ≤ ctxMaxP x.prec (fOfInt E.B F).prec := le_trans hP (ctxMaxP_ge_left _ _)
  obtain ⟨q, hq, hcon⟩ := reprDiv_contract E.B hB E.m _ hp x.repr (fOfInt E.B F).repr (fOfInt_signif_ne E.B hB F hF0)
  refine ⟨⟨q.1, ctxMaxP x.prec (fOfInt E.B F).prec⟩, by simp only [fDiv, hq], ?_, ctxMaxP_ge_left _ _⟩
  have hv : (fOfInt E.B F).repr.toRat E.B = (F : ℚ) := fOfInt_val E.B hB F
  rw [hv] at hcon
  have hFpos : (0 : ℚ) < (F : ℚ) := by exact_mod_cast (by omega : 0 < F)
  exact contract_pos hB hp hcon (div_pos hx hFpos)

/-- the powers `pow` the loop passes are positive -/
theorem expState_pos (E : Env) (hB : 2 ≤ E.B) (hc : CoarseSound E.c) (r : FBigM) (w : Nat) (hw : 1 ≤ w)
    (hrp : r.prec = w) (hr0 : 0 < r.repr.signif) : ∀ i, 0 < val E.B (expState E r i).2 := by
  have hrv : 0 < val E.B r := val_pos_of_signif E.B hB _ hr0
  intro i
  induction i with
  | zero => simpa [expState] using hrv
  | succ i ih =>
    have hpp := expState_prec E r i
    have hmp : ctxMaxP (expState E r i).2.prec r.prec = w := by rw [hpp, hrp, ctxMaxP_self]
    have hcon := opMul_contract E.B hB E.m E.c hc w hw (expState E r i).2.repr r.repr
    have e : val E.B (expState E r (i + 1)).2 = (opMul E.B E.m E.c w (expState E r i).2.repr r.repr).1.toRat E.B := by
      simp only [val, expState, fMul, hmp]
    rw [e]
    exact contract_pos hB hw hcon (mul_pos ih hrv)

/-- the term `increase` the loop forms at the step with index `i + 2` -/
def expInc (E : Env) (r : FBigM) (i : Nat) : Except String FBigM :=
  fDiv E (fMul E (expState E r i).2 r) (fOfInt E.B ((expState E r i).1 * ((i + 2 : Nat) : Int)))

/-- the partial sums the loop's recursion passes: `sum` before the step with index `i + 2`
    (`1 + r`, then `sum += increase`) -/
def expSumState (E : Env) (r : FBigM) : Nat → FBigM
  | 0 => fAddSub E FBigM.one r 1
  | i + 1 =>
    match expInc E r i with
    | .ok inc => fAddSub E (expSumState E r i) inc 1
    | .error _ => expSumState E r i

/-- the exact partial sums `Σ_{k ≤ i+1} r^k / k!` -/
def expPartial (r : ℚ) : Nat → ℚ
  | 0 => 1 + r
  | i + 1 => expPartial r i + r ^ (i + 2) / ((i + 2).factorial : ℚ)

theorem expPartial_nonneg (r : ℚ) (hr : 0 ≤ r) : ∀ i, 0 ≤ expPartial r i := by
  intro i
  induction i with
  | zero => simp only [expPartial]; linarith
  | succ i ih =>
    simp only [expPartial]
    have : 0 ≤ r ^ (i + 2) / ((i + 2).factorial : ℚ) := div_nonneg (pow_nonneg hr _) (Nat.cast_nonneg _)
    linarith

/-- a value the Maclaurin loop returns (from a state of its own trajectory) is one of the `expSumState`s, with the
    matching term index -/
theorem expLoop_result (E : Env) (r : FBigM) : ∀ (fuel i : Nat) (res : FBigM × Nat),
    expLoop E r fuel (expState E r i).1 (expState E r i).2 (expSumState E r i) (i + 2) = .ok (some res) →
    ∃ j, i ≤ j ∧ res = (expSumState E r j, j + 2) := by
  intro fuel
  induction fuel with
  | zero => intro i res h; simp [expLoop] at h
  | succ fuel ih =>
    intro i res h
    rw [expLoop_unfold] at h
    cases hd : expInc E r i with
    | error e =>
      simp only [expInc] at hd
      rw [hd] at h
      simp at h
    | ok inc =>
      have hS : expSumState E r (i + 1) = fAddSub E (expSumState E r i) inc 1 := by
        simp only [expSumState, hd]
      simp only [expInc] at hd
      rw [hd] at h
      simp only at h
      split at h
      · injection h with h; injection h with h
        exact ⟨i, le_refl _, h.symm⟩
      · have e : i + 2 + 1 = i + 1 + 2 := by omega
        rw [e, ← hS] at h
        obtain ⟨j, hj, hres⟩ := ih (i + 1) res h
        exact ⟨j, by omega, hres⟩

/-- **accumulated error of the partial sum of the Maclaurin loop of `exp_internal`** (reduced argument `r > 0` held at
    the working precision `w ≥ 1`; every mode; sound `digits_ub` and coarse test): the sum the loop holds before the step
    with index `k = i + 2` is `≥ 1` and equals `Σ_{k ≤ i+1} r^k/k!` up to `2i + 2` accumulated relative errors `B^(1−w)` -/
theorem expSum_error (E : Env) (hB : 2 ≤ E.B) (hc : CoarseSound E.c) (hdub : DubSound E.B E.est.dub) (r : FBigM)
    (w : Nat) (hw : 1 ≤ w) (hrp : r.prec = w) (hr0 : 0 < r.repr.signif) (i : Nat) :
    1 ≤ val E.B (expSumState E r i) ∧ w ≤ (expSumState E r i).prec ∧
      Approx (bpowQ E.B (1 - (w : Int))) (2 * i + 2) (val E.B (expSumState E r i)) (expPartial (val E.B r) i) := by
  have hB0 : 0 < E.B := by omega
  have hε0 : 0 ≤ bpowQ E.B (1 - (w : Int)) := (bpowQ_pos E.B hB0 _).le
  have hε1 := bpow_eps_le_one E.B hB w hw
  have hrv : 0 < val E.B r := val_pos_of_signif E.B hB _ hr0
  have hone : val E.B FBigM.one = 1 := by
    simp only [val, FBigM.one, FRepr.toRat, bpowQ_zero]; norm_num
  induction i with
  | zero =>
    have hwP : w ≤ ctxMaxP FBigM.one.prec r.prec := by rw [← hrp]; exact ctxMaxP_ge_right _ _
    have hp : 1 ≤ ctxMaxP FBigM.one.prec r.prec := le_trans hw hwP
    refine ⟨?_, ?_, ?_⟩
    · exact fAddSub_keeps E hB hc hdub FBigM.one r hp (by rw [hone]) hr0
    · simpa only [expSumState, fAddSub] using hwP
    · have h := fAddSub_pos_error E hB hc hdub FBigM.one r hp (by decide) hr0
      rw [hone] at h
      exact approx_mono_eps (bpowQ_pos E.B hB0 _).le (bpowQ_eps_le E.B hB _ _ hwP) hε1 h
  | succ i ih =>
    obtain ⟨h1, hwS, hA⟩ := ih
    obtain ⟨_, _, inc, hinc, hT⟩ := expTerms_error E hB hc r w hw hrp i
    have hF : (1 : Int) ≤ (expState E r i).1 * ((i + 2 : Nat) : Int) := by
      rw [expState_fact]
      have h1 : (1 : Int) ≤ ((i + 1).factorial : Int) := by exact_mod_cast Nat.factorial_pos _
      have h2 : (1 : Int) ≤ ((i + 2 : Nat) : Int) := by push_cast; omega
      nlinarith
    have hpw : 0 < val E.B (fMul E (expState E r i).2 r) := expState_pos E hB hc r w hw hrp hr0 (i + 1)
    have hpwp : 1 ≤ (fMul E (expState E r i).2 r).prec := by
      have := expState_prec E r (i + 1)
      simp only [expState] at this
      rw [this, hrp]; exact hw
    obtain ⟨inc', hinc', hpos, _⟩ := fDiv_int_pos E hB (fMul E (expState E r i).2 r) _ hF hpw hpwp
    have hii : inc' = inc := by
      rw [hinc] at hinc'
      injection hinc' with h
      exact h.symm
    rw [hii] at hpos
    have hsig : 0 < inc.repr.signif := signif_pos_of_val E.B hB _ hpos
    have hS : expSumState E r (i + 1) = fAddSub E (expSumState E r i) inc 1 := by
      simp only [expSumState, expInc, hinc]
    rw [hS]
    have hwP : w ≤ ctxMaxP (expSumState E r i).prec inc.prec := le_trans hwS (ctxMaxP_ge_left _ _)
    have hpP : 1 ≤ ctxMaxP (expSumState E r i).prec inc.prec := le_trans hw hwP
    have hSsig : 0 < (expSumState E r i).repr.signif :=
      signif_pos_of_val E.B hB _ (lt_of_lt_of_le one_pos h1)
    refine ⟨fAddSub_keeps E hB hc hdub _ _ hpP h1 hsig, ?_, ?_⟩
    · simpa only [fAddSub] using hwP
    · have hadd := fAddSub_pos_error E hB hc hdub (expSumState E r i) inc hpP hSsig hsig
      have hadd' := approx_mono_eps (bpowQ_pos E.B hB0 _).le (bpowQ_eps_le E.B hB _ _ hwP) hε1 hadd
      have ht : 0 ≤ (val E.B r) ^ (i + 2) / ((i + 2).factorial : ℚ) :=
        div_nonneg (pow_nonneg hrv.le _) (Nat.cast_nonneg _)
      have hsum := approx_add hε0 hε1 (expPartial_nonneg _ hrv.le i) ht hA
        (Approx.mono hε0 hε1 (by omega : i + 2 ≤ 2 * i + 2) hT)
      have h := approx_trans hε1 hadd' hsum
      have e : 2 * (i + 1) + 2 = 2 + (2 * i + 2) := by ring
      rw [e]
      simpa only [expPartial] using h

/-- **what the Maclaurin loop returns**: run from its entry state (`factorial = 1`, `pow = r`, `sum = 1 + r`, `k = 2`)
    with any fuel, a returned `(sum, k)` has `k ≥ 2` and `sum = Σ_{j < k} r^j/j!` up to `2(k−2) + 2` accumulated relative
    errors `B^(1−w)` (the error of the truncated series itself is bounded by the stop test, not here) -/
theorem expLoop_result_error (E : Env) (hB : 2 ≤ E.B) (hc : CoarseSound E.c) (hdub : DubSound E.B E.est.dub) (r : FBigM)
    (w : Nat) (hw : 1 ≤ w) (hrp : r.prec = w) (hr0 : 0 < r.repr.signif) (fuel : Nat) (res : FBigM × Nat)
    (h : expLoop E r fuel 1 r (fAddSub E FBigM.one r 1) 2 = .ok (some res)) :
    2 ≤ res.2 ∧ 1 ≤ val E.B res.1 ∧
      Approx (bpowQ E.B (1 - (w : Int))) (2 * (res.2 - 2) + 2) (val E.B res.1) (expPartial (val E.B r) (res.2 - 2)) := by
  obtain ⟨j, _, hres⟩ := expLoop_result E r fuel 0 res h
  subst hres
  have := expSum_error E hB hc hdub r w hw hrp hr0 j
  refine ⟨by simp, this.1, ?_⟩
  simpa only [Nat.add_sub_cancel] using this.2.2


/-! ### `FBig ± FBig` with a zero operand (`add_val_val` &c. since /repo 164990d: the other operand is ROUNDED) -/

/-- a zero operand: the result is `context.repr_round(other)` at the max context -/
theorem fAddSub_zero_operand (E : Env) (x y : FBigM) (rs : Int) :
    (x.repr.isZero = true →
      (fAddSub E x y rs).repr = (reprRound E.B E.m E.c (ctxMaxP x.prec y.prec) ⟨rs * y.repr.signif, y.repr.exp⟩).1) ∧
    (x.repr.isZero = false → y.repr.isZero = true →
      (fAddSub E x y rs).repr = (reprRound E.B E.m E.c (ctxMaxP x.prec y.prec) x.repr).1) := by
  constructor
  · intro hx; simp only [fAddSub, hx, if_true]
  · intro hx hy; simp only [fAddSub, hx, hy, Bool.false_eq_true, if_false, if_true]

/-- `repr_round` leaves an operand that fits the precision as it is -/
theorem reprRound_fits (B : Nat) (m : Mode) (c : Coarse) (p : Nat) (r : FRepr) (h : r.digits B ≤ p) :
    (reprRound B m c p r).1 = r := by
  unfold reprRound
  split
  · rfl
  · simp only
    split
    · omega
    · rfl

/-- … so `x ± 0` is `x` itself whenever `x` fits the max context (the only way the mirrored series reach this arm:
    old and new reading of the arm agree there) -/
theorem fAddSub_zero_fits (E : Env) (x y : FBigM) (rs : Int) (hx : x.repr.isZero = false) (hy : y.repr.isZero = true)
    (h : x.repr.digits E.B ≤ ctxMaxP x.prec y.prec) : (fAddSub E x y rs).repr = x.repr := by
  rw [(fAddSub_zero_operand E x y rs).2 hx hy, reprRound_fits _ _ _ _ _ h]

end Dashu.Proofs.Trans.SumStage
