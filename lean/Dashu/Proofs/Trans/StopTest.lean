import Dashu.Proofs.Trans.SumExp
/-
  C11 (round 6) — the stop test of the Maclaurin loop composed with the rounding and truncation errors:
  when the loop returns, the first omitted term is at most `sub_ulp(sum)`, hence the truncation error is a small multiple of
  `B^(−w)·sum`.
-/
namespace Dashu.Proofs.Trans.StopTest
open Dashu.Model.Float Dashu.Model.Trans Dashu.Proofs.Trans.SeriesBound Dashu.Proofs.Trans.SumStage
open Dashu.Proofs.Trans.SumExp

/-- the stop test `|increase| <= threshold` against a power of the base, read as an inequality of values -/
theorem val_le_of_reprAbsCmp_ne_gt (B : Nat) (hB : 2 ≤ B) (a : FRepr) (e : Int) (h0 : 0 < a.signif)
    (h : reprAbsCmp B a ⟨1, e⟩ ≠ .gt) : a.toRat B ≤ bpowQ B e := by
  have hB0 : 0 < B := by omega
  unfold reprAbsCmp at h
  have hne : ¬ (a.signif = 0 ∨ (1 : Int) = 0) := by
    intro hc; rcases hc with hc | hc <;> omega
  rw [if_neg hne] at h
  simp only [digitsI_one B hB, Nat.cast_one] at h
  have hlt := toRat_abs_lt B hB a
  have hpos : 0 < a.toRat B := val_pos_of_signif B hB a h0
  rw [abs_of_pos hpos] at hlt
  unfold FRepr.digits at hlt
  split_ifs at h with h1 h2
  · exact le_trans hlt.le (bpowQ_mono B hB _ _ (by omega))
  · exact absurd rfl h
  · unfold reprCmp at h
    simp only [Int.natAbs_one, Nat.cast_one] at h
    have hm1 : min a.exp e ≤ a.exp := min_le_left _ _
    have hm2 : min a.exp e ≤ e := min_le_right _ _
    generalize min a.exp e = em at *
    have s1 := bpowQ_split B hB em a.exp hm1
    have s2 := bpowQ_split B hB em e hm2
    have hab : ((a.signif.natAbs : Nat) : Int) = a.signif := Int.natAbs_of_nonneg h0.le
    rw [hab] at h
    have hle : a.signif * ((B ^ (a.exp - em).toNat : Nat) : Int) ≤ (1 : Int) * ((B ^ (e - em).toNat : Nat) : Int) := by
      by_contra hc
      apply h
      rw [compare_gt_iff_gt]
      omega
    have hq : ((a.signif * ((B ^ (a.exp - em).toNat : Nat) : Int) : Int) : ℚ) ≤
        (((1 : Int) * ((B ^ (e - em).toNat : Nat) : Int) : Int) : ℚ) := by exact_mod_cast hle
    have hpe := bpowQ_pos B hB0 em
    unfold FRepr.toRat
    rw [s1, s2]
    push_cast at hq ⊢
    nlinarith

/-- what the Maclaurin loop returns, WITH the stop test that made it return: the term `increase` of that step did not
    exceed `sum.sub_ulp()` -/
theorem expLoop_stop (E : Env) (r : FBigM) : ∀ (fuel i : Nat) (res : FBigM × Nat),
    expLoop E r fuel (expState E r i).1 (expState E r i).2 (expSumState E r i) (i + 2) = .ok (some res) →
    ∃ j inc, i ≤ j ∧ expInc E r j = .ok inc ∧
      reprAbsCmp E.B inc.repr (fSubUlp E (expSumState E r j)) ≠ .gt ∧ res = (expSumState E r j, j + 2) := by
  intro fuel
  induction fuel with
  | zero => intro i res h; simp [expLoop] at h
  | succ fuel ih =>
    intro i res h
    rw [expLoop_unfold] at h
    cases hd : expInc E r i with
    | error e =>
      simp only [expInc] at hd
      rw [hd] at h
      simp at h
    | ok inc =>
      have hS : expSumState E r (i + 1) = fAddSub E (expSumState E r i) inc 1 := by
        simp only [expSumState, hd]
      have hd' := hd
      simp only [expInc] at hd'
      rw [hd'] at h
      simp only at h
      by_cases hstop : reprAbsCmp E.B inc.repr (fSubUlp E (expSumState E r i)) ≠ .gt
      · rw [if_pos hstop] at h
        injection h with h; injection h with h
        exact ⟨i, inc, le_refl _, hd, hstop, h.symm⟩
      · rw [if_neg hstop] at h
        have e : i + 2 + 1 = i + 1 + 2 := by omega
        rw [e, ← hS] at h
        obtain ⟨j, inc', hj, h1, h2, h3⟩ := ih (i + 1) res h
        exact ⟨j, inc', by omega, h1, h2, h3⟩

/-- **one bound for the Maclaurin stage of `exp_internal`**: for a reduced argument `0 < r ≤ 1` held at `w ≥ 1` digits, a
    sound `digits_lb`/`digits_ub`/coarse test, the returned `(sum, k)` with `K = 2(k−2)+2`, `2Kε ≤ 1` and `kε ≤ 1/2`
    (`ε = B^(1−w)`) satisfies `|sum − exp r| ≤ 2Kε·exp r + 4·B^(−w)·sum`: all roundings of the loop, the truncation of the
    series and the stop test `|increase| ≤ sum.sub_ulp()` composed -/
theorem expLoop_stage_error (E : Env) (hB : 2 ≤ E.B) (hc : CoarseSound E.c) (hdub : DubSound E.B E.est.dub)
    (hdlb : DlbSound E.B E.est.dlb) (r : FBigM)
    (w : Nat) (hw : 1 ≤ w) (hrp : r.prec = w) (hr0 : 0 < r.repr.signif) (hr1 : val E.B r ≤ 1)
    (fuel : Nat) (res : FBigM × Nat) (h : expLoop E r fuel 1 r (fAddSub E FBigM.one r 1) 2 = .ok (some res))
    (hK : 2 * ((2 * (res.2 - 2) + 2 : ℕ) : ℚ) * bpowQ E.B (1 - (w : Int)) ≤ 1)
    (hk : (res.2 : ℚ) * bpowQ E.B (1 - (w : Int)) ≤ 1 / 2) :
    |((val E.B res.1 : ℚ) : ℝ) - Real.exp ((val E.B r : ℚ) : ℝ)| ≤
      ((2 * ((2 * (res.2 - 2) + 2 : ℕ) : ℚ) * bpowQ E.B (1 - (w : Int)) : ℚ) : ℝ) * Real.exp ((val E.B r : ℚ) : ℝ)
        + ((4 * bpowQ E.B (-(w : Int)) * val E.B res.1 : ℚ) : ℝ) := by
  have hB0 : 0 < E.B := by omega
  have hε0 : 0 ≤ bpowQ E.B (1 - (w : Int)) := (bpowQ_pos E.B hB0 _).le
  have hε1 := bpow_eps_le_one E.B hB w hw
  have hrv : 0 < val E.B r := val_pos_of_signif E.B hB _ hr0
  have hmain := expLoop_result_vs_exp E hB hc hdub r w hw hrp hr0 hr1 fuel res h hK
  refine le_trans hmain ?_
  -- it remains to bound the truncation term by the stop test
  obtain ⟨j, inc, _, hinc, hstop, hres⟩ := expLoop_stop E r fuel 0 res h
  subst hres
  simp only at hk ⊢
  obtain ⟨h1, hwS, _⟩ := expSum_error E hB hc hdub r w hw hrp hr0 j
  obtain ⟨_, _, inc', hinc', hT⟩ := expTerms_error E hB hc r w hw hrp j
  have hii : inc' = inc := by
    simp only [expInc] at hinc
    rw [hinc] at hinc'
    injection hinc' with h
    exact h.symm
  rw [hii] at hT
  obtain ⟨f, hf, hf1, _⟩ := hT
  -- f ≥ (1-ε)^(j+2) ≥ 1 - (j+2)ε ≥ 1/2
  have hb := one_sub_mul_le_pow hε0 hε1 (j + 2)
  have hf2 : (1 : ℚ) / 2 ≤ f := by
    have : ((j + 2 : ℕ) : ℚ) * bpowQ E.B (1 - (w : Int)) ≤ 1 / 2 := hk
    linarith
  set T : ℚ := (val E.B r) ^ (j + 2) / ((j + 2).factorial : ℚ) with hTdef
  have hT0 : 0 ≤ T := div_nonneg (pow_nonneg hrv.le _) (Nat.cast_nonneg _)
  -- T ≤ 2·inc
  have hTinc : T ≤ 2 * val E.B inc := by rw [hf]; nlinarith
  -- inc ≤ sub_ulp(sum) ≤ B^(−w)·sum
  have hincpos : 0 < inc.repr.signif := by
    apply signif_pos_of_val E.B hB
    by_contra hcon
    have hle : val E.B inc ≤ 0 := not_lt.mp hcon
    rw [hf] at hle
    have hTpos : 0 < T := div_pos (pow_pos hrv _) (by exact_mod_cast Nat.factorial_pos _)
    nlinarith
  obtain ⟨_, hsu⟩ := Dashu.Proofs.Trans.Series.fSubUlp_le E hdlb (expSumState E r j)
  have hsub : (fSubUlp E (expSumState E r j)) = ⟨1, (fSubUlp E (expSumState E r j)).exp⟩ := rfl
  rw [hsub] at hstop
  have hle := val_le_of_reprAbsCmp_ne_gt E.B hB inc.repr _ hincpos hstop
  have hSsig : 0 < (expSumState E r j).repr.signif := signif_pos_of_val E.B hB _ (lt_of_lt_of_le one_pos h1)
  have hSge := toRat_ge E.B hB (expSumState E r j).repr hSsig
  have hwSz : ((w : Nat) : Int) ≤ ((expSumState E r j).prec : Int) := by exact_mod_cast hwS
  have hchain : bpowQ E.B (fSubUlp E (expSumState E r j)).exp ≤
      bpowQ E.B (-(w : Int)) * bpowQ E.B ((expSumState E r j).repr.exp +
        (digitsI E.B (expSumState E r j).repr.signif : Int) - 1) := by
    rw [← bpowQ_add E.B hB0]
    exact bpowQ_mono E.B hB _ _ (by omega)
  have hwpos := bpowQ_pos E.B hB0 (-(w : Int))
  have hfin : 2 * T ≤ 4 * bpowQ E.B (-(w : Int)) * val E.B (expSumState E r j) := by
    have : bpowQ E.B (-(w : Int)) * bpowQ E.B ((expSumState E r j).repr.exp +
        (digitsI E.B (expSumState E r j).repr.signif : Int) - 1) ≤ bpowQ E.B (-(w : Int)) * val E.B (expSumState E r j) :=
      mul_le_mul_of_nonneg_left hSge hwpos.le
    have hv : val E.B inc ≤ bpowQ E.B (-(w : Int)) * val E.B (expSumState E r j) := le_trans hle (le_trans hchain this)
    linarith
  have hfinR : ((2 * T : ℚ) : ℝ) ≤ ((4 * bpowQ E.B (-(w : Int)) * val E.B (expSumState E r j) : ℚ) : ℝ) := by
    exact_mod_cast hfin
  linarith

end Dashu.Proofs.Trans.StopTest
