import Dashu.Gen.FloatMul
import Dashu.Gen.FloatDiv
import Dashu.Props.GenFloatForms
import Dashu.Proofs.Float.Sqrt
/-
  Tie A theorems for C03 (and C15): `float/src/mul.rs` and `float/src/div.rs` AS REGENERATED on this run
  (`Gen/FloatMul.lean`, `Gen/FloatDiv.lean`), with the digit / rounding kernels of the hand-written float model plugged in
  (`modelK2`), ARE the hand-written model functions the C03 driver executes and `Props/C03.lean` proves the rounding contract
  for: `Context::mul / sqr / cubic` = `ctxMul / ctxSqr / ctxCubic false`, `Context::repr_div` = `reprDiv`,
  `Context::div` = `ctxDiv`, `Context::inv` = `ctxInv`; the operator impls `FBig * FBig` (4 ownership forms) = `opMul` at
  `Context::max`, `FBig / FBig` (4 forms, `impl_div_or_rem_for_fbig!`) = `reprDiv` at `Context::max`, `FBig::sqr/cubic`,
  `Inverse for FBig / &FBig` = the Context methods at the operand's own precision.  For all inputs; `assert_finite*` fires
  exactly for an infinite operand.  A semantic edit of any of these Rust bodies breaks the build of this module.
  The only hypothesis (`mul/sqr/cubic`): operands have at most `usize::MAX` digits (the "no limit" operand length of an
  unlimited context), true of every value that fits in memory.
-/
set_option linter.unusedSimpArgs false
namespace Dashu.Props.GenFloatArith
open Dashu Dashu.Gen Dashu.GluePrelude Dashu.Proofs.Gen Dashu.Model.Float Dashu.Props.GenFloatOps Dashu.Props.GenFloatAdd
  Dashu.Props.GenFloatForms

/-- the kernel record of the hand model for `mul.rs` / `div.rs`: `modelK` plus the `digits_lb` oracle and the model's
    `roundRatio` -/
def modelK2 (B : Nat) (m : Mode) (c : Coarse) (dub dlb : Int → Nat) : FloatK2 Unit where
  toFloatK := modelK B m c dub
  digits_lb := fun r => (dlb r.significand : Int)
  round_ratio := fun q r d => roundRatio m q r d

theorem modelK2_toFloatK (B : Nat) (m : Mode) (c : Coarse) (dub dlb : Int → Nat) :
    (modelK2 B m c dub dlb).toFloatK = modelK B m c dub := rfl
theorem modelK2_digits (B : Nat) (m : Mode) (c : Coarse) (dub dlb : Int → Nat) (r : GluePrelude.FRepr) :
    (modelK2 B m c dub dlb).digits r = (digitsI B r.significand : Int) := rfl
theorem modelK2_repr_new (B : Nat) (m : Mode) (c : Coarse) (dub dlb : Int → Nat) (s e : Int) :
    (modelK2 B m c dub dlb).repr_new s e = ⟨(Model.Float.FRepr.new B s e).signif, (Model.Float.FRepr.new B s e).exp⟩ := rfl

theorem modelK_digits (B : Nat) (m : Mode) (c : Coarse) (dub : Int → Nat) (s e : Int) :
    (modelK B m c dub).digits ⟨s, e⟩ = (digitsI B s : Int) := rfl

theorem two_mul_cast (p : Nat) : (2 : Int) * (p : Int) = ((2 * p : Nat) : Int) := by omega
theorem three_mul_cast (p : Nat) : (3 : Int) * (p : Int) = ((3 * p : Nat) : Int) := by omega
/-- the same products with the literal on the right (`self.precision.saturating_mul(2)`, in /repo since fix 5768014,
    regenerates in this shape) -/
theorem mul_two_cast (p : Nat) : (p : Int) * (2 : Int) = ((2 * p : Nat) : Int) := by omega
theorem mul_three_cast (p : Nat) : (p : Int) * (3 : Int) = ((3 * p : Nat) : Int) := by omega

theorem context_mul_is_model (B : Nat) (m : Mode) (c : Coarse) (dub dlb : Int → Nat) (p : Nat) (ls le rs re : Int)
    (hl : (digitsI B ls : Int) ≤ usize_MAX) (hr : (digitsI B rs : Int) ≤ usize_MAX) :
    Context_mul (modelK2 B m c dub dlb) ⟨(p : Int)⟩ ⟨ls, le⟩ ⟨rs, re⟩ =
      if (ls = 0 ∧ le ≠ 0) ∨ (rs = 0 ∧ re ≠ 0) then .error .OperateWithInf
      else .ok (Approx.map (fun v => (⟨v, ⟨(p : Int)⟩⟩ : GluePrelude.FBig))
        (toGA toG (ctxMul false B m c p ⟨ls, le⟩ ⟨rs, re⟩))) := by
  unfold Context_mul ctxMul
  simp only [assert_finite_operands, Repr_is_infinite, is_zero_int, eq_int, ne_int, Context_is_limited, lt_int, mul_int,
    two_mul_cast, mul_two_cast]
  by_cases h1 : ls = 0 ∧ le ≠ 0
  · simp [h1]
  by_cases h2 : rs = 0 ∧ re ≠ 0
  · simp [h2]
  have h12 : ¬ (ls = 0 ∧ le ≠ 0 ∨ rs = 0 ∧ re ≠ 0) := by intro h; cases h <;> contradiction
  have hg : (decide (ls = 0) && !decide (le = 0) || decide (rs = 0) && !decide (re = 0)) = false := by
    simpa using h12
  simp only [hg, h12, if_false, Bool.false_eq_true, modelK2_digits, modelK2_toFloatK, modelK_digits]
  unfold preShrink
  simp only [Model.Float.FRepr.digits, Context_new, gt_iff_lt]
  by_cases hp : p = 0
  · subst hp
    have ha : ¬ (usize_MAX < (digitsI B ls : Int)) := by omega
    have hb : ¬ (usize_MAX < (digitsI B rs : Int)) := by omega
    have rr : ∀ s e : Int, Context_repr_round (modelK B m c dub) ⟨(0 : Int)⟩ ⟨s, e⟩ =
        if s = 0 ∧ e ≠ 0 then .error .OperateWithInf else .ok (toGA toG (reprRound B m c 0 ⟨s, e⟩)) :=
      fun s e => repr_round_is_model B m c dub 0 s e
    simp [ha, hb, modelK_repr_new, rr, new_not_inf, toG, FBig_new]
  · have hp' : ¬ ((p : Int) = 0) := by omega
    simp only [hp', decide_false, Bool.not_false, if_true, Int.ofNat_lt, hp, ne_eq, not_false_eq_true, true_and]
    by_cases hA : 2 * p < digitsI B ls <;> by_cases hB : 2 * p < digitsI B rs <;>
      simp only [hA, hB, decide_true, decide_false, if_true, if_false, Bool.false_eq_true, repr_round_ref_is_model, h1, h2,
        value_toGA, modelK_repr_new, repr_round_is_model, new_not_inf, toG, add_int, FBig_new]


theorem rr0 (B : Nat) (m : Mode) (c : Coarse) (dub : Int → Nat) (s e : Int) :
    Context_repr_round (modelK B m c dub) ⟨(0 : Int)⟩ ⟨s, e⟩ =
      if s = 0 ∧ e ≠ 0 then .error .OperateWithInf else .ok (toGA toG (reprRound B m c 0 ⟨s, e⟩)) :=
  repr_round_is_model B m c dub 0 s e

/-- **`Context::sqr` as regenerated = `Model.Float.ctxSqr false`** -/
theorem context_sqr_is_model (B : Nat) (m : Mode) (c : Coarse) (dub dlb : Int → Nat) (p : Nat) (ls le : Int)
    (hl : (digitsI B ls : Int) ≤ usize_MAX) :
    Context_sqr (modelK2 B m c dub dlb) ⟨(p : Int)⟩ ⟨ls, le⟩ =
      if ls = 0 ∧ le ≠ 0 then .error .OperateWithInf
      else .ok (Approx.map (fun v => (⟨v, ⟨(p : Int)⟩⟩ : GluePrelude.FBig)) (toGA toG (ctxSqr false B m c p ⟨ls, le⟩))) := by
  unfold Context_sqr ctxSqr
  simp only [assert_finite, Repr_is_infinite, is_zero_int, eq_int, ne_int, Context_is_limited, lt_int, mul_int, two_mul_cast, mul_two_cast]
  by_cases h1 : ls = 0 ∧ le ≠ 0
  · simp [h1]
  have hg : (decide (ls = 0) && !decide (le = 0)) = false := by simpa using h1
  simp only [hg, h1, if_false, Bool.false_eq_true, modelK2_digits, modelK2_toFloatK, modelK_digits]
  unfold preShrink
  simp only [Model.Float.FRepr.digits, Context_new, gt_iff_lt]
  by_cases hp : p = 0
  · subst hp
    have ha : ¬ (usize_MAX < (digitsI B ls : Int)) := by omega
    simp [ha, modelK_repr_new, rr0, new_not_inf, toG, FBig_new]
  · have hp' : ¬ ((p : Int) = 0) := by omega
    simp only [hp', decide_false, Bool.not_false, if_true, Int.ofNat_lt, hp, ne_eq, not_false_eq_true, true_and]
    by_cases hA : 2 * p < digitsI B ls <;>
      simp only [hA, decide_true, decide_false, if_true, if_false, Bool.false_eq_true, repr_round_ref_is_model, h1,
        value_toGA, modelK_repr_new, repr_round_is_model, new_not_inf, toG, add_int, FBig_new, Int.two_mul]

/-- **`Context::cubic` as regenerated = `Model.Float.ctxCubic false`** -/
theorem context_cubic_is_model (B : Nat) (m : Mode) (c : Coarse) (dub dlb : Int → Nat) (p : Nat) (ls le : Int)
    (hl : (digitsI B ls : Int) ≤ usize_MAX) :
    Context_cubic (modelK2 B m c dub dlb) ⟨(p : Int)⟩ ⟨ls, le⟩ =
      if ls = 0 ∧ le ≠ 0 then .error .OperateWithInf
      else .ok (Approx.map (fun v => (⟨v, ⟨(p : Int)⟩⟩ : GluePrelude.FBig)) (toGA toG (ctxCubic false B m c p ⟨ls, le⟩))) := by
  unfold Context_cubic ctxCubic
  simp only [assert_finite, Repr_is_infinite, is_zero_int, eq_int, ne_int, Context_is_limited, lt_int, mul_int, three_mul_cast, mul_three_cast]
  by_cases h1 : ls = 0 ∧ le ≠ 0
  · simp [h1]
  have hg : (decide (ls = 0) && !decide (le = 0)) = false := by simpa using h1
  simp only [hg, h1, if_false, Bool.false_eq_true, modelK2_digits, modelK2_toFloatK, modelK_digits]
  unfold preShrink
  simp only [Model.Float.FRepr.digits, Context_new, gt_iff_lt]
  by_cases hp : p = 0
  · subst hp
    have ha : ¬ (usize_MAX < (digitsI B ls : Int)) := by omega
    simp [ha, modelK_repr_new, rr0, new_not_inf, toG, FBig_new]
  · have hp' : ¬ ((p : Int) = 0) := by omega
    simp only [hp', decide_false, Bool.not_false, if_true, Int.ofNat_lt, hp, ne_eq, not_false_eq_true, true_and]
    by_cases hA : 3 * p < digitsI B ls <;>
      simp only [hA, decide_true, decide_false, if_true, if_false, Bool.false_eq_true, repr_round_ref_is_model, h1,
        value_toGA, modelK_repr_new, repr_round_is_model, new_not_inf, toG, add_int, FBig_new]

/-- what the four operator forms of `FBig * FBig` return: the model's `opMul` at `Context::max` -/
def mulFormSpec (B : Nat) (m : Mode) (c : Coarse) (ls le : Int) (pl : Nat) (rs re : Int) (pr : Nat) :
    Except Panic GluePrelude.FBig :=
  if (ls = 0 ∧ le ≠ 0) ∨ (rs = 0 ∧ re ≠ 0) then .error .OperateWithInf
  else .ok ⟨toG (opMul B m c (Nat.max pl pr) ⟨ls, le⟩ ⟨rs, re⟩).1, ⟨((Nat.max pl pr : Nat) : Int)⟩⟩

theorem mul_ref_ref_is_model (B : Nat) (m : Mode) (c : Coarse) (dub dlb : Int → Nat) (ls le : Int) (pl : Nat) (rs re : Int)
    (pr : Nat) :
    FBig_mul_ref_ref (modelK2 B m c dub dlb) ⟨⟨ls, le⟩, ⟨(pl : Int)⟩⟩ ⟨⟨rs, re⟩, ⟨(pr : Int)⟩⟩ =
      mulFormSpec B m c ls le pl rs re pr := by
  unfold FBig_mul_ref_ref mulFormSpec opMul
  simp only [context_max_eq, assert_finite_operands, Repr_is_infinite, is_zero_int, eq_int, ne_int, mul_int, add_int,
    modelK2_toFloatK, modelK2_repr_new, repr_round_is_model, new_not_inf, if_false, FBig_new, value_toGA]
  by_cases h1 : ls = 0 ∧ le ≠ 0
  · simp [h1]
  by_cases h2 : rs = 0 ∧ re ≠ 0
  · simp [h2]
  have h12 : ¬ (ls = 0 ∧ le ≠ 0 ∨ rs = 0 ∧ re ≠ 0) := by intro h; cases h <;> contradiction
  have hg : (decide (ls = 0) && !decide (le = 0) || decide (rs = 0) && !decide (re = 0)) = false := by
    simpa using h12
  simp only [hg, h12, if_false, Bool.false_eq_true, toG, Int.mul_comm rs ls, Int.add_comm re le]
  simp only [modelK_repr_new, repr_round_is_model, new_not_inf, if_false, value_toGA, toG]


theorem mul_val_ref_is_model (B : Nat) (m : Mode) (c : Coarse) (dub dlb : Int → Nat) (ls le : Int) (pl : Nat) (rs re : Int)
    (pr : Nat) :
    FBig_mul_val_ref (modelK2 B m c dub dlb) ⟨⟨ls, le⟩, ⟨(pl : Int)⟩⟩ ⟨⟨rs, re⟩, ⟨(pr : Int)⟩⟩ =
      mulFormSpec B m c ls le pl rs re pr := by
  unfold FBig_mul_val_ref mulFormSpec opMul
  simp only [context_max_eq, assert_finite_operands, Repr_is_infinite, is_zero_int, eq_int, ne_int, mul_int, add_int,
    modelK2_toFloatK, modelK2_repr_new, repr_round_is_model, new_not_inf, if_false, FBig_new, value_toGA]
  by_cases h1 : ls = 0 ∧ le ≠ 0
  · simp [h1]
  by_cases h2 : rs = 0 ∧ re ≠ 0
  · simp [h2]
  have h12 : ¬ (ls = 0 ∧ le ≠ 0 ∨ rs = 0 ∧ re ≠ 0) := by intro h; cases h <;> contradiction
  have hg : (decide (ls = 0) && !decide (le = 0) || decide (rs = 0) && !decide (re = 0)) = false := by
    simpa using h12
  simp only [hg, h12, if_false, Bool.false_eq_true, toG, Int.mul_comm rs ls, Int.add_comm re le]
  simp only [modelK_repr_new, repr_round_is_model, new_not_inf, if_false, value_toGA, toG]


theorem mul_ref_val_is_model (B : Nat) (m : Mode) (c : Coarse) (dub dlb : Int → Nat) (ls le : Int) (pl : Nat) (rs re : Int)
    (pr : Nat) :
    FBig_mul_ref_val (modelK2 B m c dub dlb) ⟨⟨ls, le⟩, ⟨(pl : Int)⟩⟩ ⟨⟨rs, re⟩, ⟨(pr : Int)⟩⟩ =
      mulFormSpec B m c ls le pl rs re pr := by
  unfold FBig_mul_ref_val mulFormSpec opMul
  simp only [context_max_eq, assert_finite_operands, Repr_is_infinite, is_zero_int, eq_int, ne_int, mul_int, add_int,
    modelK2_toFloatK, modelK2_repr_new, repr_round_is_model, new_not_inf, if_false, FBig_new, value_toGA]
  by_cases h1 : ls = 0 ∧ le ≠ 0
  · simp [h1]
  by_cases h2 : rs = 0 ∧ re ≠ 0
  · simp [h2]
  have h12 : ¬ (ls = 0 ∧ le ≠ 0 ∨ rs = 0 ∧ re ≠ 0) := by intro h; cases h <;> contradiction
  have hg : (decide (ls = 0) && !decide (le = 0) || decide (rs = 0) && !decide (re = 0)) = false := by
    simpa using h12
  simp only [hg, h12, if_false, Bool.false_eq_true, toG, Int.mul_comm rs ls, Int.add_comm re le]
  simp only [modelK_repr_new, repr_round_is_model, new_not_inf, if_false, value_toGA, toG]


theorem mul_val_val_is_model (B : Nat) (m : Mode) (c : Coarse) (dub dlb : Int → Nat) (ls le : Int) (pl : Nat) (rs re : Int)
    (pr : Nat) :
    FBig_mul_val_val (modelK2 B m c dub dlb) ⟨⟨ls, le⟩, ⟨(pl : Int)⟩⟩ ⟨⟨rs, re⟩, ⟨(pr : Int)⟩⟩ =
      mulFormSpec B m c ls le pl rs re pr := by
  unfold FBig_mul_val_val mulFormSpec opMul
  simp only [context_max_eq, assert_finite_operands, Repr_is_infinite, is_zero_int, eq_int, ne_int, mul_int, add_int,
    modelK2_toFloatK, modelK2_repr_new, repr_round_is_model, new_not_inf, if_false, FBig_new, value_toGA]
  by_cases h1 : ls = 0 ∧ le ≠ 0
  · simp [h1]
  by_cases h2 : rs = 0 ∧ re ≠ 0
  · simp [h2]
  have h12 : ¬ (ls = 0 ∧ le ≠ 0 ∨ rs = 0 ∧ re ≠ 0) := by intro h; cases h <;> contradiction
  have hg : (decide (ls = 0) && !decide (le = 0) || decide (rs = 0) && !decide (re = 0)) = false := by
    simpa using h12
  simp only [hg, h12, if_false, Bool.false_eq_true, toG, Int.mul_comm rs ls, Int.add_comm re le]
  simp only [modelK_repr_new, repr_round_is_model, new_not_inf, if_false, value_toGA, toG]


/-- C15 for `FBig * FBig`: the four ownership forms as regenerated return the same result on all operands -/
theorem mul_forms_agree (B : Nat) (m : Mode) (c : Coarse) (dub dlb : Int → Nat) (x y : GluePrelude.FBig)
    (hx : 0 ≤ x.context.precision) (hy : 0 ≤ y.context.precision) :
    FBig_mul_val_val (modelK2 B m c dub dlb) x y = FBig_mul_ref_ref (modelK2 B m c dub dlb) x y ∧
    FBig_mul_val_ref (modelK2 B m c dub dlb) x y = FBig_mul_ref_ref (modelK2 B m c dub dlb) x y ∧
    FBig_mul_ref_val (modelK2 B m c dub dlb) x y = FBig_mul_ref_ref (modelK2 B m c dub dlb) x y := by
  obtain ⟨⟨ls, le⟩, ⟨pl⟩⟩ := x
  obtain ⟨⟨rs, re⟩, ⟨pr⟩⟩ := y
  obtain ⟨pl, rfl⟩ := Int.eq_ofNat_of_zero_le hx
  obtain ⟨pr, rfl⟩ := Int.eq_ofNat_of_zero_le hy
  rw [mul_val_val_is_model, mul_val_ref_is_model, mul_ref_val_is_model, mul_ref_ref_is_model]
  exact ⟨rfl, rfl, rfl⟩

theorem modelK2_shl (B : Nat) (m : Mode) (c : Coarse) (dub dlb : Int → Nat) (x n : Int) :
    (modelK2 B m c dub dlb).shl_digits x n = shlDigits B x n.toNat := rfl
theorem modelK2_digit_len (B : Nat) (m : Mode) (c : Coarse) (dub dlb : Int → Nat) (v : Int) :
    (modelK2 B m c dub dlb).digit_len v = (digitsI B v : Int) := rfl
theorem modelK2_round_ratio (B : Nat) (m : Mode) (c : Coarse) (dub dlb : Int → Nat) (q r d : Int) :
    (modelK2 B m c dub dlb).round_ratio q r d = roundRatio m q r d := rfl
theorem modelK2_digits_lb (B : Nat) (m : Mode) (c : Coarse) (dub dlb : Int → Nat) (r : GluePrelude.FRepr) :
    (modelK2 B m c dub dlb).digits_lb r = (dlb r.significand : Int) := rfl
theorem modelK2_digits_ub (B : Nat) (m : Mode) (c : Coarse) (dub dlb : Int → Nat) (r : GluePrelude.FRepr) :
    (modelK2 B m c dub dlb).digits_ub r = (dub r.significand : Int) := rfl

/-- digit counts are monotone in the magnitude -/
theorem digitsI_mono (B : Nat) (hB : 2 ≤ B) (a b : Int) (h : a.natAbs ≤ b.natAbs) : digitsI B a ≤ digitsI B b := by
  by_cases ha : a = 0
  · subst ha; simp [digitsI, digits_zero]
  · have h1 := (digitsI_lower B hB a ha).1
    have h2 := digitsI_upper B hB b
    have hB1 : 1 < B := by omega
    have : digitsI B a - 1 < digitsI B b :=
      (Nat.pow_lt_pow_iff_right hB1).mp (lt_of_le_of_lt h1 (lt_of_le_of_lt h h2))
    omega

/-- the remainder of a truncating division has at most as many digits as the divisor (why the `usize` subtraction
    `ddigits + precision - rdigits` of `repr_div` cannot underflow) -/
theorem digitsI_tmod_le (B : Nat) (hB : 2 ≤ B) (a b : Int) (hb : b ≠ 0) : digitsI B (Int.tmod a b) ≤ digitsI B b := by
  apply digitsI_mono B hB
  have := (tdiv_tmod_nz a b hb).2
  rw [Int.abs_eq_natAbs, Int.abs_eq_natAbs] at this
  omega

/-- the model's panic kinds as the regenerated text names them -/
def toGP : FPanic → GluePrelude.Panic
  | .unlimitedPrecision => .UnlimitedPrecision
  | .divideByZero => .DivideByZero
  | .rootNegative => .RootNegative

/-- a model result (panic or rounded value) as the regenerated text returns it -/
def toGE (r : Except FPanic (Rounded Model.Float.FRepr)) : Except GluePrelude.Panic (Approx GluePrelude.FRepr) :=
  match r with
  | .error e => .error (toGP e)
  | .ok v => .ok (toGA toG v)

/-- **`Context::repr_div` as regenerated = `Model.Float.reprDiv`** (the function `Props/C03.div_contract` is about and the
    driver executes), for all operands, precisions, bases ≥ 2 and modes; `assert_finite_operands` fires exactly for an
    infinite operand, before the precision and divisor checks -/
theorem repr_div_is_model (B : Nat) (hB : 2 ≤ B) (m : Mode) (c : Coarse) (dub dlb : Int → Nat) (p : Nat) (ls le rs re : Int) :
    Context_repr_div (modelK2 B m c dub dlb) ⟨(p : Int)⟩ ⟨ls, le⟩ ⟨rs, re⟩ =
      if (ls = 0 ∧ le ≠ 0) ∨ (rs = 0 ∧ re ≠ 0) then .error .OperateWithInf
      else toGE (reprDiv B m p ⟨ls, le⟩ ⟨rs, re⟩) := by
  unfold Context_repr_div reprDiv toGE
  simp only [assert_finite_operands, assert_limited_precision, Repr_is_infinite, is_zero_int, eq_int, ne_int, lt_int, sub_int, add_int,
    IBig_div_rem]
  by_cases h1 : ls = 0 ∧ le ≠ 0
  · simp [h1]
  by_cases h2 : rs = 0 ∧ re ≠ 0
  · simp [h2]
  have h12 : ¬ (ls = 0 ∧ le ≠ 0 ∨ rs = 0 ∧ re ≠ 0) := by intro h; cases h <;> contradiction
  have hg : (decide (ls = 0) && !decide (le = 0) || decide (rs = 0) && !decide (re = 0)) = false := by
    simpa using h12
  simp only [hg, h12, if_false, Bool.false_eq_true]
  by_cases hp : p = 0
  · simp [hp, toGP]
  have hp' : ¬ ((p : Int) = 0) := by omega
  simp only [hp, hp', decide_false, if_false, Bool.false_eq_true]
  by_cases hr : rs = 0
  · simp [hr, toGP]
  simp only [hr, if_false, modelK2_shl, modelK2_digit_len, modelK2_round_ratio, modelK2_repr_new]
  by_cases hr0 : ls.tmod rs = 0
  · simp [hr0, toGA, toG]
  simp only [hr0, decide_false, if_false, Bool.false_eq_true]
  unfold divAlign
  have hd := digitsI_tmod_le B hB ls rs hr
  by_cases hq : ls.tdiv rs = 0
  · simp only [hq, decide_true, if_true]
    have e1 : ((digitsI B rs : Int) + (p : Int) - (digitsI B (ls.tmod rs) : Int)).toNat =
        digitsI B rs + p - digitsI B (ls.tmod rs) := by omega
    have e2 : ((digitsI B rs : Int) + (p : Int) - (digitsI B (ls.tmod rs) : Int)) =
        ((digitsI B rs + p - digitsI B (ls.tmod rs) : Nat) : Int) := by omega
    rw [e2]; simp only [Int.toNat_natCast]
    generalize digitsI B rs + p - digitsI B (ls.tmod rs) = k
    by_cases hz : (shlDigits B (ls.tmod rs) k).tmod rs = 0 <;>
      simp only [hz, decide_true, decide_false, if_true, if_false, Bool.false_eq_true, toGA, toG, int_add_rounding_eq]
  · simp only [hq, decide_false, if_false, Bool.false_eq_true]
    by_cases hn : digitsI B (ls.tdiv rs) + digitsI B rs < digitsI B rs + p
    · have hn' : ((digitsI B (ls.tdiv rs) : Int) + (digitsI B rs : Int) < (digitsI B rs : Int) + (p : Int)) := by omega
      have e1 : ((digitsI B rs : Int) + (p : Int) - ((digitsI B (ls.tdiv rs) : Int) + (digitsI B rs : Int))).toNat =
          digitsI B rs + p - (digitsI B (ls.tdiv rs) + digitsI B rs) := by omega
      have e2 : ((digitsI B rs : Int) + (p : Int) - ((digitsI B (ls.tdiv rs) : Int) + (digitsI B rs : Int))) =
          ((digitsI B rs + p - (digitsI B (ls.tdiv rs) + digitsI B rs) : Nat) : Int) := by omega
      simp only [hn, hn', decide_true, if_true]
      rw [e2]; simp only [Int.toNat_natCast]
      generalize digitsI B rs + p - (digitsI B (ls.tdiv rs) + digitsI B rs) = k
      by_cases hz : (shlDigits B (ls.tmod rs) k).tmod rs = 0 <;>
        simp only [hz, decide_true, decide_false, if_true, if_false, Bool.false_eq_true, toGA, toG, int_add_rounding_eq]
    · have hn' : ¬ ((digitsI B (ls.tdiv rs) : Int) + (digitsI B rs : Int) < (digitsI B rs : Int) + (p : Int)) := by omega
      simp only [hn, hn', decide_false, if_false, Bool.false_eq_true]
      simp [hr0, toGA, toG, int_add_rounding_eq]

theorem modelK_digits_ub (B : Nat) (m : Mode) (c : Coarse) (dub : Int → Nat) (s e : Int) :
    (modelK B m c dub).digits_ub ⟨s, e⟩ = (dub s : Int) := rfl

/-- rounding a finite representation gives a finite one -/
theorem reprRound_not_inf (B : Nat) (m : Mode) (c : Coarse) (p : Nat) (s e : Int) (h : ¬ (s = 0 ∧ e ≠ 0)) :
    ¬ ((reprRound B m c p ⟨s, e⟩).1.signif = 0 ∧ (reprRound B m c p ⟨s, e⟩).1.exp ≠ 0) := by
  unfold reprRound
  by_cases hp : p = 0
  · simpa [hp] using h
  · simp only [hp, if_false]
    by_cases hd : Model.Float.FRepr.digits B ⟨s, e⟩ > p
    · simp only [hd, if_true]; exact new_not_inf B _ _
    · simpa [hd] using h

/-- `Except.map` on the regenerated result type (stated by cases so that no instance is needed) -/
def mapOk {α β} (f : α → β) : Except GluePrelude.Panic α → Except GluePrelude.Panic β
  | .error e => .error e
  | .ok v => .ok (f v)

/-- **`Context::div` as regenerated = `Model.Float.ctxDiv`** (pre-shrink of an over-long dividend decided on the
    `digits_lb` / `digits_ub` estimates, then `repr_div`) -/
theorem context_div_is_model (B : Nat) (hB : 2 ≤ B) (m : Mode) (c : Coarse) (dub dlb : Int → Nat) (p : Nat) (ls le rs re : Int) :
    Context_div (modelK2 B m c dub dlb) ⟨(p : Int)⟩ ⟨ls, le⟩ ⟨rs, re⟩ =
      if (ls = 0 ∧ le ≠ 0) ∨ (rs = 0 ∧ re ≠ 0) then .error .OperateWithInf
      else mapOk (Approx.map (fun v => (⟨v, ⟨(p : Int)⟩⟩ : GluePrelude.FBig)))
        (toGE (ctxDiv B m c dub dlb p ⟨ls, le⟩ ⟨rs, re⟩)) := by
  unfold Context_div ctxDiv
  simp only [assert_finite_operands, Repr_is_infinite, Repr_is_zero, Model.Float.FRepr.isZero, is_zero_int, eq_int, ne_int,
    lt_int, add_int, modelK2_digits_lb, modelK2_digits_ub, modelK2_digits, modelK2_toFloatK, Context_new, modelK_digits,
    modelK_digits_ub]
  by_cases h1 : ls = 0 ∧ le ≠ 0
  · simp [h1]
  by_cases h2 : rs = 0 ∧ re ≠ 0
  · simp [h2]
  have h12 : ¬ (ls = 0 ∧ le ≠ 0 ∨ rs = 0 ∧ re ≠ 0) := by intro h; cases h <;> contradiction
  have hg : (decide (ls = 0) && !decide (le = 0) || decide (rs = 0) && !decide (re = 0)) = false := by
    simpa using h12
  simp only [hg, h12, if_false, Bool.false_eq_true]
  have hcast : (digitsI B rs : Int) + (p : Int) = ((digitsI B rs + p : Nat) : Int) := by omega
  by_cases hc : (¬ (ls = 0 ∧ le = 0)) ∧ dlb rs + p < dub ls
  · have hc1 : (!(decide (ls = 0) && decide (le = 0)) && decide ((dlb rs : Int) + (p : Int) < (dub ls : Int))) = true := by
      have : (dlb rs : Int) + (p : Int) < (dub ls : Int) := by omega
      have h3 : ¬ ls = 0 ∨ ¬ le = 0 := by omega
      simp [this, h3]
    have hc2 : (¬ ((ls == 0 && le == 0) = true)) ∧ dub ls > dlb rs + p := by
      refine ⟨?_, hc.2⟩
      simpa using hc.1
    simp only [hc1, hc2, if_true, hcast, repr_round_ref_is_model, h1, if_false, value_toGA, toG, Model.Float.FRepr.digits,
      and_self, not_false_eq_true]
    have hf := reprRound_not_inf B m c (digitsI B rs + p) ls le h1
    generalize (reprRound B m c (digitsI B rs + p) ⟨ls, le⟩).1 = x at hf ⊢
    obtain ⟨xs, xe⟩ := x
    rw [repr_div_is_model B hB]
    have : ¬ ((xs = 0 ∧ xe ≠ 0) ∨ (rs = 0 ∧ re ≠ 0)) := by intro h; cases h <;> contradiction
    simp only [this, if_false, FBig_new, Bool.false_eq_true, not_false_eq_true, and_self, and_true, true_and, if_true]
    cases reprDiv B m p ⟨xs, xe⟩ ⟨rs, re⟩ <;> simp [toGE, mapOk]
  · have hc1 : (!(decide (ls = 0) && decide (le = 0)) && decide ((dlb rs : Int) + (p : Int) < (dub ls : Int))) = false := by
      by_cases hz : ls = 0 ∧ le = 0
      · simp [hz]
      · have : ¬ (dlb rs : Int) + (p : Int) < (dub ls : Int) := by
          intro h; exact hc ⟨hz, by omega⟩
        simp [this]
    have hc2 : ¬ ((¬ ((ls == 0 && le == 0) = true)) ∧ dub ls > dlb rs + p) := by
      intro h; apply hc; refine ⟨?_, h.2⟩; simpa using h.1
    simp only [hc1, hc2, if_false, Bool.false_eq_true]
    rw [repr_div_is_model B hB]
    simp only [h12, if_false, FBig_new]
    cases reprDiv B m p ⟨ls, le⟩ ⟨rs, re⟩ <;> simp [toGE, mapOk]

/-- **`Context::inv` as regenerated = `Model.Float.ctxInv`** (`repr_div` of `Repr::one()`) -/
theorem context_inv_is_model (B : Nat) (hB : 2 ≤ B) (m : Mode) (c : Coarse) (dub dlb : Int → Nat) (p : Nat) (s e : Int) :
    Context_inv (modelK2 B m c dub dlb) ⟨(p : Int)⟩ ⟨s, e⟩ =
      if s = 0 ∧ e ≠ 0 then .error .OperateWithInf
      else mapOk (Approx.map (fun v => (⟨v, ⟨(p : Int)⟩⟩ : GluePrelude.FBig))) (toGE (ctxInv B m p ⟨s, e⟩)) := by
  unfold Context_inv ctxInv Repr_one
  rw [repr_div_is_model B hB]
  by_cases h1 : s = 0 ∧ e ≠ 0
  · simp [h1]
  · simp only [h1, or_false, if_false, FBig_new]
    have : ¬ ((1 : Int) = 0 ∧ (0 : Int) ≠ 0) := by omega
    simp only [this, if_false]
    cases reprDiv B m p ⟨1, 0⟩ ⟨s, e⟩ <;> simp [toGE, mapOk]

/-- what the four operator forms of `FBig / FBig` return: `repr_div` at `Context::max` (no pre-shrink) -/
def divFormSpec (B : Nat) (m : Mode) (ls le : Int) (pl : Nat) (rs re : Int) (pr : Nat) : Except GluePrelude.Panic GluePrelude.FBig :=
  if (ls = 0 ∧ le ≠ 0) ∨ (rs = 0 ∧ re ≠ 0) then .error .OperateWithInf
  else mapOk (fun v => (⟨Approx.value v, ⟨((Nat.max pl pr : Nat) : Int)⟩⟩ : GluePrelude.FBig))
    (toGE (reprDiv B m (Nat.max pl pr) ⟨ls, le⟩ ⟨rs, re⟩))

theorem div_val_val_is_model (B : Nat) (hB : 2 ≤ B) (m : Mode) (c : Coarse) (dub dlb : Int → Nat) (ls le : Int) (pl : Nat)
    (rs re : Int) (pr : Nat) :
    FBig_div_val_val (modelK2 B m c dub dlb) ⟨⟨ls, le⟩, ⟨(pl : Int)⟩⟩ ⟨⟨rs, re⟩, ⟨(pr : Int)⟩⟩ = divFormSpec B m ls le pl rs re pr := by
  unfold FBig_div_val_val divFormSpec
  simp only [context_max_eq, repr_div_is_model B hB, FBig_new]
  by_cases hinf : (ls = 0 ∧ le ≠ 0) ∨ (rs = 0 ∧ re ≠ 0)
  · simp only [hinf, if_true]
  · simp only [hinf, if_false]
    cases reprDiv B m (Nat.max pl pr) ⟨ls, le⟩ ⟨rs, re⟩ <;> simp [toGE, mapOk]

theorem div_ref_val_is_model (B : Nat) (hB : 2 ≤ B) (m : Mode) (c : Coarse) (dub dlb : Int → Nat) (ls le : Int) (pl : Nat)
    (rs re : Int) (pr : Nat) :
    FBig_div_ref_val (modelK2 B m c dub dlb) ⟨⟨ls, le⟩, ⟨(pl : Int)⟩⟩ ⟨⟨rs, re⟩, ⟨(pr : Int)⟩⟩ = divFormSpec B m ls le pl rs re pr := by
  unfold FBig_div_ref_val divFormSpec
  simp only [context_max_eq, repr_div_is_model B hB, FBig_new]
  by_cases hinf : (ls = 0 ∧ le ≠ 0) ∨ (rs = 0 ∧ re ≠ 0)
  · simp only [hinf, if_true]
  · simp only [hinf, if_false]
    cases reprDiv B m (Nat.max pl pr) ⟨ls, le⟩ ⟨rs, re⟩ <;> simp [toGE, mapOk]

theorem div_val_ref_is_model (B : Nat) (hB : 2 ≤ B) (m : Mode) (c : Coarse) (dub dlb : Int → Nat) (ls le : Int) (pl : Nat)
    (rs re : Int) (pr : Nat) :
    FBig_div_val_ref (modelK2 B m c dub dlb) ⟨⟨ls, le⟩, ⟨(pl : Int)⟩⟩ ⟨⟨rs, re⟩, ⟨(pr : Int)⟩⟩ = divFormSpec B m ls le pl rs re pr := by
  unfold FBig_div_val_ref divFormSpec
  simp only [context_max_eq, repr_div_is_model B hB, FBig_new]
  by_cases hinf : (ls = 0 ∧ le ≠ 0) ∨ (rs = 0 ∧ re ≠ 0)
  · simp only [hinf, if_true]
  · simp only [hinf, if_false]
    cases reprDiv B m (Nat.max pl pr) ⟨ls, le⟩ ⟨rs, re⟩ <;> simp [toGE, mapOk]

theorem div_ref_ref_is_model (B : Nat) (hB : 2 ≤ B) (m : Mode) (c : Coarse) (dub dlb : Int → Nat) (ls le : Int) (pl : Nat)
    (rs re : Int) (pr : Nat) :
    FBig_div_ref_ref (modelK2 B m c dub dlb) ⟨⟨ls, le⟩, ⟨(pl : Int)⟩⟩ ⟨⟨rs, re⟩, ⟨(pr : Int)⟩⟩ = divFormSpec B m ls le pl rs re pr := by
  unfold FBig_div_ref_ref divFormSpec
  simp only [context_max_eq, repr_div_is_model B hB, FBig_new]
  by_cases hinf : (ls = 0 ∧ le ≠ 0) ∨ (rs = 0 ∧ re ≠ 0)
  · simp only [hinf, if_true]
  · simp only [hinf, if_false]
    cases reprDiv B m (Nat.max pl pr) ⟨ls, le⟩ ⟨rs, re⟩ <;> simp [toGE, mapOk]

/-- the operator `FBig / FBig` (all four forms) = the `Context::div` of the maximal precision whenever `Context::div` does
    not pre-shrink, i.e. for every dividend the estimates place within `rhs.digits + p` digits (all operands that fit `p`) -/
theorem div_operator_eq_context_div (B : Nat) (hB : 2 ≤ B) (m : Mode) (c : Coarse) (dub dlb : Int → Nat) (ls le : Int) (pl : Nat)
    (rs re : Int) (pr : Nat) (hns : ¬ (¬ (ls = 0 ∧ le = 0) ∧ dlb rs + Nat.max pl pr < dub ls)) :
    mapOk (fun v => (⟨v, ⟨((Nat.max pl pr : Nat) : Int)⟩⟩ : GluePrelude.FBig))
      (mapOk (fun a => Approx.value (Approx.map GluePrelude.FBig.repr a))
        (Context_div (modelK2 B m c dub dlb) ⟨((Nat.max pl pr : Nat) : Int)⟩ ⟨ls, le⟩ ⟨rs, re⟩)) =
      FBig_div_ref_ref (modelK2 B m c dub dlb) ⟨⟨ls, le⟩, ⟨(pl : Int)⟩⟩ ⟨⟨rs, re⟩, ⟨(pr : Int)⟩⟩ := by
  rw [div_ref_ref_is_model B hB, context_div_is_model B hB]
  unfold divFormSpec ctxDiv
  have hc2 : ¬ ((¬ (Model.Float.FRepr.isZero ⟨ls, le⟩ = true)) ∧ dub ls > dlb rs + Nat.max pl pr) := by
    intro h; apply hns; refine ⟨?_, h.2⟩; simpa [Model.Float.FRepr.isZero] using h.1
  simp only [hc2, if_false]
  by_cases hinf : (ls = 0 ∧ le ≠ 0) ∨ (rs = 0 ∧ re ≠ 0)
  · simp only [hinf, if_true, mapOk]
  · simp only [hinf, if_false]
    cases reprDiv B m (Nat.max pl pr) ⟨ls, le⟩ ⟨rs, re⟩ with
    | error e => simp [toGE, mapOk]
    | ok v => obtain ⟨v, f⟩ := v; cases f <;> simp [toGE, mapOk, toGA, Approx.map, Approx.value]

/-- the hypothesis of `div_operator_eq_context_div` holds for operands that fit the precision under exact digit counts
    (`dub = dlb = digitsI`): 123 / 7 at precision 3 -/
example : ¬ (¬ ((123 : Int) = 0 ∧ (0 : Int) = 0) ∧ digitsI 10 7 + Nat.max 3 3 < digitsI 10 123) := by decide

/-- **`<FBig as Inverse>::inv`, both forms, as regenerated** = the value of `ctxInv` at the operand's own precision -/
theorem inv_val_is_model (B : Nat) (hB : 2 ≤ B) (m : Mode) (c : Coarse) (dub dlb : Int → Nat) (s e : Int) (p : Nat) :
    FBig_inv_val (modelK2 B m c dub dlb) ⟨⟨s, e⟩, ⟨(p : Int)⟩⟩ =
      if s = 0 ∧ e ≠ 0 then .error .OperateWithInf
      else mapOk (fun v => (⟨Approx.value v, ⟨(p : Int)⟩⟩ : GluePrelude.FBig)) (toGE (ctxInv B m p ⟨s, e⟩)) := by
  unfold FBig_inv_val
  simp only [context_inv_is_model B hB]
  by_cases hinf : s = 0 ∧ e ≠ 0
  · rw [if_pos hinf, if_pos hinf]
  · rw [if_neg hinf, if_neg hinf]
    cases ctxInv B m p ⟨s, e⟩ with
    | error e => simp [toGE, mapOk]
    | ok v => obtain ⟨v, f⟩ := v; cases f <;> simp [toGE, mapOk, toGA, Approx.map, Approx.value]

theorem inv_ref_is_model (B : Nat) (hB : 2 ≤ B) (m : Mode) (c : Coarse) (dub dlb : Int → Nat) (s e : Int) (p : Nat) :
    FBig_inv_ref (modelK2 B m c dub dlb) ⟨⟨s, e⟩, ⟨(p : Int)⟩⟩ =
      if s = 0 ∧ e ≠ 0 then .error .OperateWithInf
      else mapOk (fun v => (⟨Approx.value v, ⟨(p : Int)⟩⟩ : GluePrelude.FBig)) (toGE (ctxInv B m p ⟨s, e⟩)) := by
  unfold FBig_inv_ref
  simp only [context_inv_is_model B hB]
  by_cases hinf : s = 0 ∧ e ≠ 0
  · rw [if_pos hinf, if_pos hinf]
  · rw [if_neg hinf, if_neg hinf]
    cases ctxInv B m p ⟨s, e⟩ with
    | error e => simp [toGE, mapOk]
    | ok v => obtain ⟨v, f⟩ := v; cases f <;> simp [toGE, mapOk, toGA, Approx.map, Approx.value]

/-- **`FBig::sqr` / `FBig::cubic` as regenerated** = the value of `ctxSqr` / `ctxCubic` at the operand's own precision -/
theorem fbig_sqr_is_model (B : Nat) (m : Mode) (c : Coarse) (dub dlb : Int → Nat) (s e : Int) (p : Nat)
    (hl : (digitsI B s : Int) ≤ usize_MAX) :
    FBig_sqr (modelK2 B m c dub dlb) ⟨⟨s, e⟩, ⟨(p : Int)⟩⟩ =
      if s = 0 ∧ e ≠ 0 then .error .OperateWithInf
      else .ok ⟨toG (ctxSqr false B m c p ⟨s, e⟩).1, ⟨(p : Int)⟩⟩ := by
  unfold FBig_sqr
  simp only [context_sqr_is_model B m c dub dlb p s e hl]
  by_cases hinf : s = 0 ∧ e ≠ 0
  · rw [if_pos hinf, if_pos hinf]
  · rw [if_neg hinf, if_neg hinf]
    obtain ⟨v, f⟩ := ctxSqr false B m c p ⟨s, e⟩; cases f <;> simp [toGA, Approx.map, Approx.value]

theorem fbig_cubic_is_model (B : Nat) (m : Mode) (c : Coarse) (dub dlb : Int → Nat) (s e : Int) (p : Nat)
    (hl : (digitsI B s : Int) ≤ usize_MAX) :
    FBig_cubic (modelK2 B m c dub dlb) ⟨⟨s, e⟩, ⟨(p : Int)⟩⟩ =
      if s = 0 ∧ e ≠ 0 then .error .OperateWithInf
      else .ok ⟨toG (ctxCubic false B m c p ⟨s, e⟩).1, ⟨(p : Int)⟩⟩ := by
  unfold FBig_cubic
  simp only [context_cubic_is_model B m c dub dlb p s e hl]
  by_cases hinf : s = 0 ∧ e ≠ 0
  · rw [if_pos hinf, if_pos hinf]
  · rw [if_neg hinf, if_neg hinf]
    obtain ⟨v, f⟩ := ctxCubic false B m c p ⟨s, e⟩; cases f <;> simp [toGA, Approx.map, Approx.value]

/-! ### the rounding contract stated directly about the REGENERATED text -/

/-- **`Context::repr_div` as regenerated honours the rounding contract**: every finite dividend, every non-zero finite
    divisor, every base ≥ 2, precision ≥ 1 and mode (composition of `repr_div_is_model` with `reprDiv_contract`, the proof
    behind `Props/C03.div_contract`) -/
theorem regenerated_repr_div_contract (B : Nat) (hB : 2 ≤ B) (m : Mode) (c : Coarse) (dub dlb : Int → Nat) (p : Nat) (hp : 1 ≤ p)
    (ls le rs re : Int) (hl : ¬ (ls = 0 ∧ le ≠ 0)) (hr : rs ≠ 0) :
    ∃ r : Rounded Model.Float.FRepr,
      Context_repr_div (modelK2 B m c dub dlb) ⟨(p : Int)⟩ ⟨ls, le⟩ ⟨rs, re⟩ = .ok (toGA toG r) ∧
      Contract B m p ((⟨ls, le⟩ : Model.Float.FRepr).toRat B / (⟨rs, re⟩ : Model.Float.FRepr).toRat B) (r.1.toRat B) r.2 := by
  obtain ⟨r, h1, h2⟩ := reprDiv_contract B hB m p hp ⟨ls, le⟩ ⟨rs, re⟩ hr
  refine ⟨r, ?_, h2⟩
  rw [repr_div_is_model B hB]
  have : ¬ ((ls = 0 ∧ le ≠ 0) ∨ (rs = 0 ∧ re ≠ 0)) := by
    intro h; rcases h with h | h
    · exact hl h
    · exact hr h.1
  rw [if_neg this, h1]; rfl

/-- **`Context::inv` as regenerated honours the rounding contract** for every finite non-zero operand -/
theorem regenerated_inv_contract (B : Nat) (hB : 2 ≤ B) (m : Mode) (c : Coarse) (dub dlb : Int → Nat) (p : Nat) (hp : 1 ≤ p)
    (s e : Int) (hs : s ≠ 0) :
    ∃ r : Rounded Model.Float.FRepr,
      Context_inv (modelK2 B m c dub dlb) ⟨(p : Int)⟩ ⟨s, e⟩ =
        .ok (Approx.map (fun v => (⟨v, ⟨(p : Int)⟩⟩ : GluePrelude.FBig)) (toGA toG r)) ∧
      Contract B m p ((⟨1, 0⟩ : Model.Float.FRepr).toRat B / (⟨s, e⟩ : Model.Float.FRepr).toRat B) (r.1.toRat B) r.2 := by
  obtain ⟨r, h1, h2⟩ := reprDiv_contract B hB m p hp ⟨1, 0⟩ ⟨s, e⟩ hs
  refine ⟨r, ?_, h2⟩
  rw [context_inv_is_model B hB]
  have : ¬ (s = 0 ∧ e ≠ 0) := fun h => hs h.1
  rw [if_neg this]
  unfold ctxInv
  rw [h1]; rfl

/-- **`Context::mul` as regenerated honours the rounding contract** for finite operands of at most `2p` digits (all that fit
    `p`); the excluded region is the recorded pre-shrink finding (`Props/C03.mul_preshrink_counterexample`).
    Round 6 (fix 5768014, `self.precision.saturating_mul(2)`): the hypothesis `2p ≤ usize::MAX` of round 5 existed only
    because `2 * precision` wrapped; it is gone — every precision `p ≥ 1` is covered. What remains is the Nat/usize gap of
    the operand LENGTHS (`hul`/`hur`: at most `usize::MAX` digits, true of every value in memory; the translator reads
    `saturating_mul` as the exact product, which agrees with the saturated one in the test `max_precision < digits`
    exactly under this hypothesis). -/
theorem regenerated_mul_contract (B : Nat) (hB : 2 ≤ B) (m : Mode) (c : Coarse) (hc : CoarseSound c) (dub dlb : Int → Nat)
    (p : Nat) (hp : 1 ≤ p) (ls le rs re : Int) (hl : ¬ (ls = 0 ∧ le ≠ 0)) (hr : ¬ (rs = 0 ∧ re ≠ 0))
    (ha : digitsI B ls ≤ 2 * p) (hb : digitsI B rs ≤ 2 * p)
    (hul : (digitsI B ls : Int) ≤ usize_MAX) (hur : (digitsI B rs : Int) ≤ usize_MAX) :
    ∃ r : Rounded Model.Float.FRepr,
      Context_mul (modelK2 B m c dub dlb) ⟨(p : Int)⟩ ⟨ls, le⟩ ⟨rs, re⟩ =
        .ok (Approx.map (fun v => (⟨v, ⟨(p : Int)⟩⟩ : GluePrelude.FBig)) (toGA toG r)) ∧
      Contract B m p ((⟨ls, le⟩ : Model.Float.FRepr).toRat B * (⟨rs, re⟩ : Model.Float.FRepr).toRat B) (r.1.toRat B) r.2 := by
  refine ⟨ctxMul false B m c p ⟨ls, le⟩ ⟨rs, re⟩, ?_, ?_⟩
  · rw [context_mul_is_model B m c dub dlb p ls le rs re hul hur]
    have : ¬ ((ls = 0 ∧ le ≠ 0) ∨ (rs = 0 ∧ re ≠ 0)) := by
      intro h; rcases h with h | h
      · exact hl h
      · exact hr h
    rw [if_neg this]
  · rw [ctxMul_asis B m c p ⟨ls, le⟩ ⟨rs, re⟩ ha hb, ctxMul_fixed_eq_op]
    exact opMul_contract B hB m c hc p hp ⟨ls, le⟩ ⟨rs, re⟩

/-- the hypotheses of the three theorems above are satisfiable together on non-trivial values -/
example : ¬ ((12 : Int) = 0 ∧ (-1 : Int) ≠ 0) ∧ (7 : Int) ≠ 0 ∧ digitsI 10 12 ≤ 2 * 3 ∧ (digitsI 10 12 : Int) ≤ usize_MAX := by
  decide

/-- the digit hypothesis of `context_mul_is_model` etc. is satisfiable on a non-trivial value -/
example : (digitsI 10 123456789 : Int) ≤ usize_MAX := by decide

end Dashu.Props.GenFloatArith
