import Dashu.Proofs.Trans.StopLink
/-
  C11 -> C14 (round 8): the FBig comparisons inside the stop tests of the series loops.
  The mirror (Model/Trans/Series.lean) writes `increase.abs_cmp(&sum.sub_ulp())` (exp_internal, ln_internal) as `reprAbsCmp`
  and `increase < sum.sub_ulp()` (iacoth) as `reprCmp`: both at specification level (value order).  C14 proves that the
  code's comparison routine `repr_cmp_same_base::<B, ABS>` of float/src/cmp.rs (model `reprCmpSameBase`: sign test,
  exponent+precision shortcut, exponent+digits shortcut with the estimate oracle, aligned comparison) is the value order
  for every sound oracle.  Composed here: the DECISION of each stop test is the same whichever of the two is evaluated, so
  the stop tests are no longer "at specification" with respect to cmp.rs.  The second operand is `sub_ulp = <1, e>`
  (`fSubUlp` always has significand 1).  Kept apart from Props/C11Series so that module does not depend on C14's proofs.
-/
namespace Dashu.Props.C11Link
open Dashu.Model.Float Dashu.Model.Trans Dashu.Model.Cross
open Dashu.Proofs.Trans.StopLink

/-- exp_internal / ln_internal: `increase.abs_cmp(&sum.sub_ulp()) != Greater` decided by the mirror = decided by C14's model of
    `repr_cmp_same_base::<B, true>` (hypotheses: sound oracle, positive `increase`, C14's precision invariant of `increase`;
    `sub_ulp` meets it for any precision) -/
theorem stop_test_is_code_abs_cmp {o : Oracle} (ho : o.Sound) (B : Nat) (hB : 2 ≤ B) (a : FRepr) (e : Int)
    (h0 : 0 < a.signif) (pa pb : Nat) (hpa : PrecOK B a.signif pa) :
    reprAbsCmp B a ⟨1, e⟩ ≠ .gt ↔ reprCmpSameBase o true B a.signif a.exp 1 e (some (pa, pb)) ≠ .gt :=
  Dashu.Proofs.Trans.StopLink.stop_test_is_code_abs_cmp ho B hB a e h0 pa pb hpa

/-- iacoth: `increase < sum.sub_ulp()` decided by the mirror = decided by C14's model of `repr_cmp_same_base::<B, false>` -/
theorem stop_test_is_code_cmp {o : Oracle} (ho : o.Sound) (B : Nat) (hB : 2 ≤ B) (a : FRepr) (e : Int)
    (hs : a.signif ≠ 0) (pa pb : Nat) (hpa : PrecOK B a.signif pa) :
    reprCmp B a ⟨1, e⟩ = .lt ↔ reprCmpSameBase o false B a.signif a.exp 1 e (some (pa, pb)) = .lt :=
  Dashu.Proofs.Trans.StopLink.stop_test_is_code_cmp ho B hB a e hs pa pb hpa

/-- both stop tests as inequalities of values (the mirror's side of the link, both directions) -/
theorem stop_test_value_iff (B : Nat) (hB : 2 ≤ B) (a : FRepr) (e : Int) (h0 : 0 < a.signif) :
    (reprAbsCmp B a ⟨1, e⟩ ≠ .gt ↔ a.toRat B ≤ bpowQ B e) ∧ (reprCmp B a ⟨1, e⟩ = .lt ↔ a.toRat B < bpowQ B e) := by
  refine ⟨reprAbsCmp_ne_gt_iff B hB a e h0, ?_⟩
  have hv : (⟨1, e⟩ : FRepr).toRat B = bpowQ B e := by simp [FRepr.toRat]
  rw [reprCmp_lt_iff B hB, hv]

/-- non-vacuity: 5·10^-3 against sub_ulp = 10^-2 (stop) and 10^-3 (go on), coarse oracle, precisions 1 and 3 -/
example : (reprAbsCmp 10 ⟨5, -3⟩ ⟨1, -2⟩ ≠ .gt ↔ reprCmpSameBase Oracle.coarse true 10 5 (-3) 1 (-2) (some (1, 3)) ≠ .gt)
    ∧ reprAbsCmp 10 ⟨5, -3⟩ ⟨1, -2⟩ = .lt ∧ reprCmpSameBase Oracle.coarse true 10 5 (-3) 1 (-2) (some (1, 3)) = .lt
    ∧ reprAbsCmp 10 ⟨5, -3⟩ ⟨1, -3⟩ = .gt ∧ reprCmpSameBase Oracle.coarse true 10 5 (-3) 1 (-3) (some (1, 3)) = .gt :=
  ⟨Dashu.Props.C11Link.stop_test_is_code_abs_cmp Dashu.Props.C14.coarse_sound 10 (by omega) ⟨5, -3⟩ (-2) (by decide) 1 3
      (by intro _; norm_num [isizeMax]),
    by decide +kernel, by decide +kernel, by decide +kernel, by decide +kernel⟩

example : (reprCmp 10 ⟨5, -3⟩ ⟨1, -2⟩ = .lt ↔ reprCmpSameBase Oracle.coarse false 10 5 (-3) 1 (-2) (some (1, 3)) = .lt)
    ∧ reprCmp 10 ⟨5, -3⟩ ⟨1, -2⟩ = .lt ∧ reprCmpSameBase Oracle.coarse false 10 5 (-3) 1 (-2) (some (1, 3)) = .lt :=
  ⟨Dashu.Props.C11Link.stop_test_is_code_cmp Dashu.Props.C14.coarse_sound 10 (by omega) ⟨5, -3⟩ (-2) (by decide) 1 3
      (by intro _; norm_num [isizeMax]),
    by decide +kernel, by decide +kernel⟩

end Dashu.Props.C11Link
