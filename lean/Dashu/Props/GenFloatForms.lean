import Dashu.Props.GenFloatAdd
/-
  Tie A theorems for C03 / C15: the by-reference forms of the operators `FBig + FBig`, `FBig - FBig`
  (`add_val_ref`, `add_ref_ref` of float/src/add.rs, reached from `Add<&FBig> for FBig`, `Add<&FBig> for &FBig`,
  `Sub…`) AS REGENERATED on this run compute, at the precision `Context::max` of the two operands, the value that the
  hand-written model's `opAddSub` (`Proofs/Float/Review.lean`) names: a zero operand returns the other one (sign
  applied) rounded to that precision (`context.repr_round(..).value()`, fix 164990d), otherwise the value of `ctxAddSub`; they panic exactly for an infinite operand.  Hence the two
  forms agree with each other for all operands.  Core Lean only.
-/
set_option linter.unusedSimpArgs false
namespace Dashu.Props.GenFloatForms
open Dashu Dashu.Gen Dashu.GluePrelude Dashu.Proofs.Gen Dashu.Model.Float Dashu.Props.GenFloatOps Dashu.Props.GenFloatAdd

/-- what the operator forms return (the definition of `opAddSub` in `Proofs/Float/Review.lean`, restated here so that
    this file stays Mathlib-free) -/
def formValue (B : Nat) (m : Mode) (c : Coarse) (dub : Int → Nat) (p : Nat) (lhs rhs : Model.Float.FRepr) (rs : Int) :
    Model.Float.FRepr :=
  if lhs.isZero then (reprRound B m c p ⟨rs * rhs.signif, rhs.exp⟩).1
  else if rhs.isZero then (reprRound B m c p lhs).1
  else (ctxAddSub B m c dub p lhs rhs rs).1

theorem context_max_eq (p q : Nat) : Context_max ⟨(p : Int)⟩ ⟨(q : Int)⟩ = ⟨((Nat.max p q : Nat) : Int)⟩ := by
  unfold Context_max
  simp only [lt_int, gt_int, GluePrelude.FCtx.mk.injEq, Nat.max_def]
  by_cases h : q < p
  · have : (q : Int) < (p : Int) := by omega
    simp only [this, decide_true, if_true]; split <;> omega
  · have : ¬ (q : Int) < (p : Int) := by omega
    simp only [this, decide_false, if_false, Bool.false_eq_true]; split <;> omega

theorem value_toGA (r : Rounded Model.Float.FRepr) : Approx.value (toGA toG r) = toG r.1 := by
  obtain ⟨v, f⟩ := r
  cases f <;> rfl

theorem apply_eq (sg : Sign) (x : Int) : sg.apply x = x * rsI sg := by
  cases sg <;> simp [Sign.apply, rsI]

/-- **`add_val_ref` (`FBig ± &FBig`) as regenerated** -/
theorem add_val_ref_is_model (B : Nat) (m : Mode) (c : Coarse) (dub : Int → Nat) (ls le : Int) (pl : Nat) (rs re : Int)
    (pr : Nat) (sg : Sign) :
    add_val_ref (modelK B m c dub) ⟨⟨ls, le⟩, ⟨(pl : Int)⟩⟩ ⟨⟨rs, re⟩, ⟨(pr : Int)⟩⟩ sg =
      if (ls = 0 ∧ le ≠ 0) ∨ (rs = 0 ∧ re ≠ 0) then .error .OperateWithInf
      else .ok ⟨toG (formValue B m c dub (Nat.max pl pr) ⟨ls, le⟩ ⟨rs, re⟩ (rsI sg)), ⟨((Nat.max pl pr : Nat) : Int)⟩⟩ := by
  unfold add_val_ref formValue ctxAddSub
  simp only [context_max_eq, assert_finite_operands, Repr_is_infinite, Repr_is_zero, Model.Float.FRepr.isZero, is_zero_int,
    eq_int, ne_int, cmp_int, int_mul_sign, sign_mul_int_eq, FBig_new, add_int, sub_int]
  gcases h1 : ls = 0 <;> gcases h2 : le = 0 <;> gcases h3 : rs = 0 <;> gcases h4 : re = 0
  all_goals (try simp only [apply_eq, toG, Int.mul_comm, Int.zero_mul, Int.mul_zero, repr_round_is_model,
    repr_round_ref_is_model, value_toGA])
  all_goals (try (
    rcases int_tri le re with ⟨h_lt, h_ne, h_ngt, h_nge, h_le, h_cmp⟩ | ⟨h_nlt, h_eq, h_ngt, h_ge, h_le, h_cmp⟩ |
        ⟨h_nlt, h_ne, h_gt, h_ge, h_nle, h_cmp⟩
    · simp only [h_cmp, h_ne, h_ngt, if_false, repr_add_small_large_is_model B m c dub _ ls le rs re sg h_le h1 h3, value_toGA,
        toG, Int.mul_comm]
    · subst h_eq
      cases sg <;> (
        simp only [compare_self_int, if_true, modelK_repr_new, repr_round_is_model, new_not_inf, if_false, rsI, Int.one_mul,
          Int.mul_one, Int.mul_neg, Int.neg_mul, Int.sub_eq_add_neg, value_toGA, toG])
    · simp only [h_cmp, h_ne, h_gt, if_false, if_true, repr_add_large_small_is_model B m c dub _ ls le rs re sg h_ge h1 h3,
        value_toGA, toG]))
  -- zero-operand arms (fix 164990d): `context.repr_round(other).value()`; the other operand is finite here
  all_goals (try (
    have hc : ¬ (rs * rsI sg = 0 ∧ re ≠ 0) := by
      rintro ⟨h0, _⟩
      rcases rsI_cases sg with h | h <;> rw [h] at h0 <;> omega
    simp only [hc, if_false, value_toGA, toG]))
  all_goals (try simp only [h1, ne_eq, not_true_eq_false, and_false, false_and, if_false, value_toGA, toG])

/-- **`add_ref_ref` (`&FBig ± &FBig`) as regenerated** -/
theorem add_ref_ref_is_model (B : Nat) (m : Mode) (c : Coarse) (dub : Int → Nat) (ls le : Int) (pl : Nat) (rs re : Int)
    (pr : Nat) (sg : Sign) :
    add_ref_ref (modelK B m c dub) ⟨⟨ls, le⟩, ⟨(pl : Int)⟩⟩ ⟨⟨rs, re⟩, ⟨(pr : Int)⟩⟩ sg =
      if (ls = 0 ∧ le ≠ 0) ∨ (rs = 0 ∧ re ≠ 0) then .error .OperateWithInf
      else .ok ⟨toG (formValue B m c dub (Nat.max pl pr) ⟨ls, le⟩ ⟨rs, re⟩ (rsI sg)), ⟨((Nat.max pl pr : Nat) : Int)⟩⟩ := by
  unfold add_ref_ref formValue ctxAddSub
  simp only [context_max_eq, assert_finite_operands, Repr_is_infinite, Repr_is_zero, Model.Float.FRepr.isZero, is_zero_int,
    eq_int, ne_int, cmp_int, int_mul_sign, sign_mul_int_eq, FBig_new, add_int, sub_int]
  gcases h1 : ls = 0 <;> gcases h2 : le = 0 <;> gcases h3 : rs = 0 <;> gcases h4 : re = 0
  all_goals (try simp only [apply_eq, toG, Int.mul_comm, Int.zero_mul, Int.mul_zero, repr_round_is_model,
    repr_round_ref_is_model, value_toGA])
  all_goals (try (
    rcases int_tri le re with ⟨h_lt, h_ne, h_ngt, h_nge, h_le, h_cmp⟩ | ⟨h_nlt, h_eq, h_ngt, h_ge, h_le, h_cmp⟩ |
        ⟨h_nlt, h_ne, h_gt, h_ge, h_nle, h_cmp⟩
    · simp only [h_cmp, h_ne, h_ngt, if_false, repr_add_small_large_is_model B m c dub _ ls le rs re sg h_le h1 h3, value_toGA,
        toG, Int.mul_comm]
    · subst h_eq
      cases sg <;> (
        simp only [compare_self_int, if_true, modelK_repr_new, repr_round_is_model, new_not_inf, if_false, rsI, Int.one_mul,
          Int.mul_one, Int.mul_neg, Int.neg_mul, Int.sub_eq_add_neg, value_toGA, toG])
    · simp only [h_cmp, h_ne, h_gt, if_false, if_true, repr_add_large_small_is_model B m c dub _ ls le rs re sg h_ge h1 h3,
        value_toGA, toG]))
  -- zero-operand arms (fix 164990d): `context.repr_round(other).value()`; the other operand is finite here
  all_goals (try (
    have hc : ¬ (rs * rsI sg = 0 ∧ re ≠ 0) := by
      rintro ⟨h0, _⟩
      rcases rsI_cases sg with h | h <;> rw [h] at h0 <;> omega
    simp only [hc, if_false, value_toGA, toG]))
  all_goals (try simp only [h1, ne_eq, not_true_eq_false, and_false, false_and, if_false, value_toGA, toG])

/-- C15 for these two forms: they return the same result (value, precision, panic) on all operands -/
theorem add_val_ref_eq_add_ref_ref (B : Nat) (m : Mode) (c : Coarse) (dub : Int → Nat) (ls le : Int) (pl : Nat) (rs re : Int)
    (pr : Nat) (sg : Sign) :
    add_val_ref (modelK B m c dub) ⟨⟨ls, le⟩, ⟨(pl : Int)⟩⟩ ⟨⟨rs, re⟩, ⟨(pr : Int)⟩⟩ sg =
      add_ref_ref (modelK B m c dub) ⟨⟨ls, le⟩, ⟨(pl : Int)⟩⟩ ⟨⟨rs, re⟩, ⟨(pr : Int)⟩⟩ sg := by
  rw [add_val_ref_is_model, add_ref_ref_is_model]

end Dashu.Props.GenFloatForms
