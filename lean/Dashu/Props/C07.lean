import Dashu.Proofs.Text.Fmt
import Dashu.Proofs.Text.Layout
/-
  C07 — Integer text and byte encodings round-trip and match the reference digits.

  Property theorems only (helper lemmas live in `Dashu/Proofs/Text`).  Every statement quantifies
  over all word sizes `W`, all radices and all integers; nothing is bounded.  The definitions are
  the ones `Dashu/Driver/Text.lean` executes.
-/
namespace Dashu.Props.C07
open Dashu.Model.Text

/-- positional representation: the reference digits of `n` evaluate to `n`, are all `< r`, and have no
    leading zero -/
theorem positional_representation (r n : Nat) (hr : 2 ≤ r) :
    ofDigits r (digits r n) = n ∧ (∀ d ∈ digits r n, d < r) ∧ digits r n ≠ [] ∧
    (n ≠ 0 → (digits r n).head? ≠ some 0) :=
  ⟨ofDigits_digits hr n, digits_lt hr n, digits_ne_nil r n hr,
   fun hn => by rw [digits_of_ne_zero hn]; exact digitsAux_head_ne_zero hr n⟩

/-- `math::max_exp_in_word`: for every word size and base, `range_per_word = base^digits_per_word`
    fits a word, `digits_per_word ≥ 1`, and (even `W`) it is the largest such exponent -/
theorem radix_table (W r : Nat) (hr : 2 ≤ r) (hrW : r < 2 ^ W) :
    (radixInfo W r).rpw = r ^ (radixInfo W r).dpw ∧ (radixInfo W r).rpw < 2 ^ W ∧
    1 ≤ (radixInfo W r).dpw ∧ (2 ∣ W → 2 ^ W ≤ (radixInfo W r).rpw * r) :=
  maxExpInWord_spec W r hr hrW

/-- the non-power-of-two printer (word / double word three-part split / medium repeated division /
    large divide-and-conquer tower with zero-padded chunks) prints exactly the reference digits -/
theorem print_non_pow2_digits (W r n : Nat) (hr : 2 ≤ r) (hrW : r < 2 ^ W) :
    fmtNonPow2 W r n = digits r n :=
  fmtNonPow2_eq W r n hr hrW

/-- each size class separately (the dispatcher picks by size; each printer is right on every input
    it can be given) -/
theorem print_size_classes (W r n : Nat) (hr : 2 ≤ r) (hrW : r < 2 ^ W) :
    preparedWord r n 1 = digits r n ∧
    ((radixInfo W r).rpw ≤ n → preparedDword W r n = digits r n) ∧
    (n ≠ 0 → preparedMedium W r n = digits r n) ∧
    (n ≠ 0 → preparedLarge W r n = digits r n) :=
  have ok := radixInfo_ok W r hr hrW
  ⟨preparedWord_one hr n, preparedDword_eq ok n, preparedMedium_eq ok n, preparedLarge_eq ok n⟩

/-- inner chunks are zero padded: `write_big_chunk(i, x)` writes exactly `(16·dpw)·2^i` digits -/
theorem big_chunk_padded (W r : Nat) (hr : 2 ≤ r) (hrW : r < 2 ^ W) (ps : List Nat) (x : Nat)
    (ht : IsTower r (fmtChunkLen * (radixInfo W r).dpw) ps) :
    writeBig W r ps x = digitsPad r (fmtChunkLen * (radixInfo W r).dpw * 2 ^ ps.length) x :=
  writeBig_eq (radixInfo_ok W r hr hrW) ps x ht

/-- `InRadixWriter::format_prepared` lays the text out as `Formatter::pad_integral` does -/
theorem layout_eq_pad_integral (f : FmtSpec) (neg : Bool) (pfx buf : List Nat) :
    formatPrepared f neg (if f.alt then pfx else []) buf = padIntegral f (!neg) pfx buf :=
  formatPrepared_eq_padIntegral f neg pfx buf

-- non-vacuity: the hypotheses are met by every supported radix at every supported word size
example : ∀ r ∈ [3, 10, 36], (2 : Nat) ≤ r ∧ r < 2 ^ 16 ∧ r < 2 ^ 64 := by decide
example : fmtNonPow2 64 10 (10 ^ 5000 + 7) = digits 10 (10 ^ 5000 + 7) :=
  print_non_pow2_digits 64 10 _ (by decide) (by decide)

end Dashu.Props.C07
