import Dashu.Proofs.Text.Grammar
import Dashu.Proofs.Text.BytesDecode
import Dashu.Proofs.Text.CapacityParse
import Dashu.Proofs.Text.ChunksWord
import Dashu.Proofs.Text.GrammarExtra
import Dashu.Proofs.Text.FmtWord
import Dashu.Proofs.Text.FmtLow
import Dashu.Proofs.Text.Pieces
import Dashu.Proofs.Text.ChunksInv
import Dashu.Gen.TextDigit
import Dashu.Proofs.Text.BytesBE
import Dashu.Proofs.Text.ChunksBuf
import Dashu.Proofs.Text.ChunksTight
import Dashu.Gen.TextChunks
import Dashu.Proofs.Text.BytesSignedInv
/-
  C07 — Integer text and byte encodings round-trip and match the reference digits.

  Property theorems only (helper lemmas live in `Dashu/Proofs/Text`).  Every statement quantifies
  over all word sizes `W` (the only requirement is that a radix fits a word: `36 < 2^W`, i.e.
  `W ≥ 6`), all radices 2..36, all integers and all byte strings; nothing is bounded.  The
  definitions are the ones `Dashu/Driver/Text.lean` executes.  Strings are byte lists; a byte is
  a `Nat` (the theorems hold for arbitrary naturals, hence in particular for `UInt8` values).
-/
namespace Dashu.Props.C07
open Dashu.Model.Text

-- ======================================================================= positional representation

/-- the reference digits of `n` evaluate to `n`, are all `< r`, and have no leading zero -/
theorem positional_representation (r n : Nat) (hr : 2 ≤ r) :
    ofDigits r (digits r n) = n ∧ (∀ d ∈ digits r n, d < r) ∧ digits r n ≠ [] ∧
    (n ≠ 0 → (digits r n).head? ≠ some 0) :=
  ⟨ofDigits_digits hr n, digits_lt hr n, digits_ne_nil r n hr,
   fun hn => by rw [digits_of_ne_zero hn]; exact digitsAux_head_ne_zero hr n⟩

/-- `math::max_exp_in_word`: for every word size and base, `range_per_word = base^digits_per_word`
    fits a word, `digits_per_word ≥ 1`, and (even `W`) it is the largest such exponent -/
theorem radix_table (W r : Nat) (hr : 2 ≤ r) (hrW : r < 2 ^ W) :
    (radixInfo W r).rpw = r ^ (radixInfo W r).dpw ∧ (radixInfo W r).rpw < 2 ^ W ∧
    1 ≤ (radixInfo W r).dpw ∧ (2 ∣ W → 2 ^ W ≤ (radixInfo W r).rpw * r) :=
  maxExpInWord_spec W r hr hrW

-- ======================================================================= printing

/-- the non-power-of-two printer (word / double word three-part split / medium repeated division /
    large divide-and-conquer tower with zero-padded chunks) prints exactly the reference digits -/
theorem print_non_pow2_digits (W r n : Nat) (hr : 2 ≤ r) (hrW : r < 2 ^ W) :
    fmtNonPow2 W r n = digits r n :=
  fmtNonPow2_eq W r n hr hrW

/-- each size class separately (each printer is right on every input it can be given, not only
    on the sizes the dispatcher sends to it) -/
theorem print_size_classes (W r n : Nat) (hr : 2 ≤ r) (hrW : r < 2 ^ W) :
    preparedWord r n 1 = digits r n ∧
    ((radixInfo W r).rpw ≤ n → preparedDword W r n = digits r n) ∧
    (n ≠ 0 → preparedMedium W r n = digits r n) ∧
    (n ≠ 0 → preparedLarge W r n = digits r n) :=
  have ok := radixInfo_ok W r hr hrW
  ⟨preparedWord_one hr n, preparedDword_eq ok n, preparedMedium_eq ok n, preparedLarge_eq ok n⟩

/-- inner chunks are zero padded: `write_big_chunk(i, x)` writes exactly `(16·dpw)·2^i` digits -/
theorem big_chunk_padded (W r : Nat) (hr : 2 ≤ r) (hrW : r < 2 ^ W) (ps : List Nat) (x : Nat)
    (ht : IsTower r (fmtChunkLen * (radixInfo W r).dpw) ps) :
    writeBig W r ps x = digitsPad r (fmtChunkLen * (radixInfo W r).dpw * 2 ^ ps.length) x :=
  writeBig_eq (radixInfo_ok W r hr hrW) ps x ht

/-- the power-of-two printer (shift-and-mask for one or two words, bit slicing across word
    boundaries on the word list for heap values) prints exactly the reference digits -/
theorem print_pow2_digits (W r n : Nat) (hp : isPow2 r = true) (hr : 2 ≤ r) (hrW : r < 2 ^ W) :
    fmtPow2 W r n = digits r n :=
  fmtPow2_eq W r n hp hr hrW

/-- `InRadixWriter::format_prepared` lays the text out as `Formatter::pad_integral` does, for every
    combination of sign, `+`, `#`, `0`, width, fill and alignment -/
theorem layout_eq_pad_integral (f : FmtSpec) (neg : Bool) (pfx buf : List Nat) :
    formatPrepared f neg (if f.alt then pfx else []) buf = padIntegral f (!neg) pfx buf :=
  formatPrepared_eq_padIntegral f neg pfx buf

/-- **printing**: `Display`/`Binary`/`Octal`/`LowerHex`/`UpperHex`/`in_radix(r)` of an integer is
    `pad_integral(z ≥ 0, prefix, digits of |z|)`: the reference digits with lower/upper-case letters,
    a negative number printed as `-` followed by its magnitude in every radix -/
theorem print_eq_reference (W : Nat) (t : FmtTrait) (f : FmtSpec) (z : Int)
    (hv : validRadix t.radix = true) (hW : t.radix < 2 ^ W) :
    fmtModel W t f z = fmtSpec t f z :=
  fmtModel_eq_fmtSpec W t f z hv hW

-- ======================================================================= parsing

/-- **`from_str_radix` is the documented grammar as a total function** on byte strings: optional
    sign (`-` only for `IBig`), digits of the radix in either case with `_` separators, at least one
    digit; `NoDigits` / `InvalidDigit` / `UnsupportedRadix` otherwise — never a wrong number.
    (Word / chunked / divide-and-conquer / bit-packing parsers all included.) -/
theorem parse_radix_eq_grammar (W : Nat) (hW : 36 < 2 ^ W) (signed : Bool) (s : List Nat) (r : Nat) :
    parseRadix W signed s r = parseRadixSpec signed s r :=
  parseRadix_spec W hW signed s r

/-- the same for `from_str_with_radix_default` / `from_str_with_radix_prefix` (prefixes `0b 0o 0x`) -/
theorem parse_default_eq_grammar (W : Nat) (hW : 36 < 2 ^ W) (signed : Bool) (s : List Nat) (dflt : Nat) :
    parseDefault W signed s dflt = parseDefaultSpec signed s dflt :=
  parseDefault_spec W hW signed s dflt

/-- malformed text is an error: whenever the parser returns a number, the body (after the sign) is
    made of digits of the radix and `_` only, contains a digit, and the number is its Horner value -/
theorem parse_ok_sound (W : Nat) (hW : 36 < 2 ^ W) (signed : Bool) (s : List Nat) (r : Nat) (v : Int)
    (h : parseRadix W signed s r = .ok v) :
    validRadix r = true ∧
    ∃ ds, digitValues r ((splitSign signed s).2.filter (· ≠ 95)) = some ds ∧ ds ≠ [] ∧
      v = applySign (splitSign signed s).1 (ofDigits r ds) := by
  rw [parseRadix_spec W hW] at h
  unfold parseRadixSpec at h
  by_cases hv : validRadix r = true
  · refine ⟨hv, ?_⟩
    simp only [hv, Bool.not_true, Bool.false_eq_true, if_false] at h
    unfold parseBodySpec at h
    cases hd : digitValues r ((splitSign signed s).2.filter (· ≠ 95)) with
    | none => rw [hd] at h; simp [Except.map] at h
    | some ds =>
      cases ds with
      | nil => rw [hd] at h; simp [Except.map] at h
      | cons a t =>
        rw [hd] at h
        simp only [Except.map, Except.ok.injEq] at h
        exact ⟨a :: t, rfl, by simp, h.symm⟩
  · simp [hv] at h

/-- **Tie A for the digit table of the parsers**: `digit_from_ascii_byte` (the three byte ranges, their
    offsets, the comparison with the radix) and `is_radix_valid` (`MIN_RADIX`, `MAX_RADIX`) are regenerated
    from integer/src/radix.rs on every run (`Dashu/Gen/TextDigit.lean`); the hand model the grammar theorems
    are about (`digitOf`, `validRadix`) equals the regenerated text for EVERY byte and radix.  A change
    of an arm, a bound, an offset or of `res < radix` breaks this theorem -/
theorem digit_table_regenerated :
    (∀ byte radix, Dashu.Gen.digit_from_ascii_byte byte radix = digitOf radix byte) ∧
    (∀ radix, Dashu.Gen.is_radix_valid radix = validRadix radix) :=
  ⟨fun _ _ => rfl, fun _ => rfl⟩

/-- separator-only and empty bodies are rejected -/
theorem parse_no_digits (W : Nat) (signed : Bool) (s : List Nat) (r : Nat)
    (hv : validRadix r = true) (h : (splitSign signed s).2.all (· == 95) = true) :
    parseRadix W signed s r = .error .noDigits := by
  unfold parseRadix parseNoSign
  simp [hv, h, Except.map]

/-- **print → parse round trip** for every radix 2..36, every integer, lower case (`{}`), upper
    case (`{:#}`) and with an explicit `+` (`{:+}`) -/
theorem print_parse_round_trip (W : Nat) (hW : 36 < 2 ^ W) (r : Nat) (z : Int) (up plus : Bool)
    (hv : validRadix r = true) :
    parseRadix W true (fmtModel W (.inRadix r) { alt := up, plus := plus } z) r = .ok z :=
  model_round_trip W hW r z up plus hv

theorem print_parse_round_trip_unsigned (W : Nat) (hW : 36 < 2 ^ W) (r n : Nat) (up plus : Bool)
    (hv : validRadix r = true) :
    parseRadix W false (fmtModel W (.inRadix r) { alt := up, plus := plus } (n : Int)) r = .ok (n : Int) :=
  model_round_trip_unsigned W hW r n up plus hv

/-- **radix prefix round trip**: `{:#b}`, `{:#o}`, `{:#x}`, `{:#X}` (optionally with `+`; a negative
    number prints `-` before the prefix) parse back through `from_str_with_radix_prefix` to the same
    integer together with the radix the prefix names -/
theorem print_prefix_parse_round_trip (W : Nat) (hW : 36 < 2 ^ W) (z : Int) (plus : Bool) :
    parseDefault W true (fmtModel W .binary { alt := true, plus := plus } z) 10 = .ok (z, 2) ∧
    parseDefault W true (fmtModel W .octal { alt := true, plus := plus } z) 10 = .ok (z, 8) ∧
    parseDefault W true (fmtModel W .lowerHex { alt := true, plus := plus } z) 10 = .ok (z, 16) ∧
    parseDefault W true (fmtModel W .upperHex { alt := true, plus := plus } z) 10 = .ok (z, 16) :=
  prefix_round_trip W hW z plus

/-- **underscores are ignored**: two digit strings that differ only by `_` separators parse alike
    (same number or same error) -/
theorem parse_underscores_ignored (r : Nat) (t t' : List Nat)
    (h : t'.filter (· ≠ 95) = t.filter (· ≠ 95)) : parseBodySpec r t' = parseBodySpec r t :=
  parseBodySpec_underscores r t t' h

-- ======================================================================= fixed-size buffers

/-- **soundness of the length shortcut of `PreparedLarge::new`**: the squaring loop may stop as soon
    as the test regenerated from the source text (`Dashu.Gen.fmt_tower_stop`, currently
    `2 * prev.len() - 1 > number.len()`) holds, because then `prev * prev > number`.  A source change
    that makes the test unsound breaks this theorem (and `printer_buffers_never_overrun`). -/
theorem tower_length_shortcut_sound (W : Nat) (hW : 1 ≤ W) (prev n : Nat) (hp : prev ≠ 0)
    (h : Dashu.Gen.fmt_tower_stop (wordLen W prev) (wordLen W n) = true) : n < prev * prev :=
  length_shortcut_sound W hW prev n hp h

/-- **no fixed-size buffer of the printers is ever overrun**: with `PreparedWord.digits`,
    `PreparedDword.digits`, the `[Word; 16]` chunk buffer of `repr_to_chunk_buffer`, `low_groups`, the
    `groups` array and the `assert_eq!(buffer_len, 0)` of `write_chunk`, and the power-of-two digit
    arrays modelled as bounded arrays (`Model/Text/Capacity.lean`), printing never panics and yields
    the digits of the unbounded model — every even word size, every radix, every number.  For the
    divide-and-conquer printer this needs the top part left by the tower to be below
    `range_per_word^16`, which follows from the length shortcut above. -/
theorem printer_buffers_never_overrun (W : Nat) (hW : 2 ≤ W) (hev : 2 ∣ W) (r : Nat) (hr : 2 ≤ r)
    (hrW : r < 2 ^ W) (n : Nat) : rawDigitsC W r n = .ok (rawDigits W r n) :=
  rawDigitsC_eq W hW hev r hr hrW n

/-- the `DigitWriter` (32-byte buffer, flushed when full) delivers exactly the converted digits, in
    order, for any sequence of `write` calls, without indexing outside its buffer -/
theorem digit_writer_sound (W : Nat) (hW : 8 ≤ W) (c : DigitCase) (pieces : List (List Nat)) :
    digitWriterRun W c pieces = .ok (pieces.flatten.map (rawToAscii c)) :=
  digitWriterRun_eq W hW c pieces

/-- **the parsers never overflow a `Word`, never `push` beyond the allocated `Buffer` and never fail a
    length assertion** (`parse_word`, `parse_chunk`, `parse_large_divide_conquer`,
    `power_two::parse_word` / `parse_large`), for every byte string -/
theorem parser_buffers_never_overrun (W r : Nat) (hr : 2 ≤ r) (hrW : r < 2 ^ W) (src : List Nat) :
    parseCoreC W r src = .ok (if isPow2 r then parsePow2 W r src else parseNonPow2 W r src) :=
  parseCoreC_eq W r hr hrW src

/-- **the single-word divisions of the printers, on words**: `PreparedMedium::new` run on the word
    buffer — `fast_div_by_word_in_place` (normalising `shl_in_place`, `div_rem_2by1` by the normalised
    `range_per_word` per word, remainder un-shift: builder-div's model with its contract
    `fastDivByWordInPlace_spec`, C02) and the trimming of zero words — prints exactly what the
    number-level model (`/`, `%`) prints, for every normalised word buffer -/
theorem medium_on_words (W r : Nat) (hW : 1 ≤ W) (hr : 2 ≤ r) (hrW : r < 2 ^ W) (ws : List Nat)
    (hw : Dashu.Model.IsWords W ws) (hn : Norm ws) :
    preparedMediumW W r ws = .ok (preparedMedium W r (Dashu.Model.val W ws)) :=
  preparedMediumW_eq W r hW hr hrW ws hw hn

/-- `write_chunk` on the word buffer: `CHUNK_LEN` divisions, `assert_eq!(buffer_len, 0)` holds for
    every chunk below `range_per_word^CHUNK_LEN`, digits as in the number-level model -/
theorem write_chunk_on_words (W r : Nat) (hr : 2 ≤ r) (hrW : r < 2 ^ W) (ws : List Nat)
    (hw : Dashu.Model.IsWords W ws) (hfit : Dashu.Model.val W ws < (radixInfo W r).rpw ^ fmtChunkLen) :
    writeChunkW W r ws = .ok (writeChunk W r (Dashu.Model.val W ws)) :=
  writeChunkW_eq W r hr hrW ws hw hfit

/-- `PreparedDword::new` on words: `shl_dword` by the normalising shift, three `div_rem_2by1` by the
    normalised `range_per_word` (contract `div2by1`, discharged against num-modular's algorithm in
    C02 `nm_contracts_discharged`), `double_word(q0, q1) << shift` without overflow, shifts back —
    the three parts are `% rpw`, `/ rpw % rpw`, `/ rpw / rpw` and no precondition fails, for every
    double word, every radix and every even word size -/
theorem dword_split_on_words (W r dword : Nat) (hW : 1 ≤ W) (hev : 2 ∣ W) (hr : 2 ≤ r) (hrW : r < 2 ^ W)
    (hd : dword < 2 ^ (2 * W)) :
    dwordSplitW W (radixInfo W r).rpw dword =
      .ok (dword % (radixInfo W r).rpw, (dword / (radixInfo W r).rpw) % (radixInfo W r).rpw,
        dword / (radixInfo W r).rpw / (radixInfo W r).rpw) ∧
    preparedDwordW W r dword = .ok (preparedDword W r dword) := by
  refine ⟨?_, preparedDwordW_eq W r dword hW hev hr hrW hd⟩
  have ok := radixInfo_ok W r hr hrW
  have hmax := (maxExpInWord_spec W r hr hrW).2.2.2 hev
  have hrle : r ≤ (radixInfo W r).rpw := by
    rw [ok.pow]
    calc r = r ^ 1 := (pow_one r).symm
      _ ≤ r ^ (radixInfo W r).dpw := Nat.pow_le_pow_right (by omega) ok.dpos
  exact dwordSplitW_eq W _ dword hW (by have := ok.rpw_ge; omega) ok.lt
    (le_trans hmax (Nat.mul_le_mul_left _ hrle)) hd

-- ======================================================================= the lowest layer, on machine words

/-- **`FastDivideSmall` (`num_modular::PreMulInv1by1<Word>`, multiply–shift reciprocal) is exact**:
    for every word size, every divisor `2 ≤ d < 2^W` (`new`'s precondition `divisor > 1`) and every
    word `a`, `new(d)` passes its `debug_assert!`s, no `Word` operation of `new` / `div_rem`
    overflows, and `div_rem(a, d) = (a / d, a % d)` -/
theorem fast_divide_small_exact (W d a : Nat) (hd : 2 ≤ d) (hdW : d < 2 ^ W) (ha : a < 2 ^ W) :
    (∃ p, PreMulInv1by1.new W d = .ok p ∧ p.m < 2 ^ W ∧ p.shift < W ∧
      p.divRem W a d = .ok (a / d, a % d)) ∧
    fastDivRadix W d a = .ok (a / d, a % d) := by
  obtain ⟨hnew, hm⟩ := premul_new_eq W d hd hdW
  obtain ⟨hn1, hnW, _, _⟩ := ceilLog_bounds W d hd hdW
  have h := fastDivRadix_eq W d a hd hdW ha
  refine ⟨⟨_, hnew, hm, by simp only; omega, ?_⟩, h⟩
  unfold fastDivRadix at h
  rw [hnew] at h
  exact h

/-- **the SWAR digit → ASCII trick of `arch/*/digits.rs`, bit level, all lanes**: for every word size
    `W = 8k`, every digit case and every chunk of `k` raw digits `< 36`, none of
    `0x76 * ALL_ONES + word`, `word += letters * case`, `word += ALL_ONES * b'0'` overflows a `Word`,
    `((0x76 * ALL_ONES + word) >> 7) & ALL_ONES` has lane `i` equal to `[digit i ≥ 10]`, and byte `i`
    of the result is the ASCII character of digit `i` -/
theorem swar_digit_chunk (W : Nat) (h8 : 8 ∣ W) (c : DigitCase) (ds : List Nat)
    (hlen : ds.length = W / 8) (hd : ∀ d ∈ ds, d < 36) :
    digitChunkRawToAscii W c ds = .ok (ds.map (rawToAscii c)) ∧
    ((Dashu.Gen.swar_BIAS * allOnes W + ofDigitsLE 256 ds) >>> Dashu.Gen.swar_SHIFT) &&& allOnes W =
      ofDigitsLE 256 (ds.map fun d => if 10 ≤ d then 1 else 0) := by
  refine ⟨digitChunkRawToAscii_eq W h8 c ds hlen hd, ?_⟩
  simp only [Dashu.Gen.swar_BIAS, Dashu.Gen.swar_SHIFT]
  obtain ⟨k, rfl⟩ := h8
  have hk : ds.length = k := by omega
  have hones : allOnes (8 * k) = ofDigitsLE 256 (ds.map fun _ => 1) := by rw [← hk]; exact allOnes_eq ds
  rw [hones, Nat.add_comm, Nat.mul_comm, pack_add_map_mul ds (fun _ => 1) 0x76]
  have hb : ∀ x ∈ ds.map (fun d => d + 1 * 0x76), x < 256 := by
    intro x hx
    obtain ⟨d, hdm, rfl⟩ := List.mem_map.mp hx
    have := hd d hdm; omega
  have h := pack_shift7_and _ hb
  simp only [List.map_map] at h
  rw [show ((fun _ => 1) ∘ fun d => d + 1 * 0x76) = (fun _ : Nat => 1) from rfl] at h
  rw [h]
  congr 1
  apply List.map_congr_left
  intro d hdm
  have := hd d hdm
  simp only [Function.comp]
  by_cases h10 : 10 ≤ d
  · rw [if_pos h10]; omega
  · rw [if_neg h10]; omega

/-- **Tie A for the low layer**: the constants the hand-written per-byte model uses are the ones
    regenerated from the source text on every run (`Dashu/Gen/TextLow.lean`: `DigitCase` discriminants
    of radix.rs, `b'0'` of digits.rs, `BUFFER_LEN_MIN` of digit_writer.rs); the SWAR model and
    `digitWriterLen` call the regenerated definitions directly -/
theorem low_layer_constants_regenerated :
    DigitCase.offset .noLetters = Dashu.Gen.digitcase_NoLetters ∧
    DigitCase.offset .lower = Dashu.Gen.digitcase_Lower ∧
    DigitCase.offset .upper = Dashu.Gen.digitcase_Upper ∧
    (∀ c d, rawToAscii c d =
      (if c ≠ .noLetters ∧ 10 ≤ d then d + c.offset else d) + Dashu.Gen.swar_ASCII_ZERO) ∧
    (∀ W, digitWriterLen W = ceilDiv Dashu.Gen.digit_writer_BUFFER_LEN_MIN (W / 8) * (W / 8)) ∧
    (∀ W, allOnes W = (2 ^ W - 1) / Dashu.Gen.swar_LANE_MAX) :=
  ⟨rfl, rfl, rfl, fun _ _ => rfl, fun _ => rfl, fun _ => rfl⟩

/-- **`DigitWriter` buffering invariant with the real `flush`**: for any sequence of `write` calls
    carrying raw digits `< 36` and the final `flush`: `buffer_len < BUFFER_LEN` between calls,
    `buffer_len_rounded ≤ BUFFER_LEN` (the zero fill stays inside the array), every chunk handed to
    the SWAR routine is a full `[u8; DIGIT_CHUNK_LEN]`, and the text delivered is exactly the
    per-byte conversion of the concatenated input, in order -/
theorem digit_writer_swar_sound (W : Nat) (h8 : 8 ∣ W) (hW : 8 ≤ W) (c : DigitCase) (pieces : List (List Nat))
    (hb : ∀ b ∈ pieces, ∀ d ∈ b, d < 36) :
    digitWriterRunS W c pieces = .ok (pieces.flatten.map (rawToAscii c)) :=
  digitWriterRunS_eq W h8 hW c pieces hb

/-- the invariant itself, one `write` at a time -/
theorem digit_writer_write_invariant (W : Nat) (h8 : 8 ∣ W) (hW : 8 ≤ W) (c : DigitCase) (buf : List Nat) (s : DW)
    (hs : s.pending.length < digitWriterLen W) (hp : ∀ d ∈ s.pending, d < 36) (hb : ∀ d ∈ buf, d < 36) :
    ∃ s', DW.writeS W c s buf = .ok s' ∧ s'.pending.length < digitWriterLen W ∧ (∀ d ∈ s'.pending, d < 36) ∧
      s'.out ++ s'.pending.map (rawToAscii c) = s.out ++ s.pending.map (rawToAscii c) ++ buf.map (rawToAscii c) := by
  obtain ⟨s', h1, h2, h3, h4⟩ := DW_writeS_spec W h8 hW c buf s hs hp hb
  obtain ⟨s'', g1, _, g3⟩ := DW_write_spec (digitWriterLen W) (digitWriterLen_pos W hW) c buf s hs
  rw [h2] at g1
  cases g1
  exact ⟨s', h1, h3, h4, g3⟩

/-- **what the driver executes**: the whole formatting path with the reciprocal division by the
    radix in `PreparedWord::new` / `get_digit`, the SWAR conversion and the buffered writer equals the
    number-level model (hence, by `print_eq_reference`, the reference text) — every word size that is
    a multiple of 8, every trait, every format spec, every integer -/
theorem print_on_mirrored_low_layer (W : Nat) (h8 : 8 ∣ W) (hW : 8 ≤ W) (t : FmtTrait) (f : FmtSpec) (z : Int)
    (hv : validRadix t.radix = true) :
    fmtModelF W t f z = .ok (fmtModel W t f z) ∧ fmtModelF W t f z = .ok (fmtSpec t f z) := by
  have h := fmtModelF_eq W h8 hW t f z hv
  refine ⟨h, ?_⟩
  have hr : 2 ≤ t.radix ∧ t.radix ≤ 36 := by simpa [validRadix] using hv
  have h256 : (2 : Nat) ^ 8 ≤ 2 ^ W := Nat.pow_le_pow_right (by omega) hW
  rw [h, fmtModel_eq_fmtSpec W t f z hv (by omega)]

/-- the raw digits alone (no `8 ∣ W` needed): every `fast_div_radix.div_rem(word, radix)` of the
    printers receives a word, never fails a check, and the digits are those of the number-level model -/
theorem raw_digits_on_mirrored_division (W r n : Nat) (hev : 2 ∣ W) (hr : 2 ≤ r) (hrW : r < 2 ^ W) :
    rawDigitsF W r n = .ok (rawDigits W r n) :=
  rawDigitsF_eq W r n hev hr hrW

/-- **the `DigitWriter::write` calls of the printers are recorded** (`Model/Text/Pieces.lean`: one call for
    `PreparedWord` / `PreparedDword`, top group + one call per low group for `PreparedMedium`, `CHUNK_LEN`
    calls per `write_chunk` through the `write_big_chunk` recursion for `PreparedLarge`, one call per
    digit for the power-of-two heap printer): the pieces computed with the mirrored reciprocal division
    are the number-level pieces, and their concatenation is the reference digit string -/
theorem write_pieces_recorded (W r n : Nat) (hev : 2 ∣ W) (hr : 2 ≤ r) (hrW : r < 2 ^ W) :
    rawPiecesF W r n = .ok (rawPieces W r n) ∧ (rawPieces W r n).flatten = rawDigits W r n ∧
    (rawPieces W r n).flatten = digits r n :=
  ⟨rawPiecesF_eq W r n hev hr hrW, rawPieces_flatten W r n,
   by rw [rawPieces_flatten, rawDigits_eq W r n hr hrW]⟩

/-- **shape of the recorded calls**: a non-power-of-two printer makes at least one call and every call
    after the first carries exactly `digits_per_word` digits; a power-of-two printer makes one call for an
    inline value and one call per digit (`write(&[digit])`) for a heap value -/
theorem write_pieces_shape (W r n : Nat) (hr : 2 ≤ r) (hrW : r < 2 ^ W) (hn : n ≠ 0) :
    (isPow2 r = false → rawPieces W r n ≠ [] ∧ ∀ p ∈ (rawPieces W r n).tail, p.length = (radixInfo W r).dpw) ∧
    (isPow2 r = true → (n < 2 ^ (2 * W) → (rawPieces W r n).length = 1) ∧
      (2 ^ (2 * W) ≤ n → ∀ p ∈ rawPieces W r n, p.length = 1)) := by
  constructor
  · intro hp
    have : rawPieces W r n = fmtNonPow2P W r n := by simp [rawPieces, hp]
    rw [this]; exact fmtNonPow2P_shape W r n hr hrW hn
  · intro hp
    have : rawPieces W r n = fmtPow2P W r n := by simp [rawPieces, hp]
    rw [this]; exact fmtPow2P_shape W r n

/-- **what the driver executes (round 5)**: reciprocal division by the radix, the buffered `DigitWriter`
    with its real `flush` and the SWAR conversion, fed with EXACTLY the recorded `write` calls, then
    `format_prepared` — equals the number-level model and the reference text -/
theorem print_on_recorded_pieces (W : Nat) (h8 : 8 ∣ W) (hW : 8 ≤ W) (t : FmtTrait) (f : FmtSpec) (z : Int)
    (hv : validRadix t.radix = true) :
    fmtModelP W t f z = .ok (fmtModel W t f z) ∧ fmtModelP W t f z = .ok (fmtSpec t f z) := by
  have h := fmtModelP_eq W h8 hW t f z hv
  refine ⟨h, ?_⟩
  have hr : 2 ≤ t.radix ∧ t.radix ≤ 36 := by simpa [validRadix] using hv
  have h256 : (2 : Nat) ^ 8 ≤ 2 ^ W := Nat.pow_le_pow_right (by omega) hW
  rw [h, fmtModel_eq_fmtSpec W t f z hv (by omega)]

-- ======================================================================= bytes and chunks

/-- unsigned bytes: decoding the encoding returns the number; the encoding is minimal -/
theorem le_bytes_round_trip (n : Nat) :
    ofLeBytesSpec (leBytesSpec n) = n ∧ (∀ b ∈ leBytesSpec n, b < 256) ∧
    (leBytesSpec n).getLast? ≠ some 0 :=
  ⟨ofLeBytesSpec_leBytesSpec n, (leBytesSpec_minimal n).1, (leBytesSpec_minimal n).2⟩

/-- the word-level unsigned encoder and decoder of convert.rs (`to_le_bytes`: inline double word and
    heap `words_to_le_bytes`; `from_le_bytes`: `dword_from_le_bytes_partial` and `from_le_bytes_large`)
    are the positional representation, for every word size that is a multiple of 8, every number
    and every byte string; hence mutually inverse (big-endian: mirror image) -/
theorem ubig_bytes_model (W : Nat) (h8 : 8 ∣ W) (hW : 8 ≤ W) (n : Nat) (bytes : List Nat) :
    toLeBytes W n = leBytesSpec n ∧ fromLeBytes W bytes = ofLeBytesSpec bytes ∧
    fromLeBytes W (toLeBytes W n) = n ∧ fromBeBytes W (toBeBytes W n) = n :=
  ⟨toLeBytes_eq W n h8 hW, fromLeBytes_eq W h8 hW bytes, fromLeBytes_toLeBytes W n h8 hW,
   fromBeBytes_toBeBytes W n h8 hW⟩

/-- **the other direction of "mutually inverse"**: for a canonical byte string (bytes `< 256`, most
    significant byte non-zero) encoding the decoded number returns the byte string, little and big
    endian, at the word level -/
theorem ubig_bytes_inverse_canonical (W : Nat) (h8 : 8 ∣ W) (hW : 8 ≤ W) (bs : List Nat)
    (hlt : ∀ b ∈ bs, b < 256) (hlast : bs.getLast? ≠ some 0) :
    toLeBytes W (fromLeBytes W bs) = bs ∧ leBytesSpec (ofLeBytesSpec bs) = bs := by
  have h := leBytesSpec_ofLeBytesSpec bs hlt hlast
  exact ⟨by rw [fromLeBytes_eq W h8 hW bs, toLeBytes_eq W _ h8 hW, h], h⟩

/-- two's complement bytes: decoding the encoding returns the integer — for every integer,
    including the negative exact powers `-(2^(8k))` -/
theorem signed_bytes_round_trip (z : Int) :
    ofSignedLeBytesSpec (signedLeBytesSpec z) = z ∧ ∀ b ∈ signedLeBytesSpec z, b < 256 :=
  ⟨ofSignedLeBytesSpec_signedLeBytesSpec z, signedLeBytesSpec_bytes z⟩

/-- the word-level signed encoder and decoder of convert.rs (`to_signed_le_bytes`: inline path, heap
    path with `sub_one_in_place`, flipped `words_to_le_bytes::<true>` and the `resize` of fix dcc404d;
    `from_signed_le_bytes`: one-padded inline path and `from_le_bytes_large::<true>` with
    `add_one_in_place`) are the two's complement specification, and **mutually inverse for every
    integer** — in particular for `-(2^(8k))`, where the unpatched code lost the sign byte -/
theorem ibig_bytes_model (W : Nat) (h8 : 8 ∣ W) (hW : 8 ≤ W) (z : Int) (bytes : List Nat)
    (hb : ∀ b ∈ bytes, b < 256) :
    ibigToLeBytes W z = signedLeBytesSpec z ∧ fromSignedLeBytes W bytes = ofSignedLeBytesSpec bytes ∧
    fromSignedLeBytes W (ibigToLeBytes W z) = z ∧ fromSignedBeBytes W (ibigToBeBytes W z) = z :=
  ⟨ibigToLeBytes_eq W h8 hW z, fromSignedLeBytes_eq W h8 hW bytes hb,
   (fromSigned_toSigned W h8 hW z).1, (fromSigned_toSigned W h8 hW z).2⟩

/-- **length of the two's complement encoding** (round 7): `IBig::to_le_bytes` emits no byte for zero and otherwise
    exactly `bit_len(|z|) / 8 + 1` bytes (`signedLen`); that is the minimal two's complement length `minSignedLen z`
    for every integer except `z = -(2^(8q+7))` (`-128`, `-32768`, …), where the code's `leading_zeros % 8 == 0` test
    appends a `0xff` byte to the already negative `0x00 … 0x80`: `q + 2` bytes instead of `q + 1` -/
theorem signed_bytes_length (z : Int) (q n : Nat) :
    (signedLeBytesSpec z).length = signedLen z ∧
    ((∀ q : Nat, z ≠ -((2 : Int) ^ (8 * q + 7))) → signedLen z = minSignedLen z) ∧
    signedLen (-((2 : Int) ^ (8 * q + 7))) = q + 2 ∧ minSignedLen (-((2 : Int) ^ (8 * q + 7))) = q + 1 ∧
    -- what "minimal" means: `n` bytes can hold `z` in two's complement iff `minSignedLen z ≤ n`
    (minSignedLen z ≤ n ↔ (z = 0 ∨ (1 ≤ n ∧ -((2 : Int) ^ (8 * n - 1)) ≤ z ∧ z < (2 : Int) ^ (8 * n - 1)))) :=
  ⟨signedLeBytesSpec_length z, signedLen_eq_minSignedLen z, (signedLen_neg_pow q).1, (signedLen_neg_pow q).2,
   minSignedLen_le_iff z n⟩

/-- **the other direction of "mutually inverse" for the signed byte functions** (round 7; was a FRONTIER entry):
    the decoder is injective on byte strings of one length, and encoding the decoded integer returns the byte
    string **exactly when** the byte string has the encoder's length `signedLen` (bytes `< 256`) — at the level of the
    specification, of the word-level little-endian functions and of the mirrored big-endian functions -/
theorem signed_bytes_inverse_canonical (W : Nat) (h8 : 8 ∣ W) (hW : 8 ≤ W) (bs bs' : List Nat)
    (hlt : ∀ b ∈ bs, b < 256) (hlt' : ∀ b ∈ bs', b < 256) :
    (bs.length = bs'.length → ofSignedLeBytesSpec bs = ofSignedLeBytesSpec bs' → bs = bs') ∧
    (signedLeBytesSpec (ofSignedLeBytesSpec bs) = bs ↔ bs.length = signedLen (ofSignedLeBytesSpec bs)) ∧
    (bs.length = signedLen (ofSignedLeBytesSpec bs) →
      ibigToLeBytes W (fromSignedLeBytes W bs) = bs ∧
      ibigToBeBytesM W (fromSignedBeBytesM W bs.reverse) = bs.reverse) := by
  refine ⟨fun hl h => ofSignedLeBytesSpec_inj bs bs' hl hlt hlt' h,
    ⟨fun h => by rw [← signedLeBytesSpec_length, h], signedLeBytesSpec_ofSignedLeBytesSpec bs hlt⟩, fun hlen => ?_⟩
  have h := signedLeBytesSpec_ofSignedLeBytesSpec bs hlt hlen
  have hle : ibigToLeBytes W (fromSignedLeBytes W bs) = bs := by
    rw [fromSignedLeBytes_eq W h8 hW bs hlt, ibigToLeBytes_eq W h8 hW, h]
  refine ⟨hle, ?_⟩
  rw [fromSignedBeBytesM_eq, ibigToBeBytesM_eq W h8 hW]
  unfold fromSignedBeBytes ibigToBeBytes
  rw [List.reverse_reverse, hle]

/-- **the big-endian byte functions as the separate code they are** (`words_to_be_bytes`: top word's bytes after
    the skipped leading zero bytes, then the lower words in reverse order; `to_signed_be_bytes`: `insert(0, 0xff)`
    for `-(2^(8k))`, sign byte inserted at the front; `from_be_bytes_large`: `rchunks_exact(WORD_BYTES)` +
    `remainder`, `word_from_be_bytes_partial` padding the missing HIGH bytes; sign read from the first byte),
    mirrored in Model/Text/BytesBE.lean and executed by the driver, equal the mirror-image model — hence the
    positional / two's complement specification read most-significant-first, and they are mutually inverse -/
theorem be_bytes_mirrored (W : Nat) (h8 : 8 ∣ W) (hW : 8 ≤ W) (n : Nat) (z : Int) (bytes : List Nat)
    (hb : ∀ b ∈ bytes, b < 256) :
    toBeBytesM W n = (leBytesSpec n).reverse ∧ fromBeBytesM W bytes = ofLeBytesSpec bytes.reverse ∧
    ibigToBeBytesM W z = (signedLeBytesSpec z).reverse ∧
    fromSignedBeBytesM W bytes = ofSignedLeBytesSpec bytes.reverse ∧
    fromBeBytesM W (toBeBytesM W n) = n ∧ fromSignedBeBytesM W (ibigToBeBytesM W z) = z := by
  refine ⟨?_, ?_, ?_, ?_, ?_, ?_⟩
  · rw [toBeBytesM_eq, toBeBytes_eq W n h8 hW]
  · rw [fromBeBytesM_eq]; unfold fromBeBytes; exact fromLeBytes_eq W h8 hW _
  · rw [ibigToBeBytesM_eq W h8 hW, ibigToBeBytes_eq W h8 hW]
  · rw [fromSignedBeBytesM_eq]; unfold fromSignedBeBytes
    exact fromSignedLeBytes_eq W h8 hW _ (by intro b hb'; exact hb b (List.mem_reverse.mp hb'))
  · rw [fromBeBytesM_eq, toBeBytesM_eq]; exact fromBeBytes_toBeBytes W n h8 hW
  · rw [fromSignedBeBytesM_eq, ibigToBeBytesM_eq W h8 hW]; exact (fromSigned_toSigned W h8 hW z).2

/-- chunks: `from_chunks(to_chunks(n, k), k) = n` for every chunk size `k ≥ 1` (the documented
    precondition is `k ≠ 0`); chunks are `< 2^k` and the top chunk is non-zero -/
theorem chunks_round_trip (n k : Nat) (hk : 1 ≤ k) :
    ofChunksSpec k (chunksSpec n k) = n ∧ (∀ c ∈ chunksSpec n k, c < 2 ^ k) ∧
    (chunksSpec n k).getLast? ≠ some 0 :=
  ⟨ofChunksSpec_chunksSpec n k hk, (chunksSpec_bounds n k hk).1, (chunksSpec_bounds n k hk).2⟩

/-- **the chunk routines of convert.rs equal the positional specification**: `to_chunks` — inline
    path, word-aligned shortcut (with the clamp of fix 49f0136) and general path (copy, mask,
    `shr_in_place` on the words) — yields the base-`2^k` digits; `from_chunks` (`chunks_to_words`:
    `shl_in_place` on the scratch buffer, `add_in_place` into a result buffer of
    `max_len + (len − 1)·k + 1` words, which is always long enough and never loses a carry) yields
    `Σ chunkᵢ·2^(i·k)` for word slices of any length; hence mutually inverse for every `k ≥ 1` -/
theorem chunks_model (W n k : Nat) (hW : 1 ≤ W) (hk : 1 ≤ k) (chunks : List (List Nat))
    (hc : ∀ c ∈ chunks, Dashu.Model.IsWords W c) :
    toChunksW W n k = .ok (chunksSpec n k) ∧ toChunks W n k = .ok (chunksSpec n k) ∧
    fromChunksW W k chunks = .ok (ofChunksSpec k (chunks.map (Dashu.Model.val W))) ∧
    fromChunksW W k ((chunksSpec n k).map (wordsOf W)) = .ok n := by
  refine ⟨toChunksW_eq W n k hW hk, toChunks_eq W n k hW hk, fromChunksW_eq W k hW hk chunks hc, ?_⟩
  rw [fromChunksW_eq W k hW hk _ (by
    intro c hc'
    obtain ⟨x, _, rfl⟩ := List.mem_map.mp hc'
    exact isWords_wordsOf W x hW)]
  rw [List.map_map]
  have : (chunksSpec n k).map (Dashu.Model.val W ∘ wordsOf W) = chunksSpec n k := by
    conv_rhs => rw [← List.map_id (chunksSpec n k)]
    apply List.map_congr_left; intro x _; exact val_wordsOf W x hW
  rw [this, ofChunksSpec_chunksSpec n k hk]

/-- **`to_chunks` and `from_chunks` are mutually inverse, on words, for EVERY chunk size `k ≥ 1`** (word-aligned
    `k = m·W` — the `copy_from_slice` shortcut of `words_to_chunks` with its clamp — and unaligned `k` alike;
    inline and heap values): (a) `from_chunks(to_chunks(n, k), k) = n` for every `n`; (b) for every canonical
    chunk list (each chunk `< 2^k`, top chunk non-zero) `to_chunks(from_chunks(cs, k), k) = cs` -/
theorem chunks_inverse (W k : Nat) (hW : 1 ≤ W) (hk : 1 ≤ k) :
    (∀ n, ∃ cs, toChunksW W n k = .ok cs ∧ fromChunksW W k (cs.map (wordsOf W)) = .ok n) ∧
    (∀ cs : List Nat, (∀ c ∈ cs, c < 2 ^ k) → cs.getLast? ≠ some 0 →
      ∃ n, fromChunksW W k (cs.map (wordsOf W)) = .ok n ∧ toChunksW W n k = .ok cs) := by
  constructor
  · intro n
    exact ⟨chunksSpec n k, toChunksW_eq W n k hW hk, (chunks_model W n k hW hk [] (by simp)).2.2.2⟩
  · intro cs hlt hlast
    have hfrom := fromChunksW_eq W k hW hk (cs.map (wordsOf W)) (by
      intro c hc
      obtain ⟨x, _, rfl⟩ := List.mem_map.mp hc
      exact isWords_wordsOf W x hW)
    rw [List.map_map] at hfrom
    have hid : cs.map (Dashu.Model.val W ∘ wordsOf W) = cs := by
      conv_rhs => rw [← List.map_id cs]
      apply List.map_congr_left; intro x _; exact val_wordsOf W x hW
    rw [hid] at hfrom
    refine ⟨ofChunksSpec k cs, hfrom, ?_⟩
    rw [toChunksW_eq W _ k hW hk, chunksSpec_ofChunksSpec k hk cs hlt hlast]

/-- the specification side the driver evaluates for chunk sizes up to `usize::MAX` (`chunksSpecG`,
    `ofChunksSpecG`: no `2^k` is formed when `k ≥ bit_len(n)` / when the upper chunks are zero) is the
    specification itself -/
theorem chunk_spec_guards (n k : Nat) (hk : 1 ≤ k) (cs : List Nat) :
    chunksSpecG n k = chunksSpec n k ∧ ofChunksSpecG k cs = ofChunksSpec k cs :=
  ⟨chunksSpecG_eq n k hk, ofChunksSpecG_eq k cs⟩

/-- **the chunk buffers of `to_chunks` (round 6, fix 80bcfde).**  The `RefLarge` arm allocates for every chunk
    `word_per_chunk + 1` zero words with `word_per_chunk = ceil_div(chunk_bits, WORD_BITS).min(words.len())`;
    `toChunksB` runs `words_to_chunks` on buffers of exactly that size, every slice range
    (`words[start_pos..end_pos]`, `words[start_pos..=end_pos]`, `chunk_out[..n]`, `chunk_out[..=len]`), every `usize`
    subtraction and the `debug_assert!(start < end)` being an error branch.  For every number, every chunk size
    `k ≥ 1` and every word size: nothing fails and the chunks are the positional ones; the buffer is at most one word
    longer than the number whatever `chunk_bits` is (it was `ceil(chunk_bits / W) + 1` before the fix: the repaired
    allocation panic), and never longer than `ceil(chunk_bits / W) + 1` -/
theorem to_chunks_buffers_never_overrun (W n k : Nat) (hW : 1 ≤ W) (hk : 1 ≤ k) :
    toChunksB W n k = .ok (chunksSpec n k) ∧
    wordPerChunk W k (wordsOf W n).length + 1 ≤ (wordsOf W n).length + 1 ∧
    wordPerChunk W k (wordsOf W n).length + 1 ≤ ceilDiv k W + 1 ∧
    toChunksB W n 0 = .error .chunkBitsZero := by
  have h := wordPerChunk_le W k (wordsOf W n).length
  exact ⟨toChunksB_eq W n k hW hk, by omega, by omega, rfl⟩

/-- **Tie A (round 6): the chunk-buffer arithmetic is the source text.**  `Dashu.Gen.TextChunks` is regenerated from
    integer/src/convert.rs on every run (`vlib/extract_textchunks.py`): `word_per_chunk` of the `RefLarge` arm of `to_chunks`
    (with the clamp `.min(words.len())` of fix 80bcfde), the arguments of `Buffer::allocate` and `push_zeros`, the test,
    `words_per_chunk`, `start_pos` and `end_pos` of the word-aligned shortcut of `words_to_chunks` (with the clamp of fix
    49f0136), `math::ceil_div`.  The bounded model `toChunksB` of `to_chunks_buffers_never_overrun` is, on heap values, exactly
    the program assembled from these texts; dropping the `+ 1`, a clamp, or changing an index breaks this theorem -/
theorem chunk_buffer_formulas_regenerated (W n k : Nat) (hk : k ≠ 0) (hn : ¬ n < 2 ^ (2 * W)) (words : List Nat) (wpc bufLen i : Nat) :
    toChunksB W n k =
      (let words := wordsOf W n
       let count := Dashu.Gen.TextChunks.ceil_div (bitLen n) k
       let bufLen := Dashu.Gen.TextChunks.to_chunks_allocate (Dashu.Gen.TextChunks.to_chunks_word_per_chunk W k words.length)
       if Dashu.Gen.TextChunks.aligned_test W k = 0 then
         collectChunks (alignedChunkB words (Dashu.Gen.TextChunks.aligned_words_per_chunk W k) bufLen) W (List.range count)
       else collectChunks (unalignedChunkB W words (bitLen n) k bufLen) W (List.range count)) ∧
    Dashu.Gen.TextChunks.to_chunks_push_zeros (wordPerChunk W k words.length) =
      Dashu.Gen.TextChunks.to_chunks_allocate (wordPerChunk W k words.length) ∧
    alignedChunkB words wpc bufLen i =
      (let s := Dashu.Gen.TextChunks.aligned_start_pos i wpc
       let e := Dashu.Gen.TextChunks.aligned_end_pos words.length wpc s
       if e < s then .error .subOverflow else copyFront bufLen ((words.drop s).take (e - s))) := by
  refine ⟨?_, rfl, rfl⟩
  unfold toChunksB
  rw [if_neg hk]
  simp only []
  rw [if_neg hn]
  rfl

/-- **the result buffer of `from_chunks` counted in words (round 6; proposed fix `c07-from-chunks-result-len-words`).**
    `Repr::from_chunks` sizes its result buffer `max_len + (len − 1)·chunk_bits + 1` WORDS although
    `(len − 1)·chunk_bits` is the BIT offset of the last chunk (`fromChunksW`, the code as it is: 64 times too many words,
    `from_chunks([1, 1], 1 << 28)` zero-fills 2 GiB for a 32 MiB number).  With
    `result_len = max_len + ceil_div((len − 1)·chunk_bits, WORD_BITS) + 1` (`fromChunksWT`) the unchanged loop
    `chunks_to_words` still has room for every shifted chunk, `add_in_place` still returns carry zero
    (`debug_assert_zero!`), and the value is `Σ chunkᵢ·2^(i·k)` — the same as the current code, for all word slices
    (also oversized chunks), every `k ≥ 1`, every word size -/
theorem from_chunks_result_len_in_words (W k : Nat) (hW : 1 ≤ W) (hk : 1 ≤ k) (chunks : List (List Nat))
    (hc : ∀ c ∈ chunks, Dashu.Model.IsWords W c) :
    fromChunksWT W k chunks = .ok (ofChunksSpec k (chunks.map (Dashu.Model.val W))) ∧
    fromChunksWT W k chunks = fromChunksW W k chunks := by
  have h1 := fromChunksWT_eq W k hW hk chunks hc
  exact ⟨h1, by rw [h1, fromChunksW_eq W k hW hk chunks hc]⟩

/-- `chunk_bits = 0` panics in both directions, as documented -/
theorem chunks_zero_panics (W n : Nat) (cs : List Nat) :
    toChunks W n 0 = .error .chunkBitsZero ∧ fromChunks 0 cs = .error .chunkBitsZero := by
  constructor <;> rfl

-- non-vacuity: the hypotheses are met by every supported radix at every supported word size
example : ∀ r ∈ [2, 3, 10, 16, 36], validRadix r = true ∧ r < 2 ^ 16 ∧ r < 2 ^ 32 ∧ r < 2 ^ 64 := by decide
example : (36 : Nat) < 2 ^ 16 ∧ (36 : Nat) < 2 ^ 32 ∧ (36 : Nat) < 2 ^ 64 := by decide
example : isPow2 2 = true ∧ isPow2 8 = true ∧ isPow2 32 = true ∧ isPow2 10 = false := by decide
example : fmtNonPow2 64 10 (10 ^ 5000 + 7) = digits 10 (10 ^ 5000 + 7) :=
  print_non_pow2_digits 64 10 _ (by decide) (by decide)
example : parseRadix 64 true (fmtModel 64 (.inRadix 36) { alt := true } (-(2 ^ 20000))) 36 = .ok (-(2 ^ 20000)) :=
  print_parse_round_trip 64 (by decide) 36 _ true false (by decide)
example : ofSignedLeBytesSpec (signedLeBytesSpec (-(2 ^ 128))) = -(2 ^ 128) :=
  (signed_bytes_round_trip _).1
example : fromSignedLeBytes 64 (ibigToLeBytes 64 (-(2 ^ 128))) = -(2 ^ 128) :=
  (ibig_bytes_model 64 (by decide) (by decide) _ [] (by simp)).2.2.1
example : (8 : Nat) ∣ 16 ∧ (8 : Nat) ∣ 32 ∧ (8 : Nat) ∣ 64 := by decide

-- every theorem with hypotheses, instantiated on a concrete non-trivial value
example := positional_representation 36 (36 ^ 40 + 35) (by decide)
example := radix_table 64 10 (by decide) (by decide)
example := radix_table 32 36 (by decide) (by decide)
example := print_size_classes 64 10 (10 ^ 40 + 1) (by decide) (by decide)
example := big_chunk_padded 64 10 (by decide) (by decide) [] 12345 trivial
example : IsTower 10 (fmtChunkLen * (radixInfo 64 10).dpw) [10 ^ (fmtChunkLen * (radixInfo 64 10).dpw * 2 ^ 0)] :=
  ⟨rfl, trivial⟩
example := print_pow2_digits 64 32 (2 ^ 200 + 5) (by decide) (by decide) (by decide)
example := layout_eq_pad_integral { width := some 12, zero := true, plus := true, alt := true } true [48, 120] [49, 102]
example := print_eq_reference 64 (.inRadix 7) { width := some 30, align := some .center, fill := [42] } (-(7 ^ 50)) (by decide) (by decide)
example := parse_radix_eq_grammar 64 (by decide) true [45, 49, 95, 50, 122] 36
example := parse_default_eq_grammar 64 (by decide) true [45, 48, 120, 102, 102] 10
example := parse_ok_sound 64 (by decide) true _ 36 _ (print_parse_round_trip 64 (by decide) 36 (-(36 ^ 30)) true false (by decide))
example := parse_no_digits 64 true [45, 95, 95] 10 (by decide) (by decide)
example := print_parse_round_trip_unsigned 64 (by decide) 3 (3 ^ 700) false true (by decide)
example := printer_buffers_never_overrun 64 (by decide) (by decide) 10 (by decide) (by decide) (10 ^ 2000)
example := digit_writer_sound 64 (by decide) .lower [[1, 2, 3], [], [10, 35]]
example := parser_buffers_never_overrun 64 10 (by decide) (by decide) [49, 50, 95, 51]
example : (2 ^ 192 : Nat) < 2 ^ 128 * 2 ^ 128 :=
  tower_length_shortcut_sound 64 (by decide) (2 ^ 128) (2 ^ 192) (by decide) (by decide)
example := le_bytes_round_trip (2 ^ 128)
example := ubig_bytes_model 64 (by decide) (by decide) (2 ^ 130 + 7) [1, 2, 3, 0, 255]
example := chunks_round_trip (2 ^ 200 + 12345) 37 (by decide)
example := chunks_model 64 (2 ^ 200 + 12345) 37 (by decide) (by decide) [[1, 2], [3]] (by
  intro c hc; simp at hc; rcases hc with rfl | rfl <;> (intro x hx; simp at hx; omega))
example := chunks_zero_panics 64 5 [1, 2]
example := (print_prefix_parse_round_trip 64 (by decide) (-(2 ^ 100)) false).2.2.1
example := parse_underscores_ignored 10 [49, 50, 51] [49, 95, 50, 95, 95, 51] (by decide)

example := medium_on_words 64 10 (by decide) (by decide) (by decide) [5, 7, 9] (by decide) (by unfold Norm; simp)
example := write_chunk_on_words 64 10 (by decide) (by decide) [5, 7, 9] (by decide) (by decide)
example := dword_split_on_words 64 10 (2 ^ 127 + 12345) (by decide) (by decide) (by decide) (by decide) (by decide)

example := (fast_divide_small_exact 64 10 (2 ^ 64 - 1) (by decide) (by decide) (by decide)).2
example := (fast_divide_small_exact 64 36 (36 ^ 12 - 1) (by decide) (by decide) (by decide)).2
example := (fast_divide_small_exact 16 (2 ^ 16 - 1) (2 ^ 16 - 1) (by decide) (by decide) (by decide)).2
example := swar_digit_chunk 64 (by decide) .lower [0, 9, 10, 35, 1, 11, 34, 8] (by decide) (by decide)
example := swar_digit_chunk 32 (by decide) .upper [35, 10, 9, 0] (by decide) (by decide)
example := digit_writer_swar_sound 64 (by decide) (by decide) .upper [[1, 2, 35], [], List.replicate 40 10, [9]] (by decide)
example := print_on_mirrored_low_layer 64 (by decide) (by decide) (.inRadix 36) { alt := true, width := some 9 } (-(36 ^ 50 + 35))
  (by decide)
example := raw_digits_on_mirrored_division 64 7 (7 ^ 300) (by decide) (by decide) (by decide)

example := write_pieces_recorded 64 10 (10 ^ 700 + 3) (by decide) (by decide) (by decide)
example := (write_pieces_shape 64 10 (10 ^ 700 + 3) (by decide) (by decide) (Nat.succ_ne_zero _)).1 (by decide)
example := (write_pieces_shape 64 16 (2 ^ 700 + 3) (by decide) (by decide) (Nat.succ_ne_zero _)).2 (by decide)
example := print_on_recorded_pieces 64 (by decide) (by decide) (.inRadix 36) { alt := true, width := some 9 } (-(36 ^ 50 + 35))
  (by decide)

-- chunk sizes on both sides of the word-aligned shortcut (k = W, 2W aligned; 63, 65, 127, 129 not)
example := (chunks_inverse 64 64 (by decide) (by decide)).1 (2 ^ 300 + 12345)
example := (chunks_inverse 64 128 (by decide) (by decide)).1 (2 ^ 300 + 12345)
example := (chunks_inverse 64 65 (by decide) (by decide)).1 (2 ^ 300 + 12345)
example := (chunks_inverse 64 64 (by decide) (by decide)).2 [0, 2 ^ 64 - 1, 0, 7] (by decide) (by decide)
example := (chunks_inverse 64 127 (by decide) (by decide)).2 [0, 2 ^ 127 - 1, 0, 7] (by decide) (by decide)

example := chunk_spec_guards (2 ^ 128) (2 ^ 64 - 1) (by decide) [5, 0, 0]

example := chunk_buffer_formulas_regenerated 64 (2 ^ 130 + 5) 65 (by decide) (by decide) [1, 2, 3] 1 2 0
example := from_chunks_result_len_in_words 64 (2 ^ 28) (by decide) (by decide) [[1], [1]] (by decide)
example := from_chunks_result_len_in_words 64 65 (by decide) (by decide) [[2 ^ 64 - 1, 2 ^ 64 - 1, 7], [], [1]] (by decide)

-- heap value, chunk_bits = usize::MAX (the repaired panic), a word-aligned and an unaligned size around the clamp
example := to_chunks_buffers_never_overrun 64 (2 ^ 128) (2 ^ 64 - 1) (by decide) (by decide)
example := to_chunks_buffers_never_overrun 64 (2 ^ 192 - 1) 192 (by decide) (by decide)
example := to_chunks_buffers_never_overrun 64 (2 ^ 192 - 1) 129 (by decide) (by decide)

example := ubig_bytes_inverse_canonical 64 (by decide) (by decide) [0, 255, 0, 0, 0, 0, 0, 0, 0, 0, 0, 0, 0, 0, 0, 0, 0, 7] (by decide) (by decide)

example := be_bytes_mirrored 64 (by decide) (by decide) (2 ^ 130 + 7) (-(2 ^ 128)) [255, 0, 0, 0, 0, 0, 0, 0, 0, 0, 0, 0, 0, 0, 0, 0, 0] (by decide)

-- round 7: signed converse; `[0, 255]` = -256 and `[0, 128, 0]` = 32768 have the encoder's length, `[128]` = -128 has not
example := (signed_bytes_inverse_canonical 64 (by decide) (by decide) [0, 255] [] (by decide) (by decide)).2.2 (by decide)
example := (signed_bytes_inverse_canonical 64 (by decide) (by decide) [0, 128, 0] [] (by decide) (by decide)).2.1.mpr (by decide)
example : signedLeBytesSpec (ofSignedLeBytesSpec [128]) = [128, 255] ∧ signedLen (-128) = 2 ∧ minSignedLen (-128) = 1 := by decide
example := (signed_bytes_length 32768 3 3).2.1 (by intro q h; have : (0 : Int) < 2 ^ (8 * q + 7) := Int.pow_pos (by decide); omega)

end Dashu.Props.C07
