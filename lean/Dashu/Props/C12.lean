import Dashu.Proofs.NT.GcdExt
import Dashu.Proofs.NT.BinGcd
import Dashu.Proofs.NT.Lehmer
import Dashu.Proofs.NT.LehmerComplete
import Dashu.Proofs.NT.LehmerExt
import Dashu.Proofs.NT.Root
import Dashu.Proofs.NT.Log
import Dashu.Proofs.NT.Log2Table
import Dashu.Proofs.NT.Log2Lift
import Dashu.Proofs.NT.Zimmermann
import Dashu.Proofs.NT.PrimRoot
import Dashu.Proofs.NT.PrimRootU16
import Dashu.Proofs.NT.PrimRootU128
import Dashu.Proofs.NT.PrimRootU32All
import Dashu.Proofs.NT.PrimRootU128Cbrt
import Dashu.Proofs.NT.RootTablesGen
import Dashu.Proofs.NT.PrimRootU128Total
import Dashu.Proofs.NT.PrimRootU128CbrtTotal
import Dashu.Proofs.NT.LehmerBuf
import Dashu.Proofs.NT.LehmerBufB
import Dashu.Proofs.NT.LehmerBufC
import Dashu.Proofs.NT.LehmerIter
import Dashu.Proofs.NT.LehmerWordsFit
import Dashu.Proofs.NT.LehmerEuclidFit
import Dashu.Proofs.NT.LehmerStepWords
import Dashu.Proofs.NT.LehmerStepWordsGen
import Dashu.Proofs.NT.LehmerStepCommitted
import Dashu.Proofs.NT.LehmerStepCommittedFull
import Dashu.Proofs.NT.LehmerCommitShapeFull
/-
  C12 — gcd, integer roots, integer logarithms and `remove` satisfy their defining (in)equalities;
  the only panics are the documented ones.

  Property theorems only.  Statements quantify over all word sizes (`0 < W`, and `W` even where the
  square-root normalisation needs it), all operands and all `n ≥ 1`; nothing is bounded.
  Kernels enter through their contracts (`LehmerExtContract`, `SqrtKernelContract`, `PrimSqrtContract`); the kernels the driver executes (Lehmer loops, Zimmermann's `sqrt_rem` / `sqrt_rem_42`, the primitive table/Newton roots) are Lean definitions shown to meet them — see the Round-4 sections at the end.
-/
namespace Dashu.Props.C12
open Dashu.Model Dashu.Model.NT

-- ==================================================================== gcd

/-- the primitive `gcd` of `base/src/ring/gcd.rs` (u8 … u128): common power of two, the one-division
    shortcut for operands of very different size and the binary subtract-and-shift loop compute
    `Nat.gcd`; `(0, 0)` panics -/
theorem gcd_prim_spec (a b : Nat) :
    gcdPrim a b = if a = 0 ∧ b = 0 then .error .gcdZeroZero else .ok (Nat.gcd a b) :=
  gcdPrim_spec a b

/-- `(a | b).trailing_zeros()` (as the primitive gcd / gcd_ext compute the common power of two) is the
    smaller of the two trailing-zero counts -/
theorem trailing_zeros_or (a b : Nat) (ha : 0 < a) (hb : 0 < b) :
    trailingZeros (a ||| b) = min (trailingZeros a) (trailingZeros b) :=
  tz_or ha hb

/-- `gcd` over every size class (inline/heap mixes, one operand zero, equal operands), **every kernel
    mirrored** — primitive binary gcd, reduction by a word / double word, and the Lehmer loop of
    `gcd_in_place` for two multi-word operands: `Nat.gcd`, panicking exactly for `(0, 0)` -/
theorem gcd_spec (W : Nat) (hW : 0 < W) (a b : Nat) :
    gcdReprM W a b = if a = 0 ∧ b = 0 then .error .gcdZeroZero else .ok (Nat.gcd a b) :=
  gcdReprM_spec W hW a b

/-- … and for signed operands (`IBig`, mixed forms): the non-negative gcd of the magnitudes -/
theorem gcd_int_spec (W : Nat) (hW : 0 < W) (a b : Int) :
    gcdInt W a b = if a = 0 ∧ b = 0 then .error .gcdZeroZero else .ok (Int.gcd a b) := by
  unfold gcdInt
  rw [gcdReprM_spec W hW]
  have : (a.natAbs = 0 ∧ b.natAbs = 0) ↔ (a = 0 ∧ b = 0) := by omega
  by_cases h : a = 0 ∧ b = 0
  · rw [if_pos h, if_pos (this.2 h)]
  · rw [if_neg h, if_neg (fun h' => h (this.1 h'))]; rfl

/-- the same dispatch with the Lehmer kernel replaced by its specification (kept for comparison) -/
theorem gcd_spec_frontier (W : Nat) (a b : Nat) :
    gcdRepr W a b = if a = 0 ∧ b = 0 then .error .gcdZeroZero else .ok (Nat.gcd a b) :=
  gcdRepr_spec W gcdPrim_spec a b

/-- the primitive Euclid loop with cofactors (`unchecked_gcd_ext` + the `ExtendedGcd` wrapper) -/
theorem gcd_ext_prim_spec (a b : Nat) :
    (a = 0 ∧ b = 0 → xgcdPrim a b = .error .gcdZeroZero) ∧
    (¬ (a = 0 ∧ b = 0) → ∃ g s t, xgcdPrim a b = .ok (g, s, t) ∧ g = Nat.gcd a b ∧
        (a : Int) * s + (b : Int) * t = g) := by
  obtain ⟨h0, h1⟩ := xgcdPrim_spec a b
  refine ⟨h0, fun h => ?_⟩
  obtain ⟨⟨g, s, t⟩, hr, hx⟩ := h1 h
  exact ⟨g, s, t, hr, hx.1, hx.2.1.symm⟩

/-- the two-width variant used for `u128` (the double word): Euclid in full width while the remainder
    needs more than `H` bits, then the half-width loop, cofactors recombined -/
theorem gcd_ext_prim_wide_spec (H a b : Nat) :
    (a = 0 ∧ b = 0 → xgcdPrimWide H a b = .error .gcdZeroZero) ∧
    (¬ (a = 0 ∧ b = 0) → ∃ g s t, xgcdPrimWide H a b = .ok (g, s, t) ∧ g = Nat.gcd a b ∧
        (a : Int) * s + (b : Int) * t = g) := by
  obtain ⟨h0, h1⟩ := xgcdPrimWide_spec H a b
  refine ⟨h0, fun h => ?_⟩
  obtain ⟨⟨g, s, t⟩, hr, hx⟩ := h1 h
  exact ⟨g, s, t, hr, hx.1, hx.2.1.symm⟩

/-- `gcd_ext` for signed operands of every size class: `s·a + t·b = g = gcd(|a|, |b|)`, for **any**
    multi-word kernel that meets the contract of `gcd_ext_in_place` — including the recovery
    `|b| = q·|t| + |s|` of `gcd_ext_word/_dword` and the post-processing `a = (g − rhs·b)/lhs` as an
    exact division. -/
theorem gcd_ext_bezout (W : Nat) (kernel : Nat → Nat → Nat × Nat × Bool)
    (hk : ∀ l r, 0 < r → r < l → LehmerExtContract l r (kernel l r)) (a b : Int) :
    (a = 0 ∧ b = 0 → gcdExtInt W kernel a b = .error .gcdZeroZero) ∧
    (¬ (a = 0 ∧ b = 0) → ∃ g s t, gcdExtInt W kernel a b = .ok (g, s, t) ∧
        g = Int.gcd a b ∧ s * a + t * b = g) :=
  gcdExtInt_spec W kernel hk a b

/-- **`lehmer::gcd_ext_in_place` is correct.**  The mirrored loop — leading-word guess, Euclidean
    fallback with `t0 += q·t1`, `lehmer_step` with `lehmer_ext_step` on the unsigned coefficients, the
    `swapped` flag as the sign, and the final single-word `gcd_ext` — always returns for `0 < rhs < lhs`,
    and `(g, |b|, sign)` is the gcd with `lhs ∣ g − rhs·b`. -/
theorem lehmer_gcd_ext_correct (W : Nat) (hW : 0 < W) (lhs rhs : Nat) (h0 : 0 < rhs) (hlt : rhs < lhs) :
    ∃ res, lehmerExt W lhs rhs = .ok res ∧ LehmerExtContract lhs rhs res :=
  lehmerExt_correct W hW lhs rhs h0 hlt

/-- **`gcd_ext` with every kernel mirrored** (what the driver runs): for signed operands of every
    size class `s·a + t·b = g = gcd(|a|, |b|)`; only `(0, 0)` panics. -/
theorem gcd_ext_spec (W : Nat) (hW : 0 < W) (a b : Int) :
    (a = 0 ∧ b = 0 → gcdExtInt W (lehmerExtKernel W) a b = .error .gcdZeroZero) ∧
    (¬ (a = 0 ∧ b = 0) → ∃ g s t, gcdExtInt W (lehmerExtKernel W) a b = .ok (g, s, t) ∧
        g = Int.gcd a b ∧ s * a + t * b = g) :=
  gcdExtInt_spec W (lehmerExtKernel W) (fun l r hr hlt => by
    obtain ⟨res, h1, h2⟩ := lehmerExt_correct W hW l r hr hlt
    unfold lehmerExtKernel; rw [h1]; exact h2) a b

/-- … and for the plain-Euclid stand-in kernel of earlier rounds -/
theorem gcd_ext_bezout_driver (W : Nat) (a b : Int) (h : ¬ (a = 0 ∧ b = 0)) :
    ∃ g s t, gcdExtInt W lehmerExtFrontier a b = .ok (g, s, t) ∧ g = Int.gcd a b ∧ s * a + t * b = g :=
  (gcdExtInt_spec W lehmerExtFrontier (fun _ _ hr hlt => lehmerExtFrontier_contract hr hlt) a b).2 h

/-- the hypotheses of `lehmer_gcd_ext_correct` are satisfiable on multi-word operands -/
example : ∃ res, lehmerExt 64 (2 ^ 200 + 12345) (3 ^ 120 + 7) = .ok res ∧
    LehmerExtContract (2 ^ 200 + 12345) (3 ^ 120 + 7) res :=
  lehmer_gcd_ext_correct 64 (by decide) _ _ (by decide +kernel) (by decide +kernel)

/-- concrete run through the Lehmer loop (4-word × 3-word operands, negative second operand) -/
example : (match gcdExtInt 64 (lehmerExtKernel 64) (2 ^ 200 + 12345) (-(3 ^ 120 + 7)) with
    | .ok (g, s, t) => decide (s * (2 ^ 200 + 12345) + t * (-(3 ^ 120 + 7)) = g ∧ g = 1 ∧ t ≠ 0)
    | .error _ => false) = true := by
  decide +kernel

/-- Lehmer step: whatever quotients `lehmer_guess` commits, the cofactor matrix keeps determinant 1 -/
theorem lehmer_guess_det (lim fuel xbar ybar : Nat) :
    let r := lehmerGuess lim fuel xbar ybar 1 0 0 1
    (r.1 : Int) * r.2.2.2 - r.2.1 * r.2.2.1 = 1 :=
  lehmerGuess_det lim fuel xbar ybar 1 0 0 1 (by norm_num)

/-- … and a determinant-1 step `(x, y) ↦ (a·x − b·y, d·y − c·x)` preserves the gcd: correctness of
    the guess only matters for progress -/
theorem lehmer_step_preserves_gcd (lim fuel xbar ybar : Nat) (x y : Int) :
    let r := lehmerGuess lim fuel xbar ybar 1 0 0 1
    Int.gcd (lehmerStep x y r.1 r.2.1 r.2.2.1 r.2.2.2).1 (lehmerStep x y r.1 r.2.1 r.2.2.1 r.2.2.2).2
      = Int.gcd x y := by
  intro r
  exact lehmerStep_gcd x y _ _ _ _ (lehmerGuess_det lim fuel xbar ybar 1 0 0 1 (by norm_num))

/-- the cofactors `lehmer_guess(_dword)` commits from the leading words (`highest_word_normalized`,
    `highest_dword_normalized`: both operands truncated at one common bit position) never make a step
    of the full operands negative -/
theorem lehmer_step_nonneg (W x y : Nat) (hW : 0 < W) (hxy : y ≤ x) (hy : 2 < wordLen W y) :
    let r := lehmerCofactors W x y
    0 ≤ (r.1 : Int) * x - (r.2.1 : Int) * y ∧ 0 ≤ (r.2.2.2 : Int) * y - (r.2.2.1 : Int) * x :=
  lehmerCofactors_nonneg hW hxy hy

/-- the whole mirrored loop of `lehmer::gcd_in_place` (leading-word alignment, `lehmer_guess(_dword)`,
    Euclidean fallback when the guess fails, `lehmer_step`, final word / double-word gcd) is **sound**:
    every value it returns is the gcd, whatever cofactors the guess commits -/
theorem lehmer_gcd_sound (W lhs rhs g : Nat) (h : lehmerGcd W lhs rhs = .ok g) : g = Nat.gcd lhs rhs :=
  lehmerGcd_sound W lhs rhs g h

/-- … and **complete**: it always returns (no step goes negative, every iteration decreases `x + y`),
    so `gcd_in_place` computes the gcd -/
theorem lehmer_gcd_correct (W : Nat) (hW : 0 < W) (lhs rhs : Nat) (h : rhs ≤ lhs) :
    lehmerGcd W lhs rhs = .ok (Nat.gcd lhs rhs) :=
  lehmerGcd_correct W hW lhs rhs h

/-- non-vacuity: the mirrored loop returns on a pair of 5-word operands with a common factor -/
example : lehmerGcd 64 ((2 ^ 64 + 1) * (2 ^ 250 + 12345)) ((2 ^ 64 + 1) * (2 ^ 200 + 7)) = .ok (2 ^ 64 + 1) := by
  decide +kernel

-- ==================================================================== roots

/-- `sqrt_rem` (all sizes): floor square root and `value − root²`; multi-word values through the
    normalisation shift, any kernel meeting the contract, and de-normalisation of root **and
    remainder** -/
theorem sqrt_rem_spec (W : Nat) (hW : 0 < W) (hWe : W % 2 = 0) (x : Nat) :
    IsRoot x 2 (sqrtRemRepr W true x).1 ∧
    (sqrtRemRepr W true x).1 * (sqrtRemRepr W true x).1 + (sqrtRemRepr W true x).2 = x := by
  unfold sqrtRemRepr
  split
  · have h := iroot_spec x 2 (by decide)
    refine ⟨h, ?_⟩
    show iroot x 2 * iroot x 2 + (x - iroot x 2 * iroot x 2) = x
    have := h.1; simp only [Nat.pow_two] at this; omega
  · exact sqrtRemLarge_spec W hW hWe _ sqrtRemKernelFrontier_contract x

/-- `nth_root` for every `n`: zeroth root panics, otherwise the floor root — `n = 1, 2` shortcuts,
    the `bits ≤ n` shortcut (with radicand 0 giving 0) and the Newton iteration from `2^(bits/n)`
    ("up then down") with its stopping rule -/
theorem nth_root_spec (W : Nat) (hW : 0 < W) (hWe : W % 2 = 0) (x n : Nat) :
    (n = 0 → nthRootRepr W true x n = .error .rootZeroth) ∧
    (0 < n → ∃ s, nthRootRepr W true x n = .ok s ∧ IsRoot x n s) := by
  constructor
  · intro h; subst h; rfl
  · intro hn
    match n, hn with
    | 1, _ => exact ⟨x, rfl, by simp [IsRoot]⟩
    | 2, _ => exact ⟨_, rfl, (sqrt_rem_spec W hW hWe x).1⟩
    | k + 3, _ =>
      unfold nthRootRepr
      simp only []
      split
      · rename_i hbits
        refine ⟨_, rfl, ?_⟩
        have hlt := lt_two_pow_bitLen x
        have hle : 2 ^ bitLen x ≤ 2 ^ (k + 3) := Nat.pow_le_pow_right (by decide) hbits
        by_cases hx : x = 0
        · subst hx; simp [IsRoot]
        · simp only [hx, and_false, if_false]
          exact ⟨by simp; omega, by norm_num; omega⟩
      · rename_i hbits
        exact ⟨_, rfl, nthRootNewton_spec x (k + 2) (by omega) (by omega)⟩

/-- `cbrt_rem`: floor cube root and `value − root³` (never the `NegativeUBig` panic) -/
theorem cbrt_rem_spec (W : Nat) (hW : 0 < W) (hWe : W % 2 = 0) (x : Nat) :
    ∃ c r, cbrtRemRepr W true x = .ok (c, r) ∧ IsRoot x 3 c ∧ c ^ 3 + r = x := by
  obtain ⟨s, hs, hroot⟩ := (nth_root_spec W hW hWe x 3).2 (by decide)
  unfold cbrtRemRepr
  rw [hs]
  simp only [if_pos hroot.1]
  exact ⟨s, _, rfl, hroot, by have := hroot.1; omega⟩

/-- `IBig::nth_root`, `sqrt`, `cbrt`: zeroth root and even roots of negatives panic (and nothing
    else does); the result is the root truncated toward zero -/
theorem ibig_root_spec (W : Nat) (hW : 0 < W) (hWe : W % 2 = 0) (x : Int) (n : Nat) :
    (n = 0 → nthRootInt W true x n = .error .rootZeroth) ∧
    (0 < n → x < 0 → n % 2 = 0 → nthRootInt W true x n = .error .rootNegative) ∧
    (0 < n → ¬ (x < 0 ∧ n % 2 = 0) → ∃ s : Nat, IsRoot x.natAbs n s ∧
        nthRootInt W true x n = .ok (if x < 0 then -(s : Int) else s)) ∧
    (x < 0 → sqrtInt W x = .error .rootNegative) ∧
    (∃ s : Nat, IsRoot x.natAbs 3 s ∧ cbrtInt W true x = .ok (if x < 0 then -(s : Int) else s)) := by
  refine ⟨?_, ?_, ?_, ?_, ?_⟩
  · intro h; simp [nthRootInt, h]
  · intro hn hx he
    unfold nthRootInt
    rw [if_neg (by omega), if_pos ⟨hx, he⟩]
  · intro hn hneg
    obtain ⟨s, hs, hroot⟩ := (nth_root_spec W hW hWe x.natAbs n).2 hn
    refine ⟨s, hroot, ?_⟩
    unfold nthRootInt
    rw [if_neg (by omega), if_neg hneg, hs]
  · intro hx; simp [sqrtInt, hx]
  · obtain ⟨s, hs, hroot⟩ := (nth_root_spec W hW hWe x.natAbs 3).2 (by decide)
    refine ⟨s, hroot, ?_⟩
    unfold cbrtInt
    simp only [Bool.not_true, Bool.false_eq_true, and_false, if_false, hs]

-- ==================================================================== ilog, remove, table estimator

/-- `ilog`: panics exactly for a zero operand or a base below 2; otherwise, for every first guess
    the code's assertion accepts (`base^max(est,1) ≤ x`), the correction loops end at `e` with
    `base^e ≤ x < base^(e+1)` -/
theorem ilog_spec (W : Nat) (hW : 0 < W) (estF : Nat → Nat → Nat) (x base : Nat)
    (hest : base ≤ x → base ^ max (estF x base) 1 ≤ x) :
    ((x = 0 ∨ base < 2) → logRepr W true estF x base = .error .logInvalid) ∧
    (0 < x → 2 ≤ base → ∃ e p, logRepr W true estF x base = .ok (e, p) ∧
        p = base ^ e ∧ base ^ e ≤ x ∧ x < base ^ (e + 1)) := by
  obtain ⟨h0, h1⟩ := logRepr_spec W hW estF x base hest
  refine ⟨h0, fun hx hb => ?_⟩
  obtain ⟨⟨e, p⟩, hr, hp, hle, hlt⟩ := h1 hx hb
  simp only [] at hp hle hlt
  exact ⟨e, p, hr, hp, by rw [← hp]; exact hle, by rw [Nat.pow_succ, ← hp]; exact hlt⟩

/-- non-vacuity of the estimator hypothesis: the constant guess 1 (what the driver uses) meets it -/
example (x base : Nat) : base ≤ x → base ^ max ((fun _ _ => 1) x base) 1 ≤ x := by
  intro h; simpa using h

/-- `remove`: `None` exactly for `x = 0` or a factor below 2; otherwise the exact multiplicity,
    divided out (squaring tower up, then down) -/
theorem remove_spec (x f : Nat) :
    ((x = 0 ∨ f < 2) → removeRepr x f = none) ∧
    (0 < x → 2 ≤ f → ∃ e q, removeRepr x f = some (e, q) ∧ x = q * f ^ e ∧ ¬ (f ∣ q)) :=
  removeRepr_spec x f

/-- the no_std log2 table estimator encloses `log2 n` for every `u16` value above `0xff`
    (`2^lb ≤ n^256 ≤ 2^ub` with `lb = log2_fp8 n`, `ub = ceil_log2_fp8 n`; all 65 280 values) -/
theorem log2_table_sound (n : Nat) (h1 : 256 ≤ n) (h2 : n < 65536) :
    2 ^ log2Fp8 n ≤ n ^ 256 ∧ (n ≠ 2 ^ (bitLen n - 1) → n ^ 256 ≤ 2 ^ ceilLog2Fp8 n) :=
  log2_fp8_sound n h1 h2

/-- the no_std `u8` estimator (operand raised to the 4th power below 16, squared from 16 on, then
    the table): encloses `log2 i` for every `u8` value that is not handled literally -/
theorem log2_u8_table_sound (i : Nat) (h1 : 4 ≤ i) (h2 : i < 256) (hp : i ≠ 2 ^ (bitLen i - 1)) (h3 : i ≠ 3) :
    let k := if i < 16 then 4 else 2
    2 ^ log2Fp8 (i ^ k) ≤ i ^ (256 * k) ∧ i ^ (256 * k) ≤ 2 ^ ceilLog2Fp8 (i ^ k) :=
  log2_u8_sound i h1 h2 hp h3

/-- the no_std estimator of wider integers (`u32 … u128`, `usize`; any bit length above 16): table
    estimate of the top 16 bits plus the shift; the ceiling of the top bits also covers the discarded
    low bits (`(hi+1)^256 ≤ 2^ceil_log2_fp8(hi)` for all `2^15 < hi < 2^16`) -/
theorem log2_wide_table_sound (x : Nat) (hbits : 16 < bitLen x) :
    let shift := bitLen x - 16
    let hi := x / 2 ^ shift
    let ub := if hi = 2 ^ 15 then 15 * 256 + 1 else ceilLog2Fp8 hi
    2 ^ (log2Fp8 hi + 256 * shift) ≤ x ^ 256 ∧ x ^ 256 ≤ 2 ^ (ub + 256 * shift) :=
  log2_wide_sound x hbits

-- ==================================================================== non-vacuity and regression theorems
-- (the `fixed = false` variants mirror the code before the `fix:` commits 77711bb, 26bd959, f6db5f8,
--  44dc3ca, 413052e of /repo; they show that the hypotheses / corrected branches are needed)

example : IsRoot (2 ^ 191 + 12345) 2 (sqrtRemRepr 64 true (2 ^ 191 + 12345)).1 :=
  (sqrt_rem_spec 64 (by decide) (by decide) _).1

-- concrete instances of the theorems above (non-vacuity; evaluated by the kernel)
example : nthRootRepr 64 true (10 ^ 30) 7 = .ok 19306 := by decide +kernel
example : cbrtRemRepr 64 true (10 ^ 30 + 7) = .ok (10 ^ 10, 7) := by decide +kernel
example : logRepr 64 true (fun _ _ => 1) (10 ^ 40 + 1) 10 = .ok (40, 10 ^ 40) := by decide +kernel
example : removeRepr (3 * 12 ^ 5) 12 = some (5, 3) := by decide +kernel
example : gcdReprM 64 (6 * (2 ^ 200 + 1)) (6 * (2 ^ 130 + 7)) = .ok (Nat.gcd (6 * (2 ^ 200 + 1)) (6 * (2 ^ 130 + 7))) := by
  decide +kernel
/-- the hypotheses of `lehmer_step_nonneg` / `log2_wide_table_sound` / `log2_u8_table_sound` are satisfiable -/
example : (2 : Nat) ^ 128 + 5 ≤ 2 ^ 200 + 1 ∧ 2 < wordLen 64 (2 ^ 128 + 5) ∧ 16 < bitLen 0x12345678 ∧
    (4 ≤ 201 ∧ 201 < 256 ∧ 201 ≠ 2 ^ (bitLen 201 - 1) ∧ 201 ≠ 3) := by decide

/-- REGRESSION (`nth_root` of zero): the `bits ≤ n ⇒ 1` shortcut as written returns 1 for the radicand 0 -/
theorem nth_root_zero_asIs_counterexample :
    nthRootRepr 64 false 0 3 = .ok 1 ∧ ¬ IsRoot 0 3 1 ∧ nthRootRepr 64 true 0 3 = .ok 0 ∧
    cbrtRemRepr 64 false 0 = .error .negativeUBig := by
  refine ⟨rfl, by simp [IsRoot], rfl, rfl⟩

/-- REGRESSION (`sqrt_rem_large`, `shift == WORD_BITS`): the remainder as written is shifted by
    `shift % WORD_BITS = 0` bits instead of one word: `s² + r ≠ n` for `n = 2^191 + 12345` -/
theorem sqrt_rem_asIs_counterexample :
    (sqrtRemLarge 64 sqrtRemKernelFrontier false (2 ^ 191 + 12345)).1 *
        (sqrtRemLarge 64 sqrtRemKernelFrontier false (2 ^ 191 + 12345)).1 +
      (sqrtRemLarge 64 sqrtRemKernelFrontier false (2 ^ 191 + 12345)).2 ≠ 2 ^ 191 + 12345 ∧
    (sqrtRemLarge 64 sqrtRemKernelFrontier false (2 ^ 191 + 12345)).2 =
      (sqrtRemLarge 64 sqrtRemKernelFrontier true (2 ^ 191 + 12345)).2 * 2 ^ 64 := by
  decide +kernel

/-- REGRESSION (`CubicRoot for IBig`): as written every negative input panics with `RootNegative` -/
theorem ibig_cbrt_asIs_counterexample :
    cbrtInt 64 false (-8) = .error .rootNegative ∧ cbrtInt 64 true (-8) = .ok (-2) ∧
    nthRootInt 64 false (-8) 3 = .ok (-2) := by
  decide +kernel

/-- REGRESSION (`ilog` of zero): as written only `log_dword` rejects a zero target; the power-of-two
    shortcuts underflow and a multi-word base returns 0 -/
theorem ilog_zero_asIs_counterexample :
    logRepr 64 false (fun _ _ => 1) 0 2 ≠ .error .logInvalid ∧
    logRepr 64 false (fun _ _ => 1) 0 4 ≠ .error .logInvalid ∧
    logRepr 64 false (fun _ _ => 1) 0 (2 ^ 130 + 1) = .ok (0, 1) ∧
    logRepr 64 true (fun _ _ => 1) 0 (2 ^ 130 + 1) = .error .logInvalid := by
  decide +kernel

/-- REGRESSION (`gcd_ext_large` post-processing): for `(2^320, 2^128)` the residue `g − rhs·b` has fewer
    words than `lhs`, which violates the precondition of the division the code calls -/
theorem gcd_ext_post_precondition_counterexample :
    gcdExtPostPre 64 (2 ^ 320) (2 ^ 128) (lehmerExtFrontier (2 ^ 320) (2 ^ 128)) = false ∧
    gcdExtPost (2 ^ 320) (2 ^ 128) (lehmerExtFrontier (2 ^ 320) (2 ^ 128)) = (2 ^ 128, 0, 1) := by
  decide +kernel

-- ==================================================================== Zimmermann's Karatsuba square root (Round 4)

/-- the arithmetic core of `root::sqrt_rem` (Zimmermann 1999): with `hi = s1² + R1`, `R1 ≤ 2·s1`, a
    normalised `s1` (`B ≤ 2·s1`) and `R1·B + b1 = 2·q·s1 + U`, `U < 2·s1`, the candidate `s = s1·B + q` has the
    exact signed remainder `r = U·B + b0 − q²`; `q ≤ B`; `r ≤ 2s`; a negative `r` is repaired by ONE
    decrement (`r + 2s − 1 ≥ 0`); and `q = B` always needs it -/
theorem zimmermann_step {s1 R1 B b1 b0 q U hi : Nat}
    (hhi : hi = s1 * s1 + R1) (hR1 : R1 ≤ 2 * s1) (hB : B ≤ 2 * s1) (hb1 : b1 < B) (hb0 : b0 < B)
    (hdiv : R1 * B + b1 = 2 * q * s1 + U) (hU : U < 2 * s1) :
    ((hi * (B * B) + b1 * B + b0 : Nat) : Int) = ((s1 * B + q) * (s1 * B + q) : Nat) + ((U * B + b0 : Nat) - (q * q : Nat) : Int) ∧
    q ≤ B ∧
    ((U * B + b0 : Nat) : Int) - (q * q : Nat) ≤ 2 * ((s1 * B + q : Nat) : Int) ∧
    (((U * B + b0 : Nat) : Int) - (q * q : Nat) < 0 →
        0 ≤ ((U * B + b0 : Nat) : Int) - (q * q : Nat) + 2 * ((s1 * B + q : Nat) : Int) - 1 ∧ 1 ≤ q) ∧
    (q = B → ((U * B + b0 : Nat) : Int) - (q * q : Nat) < 0) :=
  karatsuba_step hhi hR1 hB hb1 hb0 hdiv hU

/-- **`root::sqrt_rem_42` is correct**: on every normalised 4-word value (`2^(4W−2) ≤ a < 2^(4W)`, any
    word size `W ≥ 2`) the mirrored routine — word-assembled `r0 = (r1·B + b1)/2`, division by `s1`,
    the `q ≥ B` reduction, `u << 1 | (a[1] & 1)`, `overflowing_sub(q²)`, the `c < 0` repair with its two
    `overflowing_add`s — returns `(s, r_lo, carry)` with `s² + r = a`, `r ≤ 2s`, `r = r_lo + carry·2^(2W)` -/
theorem sqrt_rem_42_correct {W : Nat} (hW : 2 ≤ W) {prim : Nat → Nat × Nat} (hprim : PrimSqrtContract W prim)
    {a : Nat} (hlo : 2 ^ (W - 1) * 2 ^ (W - 1) * (2 ^ W * 2 ^ W) ≤ a) (hhi : a < 2 ^ W * 2 ^ W * (2 ^ W * 2 ^ W)) :
    KOut (2 ^ W * 2 ^ W) a (sqrtRem42 W prim a) :=
  sqrtRem42_spec hW hprim hlo hhi

/-- **`root::sqrt_rem` (Zimmermann's Karatsuba square root) is correct** for every output length `n ≥ 2`
    and every normalised `2n`-word value: the mirrored recursion (recursive call on the high `2(n − n/2)`
    words, `r1_top` ⇒ `sub_in_place`, `div_rem_in_place` by `s1`, the shifted-in quotient bit
    `r1_top ^ carry`, `q_top`, the parity repair `add_in_place`, `q²` with `q_top` placed or charged to `c`,
    `sub_in_place`, the `c < 0` repair with `add_word_in_place` / `add_mul_word_in_place` /
    `sub_one_in_place`) returns `(s, r_lo, carry)` with `s² + r = a`, `r ≤ 2s`, `r_lo < 2^(W·n)`.
    No fuel or size bound: the recursion depth argument is `n` itself. -/
theorem sqrt_rem_karatsuba_correct {W : Nat} (hW : 2 ≤ W) {prim : Nat → Nat × Nat} (hprim : PrimSqrtContract W prim)
    (n a : Nat) (hn : 2 ≤ n) (hlo : 2 ^ (W * n - 1) * 2 ^ (W * n - 1) ≤ a) (hhi : a < 2 ^ (W * n) * 2 ^ (W * n)) :
    KOut (2 ^ (W * n)) a (sqrtRemRec W prim n n a) :=
  sqrtRemRec_spec hW hprim n n a hn (Nat.le_refl n) hlo hhi

/-- … so on the value `sqrt_rem_large` hands over, the mirrored kernel is the floor square root with its
    remainder (it equals the specification it replaced) -/
theorem sqrt_rem_kernel_eq_spec {W : Nat} (hW : 2 ≤ W) (hWe : W % 2 = 0) {prim : Nat → Nat × Nat}
    (hprim : PrimSqrtContract W prim) (fixed : Bool) {x : Nat} (hx : 2 ^ (2 * W) ≤ x) :
    sqrtRemLarge W (sqrtRemKernel W prim) fixed x = sqrtRemLarge W sqrtRemKernelFrontier fixed x :=
  sqrtRemLarge_mirrored hW hWe hprim fixed hx

/-- **`sqrt_rem` with every kernel mirrored** (what the driver runs): floor square root and
    `value − root²` for every `x`, given that the one- and two-word primitive roots are exact -/
theorem sqrt_rem_mirrored_spec {W : Nat} (hW : 2 ≤ W) (hWe : W % 2 = 0) {primW primD : Nat → Nat × Nat}
    (hpW : PrimSqrtExact (2 ^ W) primW) (hpD : PrimSqrtExact (2 ^ (2 * W)) primD) (x : Nat) :
    IsRoot x 2 (sqrtRemReprM W primW primD true x).1 ∧
    (sqrtRemReprM W primW primD true x).1 * (sqrtRemReprM W primW primD true x).1
      + (sqrtRemReprM W primW primD true x).2 = x := by
  rw [sqrtRemReprM_eq hW hWe hpW hpD]
  exact sqrt_rem_spec W (by omega) hWe x

/-- … and `nth_root` / `sqrt` through it: every clause of `nth_root_spec` holds for the mirrored dispatch -/
theorem nth_root_mirrored_eq {W : Nat} (hW : 2 ≤ W) (hWe : W % 2 = 0) {primW primD : Nat → Nat × Nat}
    (hpW : PrimSqrtExact (2 ^ W) primW) (hpD : PrimSqrtExact (2 ^ (2 * W)) primD) (fixed : Bool) (x n : Nat) :
    nthRootReprM W primW primD fixed x n = nthRootRepr W fixed x n :=
  nthRootReprM_eq hW hWe hpW hpD fixed x n

/-- the hypotheses are satisfiable: the specification-level primitives are exact … -/
example : PrimSqrtExact (2 ^ 64) sqrtRemPrimFrontier ∧ PrimSqrtExact (2 ^ (2 * 64)) sqrtRemPrimFrontier :=
  ⟨fun _ _ => rfl, fun _ _ => rfl⟩

/-- … and concrete runs of what the driver executes (mirrored `u64`/`u128` primitives, `sqrt_rem_42`, the
    recursion at `n = 3, 5` with and without the normalisation shift), evaluated by the kernel -/
example : sqrtRemReprM 64 (sqrtRemWordM 64) (sqrtRemDwordM 64) true (2 ^ 255 + 12345)
    = sqrtRemRepr 64 true (2 ^ 255 + 12345) := by decide +kernel
example : sqrtRemReprM 64 (sqrtRemWordM 64) (sqrtRemDwordM 64) true (3 ^ 230 + 7)
    = sqrtRemRepr 64 true (3 ^ 230 + 7) := by decide +kernel
example : sqrtRemReprM 64 (sqrtRemWordM 64) (sqrtRemDwordM 64) true (2 ^ 640 - 1)
    = sqrtRemRepr 64 true (2 ^ 640 - 1) := by decide +kernel
example : KOut (2 ^ (64 * 3)) (2 ^ 384 - 1) (sqrtRemRec 64 sqrtRemPrimFrontier 3 3 (2 ^ 384 - 1)) :=
  sqrt_rem_karatsuba_correct (by decide) (PrimSqrtExact.contract (W := 64) (fun _ _ => rfl)) 3 _ (by decide)
    (by decide +kernel) (by decide +kernel)

-- ==================================================================== primitive roots of dashu-base (Round 4)

/-- **`fix_sqrt_error!` is sound** (every width, every start value): whatever it returns without an
    arithmetic overflow is the floor square root and `n − root²` -/
theorem fix_sqrt_error_sound {bits n s : Nat} {r : Nat × Nat} (h : fixSqrtError bits n s = some r) :
    IsRoot n 2 r.1 ∧ r.1 * r.1 + r.2 = n :=
  fixSqrtError_sound h

/-- **`fix_cbrt_error!` is sound** -/
theorem fix_cbrt_error_sound {bits n c : Nat} {r : Nat × Nat} (h : fixCbrtError bits n c = some r) :
    IsRoot n 3 r.1 ∧ r.1 ^ 3 + r.2 = n :=
  fixCbrtError_sound h

/-- **`sqrt_rem` of `u8`, `u16`, `u32`, `u64`, `u128` is sound** on every value of the type: table lookup,
    Newton steps, the `u128` Karatsuba step over the `u64` routine (bit-packed with KBITS = 32) and the
    normalising wrapper can only produce the floor root and its remainder (or overflow) -/
theorem prim_sqrt_rem_sound {bits x : Nat} (hb : bits = 8 ∨ bits = 16 ∨ bits = 32 ∨ bits = 64 ∨ bits = 128)
    (hx : x < 2 ^ bits) {r : Nat × Nat} (h : sqrtRemPrimBits bits x = some r) :
    IsRoot x 2 r.1 ∧ r.1 ^ 2 + r.2 = x := by
  rcases hb with rfl | rfl | rfl | rfl | rfl
  · have := fixSqrtError_sound (show fixSqrtError 8 x 0 = some r from h)
    rw [Nat.pow_two]; exact this
  · exact sqrtRemNorm_sound normSqrtU16_sound hx h
  · exact sqrtRemNorm_sound normSqrtU32_sound hx h
  · exact sqrtRemNorm_sound normSqrtU64_sound hx h
  · exact sqrtRemU128_sound hx h

/-- a sound primitive that answers on every value of its type is exact -/
theorem prim_exact_of_total {bits : Nat} (hb : bits = 8 ∨ bits = 16 ∨ bits = 32 ∨ bits = 64 ∨ bits = 128)
    (htot : ∀ y, y < 2 ^ bits → (sqrtRemPrimBits bits y).isSome) :
    PrimSqrtExact (2 ^ bits) (fun y => (sqrtRemPrimBits bits y).getD (0, 0)) := by
  intro y hy
  have ht := htot y hy
  obtain ⟨r, hr⟩ := Option.isSome_iff_exists.1 ht
  obtain ⟨hroot, hrem⟩ := prim_sqrt_rem_sound hb hy hr
  simp only [hr, Option.getD_some]
  have hu := IsRoot.unique (by decide) hroot (iroot_spec y 2 (by decide))
  unfold sqrtRemPrimFrontier
  simp only []
  rw [← hu]
  have : r.1 * r.1 + r.2 = y := by rw [← Nat.pow_two]; exact hrem
  ext
  · rfl
  · simp only []; omega

/-- **`sqrt_rem` exactly as the driver runs it for the 64-bit word** (mirrored `u64` / `u128` primitives,
    `sqrt_rem_42`, the Karatsuba recursion, `sqrt_rem_large`): the floor square root and `value − root²`
    for EVERY `x`.  The only hypothesis left is that the `u64` and `u128` primitive routines never
    overflow (`isSome`: they are proved sound, `prim_sqrt_rem_sound`; totality is proved up to `u32`, `prim_root_u32_total`). -/
theorem sqrt_rem_driver_spec
    (h64 : ∀ y, y < 2 ^ 64 → (sqrtRemPrimBits 64 y).isSome)
    (h128 : ∀ y, y < 2 ^ 128 → (sqrtRemPrimBits 128 y).isSome) (x : Nat) :
    IsRoot x 2 (sqrtRemReprM 64 (sqrtRemWordM 64) (sqrtRemDwordM 64) true x).1 ∧
    (sqrtRemReprM 64 (sqrtRemWordM 64) (sqrtRemDwordM 64) true x).1 * (sqrtRemReprM 64 (sqrtRemWordM 64) (sqrtRemDwordM 64) true x).1
      + (sqrtRemReprM 64 (sqrtRemWordM 64) (sqrtRemDwordM 64) true x).2 = x :=
  sqrt_rem_mirrored_spec (W := 64) (by decide) (by decide)
    (prim_exact_of_total (bits := 64) (by decide) h64)
    (prim_exact_of_total (bits := 128) (by decide) h128) x

/-- **the `u128` square-root step adds no overflow of its own** (Round 5): if `<u64>::normalized_sqrt_rem` answers on
    every normalised `u64` (`2^62 ≤ y < 2^64`), then `u64::sqrt_rem` and `u128::sqrt_rem` answer on EVERY value of their
    types — in the `u128` Karatsuba step `u += s1`, `q * q`, `s -= 1` stay in range and the remainder carry after the
    `c < 0` repair is never negative (one decrement always suffices, `zimmermann_step`) -/
theorem prim_sqrt_u128_total_of_u64 (h64 : ∀ y, 2 ^ 62 ≤ y → y < 2 ^ 64 → (normSqrtU64 y).isSome) :
    (∀ y, y < 2 ^ 64 → (sqrtRemPrimBits 64 y).isSome) ∧ (∀ y, y < 2 ^ 128 → (sqrtRemPrimBits 128 y).isSome) := by
  have h64' : ∀ y, 2 ^ 62 ≤ y → y < 2 ^ 64 → ∃ r, normSqrtU64 y = some r :=
    fun y h1 h2 => Option.isSome_iff_exists.1 (h64 y h1 h2)
  exact ⟨fun y hy => Option.isSome_iff_exists.2 (sqrtRemU64_total_of_norm h64' hy),
         fun y hy => Option.isSome_iff_exists.2 (sqrtRemU128_total_of_u64 h64' hy)⟩

/-- **`sqrt_rem` exactly as the driver runs it for the 64-bit word, ONE hypothesis left**: the `u64` table/Newton routine
    `normalized_sqrt_rem` does not overflow on normalised operands (everything else — the `u128` step, both wrappers,
    `sqrt_rem_42`, the Karatsuba recursion, `sqrt_rem_large` — is proved) -/
theorem sqrt_rem_driver_spec_u64 (h64 : ∀ y, 2 ^ 62 ≤ y → y < 2 ^ 64 → (normSqrtU64 y).isSome) (x : Nat) :
    IsRoot x 2 (sqrtRemReprM 64 (sqrtRemWordM 64) (sqrtRemDwordM 64) true x).1 ∧
    (sqrtRemReprM 64 (sqrtRemWordM 64) (sqrtRemDwordM 64) true x).1 * (sqrtRemReprM 64 (sqrtRemWordM 64) (sqrtRemDwordM 64) true x).1
      + (sqrtRemReprM 64 (sqrtRemWordM 64) (sqrtRemDwordM 64) true x).2 = x :=
  sqrt_rem_driver_spec (prim_sqrt_u128_total_of_u64 h64).1 (prim_sqrt_u128_total_of_u64 h64).2 x

/-- the hypothesis is met on concrete normalised operands (kernel evaluation of the mirrored `u64` Newton code) -/
example : (normSqrtU64 (2 ^ 62)).isSome ∧ (normSqrtU64 (2 ^ 64 - 1)).isSome ∧ (normSqrtU64 (2 ^ 63 + 12345)).isSome ∧
    (sqrtRemPrimBits 128 (2 ^ 128 - 1)).isSome := by decide +kernel

/-- **`cbrt_rem` of `u8`, `u16`, `u32`, `u64`, `u128` is sound** on every value of the type (Round 5: incl. `u128` — the
    B = 2^22 cube-root step over the `u64` routine: `c1, r1` of the high 62 bits (both the 127-bit branch with
    `c >>= 1` and the 128-bit branch), `q, u = div_rem(r1·B + b2, 3·c1²)`, the signed remainder
    `u·B² + b1·B + b0 − (3·c1·B + q)·q²` and the `while r < 0` descent can only produce the floor cube root and
    its remainder, or overflow) -/
theorem prim_cbrt_rem_sound {bits x : Nat} (hb : bits = 8 ∨ bits = 16 ∨ bits = 32 ∨ bits = 64 ∨ bits = 128)
    (hx : x < 2 ^ bits) {r : Nat × Nat} (h : cbrtRemPrimBits bits x = some r) :
    IsRoot x 3 r.1 ∧ r.1 ^ 3 + r.2 = x := by
  rcases hb with rfl | rfl | rfl | rfl | rfl
  · exact fixCbrtError_sound (show fixCbrtError 8 x 0 = some r from h)
  · exact cbrtRemNorm_sound normCbrtU16_sound hx h
  · exact cbrtRemNorm_sound normCbrtU32_sound hx h
  · exact cbrtRemNorm_sound normCbrtU64_sound hx h
  · exact cbrtRemU128_sound hx h

/-- **the `u128` cube-root step adds no overflow of its own** (Round 5): if `<u64>::normalized_cbrt_rem` answers on every
    normalised `u64` (`2^61 ≤ y < 2^64`), then `u64::cbrt_rem` and `u128::cbrt_rem` answer on EVERY value of their types —
    `3·c1²`, `(c1 << KBITS) + q`, `q²`, `((3·c1) << KBITS) + q`, `t2`, the `as i128` casts (`t1, t2 < 2^127`) stay in
    range, `q ≤ B + 7`, and the `while r < 0` descent ends within 8 steps (`cbrt_descent_bound`: the candidate is at most
    8 above the floor root because `B ≤ 7·c1` on normalised operands) — with `prim_cbrt_rem_sound` the answer is the
    floor cube root and its remainder -/
theorem prim_cbrt_u128_total_of_u64 (h64 : ∀ y, 2 ^ 61 ≤ y → y < 2 ^ 64 → (normCbrtU64 y).isSome) :
    (∀ y, y < 2 ^ 64 → (cbrtRemPrimBits 64 y).isSome) ∧ (∀ y, y < 2 ^ 128 → (cbrtRemPrimBits 128 y).isSome) := by
  have h64' : ∀ y, 2 ^ 61 ≤ y → y < 2 ^ 64 → ∃ r, normCbrtU64 y = some r :=
    fun y h1 h2 => Option.isSome_iff_exists.1 (h64 y h1 h2)
  exact ⟨fun y hy => Option.isSome_iff_exists.2 (cbrtRemU64_total_of_norm h64' hy),
         fun y hy => Option.isSome_iff_exists.2 (cbrtRemU128_total_of_u64 h64' hy)⟩

/-- the hypothesis is met on concrete normalised operands, and the descent is really taken (kernel evaluation) -/
example : (normCbrtU64 (2 ^ 61)).isSome ∧ (normCbrtU64 (2 ^ 64 - 1)).isSome ∧ (normCbrtU64 (2 ^ 63 + 12345)).isSome ∧
    (cbrtRemPrimBits 128 (2 ^ 128 - 1)).isSome ∧ (cbrtRemPrimBits 128 (2 ^ 125)).isSome := by decide +kernel

/-- the arithmetic core of the `u128` cube-root step, for any base `B`: with `A = c1³ + r1`, `r1·B + b2 = 3c1²·q + u`,
    `u < 3c1²`, the candidate `c = c1·B + q` has the exact signed remainder `u·B² + low − (3·c1·B + q)·q²` and is never
    below the root (`n < (c + 1)³`) — so the descent loop only ever has to go down -/
theorem cbrt_karatsuba_step {A b2 low c1 r1 q u B n : Nat} (hn : n = A * B ^ 3 + b2 * B ^ 2 + low) (hA : c1 ^ 3 + r1 = A)
    (hlow : low < B ^ 2) (hdiv : r1 * B + b2 = 3 * c1 ^ 2 * q + u) (hu : u < 3 * c1 ^ 2) :
    ((n : Int) - ((c1 * B + q : Nat) : Int) ^ 3 = ((u * B ^ 2 + low : Nat) : Int) - (((3 * c1 * B + q) * q ^ 2 : Nat) : Int)) ∧
    n < (c1 * B + q + 1) ^ 3 :=
  cbrt_step hn hA hlow hdiv hu

/-- the hypotheses of `cbrt_karatsuba_step` are satisfiable (B = 10: 11456 = 11·10³ + 4·10² + 56, 11 = 2³ + 3, 34 = 12·2 + 10):
    candidate 22 with remainder 11456 − 22³ = 808, and 11456 < 23³ -/
example : ((11456 : Int) - ((2 * 10 + 2 : Nat) : Int) ^ 3 = ((10 * 10 ^ 2 + 56 : Nat) : Int) - (((3 * 2 * 10 + 2) * 2 ^ 2 : Nat) : Int)) ∧
    11456 < (2 * 10 + 2 + 1) ^ 3 :=
  cbrt_karatsuba_step (n := 11456) (A := 11) (b2 := 4) (low := 56) (c1 := 2) (r1 := 3) (q := 2) (u := 10) (B := 10)
    (by norm_num) (by norm_num) (by norm_num) (by norm_num) (by norm_num)

/-- non-vacuity: the `u128` routine answers through both branches (127-bit and 128-bit operands, with descent steps)
    and the hypotheses of the step are met by the values it computes -/
example : cbrtRemPrimBits 128 (2 ^ 127 + 12345) = some (5541191377756, 58550521324026917344820857) ∧
    cbrtRemPrimBits 128 (2 ^ 126 - 1) = some (4398046511103, 58028439341489006246363136) ∧
    cbrtRemPrimBits 128 (10 ^ 30 + 7) = some (10 ^ 10, 7) := by decide +kernel

/-- non-vacuity: the routines do answer (kernel evaluation of the mirrored `u32` / `u64` Newton code) -/
example : sqrtRemPrimBits 64 (2 ^ 63 + 12345) = some (3037000499, 5928539152) ∧
    cbrtRemPrimBits 32 4000000000 = some (1587, 3030997) ∧ sqrtRemPrimBits 32 65533 = some (255, 508) := by
  decide +kernel

/-- `u8`: total and exact on all 256 values (kernel evaluation) -/
theorem prim_root_u8_total (x : Nat) (hx : x < 256) :
    (∃ s r, sqrtRemPrimBits 8 x = some (s, r) ∧ IsRoot x 2 s ∧ s * s + r = x) ∧
    (∃ c r, cbrtRemPrimBits 8 x = some (c, r) ∧ IsRoot x 3 c ∧ c * c * c + r = x) := by
  have h1 := allFrom_spec (sqrtOkAt 8) 256 0 sqrt_u8_all x (by omega) (by omega)
  have h2 := allFrom_spec (cbrtOkAt 8) 256 0 cbrt_u8_all x (by omega) (by omega)
  unfold sqrtOkAt at h1
  unfold cbrtOkAt at h2
  constructor
  · split at h1
    · rename_i s r heq
      simp only [Bool.and_eq_true, decide_eq_true_eq] at h1
      exact ⟨s, r, heq, ⟨by rw [Nat.pow_two]; exact h1.1.1, by rw [Nat.pow_two]; exact h1.1.2⟩, h1.2⟩
    · exact absurd h1 (by simp)
  · split at h2
    · rename_i c r heq
      simp only [Bool.and_eq_true, decide_eq_true_eq] at h2
      have e3 : ∀ t : Nat, t ^ 3 = t * t * t := fun t => by ring
      exact ⟨c, r, heq, ⟨by rw [e3]; exact h2.1.1, by rw [e3]; exact h2.1.2⟩, h2.2⟩
    · exact absurd h2 (by simp)

/-- `u16`: `sqrt_rem` and `cbrt_rem` (RSQRT_TAB / RCBRT_TAB estimate, `fix_*_error!`, normalising wrapper) are
    total and exact on all 65 536 values (kernel evaluation, 128 chunk theorems; no overflow anywhere) -/
theorem prim_root_u16_total (x : Nat) (hx : x < 65536) :
    (∃ s r, sqrtRemPrimBits 16 x = some (s, r) ∧ IsRoot x 2 s ∧ s * s + r = x) ∧
    (∃ c r, cbrtRemPrimBits 16 x = some (c, r) ∧ IsRoot x 3 c ∧ c * c * c + r = x) := by
  have h1 := sqrt_u16_ok x hx
  have h2 := cbrt_u16_ok x hx
  unfold sqrtOkAt at h1
  unfold cbrtOkAt at h2
  constructor
  · split at h1
    · rename_i s r heq
      simp only [Bool.and_eq_true, decide_eq_true_eq] at h1
      exact ⟨s, r, heq, ⟨by rw [Nat.pow_two]; exact h1.1.1, by rw [Nat.pow_two]; exact h1.1.2⟩, h1.2⟩
    · exact absurd h1 (by simp)
  · split at h2
    · rename_i c r heq
      simp only [Bool.and_eq_true, decide_eq_true_eq] at h2
      have e3 : ∀ t : Nat, t ^ 3 = t * t * t := fun t => by ring
      exact ⟨c, r, heq, ⟨by rw [e3]; exact h2.1.1, by rw [e3]; exact h2.1.2⟩, h2.2⟩
    · exact absurd h2 (by simp)

/-- **`u32`: `sqrt_rem` and `cbrt_rem` are TOTAL and exact on all 2^32 values** (Round 5) — no `+ - *` of the table /
    Newton stages overflows, every estimate handed to `fix_*_error!` is an under-estimate, the `saturating_mul`, the
    `s -= 4` / `r - 10` safety margins and the second Newton step `s += wmul16_hi((e >> 16) as u16, r)` stay in range.
    Not by enumeration of the operands: the cube-root estimate reads only the top 16 bits (`estCbrtU32_top`); in the
    square root the low 16 bits enter only through `b = wmul32_hi(self, r³) >> 11` (≤ 2 values per top half) and
    `e = self − s²`, and `sqrtU32OkB` decides a whole operand interval at once (`estSqrtU32_total_of_okB`);
    the kernel evaluates these checks for the 49 152 + 57 344 normalised top halves. -/
theorem prim_root_u32_total (x : Nat) (hx : x < 2 ^ 32) :
    (∃ s r, sqrtRemPrimBits 32 x = some (s, r) ∧ IsRoot x 2 s ∧ s ^ 2 + r = x) ∧
    (∃ c r, cbrtRemPrimBits 32 x = some (c, r) ∧ IsRoot x 3 c ∧ c ^ 3 + r = x) := by
  obtain ⟨⟨s, r⟩, h1⟩ := sqrtRemU32_total hx
  obtain ⟨⟨c, r'⟩, h2⟩ := cbrtRemU32_total hx
  have s1 := prim_sqrt_rem_sound (bits := 32) (by decide) hx h1
  have s2 := prim_cbrt_rem_sound (bits := 32) (by decide) hx h2
  exact ⟨⟨s, r, h1, s1.1, s1.2⟩, ⟨c, r', h2, s2.1, s2.2⟩⟩

/-- … hence the mirrored `u32` routine IS the floor square root with remainder (the contract `sqrt_rem_mirrored_spec`
    asks of the one-word primitive at word size 32, of the double-word primitive at word size 16) -/
theorem prim_sqrt_u32_exact : PrimSqrtExact (2 ^ 32) (sqrtRemWordM 32) :=
  prim_exact_of_total (bits := 32) (by decide) (fun y hy => by
    obtain ⟨r, hr⟩ := sqrtRemU32_total hy
    rw [hr]; rfl)

/-- the per-top-half checks are not vacuous: they fail on a top half where the routine would overflow
    (a non-normalised operand: the table index is out of range) and hold with the answer shown on a normalised one -/
example : sqrtU32OkH 100 = false ∧ sqrtU32OkH 45513 = true ∧ cbrtU32OkH 100 = false ∧
    sqrtRemPrimBits 32 (45513 * 65536 + 58256) = some (54614, 109228) := by decide +kernel

/-- **Tie A (Round 5): the tables, index offsets and under-estimate margins are the source's.**  `Gen.RSQRT_TAB`,
    `Gen.RCBRT_TAB`, `Gen.LOG2_TAB`, the offsets `− 32` / `− 8`, the margins `(s − 1)`, `s −= 4`, `r − 10`, `s −= 10`, `r − 1` and
    `KBITS` are regenerated from base/src/ring/root.rs / base/src/math/log.rs on every run (vlib/extract_roottabs.py);
    the model's tables equal them, and every estimate stage of the model equals the same stage with the regenerated
    table / offset / margin in place of its literal (`est…G`).  The totality theorems above (`prim_root_u16_total`,
    `prim_root_u32_total`) are therefore statements about the source's tables and margins: changing one of them in
    the source breaks this theorem (and the build of this module), not only the sampled correspondence. -/
theorem root_tables_regenerated :
    RSQRT_TAB = Gen.RSQRT_TAB ∧ RCBRT_TAB = Gen.RCBRT_TAB ∧ packBytes Gen.LOG2_TAB = LOG2_TAB_PACKED ∧
    estSqrtU16 = estSqrtU16G ∧ estCbrtU16 = estCbrtU16G ∧ estSqrtU32 = estSqrtU32G ∧ estCbrtU32 = estCbrtU32G ∧
    estSqrtU64 = estSqrtU64G ∧ estCbrtU64 = estCbrtU64G ∧ Gen.sqrt_u128_KBITS = 32 ∧ Gen.cbrt_u128_KBITS = 22 :=
  ⟨rsqrt_tab_regenerated, rcbrt_tab_regenerated, log2_tab_regenerated.1, estSqrtU16_regenerated, estCbrtU16_regenerated,
   estSqrtU32_regenerated, estCbrtU32_regenerated, estSqrtU64_regenerated, estCbrtU64_regenerated,
   u128_kbits_regenerated.1, u128_kbits_regenerated.2⟩

/-- **Tie A (Round 6): the two `u128` steps run with the source's shift amounts.**  Every shift amount, mask width
    and small multiplier of `u128::normalized_sqrt_rem` / `u128::normalized_cbrt_rem` (written in the source as expressions
    in `KBITS` / `u64::BITS` or as literals: `r1 << (KBITS − 1) | b >> (KBITS + 1)`, `q >> KBITS`, `(s1 as u64) << KBITS`,
    `u << (KBITS + 1)`, `(1 << (KBITS + 1)) − 1`, `u >> (KBITS − 1)`, `<< u64::BITS`; `self >> 63`, `c >>= 1`, `a >> 3`,
    `self >> 66`, `<< KBITS`, `>> (2 * KBITS)`, `(1 << KBITS) − 1`, `3 * c1²`, `u << (2 * KBITS)`, `(3 * c1) << KBITS`, and
    the `r += 3 * (c − 1) * c + 1; c −= 1` descent) is regenerated from its own statement on every run
    (vlib/extract_roottabs.py: one statement shape per definition, evaluated with that function's `KBITS`; fails
    closed).  The model's routines — the ones `prim_sqrt_rem_sound`, `prim_cbrt_rem_sound`,
    `prim_sqrt_u128_total_of_u64`, `prim_cbrt_u128_total_of_u64` are about and the driver executes — equal the same
    routines over the regenerated amounts, so an edit of one of these amounts in the source breaks this theorem (and
    the build of this module), not only the sampled correspondence. -/
theorem root_u128_steps_regenerated :
    normSqrtU128 = normSqrtU128G ∧ normCbrtU128 = normCbrtU128G ∧ (∀ fuel c r, cbrtDownLoop fuel c r = cbrtDownLoopG fuel c r) ∧
    Gen.sqrt_u128_r0_shl = Gen.sqrt_u128_KBITS - 1 ∧ Gen.sqrt_u128_r0_shr = Gen.sqrt_u128_KBITS + 1 ∧
    Gen.cbrt_u128_r0_shr = 2 * Gen.cbrt_u128_KBITS ∧ Gen.cbrt_u128_t1_shl = 2 * Gen.cbrt_u128_KBITS ∧
    Gen.cbrt_u128_c1_pow = 3 ∧ Gen.cbrt_u128_d_pow = 2 ∧ Gen.cbrt_u128_t2_pow = 2 :=
  ⟨normSqrtU128_regenerated, normCbrtU128_regenerated, cbrtDownLoop_regenerated,
   u128_step_amounts_regenerated.2.2.2.1, u128_step_amounts_regenerated.2.2.2.2.1, u128_step_amounts_regenerated.2.2.2.2.2.1,
   u128_step_amounts_regenerated.2.2.2.2.2.2, u128_step_amounts_regenerated.1, u128_step_amounts_regenerated.2.1,
   u128_step_amounts_regenerated.2.2.1⟩

/-- the regenerated routines are the executed ones: a normalised `u128` through the regenerated steps -/
example : normSqrtU128G (2 ^ 127 + 12345) = normSqrtU128 (2 ^ 127 + 12345) ∧ (normSqrtU128G (2 ^ 127 + 12345)).isSome = true ∧
    (normCbrtU128G (2 ^ 126 + 999)).isSome = true ∧ (normCbrtU128G (2 ^ 127 + 999)).isSome = true := by decide +kernel

-- ==================================================================== gcd_ext_in_place: coefficient sizes (Round 4)

/-- **buffer-length claim of `lehmer::gcd_ext_in_place`, coefficients `t0`, `t1`** (partial: the final
    `|b| = |cx|·t0 + |cy|·t1 ≤ lhs/g` after the single-word `gcd_ext` is not covered — it needs the classical
    cofactor bounds `|cx|·g ≤ y`, `|cy|·g ≤ x mod y` of the primitive Euclid loop).
    At the exit of the main loop `t1·x + t0·y = lhs` — for WHATEVER quotients the leading-word guess
    committed (only the determinant 1 of the cofactor matrix is used) — so `t1` and, while a last word
    `y > 0` is left, `t0` are at most `lhs`: they fit the `lhs_len` words of the buffers (`lhs_len + 1` are
    reserved), and the carries the code `debug_assert_zero!`s are zero. -/
theorem gcd_ext_cofactors_fit_partial (W : Nat) (hW : 0 < W) (lhs rhs : Nat) (x y t0 t1 : Nat) (sw : Bool)
    (h : lehmerExtLoop W (lhs + rhs + 1) lhs rhs 0 1 false = .ok (x, y, t0, t1, sw)) :
    t1 * x + t0 * y = lhs ∧ (0 < x → t1 < 2 ^ (W * wordLen W lhs)) ∧ (0 < y → t0 < 2 ^ (W * wordLen W lhs)) :=
  lehmerExt_cofactors_fit W hW lhs rhs x y t0 t1 sw h

/-- the hypothesis is satisfiable: the loop does return on multi-word operands (`lehmer_gcd_ext_correct`);
    a concrete run, with the invariant evaluated -/
example : (match lehmerExtLoop 64 ((2 ^ 200 + 12345) + (3 ^ 120 + 7) + 1) (2 ^ 200 + 12345) (3 ^ 120 + 7) 0 1 false with
    | .ok (x, y, t0, t1, _) => decide (t1 * x + t0 * y = 2 ^ 200 + 12345 ∧ 0 < y ∧ 1 < t0)
    | .error _ => false) = true := by
  decide +kernel

/-- cofactor bounds of the primitive `gcd_ext` of dashu-base (`unchecked_gcd_ext` through the common power of
    two and the `== 1` shortcuts) on non-zero operands: `|s|·g ≤ b`, `|t|·g ≤ a` -/
theorem gcd_ext_prim_cofactor_bounds {a b : Nat} (ha : 0 < a) (hb : 0 < b) {g : Nat} {s t : Int}
    (h : xgcdPrim a b = .ok (g, s, t)) :
    (-(b : Int) ≤ s * g ∧ s * g ≤ b) ∧ (-(a : Int) ≤ t * g ∧ t * g ≤ a) :=
  xgcdPrim_bound ha hb h

/-- **buffer-length claim of `lehmer::gcd_ext_in_place`, the returned coefficient `|b|`** (the exit
    of the main loop with a last word `y > 0`; the exit with `y = 0` is covered by `gcd_ext_b_fits` below).
    `|b| = |cx|·(t0 + q·t1) + |cy|·t1` with `(g, cx, cy)` the single-word `gcd_ext` of `(x mod y, y)` satisfies
    `|b|·g ≤ lhs`: it fits `lhs_len` words and the final `debug_assert_zero!`s hold. -/
theorem gcd_ext_b_fits_partial (W : Nat) (hW : 0 < W) (lhs rhs : Nat) (hle : rhs ≤ lhs)
    {x y t0 t1 : Nat} {sw : Bool}
    (hloop : lehmerExtLoop W (lhs + rhs + 1) lhs rhs 0 1 false = .ok (x, y, t0, t1, sw)) (hy : 0 < y)
    {g bb : Nat} {neg : Bool} (h : lehmerExt W lhs rhs = .ok (g, bb, neg)) :
    bb * g ≤ lhs ∧ bb ≤ lhs ∧ bb < 2 ^ (W * wordLen W lhs) :=
  lehmerExt_b_fits W hW lhs rhs hle hloop hy h

/-- **buffer-length claim of `lehmer::gcd_ext_in_place`, the returned coefficient `|b|`, every exit**: a committed
    Lehmer step leaves both combined values strictly positive (`b ≠ 0` ⇒ `a·x − b·y > 0`, `d·y − c·x > 0`), so the
    main loop can end with `y = 0` only after a Euclidean step, where `t0` is the previous `t1 ≤ lhs/x`; with
    `gcd_ext_b_fits_partial` for the exit with a last word: `|b| ≤ lhs`, it fits the `lhs_len` words of `lhs`. -/
theorem gcd_ext_b_fits (W : Nat) (hW : 0 < W) (lhs rhs : Nat) (hle : rhs ≤ lhs)
    {g bb : Nat} {neg : Bool} (h : lehmerExt W lhs rhs = .ok (g, bb, neg)) :
    bb ≤ lhs ∧ bb < 2 ^ (W * wordLen W lhs) :=
  lehmerExt_b_le W hW lhs rhs hle h

/-- the hypotheses are satisfiable: the kernel returns on multi-word operands (`lehmer_gcd_ext_correct`) -/
example : ∃ g bb neg, lehmerExt 64 (2 ^ 200 + 12345) (3 ^ 120 + 7) = .ok (g, bb, neg) ∧ bb ≤ 2 ^ 200 + 12345 := by
  obtain ⟨⟨g, bb, neg⟩, h, _⟩ := lehmer_gcd_ext_correct 64 (by decide) (2 ^ 200 + 12345) (3 ^ 120 + 7) (by decide +kernel) (by decide +kernel)
  exact ⟨g, bb, neg, h, (gcd_ext_b_fits 64 (by decide) _ _ (by decide +kernel) h).1⟩

-- ==================================================================== gcd_ext_in_place: every iteration (Round 6)

/-- **the main loop of `lehmer::gcd_ext_in_place` is the iteration of its body**: `lehmerExtStep` is one pass through
    the `while` body (Euclidean fallback, or `lehmer_step` + `lehmer_ext_step`, then the swap); what the executed
    loop `lehmerExtLoop` returns is the state at the head of some iteration `k` — the first at which `y` has at most
    one word. -/
theorem gcd_ext_loop_is_iteration (W fuel : Nat) (s res : ExtState)
    (h : lehmerExtLoop W fuel s.1 s.2.1 s.2.2.1 s.2.2.2.1 s.2.2.2.2 = .ok res) :
    ∃ k, k < fuel ∧ lehmerExtIter W k s = some res ∧ wordLen W res.2.1 ≤ 1 :=
  lehmerExtLoop_iter W fuel s res h

/-- **buffer-length claim of `lehmer::gcd_ext_in_place` at EVERY iteration** (round 4 proved it at the exit of the
    loop and for the returned `|b|`).  At the head of the `k`-th iteration reached from `(lhs, rhs, t0 = 0, t1 = 1)`,
    `rhs ≤ lhs`, for every `k`: `t1·x + t0·y = lhs` and `y ≤ x`; as long as `y > 0` (in particular whenever the loop
    goes on: `y` has more than one word) both coefficients are below `2^(W·lhs_len)`.  So the operands of every
    `lehmer_ext_step` / `add_signed_mul(t0, +, q, t1)` call, and their results (the coefficients at the head of the
    next iteration), fit the `lhs_len` words of `t0`, `t1` (`lhs_len + 1` are reserved) and every carry the code
    `debug_assert_zero!`s inside the loop is zero.  Still at value level: the partial sums inside one in-place
    word loop are not separately bounded (they are bounded by the loop's result, all summands being non-negative). -/
theorem gcd_ext_every_iteration_fits (W : Nat) (hW : 0 < W) (lhs rhs : Nat) (hlr : rhs ≤ lhs) (k : Nat)
    (x y t0 t1 : Nat) (sw : Bool) (h : lehmerExtIter W k (lhs, rhs, 0, 1, false) = some (x, y, t0, t1, sw)) :
    t1 * x + t0 * y = lhs ∧ y ≤ x ∧
    (0 < y → t0 < 2 ^ (W * wordLen W lhs) ∧ t1 < 2 ^ (W * wordLen W lhs)) :=
  lehmerExt_every_iteration_fits W hW lhs rhs hlr k x y t0 t1 sw h

/-- the hypothesis is satisfiable: the third iteration of a concrete multi-word run exists, with non-trivial
    coefficients and the invariant evaluated -/
example : (match lehmerExtIter 64 3 (2 ^ 200 + 12345, 3 ^ 120 + 7, 0, 1, false) with
    | some (x, y, t0, t1, _) => decide (t1 * x + t0 * y = 2 ^ 200 + 12345 ∧ 0 < y ∧ 1 < t0 ∧ 1 < t1)
    | none => false) = true := by decide +kernel

-- ==================================================================== lehmer_ext_step: the word loop (Round 6)

/-- **`lehmer::lehmer_ext_step` mirrored at the word level** (`lehmerExtStepWords`, Model/NT/LehmerWords.lean: the
    `for (x_i, y_i) in x.iter_mut().zip(y.iter_mut()).take(len)` loop with its two double-word accumulations and
    running carry words).  On word operands, with `a + b < 2^W`, `c + d < 2^W` (the code asserts every cofactor
    `≤ SignedWord::MAX`) and incoming carries that are words: NO double-word accumulation `a·x_i + b·y_i + carry`
    overflows (the loop returns — every partial sum of the in-place loop is bounded), the buffers keep their lengths
    and stay words, words beyond `len` are untouched, both carries are words, and
    `x'[..len] + 2^(W·len)·x_carry = a·x[..len] + b·y[..len] + cx`, `y'[..len] + 2^(W·len)·y_carry = c·x[..len] + d·y[..len] + cy`. -/
theorem lehmer_ext_step_words_spec (W a b c d : Nat) (hab : a + b < 2 ^ W) (hcd : c + d < 2 ^ W)
    (len : Nat) (x y : List Nat) (cx cy : Nat) (hx : IsWords W x) (hy : IsWords W y) (hcx : cx < 2 ^ W) (hcy : cy < 2 ^ W)
    (hlx : len ≤ x.length) (hly : len ≤ y.length) :
    ∃ x' y' cx' cy', lehmerExtStepWords W a b c d len x y cx cy = some (x', y', cx', cy') ∧
      x'.length = x.length ∧ y'.length = y.length ∧ IsWords W x' ∧ IsWords W y' ∧ cx' < 2 ^ W ∧ cy' < 2 ^ W ∧
      x'.drop len = x.drop len ∧ y'.drop len = y.drop len ∧
      val W (x'.take len) + 2 ^ (W * len) * cx' = a * val W (x.take len) + b * val W (y.take len) + cx ∧
      val W (y'.take len) + 2 ^ (W * len) * cy' = c * val W (x.take len) + d * val W (y.take len) + cy :=
  lehmerExtStepWords_spec W a b c d hab hcd len x y cx cy hx hy hcx hcy hlx hly

/-- a concrete run, with a carry out of both accumulations; and an overflow is reported, not wrapped, when the
    cofactors violate the assertion -/
example : lehmerExtStepWords 64 5 3 2 7 2 [2 ^ 64 - 1, 2 ^ 64 - 1, 9] [2 ^ 64 - 1, 1, 9] 0 0
      = some ([18446744073709551608, 5, 9], [18446744073709551607, 13, 9], 5, 2) ∧
    lehmerExtStepWords 64 (2 ^ 64 - 1) (2 ^ 64 - 1) 0 1 1 [2 ^ 64 - 1] [2 ^ 64 - 1] 0 0 = none := by decide +kernel

/-- **Tie A: the accumulations of the mirrored word loop are the source's.**  `Gen.lehmer_ext_step_acc_x / _acc_y` are
    regenerated on every run from the two `split_dword(…)` arguments of `lehmer_ext_step` (integer/src/gcd/lehmer.rs;
    vlib/extract_roottabs.py pins every other token of the function — asserts, `extend_word`s, the zip/take(len)
    loop, carry hand-over, stores, returned pair — and fails closed); the mirror equals the same loop over the
    regenerated expressions, so an edit of an accumulation breaks this theorem, any other edit the extraction. -/
theorem lehmer_ext_step_words_regenerated (W a b c d len : Nat) (x y : List Nat) (cx cy : Nat) :
    lehmerExtStepWords W a b c d len x y cx cy = lehmerExtStepWordsG W a b c d len x y cx cy :=
  lehmerExtStepWords_regenerated W a b c d len x y cx cy

/-- **the committed cofactors meet the assertion of `lehmer_ext_step`**: every entry of the matrix that
    `lehmer_guess` / `lehmer_guess_dword` commits is at most `SignedWord::MAX = 2^(W−1) − 1`. -/
theorem lehmer_cofactors_le_signed_max (W x y : Nat) (hW : 2 ≤ W) :
    (lehmerCofactors W x y).1 < 2 ^ (W - 1) ∧ (lehmerCofactors W x y).2.1 < 2 ^ (W - 1) ∧
    (lehmerCofactors W x y).2.2.1 < 2 ^ (W - 1) ∧ (lehmerCofactors W x y).2.2.2 < 2 ^ (W - 1) :=
  lehmerCofactors_le_signed_max W x y hW

/-- **`lehmer_ext_step` inside `gcd_ext_in_place`, every iteration, word level.**  At the head of any iteration
    reached from `(lhs, rhs, 0, 1)`, `rhs ≤ lhs`, at which the Lehmer guess commits (`b ≠ 0`): for ANY word buffers
    `t0w`, `t1w` whose first `len` words hold `t0`, `t1` (the code passes `len = max(t0_len, t1_len)`), the word loop
    returns (no double-word overflow), keeps the buffer lengths, leaves `a·t0 + b·t1` and `c·t0 + d·t1` in `len` words
    plus one carry word each, and a NON-ZERO carry word implies `len < lhs_len` — the stores `t0[tmax_len] = t0_carry`,
    `t1[tmax_len] = t1_carry` and the new lengths `tmax_len + 1` stay within `lhs_len` words (the buffers have
    `lhs_len + 1`).  No hypothesis on the quotients the guess commits, none on the run other than that this
    iteration is reached. -/
theorem gcd_ext_lehmer_ext_step_words_fit (W : Nat) (hW : 2 ≤ W) (lhs rhs : Nat) (hlr : rhs ≤ lhs) (k : Nat)
    (x y t0 t1 : Nat) (sw : Bool) (h : lehmerExtIter W k (lhs, rhs, 0, 1, false) = some (x, y, t0, t1, sw))
    (hlen : 1 < wordLen W y) (hb : (lehmerCofactors W x y).2.1 ≠ 0)
    (t0w t1w : List Nat) (len : Nat) (hw0 : IsWords W t0w) (hw1 : IsWords W t1w)
    (hl0 : len ≤ t0w.length) (hl1 : len ≤ t1w.length)
    (hv0 : val W (t0w.take len) = t0) (hv1 : val W (t1w.take len) = t1) :
    ∃ x' y' cx cy,
      lehmerExtStepWords W (lehmerCofactors W x y).1 (lehmerCofactors W x y).2.1 (lehmerCofactors W x y).2.2.1
        (lehmerCofactors W x y).2.2.2 len t0w t1w 0 0 = some (x', y', cx, cy) ∧
      x'.length = t0w.length ∧ y'.length = t1w.length ∧ IsWords W x' ∧ IsWords W y' ∧
      x'.drop len = t0w.drop len ∧ y'.drop len = t1w.drop len ∧
      val W (x'.take len) + 2 ^ (W * len) * cx = (lehmerCofactors W x y).1 * t0 + (lehmerCofactors W x y).2.1 * t1 ∧
      val W (y'.take len) + 2 ^ (W * len) * cy = (lehmerCofactors W x y).2.2.1 * t0 + (lehmerCofactors W x y).2.2.2 * t1 ∧
      (0 < cx → len < wordLen W lhs) ∧ (0 < cy → len < wordLen W lhs) :=
  lehmerExt_step_words_fit W hW lhs rhs hlr k x y t0 t1 sw h hlen hb t0w t1w len hw0 hw1 hl0 hl1 hv0 hv1

/-- the hypotheses are satisfiable: the iteration with `k = 3` of a concrete 200-bit run is reached with a
    two-word `y`, a committed guess and multi-word coefficients -/
example : (match lehmerExtIter 64 3 (2 ^ 200 + 12345, 3 ^ 120 + 7, 0, 1, false) with
    | some (x, y, t0, _, _) => decide (1 < wordLen 64 y ∧ (lehmerCofactors 64 x y).2.1 ≠ 0 ∧ 2 ^ 64 < t0)
    | none => false) = true := by decide +kernel

-- ==================================================================== gcd_ext_in_place: Euclidean fallback (Round 6)

/-- **Euclidean fallback of `gcd_ext_in_place`, every iteration: the slice handed to `add_signed_mul` is inside the
    buffer.**  The code updates `t0 += q·t1` through `mul::add_signed_mul(&mut t0[..qt1_len], Positive, q_lo,
    &t1[..t1_len])` with `qt1_len = q_lo.len() + t1_len`, then stores a carry at `t0[qt1_len]`.  At the head of any
    iteration reached from `(lhs, rhs, 0, 1)`, `rhs ≤ lhs`, at which the loop goes on, with `q = x / y`: `q ≥ 1`,
    `t1 ≥ 1` (the coefficient never vanishes), `t0 + q·t1 ≤ lhs < 2^(W·lhs_len)` and
    `q.len() + t1_len ≤ lhs_len + 1` — the slice `t0[..qt1_len]` lies inside the `lhs_len + 1` words reserved, and a
    non-zero carry word out of `qt1_len` words would need `qt1_len < lhs_len`, so `t0[qt1_len]` is in range too.
    (The word loops of `add_signed_mul` themselves are C01's kernels and stay at value level.) -/
theorem gcd_ext_euclid_slice_fits (W : Nat) (hW : 0 < W) (lhs rhs : Nat) (hlr : rhs ≤ lhs) (k : Nat)
    (x y t0 t1 : Nat) (sw : Bool) (h : lehmerExtIter W k (lhs, rhs, 0, 1, false) = some (x, y, t0, t1, sw))
    (hlen : 1 < wordLen W y) :
    0 < x / y ∧ 0 < t1 ∧ t0 + x / y * t1 ≤ lhs ∧ t0 + x / y * t1 < 2 ^ (W * wordLen W lhs) ∧
    wordLen W (x / y) + wordLen W t1 ≤ wordLen W lhs + 1 :=
  lehmerExt_euclid_slice_fits W hW lhs rhs hlr k x y t0 t1 sw h hlen

/-- the hypotheses are satisfiable, on a run whose first guess fails (a first quotient above `2^63`: `b = 0`, the
    Euclidean fallback is taken at `k = 0` with a two-word quotient) -/
example : (match lehmerExtIter 64 0 (2 ^ 200 + 12345, 2 ^ 130 + 7, 0, 1, false) with
    | some (x, y, _, t1, _) => decide (1 < wordLen 64 y ∧ (lehmerCofactors 64 x y).2.1 = 0 ∧
        wordLen 64 (x / y) = 2 ∧ wordLen 64 t1 = 1 ∧ wordLen 64 (2 ^ 200 + 12345) = 4)
    | none => false) = true := by decide +kernel

/-- the `q_top > 0` arm of the same update: the quotient then has `q_lo.len() + 1` words (`q_lo` is not trimmed), and
    `add_mul_word_in_place(&mut t0[q_lo.len()..qt1_len.min(lhs_len)], q_top, &t1[..t1_len])` gets a destination of
    `min(q_lo.len() + t1_len, lhs_len) − q_lo.len() = t1_len` words: `q_lo.len() + t1_len ≤ lhs_len`, the `min` never cuts -/
theorem gcd_ext_euclid_qtop_slice_fits (W : Nat) (hW : 0 < W) (lhs rhs : Nat) (hlr : rhs ≤ lhs) (k : Nat)
    (x y t0 t1 : Nat) (sw : Bool) (h : lehmerExtIter W k (lhs, rhs, 0, 1, false) = some (x, y, t0, t1, sw))
    (hlen : 1 < wordLen W y) (qlo_len : Nat) (hq : wordLen W (x / y) = qlo_len + 1) :
    qlo_len + wordLen W t1 ≤ wordLen W lhs ∧
    min (qlo_len + wordLen W t1) (wordLen W lhs) - qlo_len = wordLen W t1 := by
  have := (gcd_ext_euclid_slice_fits W hW lhs rhs hlr k x y t0 t1 sw h hlen).2.2.2.2
  omega

-- ==================================================================== lehmer_step: the signed word loop (Round 6)

/-- **the `zip` loop of `lehmer::lehmer_step` mirrored at the word level** (`lehmerStepWords`,
    Model/NT/LehmerStepWords.lean: two SIGNED double-word accumulations `a·x_i − b·y_i + x_carry`,
    `d·y_i − c·x_i + y_carry`, `split_signed_dword`, signed carry words), for the cofactors `lehmer_guess` commits
    (`lehmer_cofactors_le_signed_max`: every entry `≤ SignedWord::MAX`, the function's `debug_assert!`s), any word
    operands with `y` not longer than `x`, and incoming carries that are signed words (`0, 0` in the code): NO signed
    double-word accumulation overflows (the loop returns), lengths are kept, results are words, the word of `x` beyond
    `y.len()` is untouched (it is left to the fix-up after the loop), outgoing carries are signed words, and with
    `n = y.len()`: `x'[..n] + 2^(W·n)·x_carry = a·x[..n] − b·y`, `y' + 2^(W·n)·y_carry = d·y − c·x[..n]` (+ incoming
    carries).  The `if x_carry != 0` fix-up on the top word of `x` is not part of this mirror; the value-level model
    (`lehmerStep`, proved non-negative and gcd-preserving) stays the executed one. -/
theorem lehmer_step_words_spec (W : Nat) (hW : 2 ≤ W) (X Y : Nat) (x y : List Nat) (cx cy : Int)
    (hx : IsWords W x) (hy : IsWords W y)
    (h1 : -(2 ^ (W - 1) : Int) ≤ cx) (h2 : cx < 2 ^ (W - 1)) (h3 : -(2 ^ (W - 1) : Int) ≤ cy) (h4 : cy < 2 ^ (W - 1))
    (hl : y.length ≤ x.length) :
    ∃ x' y' cx' cy',
      lehmerStepWords W (lehmerCofactors W X Y).1 (lehmerCofactors W X Y).2.1 (lehmerCofactors W X Y).2.2.1
        (lehmerCofactors W X Y).2.2.2 x y cx cy = some (x', y', cx', cy') ∧
      x'.length = x.length ∧ y'.length = y.length ∧ IsWords W x' ∧ IsWords W y' ∧
      -(2 ^ (W - 1) : Int) ≤ cx' ∧ cx' < 2 ^ (W - 1) ∧ -(2 ^ (W - 1) : Int) ≤ cy' ∧ cy' < 2 ^ (W - 1) ∧
      x'.drop y.length = x.drop y.length ∧
      (val W (x'.take y.length) : Int) + 2 ^ (W * y.length) * cx' =
        ((lehmerCofactors W X Y).1 : Int) * val W (x.take y.length) - ((lehmerCofactors W X Y).2.1 : Int) * val W y + cx ∧
      (val W y' : Int) + 2 ^ (W * y.length) * cy' =
        ((lehmerCofactors W X Y).2.2.2 : Int) * val W y - ((lehmerCofactors W X Y).2.2.1 : Int) * val W (x.take y.length) + cy := by
  obtain ⟨ha, hb, hc, hd⟩ := lehmerCofactors_le_signed_max W X Y hW
  exact lehmerStepWords_spec W _ _ _ _ (by omega) ha hb hc hd y x cx cy hx hy h1 h2 h3 h4 hl

/-- a concrete run with a negative carry on the way and a top word of `x` left to the fix-up; an out-of-range
    accumulation is reported, not wrapped -/
example : lehmerStepWords 64 3 5 2 7 [10, 2 ^ 64 - 1, 4] [2 ^ 64 - 1, 1] 0 0
      = some ([35, 18446744073709551603, 4], [18446744073709551589, 15], 2, -2) ∧
    lehmerStepWords 64 (2 ^ 64 - 1) 0 0 1 [2 ^ 64 - 1] [0] 0 0 = none := by decide +kernel

/-- **Tie A: the signed accumulations of the mirrored `lehmer_step` loop are the source's.**  `Gen.lehmer_step_acc_x /
    _acc_y` are regenerated on every run from the two `split_signed_dword(…)` arguments of `lehmer_step`
    (vlib/extract_roottabs.py pins every other token of the function, incl. the `x_top` fix-up, and fails closed). -/
theorem lehmer_step_words_regenerated (W a b c d : Nat) (x y : List Nat) (cx cy : Int) :
    lehmerStepWords W a b c d x y cx cy = lehmerStepWordsG W a b c d x y cx cy :=
  lehmerStepWords_regenerated W a b c d y x cx cy

-- ==================================================================== lehmer_step in full (Round 6)

/-- **what a committed guess guarantees** (`b ≠ 0`, `y ≤ x`, `y` of more than one word): both combined values are
    strictly positive, `(a·x − b·y) + (d·y − c·x) ≤ x` — so the step does not increase `x` — and `a ≥ 1`: the value-level
    hypotheses of the two word-level theorems below (all but `d·y − c·x < 2^(W·y.len())`, which is the function's own
    `debug_assert_eq!(y_carry, c * x_top)`). -/
theorem lehmer_step_committed_values (W : Nat) (hW : 0 < W) (x y : Nat) (hxy : y ≤ x) (hlen : 1 < wordLen W y)
    (hb : (lehmerCofactors W x y).2.1 ≠ 0) :
    0 < ((lehmerCofactors W x y).1 : Int) * x - ((lehmerCofactors W x y).2.1 : Int) * y ∧
    0 < ((lehmerCofactors W x y).2.2.2 : Int) * y - ((lehmerCofactors W x y).2.2.1 : Int) * x ∧
    (((lehmerCofactors W x y).1 : Int) * x - ((lehmerCofactors W x y).2.1 : Int) * y) +
      (((lehmerCofactors W x y).2.2.2 : Int) * y - ((lehmerCofactors W x y).2.2.1 : Int) * x) ≤ x ∧
    1 ≤ (lehmerCofactors W x y).1 :=
  lehmer_committed_values W hW x y hxy hlen hb

/-- **`lehmer_step` in full, word level, operands of equal length** (`lehmerStepFull`, Model/NT/LehmerStepFull.lean: the
    zip loop, then the `if x_carry != 0` fix-up with both `debug_assert_eq!`s as failures): cofactors at most
    `SignedWord::MAX`; if `a·X − b·Y` and `d·Y − c·X` are non-negative and fit `y.len()` words, the function returns
    exactly them — both loop carries are zero, so the fix-up (which would touch the wrong word here) is not entered. -/
theorem lehmer_step_full_eqlen (W a b c d : Nat) (hW : 1 ≤ W) (ha : a < 2 ^ (W - 1)) (hb : b < 2 ^ (W - 1))
    (hc : c < 2 ^ (W - 1)) (hd : d < 2 ^ (W - 1)) (x y : List Nat) (hx : IsWords W x) (hy : IsWords W y)
    (hl : x.length = y.length)
    (h1 : 0 ≤ (a : Int) * val W x - (b : Int) * val W y) (h2 : (a : Int) * val W x - (b : Int) * val W y < 2 ^ (W * y.length))
    (h3 : 0 ≤ (d : Int) * val W y - (c : Int) * val W x) (h4 : (d : Int) * val W y - (c : Int) * val W x < 2 ^ (W * y.length)) :
    ∃ x' y', lehmerStepFull W a b c d x y = some (x', y') ∧ x'.length = x.length ∧ y'.length = y.length ∧
      IsWords W x' ∧ IsWords W y' ∧
      (val W x' : Int) = (a : Int) * val W x - (b : Int) * val W y ∧
      (val W y' : Int) = (d : Int) * val W y - (c : Int) * val W x :=
  lehmerStepFull_eqlen W a b c d hW ha hb hc hd x y hx hy hl h1 h2 h3 h4

/-- **`lehmer_step` in full, `x` one word longer than `y`** (`x = xl ++ [x_top]`, the other shape its first
    `debug_assert!` admits): if `0 ≤ a·X − b·Y ≤ X`, `0 ≤ d·Y − c·X < 2^(W·y.len())` and `a ≥ 1`, the function returns
    exactly the two results: `y_carry = c·x_top` (first `debug_assert_eq!`), the fix-up `a·x_top + x_carry` is one word
    with zero carry (second `debug_assert_eq!`), and when the loop leaves NO carry the top word the code does not
    touch is already right (`a·x_top = x_top`). -/
theorem lehmer_step_full_longer (W a b c d : Nat) (hW : 1 ≤ W) (ha : a < 2 ^ (W - 1)) (hb : b < 2 ^ (W - 1))
    (hc : c < 2 ^ (W - 1)) (hd : d < 2 ^ (W - 1)) (ha1 : 1 ≤ a) (xl : List Nat) (xt : Nat) (y : List Nat)
    (hx : IsWords W xl) (hxt : xt < 2 ^ W) (hy : IsWords W y) (hl : xl.length = y.length)
    (h1 : 0 ≤ (a : Int) * val W (xl ++ [xt]) - (b : Int) * val W y)
    (h2 : (a : Int) * val W (xl ++ [xt]) - (b : Int) * val W y ≤ val W (xl ++ [xt]))
    (h3 : 0 ≤ (d : Int) * val W y - (c : Int) * val W (xl ++ [xt]))
    (h4 : (d : Int) * val W y - (c : Int) * val W (xl ++ [xt]) < 2 ^ (W * y.length)) :
    ∃ x' y', lehmerStepFull W a b c d (xl ++ [xt]) y = some (x', y') ∧ x'.length = xl.length + 1 ∧ y'.length = y.length ∧
      IsWords W x' ∧ IsWords W y' ∧
      (val W x' : Int) = (a : Int) * val W (xl ++ [xt]) - (b : Int) * val W y ∧
      (val W y' : Int) = (d : Int) * val W y - (c : Int) * val W (xl ++ [xt]) :=
  lehmerStepFull_longer W a b c d hW ha hb hc hd ha1 xl xt y hx hxt hy hl h1 h2 h3 h4

/-- the hypotheses are satisfiable and the fix-up arm is exercised: `x = [5, 7, 1]`, `y = [0, 2^63]`, `(a, b, c, d) =
    (1, 2, 0, 1)` leaves `x_carry = −1`, the fix-up turns the top word into `0`; on a negative result (`2·Y > X`) the
    violated `debug_assert_eq!(cx, 0)` is reported -/
example : lehmerStepFull 64 1 2 0 1 [5, 7, 1] [0, 2 ^ 63] = some ([5, 7, 0], [0, 2 ^ 63]) ∧
    (val 64 [5, 7, 0] : Int) = 1 * val 64 [5, 7, 1] - 2 * val 64 [0, 2 ^ 63] ∧
    lehmerStepFull 64 1 2 0 1 [5, 7, 1] [0, 2 ^ 63 + 5] = none := by decide +kernel

-- ==================================================================== lehmer_step on a committed guess (Round 7)

/-- **the second combined value of a guess never exceeds `y`**: `d·y − c·x ≤ y` for the cofactors `gcd_in_place` /
    `gcd_ext_in_place` use (`y ≤ x`, `y` of more than one word; committed or not).  It starts at `y` and every second
    half round of `lehmer_guess` subtracts `q·(a·x − b·y) ≥ 0`.  With `y < 2^(W·y.len())` this is the hypothesis
    `d·Y − c·X < 2^(W·y.len())` of `lehmer_step_full_eqlen` / `_longer`, the function's own
    `debug_assert_eq!(y_carry, c * x_top)`. -/
theorem lehmer_step_committed_y_le (W : Nat) (hW : 0 < W) (x y : Nat) (hxy : y ≤ x) (hlen : 1 < wordLen W y) :
    ((lehmerCofactors W x y).2.2.2 : Int) * y - ((lehmerCofactors W x y).2.2.1 : Int) * x ≤ y :=
  lehmer_committed_y_le W hW x y hxy hlen

/-- **`lehmer_step` in full on a committed guess, `x` one word longer than `y` — no value hypothesis left.**  For word
    lists `x = xl ++ [x_top]`, `y` with `Y ≤ X`, `y` of more than one significant word and a committed guess (`b ≠ 0`)
    computed from the operands themselves, the mirrored function (zip loop, `x_top` fix-up, both `debug_assert_eq!`s as
    failures) returns `a·X − b·Y` and `d·Y − c·X` exactly, in place (lengths kept); both are positive, their sum is at
    most `X` and the new `y` is at most `Y`. -/
theorem lehmer_step_full_committed_longer (W : Nat) (hW : 2 ≤ W) (xl : List Nat) (xt : Nat) (y : List Nat)
    (hx : IsWords W xl) (hxt : xt < 2 ^ W) (hy : IsWords W y) (hl : xl.length = y.length)
    (hxy : val W y ≤ val W (xl ++ [xt])) (hlen : 1 < wordLen W (val W y))
    (hb : (lehmerCofactors W (val W (xl ++ [xt])) (val W y)).2.1 ≠ 0) :
    ∃ x' y', lehmerStepFull W (lehmerCofactors W (val W (xl ++ [xt])) (val W y)).1
        (lehmerCofactors W (val W (xl ++ [xt])) (val W y)).2.1 (lehmerCofactors W (val W (xl ++ [xt])) (val W y)).2.2.1
        (lehmerCofactors W (val W (xl ++ [xt])) (val W y)).2.2.2 (xl ++ [xt]) y = some (x', y') ∧
      x'.length = xl.length + 1 ∧ y'.length = y.length ∧ IsWords W x' ∧ IsWords W y' ∧
      (val W x' : Int) = ((lehmerCofactors W (val W (xl ++ [xt])) (val W y)).1 : Int) * val W (xl ++ [xt]) -
        ((lehmerCofactors W (val W (xl ++ [xt])) (val W y)).2.1 : Int) * val W y ∧
      (val W y' : Int) = ((lehmerCofactors W (val W (xl ++ [xt])) (val W y)).2.2.2 : Int) * val W y -
        ((lehmerCofactors W (val W (xl ++ [xt])) (val W y)).2.2.1 : Int) * val W (xl ++ [xt]) ∧
      0 < val W x' ∧ 0 < val W y' ∧ val W x' + val W y' ≤ val W (xl ++ [xt]) ∧ val W y' ≤ val W y :=
  lehmerStepFull_committed_longer W hW xl xt y hx hxt hy hl hxy hlen hb

/-- the same for operands of equal length (the fix-up is not entered) -/
theorem lehmer_step_full_committed_eqlen (W : Nat) (hW : 2 ≤ W) (x y : List Nat)
    (hx : IsWords W x) (hy : IsWords W y) (hl : x.length = y.length)
    (hxy : val W y ≤ val W x) (hlen : 1 < wordLen W (val W y))
    (hb : (lehmerCofactors W (val W x) (val W y)).2.1 ≠ 0) :
    ∃ x' y', lehmerStepFull W (lehmerCofactors W (val W x) (val W y)).1
        (lehmerCofactors W (val W x) (val W y)).2.1 (lehmerCofactors W (val W x) (val W y)).2.2.1
        (lehmerCofactors W (val W x) (val W y)).2.2.2 x y = some (x', y') ∧
      x'.length = x.length ∧ y'.length = y.length ∧ IsWords W x' ∧ IsWords W y' ∧
      (val W x' : Int) = ((lehmerCofactors W (val W x) (val W y)).1 : Int) * val W x -
        ((lehmerCofactors W (val W x) (val W y)).2.1 : Int) * val W y ∧
      (val W y' : Int) = ((lehmerCofactors W (val W x) (val W y)).2.2.2 : Int) * val W y -
        ((lehmerCofactors W (val W x) (val W y)).2.2.1 : Int) * val W x ∧
      0 < val W x' ∧ 0 < val W y' ∧ val W x' + val W y' ≤ val W x ∧ val W y' ≤ val W y :=
  lehmerStepFull_committed_eqlen W hW x y hx hy hl hxy hlen hb

/-- the hypotheses are satisfiable, both shapes: `x = [12345, 999, 1]`, `y = [7, 2^63 + 11]` commits `(1, 2, 0, 1)` and
    the fix-up clears the top word; `x = [12345, 2^63 + 999]`, `y = [7, 2^62 + 2^61 + 11]` commits `(3, 4, 2, 3)` -/
example : val 64 [7, 2 ^ 63 + 11] ≤ val 64 ([12345, 999] ++ [1]) ∧ 1 < wordLen 64 (val 64 [7, 2 ^ 63 + 11]) ∧
    lehmerCofactors 64 (val 64 ([12345, 999] ++ [1])) (val 64 [7, 2 ^ 63 + 11]) = (1, 2, 0, 1) ∧
    lehmerStepFull 64 1 2 0 1 ([12345, 999] ++ [1]) [7, 2 ^ 63 + 11] = some ([12331, 977, 0], [7, 2 ^ 63 + 11]) ∧
    val 64 [7, 2 ^ 62 + 2 ^ 61 + 11] ≤ val 64 [12345, 2 ^ 63 + 999] ∧ 1 < wordLen 64 (val 64 [7, 2 ^ 62 + 2 ^ 61 + 11]) ∧
    lehmerCofactors 64 (val 64 [12345, 2 ^ 63 + 999]) (val 64 [7, 2 ^ 62 + 2 ^ 61 + 11]) = (3, 4, 2, 3) ∧
    lehmerStepFull 64 3 4 2 3 [12345, 2 ^ 63 + 999] [7, 2 ^ 62 + 2 ^ 61 + 11]
      = some ([37007, 2953], [18446744073709526947, 2305843009213691986]) := by decide +kernel

-- ==================================================================== which slices lehmer_step is handed (Round 8)

/-- **`y` two or more words shorter than `x`: the guess never commits.**  For `y ≤ x` whose significant word counts
    differ by two or more, `lehmer_guess` / `lehmer_guess_dword` on the aligned leading parts
    (`highest_word_normalized` / `highest_dword_normalized`: both operands cut at one common bit position) return
    `(1, 0, 0, 1)` — the aligned part of `y` is 0, or the first quotient is at least `2^W > COEFF_LIMIT` — so
    `gcd_in_place` / `gcd_ext_in_place` take the Euclidean arm (`b == 0`). -/
theorem lehmer_guess_gap_fails (W x y : Nat) (hW : 0 < W) (hxy : y ≤ x) (hgap : wordLen W y + 2 ≤ wordLen W x) :
    lehmerCofactors W x y = (1, 0, 0, 1) :=
  lehmerCofactors_gap W x y hW hxy hgap

/-- **a committed guess (`b ≠ 0`) happens only on operands of equal length or with `x` one word longer** — the first
    `debug_assert!` of `lehmer_step` (`x.len() - y.len()` is 0 or 1 on the trimmed slices) follows from the guess the
    loop has just computed from the same operands. -/
theorem lehmer_commit_shape (W x y : Nat) (hW : 0 < W) (hxy : y ≤ x)
    (hb : (lehmerCofactors W x y).2.1 ≠ 0) :
    wordLen W y ≤ wordLen W x ∧ wordLen W x ≤ wordLen W y + 1 :=
  lehmerCofactors_commit_shape W x y hW hxy hb

/-- **`lehmer_step` in full on the slices `gcd_in_place` hands it — no shape hypothesis left.**  For TRIMMED word slices
    `x = xl ++ [x_top]`, `y = yl ++ [y_top]` (non-zero top words: what `trim_leading_zeros` leaves), `Y ≤ X`, `y` of more
    than one word and the committed guess `cf` (`b ≠ 0`) computed from the operands themselves: the lengths differ by 0
    or 1 (the function's first `debug_assert!`), and the mirrored function (zip loop, `x_top` fix-up, both
    `debug_assert_eq!`s as failures) returns `a·X − b·Y`, `d·Y − c·X` exactly, in place; both positive, sum `≤ X`,
    new `y ≤ Y`. -/
theorem lehmer_step_full_committed_trimmed (W : Nat) (hW : 2 ≤ W) (xl : List Nat) (xt : Nat) (yl : List Nat) (yt : Nat)
    (hx : IsWords W xl) (hxt : xt < 2 ^ W) (hxt0 : xt ≠ 0) (hy : IsWords W yl) (hyt : yt < 2 ^ W) (hyt0 : yt ≠ 0)
    (hxy : val W (yl ++ [yt]) ≤ val W (xl ++ [xt])) (hlen : 1 ≤ yl.length)
    (cf : Nat × Nat × Nat × Nat) (hcf : cf = lehmerCofactors W (val W (xl ++ [xt])) (val W (yl ++ [yt])))
    (hb : cf.2.1 ≠ 0) :
    (xl.length = yl.length ∨ xl.length = yl.length + 1) ∧
    ∃ x' y', lehmerStepFull W cf.1 cf.2.1 cf.2.2.1 cf.2.2.2 (xl ++ [xt]) (yl ++ [yt]) = some (x', y') ∧
      x'.length = xl.length + 1 ∧ y'.length = yl.length + 1 ∧ IsWords W x' ∧ IsWords W y' ∧
      (val W x' : Int) = (cf.1 : Int) * val W (xl ++ [xt]) - (cf.2.1 : Int) * val W (yl ++ [yt]) ∧
      (val W y' : Int) = (cf.2.2.2 : Int) * val W (yl ++ [yt]) - (cf.2.2.1 : Int) * val W (xl ++ [xt]) ∧
      0 < val W x' ∧ 0 < val W y' ∧ val W x' + val W y' ≤ val W (xl ++ [xt]) ∧ val W y' ≤ val W (yl ++ [yt]) :=
  lehmerStepFull_committed_trimmed W hW xl xt yl yt hx hxt hxt0 hy hyt hyt0 hxy hlen cf hcf hb

/-- non-vacuity: a gap of two words (`x` of 4 words over a `y` of 2 words, twice) gives `(1, 0, 0, 1)`; both committed
    shapes occur with trimmed slices
    (`[12345, 999] ++ [1]` over `[7] ++ [2^63 + 11]` commits `(1, 2, 0, 1)`; equal lengths commit `(3, 4, 2, 3)`) -/
example : wordLen 64 (val 64 [5, 6]) + 2 ≤ wordLen 64 (val 64 [1, 2, 3, 4]) ∧ val 64 [5, 6] ≤ val 64 [1, 2, 3, 4] ∧
    lehmerCofactors 64 (val 64 [1, 2, 3, 4]) (val 64 [5, 6]) = (1, 0, 0, 1) ∧
    wordLen 64 (val 64 [0, 2 ^ 63]) + 2 ≤ wordLen 64 (val 64 [1, 2, 3, 1]) ∧
    lehmerCofactors 64 (val 64 [1, 2, 3, 1]) (val 64 [0, 2 ^ 63]) = (1, 0, 0, 1) ∧
    IsWords 64 [12345, 999] ∧ (1 : Nat) < 2 ^ 64 ∧ (1 : Nat) ≠ 0 ∧ IsWords 64 [7] ∧ 2 ^ 63 + 11 < 2 ^ 64 ∧ 2 ^ 63 + 11 ≠ 0 ∧
    val 64 ([7] ++ [2 ^ 63 + 11]) ≤ val 64 ([12345, 999] ++ [1]) ∧ 1 ≤ [7].length ∧
    (lehmerCofactors 64 (val 64 ([12345, 999] ++ [1])) (val 64 ([7] ++ [2 ^ 63 + 11]))).2.1 ≠ 0 ∧
    [12345, 999].length = [7].length + 1 ∧
    (lehmerCofactors 64 (val 64 ([12345] ++ [2 ^ 63 + 999])) (val 64 ([7] ++ [2 ^ 62 + 2 ^ 61 + 11]))).2.1 ≠ 0 ∧
    [12345].length = [7].length := by decide +kernel

end Dashu.Props.C12
