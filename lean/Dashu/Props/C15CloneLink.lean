import Dashu.Props.C17
/-
  C15 — last sentence of the property ("`clone` / `clone_from` give a value equal to the source, independent of it
  afterwards"), LINKED to C17 by import (round 8).  Until now this clause was compared by execution only (FRONTIER:
  "no Lean theorem").  C17 owns the mirrored `<Repr as Clone>::clone` / `clone_from` (Model/Mem/Repr.lean, incl. the
  buffer-reusing heap arm) and proves words / sign / ledger facts about them; here those facts are composed into the
  statement C15 makes: the INTEGER the result denotes is the integer the source denotes — whatever `self` held before
  (all size relations: inline←inline, inline←heap, heap←inline, heap←heap reuse / too small / too large) — the source
  still owns its live buffer, and the clone's buffer is a different allocation (so a later mutation of either cannot be
  seen through the other).  No new model definition the driver executes: `repInt` is the reading of a `Rep` as an Int.
-/
namespace Dashu.Props.C15CloneLink
open Dashu.Model Dashu.Model.Mem

/-- the integer a `Repr` denotes: sign and little-endian words of `W` bits (what `as_sign_slice` shows) -/
def repInt (W : Nat) (r : Rep) : Int := if r.isNeg then -((wval W r.words : Nat) : Int) else ((wval W r.words : Nat) : Int)

theorem repInt_congr (W : Nat) {r s : Rep} (hw : r.words = s.words) (hs : r.isNeg = s.isNeg) : repInt W r = repInt W s := by
  unfold repInt; rw [hw, hs]

/-- `dst.clone_from(&src)`: never UB, and whenever it returns, the value of `dst` is the value of `src` (every word size),
    `src` is still live, and the two do not share an allocation.  Hypotheses = C17's (canonical, live, distinct operands). -/
theorem clone_from_value (W : Nat) {mx : Nat} {L : Ledger} {n : Nat} {self src : Rep} (hB : L.Below n)
    (hcs : self.Canon mx) (hcr : src.Canon mx) (hLs : self.Live L) (hLr : src.Live L)
    (hne : ∀ i c i' c', self.own = some (i, c) → src.own = some (i', c') → i ≠ i') :
    ∃ L', replay L (Rep.cloneFrom mx self src n).evs = some L' ∧
      (∀ s, (Rep.cloneFrom mx self src n).res ≠ .error (.ub s)) ∧
      ∀ r', (Rep.cloneFrom mx self src n).res = .ok r' →
        repInt W r' = repInt W src ∧ r'.Live L' ∧ src.Live L' ∧
        (∀ i c, r'.own = some (i, c) → ∀ c', src.own ≠ some (i, c')) := by
  obtain ⟨L', hr, hub, hq⟩ := Dashu.Props.C17.clone_from_correct hB hcs hcr hLs hLr hne
  refine ⟨L', hr, hub, fun r' hres => ?_⟩
  obtain ⟨hw, hs, _, hl, hsl, hind⟩ := hq r' hres
  exact ⟨repInt_congr W hw hs, hl, hsl, hind⟩

/-- the value after `clone_from` does not depend on what the destination held: two destinations, one source, same integer -/
theorem clone_from_value_indep_of_dst (W : Nat) {mx : Nat} {L₁ L₂ : Ledger} {n₁ n₂ : Nat} {d₁ d₂ src r₁ r₂ : Rep}
    (hB₁ : L₁.Below n₁) (hB₂ : L₂.Below n₂) (hc₁ : d₁.Canon mx) (hc₂ : d₂.Canon mx) (hcr : src.Canon mx)
    (hl₁ : d₁.Live L₁) (hl₂ : d₂.Live L₂) (hr₁ : src.Live L₁) (hr₂ : src.Live L₂)
    (hne₁ : ∀ i c i' c', d₁.own = some (i, c) → src.own = some (i', c') → i ≠ i')
    (hne₂ : ∀ i c i' c', d₂.own = some (i, c) → src.own = some (i', c') → i ≠ i')
    (h₁ : (Rep.cloneFrom mx d₁ src n₁).res = .ok r₁) (h₂ : (Rep.cloneFrom mx d₂ src n₂).res = .ok r₂) :
    repInt W r₁ = repInt W r₂ := by
  obtain ⟨_, _, _, q₁⟩ := clone_from_value W hB₁ hc₁ hcr hl₁ hr₁ hne₁
  obtain ⟨_, _, _, q₂⟩ := clone_from_value W hB₂ hc₂ hcr hl₂ hr₂ hne₂
  rw [(q₁ r₁ h₁).1, (q₂ r₂ h₂).1]

/-- `src.clone()`: never UB, the value of the clone is the value of `src`; hence `clone` and `clone_from` agree -/
theorem clone_value (W : Nat) {mx : Nat} {L : Ledger} {n : Nat} {r : Rep} (hB : L.Below n) (hc : r.Canon mx) (hL : r.Live L) :
    ∃ L', replay L (Rep.clone mx r n).evs = some L' ∧
      (∀ s, (Rep.clone mx r n).res ≠ .error (.ub s)) ∧
      ∀ r', (Rep.clone mx r n).res = .ok r' → repInt W r' = repInt W r := by
  obtain ⟨L', hr, hub, hq⟩ := Dashu.Props.C17.clone_correct hB hc hL
  refine ⟨L', hr, hub, fun r' hres => ?_⟩
  obtain ⟨hw, hs, _, _⟩ := hq r' hres
  exact repInt_congr W hw hs

/-- the two forms of the clause: `x.clone()` and `y.clone_from(&x)` denote the same integer (that of `x`) -/
theorem clone_eq_clone_from (W : Nat) {mx : Nat} {L : Ledger} {n m : Nat} {self src a b : Rep} (hB : L.Below n) (hBm : L.Below m)
    (hcs : self.Canon mx) (hcr : src.Canon mx) (hLs : self.Live L) (hLr : src.Live L)
    (hne : ∀ i c i' c', self.own = some (i, c) → src.own = some (i', c') → i ≠ i')
    (ha : (Rep.clone mx src m).res = .ok a) (hb : (Rep.cloneFrom mx self src n).res = .ok b) :
    repInt W a = repInt W b := by
  obtain ⟨_, _, _, q₁⟩ := clone_value W hBm hcr hLr
  obtain ⟨_, _, _, q₂⟩ := clone_from_value W hB hcs hcr hLs hLr hne
  rw [q₁ a ha, (q₂ b hb).1]

-- non-vacuity: C17's concrete ledger and values (heap ← heap, heap ← inline, inline ← heap; clone of a heap value)
open Dashu.Props.C17 in
example := clone_from_value 64 (mx := 1000) exL_below exR0_canon exR1_canon exR0_live exR1_live
  (by intro i c i' c' h h'; cases h; cases h'; decide)
open Dashu.Props.C17 in
example := clone_from_value 64 (mx := 1000) exL_below exR0_canon exRi_canon exR0_live exRi_live
  (by intro i c i' c' _ h'; cases h')
open Dashu.Props.C17 in
example := clone_from_value 64 (mx := 1000) exL_below exRi_canon exR1_canon exRi_live exR1_live
  (by intro i c i' c' h; cases h)
open Dashu.Props.C17 in
example := clone_value 64 (mx := 1000) exL_below exR1_canon exR1_live
-- the calls do return (`.ok`), into a fresh buffer / the reused buffer, and the integer is the source's: −(7 + 8·2^64 + 9·2^128)
open Dashu.Props.C17 in
example : (Rep.cloneFrom 1000 exR0 exR1 2).res.toOption = some (.heap 2 5 [7, 8, 9] true) := by decide +kernel
open Dashu.Props.C17 in
example : (Rep.cloneFrom 1000 exR1 exR0 2).res.toOption = some (.heap 1 5 [1, 2, 3, 4] false) := by decide +kernel
example : repInt 64 (.heap 2 5 [7, 8, 9] true) = -(7 + 8 * 2 ^ 64 + 9 * 2 ^ 128) := by decide +kernel
open Dashu.Props.C17 in
example : repInt 64 exR1 = -(7 + 8 * 2 ^ 64 + 9 * 2 ^ 128) := by decide +kernel
example : repInt 64 (.inline 5 0 1 true) = -5 := by decide +kernel

end Dashu.Props.C15CloneLink
