import Dashu.Props.GenFloatOps
/-
  Tie A theorems about `float/src/add.rs` AS REGENERATED on this run (`Dashu/Gen/FloatAdd.lean`): the
  alignment decisions of `repr_add_large_small` / `repr_add_small_large` (which operand is shifted, when
  the small operand lies entirely below the precision window, how many digits go to the low part), the
  re-alignment of `repr_round_sum` and the zero / equal-exponent dispatch of `Context::add` / `sub`,
  with the digit kernels of `Model/Float` plugged in, ARE the functions of the hand-written model that
  the C03 driver executes and `Props/C03.lean` proves correct — for all inputs.  Core Lean only.
-/
set_option linter.unusedSimpArgs false
namespace Dashu.Props.GenFloatAdd
open Dashu Dashu.Gen Dashu.GluePrelude Dashu.Proofs.Gen Dashu.Model.Float Dashu.Props.GenFloatOps

theorem gmin_cast (a b : Nat) : GluePrelude.min (a : Int) (b : Int) = ((Min.min a b : Nat) : Int) := by
  unfold GluePrelude.min; split <;> omega

theorem gmin_cast_sub (lp p d : Nat) (h : d ≤ p) :
    GluePrelude.min (lp : Int) ((p : Int) - (d : Int)) = ((Min.min lp (p - d) : Nat) : Int) := by
  rw [← gmin_cast]; congr 1; omega

theorem cast_sub_le (a k : Nat) (h : k ≤ a) : (a : Int) - (k : Int) = ((a - k : Nat) : Int) := by omega

/-- the normal-exit part shared by all branches of `repr_round_sum`: the final rounding step -/
theorem round_sum_tail (B : Nat) (m : Mode) (c : Coarse) (_dub : Int → Nat) (sg ex lv : Int) (lp : Nat) :
    (if decide (lv = 0) = true then Approx.Exact (toG (Model.Float.FRepr.new B sg ex))
     else Approx.Inexact (toG (Model.Float.FRepr.new B (int_add_rounding sg (roundFract B m c sg lv ((lp : Int)).toNat)) ex))
        (roundFract B m c sg lv ((lp : Int)).toNat)) =
    toGA toG (if lv = 0 then (Model.Float.FRepr.new B sg ex, none)
      else (Model.Float.FRepr.new B (sg + rInt (roundFract B m c sg lv lp)) ex, some (roundFract B m c sg lv lp))) := by
  by_cases h : lv = 0 <;> simp [h, toGA, int_add_rounding_eq]

/-- **`Context::repr_round_sum` as regenerated = `Model.Float.reprRoundSum`** -/
theorem repr_round_sum_is_model (B : Nat) (m : Mode) (c : Coarse) (dub : Int → Nat) (p : Nat) (signif exp : Int)
    (low : Int × Nat) (isSub : Bool) :
    Context_repr_round_sum (modelK B m c dub) ⟨(p : Int)⟩ signif exp (low.1, (low.2 : Int)) isSub =
      toGA toG (reprRoundSum B m c p signif exp low isSub) := by
  obtain ⟨lv, lp⟩ := low
  by_cases h3 : p = 0
  · subst h3
    simp [Context_repr_round_sum, reprRoundSum, Context_is_limited, modelK, toGA]
  have h3' : ¬ ((p : Int) = 0) := by omega
  -- the rounding precision as a natural number on both sides
  generalize hr : (p + (if isSub = true then 1 else 0) : Nat) = rp
  have hr' : (p : Int) + b2i isSub = (rp : Int) := by subst hr; cases isSub <;> simp [b2i]
  have hr'' : b2i isSub + (p : Int) = (rp : Int) := by omega
  unfold Context_repr_round_sum reprRoundSum
  simp only [Context_is_limited, ne_int, h3', h3, decide_false, Bool.not_false, Bool.not_true, if_false, if_true,
    Bool.false_eq_true, add_int, sub_int, hr', hr'', hr, modelK, cmp_int, compare_natCast, is_zero_int]
  rcases nat_tri (digitsI B signif) rp with ⟨h_lt, h_ne, h_ngt, h_nge, h_le, h_cmp⟩ | ⟨h_nlt, h_eq, h_ngt, h_ge, h_le, h_cmp⟩ |
        ⟨h_nlt, h_ne, h_gt, h_ge, h_nle, h_cmp⟩
  · -- fewer digits than the rounding precision: pad from the low part
    by_cases hl : lv = 0
    · subst hl
      simp [h_cmp, h_ne, h_ngt, toGA]
    · have e1 := gmin_cast_sub lp rp (digitsI B signif) h_le
      have e2 := cast_sub_le lp (Min.min lp (rp - digitsI B signif)) (Nat.min_le_left _ _)
      simp only [h_cmp, h_ne, h_ngt, gt_iff_lt, hl, decide_false, if_true, if_false, e1, e2, Int.toNat_natCast,
        ne_eq, not_false_eq_true, Bool.false_eq_true]
      have := round_sum_tail B m c dub
        (shlDigits B signif (Min.min lp (rp - digitsI B signif)) + (splitDigits B lv (lp - Min.min lp (rp - digitsI B signif))).1)
        (exp - ((Min.min lp (rp - digitsI B signif) : Nat) : Int)) (splitDigits B lv (lp - Min.min lp (rp - digitsI B signif))).2
        (lp - Min.min lp (rp - digitsI B signif))
      simp only [Int.toNat_natCast, Int.add_comm] at this ⊢
      exact this
  · -- exactly the rounding precision
    simp only [h_eq, compare_self_nat, if_true, Int.toNat_natCast]
    exact round_sum_tail B m c dub _ _ _ _
  · -- more digits: shrink, the cut-off digits join the low part
    have e1 := nat_sub_cast (digitsI B signif) rp h_gt
    have e2 : (lp : Int) + ((digitsI B signif - rp : Nat) : Int) = ((lp + (digitsI B signif - rp) : Nat) : Int) := by omega
    have e3 : ((digitsI B signif - rp : Nat) : Int) + (lp : Int) = ((lp + (digitsI B signif - rp) : Nat) : Int) := by omega
    simp only [h_cmp, h_ne, h_gt, gt_iff_lt, if_true, if_false, e1, e2, e3, Int.toNat_natCast]
    have := round_sum_tail B m c dub (splitDigits B signif (digitsI B signif - rp)).1 (exp + ((digitsI B signif - rp : Nat) : Int))
      (lv + shlDigits B (splitDigits B signif (digitsI B signif - rp)).2 lp) (lp + (digitsI B signif - rp))
    simp only [Int.toNat_natCast, Int.add_comm] at this ⊢
    exact this

/-- `Sign` of the source as the factor `±1` of the hand model -/
def rsI : Sign → Int
  | .Positive => 1
  | .Negative => -1

theorem sign_mul_int_eq (sg : Sign) (x : Int) : sign_mul_int sg x = rsI sg * x := by
  cases sg <;> simp [sign_mul_int, Sign.apply, rsI]

theorem is_sub_eq (sg : Sign) (ls rs : Int) (hl : ls ≠ 0) (hr : rs ≠ 0) :
    ne_ (sign ls) (mul_ sg (sign rs)) = decide (sgn ls ≠ rsI sg * sgn rs) := by
  simp only [sign_int, sgn, ne_def, mul_]
  by_cases h1 : ls < 0 <;> by_cases h2 : rs < 0 <;> cases sg <;> simp [h1, h2, hl, hr, rsI] <;> decide

theorem ne_symm {α} [DecidableEq α] (a b : α) : ne_ a b = ne_ b a := by
  simp only [ne_def]; congr 1; exact decide_eq_decide.mpr ⟨Eq.symm, Eq.symm⟩

theorem is_sub_eq2 (sg : Sign) (ls rs : Int) (hl : ls ≠ 0) (hr : rs ≠ 0) :
    ne_ (mul_ sg (sign rs)) (sign ls) = decide (sgn ls ≠ rsI sg * sgn rs) := by
  rw [ne_symm]; exact is_sub_eq sg ls rs hl hr

theorem signum_eq (x : Int) : signum x = sgn x := rfl

/-- **`Context::repr_add_large_small` as regenerated = `Model.Float.reprAddLargeSmall`** (`lhs.exponent ≥ rhs.exponent`,
    both operands non-zero: the preconditions under which `add.rs` calls it) -/
theorem repr_add_large_small_is_model (B : Nat) (m : Mode) (c : Coarse) (dub : Int → Nat) (p : Nat) (ls le rs re : Int) (sg : Sign)
    (hle : re ≤ le) (hl0 : ls ≠ 0) (hr0 : rs ≠ 0) :
    Context_repr_add_large_small (modelK B m c dub) ⟨(p : Int)⟩ ⟨ls, le⟩ ⟨rs, re⟩ sg =
      toGA toG (reprAddLargeSmall B m c dub p ⟨ls, le⟩ ⟨rs, re⟩ (rsI sg)) := by
  obtain ⟨ed, hed⟩ : ∃ ed : Nat, le - re = (ed : Int) := ⟨(le - re).toNat, by omega⟩
  unfold Context_repr_add_large_small reprAddLargeSmall
  simp only [is_sub_eq sg ls rs hl0 hr0, is_sub_eq2 sg ls rs hl0 hr0, Context_is_limited, Model.Float.FRepr.digits, modelK, sub_int, hed, Int.toNat_natCast,
    signum_eq, sign_mul_int_eq]
  generalize hsub : decide (sgn ls ≠ rsI sg * sgn rs) = isSub
  generalize hr : (p + (if isSub = true then 1 else 0) : Nat) = rp
  have hr' : add_ (p : Int) (b2i isSub) = (rp : Int) := by subst hr; cases isSub <;> simp [b2i]
  have hr'' : add_ (b2i isSub) (p : Int) = (rp : Int) := by rw [← hr']; simp only [add_int]; omega
  simp only [hr', hr'']
  have hrr : (rp : Int) = (p : Int) + (if isSub = true then 1 else 0) := by subst hr; cases isSub <;> simp
  by_cases h3 : p = 0
  · subst h3
    gdecide
    rw [← repr_round_sum_is_model]
    cases sg <;> simp [rsI, add_int, Int.add_comm, Int.sub_eq_add_neg] <;> rfl
  have h3' : ¬ ((p : Int) = 0) := by omega
  by_cases c1 : dub rs + 1 < ed ∧ dub rs + 1 + rp < digitsI B ls + ed
  · gdecide [c1]
    by_cases c4 : digitsI B ls ≥ rp
    · gdecide [c4]
      exact repr_round_sum_is_model B m c dub p ls le (rsI sg * sgn rs, 2) isSub
    · have e1 : (rp : Int) - (digitsI B ls : Int) + 2 = ((rp - digitsI B ls + 2 : Nat) : Int) := by omega
      have e1' : (2 : Int) + ((rp : Int) - (digitsI B ls : Int)) = ((rp - digitsI B ls + 2 : Nat) : Int) := by omega
      gdecide [c4, e1, e1']
      exact repr_round_sum_is_model B m c dub p ls le (rsI sg * sgn rs, rp - digitsI B ls + 2) isSub
  · gdecide [c1]
    by_cases c2 : digitsI B ls ≥ p
    · gdecide [c2]
      have := repr_round_sum_is_model B m c dub p (ls + rsI sg * (splitDigits B rs ed).1) le (rsI sg * (splitDigits B rs ed).2, ed) isSub
      simp only [Int.add_comm] at this ⊢
      exact this
    · gdecide [c2]
      by_cases c3 : ed + digitsI B ls > p
      · have e1 : (p : Int) - (digitsI B ls : Int) = ((p - digitsI B ls : Nat) : Int) := by omega
        have e2 : (ed : Int) - ((p - digitsI B ls : Nat) : Int) = ((ed - (p - digitsI B ls) : Nat) : Int) := by omega
        gdecide [c3, e1, e2, Int.toNat_natCast]
        have := repr_round_sum_is_model B m c dub p
          (shlDigits B ls (p - digitsI B ls) + rsI sg * (splitDigits B rs (ed - (p - digitsI B ls))).1)
          (le - ((p - digitsI B ls : Nat) : Int)) (rsI sg * (splitDigits B rs (ed - (p - digitsI B ls))).2, ed - (p - digitsI B ls)) isSub
        simp only [Int.add_comm] at this ⊢
        exact this
      · gdecide [c3]
        have := repr_round_sum_is_model B m c dub p (shlDigits B ls ed + rsI sg * rs) re (0, 0) isSub
        cases sg <;> simp only [rsI, Int.one_mul, Int.neg_mul, Int.sub_eq_add_neg, Int.add_comm] at this ⊢ <;> exact this

theorem rsI_cases (sg : Sign) : rsI sg = 1 ∨ rsI sg = -1 := by cases sg <;> simp [rsI]

theorem digitsI_rsI (B : Nat) (sg : Sign) (x : Int) : digitsI B (rsI sg * x) = digitsI B x := by
  rcases rsI_cases sg with h | h <;> simp [h, digitsI]

theorem sgn_rsI (sg : Sign) (x : Int) : sgn (rsI sg * x) = rsI sg * sgn x := by
  rcases rsI_cases sg with h | h <;> simp only [h, sgn, Int.one_mul, Int.neg_mul] <;> split <;> split <;> omega

theorem is_sub_eq' (sg : Sign) (ls rs : Int) (hl : ls ≠ 0) (hr : rs ≠ 0) :
    ne_ (sign ls) (mul_ sg (sign rs)) = decide (sgn (rsI sg * rs) ≠ 1 * sgn ls) := by
  rw [is_sub_eq sg ls rs hl hr, sgn_rsI, Int.one_mul]
  congr 1
  exact propext ⟨fun h e => h e.symm, fun h e => h e.symm⟩

theorem is_sub_eq2' (sg : Sign) (ls rs : Int) (hl : ls ≠ 0) (hr : rs ≠ 0) :
    ne_ (mul_ sg (sign rs)) (sign ls) = decide (sgn (rsI sg * rs) ≠ 1 * sgn ls) := by
  rw [ne_symm]; exact is_sub_eq' sg ls rs hl hr

theorem shl_neg (B : Nat) (x : Int) (n : Nat) : shlDigits B (-x) n = -shlDigits B x n := by
  unfold shlDigits ishl
  split
  · rfl
  · split
    · simp only [Int.neg_mul]
    · split
      · simp only [Int.neg_mul]
      · split <;> simp only [Int.neg_mul]

theorem shl_rsI (B : Nat) (sg : Sign) (x : Int) (n : Nat) : shlDigits B (rsI sg * x) n = rsI sg * shlDigits B x n := by
  rcases rsI_cases sg with h | h
  · simp only [h, Int.one_mul]
  · simp only [h, Int.neg_mul, Int.one_mul, shl_neg]

/-- **`Context::repr_add_small_large` as regenerated = `reprAddLargeSmall` with the operands swapped** — the hand model
    has no separate function for it (`Model/Float/Repr.lean` says the text is the same with lhs/rhs swapped and the sign
    moved to the other operand); this theorem checks that claim against the source text of this run. -/
theorem repr_add_small_large_is_model (B : Nat) (m : Mode) (c : Coarse) (dub : Int → Nat) (p : Nat) (ls le rs re : Int) (sg : Sign)
    (hle : le ≤ re) (hl0 : ls ≠ 0) (hr0 : rs ≠ 0) :
    Context_repr_add_small_large (modelK B m c dub) ⟨(p : Int)⟩ ⟨ls, le⟩ ⟨rs, re⟩ sg =
      toGA toG (reprAddLargeSmall B m c dub p ⟨rsI sg * rs, re⟩ ⟨ls, le⟩ 1) := by
  obtain ⟨ed, hed⟩ : ∃ ed : Nat, re - le = (ed : Int) := ⟨(re - le).toNat, by omega⟩
  unfold Context_repr_add_small_large reprAddLargeSmall
  simp only [is_sub_eq' sg ls rs hl0 hr0, is_sub_eq2' sg ls rs hl0 hr0, Context_is_limited, Model.Float.FRepr.digits, modelK, sub_int, hed, Int.toNat_natCast,
    signum_eq, sign_mul_int_eq, digitsI_rsI, Int.one_mul, Int.mul_one]
  generalize hsub : decide (sgn (rsI sg * rs) ≠ sgn ls) = isSub
  generalize hr : (p + (if isSub = true then 1 else 0) : Nat) = rp
  have hr' : add_ (p : Int) (b2i isSub) = (rp : Int) := by subst hr; cases isSub <;> simp [b2i]
  have hr'' : add_ (b2i isSub) (p : Int) = (rp : Int) := by rw [← hr']; simp only [add_int]; omega
  simp only [hr', hr'']
  have hrr : (rp : Int) = (p : Int) + (if isSub = true then 1 else 0) := by subst hr; cases isSub <;> simp
  by_cases h3 : p = 0
  · subst h3
    gdecide [shl_rsI]
    rw [← repr_round_sum_is_model]
    simp only [shl_rsI, add_int, Int.add_comm]
    rfl
  have h3' : ¬ ((p : Int) = 0) := by omega
  by_cases c1 : dub ls + 1 < ed ∧ dub ls + 1 + rp < digitsI B rs + ed
  · gdecide [c1, shl_rsI]
    by_cases c4 : digitsI B rs ≥ rp
    · gdecide [c4]
      exact repr_round_sum_is_model B m c dub p (rsI sg * rs) re (sgn ls, 2) isSub
    · have e1 : (rp : Int) - (digitsI B rs : Int) + 2 = ((rp - digitsI B rs + 2 : Nat) : Int) := by omega
      have e1' : (2 : Int) + ((rp : Int) - (digitsI B rs : Int)) = ((rp - digitsI B rs + 2 : Nat) : Int) := by omega
      gdecide [c4, e1, e1']
      exact repr_round_sum_is_model B m c dub p (rsI sg * rs) re (sgn ls, rp - digitsI B rs + 2) isSub
  · gdecide [c1, shl_rsI]
    by_cases c2 : digitsI B rs ≥ p
    · gdecide [c2]
      have := repr_round_sum_is_model B m c dub p (rsI sg * rs + (splitDigits B ls ed).1) re ((splitDigits B ls ed).2, ed) isSub
      cases sg <;> simp only [rsI, Int.one_mul, Int.neg_mul, Int.sub_eq_add_neg, Int.add_comm] at this ⊢ <;> exact this
    · gdecide [c2]
      by_cases c3 : ed + digitsI B rs > p
      · have e1 : (p : Int) - (digitsI B rs : Int) = ((p - digitsI B rs : Nat) : Int) := by omega
        have e2 : (ed : Int) - ((p - digitsI B rs : Nat) : Int) = ((ed - (p - digitsI B rs) : Nat) : Int) := by omega
        gdecide [c3, e1, e2, Int.toNat_natCast]
        have := repr_round_sum_is_model B m c dub p
          (rsI sg * shlDigits B rs (p - digitsI B rs) + (splitDigits B ls (ed - (p - digitsI B rs))).1)
          (re - ((p - digitsI B rs : Nat) : Int)) ((splitDigits B ls (ed - (p - digitsI B rs))).2, ed - (p - digitsI B rs)) isSub
        simp only [Int.add_comm] at this ⊢
        exact this
      · gdecide [c3]
        have := repr_round_sum_is_model B m c dub p (rsI sg * shlDigits B rs ed + ls) le (0, 0) isSub
        simp only [Int.add_comm] at this ⊢
        exact this

theorem stripAux_ne_zero (B : Nat) (fuel : Nat) (s e : Int) (hs : s ≠ 0) : (stripAux B fuel s e).1 ≠ 0 := by
  induction fuel generalizing s e with
  | zero => simpa [stripAux] using hs
  | succ n ih =>
    unfold stripAux
    split
    · rename_i hmod
      apply ih
      intro hq
      have := Int.mul_ediv_add_emod s (B : Int)
      rw [hq, hmod] at this
      omega
    · exact hs

/-- `Repr::new` never builds an infinity (zero significand with a non-zero exponent) -/
theorem new_not_inf (B : Nat) (s e : Int) :
    ¬ ((Model.Float.FRepr.new B s e).signif = 0 ∧ (Model.Float.FRepr.new B s e).exp ≠ 0) := by
  unfold Model.Float.FRepr.new
  split
  · simp
  · rename_i hs
    intro h
    exact stripAux_ne_zero B _ s e hs h.1

theorem modelK_repr_new (B : Nat) (m : Mode) (c : Coarse) (dub : Int → Nat) (s e : Int) :
    (modelK B m c dub).repr_new s e = ⟨(Model.Float.FRepr.new B s e).signif, (Model.Float.FRepr.new B s e).exp⟩ := rfl

/-- **`Context::add` as regenerated = `Model.Float.ctxAddSub … 1`**, panicking exactly for an infinite operand -/
theorem context_add_is_model (B : Nat) (m : Mode) (c : Coarse) (dub : Int → Nat) (p : Nat) (ls le rs re : Int) :
    Context_add (modelK B m c dub) ⟨(p : Int)⟩ ⟨ls, le⟩ ⟨rs, re⟩ =
      if (ls = 0 ∧ le ≠ 0) ∨ (rs = 0 ∧ re ≠ 0) then .error .OperateWithInf
      else .ok (Approx.map (fun v => (⟨v, ⟨(p : Int)⟩⟩ : GluePrelude.FBig))
        (toGA toG (ctxAddSub B m c dub p ⟨ls, le⟩ ⟨rs, re⟩ 1))) := by
  unfold Context_add ctxAddSub
  simp only [assert_finite_operands, Repr_is_infinite, Repr_is_zero, Model.Float.FRepr.isZero, is_zero_int, eq_int, ne_int, cmp_int]
  gcases h1 : ls = 0 <;> gcases h2 : le = 0 <;> gcases h3 : rs = 0 <;> gcases h4 : re = 0
  all_goals (try simp only [repr_round_ref_is_model, h1, h3, false_and, true_and, if_false, FBig_new, not_true_eq_false,
    ne_eq, and_false, and_self])
  · -- both significands are non-zero
    rcases int_tri le re with ⟨h_lt, h_ne, h_ngt, h_nge, h_le, h_cmp⟩ | ⟨h_nlt, h_eq, h_ngt, h_ge, h_le, h_cmp⟩ |
        ⟨h_nlt, h_ne, h_gt, h_ge, h_nle, h_cmp⟩
    · simp only [h_cmp, h_ne, h_ngt, if_false, repr_add_small_large_is_model B m c dub p ls le rs re .Positive h_le h1 h3, rsI, Int.one_mul, Int.mul_one]
    · subst h_eq
      have hn := new_not_inf B (ls + rs) le
      simp only [compare_self_int, if_true, modelK_repr_new, add_int, repr_round_is_model, hn, if_false, Int.one_mul, Int.mul_one]
    · simp only [h_cmp, h_ne, h_gt, if_false, if_true, repr_add_large_small_is_model B m c dub p ls le rs re .Positive h_ge h1 h3, rsI]

/-- **`Context::sub` as regenerated = `Model.Float.ctxAddSub … (-1)`** -/
theorem context_sub_is_model (B : Nat) (m : Mode) (c : Coarse) (dub : Int → Nat) (p : Nat) (ls le rs re : Int) :
    Context_sub (modelK B m c dub) ⟨(p : Int)⟩ ⟨ls, le⟩ ⟨rs, re⟩ =
      if (ls = 0 ∧ le ≠ 0) ∨ (rs = 0 ∧ re ≠ 0) then .error .OperateWithInf
      else .ok (Approx.map (fun v => (⟨v, ⟨(p : Int)⟩⟩ : GluePrelude.FBig))
        (toGA toG (ctxAddSub B m c dub p ⟨ls, le⟩ ⟨rs, re⟩ (-1)))) := by
  unfold Context_sub ctxAddSub
  have hne : ¬ ((-1 : Int) = 1) := by omega
  simp only [assert_finite_operands, Repr_is_infinite, Repr_is_zero, Model.Float.FRepr.isZero, is_zero_int, eq_int, ne_int, cmp_int,
    Repr_neg, Model.Float.FRepr.neg, neg_int, hne, if_false]
  gcases h1 : ls = 0 <;> gcases h2 : le = 0 <;> gcases h3 : rs = 0 <;> gcases h4 : re = 0
  all_goals (try simp only [repr_round_ref_is_model, repr_round_is_model, h1, h3, false_and, true_and, if_false, FBig_new,
    not_true_eq_false, ne_eq, and_false, and_self, Int.neg_eq_zero, Int.neg_zero])
  · rcases int_tri le re with ⟨h_lt, h_ne, h_ngt, h_nge, h_le, h_cmp⟩ | ⟨h_nlt, h_eq, h_ngt, h_ge, h_le, h_cmp⟩ |
        ⟨h_nlt, h_ne, h_gt, h_ge, h_nle, h_cmp⟩
    · simp only [h_cmp, h_ne, h_ngt, if_false, repr_add_small_large_is_model B m c dub p ls le rs re .Negative h_le h1 h3, rsI,
        Int.mul_comm]
    · subst h_eq
      have hn := new_not_inf B (ls + -rs) le
      simp only [compare_self_int, if_true, modelK_repr_new, sub_int, repr_round_is_model, hn, if_false, Int.neg_mul, Int.one_mul, Int.mul_one, Int.mul_neg,
        Int.sub_eq_add_neg]
    · simp only [h_cmp, h_ne, h_gt, if_false, if_true, repr_add_large_small_is_model B m c dub p ls le rs re .Negative h_ge h1 h3, rsI]
end Dashu.Props.GenFloatAdd
