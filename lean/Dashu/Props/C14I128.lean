import Dashu.Props.C14
/-
  C14 — machine-integer width of `impl_num_ord_with_float` (`NumOrd<f32/f64> for Repr<B>`,
  float/src/third_party/num_order.rs steps 3–4).  The hand model `Model.Cross.reprNumOrdFloat` computes
  the bit-length estimates in unbounded `Int`; the code computes them in `i128`
  (`self_signif_log2 + B.bit_len() as i128 * self_exp`, `self_log2 - self_exp`,
  `MANTISSA_DIGITS as i128 + MAX_EXP as i128`, `other_signif.bit_len() as i128 + other_exp as i128`).
  Here the same text is written with EVERY i128 operation reduced to two's complement (`wrapI128`), and
  proved equal to the model for every operand a 64-bit target can hold: `isize` exponent, `Word` base
  (`bit_len(B) ≤ 64`), a significand of fewer than `2^64` bits, and every decoded f32/f64.  So no i128
  operation of steps 3–4 overflows (a debug build cannot panic there, a release build cannot wrap): what
  was an assumption of C14 (`ASSUMPTIONS`: "i128 arithmetic of the bit-length estimates does not
  overflow") is a theorem.
-/
namespace Dashu.Props.C14I128
open Dashu Dashu.Model.Cross

/-- an `i128` result: two's complement reduction into `[-2^127, 2^127)` -/
def wrapI128 (x : Int) : Int := (x + 2 ^ 127) % 2 ^ 128 - 2 ^ 127

theorem wrapI128_id {x : Int} (h1 : -(2 ^ 127) ≤ x) (h2 : x < 2 ^ 127) : wrapI128 x = x := by
  unfold wrapI128
  rw [Int.emod_eq_of_lt (by omega) (by omega)]
  omega

/-- `wrapI128` is not the identity outside the range (the definition is not vacuous) -/
example : wrapI128 (2 ^ 127) = -(2 ^ 127) ∧ wrapI128 (-(2 ^ 127) - 1) = 2 ^ 127 - 1 ∧ wrapI128 5 = 5 := by decide

/-- `impl_num_ord_with_float` with every i128 operation of steps 3 and 4 wrapped; the rest of the
    text is `Model.Cross.reprNumOrdFloat` verbatim -/
def reprNumOrdFloatI128 (t : FloatTy) (B : Nat) (s e : Int) (d : Decoded) : Option Ordering :=
  match d with
  | .nan => none
  | .inf neg =>
    match signMatch (fSign s e) (if neg then .neg else .pos) with      -- step1
    | .inr ord => some ord
    | .inl sign => if fIsInf s e then some .eq else some (sign.app .lt)  -- step2
  | .fin man exp =>
    if man = 0 then                                                    -- step0
      (if fIsZero s e then some .eq else some ((fSign s e).app .gt))
    else
      match signMatch (fSign s e) (Sign.ofInt man) with                -- step1
      | .inr ord => some ord
      | .inl sign =>
        if fIsInf s e then some (sign.app .gt)                         -- step2
        else if fIsZero s e then some .lt
        else
          -- step3
          let selfSignifLog2 : Int := wrapI128 (bitLen s.natAbs)       -- `bit_len() as i128` (usize → i128)
          let selfExp : Int := wrapI128 e                              -- `self.exponent as i128`
          let selfLog2 : Int := wrapI128 (selfSignifLog2 + wrapI128 (wrapI128 (bitLen B : Int) * selfExp))
          let lb : Int := if e ≥ 0 then wrapI128 (selfLog2 - selfExp) else selfLog2
          let ub : Int := if e ≥ 0 then selfLog2 else wrapI128 (selfLog2 - selfExp)
          if lb > wrapI128 (wrapI128 (t.mantDigits : Nat) + wrapI128 (t.maxExp : Nat)) then some (sign.app .gt)
          else
            -- step4
            let otherLog2 : Int := wrapI128 (wrapI128 (bitLen man.natAbs : Int) + wrapI128 exp)
            if lb > otherLog2 then some (sign.app .gt)
            else if ub < otherLog2 then some (sign.app .lt)
            else
              -- step5
              let lhs1 := if e < 0 then s else shlDigits B s e.toNat
              let rhs1 := if e < 0 then shlDigits B man (-e).toNat else man
              let lhs2 := if exp < 0 then lhs1 * 2 ^ (-exp).toNat else lhs1
              let rhs2 := if exp < 0 then rhs1 else rhs1 * 2 ^ exp.toNat
              some (compare lhs2 rhs2)

/-- what `FloatEncoding::decode` returns for f32/f64: a mantissa of at most 64 bits (`u32`/`u64` mantissa), an `i16` exponent -/
def DecodedSmall : Decoded → Prop
  | .fin m e => bitLen m.natAbs ≤ 64 ∧ -(2 ^ 15 : Int) ≤ e ∧ e < 2 ^ 15
  | _ => True

/-- every bit pattern decodes into that range -/
theorem decode_small (t : FloatTy) (bits : Nat) : DecodedSmall (decode t bits) := by
  unfold decode
  dsimp only
  split
  · split <;> trivial
  · rename_i hex
    show (bitLen (if _ then -(_ : Int) else _).natAbs ≤ 64) ∧ _ ∧ _
    rw [natAbs_ite_neg]
    have hmant : bits % 2 ^ t.mantBits < 2 ^ t.mantBits := Nat.mod_lt _ (Nat.pow_pos (by omega))
    have hexlt : (bits >>> t.mantBits) % 2 ^ t.expBits < 2 ^ t.expBits :=
      Nat.mod_lt _ (Nat.pow_pos (by omega))
    generalize (bits >>> t.mantBits) % 2 ^ t.expBits = ex at *
    generalize bits % 2 ^ t.mantBits = mant at *
    by_cases h0 : ex = 0
    · simp only [h0, if_true]
      have := bitLen_le_of_lt_two_pow hmant
      cases t <;> simp only [FloatTy.mantBits, FloatTy.bias, FloatTy.expBits] at * <;> omega
    · simp only [h0, if_false]
      have hm : mant + 2 ^ t.mantBits < 2 ^ (t.mantBits + 1) := by rw [Nat.pow_succ]; omega
      have := bitLen_le_of_lt_two_pow hm
      cases t <;> simp only [FloatTy.mantBits, FloatTy.bias, FloatTy.expBits] at * <;>
        omega

/-- `bit_len(B) * exponent` for a `Word` base and an `isize` exponent stays far inside `i128` -/
theorem mul_range {b e : Int} (hb0 : 0 ≤ b) (hb : b ≤ 64) (he1 : -(2 ^ 63) ≤ e) (he2 : e < 2 ^ 63) :
    -(2 ^ 69) ≤ b * e ∧ b * e ≤ 2 ^ 69 := by
  rcases le_or_gt 0 e with h | h
  · have h1 : 0 ≤ b * e := Int.mul_nonneg hb0 h
    have h2 : b * e ≤ 64 * e := Int.mul_le_mul_of_nonneg_right hb h
    constructor <;> omega
  · have h1 : b * e ≤ 0 := Int.mul_nonpos_of_nonneg_of_nonpos hb0 (by omega)
    have h2 : 64 * e ≤ b * e := Int.mul_le_mul_of_nonpos_right hb (by omega)
    constructor <;> omega

/-- **no i128 operation of `NumOrd<f32/f64> for Repr<B>` overflows**: for an `isize` exponent, a `Word` base, a significand of
    fewer than `2^64` bits and a decoded f32/f64, the two's-complement text IS the unbounded model. -/
theorem repr_num_ord_float_i128 (t : FloatTy) (B : Nat) (s e : Int) (d : Decoded)
    (hB : bitLen B ≤ 64) (hs : bitLen s.natAbs < 2 ^ 64) (he1 : -(2 ^ 63 : Int) ≤ e) (he2 : e < 2 ^ 63)
    (hd : DecodedSmall d) :
    reprNumOrdFloatI128 t B s e d = reprNumOrdFloat t B s e d := by
  unfold reprNumOrdFloatI128 reprNumOrdFloat
  cases d with
  | nan => rfl
  | inf neg => rfl
  | fin man exp =>
    obtain ⟨hm, hx1, hx2⟩ := hd
    have hbl : ((bitLen B : Nat) : Int) ≤ 64 := by exact_mod_cast hB
    have hbl0 : (0 : Int) ≤ ((bitLen B : Nat) : Int) := Int.natCast_nonneg _
    have hsl : ((bitLen s.natAbs : Nat) : Int) < 2 ^ 64 := by exact_mod_cast hs
    have hsl0 : (0 : Int) ≤ ((bitLen s.natAbs : Nat) : Int) := Int.natCast_nonneg _
    have hml : ((bitLen man.natAbs : Nat) : Int) ≤ 64 := by exact_mod_cast hm
    have hml0 : (0 : Int) ≤ ((bitLen man.natAbs : Nat) : Int) := Int.natCast_nonneg _
    have hmul := mul_range hbl0 hbl he1 he2
    have w1 : wrapI128 ((bitLen s.natAbs : Nat) : Int) = (bitLen s.natAbs : Nat) := wrapI128_id (by omega) (by omega)
    have w2 : wrapI128 e = e := wrapI128_id (by omega) (by omega)
    have w3 : wrapI128 ((bitLen B : Nat) : Int) = (bitLen B : Nat) := wrapI128_id (by omega) (by omega)
    have w4 : wrapI128 (((bitLen B : Nat) : Int) * e) = ((bitLen B : Nat) : Int) * e := wrapI128_id (by omega) (by omega)
    have w5 : wrapI128 (((bitLen s.natAbs : Nat) : Int) + ((bitLen B : Nat) : Int) * e)
        = ((bitLen s.natAbs : Nat) : Int) + ((bitLen B : Nat) : Int) * e := wrapI128_id (by omega) (by omega)
    have w6 : wrapI128 (((bitLen s.natAbs : Nat) : Int) + ((bitLen B : Nat) : Int) * e - e)
        = ((bitLen s.natAbs : Nat) : Int) + ((bitLen B : Nat) : Int) * e - e := wrapI128_id (by omega) (by omega)
    have w7 : wrapI128 ((t.mantDigits : Nat) : Int) = (t.mantDigits : Nat) := by
      cases t <;> exact wrapI128_id (by simp [FloatTy.mantDigits]) (by simp [FloatTy.mantDigits])
    have w8 : wrapI128 ((t.maxExp : Nat) : Int) = (t.maxExp : Nat) := by
      cases t <;> exact wrapI128_id (by simp [FloatTy.maxExp]) (by simp [FloatTy.maxExp])
    have w9 : wrapI128 (((t.mantDigits : Nat) : Int) + ((t.maxExp : Nat) : Int)) = ((t.mantDigits + t.maxExp : Nat) : Int) := by
      cases t <;> (rw [wrapI128_id (by simp [FloatTy.mantDigits, FloatTy.maxExp]) (by simp [FloatTy.mantDigits, FloatTy.maxExp])]; push_cast; rfl)
    have w10 : wrapI128 ((bitLen man.natAbs : Nat) : Int) = (bitLen man.natAbs : Nat) := wrapI128_id (by omega) (by omega)
    have w11 : wrapI128 exp = exp := wrapI128_id (by omega) (by omega)
    have w12 : wrapI128 (((bitLen man.natAbs : Nat) : Int) + exp) = ((bitLen man.natAbs : Nat) : Int) + exp :=
      wrapI128_id (by linarith) (by linarith)
    simp only [w1, w2, w3, w4, w5, w6, w7, w8, w9, w10, w11, w12]
    rfl

/-- the statement for the operands of the protocol: any FBig the harness can hold against any f32/f64 bit pattern -/
theorem repr_num_ord_float_i128_decode (t : FloatTy) (B : Nat) (s e : Int) (bits : Nat)
    (hB : B < 2 ^ 64) (hs : bitLen s.natAbs < 2 ^ 64) (he1 : -(2 ^ 63 : Int) ≤ e) (he2 : e < 2 ^ 63) :
    reprNumOrdFloatI128 t B s e (decode t bits) = reprNumOrdFloat t B s e (decode t bits) :=
  repr_num_ord_float_i128 t B s e _ (bitLen_le_of_lt_two_pow hB) hs he1 he2 (decode_small t bits)

/-- hypotheses are satisfiable at the extremes: base 10, exponent `isize::MIN` / `isize::MAX`, against f64 1.0 -/
example : reprNumOrdFloatI128 .f64 10 7 (-(2 ^ 63)) (decode .f64 0x3ff0000000000000)
      = reprNumOrdFloat .f64 10 7 (-(2 ^ 63)) (decode .f64 0x3ff0000000000000) ∧
    reprNumOrdFloatI128 .f32 10 7 (2 ^ 63 - 1) (decode .f32 0x3f800000)
      = reprNumOrdFloat .f32 10 7 (2 ^ 63 - 1) (decode .f32 0x3f800000) :=
  ⟨repr_num_ord_float_i128_decode _ _ _ _ _ (by norm_num) (by decide) (by norm_num) (by norm_num),
   repr_num_ord_float_i128_decode _ _ _ _ _ (by norm_num) (by decide) (by norm_num) (by norm_num)⟩
/-- the hypotheses are needed: one bit beyond `isize` the wrapped text differs from the model (base 2^64-1, exponent 2^121:
    `64 * 2^121 = 2^127` wraps to `i128::MIN`) -/
example : wrapI128 (64 * 2 ^ 121) ≠ 64 * 2 ^ 121 := by decide
example : bitLen 10 ≤ 64 ∧ bitLen (7 : Int).natAbs < 2 ^ 64 ∧ DecodedSmall (decode .f64 0x3ff0000000000000) :=
  ⟨by decide, by decide, decode_small _ _⟩

end Dashu.Props.C14I128
