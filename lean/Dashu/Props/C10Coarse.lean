import Dashu.Proofs.Float.Coarse
/-
  C10: the coarse `f32` comparison at the head of `Round::round_fract` (float/src/round.rs).  In `Props/C10.lean` it is a
  parameter with the hypothesis `CoarseSound`; here that hypothesis is derived for the code's formula over ℝ
  (kept apart because it imports Mathlib's real logarithm), and the region is EXPLICIT:

      2 ≤ B < 2^64,   0 < |fract| < B^k  (precondition of `round_fract`),   k ≤ 2^24.

  Inside the region there is NO further bound on the precision: the margins `0.999 / 1.001` alone would carry the four
  `f32` roundings only while `k·log₂B ≲ 8·10³`, but operands of more than two words get their bounds through
  `log2_bounds_large`, whose factor `1 ∓ 2·f32::EPSILON` (= `1 ∓ 4u`) outweighs those roundings for every size
  (`coarse_gt_margin`, `coarse_lt_margin`: the real inequalities with the numeric constants).  Outside the region
  (`k > 2^24`: `precision as f32` is no longer exact) nothing is claimed; the generator drives the real code there
  (`r.fracth` with k = 2^24 + 1 … 2^25 + 3) against the exact comparison, through the bit-exact replica `coarseF32`.

  Assumptions: (R) each `f32` `+`/`*` is a rounding with relative error ≤ u = 2⁻²⁴; (E) `0 ≤ lb ≤ log₂ n ≤ ub` for
  `log2_bounds`; (S) the ADJUST slack for n ≥ 2^128 — derived from the structure of `log2_bounds_large`
  (`adjust_slack_lb`, `adjust_slack_ub`) given the enclosure of the highest double word; (C) the exact values of the
  literals `0.999f32`, `1.001f32`.
-/
namespace Dashu.Props.C10Coarse
open Dashu Dashu.Model.Float

/-- **soundness of the coarse test on the explicit region**: whenever the `f32` test of the code decides, it decides as
    the exact comparison of `2·|fract|` with `B^k` -/
theorem coarse_test_sound (fl : ℝ → ℝ) (hfl : RelRound fl) (lbF ubF : Nat → ℝ) (hb : Log2BoundsSound lbF ubF)
    (B fmag k : Nat) (hB : 2 ≤ B) (hBw : B < 2 ^ 64) (hf : 0 < fmag) (hlt : fmag < B ^ k) (hk : k ≤ 2 ^ 24)
    (o : Ordering) (h : coarseReal fl lbF ubF B fmag k = some o) : o = compare (2 * fmag) (B ^ k) :=
  coarseReal_sound fl hfl lbF ubF hb B fmag k hB hBw hf hlt hk o h

/-- … hence `round_fract` with the code's coarse test returns what the exact comparison returns (to which
    `C10.round_fract_follows_mode` applies), for every mode, integer part and fraction in the region -/
theorem round_fract_coarse_irrelevant (fl : ℝ → ℝ) (hfl : RelRound fl) (lbF ubF : Nat → ℝ)
    (hb : Log2BoundsSound lbF ubF) (B : Nat) (m : Mode) (n f : Int) (k : Nat) (hB : 2 ≤ B) (hBw : B < 2 ^ 64)
    (hlt : f.natAbs < B ^ k) (hk : k ≤ 2 ^ 24) :
    roundFract B m (coarseReal fl lbF ubF) n f k = roundFract B m coarseNone n f k :=
  roundFract_coarseReal fl hfl lbF ubF hb B m n f k hB hBw hlt hk

/-- the `Greater` arm as a real inequality (L = log₂|fract|, K = k·log₂B): margins and slack suffice for EVERY L -/
theorem coarse_gt_margin (L K lb s p : ℝ) (hL0 : 0 ≤ L) (hlb0 : 0 ≤ lb) (hlb : lb ≤ L)
    (hbig : 128 ≤ L → lb ≤ L * ((1 + u32) ^ 2 * (1 - 4 * u32)))
    (hs : s ≤ (lb + c999) * (1 + u32)) (hp : K * (1 - u32) ≤ p) (hdec : p < s) : K < L + 1 :=
  coarse_gt_real L K lb s p hL0 hlb0 hlb hbig hs hp hdec

/-- the `Less` arm (needs `L ≤ 2^31`, implied by `k ≤ 2^24`, `B < 2^64`) -/
theorem coarse_lt_margin (L K ub s p : ℝ) (hL0 : 0 ≤ L) (hLmax : L ≤ 2147483648) (hub : L ≤ ub)
    (hbig : 128 ≤ L → (L - 1 / 1152921504606846976) * ((1 - u32) ^ 2 * (1 + 4 * u32)) ≤ ub)
    (hs : (ub + c1001) * (1 - u32) ≤ s) (hp : p ≤ K * (1 + u32)) (hdec : s < p) : L + 1 < K :=
  coarse_lt_real L K ub s p hL0 hLmax hub hbig hs hp hdec

/-- (S), lower side, from `est_lb = fl(fl(hi_lb + rem_bits)·(1 − ADJUST))` -/
theorem adjust_slack_lower (fl : ℝ → ℝ) (hfl : RelRound fl) (L h r : ℝ) (hh : 0 ≤ h) (hr : 0 ≤ r) (hle : h + r ≤ L) :
    fl (fl (h + r) * (1 - 4 * u32)) ≤ L * ((1 + u32) ^ 2 * (1 - 4 * u32)) :=
  adjust_slack_lb fl hfl L h r hh hr hle

/-- (S), upper side, from `est_ub = fl(fl(hi_ub + rem_bits)·(1 + ADJUST))` -/
theorem adjust_slack_upper (fl : ℝ → ℝ) (hfl : RelRound fl) (L h r : ℝ) (hh : 0 ≤ h) (hr : 0 ≤ r)
    (hle : L - 1 / 1152921504606846976 ≤ h + r) :
    (L - 1 / 1152921504606846976) * ((1 - u32) ^ 2 * (1 + 4 * u32)) ≤ fl (fl (h + r) * (1 + 4 * u32)) :=
  adjust_slack_ub fl hfl L h r hh hr hle

/-! ### non-vacuity: the hypotheses are satisfiable together -/

example : RelRound id := by intro x; simp [u32]

/-- bounds with exactly the ADJUST slack (no other error) meet (E) and (S) -/
example : Log2BoundsSound (fun n => Real.logb 2 n * ((1 + u32) ^ 2 * (1 - 4 * u32)))
    (fun n => Real.logb 2 n * ((1 - u32) ^ 2 * (1 + 4 * u32))) := by
  have g1 : (0 : ℝ) ≤ (1 + u32) ^ 2 * (1 - 4 * u32) := by unfold u32; norm_num
  have g1' : (1 + u32) ^ 2 * (1 - 4 * u32) ≤ 1 := by unfold u32; norm_num
  have g2 : (1 : ℝ) ≤ (1 - u32) ^ 2 * (1 + 4 * u32) := by unfold u32; norm_num
  constructor
  · intro n hn
    have hL := logb2_nonneg n hn
    refine ⟨mul_nonneg hL g1, ?_, ?_⟩
    · calc Real.logb 2 n * ((1 + u32) ^ 2 * (1 - 4 * u32)) ≤ Real.logb 2 n * 1 := mul_le_mul_of_nonneg_left g1' hL
        _ = Real.logb 2 n := mul_one _
    · calc Real.logb 2 n = Real.logb 2 n * 1 := (mul_one _).symm
        _ ≤ Real.logb 2 n * ((1 - u32) ^ 2 * (1 + 4 * u32)) := mul_le_mul_of_nonneg_left g2 hL
  · intro n _
    refine ⟨le_refl _, ?_⟩
    apply mul_le_mul_of_nonneg_right _ (by linarith)
    norm_num

end Dashu.Props.C10Coarse
