import Dashu.Props.C05
import Dashu.Proofs.Int.FloatValue
/-
  C05, clause "`cmp` is the TOTAL ORDER of those values" for floats (round 6): the specification order `specFCmp` of
  `float_cmp` is the order of the rational values `signif · B^exp` (ℚ, `FRepr.val`) with the infinities at the two ends;
  hence the comparison the code runs (`repr_cmp_same_base` with both shortcuts) decides `<`, `=`, `>` of the values, and is
  transitive / antisymmetric / total on the invariant's domain.
-/
namespace Dashu.Props.C05
open Dashu.Model

/-- the digit hypothesis of `float_cmp` for one operand: unlimited precision (0) or `|signif| < B^(min p isize::MAX + 1)` -/
def FitsPrec (B : Nat) (r : FRepr) (p : Nat) : Prop := p ≠ 0 → r.signif.natAbs < B ^ (min p cmpIsizeMax + 1)

/-- **`specFCmp` is the order of the values**: on finite operands `Less / Equal / Greater` exactly when the rational
    values `signif · B^exp` are so ordered -/
theorem float_spec_is_value_order (B : Nat) (hB : 2 ≤ B) (a b : FRepr) (ha : a.isInfinite = false) (hb : b.isInfinite = false) :
    (specFCmp B a b = .lt ↔ a.val B < b.val B) ∧ (specFCmp B a b = .eq ↔ a.val B = b.val B) ∧
    (specFCmp B a b = .gt ↔ b.val B < a.val B) :=
  specFCmp_value B hB a b ha hb

/-- … and the infinities are at the two ends -/
theorem float_spec_infinities_at_ends (B : Nat) (a b : FRepr) (ha : a.isInfinite = true) :
    (b.isInfinite = false → 0 < a.exp → specFCmp B a b = .gt ∧ specFCmp B b a = .lt) ∧
    (b.isInfinite = false → a.exp < 0 → specFCmp B a b = .lt ∧ specFCmp B b a = .gt) ∧
    (b.isInfinite = true → b.exp < 0 → 0 < a.exp → specFCmp B a b = .gt ∧ specFCmp B b a = .lt) ∧
    (b.isInfinite = true → a.exp = b.exp → specFCmp B a b = .eq) :=
  specFCmp_infinite B a b ha

/-- **one total order for all floats**: with `-inf = ⊥`, `+inf = ⊤` and the finite values in ℚ between them (`FRepr.xval`),
    `specFCmp` is `Less / Equal / Greater` exactly when the extended values are so ordered — for the infinities as the
    library builds them (`0·B^1`, `0·B^-1`: `InfCanon`) -/
theorem float_spec_is_extended_value_order (B : Nat) (hB : 2 ≤ B) (a b : FRepr) (ca : a.InfCanon) (cb : b.InfCanon) :
    (specFCmp B a b = .lt ↔ a.xval B < b.xval B) ∧ (specFCmp B a b = .eq ↔ a.xval B = b.xval B) ∧
    (specFCmp B a b = .gt ↔ b.xval B < a.xval B) :=
  specFCmp_xval B hB a b ca cb

/-- hence the specification order is transitive on ALL floats (finite or infinite) -/
theorem float_spec_trans (B : Nat) (hB : 2 ≤ B) (a b c : FRepr) (ca : a.InfCanon) (cb : b.InfCanon) (cc : c.InfCanon)
    (h1 : specFCmp B a b ≠ .gt) (h2 : specFCmp B b c ≠ .gt) : specFCmp B a c ≠ .gt := by
  rw [Ne, (specFCmp_xval B hB a b ca cb).2.2, not_lt] at h1
  rw [Ne, (specFCmp_xval B hB b c cb cc).2.2, not_lt] at h2
  rw [Ne, (specFCmp_xval B hB a c ca cc).2.2, not_lt]
  exact le_trans h1 h2

-- non-vacuity: -inf < -5·10^40 < 0 < +inf in this order, and +inf = +inf
example : (⟨0, -1⟩ : FRepr).InfCanon ∧ (⟨0, 1⟩ : FRepr).InfCanon ∧ (⟨-5, 40⟩ : FRepr).InfCanon ∧
    specFCmp 10 ⟨0, -1⟩ ⟨-5, 40⟩ = .lt ∧ specFCmp 10 ⟨-5, 40⟩ ⟨0, 0⟩ = .lt ∧ specFCmp 10 ⟨0, 0⟩ ⟨0, 1⟩ = .lt ∧
    specFCmp 10 ⟨0, 1⟩ ⟨0, 1⟩ = .eq := by
  refine ⟨fun _ => Or.inr rfl, fun _ => Or.inl rfl, fun h => by simp [FRepr.isInfinite] at h, by decide, by decide, by decide, by decide⟩

/-- **the comparison the code runs decides the order of the values** (finite operands of any precisions `pa`, `pb`, any
    sound digit estimator; `FitsPrec` is what every modelled producer guarantees — `float_history`) -/
theorem float_cmp_is_value_order (B : Nat) (hB : 2 ≤ B) (digitsUb : Int → Nat) (hub : ∀ s : Int, s.natAbs < B ^ digitsUb s)
    (a b : FRepr) (pa pb : Nat) (ha : a.isInfinite = false) (hb : b.isInfinite = false)
    (fa : FitsPrec B a pa) (fb : FitsPrec B b pb) :
    (reprCmpSameBase B digitsUb a b (some (pa, pb)) = .lt ↔ a.val B < b.val B) ∧
    (reprCmpSameBase B digitsUb a b (some (pa, pb)) = .eq ↔ a.val B = b.val B) ∧
    (reprCmpSameBase B digitsUb a b (some (pa, pb)) = .gt ↔ b.val B < a.val B) := by
  rw [float_cmp B hB digitsUb hub a b (some (pa, pb)) (by intro lp rp h; cases h; exact ⟨fa, fb⟩)]
  exact specFCmp_value B hB a b ha hb

/-- **`cmp` is the total order of the values, infinities included**: the comparison the code runs decides the order of the
    extended values (`-inf = ⊥ <` finite values in ℚ `< ⊤ = +inf`) for ALL floats — finite of any precisions under the digit
    invariant, or infinite -/
theorem float_cmp_is_extended_value_order (B : Nat) (hB : 2 ≤ B) (digitsUb : Int → Nat) (hub : ∀ s : Int, s.natAbs < B ^ digitsUb s)
    (a b : FRepr) (pa pb : Nat) (ca : a.InfCanon) (cb : b.InfCanon) (fa : FitsPrec B a pa) (fb : FitsPrec B b pb) :
    (reprCmpSameBase B digitsUb a b (some (pa, pb)) = .lt ↔ a.xval B < b.xval B) ∧
    (reprCmpSameBase B digitsUb a b (some (pa, pb)) = .eq ↔ a.xval B = b.xval B) ∧
    (reprCmpSameBase B digitsUb a b (some (pa, pb)) = .gt ↔ b.xval B < a.xval B) := by
  rw [float_cmp B hB digitsUb hub a b (some (pa, pb)) (by intro lp rp h; cases h; exact ⟨fa, fb⟩)]
  exact specFCmp_xval B hB a b ca cb

/-- **transitivity** of the code's comparison on the invariant's domain (three finite floats of any three precisions) -/
theorem float_cmp_trans (B : Nat) (hB : 2 ≤ B) (digitsUb : Int → Nat) (hub : ∀ s : Int, s.natAbs < B ^ digitsUb s)
    (a b c : FRepr) (pa pb pc : Nat) (ha : a.isInfinite = false) (hb : b.isInfinite = false) (hc : c.isInfinite = false)
    (fa : FitsPrec B a pa) (fb : FitsPrec B b pb) (fc : FitsPrec B c pc)
    (h1 : reprCmpSameBase B digitsUb a b (some (pa, pb)) ≠ .gt) (h2 : reprCmpSameBase B digitsUb b c (some (pb, pc)) ≠ .gt) :
    reprCmpSameBase B digitsUb a c (some (pa, pc)) ≠ .gt := by
  have ab := (float_cmp_is_value_order B hB digitsUb hub a b pa pb ha hb fa fb).2.2
  have bc := (float_cmp_is_value_order B hB digitsUb hub b c pb pc hb hc fb fc).2.2
  have ac := (float_cmp_is_value_order B hB digitsUb hub a c pa pc ha hc fa fc).2.2
  rw [Ne, ab, not_lt] at h1
  rw [Ne, bc, not_lt] at h2
  rw [Ne, ac, not_lt]
  exact le_trans h1 h2

/-- **antisymmetry / swap**: comparing in the other order gives the swapped answer -/
theorem float_cmp_swap (B : Nat) (hB : 2 ≤ B) (digitsUb : Int → Nat) (hub : ∀ s : Int, s.natAbs < B ^ digitsUb s)
    (a b : FRepr) (pa pb : Nat) (ha : a.isInfinite = false) (hb : b.isInfinite = false)
    (fa : FitsPrec B a pa) (fb : FitsPrec B b pb) :
    reprCmpSameBase B digitsUb b a (some (pb, pa)) = (reprCmpSameBase B digitsUb a b (some (pa, pb))).swap := by
  obtain ⟨l1, e1, g1⟩ := float_cmp_is_value_order B hB digitsUb hub a b pa pb ha hb fa fb
  obtain ⟨l2, e2, g2⟩ := float_cmp_is_value_order B hB digitsUb hub b a pb pa hb ha fb fa
  rcases lt_trichotomy (a.val B) (b.val B) with h | h | h
  · rw [l1.mpr h, g2.mpr h]; rfl
  · rw [e1.mpr h, e2.mpr h.symm]; rfl
  · rw [g1.mpr h, l2.mpr h]; rfl

/-- **C05 for float histories, in terms of the values**: for any two registers ever produced by a finite program of float
    producers (`float_history`: constructors, `TryFrom<f32/f64>`, `with_precision`, the `Context` arithmetic, …) with precisions
    `≤ isize::MAX`, the comparison the code runs says `Less / Equal / Greater` exactly when the rational values
    `signif · B^exp` are so ordered, and `==` holds exactly when the values are equal. -/
theorem float_history_value_order (k : FCfg) (hB : 2 ≤ k.B) (hdub : Float.DubSound k.B k.dub) (hdlb : Float.DlbSound k.B k.dlb)
    (ops : List FOp) (hok : ∀ op ∈ ops, op.Ok) (env : List FReg) (henv : ∀ x ∈ env, FGood k.B x)
    (digitsUb : Int → Nat) (hub : ∀ s : Int, s.natAbs < k.B ^ digitsUb s)
    (a b : FReg) (ha : a ∈ frun k ops env) (hb : b ∈ frun k ops env)
    (hpa : a.p ≤ cmpIsizeMax) (hpb : b.p ≤ cmpIsizeMax) :
    let c := reprCmpSameBase k.B digitsUb (ofFloatRepr a.r) (ofFloatRepr b.r) (some (a.p, b.p))
    (c = .lt ↔ (ofFloatRepr a.r).val k.B < (ofFloatRepr b.r).val k.B) ∧
    (c = .eq ↔ (ofFloatRepr a.r).val k.B = (ofFloatRepr b.r).val k.B) ∧
    (c = .gt ↔ (ofFloatRepr b.r).val k.B < (ofFloatRepr a.r).val k.B) ∧
    (fbigEq (ofFloatRepr a.r) (ofFloatRepr b.r) = true ↔ (ofFloatRepr a.r).val k.B = (ofFloatRepr b.r).val k.B) := by
  obtain ⟨_, fa, _⟩ := float_history k hB hdub hdlb ops hok env henv a ha
  obtain ⟨_, fb, _⟩ := float_history k hB hdub hdlb ops hok env henv b hb
  obtain ⟨h1, h2, _⟩ := float_history_cmp_small k hB hdub hdlb ops hok env henv digitsUb hub a b ha hb hpa hpb
  have ia : (ofFloatRepr a.r).isInfinite = false := by
    simp only [FRepr.isInfinite, ofFloatRepr, Bool.and_eq_false_iff, bne_eq_false_iff_eq, beq_eq_false_iff_ne]
    by_cases h : a.r.signif = 0
    · exact Or.inr (fa h)
    · exact Or.inl h
  have ib : (ofFloatRepr b.r).isInfinite = false := by
    simp only [FRepr.isInfinite, ofFloatRepr, Bool.and_eq_false_iff, bne_eq_false_iff_eq, beq_eq_false_iff_ne]
    by_cases h : b.r.signif = 0
    · exact Or.inr (fb h)
    · exact Or.inl h
  obtain ⟨v1, v2, v3⟩ := specFCmp_value k.B hB _ _ ia ib
  intro c
  have hc : c = specFCmp k.B (ofFloatRepr a.r) (ofFloatRepr b.r) := h1
  refine ⟨by rw [hc]; exact v1, by rw [hc]; exact v2, by rw [hc]; exact v3, ?_⟩
  rw [← h2, ← v2, ← hc]

-- non-vacuity: 1229·10^0 (precision 3, the spare digit) < 1·10^4 (precision 1) < 123·10^2 (precision 3) as values and for the code
example : FitsPrec 10 ⟨1229, 0⟩ 3 ∧ FitsPrec 10 ⟨1, 4⟩ 1 ∧ FitsPrec 10 ⟨123, 2⟩ 3 ∧
    reprCmpSameBase 10 (fun _ => 4) ⟨1229, 0⟩ ⟨1, 4⟩ (some (3, 1)) = .lt ∧
    reprCmpSameBase 10 (fun _ => 4) ⟨1, 4⟩ ⟨123, 2⟩ (some (1, 3)) = .lt ∧
    reprCmpSameBase 10 (fun _ => 4) ⟨1229, 0⟩ ⟨123, 2⟩ (some (3, 3)) = .lt := by
  refine ⟨fun _ => by decide, fun _ => by decide, fun _ => by decide, by decide, by decide, by decide⟩


-- ------------------------------------------------------------------ round 7: histories at ANY precision, order laws
/- `float_history_value_order` carried `a.p ≤ isize::MAX`, `b.p ≤ isize::MAX`.  The hypothesis is weakened to what the repaired
   comparison (/repo ee43486: precisions clamped to isize::MAX) really needs — at most 2^63 digits (`FitsP1 B cmpIsizeMax`), ANY
   precision (also ≥ 2^63, e.g. `with_precision(usize::MAX)`) — and the order laws are stated for the registers of a history. -/

private theorem hist_fin (a : FReg) (fa : FFin a.r) : (ofFloatRepr a.r).isInfinite = false := by
  simp only [FRepr.isInfinite, ofFloatRepr, Bool.and_eq_false_iff, bne_eq_false_iff_eq, beq_eq_false_iff_ne]
  by_cases h : a.r.signif = 0
  · exact Or.inr (fa h)
  · exact Or.inl h

/-- **C05 for float histories, in terms of the values, ANY precisions**: for any two registers ever produced by a finite
    program of float producers, of whatever precisions (also `≥ 2^63`), whose significands have at most `2^63` digits (every
    significand a 64-bit address space can hold), the comparison the code runs says `Less / Equal / Greater` exactly when the
    rational values `signif · B^exp` are so ordered, and `==` holds exactly when the values are equal.
    (`float_history_value_order` is the special case `a.p, b.p ≤ isize::MAX`, where the digit bound is free.) -/
theorem float_history_value_order_any_precision (k : FCfg) (hB : 2 ≤ k.B) (hdub : Float.DubSound k.B k.dub)
    (hdlb : Float.DlbSound k.B k.dlb)
    (ops : List FOp) (hok : ∀ op ∈ ops, op.Ok) (env : List FReg) (henv : ∀ x ∈ env, FGood k.B x)
    (digitsUb : Int → Nat) (hub : ∀ s : Int, s.natAbs < k.B ^ digitsUb s)
    (a b : FReg) (ha : a ∈ frun k ops env) (hb : b ∈ frun k ops env)
    (hma : FitsP1 k.B cmpIsizeMax a.r) (hmb : FitsP1 k.B cmpIsizeMax b.r) :
    let c := reprCmpSameBase k.B digitsUb (ofFloatRepr a.r) (ofFloatRepr b.r) (some (a.p, b.p))
    (c = .lt ↔ (ofFloatRepr a.r).val k.B < (ofFloatRepr b.r).val k.B) ∧
    (c = .eq ↔ (ofFloatRepr a.r).val k.B = (ofFloatRepr b.r).val k.B) ∧
    (c = .gt ↔ (ofFloatRepr b.r).val k.B < (ofFloatRepr a.r).val k.B) ∧
    (fbigEq (ofFloatRepr a.r) (ofFloatRepr b.r) = true ↔ (ofFloatRepr a.r).val k.B = (ofFloatRepr b.r).val k.B) := by
  obtain ⟨_, fa, _⟩ := float_history k hB hdub hdlb ops hok env henv a ha
  obtain ⟨_, fb, _⟩ := float_history k hB hdub hdlb ops hok env henv b hb
  obtain ⟨h1, h2, _⟩ := float_history_cmp k hB hdub hdlb ops hok env henv digitsUb hub a b ha hb hma hmb
  obtain ⟨v1, v2, v3⟩ := specFCmp_value k.B hB _ _ (hist_fin a fa) (hist_fin b fb)
  intro c
  have hc : c = specFCmp k.B (ofFloatRepr a.r) (ofFloatRepr b.r) := h1
  refine ⟨by rw [hc]; exact v1, by rw [hc]; exact v2, by rw [hc]; exact v3, ?_⟩
  rw [← h2, ← v2, ← hc]

/-- **`cmp` is a total order on the registers of a float history**: transitive (`a ≤ b`, `b ≤ c` ⇒ `a ≤ c`, the three
    comparisons each run with the precisions of their own operands) and swap-symmetric (`b.cmp(a) = a.cmp(b).reverse()`),
    for any three registers of any precisions with at most `2^63` digits. -/
theorem float_history_cmp_total_order (k : FCfg) (hB : 2 ≤ k.B) (hdub : Float.DubSound k.B k.dub)
    (hdlb : Float.DlbSound k.B k.dlb)
    (ops : List FOp) (hok : ∀ op ∈ ops, op.Ok) (env : List FReg) (henv : ∀ x ∈ env, FGood k.B x)
    (digitsUb : Int → Nat) (hub : ∀ s : Int, s.natAbs < k.B ^ digitsUb s)
    (a b c : FReg) (ha : a ∈ frun k ops env) (hb : b ∈ frun k ops env) (hc : c ∈ frun k ops env)
    (hma : FitsP1 k.B cmpIsizeMax a.r) (hmb : FitsP1 k.B cmpIsizeMax b.r) (hmc : FitsP1 k.B cmpIsizeMax c.r) :
    (reprCmpSameBase k.B digitsUb (ofFloatRepr a.r) (ofFloatRepr b.r) (some (a.p, b.p)) ≠ .gt →
      reprCmpSameBase k.B digitsUb (ofFloatRepr b.r) (ofFloatRepr c.r) (some (b.p, c.p)) ≠ .gt →
      reprCmpSameBase k.B digitsUb (ofFloatRepr a.r) (ofFloatRepr c.r) (some (a.p, c.p)) ≠ .gt) ∧
    reprCmpSameBase k.B digitsUb (ofFloatRepr b.r) (ofFloatRepr a.r) (some (b.p, a.p))
      = (reprCmpSameBase k.B digitsUb (ofFloatRepr a.r) (ofFloatRepr b.r) (some (a.p, b.p))).swap := by
  have ab := float_history_value_order_any_precision k hB hdub hdlb ops hok env henv digitsUb hub a b ha hb hma hmb
  have ba := float_history_value_order_any_precision k hB hdub hdlb ops hok env henv digitsUb hub b a hb ha hmb hma
  have bc := float_history_value_order_any_precision k hB hdub hdlb ops hok env henv digitsUb hub b c hb hc hmb hmc
  have ac := float_history_value_order_any_precision k hB hdub hdlb ops hok env henv digitsUb hub a c ha hc hma hmc
  simp only at ab ba bc ac
  refine ⟨fun h1 h2 => ?_, ?_⟩
  · rw [Ne, ab.2.2.1, not_lt] at h1
    rw [Ne, bc.2.2.1, not_lt] at h2
    rw [Ne, ac.2.2.1, not_lt]
    exact le_trans h1 h2
  · obtain ⟨l1, e1, g1, _⟩ := ab
    obtain ⟨l2, e2, g2, _⟩ := ba
    rcases lt_trichotomy ((ofFloatRepr a.r).val k.B) ((ofFloatRepr b.r).val k.B) with h | h | h
    · rw [l1.mpr h, g2.mpr h]; rfl
    · rw [e1.mpr h, e2.mpr h.symm]; rfl
    · rw [g1.mpr h, l2.mpr h]; rfl

-- non-vacuity: a history with a register of precision usize::MAX = 2^64 − 1 (ABOVE the clamp: `float_history_value_order`
-- does not apply): 123·10^1 at precision 3, the same value `with_precision(usize::MAX)`, 1·10^4 at precision 1 — all three
-- have ≤ 2^63 digits, and the code's comparison orders them reg0 = reg1 < reg2
example :
    let k : FCfg := ⟨10, .halfEven, Float.coarseNone, fun s => Float.digitsI 10 s, fun s => Float.digitsI 10 s, Float.natSqrtRem⟩
    let prog : List FOp := [.fromParts 123 1, .withPrecision 0 (2 ^ 64 - 1), .fromParts 1 4]
    (∀ op ∈ prog, op.Ok) ∧
    (frun k prog []).map (fun x => (x.r.signif, x.r.exp, x.p)) = [(123, 1, 3), (123, 1, 2 ^ 64 - 1), (1, 4, 1)] ∧
    (∀ x ∈ frun k prog [], cmpIsizeMax < 2 ^ 64 - 1 ∧ x.r.digits 10 ≤ cmpIsizeMax + 1) ∧
    reprCmpSameBase 10 (fun s => Float.digitsI 10 s) ⟨123, 1⟩ ⟨123, 1⟩ (some (3, 2 ^ 64 - 1)) = .eq ∧
    reprCmpSameBase 10 (fun s => Float.digitsI 10 s) ⟨123, 1⟩ ⟨1, 4⟩ (some (2 ^ 64 - 1, 1)) = .lt := by
  refine ⟨?_, by decide +kernel, by decide +kernel, by decide +kernel, by decide +kernel⟩
  intro op hop
  simp only [List.mem_cons, List.mem_nil_iff, or_false] at hop
  rcases hop with rfl | rfl | rfl <;> simp [FOp.Ok]

end Dashu.Props.C05
