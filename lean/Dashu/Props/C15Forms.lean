import Dashu.Gen.FormsGlue
/-
  C15 — Tie A over the ownership-form bodies of dashu-ratio, dashu-float and dashu-int.

  `Dashu/Gen/FormsGlue.lean` is REGENERATED on every run from `rational/src/helper_macros.rs`,
  `float/src/helper_macros.rs`, `integer/src/helper_macros.rs`, from the impl-generating macros of
  `float/src/div.rs`, `{integer,rational}/src/iter.rs`, and from the hand-written operator impls of
  `float/src/{add,mul,div,shift,iter}.rs`, `rational/src/div.rs`: ONE definition per `impl`, i.e. per call
  form, over an abstract value domain `V` in which every callee of the body is an uninterpreted parameter
  (references, `.clone()`, `core::mem::take` erased; `&mut self` = state passing; `assert_*` guards returned
  beside the result).

  The theorems below hold for EVERY interpretation of the callees: all forms stamped out by one macro rule
  (or written by hand for one operator) evaluate the SAME core call on the SAME operand values — hence return
  the same value or raise the same panic.  What the statement does not cover is named in each hypothesis:
  `hparts` (by-value `into_parts` = the pair of the by-reference accessors — proved below for the regenerated
  accessors of RBig and Relaxed), `hrepr` / `hsign` (dashu-int: the owned and the borrowed view of a number
  denote the same magnitude; the kernels specialised by ownership are the subject of C01/C02 and of the
  executed call-form table).  Core Lean only, no Mathlib.
-/
namespace Dashu.Props.C15Forms
open Dashu.Gen

variable {V O M : Type}

-- ---------------------------------------------------------------------------------------------- dashu-ratio

/-- the regenerated accessors of `RBig`: `into_parts` is the pair (`numerator`, `denominator`), for every
    interpretation of the field projections -/
theorem rbig_parts (fn f0 fd : V → V) (x : V) :
    q_RBig_into_parts fn f0 fd x = (q_RBig_numerator fn f0 x, q_RBig_denominator fd f0 x) := rfl

theorem relaxed_parts (fn f0 fd : V → V) (x : V) :
    q_Relaxed_into_parts fn f0 fd x = (q_Relaxed_numerator fn f0 x, q_Relaxed_denominator fd f0 x) := rfl

/-- `impl_binop_with_macro!` (Add Sub Mul Div Rem DivEuclid RemEuclid of RBig and of Relaxed): the four ownership
    forms call the core macro on the same eight operand parts -/
theorem q_binop_with_macro_forms (into_parts : V → V × V) (num den : V → V) (tok : M)
    (core : V → V → V → V → V → V → V → V → M → O) (hparts : ∀ x, into_parts x = (num x, den x)) (a b : V) :
    q_impl_binop_with_macro_r4_val_val into_parts tok core a b
      = core (num a) (den a) (num b) (den b) (num a) (den a) (num b) (den b) tok ∧
    q_impl_binop_with_macro_r4_val_ref into_parts num den tok core a b
      = core (num a) (den a) (num b) (den b) (num a) (den a) (num b) (den b) tok ∧
    q_impl_binop_with_macro_r4_ref_val num den into_parts tok core a b
      = core (num a) (den a) (num b) (den b) (num a) (den a) (num b) (den b) tok ∧
    q_impl_binop_with_macro_r4_ref_ref num den tok core a b
      = core (num a) (den a) (num b) (den b) (num a) (den a) (num b) (den b) tok := by
  refine ⟨?_, ?_, ?_, ?_⟩ <;>
    simp only [q_impl_binop_with_macro_r4_val_val, q_impl_binop_with_macro_r4_val_ref,
      q_impl_binop_with_macro_r4_ref_val, q_impl_binop_with_macro_r4_ref_ref, hparts]

/-- the two-output rule of `impl_binop_with_macro!` (DivRemEuclid) -/
theorem q_binop2_with_macro_forms (into_parts : V → V × V) (num den : V → V) (tok : M)
    (core : V → V → V → V → V → V → V → V → M → O) (hparts : ∀ x, into_parts x = (num x, den x)) (a b : V) :
    q_impl_binop_with_macro_r5_val_val into_parts tok core a b
      = core (num a) (den a) (num b) (den b) (num a) (den a) (num b) (den b) tok ∧
    q_impl_binop_with_macro_r5_val_ref into_parts num den tok core a b
      = core (num a) (den a) (num b) (den b) (num a) (den a) (num b) (den b) tok ∧
    q_impl_binop_with_macro_r5_ref_val num den into_parts tok core a b
      = core (num a) (den a) (num b) (den b) (num a) (den a) (num b) (den b) tok ∧
    q_impl_binop_with_macro_r5_ref_ref num den tok core a b
      = core (num a) (den a) (num b) (den b) (num a) (den a) (num b) (den b) tok := by
  refine ⟨?_, ?_, ?_, ?_⟩ <;>
    simp only [q_impl_binop_with_macro_r5_val_val, q_impl_binop_with_macro_r5_val_ref,
      q_impl_binop_with_macro_r5_ref_val, q_impl_binop_with_macro_r5_ref_ref, hparts]

/-- `impl_binop_with_int!`, rational on the left (`RBig op UBig/IBig`): `i` is the integer operand -/
theorem q_binop_with_int_forms (into_parts : V → V × V) (num den : V → V) (tok : M)
    (core : V → V → V → V → V → V → M → O) (hparts : ∀ x, into_parts x = (num x, den x)) (a i : V) :
    q_impl_binop_with_int_r2_val_val into_parts tok core a i = core (num a) (den a) i (num a) (den a) i tok ∧
    q_impl_binop_with_int_r2_val_ref into_parts tok core a i = core (num a) (den a) i (num a) (den a) i tok ∧
    q_impl_binop_with_int_r2_ref_val num den tok core a i = core (num a) (den a) i (num a) (den a) i tok ∧
    q_impl_binop_with_int_r2_ref_ref num den tok core a i = core (num a) (den a) i (num a) (den a) i tok := by
  refine ⟨?_, ?_, ?_, ?_⟩ <;>
    simp only [q_impl_binop_with_int_r2_val_val, q_impl_binop_with_int_r2_val_ref,
      q_impl_binop_with_int_r2_ref_val, q_impl_binop_with_int_r2_ref_ref, hparts]

/-- `impl_binop_with_int!`, integer on the left (`UBig/IBig op RBig`) -/
theorem q_int_binop_forms (into_parts : V → V × V) (num den : V → V) (tok : M)
    (core : V → V → V → V → V → V → M → O) (hparts : ∀ x, into_parts x = (num x, den x)) (i a : V) :
    q_impl_binop_with_int_r4_val_val into_parts tok core i a = core (num a) (den a) i (num a) (den a) i tok ∧
    q_impl_binop_with_int_r4_val_ref num den tok core i a = core (num a) (den a) i (num a) (den a) i tok ∧
    q_impl_binop_with_int_r4_ref_val into_parts tok core i a = core (num a) (den a) i (num a) (den a) i tok ∧
    q_impl_binop_with_int_r4_ref_ref num den tok core i a = core (num a) (den a) i (num a) (den a) i tok := by
  refine ⟨?_, ?_, ?_, ?_⟩ <;>
    simp only [q_impl_binop_with_int_r4_val_val, q_impl_binop_with_int_r4_val_ref,
      q_impl_binop_with_int_r4_ref_val, q_impl_binop_with_int_r4_ref_ref, hparts]

/-- `impl_binop_assign_by_taking!` (`+= -= *= /= %=` of RBig / Relaxed, by value and by reference): the new value of
    `self` is the operator form applied to the old one -/
theorem q_assign_forms (op : V → V → V) (a b : V) :
    q_impl_binop_assign_by_taking_mut_val op a b = op a b ∧ q_impl_binop_assign_by_taking_mut_ref op a b = op a b :=
  ⟨rfl, rfl⟩

/-- `Inverse for RBig / &RBig / Relaxed / &Relaxed` -/
theorem q_inverse_forms (f0 inv mk : V → V) (a : V) :
    q_Inverse_RBig_val_val f0 inv mk a = q_Inverse_RBig_ref_val f0 inv mk a ∧
    q_Inverse_Relaxed_val_val f0 inv mk a = q_Inverse_Relaxed_ref_val f0 inv mk a := ⟨rfl, rfl⟩

-- ---------------------------------------------------------------------------------------------- dashu-float

/-- `impl_binop_with_primitive_one_way!` (`FBig op T`, T a primitive integer / UBig / IBig): the four forms are
    `op self (FBig::from rhs)` -/
theorem f_with_primitive_forms (conv : V → V) (op : V → V → V) (a t : V) :
    f_impl_binop_with_primitive_one_way_val_val conv op a t = op a (conv t) ∧
    f_impl_binop_with_primitive_one_way_ref_val conv op a t = op a (conv t) ∧
    f_impl_binop_with_primitive_one_way_val_ref conv op a t = op a (conv t) ∧
    f_impl_binop_with_primitive_one_way_ref_ref conv op a t = op a (conv t) := ⟨rfl, rfl, rfl, rfl⟩

/-- `impl_binop_with_primitive!` (`T op FBig`): the four forms are `op (FBig::from self) rhs` -/
theorem f_primitive_with_forms (conv : V → V) (op : V → V → V) (t a : V) :
    f_impl_binop_with_primitive_val_val conv op t a = op (conv t) a ∧
    f_impl_binop_with_primitive_ref_val conv op t a = op (conv t) a ∧
    f_impl_binop_with_primitive_val_ref conv op t a = op (conv t) a ∧
    f_impl_binop_with_primitive_ref_ref conv op t a = op (conv t) a := ⟨rfl, rfl, rfl, rfl⟩

/-- `impl_binop_assign_with_primitive!` and `impl_binop_assign_by_taking!` of dashu-float -/
theorem f_assign_forms (conv : V → V) (op : V → V → V) (a t b : V) :
    f_impl_binop_assign_with_primitive_mut_val conv op a t = op a (conv t) ∧
    f_impl_binop_assign_with_primitive_mut_ref conv op a t = op a (conv t) ∧
    f_impl_binop_assign_by_taking_mut_val op a b = op a b ∧
    f_impl_binop_assign_by_taking_mut_ref op a b = op a b := ⟨rfl, rfl, rfl, rfl⟩

/-- the four hand-written `Mul` impls of float/src/mul.rs are ONE term: same guard on the same operands, same
    `Context::max`, same product and exponent sum, same rounding -/
theorem f_mul_forms (repr : V → V) (guard : V → V → V) (ctx : V → V) (cmax mul : V → V → V) (signif : V → V)
    (add : V → V → V) (expo : V → V) (new round : V → V → V) (value : V → V) (a b : V) :
    f_Mul_val_val repr guard ctx cmax mul signif add expo new round value a b
      = f_Mul_ref_ref repr guard ctx cmax mul signif add expo new round value a b ∧
    f_Mul_val_ref repr guard ctx cmax mul signif add expo new round value a b
      = f_Mul_ref_ref repr guard ctx cmax mul signif add expo new round value a b ∧
    f_Mul_ref_val repr guard ctx cmax mul signif add expo new round value a b
      = f_Mul_ref_ref repr guard ctx cmax mul signif add expo new round value a b := ⟨rfl, rfl, rfl⟩

/-- `impl_div_or_rem_for_fbig!` of float/src/div.rs (`/` and `%`): the four forms are
    `FBig::new(Context::max(..).repr_div/rem(lhs.repr, rhs.repr).value(), context)` -/
theorem f_div_rem_forms (ctx : V → V) (cmax : V → V → V) (repr : V → V) (kernel : V → V → V → V) (value : V → V)
    (new : V → V → V) (a b : V) :
    f_impl_div_or_rem_for_fbig_val_val ctx cmax repr kernel value new a b
      = new (value (kernel (cmax (ctx a) (ctx b)) (repr a) (repr b))) (cmax (ctx a) (ctx b)) ∧
    f_impl_div_or_rem_for_fbig_ref_val ctx cmax repr kernel value new a b
      = new (value (kernel (cmax (ctx a) (ctx b)) (repr a) (repr b))) (cmax (ctx a) (ctx b)) ∧
    f_impl_div_or_rem_for_fbig_val_ref ctx cmax repr kernel value new a b
      = new (value (kernel (cmax (ctx a) (ctx b)) (repr a) (repr b))) (cmax (ctx a) (ctx b)) ∧
    f_impl_div_or_rem_for_fbig_ref_ref ctx cmax repr kernel value new a b
      = new (value (kernel (cmax (ctx a) (ctx b)) (repr a) (repr b))) (cmax (ctx a) (ctx b)) := ⟨rfl, rfl, rfl, rfl⟩

/-- `DivEuclid`: the three reference forms delegate to the by-value form (`self.clone().div_euclid(rhs.clone())`) -/
theorem f_div_euclid_forms (align : V → V → V × V) (idiv : V → V → V) (a b : V) :
    f_DivEuclid_ref_val (f_DivEuclid_val_val align idiv) a b = f_DivEuclid_val_val align idiv a b ∧
    f_DivEuclid_val_ref (f_DivEuclid_val_val align idiv) a b = f_DivEuclid_val_val align idiv a b ∧
    f_DivEuclid_ref_ref (f_DivEuclid_val_val align idiv) a b = f_DivEuclid_val_val align idiv a b := ⟨rfl, rfl, rfl⟩

/-- `RemEuclid` / `DivRemEuclid`: the reference forms delegate to the by-value form, whatever it computes -/
theorem f_rem_euclid_forms (byValue : V → V → V) (a b : V) :
    f_RemEuclid_ref_val byValue a b = byValue a b ∧ f_RemEuclid_val_ref byValue a b = byValue a b ∧
    f_RemEuclid_ref_ref byValue a b = byValue a b ∧
    f_DivRemEuclid_ref_val byValue a b = byValue a b ∧ f_DivRemEuclid_val_ref byValue a b = byValue a b ∧
    f_DivRemEuclid_ref_ref byValue a b = byValue a b := ⟨rfl, rfl, rfl, rfl, rfl, rfl⟩

/-- `Inverse for FBig / &FBig` -/
theorem f_inverse_forms (ctx repr : V → V) (inv : V → V → V) (value : V → V) (a : V) :
    f_Inverse_val_val ctx repr inv value a = f_Inverse_ref_val ctx repr inv value a := rfl

/-- the hand-written shift forms of float/src/shift.rs: `x <<= n` leaves in `x` exactly what `x << n` returns (same
    guard, same zero test, ONE exponent update), and likewise `>>=` / `>>`.  (The earlier defect — `>>=` shifting
    twice and turning zero into an infinity — makes the two regenerated terms differ; this theorem then fails.) -/
theorem f_shift_forms (repr guard neg isz : V → V) (add sub : V → V → V) (expo : V → V) (upd : V → V → V)
    (ite : V → V → V → V) (a n : V) :
    f_ShlAssign_mut_val repr guard neg isz add expo upd ite a n = f_Shl_val_val repr guard neg isz add expo upd ite a n ∧
    f_ShrAssign_mut_val repr guard neg isz sub expo upd ite a n = f_Shr_val_val repr guard neg isz sub expo upd ite a n :=
  ⟨rfl, rfl⟩

/-- the eight `Add`/`Sub` impls of float/src/add.rs hand their operands unchanged, with the sign constant of the
    operator, to the four `add_*` functions (whose agreement is `GenFloatForms.add_val_ref_eq_add_ref_ref` for the
    reference-taking pair and the executed table for the consuming pair) -/
theorem f_add_sub_wrappers (pos negc : V) (k : V → V → V → V) (a b : V) :
    f_Add_val_val pos k a b = k a b pos ∧ f_Add_val_ref pos k a b = k a b pos ∧
    f_Add_ref_val pos k a b = k a b pos ∧ f_Add_ref_ref pos k a b = k a b pos ∧
    f_Sub_val_val negc k a b = k a b negc ∧ f_Sub_val_ref negc k a b = k a b negc ∧
    f_Sub_ref_val negc k a b = k a b negc ∧ f_Sub_ref_ref negc k a b = k a b negc :=
  ⟨rfl, rfl, rfl, rfl, rfl, rfl, rfl, rfl⟩

-- ---------------------------------------------------------------------------------------------- dashu-int

/-- `forward_ubig_binop_to_repr!` (UBig op UBig), both rules: same kernel call on the two magnitudes -/
theorem i_ubig_forms (into_repr repr : V → V) (k : V → V → V) (mk : V → V) (core : V → V → O)
    (hrepr : ∀ x, into_repr x = repr x) (a b : V) :
    i_forward_ubig_binop_to_repr_r2_val_val into_repr k mk a b = mk (k (repr a) (repr b)) ∧
    i_forward_ubig_binop_to_repr_r2_val_ref into_repr repr k mk a b = mk (k (repr a) (repr b)) ∧
    i_forward_ubig_binop_to_repr_r2_ref_val repr into_repr k mk a b = mk (k (repr a) (repr b)) ∧
    i_forward_ubig_binop_to_repr_r2_ref_ref repr k mk a b = mk (k (repr a) (repr b)) ∧
    i_forward_ubig_binop_to_repr_r3_val_val into_repr core a b = core (repr a) (repr b) ∧
    i_forward_ubig_binop_to_repr_r3_val_ref into_repr repr core a b = core (repr a) (repr b) ∧
    i_forward_ubig_binop_to_repr_r3_ref_val repr into_repr core a b = core (repr a) (repr b) ∧
    i_forward_ubig_binop_to_repr_r3_ref_ref repr core a b = core (repr a) (repr b) := by
  refine ⟨?_, ?_, ?_, ?_, ?_, ?_, ?_, ?_⟩ <;>
    simp only [i_forward_ubig_binop_to_repr_r2_val_val, i_forward_ubig_binop_to_repr_r2_val_ref,
      i_forward_ubig_binop_to_repr_r2_ref_val, i_forward_ubig_binop_to_repr_r2_ref_ref,
      i_forward_ubig_binop_to_repr_r3_val_val, i_forward_ubig_binop_to_repr_r3_val_ref,
      i_forward_ubig_binop_to_repr_r3_ref_val, i_forward_ubig_binop_to_repr_r3_ref_ref, hrepr]

/-- `forward_ibig_binop_to_repr!` (IBig op IBig), both rules: the sign table `core` (regenerated in Gen/Glue.lean, proved
    in Props/GenInt.lean) receives the same (sign, magnitude) pairs in every form -/
theorem i_ibig_forms (into_sr as_sr : V → V × V) (core : V → V → V → V → O) (hsign : ∀ x, into_sr x = as_sr x) (a b : V) :
    i_forward_ibig_binop_to_repr_r1_val_val into_sr core a b = core (as_sr a).1 (as_sr a).2 (as_sr b).1 (as_sr b).2 ∧
    i_forward_ibig_binop_to_repr_r1_val_ref into_sr as_sr core a b = core (as_sr a).1 (as_sr a).2 (as_sr b).1 (as_sr b).2 ∧
    i_forward_ibig_binop_to_repr_r1_ref_val as_sr into_sr core a b = core (as_sr a).1 (as_sr a).2 (as_sr b).1 (as_sr b).2 ∧
    i_forward_ibig_binop_to_repr_r1_ref_ref as_sr core a b = core (as_sr a).1 (as_sr a).2 (as_sr b).1 (as_sr b).2 ∧
    i_forward_ibig_binop_to_repr_r2_val_val into_sr core a b = core (as_sr a).1 (as_sr a).2 (as_sr b).1 (as_sr b).2 ∧
    i_forward_ibig_binop_to_repr_r2_val_ref into_sr as_sr core a b = core (as_sr a).1 (as_sr a).2 (as_sr b).1 (as_sr b).2 ∧
    i_forward_ibig_binop_to_repr_r2_ref_val as_sr into_sr core a b = core (as_sr a).1 (as_sr a).2 (as_sr b).1 (as_sr b).2 ∧
    i_forward_ibig_binop_to_repr_r2_ref_ref as_sr core a b = core (as_sr a).1 (as_sr a).2 (as_sr b).1 (as_sr b).2 := by
  refine ⟨?_, ?_, ?_, ?_, ?_, ?_, ?_, ?_⟩ <;>
    simp only [i_forward_ibig_binop_to_repr_r1_val_val, i_forward_ibig_binop_to_repr_r1_val_ref,
      i_forward_ibig_binop_to_repr_r1_ref_val, i_forward_ibig_binop_to_repr_r1_ref_ref,
      i_forward_ibig_binop_to_repr_r2_val_val, i_forward_ibig_binop_to_repr_r2_val_ref,
      i_forward_ibig_binop_to_repr_r2_ref_val, i_forward_ibig_binop_to_repr_r2_ref_ref, hsign]

/-- the mixed forms `UBig op IBig` and `IBig op UBig`: the unsigned side enters with the constant `Positive` -/
theorem i_mixed_forms (pos : V) (into_repr repr : V → V) (into_sr as_sr : V → V × V) (core : V → V → V → V → O)
    (hrepr : ∀ x, into_repr x = repr x) (hsign : ∀ x, into_sr x = as_sr x) (u i : V) :
    i_forward_ubig_ibig_binop_to_repr_r1_val_val pos into_repr into_sr core u i = core pos (repr u) (as_sr i).1 (as_sr i).2 ∧
    i_forward_ubig_ibig_binop_to_repr_r1_val_ref pos into_repr as_sr core u i = core pos (repr u) (as_sr i).1 (as_sr i).2 ∧
    i_forward_ubig_ibig_binop_to_repr_r1_ref_val pos repr into_sr core u i = core pos (repr u) (as_sr i).1 (as_sr i).2 ∧
    i_forward_ubig_ibig_binop_to_repr_r1_ref_ref pos repr as_sr core u i = core pos (repr u) (as_sr i).1 (as_sr i).2 ∧
    i_forward_ubig_ibig_binop_to_repr_r2_val_val pos into_repr into_sr core u i = core pos (repr u) (as_sr i).1 (as_sr i).2 ∧
    i_forward_ubig_ibig_binop_to_repr_r2_val_ref pos into_repr as_sr core u i = core pos (repr u) (as_sr i).1 (as_sr i).2 ∧
    i_forward_ubig_ibig_binop_to_repr_r2_ref_val pos repr into_sr core u i = core pos (repr u) (as_sr i).1 (as_sr i).2 ∧
    i_forward_ubig_ibig_binop_to_repr_r2_ref_ref pos repr as_sr core u i = core pos (repr u) (as_sr i).1 (as_sr i).2 ∧
    i_forward_ibig_ubig_binop_to_repr_r1_val_val into_sr pos into_repr core i u = core (as_sr i).1 (as_sr i).2 pos (repr u) ∧
    i_forward_ibig_ubig_binop_to_repr_r1_val_ref into_sr pos repr core i u = core (as_sr i).1 (as_sr i).2 pos (repr u) ∧
    i_forward_ibig_ubig_binop_to_repr_r1_ref_val as_sr pos into_repr core i u = core (as_sr i).1 (as_sr i).2 pos (repr u) ∧
    i_forward_ibig_ubig_binop_to_repr_r1_ref_ref as_sr pos repr core i u = core (as_sr i).1 (as_sr i).2 pos (repr u) ∧
    i_forward_ibig_ubig_binop_to_repr_r2_val_val into_sr pos into_repr core i u = core (as_sr i).1 (as_sr i).2 pos (repr u) ∧
    i_forward_ibig_ubig_binop_to_repr_r2_val_ref into_sr pos repr core i u = core (as_sr i).1 (as_sr i).2 pos (repr u) ∧
    i_forward_ibig_ubig_binop_to_repr_r2_ref_val as_sr pos into_repr core i u = core (as_sr i).1 (as_sr i).2 pos (repr u) ∧
    i_forward_ibig_ubig_binop_to_repr_r2_ref_ref as_sr pos repr core i u = core (as_sr i).1 (as_sr i).2 pos (repr u) := by
  refine ⟨?_, ?_, ?_, ?_, ?_, ?_, ?_, ?_, ?_, ?_, ?_, ?_, ?_, ?_, ?_, ?_⟩ <;>
    simp only [i_forward_ubig_ibig_binop_to_repr_r1_val_val, i_forward_ubig_ibig_binop_to_repr_r1_val_ref,
      i_forward_ubig_ibig_binop_to_repr_r1_ref_val, i_forward_ubig_ibig_binop_to_repr_r1_ref_ref,
      i_forward_ubig_ibig_binop_to_repr_r2_val_val, i_forward_ubig_ibig_binop_to_repr_r2_val_ref,
      i_forward_ubig_ibig_binop_to_repr_r2_ref_val, i_forward_ubig_ibig_binop_to_repr_r2_ref_ref,
      i_forward_ibig_ubig_binop_to_repr_r1_val_val, i_forward_ibig_ubig_binop_to_repr_r1_val_ref,
      i_forward_ibig_ubig_binop_to_repr_r1_ref_val, i_forward_ibig_ubig_binop_to_repr_r1_ref_ref,
      i_forward_ibig_ubig_binop_to_repr_r2_val_val, i_forward_ibig_ubig_binop_to_repr_r2_val_ref,
      i_forward_ibig_ubig_binop_to_repr_r2_ref_val, i_forward_ibig_ubig_binop_to_repr_r2_ref_ref, hrepr, hsign]

/-- the primitive-operand forms of dashu-int: every ownership form is `unwrap (try_into (op self (T::from rhs)))`
    (so `Props/C15.primForm` describes all four at once), the commutative ones convert the LEFT operand -/
theorem i_primitive_forms (conv : V → V) (op : V → V → V) (ti uw : V → V) (a p : V) :
    i_impl_binop_with_primitive_val_val conv op ti uw a p = uw (ti (op a (conv p))) ∧
    i_impl_binop_with_primitive_ref_val conv op ti uw a p = uw (ti (op a (conv p))) ∧
    i_impl_binop_with_primitive_val_ref conv op ti uw a p = uw (ti (op a (conv p))) ∧
    i_impl_binop_with_primitive_ref_ref conv op ti uw a p = uw (ti (op a (conv p))) ∧
    i_impl_commutative_binop_with_primitive_val_val conv op ti uw p a = uw (ti (op (conv p) a)) ∧
    i_impl_commutative_binop_with_primitive_ref_val conv op ti uw p a = uw (ti (op (conv p) a)) ∧
    i_impl_commutative_binop_with_primitive_val_ref conv op ti uw p a = uw (ti (op (conv p) a)) ∧
    i_impl_commutative_binop_with_primitive_ref_ref conv op ti uw p a = uw (ti (op (conv p) a)) :=
  ⟨rfl, rfl, rfl, rfl, rfl, rfl, rfl, rfl⟩

/-- the compound-assignment forms of dashu-int: `x op= y` stores `(take x) op y` (converted back with `.into()`),
    with a primitive `x op= T::from(p)`; by value and by reference alike -/
theorem i_assign_forms (conv into : V → V) (op : V → V → V) (a b p : V) :
    i_impl_binop_assign_by_taking_r1_mut_val op into a b = into (op a b) ∧
    i_impl_binop_assign_by_taking_r1_mut_ref op into a b = into (op a b) ∧
    i_impl_binop_assign_with_primitive_r1_mut_val conv op a p = op a (conv p) ∧
    i_impl_binop_assign_with_primitive_r1_mut_ref conv op a p = op a (conv p) := ⟨rfl, rfl, rfl, rfl⟩

/-- **`DivRemAssign`** (the rules "currently only used for DivRemAssign"): `x.div_rem_assign(y)` leaves the quotient
    of `div_rem` in `x` and returns its remainder — the pair is exactly `(take x).div_rem(y)`; the primitive forms
    convert the divisor and narrow the remainder (`try_into().unwrap()`), by value and by reference alike -/
theorem i_div_rem_assign_forms (divRem : V → V → V × V) (conv ti uw : V → V) (a b p : V) :
    i_impl_binop_assign_by_taking_r2_mut_val divRem a b = divRem a b ∧
    i_impl_binop_assign_by_taking_r2_mut_ref divRem a b = divRem a b ∧
    i_impl_binop_assign_with_primitive_r2_mut_val conv divRem ti uw a p
      = ((divRem a (conv p)).1, uw (ti (divRem a (conv p)).2)) ∧
    i_impl_binop_assign_with_primitive_r2_mut_ref conv divRem ti uw a p
      = ((divRem a (conv p)).1, uw (ti (divRem a (conv p)).2)) := ⟨rfl, rfl, rfl, rfl⟩

-- ---------------------------------------------------------------------------------------------- Sum / Product

/-- `Sum` / `Product` are one shape in all three crates: `iter.fold(INIT, OP)` (float/src/iter.rs, the `impl_fold_iter!`
    rule of integer/src/iter.rs and of rational/src/iter.rs — the latter file has the same text but is NOT part of
    dashu-ratio at the pinned commit: rational/src/lib.rs has no `mod iter;`, so RBig / Relaxed offer no such form) -/
theorem fold_forms (init op : V) (fold : V → V → V → V) (it : V) :
    f_Sum_fn init op fold it = fold it init op ∧ f_Product_fn init op fold it = fold it init op ∧
    q_impl_fold_iter_fn init op fold it = fold it init op ∧ i_impl_fold_iter_fn init op fold it = fold it init op :=
  ⟨rfl, rfl, rfl, rfl⟩

/-- with `Iterator::fold` read as the left fold over the items, `Sum` is `((0 + x₀) + x₁) + …` and `Product` is
    `((1 · x₀) · x₁) · …`: the value of the fold forms is fixed by the operator forms -/
theorem sum_is_left_fold {α : Type} (zero : α) (add : α → α → α) (xs : List α) :
    f_Sum_fn (V := List α ⊕ α ⊕ (α → α → α)) (.inr (.inl zero)) (.inr (.inr add))
      (fun it i o => match it, i, o with
        | .inl l, .inr (.inl z), .inr (.inr f) => .inr (.inl (l.foldl f z))
        | _, _, _ => it) (.inl xs)
      = .inr (.inl (xs.foldl add zero)) := rfl

-- non-vacuity: the hypotheses are met by a concrete interpretation and the forms are not constant
example : q_impl_binop_with_macro_r4_val_ref (V := Nat) (M := Unit) (fun x => (x / 10, x % 10)) (· / 10) (· % 10) ()
    (fun a b c d _ _ _ _ _ => a * d + c * b) 12 34 = 1 * 4 + 3 * 2 :=
  (q_binop_with_macro_forms (V := Nat) (fun x => (x / 10, x % 10)) (· / 10) (· % 10) ()
    (fun a b c d _ _ _ _ _ => a * d + c * b) (fun _ => rfl) 12 34).2.1
example : i_impl_binop_assign_by_taking_r2_mut_ref (V := Nat) (fun a b => (a / b, a % b)) 17 5 = (3, 2) :=
  (i_div_rem_assign_forms (V := Nat) (fun a b => (a / b, a % b)) id id id 17 5 0).2.1
example : f_ShlAssign_mut_val (V := Int) id (fun _ => 0) (fun x => if x = 0 then 1 else 0) (fun x => if x = 0 then 1 else 0)
    (· + ·) id (fun _ e => e) (fun c t e => if c ≠ 0 then t else e) 5 3 = (8, [0]) := by decide
example : (f_Sum_fn (V := List Nat ⊕ Nat ⊕ (Nat → Nat → Nat)) (.inr (.inl 0)) (.inr (.inr (· + ·)))
      (fun it i o => match it, i, o with
        | .inl l, .inr (.inl z), .inr (.inr f) => .inr (.inl (l.foldl f z))
        | _, _, _ => it) (.inl [1, 2, 3])) = .inr (.inl 6) := rfl

end Dashu.Props.C15Forms
