import Dashu.Proofs.Mem.Arith4
import Dashu.Proofs.NT.LehmerComplete
import Dashu.Proofs.Text.FmtLow
/-
  C17 — link theorems to the properties that own the kernels C17's storage model takes state from (round 5):

  * C12 (`Proofs/NT/LehmerComplete`): the flag-tracking Lehmer loop of the `gcd` storage skeleton returns for every
    `rhs ≤ lhs`, its value is `Nat.gcd lhs rhs` — so the panic arm of `fGcdLarge` is dead and the words the skeleton writes
    into the result copy are the gcd's; the only thing C17 adds is WHICH copy (`swapped`).
  * C07 (`Proofs/Text/FmtLow`): fmt/digit_writer.rs — the `[u8; BUFFER_LEN]` array of `DigitWriter` is the one hand-indexed
    buffer of the formatting path (`buffer[buffer_len..buffer_len + len].copy_from_slice`, `buffer[buffer_len..rounded].fill(0)`,
    `chunks_exact_mut`, `&buffer[..buffer_len]`) and `flush` ends in `unsafe { str::from_utf8_unchecked(b) }`.  C07's mirrored
    writer raises `BufPanic.index` for any range that leaves the array; composed here into C17's statement: for EVERY
    sequence of `write` calls (any piece lengths, incl. empty and longer than the buffer) followed by `flush`, no range leaves
    the array, `buffer_len < BUFFER_LEN` between calls, and every byte handed to `from_utf8_unchecked` is 7-bit ASCII.
-/
namespace Dashu.Props.C17Link
open Dashu.Model Dashu.Model.Mem

/-- `gcd::gcd_in_place` as the gcd storage skeleton runs it (`lehmerGcdSw`: C12's loop + the `swapped` flag) always returns,
    and returns the gcd: the skeleton's model-panic arm is dead and `truncate(len); from_buffer` sees `gcd(lhs, rhs)` -/
theorem gcd_skeleton_kernel_is_c12 (W : Nat) (hW : 0 < W) (lhs rhs : Nat) (h : rhs ≤ lhs) :
    ∃ sw, lehmerGcdSw W lhs rhs = .ok (Nat.gcd lhs rhs, sw) := by
  have h1 := Dashu.Proofs.Mem.lehmerGcdSw_fst W lhs rhs
  rw [NT.lehmerGcd_correct W hW lhs rhs h] at h1
  cases hr : lehmerGcdSw W lhs rhs with
  | error k => rw [hr] at h1; cases h1
  | ok v =>
    rw [hr] at h1
    obtain ⟨g, sw⟩ := v
    simp only [Except.map] at h1
    cases h1
    exact ⟨sw, rfl⟩

example : lehmerGcdSw 64 ((2 ^ 64 + 1) * (2 ^ 250 + 12345)) ((2 ^ 64 + 1) * (2 ^ 200 + 7)) = .ok (2 ^ 64 + 1, false) := by
  decide +kernel

-- `rhs` divides `lhs`: one Euclidean step leaves the gcd in the copy of `rhs` (`swapped = true`)
example : lehmerGcdSw 64 (3 * (2 ^ 200 + 1)) (2 ^ 200 + 1) = .ok (2 ^ 200 + 1, true) := by decide +kernel
example := gcd_skeleton_kernel_is_c12 64 (by decide) (3 * (2 ^ 200 + 1)) (2 ^ 200 + 1) (by decide)

open Dashu.Model.Text in
/-- per-byte conversion of a raw digit `< 36` is a 7-bit ASCII byte (at most `'z'` = 122) -/
theorem rawToAscii_ascii (c : DigitCase) (d : Nat) (hd : d < 36) : 48 ≤ rawToAscii c d ∧ rawToAscii c d < 128 := by
  unfold rawToAscii
  have ho : c.offset ≤ 39 := by cases c <;> simp [DigitCase.offset]
  split <;> omega

open Dashu.Model.Text in
/-- **fmt/digit_writer.rs, all write sequences**: with the caller contract "raw digits < 36" (every caller passes digits
    of a radix ≤ 36), any sequence of `DigitWriter::write` calls followed by `flush` completes in the mirrored writer —
    which fails with `BufPanic.index` on any slice range outside `[u8; BUFFER_LEN]` and with `.overflow` on a SWAR lane
    overflow — and the bytes that reach `unsafe { str::from_utf8_unchecked(..) }` are the per-byte conversions of the
    digits written, in order, all of them 7-bit ASCII (so the slice is valid UTF-8), for every word size that is a
    multiple of 8 -/
theorem digit_writer_all_writes_in_bounds (W : Nat) (h8 : 8 ∣ W) (hW : 8 ≤ W) (c : DigitCase) (pieces : List (List Nat))
    (hb : ∀ b ∈ pieces, ∀ d ∈ b, d < 36) :
    ∃ out, digitWriterRunS W c pieces = .ok out ∧ out = pieces.flatten.map (rawToAscii c) ∧ ∀ x ∈ out, 48 ≤ x ∧ x < 128 := by
  refine ⟨_, digitWriterRunS_eq W h8 hW c pieces hb, rfl, ?_⟩
  intro x hx
  obtain ⟨d, hd, rfl⟩ := List.mem_map.mp hx
  obtain ⟨b, hbm, hdb⟩ := List.mem_flatten.mp hd
  exact rawToAscii_ascii c d (hb b hbm d hdb)

open Dashu.Model.Text in
/-- the invariant that makes it so, one `write` at a time: from any state with `buffer_len < BUFFER_LEN` a `write` of any
    length succeeds (no `.index`) and re-establishes `buffer_len < BUFFER_LEN` -/
theorem digit_writer_write_keeps_len (W : Nat) (h8 : 8 ∣ W) (hW : 8 ≤ W) (c : DigitCase) (buf : List Nat) (s : DW)
    (hs : s.pending.length < digitWriterLen W) (hp : ∀ d ∈ s.pending, d < 36) (hb : ∀ d ∈ buf, d < 36) :
    ∃ s', DW.writeS W c s buf = .ok s' ∧ s'.pending.length < digitWriterLen W ∧ ∀ d ∈ s'.pending, d < 36 := by
  obtain ⟨s', h1, _, h3, h4⟩ := DW_writeS_spec W h8 hW c buf s hs hp hb
  exact ⟨s', h1, h3, h4⟩

open Dashu.Model.Text in
-- three writes (one empty, one longer than the 32-byte buffer) and the final flush on a 64-bit target
example := digit_writer_all_writes_in_bounds 64 (by decide) (by decide) .lower [[1, 2, 35], [], List.replicate 70 10, [9]] (by decide)

end Dashu.Props.C17Link
