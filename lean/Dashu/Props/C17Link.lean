import Dashu.Proofs.Mem.Arith4
import Dashu.Proofs.NT.LehmerComplete
import Dashu.Proofs.NT.BinGcd
import Dashu.Proofs.NT.GcdExt
import Dashu.Proofs.NT.LehmerExt
import Dashu.Proofs.Text.FmtLow
/-
  C17 — link theorems to the properties that own the kernels C17's storage model takes state from (round 5):

  * C12 (`Proofs/NT/LehmerComplete`): the flag-tracking Lehmer loop of the `gcd` storage skeleton returns for every
    `rhs ≤ lhs`, its value is `Nat.gcd lhs rhs` — so the panic arm of `fGcdLarge` is dead and the words the skeleton writes
    into the result copy are the gcd's; the only thing C17 adds is WHICH copy (`swapped`).
  * C07 (`Proofs/Text/FmtLow`): fmt/digit_writer.rs — the `[u8; BUFFER_LEN]` array of `DigitWriter` is the one hand-indexed
    buffer of the formatting path (`buffer[buffer_len..buffer_len + len].copy_from_slice`, `buffer[buffer_len..rounded].fill(0)`,
    `chunks_exact_mut`, `&buffer[..buffer_len]`) and `flush` ends in `unsafe { str::from_utf8_unchecked(b) }`.  C07's mirrored
    writer raises `BufPanic.index` for any range that leaves the array; composed here into C17's statement: for EVERY
    sequence of `write` calls (any piece lengths, incl. empty and longer than the buffer) followed by `flush`, no range leaves
    the array, `buffer_len < BUFFER_LEN` between calls, and every byte handed to `from_utf8_unchecked` is 7-bit ASCII.
-/
namespace Dashu.Props.C17Link
open Dashu.Model Dashu.Model.Mem

/-- `gcd::gcd_in_place` as the gcd storage skeleton runs it (`lehmerGcdSw`: C12's loop + the `swapped` flag) always returns,
    and returns the gcd: the skeleton's model-panic arm is dead and `truncate(len); from_buffer` sees `gcd(lhs, rhs)` -/
theorem gcd_skeleton_kernel_is_c12 (W : Nat) (hW : 0 < W) (lhs rhs : Nat) (h : rhs ≤ lhs) :
    ∃ sw, lehmerGcdSw W lhs rhs = .ok (Nat.gcd lhs rhs, sw) := by
  have h1 := Dashu.Proofs.Mem.lehmerGcdSw_fst W lhs rhs
  rw [NT.lehmerGcd_correct W hW lhs rhs h] at h1
  cases hr : lehmerGcdSw W lhs rhs with
  | error k => rw [hr] at h1; cases h1
  | ok v =>
    rw [hr] at h1
    obtain ⟨g, sw⟩ := v
    simp only [Except.map] at h1
    cases h1
    exact ⟨sw, rfl⟩

example : lehmerGcdSw 64 ((2 ^ 64 + 1) * (2 ^ 250 + 12345)) ((2 ^ 64 + 1) * (2 ^ 200 + 7)) = .ok (2 ^ 64 + 1, false) := by
  decide +kernel

-- `rhs` divides `lhs`: one Euclidean step leaves the gcd in the copy of `rhs` (`swapped = true`)
example : lehmerGcdSw 64 (3 * (2 ^ 200 + 1)) (2 ^ 200 + 1) = .ok (2 ^ 200 + 1, true) := by decide +kernel
example := gcd_skeleton_kernel_is_c12 64 (by decide) (3 * (2 ^ 200 + 1)) (2 ^ 200 + 1) (by decide)

/-- gcd_ops.rs `gcd_large` (both operands copied, `gcd::gcd_in_place` between them): the storage skeleton has no panic arm,
    whatever the operand values — the model-panic arm for a failing Lehmer loop is dead by `gcd_skeleton_kernel_is_c12` -/
theorem gcd_large_skeleton_no_panic (W : Nat) (hW : 0 < W) (va vb lb' : Nat) : (fGcdLarge W va vb lb').panic = none := by
  unfold fGcdLarge
  by_cases h : va = vb
  · simp [h]
  · simp only [h, if_false]
    obtain ⟨sw, hk⟩ := gcd_skeleton_kernel_is_c12 W hW (max va vb) (min va vb)
      (Nat.le_trans (Nat.min_le_left _ _) (Nat.le_max_left _ _))
    rw [hk]

private theorem fragGcdTyped_panic (W : Nat) (hW : 0 < W) (aVal bVal : Bool) (a b : List Nat) :
    ((fragGcdTyped W aVal bVal a b).panic = none ∨ (fragGcdTyped W aVal bVal a b).panic = some .gcdZeroZero) ∧
    (¬ (wval W a = 0 ∧ wval W b = 0) → (fragGcdTyped W aVal bVal a b).panic = none) := by
  have hl := gcd_large_skeleton_no_panic W hW (wval W a) (wval W b) (min a.length b.length)
  unfold fragGcdTyped
  simp only [NT.gcdPrim_spec]
  constructor
  · split_ifs <;> simp_all
  · intro hz
    split_ifs <;> simp_all

/-- **the `Gcd::gcd` storage skeletons never hit an internal assert** (round 7; was "observed, not proved"): for `UBig::gcd`
    and `IBig::gcd` in every ownership form and for ANY operand words (canonical or not, any lengths), the only panic the
    skeleton can report is the documented `gcd(0, 0)` one, and it reports none unless both operand values are zero.  All
    model-panic arms (Lehmer loop out of fuel, `lehmer_step` negative result, the primitive gcd on `(x % d, d)`) are dead:
    C12's `gcdPrim_spec` for the word / dword arms and `lehmerGcd_correct` (through `gcd_skeleton_kernel_is_c12`) for
    `gcd_large`. -/
theorem gcd_skeleton_panics_only_on_zero_zero (W : Nat) (hW : 0 < W) (f : Form) (a b : List Nat) :
    ((fragGcd W f a b).panic = none ∨ (fragGcd W f a b).panic = some .gcdZeroZero) ∧
    ((fragSignedGcd W f a b).panic = none ∨ (fragSignedGcd W f a b).panic = some .gcdZeroZero) ∧
    (¬ (wval W a = 0 ∧ wval W b = 0) → (fragGcd W f a b).panic = none ∧ (fragSignedGcd W f a b).panic = none) := by
  have h := fragGcdTyped_panic W hW (f == .vr || f == .vv) (f == .rv || f == .vv) a b
  exact ⟨h.1, h.1, fun hz => ⟨h.2 hz, h.2 hz⟩⟩

-- non-vacuity: two 5-word operands (the `gcd_large` arm, Lehmer loop), a 4-word and a 1-word operand (`gcd_large_dword`), and
-- the one panic that exists: gcd(0, 0), also for a non-canonical zero
example : ¬ (wval 64 [1, 2, 3, 4, 5] = 0 ∧ wval 64 [7, 0, 9, 0, 11] = 0) := by decide
example : (fragGcd 64 .rv [1, 2, 3, 4, 5] [7, 0, 9, 0, 11]).panic = none ∧ (fragSignedGcd 64 .vv [6, 0, 0, 3] [4]).panic = none := by
  decide +kernel
example : (fragGcd 64 .vv [] []).panic = some .gcdZeroZero ∧ (fragSignedGcd 64 .rr [0] []).panic = some .gcdZeroZero := by
  decide +kernel
example := (gcd_skeleton_panics_only_on_zero_zero 64 (by decide) .rv [1, 2, 3, 4, 5] [7, 0, 9, 0, 11]).2.2 (by decide)

/-- the kernel `fGcdExtLarge` takes its values from, `lehmerExtKernel`, totalises C12's `lehmerExt` (`gcd::gcd_ext_in_place`);
    for the operands `gcd_ext_large` passes (`0 < rhs < lhs`) the totalising arm is dead: `lehmerExt` returns, the skeleton uses
    exactly its value, and that value meets the contract the post-processing relies on (C12's `lehmerExt_correct`) -/
theorem gcd_ext_skeleton_kernel_is_c12 (W : Nat) (hW : 0 < W) (lhs rhs : Nat) (h0 : 0 < rhs) (hlt : rhs < lhs) :
    ∃ res, NT.lehmerExt W lhs rhs = .ok res ∧ NT.lehmerExtKernel W lhs rhs = res ∧ NT.LehmerExtContract lhs rhs res := by
  obtain ⟨res, h1, h2⟩ := NT.lehmerExt_correct W hW lhs rhs h0 hlt
  exact ⟨res, h1, by simp [NT.lehmerExtKernel, h1], h2⟩

example := gcd_ext_skeleton_kernel_is_c12 64 (by decide) (2 ^ 200 + 12345) (2 ^ 190 + 7) (by decide) (by decide)

/-- gcd_ops.rs `gcd_ext_large` has no panic arm in the skeleton; `gcd_ext_large_dword`'s model-panic arm (a failing
    `gcd_ext_word` / `gcd_ext_dword`) is dead by C12's `gcdExtSmall_spec` -/
theorem gcd_ext_large_skeletons_no_panic (W : Nat) :
    (∀ ra rb la lb va vb, (fGcdExtLarge W ra rb la lb va vb).panic = none) ∧
    (∀ r len vl d, (fGcdExtLargeDword W r len vl d).panic = none) := by
  constructor
  · intro ra rb la lb va vb
    unfold fGcdExtLarge
    split_ifs <;> rfl
  · intro r len vl d
    unfold fGcdExtLargeDword
    by_cases h : d = 0
    · simp [h]
    · obtain ⟨g, a, bMag, bNeg, hk, _⟩ := NT.gcdExtSmall_spec W vl d (Nat.pos_of_ne_zero h)
      simp [h, hk]

/-- **the `ExtendedGcd::gcd_ext` storage skeleton of `UBig` never hits an internal assert**: in every ownership form and for ANY
    operand words the only panic is the documented `gcd(0, 0)` one (the `DoubleWord` arm, C12's `xgcdPrimWide_spec`), and there
    is none unless both operand values are zero -/
theorem gcd_ext_skeleton_panics_only_on_zero_zero (W : Nat) (f : Form) (a b : List Nat) :
    ((fragGcdExt W f a b).panic = none ∨ (fragGcdExt W f a b).panic = some .gcdZeroZero) ∧
    (¬ (wval W a = 0 ∧ wval W b = 0) → (fragGcdExt W f a b).panic = none) := by
  have h1 := fun r => (gcd_ext_large_skeletons_no_panic W).2 r a.length (wval W a) (wval W b)
  have h2 := fun r => (gcd_ext_large_skeletons_no_panic W).2 r b.length (wval W b) (wval W a)
  have h3 := fun ra rb => (gcd_ext_large_skeletons_no_panic W).1 ra rb a.length b.length (wval W a) (wval W b)
  have hx := NT.xgcdPrimWide_spec W (wval W a) (wval W b)
  unfold fragGcdExt
  simp only []
  by_cases hz : wval W a = 0 ∧ wval W b = 0
  · have hx1 := hx.1 hz
    constructor
    · split_ifs <;> simp_all
    · intro h; exact absurd hz h
  · obtain ⟨res, hx2, _⟩ := hx.2 hz
    obtain ⟨g, s, t⟩ := res
    have : (fragGcdExt W f a b).panic = none := by
      unfold fragGcdExt
      simp only []
      split_ifs <;> simp_all
    unfold fragGcdExt at this
    exact ⟨Or.inl this, fun _ => this⟩

/-- the same for `gcd` / `gcd_ext` with one or both operands an `IBig` (`fragMixedGcd`: IBig gcd_ext and the mixed UBig/IBig pairs,
    every ownership form, sign pair and operand words): the sign glue adds no panic arm -/
theorem mixed_gcd_skeleton_panics_only_on_zero_zero (W : Nat) (hW : 0 < W) (ext : Bool) (f : Form) (aI na : Bool) (a : List Nat)
    (bI nb : Bool) (b : List Nat) :
    ((fragMixedGcd W ext f aI na a bI nb b).panic = none ∨ (fragMixedGcd W ext f aI na a bI nb b).panic = some .gcdZeroZero) ∧
    (¬ (wval W a = 0 ∧ wval W b = 0) → (fragMixedGcd W ext f aI na a bI nb b).panic = none) := by
  have hp : (fragMixedGcd W ext f aI na a bI nb b).panic =
      if ext then (fragGcdExt W f a b).panic else (fragGcdTyped W (f == .vr || f == .vv) (f == .rv || f == .vv) a b).panic := by
    unfold fragMixedGcd Frag.noIntoTyped
    cases ext <;> simp
  rw [hp]
  cases ext
  · exact fragGcdTyped_panic W hW _ _ a b
  · exact gcd_ext_skeleton_panics_only_on_zero_zero W f a b

-- non-vacuity: gcd_ext of two 4-word operands (gcd_ext_large), of a 4-word and a 2-word operand (gcd_ext_large_dword), and gcd(0, 0)
example : (fragGcdExt 64 .vr [1, 2, 3, 4] [7, 0, 9, 11]).panic = none ∧ (fragGcdExt 64 .rr [6, 0, 0, 3] [4, 1]).panic = none ∧
    (fragGcdExt 64 .vv [] [0]).panic = some .gcdZeroZero ∧
    (fragMixedGcd 64 true .rv true true [1, 2, 3, 4] false false [5, 6, 7]).panic = none := by
  decide +kernel
example := (gcd_ext_skeleton_panics_only_on_zero_zero 64 .vr [1, 2, 3, 4] [7, 0, 9, 11]).2 (by decide)

open Dashu.Model.Text in
/-- per-byte conversion of a raw digit `< 36` is a 7-bit ASCII byte (at most `'z'` = 122) -/
theorem rawToAscii_ascii (c : DigitCase) (d : Nat) (hd : d < 36) : 48 ≤ rawToAscii c d ∧ rawToAscii c d < 128 := by
  unfold rawToAscii
  have ho : c.offset ≤ 39 := by cases c <;> simp [DigitCase.offset]
  split <;> omega

open Dashu.Model.Text in
/-- **fmt/digit_writer.rs, all write sequences**: with the caller contract "raw digits < 36" (every caller passes digits
    of a radix ≤ 36), any sequence of `DigitWriter::write` calls followed by `flush` completes in the mirrored writer —
    which fails with `BufPanic.index` on any slice range outside `[u8; BUFFER_LEN]` and with `.overflow` on a SWAR lane
    overflow — and the bytes that reach `unsafe { str::from_utf8_unchecked(..) }` are the per-byte conversions of the
    digits written, in order, all of them 7-bit ASCII (so the slice is valid UTF-8), for every word size that is a
    multiple of 8 -/
theorem digit_writer_all_writes_in_bounds (W : Nat) (h8 : 8 ∣ W) (hW : 8 ≤ W) (c : DigitCase) (pieces : List (List Nat))
    (hb : ∀ b ∈ pieces, ∀ d ∈ b, d < 36) :
    ∃ out, digitWriterRunS W c pieces = .ok out ∧ out = pieces.flatten.map (rawToAscii c) ∧ ∀ x ∈ out, 48 ≤ x ∧ x < 128 := by
  refine ⟨_, digitWriterRunS_eq W h8 hW c pieces hb, rfl, ?_⟩
  intro x hx
  obtain ⟨d, hd, rfl⟩ := List.mem_map.mp hx
  obtain ⟨b, hbm, hdb⟩ := List.mem_flatten.mp hd
  exact rawToAscii_ascii c d (hb b hbm d hdb)

open Dashu.Model.Text in
/-- the invariant that makes it so, one `write` at a time: from any state with `buffer_len < BUFFER_LEN` a `write` of any
    length succeeds (no `.index`) and re-establishes `buffer_len < BUFFER_LEN` -/
theorem digit_writer_write_keeps_len (W : Nat) (h8 : 8 ∣ W) (hW : 8 ≤ W) (c : DigitCase) (buf : List Nat) (s : DW)
    (hs : s.pending.length < digitWriterLen W) (hp : ∀ d ∈ s.pending, d < 36) (hb : ∀ d ∈ buf, d < 36) :
    ∃ s', DW.writeS W c s buf = .ok s' ∧ s'.pending.length < digitWriterLen W ∧ ∀ d ∈ s'.pending, d < 36 := by
  obtain ⟨s', h1, _, h3, h4⟩ := DW_writeS_spec W h8 hW c buf s hs hp hb
  exact ⟨s', h1, h3, h4⟩

open Dashu.Model.Text in
-- three writes (one empty, one longer than the 32-byte buffer) and the final flush on a 64-bit target
example := digit_writer_all_writes_in_bounds 64 (by decide) (by decide) .lower [[1, 2, 35], [], List.replicate 70 10, [9]] (by decide)

end Dashu.Props.C17Link
