import Dashu.Props.C10Libm
import Dashu.Proofs.Trans.Series
/-
  C10, round 8: the THIRD `f32` estimator of the float code, `Repr::digits_lb`, as a concrete function (`log2_bounds` = its
  model, every operation `rne32`, clamped outside the region of `digits_lb_sound_libm` like `dubLibm`) meets the oracle
  hypothesis `DlbSound` from (LIBM) alone; with `estimators_sound_libm` ALL THREE oracle hypotheses of the float theorems
  (`CoarseSound`, `DubSound`, `DlbSound`: C10, and the series of C11 / division of C03 which take them as hypotheses) hold for
  the concrete estimators, and the two digit estimates enclose the digit count of every significand.
  Link theorem (by import of C11's kernel `Proofs/Trans/Series.fSubUlp_le`): `FBig::sub_ulp` computed with THIS `digits_lb`
  is a power of the base not above `B^(exponent + digits − precision − 1)` — no oracle hypothesis left.
-/
namespace Dashu.Props.C10Dlb
open Dashu Dashu.Model.Float Dashu.Model.Trans Dashu.Props.C10F32 Dashu.Props.C10Libm

/-- `Repr::<B>::digits_lb` (0 for a zero significand; `log2_bounds(signif).0`, `LOG10_2`, `log2_bounds(B).1` = their models) for
    significands of at most `2³⁰` bits and `2²¹` digits; beyond, the exact digit count -/
noncomputable def dlbLibm (log2f : ℝ → ℝ) (B : Nat) : Int → Nat := fun v =>
  if v = 0 then 0
  else if Nat.log2 v.natAbs + 1 ≤ 2 ^ 30 ∧ digits B v.natAbs ≤ 2 ^ 21 then
    digitsLbReal B rne32 (log2LbModel log2f v.natAbs) log10_2_f32 (log2UbStd log2f B)
  else digitsI B v

/-- on the region the clamped estimate IS `digits_lb` of the source -/
theorem dlbLibm_eq (log2f : ℝ → ℝ) (B : Nat) (v : Int) (hv : v ≠ 0) (hbits : Nat.log2 v.natAbs + 1 ≤ 2 ^ 30)
    (hsmall : digits B v.natAbs ≤ 2 ^ 21) :
    dlbLibm log2f B v = digitsLbReal B rne32 (log2LbModel log2f v.natAbs) log10_2_f32 (log2UbStd log2f B) := by
  unfold dlbLibm; rw [if_neg hv, if_pos ⟨hbits, hsmall⟩]

/-- **the third oracle hypothesis, `DlbSound`, from (LIBM) alone**, every base of at most `2²⁴` bits -/
theorem dlb_sound_libm (log2f : ℝ → ℝ) (h : Log2fSound log2f) (B : Nat) (hB : 2 ≤ B) (hBw : Nat.log2 B + 1 ≤ 2 ^ 24) :
    DlbSound B (dlbLibm log2f B) := by
  intro v
  unfold dlbLibm
  by_cases hv : v = 0
  · subst hv; simp
  · rw [if_neg hv]
    by_cases hr : Nat.log2 v.natAbs + 1 ≤ 2 ^ 30 ∧ digits B v.natAbs ≤ 2 ^ 21
    · rw [if_pos hr]
      exact digits_lb_sound_libm log2f h B hB hBw v.natAbs (Int.natAbs_pos.mpr hv) hr.1 hr.2
    · rw [if_neg hr]

/-- **all three oracle hypotheses of the float theorems from (LIBM) alone**, and the two digit estimates enclose the digit
    count of EVERY significand (`digits_lb ≤ digits ≤ digits_ub`, the doc contract of `Repr::digits_lb` / `digits_ub`) -/
theorem all_estimators_sound_libm (log2f : ℝ → ℝ) (h : Log2fSound log2f) (B : Nat) (hB : 2 ≤ B)
    (hBw : Nat.log2 B + 1 ≤ 2 ^ 24) :
    CoarseSound (coarseLibm log2f) ∧ DubSound B (dubLibm log2f B) ∧ DlbSound B (dlbLibm log2f B) ∧
    ∀ v : Int, dlbLibm log2f B v ≤ digitsI B v ∧ digitsI B v ≤ dubLibm log2f B v := by
  obtain ⟨hc, hd⟩ := estimators_sound_libm log2f h B hB hBw
  have hl := dlb_sound_libm log2f h B hB hBw
  exact ⟨hc, hd, hl, fun v => ⟨hl v, hd v⟩⟩

/-- the same for an evaluation context of the series code (`Model/Trans/Series.Env`: C11 / C03 theorems take exactly these
    three hypotheses about `E.c`, `E.est.dub`, `E.est.dlb`) whose estimators are the concrete ones -/
theorem env_oracles_sound_libm (log2f : ℝ → ℝ) (h : Log2fSound log2f) (E : Env) (hB : 2 ≤ E.B)
    (hBw : Nat.log2 E.B + 1 ≤ 2 ^ 24) (hc : E.c = coarseLibm log2f) (hdub : E.est.dub = dubLibm log2f E.B)
    (hdlb : E.est.dlb = dlbLibm log2f E.B) :
    CoarseSound E.c ∧ DubSound E.B E.est.dub ∧ DlbSound E.B E.est.dlb := by
  obtain ⟨h1, h2, h3, _⟩ := all_estimators_sound_libm log2f h E.B hB hBw
  rw [hc, hdub, hdlb]; exact ⟨h1, h2, h3⟩

/-- **link to C11 (`Proofs/Trans/Series.fSubUlp_le`)**: `FBig::sub_ulp` — the stop threshold of the exp / ln series — computed
    with the `digits_lb` of the source is `B^e` with `e ≤ exponent + digits − precision − 1` ("guaranteed to be smaller than
    ulp()"), from (LIBM) alone -/
theorem sub_ulp_below_ulp_libm (log2f : ℝ → ℝ) (h : Log2fSound log2f) (E : Env) (hB : 2 ≤ E.B)
    (hBw : Nat.log2 E.B + 1 ≤ 2 ^ 24) (hdlb : E.est.dlb = dlbLibm log2f E.B) (x : FBigM) :
    (fSubUlp E x).signif = 1 ∧
      (fSubUlp E x).exp ≤ x.repr.exp + (digitsI E.B x.repr.signif : Int) - (x.prec : Int) - 1 :=
  Dashu.Proofs.Trans.Series.fSubUlp_le E (by rw [hdlb]; exact dlb_sound_libm log2f h E.B hB hBw) x

/-- non-vacuity: (LIBM) satisfiable; base 10 meets the size hypotheses; the doc example of `digits_lb` (decimal 1001) lies in the
    region where `dlbLibm` is `digits_lb` of the source; a context with the three concrete estimators exists -/
example : Log2fSound (fun x => rne32 (Real.logb 2 x)) ∧
    (2 ≤ 10 ∧ Nat.log2 10 + 1 ≤ 2 ^ 24 ∧ (1001 : Int) ≠ 0 ∧ Nat.log2 (1001 : Int).natAbs + 1 ≤ 2 ^ 30 ∧
      digits 10 (1001 : Int).natAbs ≤ 2 ^ 21) ∧
    ∀ log2f : ℝ → ℝ, ∃ E : Env, 2 ≤ E.B ∧ Nat.log2 E.B + 1 ≤ 2 ^ 24 ∧ E.c = coarseLibm log2f ∧
      E.est.dub = dubLibm log2f E.B ∧ E.est.dlb = dlbLibm log2f E.B :=
  ⟨libm_hypothesis_satisfiable, by decide, fun log2f =>
    ⟨⟨10, .halfEven, coarseLibm log2f,
      { dub := dubLibm log2f 10, dlb := dlbLibm log2f 10, logQuot := fun _ => 0, powGuard := fun _ => 0,
        log2Floor := fun _ => 0, belowInvBase := fun _ => false, tooLarge := fun _ => false, intDigits := fun _ => 0,
        floorLog2 := fun _ => 0, powfArgDigits := fun _ _ => 0 }⟩,
      (by decide : 2 ≤ 10), (by decide : Nat.log2 10 + 1 ≤ 2 ^ 24), rfl, rfl, rfl⟩⟩

end Dashu.Props.C10Dlb
