import Dashu.Proofs.Trans.Formulas
/-
  C11 — the closed formulas evaluated by `float/src/exp.rs` / `float/src/log.rs` are exact identities
  (statements about `Real.exp` / `Real.log`; the series and constants named in the property's anchors:
  "argument reduction x = s·ln(B) + r·B^n, Maclaurin series, repeated squaring", "scaling to [1,2), atanh series,
  recombination with ln 2", `iacoth`, `ln2`, `ln10`).  What separates them from the returned float is rounding
  and series truncation only — bounded for `powi` (`Props/C11Powi.lean`), certified a posteriori for the rest.
-/
namespace Dashu.Props.C11Formulas
open Dashu.Model.Trans

/-- `Context::iacoth(n)` sums `Σ 1/((2i+1)·n^(2i+1))`, whose value is `L(n) = ½·log((n+1)/(n−1))` -/
theorem iacoth_series (n : ℝ) (hn : 1 < n) :
    HasSum (fun i : ℕ => 1 / ((2 * (i : ℝ) + 1) * n ^ (2 * i + 1))) (acothL n) :=
  Dashu.Model.Trans.iacoth_series n hn

/-- `Context::ln2` -/
theorem ln2_formula : Real.log 2 = 4 * acothL 6 + 2 * acothL 99 := Dashu.Model.Trans.ln2_formula

/-- `Context::ln10` -/
theorem ln10_formula : Real.log 10 = 3 * Real.log 2 + 2 * acothL 9 := Dashu.Model.Trans.ln10_formula

/-- `Context::ln_internal`, scaled path (`atanhL z = log(1+z) − log(1−z) = 2·atanh z`) -/
theorem ln_reduction (x : ℝ) (hx : 0 < x) (s : ℤ) (hs : 1 ≤ x / (2 : ℝ) ^ s) :
    Real.log x = atanhL ((x / (2 : ℝ) ^ s - 1) / (x / (2 : ℝ) ^ s + 1)) + s * Real.log 2 :=
  Dashu.Model.Trans.ln_reduction x hx s hs

/-- `Context::ln_internal`, unscaled `ln_1p` path -/
theorem ln_1p_reduction (x : ℝ) (hx : -1 < x) : Real.log (1 + x) = atanhL (x / (x + 2)) :=
  Dashu.Model.Trans.ln_1p_reduction x hx

/-- `Context::exp_internal`: `exp x = B^s · (exp r)^(B^n)`, `r = (x − s·log B)/B^n` -/
theorem exp_reduction (B : ℕ) (hB : 0 < B) (x : ℝ) (s : ℤ) (n : ℕ) :
    Real.exp x = (B : ℝ) ^ s * Real.exp ((x - s * Real.log B) / (B : ℝ) ^ n) ^ (B ^ n) :=
  Dashu.Model.Trans.exp_reduction B hB x s n

/-! non-vacuity -/
example : HasSum (fun i : ℕ => 1 / ((2 * (i : ℝ) + 1) * (6 : ℝ) ^ (2 * i + 1))) (acothL 6) :=
  iacoth_series 6 (by norm_num)
example : Real.log 3 = atanhL ((3 / (2 : ℝ) ^ (1 : ℤ) - 1) / (3 / (2 : ℝ) ^ (1 : ℤ) + 1)) + (1 : ℤ) * Real.log 2 :=
  ln_reduction 3 (by norm_num) 1 (by norm_num)
example : Real.log (1 + (-1 / 2)) = atanhL ((-1 / 2 : ℝ) / (-1 / 2 + 2)) := ln_1p_reduction (-1 / 2) (by norm_num)

end Dashu.Props.C11Formulas
