import Dashu.Gen.FloatRoundOps
import Dashu.Gen.FloatAdd
import Dashu.Model.Float.RoundOps
import Dashu.Proofs.Gen.Basic
/-
  Tie A theorems about `float/src/round_ops.rs`, `float/src/repr.rs` (`Context::repr_round`) and
  `float/src/add.rs` AS REGENERATED on this run: the regenerated bodies, with the digit / rounding
  kernels of the hand-written float model plugged in, ARE the hand-written model functions the C03 and
  C10 drivers execute and `Props/C03.lean`, `Props/C10.lean` prove correct — for all inputs; the panic
  of `assert_finite*` fires exactly for an infinite operand.
-/
set_option linter.unusedSimpArgs false
namespace Dashu.Props.GenFloatOps
open Dashu Dashu.Gen Dashu.GluePrelude Dashu.Proofs.Gen Dashu.Model.Float

/-- hand-model values as seen by the regenerated text -/
def toG (r : Model.Float.FRepr) : GluePrelude.FRepr := ⟨r.signif, r.exp⟩
def toGB (x : FBigM) : GluePrelude.FBig := ⟨toG x.repr, ⟨(x.prec : Int)⟩⟩
def toGA {α β} (f : α → β) : Rounded α → Approx β
  | (v, none) => .Exact (f v)
  | (v, some r) => .Inexact (f v) r

/-- the kernel record of the C03/C10 hand model (`Model/Float`): digit counts, digit shifts, the
    normalising constructor and `round_fract` are the model's functions; `dub` is the `digits_ub` oracle -/
def modelK (B : Nat) (m : Mode) (c : Coarse) (dub : Int → Nat) : FloatK Unit where
  e_lt := fun _ _ => false
  e_gt := fun _ _ => false
  log2_bounds_int := fun _ => ((), ())
  log2_bounds_repr := fun _ => ((), ())
  digits_ub := fun r => (dub r.significand : Int)
  digits := fun r => (digitsI B r.significand : Int)
  digit_len := fun v => (digitsI B v : Int)
  shl_digits := fun x n => shlDigits B x n.toNat
  shr_digits := fun x n => shrDigits B x n.toNat
  split_digits := fun x n => splitDigits B x n.toNat
  repr_new := fun s e => toG (Model.Float.FRepr.new B s e)
  round_fract := fun n f k => roundFract B m c n f k.toNat
  round_fract_up := fun n f k => roundFract B .up c n f k.toNat
  round_fract_down := fun n f k => roundFract B .down c n f k.toNat
  round_fract_half_away := fun n f k => roundFract B .halfAway c n f k.toNat

theorem int_add_rounding_eq (x : Int) (r : Rounding) : int_add_rounding x r = x + rInt r := by
  cases r <;> simp [int_add_rounding, rInt] <;> omega

theorem sat_sub_nat (p n : Nat) : saturating_sub (p : Int) (n : Int) = ((p - n : Nat) : Int) := by
  unfold saturating_sub; split <;> omega

theorem sat_sub (p : Nat) (e : Int) (he : e < 0) : saturating_sub (p : Int) (-e) = ((p - (-e).toNat : Nat) : Int) := by
  unfold saturating_sub; split <;> omega

/-- `isize::unsigned_abs` of a negative exponent (the form `exponent.unsigned_abs()` of the shift amounts; the proofs below accept
    both it and `(-exponent) as usize`) -/
theorem uabs_neg (e : Int) (he : e < 0) : unsigned_abs e = -e := by
  show ((e.natAbs : Nat) : Int) = -e
  omega

theorem nat_sub_cast (d p : Nat) (h : p < d) : ((d : Int) - (p : Int)) = ((d - p : Nat) : Int) := by omega

/-- closes the leaves: both sides are the same constructor applied to equal fields -/
syntax "gleaf" : tactic
macro_rules
  | `(tactic| gleaf) => `(tactic| (
      try simp only [toGB, toG, toGA, GluePrelude.FBig.mk.injEq, GluePrelude.FCtx.mk.injEq, GluePrelude.FRepr.mk.injEq,
        Except.ok.injEq, Prod.mk.injEq, and_self, true_and, and_true, int_add_rounding_eq, Int.toNat_neg_natCast,
        sat_sub_nat, Int.toNat_natCast]
      first | done | rfl | omega | (constructor <;> first | rfl | omega)))

/-! ### `float/src/round_ops.rs` (C10) -/

theorem trunc_is_model (B : Nat) (m : Mode) (c : Coarse) (dub : Int → Nat) (s e : Int) (p : Nat) :
    FBig_trunc (modelK B m c dub) ⟨⟨s, e⟩, ⟨(p : Int)⟩⟩ =
      if s = 0 ∧ e ≠ 0 then .error .OperateWithInf else .ok (toGB (fTrunc B dub ⟨⟨s, e⟩, p⟩)) := by
  unfold FBig_trunc fTrunc
  simp only [assert_finite, Repr_is_infinite, Repr_smaller_than_one, smallerThanOne, Context_new, FBig_new, Repr_zero,
    modelK, is_zero_int, eq_int, ne_int, ge_int, gt_int, le_int, lt_int, add_int, neg_int]
  gcases h1 : s = 0 <;> gcases h2 : e = 0
  all_goals (gcases h3 : 0 ≤ e <;> gcases h4 : e + (dub s : Int) < -1)
  all_goals (try rw [uabs_neg e (by omega)])
  all_goals (try rw [sat_sub p e (by omega)])
  all_goals gleaf

theorem split_at_point_internal_is_model (B : Nat) (m : Mode) (c : Coarse) (dub : Int → Nat) (s e : Int) (p : Nat)
    (he : e < 0) :
    FBig_split_at_point_internal (modelK B m c dub) ⟨⟨s, e⟩, ⟨(p : Int)⟩⟩ =
      let r := splitAtPointInternal B dub ⟨⟨s, e⟩, p⟩
      (r.1, r.2.1, (r.2.2 : Int)) := by
  unfold FBig_split_at_point_internal splitAtPointInternal
  try rw [uabs_neg e he]
  simp only [Repr_smaller_than_one, smallerThanOne, modelK, lt_int, add_int, neg_int]
  gcases h4 : e + (dub s : Int) < -1
  all_goals gleaf

theorem split_at_point_is_model (B : Nat) (m : Mode) (c : Coarse) (dub : Int → Nat) (s e : Int) (p : Nat) :
    FBig_split_at_point (modelK B m c dub) ⟨⟨s, e⟩, ⟨(p : Int)⟩⟩ =
      if s = 0 ∧ e ≠ 0 then .error .OperateWithInf
      else .ok (toGB (fSplitAtPoint B dub ⟨⟨s, e⟩, p⟩).1, toGB (fSplitAtPoint B dub ⟨⟨s, e⟩, p⟩).2) := by
  unfold FBig_split_at_point fSplitAtPoint
  simp only [assert_finite, Repr_is_infinite, Repr_smaller_than_one, smallerThanOne, Context_new, FBig_new, Repr_zero, FBig_ZERO,
    FBigM.zero, modelK, is_zero_int, eq_int, ne_int, ge_int, gt_int, le_int, lt_int, add_int, neg_int]
  gcases h1 : s = 0 <;> gcases h2 : e = 0
  all_goals (gcases h3 : 0 ≤ e <;> gcases h4 : e + (dub s : Int) < -1)
  all_goals (try rw [uabs_neg e (by omega)])
  all_goals (try rw [sat_sub p e (by omega)])
  all_goals gleaf

theorem fract_is_model (B : Nat) (m : Mode) (c : Coarse) (dub : Int → Nat) (s e : Int) (p : Nat) :
    FBig_fract (modelK B m c dub) ⟨⟨s, e⟩, ⟨(p : Int)⟩⟩ =
      if s = 0 ∧ e ≠ 0 then .error .OperateWithInf else .ok (toGB (fFract B dub ⟨⟨s, e⟩, p⟩)) := by
  unfold FBig_fract fFract
  gcases h3 : 0 ≤ e
  · simp only [assert_finite, Repr_is_infinite, FBig_ZERO, FBig_new, Repr_zero, Context_new, FBigM.zero, is_zero_int, eq_int,
      ne_int, ge_int]
    gcases h1 : s = 0 <;> gcases h2 : e = 0
    all_goals gleaf
  · rw [split_at_point_internal_is_model B m c dub s e p (by omega)]
    unfold splitAtPointInternal
    try rw [uabs_neg e (by omega)]
    simp only [assert_finite, Repr_is_infinite, Repr_smaller_than_one, smallerThanOne, Context_new, FBig_new, Repr_zero, FBig_ZERO,
      FBigM.zero, modelK, is_zero_int, eq_int, ne_int, ge_int, gt_int, le_int, lt_int, add_int, neg_int]
    gcases h1 : s = 0 <;> gcases h2 : e = 0
    all_goals (gcases h4 : e + (dub s : Int) < -1)
    all_goals gleaf

theorem ceil_is_model (B : Nat) (m : Mode) (c : Coarse) (dub : Int → Nat) (s e : Int) (p : Nat) :
    FBig_ceil (modelK B m c dub) ⟨⟨s, e⟩, ⟨(p : Int)⟩⟩ =
      if s = 0 ∧ e ≠ 0 then .error .OperateWithInf else .ok (toGB (fCeil B c dub ⟨⟨s, e⟩, p⟩)) := by
  unfold FBig_ceil fCeil
  gcases h3 : 0 ≤ e
  · simp only [assert_finite, Repr_is_infinite, Repr_is_zero, Model.Float.FRepr.isZero, is_zero_int, eq_int, ne_int, ge_int]
    gcases h1 : s = 0 <;> gcases h2 : e = 0
    all_goals gleaf
  · rw [split_at_point_internal_is_model B m c dub s e p (by omega)]
    simp only [assert_finite, Repr_is_infinite, Repr_is_zero, Model.Float.FRepr.isZero, Repr_smaller_than_one, smallerThanOne,
      Context_new, FBig_new, Repr_zero, Repr_one, Repr_neg_one, Repr_sign, modelK, is_zero_int, eq_int, ne_int, ge_int, gt_int, le_int,
      lt_int, add_int, neg_int, sign_int]
    gcases h1 : s = 0 <;> gcases h2 : e = 0
    all_goals (gcases h4 : e + (dub s : Int) < -1 <;> gcases h5 : s < 0 <;> gcases h5' : 0 ≤ s <;>
      gcases h6 : e + (dub s : Int) < -2)
    all_goals (try rw [uabs_neg e (by omega)])
    all_goals (try rw [sat_sub p e (by omega)])
    all_goals (try simp only [splitAtPointInternal, smallerThanOne, h4, decide_true, decide_false, if_true, if_false,
      Bool.false_eq_true])
    all_goals (try rw [uabs_neg e (by omega)])
    all_goals (try rw [sat_sub p e (by omega)])
    all_goals gleaf

theorem floor_is_model (B : Nat) (m : Mode) (c : Coarse) (dub : Int → Nat) (s e : Int) (p : Nat) :
    FBig_floor (modelK B m c dub) ⟨⟨s, e⟩, ⟨(p : Int)⟩⟩ =
      if s = 0 ∧ e ≠ 0 then .error .OperateWithInf else .ok (toGB (fFloor B c dub ⟨⟨s, e⟩, p⟩)) := by
  unfold FBig_floor fFloor
  gcases h3 : 0 ≤ e
  · simp only [assert_finite, Repr_is_infinite, Repr_is_zero, Model.Float.FRepr.isZero, is_zero_int, eq_int, ne_int, ge_int]
    gcases h1 : s = 0 <;> gcases h2 : e = 0
    all_goals gleaf
  · rw [split_at_point_internal_is_model B m c dub s e p (by omega)]
    simp only [assert_finite, Repr_is_infinite, Repr_is_zero, Model.Float.FRepr.isZero, Repr_smaller_than_one, smallerThanOne,
      Context_new, FBig_new, Repr_zero, Repr_one, Repr_neg_one, Repr_sign, modelK, is_zero_int, eq_int, ne_int, ge_int, gt_int, le_int,
      lt_int, add_int, neg_int, sign_int]
    gcases h1 : s = 0 <;> gcases h2 : e = 0
    all_goals (gcases h4 : e + (dub s : Int) < -1 <;> gcases h5 : s < 0 <;> gcases h5' : 0 ≤ s <;>
      gcases h6 : e + (dub s : Int) < -2)
    all_goals (try rw [uabs_neg e (by omega)])
    all_goals (try rw [sat_sub p e (by omega)])
    all_goals (try simp only [splitAtPointInternal, smallerThanOne, h4, decide_true, decide_false, if_true, if_false,
      Bool.false_eq_true])
    all_goals (try rw [uabs_neg e (by omega)])
    all_goals (try rw [sat_sub p e (by omega)])
    all_goals gleaf

theorem round_is_model (B : Nat) (m : Mode) (c : Coarse) (dub : Int → Nat) (s e : Int) (p : Nat) :
    FBig_round (modelK B m c dub) ⟨⟨s, e⟩, ⟨(p : Int)⟩⟩ =
      if s = 0 ∧ e ≠ 0 then .error .OperateWithInf else .ok (toGB (fRound B c dub ⟨⟨s, e⟩, p⟩)) := by
  unfold FBig_round fRound
  gcases h3 : 0 ≤ e
  · simp only [assert_finite, Repr_is_infinite, Repr_is_zero, Model.Float.FRepr.isZero, is_zero_int, eq_int, ne_int, ge_int]
    gcases h1 : s = 0 <;> gcases h2 : e = 0
    all_goals gleaf
  · rw [split_at_point_internal_is_model B m c dub s e p (by omega)]
    simp only [assert_finite, Repr_is_infinite, Repr_is_zero, Model.Float.FRepr.isZero, Repr_smaller_than_one, smallerThanOne,
      Context_new, FBig_new, Repr_zero, Repr_one, Repr_neg_one, Repr_sign, modelK, is_zero_int, eq_int, ne_int, ge_int, gt_int, le_int,
      lt_int, add_int, neg_int, sign_int]
    gcases h1 : s = 0 <;> gcases h2 : e = 0
    all_goals (gcases h4 : e + (dub s : Int) < -1 <;> gcases h5 : s < 0 <;> gcases h5' : 0 ≤ s <;>
      gcases h6 : e + (dub s : Int) < -2)
    all_goals (try rw [uabs_neg e (by omega)])
    all_goals (try rw [sat_sub p e (by omega)])
    all_goals (try simp only [splitAtPointInternal, smallerThanOne, h4, decide_true, decide_false, if_true, if_false,
      Bool.false_eq_true])
    all_goals (try rw [uabs_neg e (by omega)])
    all_goals (try rw [sat_sub p e (by omega)])
    all_goals gleaf

/-! ### `Context::repr_round` / `repr_round_ref` (`float/src/repr.rs`) -/

theorem repr_round_is_model (B : Nat) (m : Mode) (c : Coarse) (dub : Int → Nat) (p : Nat) (s e : Int) :
    Context_repr_round (modelK B m c dub) ⟨(p : Int)⟩ ⟨s, e⟩ =
      if s = 0 ∧ e ≠ 0 then .error .OperateWithInf else .ok (toGA toG (reprRound B m c p ⟨s, e⟩)) := by
  unfold Context_repr_round reprRound
  simp only [assert_finite, Repr_is_infinite, Context_is_limited, Model.Float.FRepr.digits, modelK, is_zero_int, eq_int, ne_int,
    ge_int, gt_int, le_int, lt_int, add_int, sub_int, neg_int]
  gcases h1 : s = 0 <;> gcases h2 : e = 0
  all_goals (gcases h3 : p = 0)
  all_goals (by_cases h4 : p < digitsI B s)
  all_goals (first
    | simp only [Int.ofNat_lt, h4, if_true, if_false, toGA, nat_sub_cast _ _ h4, Int.toNat_natCast]
    | simp only [Int.ofNat_lt, h4, if_true, if_false, toGA])
  all_goals gleaf

theorem repr_round_ref_is_model (B : Nat) (m : Mode) (c : Coarse) (dub : Int → Nat) (p : Nat) (s e : Int) :
    Context_repr_round_ref (modelK B m c dub) ⟨(p : Int)⟩ ⟨s, e⟩ =
      if s = 0 ∧ e ≠ 0 then .error .OperateWithInf else .ok (toGA toG (reprRound B m c p ⟨s, e⟩)) := by
  unfold Context_repr_round_ref reprRound
  simp only [assert_finite, Repr_is_infinite, Context_is_limited, Model.Float.FRepr.digits, modelK, is_zero_int, eq_int, ne_int,
    ge_int, gt_int, le_int, lt_int, add_int, sub_int, neg_int]
  gcases h1 : s = 0 <;> gcases h2 : e = 0
  all_goals (gcases h3 : p = 0)
  all_goals (by_cases h4 : p < digitsI B s)
  all_goals (first
    | simp only [Int.ofNat_lt, h4, if_true, if_false, toGA, nat_sub_cast _ _ h4, Int.toNat_natCast]
    | simp only [Int.ofNat_lt, h4, if_true, if_false, toGA])
  all_goals gleaf

end Dashu.Props.GenFloatOps
