import Dashu.Proofs.Float.Closing
import Dashu.Proofs.Float.Review
import Dashu.Proofs.Float.SqrtFlag
/-
  C03 — Float arithmetic honours the documented rounding contract of its mode.

  `Contract B m p x r flag` (`Model/Float/Spec.lean`) over `Rat`: `flag = Exact ⇔ r = x`; otherwise
  `|r − x| < 1 ulp` (`≤ ½ ulp` for HalfEven / HalfAway) where the ulp is that of `x` at `p` digits
  (any `B^e` with `B^(e+p-1) ≤ |x|`); the side condition of the directed modes; `AddOne ⇒ r > x`,
  `SubOne ⇒ r < x`.  Every theorem quantifies over all bases `B ≥ 2`, all precisions `p ≥ 1`, all six
  modes and all operands; `c` is the coarse `f32` test of `round_fract` (any sound oracle), `dub` the
  `digits_ub` estimate.

  The model mirrors /repo including the `fix:` commits 92fc29e (sqrt scaling / Exact flag),
  0d97e26 (far-apart addition stand-in), d197d6e (`sub` from zero) found by this property's check.
  `Context::mul/sqr/cubic` still pre-shrink operands longer than 2p / 3p digits (recorded finding,
  outside "operands that fit p"): `fixed = false` is the code as it is, `fixed = true` without the
  pre-shrink.

  What is proved (all without bound on operand size, exponent gap, base, precision):
  * `repr_round` (C10); `mul` / `*` / `sqr` / `cubic` for operands of at most 2p (3p) digits — in
    particular all operands that fit `p` — and, without the pre-shrink, for all operands;
  * `add` / `sub` for ALL operands that fit `p` (`add_sub_contract`): zero operands, equal exponents,
    and the four alignment branches of `repr_add_large_small` / `repr_add_small_large` (far-apart with
    the sticky stand-in, the two splitting branches, full alignment) composed with the three
    re-alignment branches of `repr_round_sum`; for every sound `digits_ub` estimator;
  * `repr_div` / `/` / `inv` for every dividend and non-zero divisor, `Context::div` for dividends of at
    most `rhs.digits + p` digits; `sqrt` for every non-negative operand (`ContractSqrt`);
  * the documented panics of `div` and `sqrt`;
  * the two closing clauses: a true result representable in `p` digits is returned exactly and flagged
    `Exact` (`representable_exact`, a consequence of the contract: the result lies on the grid of the
    error unit; instances for every operation), and no result carries more than `p+1` digits — with the
    exact conditions under which the `p+1`-st digit can occur (`*_digits`).
  Not covered by theorems (recorded findings, outside "operands that fit p"): `Context::add/sub/mul/
  sqr/cubic/div` on Reprs LONGER than the working length — there the contract is false for the code
  as it is (`mul_preshrink_counterexample`; `repr_round_sum`'s single guard digit is the hypothesis
  `hguard` of `round_sum_contract`).
-/
namespace Dashu.Props.C03
open Dashu Dashu.Model.Float

/-- `FBig * FBig` (all operator forms): one rounding of the exact product -/
theorem mul_operator_contract (B : Nat) (hB : 2 ≤ B) (m : Mode) (c : Coarse) (hc : CoarseSound c)
    (p : Nat) (hp : 1 ≤ p) (a b : FRepr) :
    Contract B m p (a.toRat B * b.toRat B) ((opMul B m c p a b).1.toRat B) (opMul B m c p a b).2 :=
  opMul_contract B hB m c hc p hp a b

/-- `Context::mul` as it is, for operands of at most `2p` digits (every operand that fits `p`): equal to
    the operator form, hence the contract.  (`…_partial`: the hypothesis excludes the pre-shrink.) -/
theorem mul_contract_partial (B : Nat) (hB : 2 ≤ B) (m : Mode) (c : Coarse) (hc : CoarseSound c)
    (p : Nat) (hp : 1 ≤ p) (a b : FRepr) (ha : a.digits B ≤ 2 * p) (hb : b.digits B ≤ 2 * p) :
    Contract B m p (a.toRat B * b.toRat B) ((ctxMul false B m c p a b).1.toRat B) (ctxMul false B m c p a b).2 := by
  rw [ctxMul_asis B m c p a b ha hb, ctxMul_fixed_eq_op]
  exact opMul_contract B hB m c hc p hp a b

/-- without the pre-shrink `Context::mul` honours the contract for all operands -/
theorem mul_contract_fixed (B : Nat) (hB : 2 ≤ B) (m : Mode) (c : Coarse) (hc : CoarseSound c)
    (p : Nat) (hp : 1 ≤ p) (a b : FRepr) :
    Contract B m p (a.toRat B * b.toRat B) ((ctxMul true B m c p a b).1.toRat B) (ctxMul true B m c p a b).2 :=
  opMul_contract B hB m c hc p hp a b

/-- the hypothesis of `mul_contract_partial` is needed: HalfEven, p = 1, base 10: `1.01 × 2.5 = 2.525`.
    The code as it is pre-rounds `1.01` (3 digits > 2p) to `1.0` and returns `2` (`NoOp`): error `0.525 > ½ ulp`;
    without the pre-shrink the result is `3` (`AddOne`). -/
theorem mul_preshrink_counterexample :
    ctxMul false 10 .halfEven coarseNone 1 ⟨101, -2⟩ ⟨25, -1⟩ = (⟨2, 0⟩, some .NoOp) ∧
    ctxMul true 10 .halfEven coarseNone 1 ⟨101, -2⟩ ⟨25, -1⟩ = (⟨3, 0⟩, some .AddOne) ∧
    ¬ (2 * |(2000 : Int) - 2525| ≤ 1000) := by
  refine ⟨by decide +kernel, by decide +kernel, by norm_num⟩

theorem sqr_contract_partial (B : Nat) (hB : 2 ≤ B) (m : Mode) (c : Coarse) (hc : CoarseSound c)
    (p : Nat) (hp : 1 ≤ p) (a : FRepr) (ha : a.digits B ≤ 2 * p) :
    Contract B m p (a.toRat B * a.toRat B) ((ctxSqr false B m c p a).1.toRat B) (ctxSqr false B m c p a).2 := by
  rw [ctxSqr_asis B m c p a ha]
  exact ctxSqr_contract B hB m c hc p hp a

theorem sqr_contract_fixed (B : Nat) (hB : 2 ≤ B) (m : Mode) (c : Coarse) (hc : CoarseSound c)
    (p : Nat) (hp : 1 ≤ p) (a : FRepr) :
    Contract B m p (a.toRat B * a.toRat B) ((ctxSqr true B m c p a).1.toRat B) (ctxSqr true B m c p a).2 :=
  ctxSqr_contract B hB m c hc p hp a

theorem cubic_contract_partial (B : Nat) (hB : 2 ≤ B) (m : Mode) (c : Coarse) (hc : CoarseSound c)
    (p : Nat) (hp : 1 ≤ p) (a : FRepr) (ha : a.digits B ≤ 3 * p) :
    Contract B m p (a.toRat B * a.toRat B * a.toRat B) ((ctxCubic false B m c p a).1.toRat B)
      (ctxCubic false B m c p a).2 := by
  rw [ctxCubic_asis B m c p a ha]
  exact ctxCubic_contract B hB m c hc p hp a

theorem cubic_contract_fixed (B : Nat) (hB : 2 ≤ B) (m : Mode) (c : Coarse) (hc : CoarseSound c)
    (p : Nat) (hp : 1 ≤ p) (a : FRepr) :
    Contract B m p (a.toRat B * a.toRat B * a.toRat B) ((ctxCubic true B m c p a).1.toRat B)
      (ctxCubic true B m c p a).2 :=
  ctxCubic_contract B hB m c hc p hp a

/-- `Context::add` (`rs = 1`) / `Context::sub` (`rs = -1`) whenever the alignment keeps all digits:
    one operand zero (incl. `sub` from zero), equal exponents, or
    `exponent gap + digits of the operand with the larger exponent ≤ p`.
    (for operands of ANY length; the general statement for operands that fit `p` is `add_sub_contract`.) -/
theorem add_sub_contract_partial (B : Nat) (hB : 2 ≤ B) (m : Mode) (c : Coarse) (hc : CoarseSound c)
    (dub : Int → Nat) (p : Nat) (hp : 1 ≤ p) (lhs rhs : FRepr) (rs : Int) (hrs : rs = 1 ∨ rs = -1)
    (hl : Normalized B lhs) (hr : Normalized B rhs)
    (h : lhs.isZero = true ∨ rhs.isZero = true ∨ lhs.exp = rhs.exp ∨
      (rhs.exp < lhs.exp ∧ (lhs.exp - rhs.exp).toNat + lhs.digits B ≤ p) ∨
      (lhs.exp < rhs.exp ∧ (rhs.exp - lhs.exp).toNat + rhs.digits B ≤ p)) :
    Contract B m p (lhs.toRat B + (rs : ℚ) * rhs.toRat B)
      ((ctxAddSub B m c dub p lhs rhs rs).1.toRat B) (ctxAddSub B m c dub p lhs rhs rs).2 :=
  addSub_aligned_contract B hB m c hc dub p hp lhs rhs rs hrs hl hr h

/-- `Context::add` / `sub` in the far-apart branch (the sticky-bit argument): the operand with the larger
    exponent has at most `p` digits, the other one lies more than `digits_ub + 1` digits below it and below
    the rounding position; the result computed from the stand-in `±1` is the rounding of the exact sum.
    Holds for every sound `digits_ub` estimator and small operands of any length. -/
theorem add_sub_far_contract (B : Nat) (hB : 2 ≤ B) (m : Mode) (c : Coarse) (hc : CoarseSound c)
    (dub : Int → Nat) (hdub : DubSound B dub) (p : Nat) (hp : 1 ≤ p) (lhs rhs : FRepr) (rs : Int)
    (hrs : rs = 1 ∨ rs = -1) (hl0 : lhs.signif ≠ 0) (hr0 : rhs.signif ≠ 0)
    (h : (rhs.exp < lhs.exp ∧ lhs.digits B ≤ p ∧
          dub rhs.signif + 1 < (lhs.exp - rhs.exp).toNat ∧
          dub rhs.signif + 1 + (p + if decide (sgn lhs.signif ≠ rs * sgn rhs.signif) = true then 1 else 0) <
            lhs.digits B + (lhs.exp - rhs.exp).toNat) ∨
         (lhs.exp < rhs.exp ∧ rhs.digits B ≤ p ∧
          dub lhs.signif + 1 < (rhs.exp - lhs.exp).toNat ∧
          dub lhs.signif + 1 + (p + if decide (rs * sgn rhs.signif ≠ sgn lhs.signif) = true then 1 else 0) <
            rhs.digits B + (rhs.exp - lhs.exp).toNat)) :
    Contract B m p (lhs.toRat B + (rs : ℚ) * rhs.toRat B)
      ((ctxAddSub B m c dub p lhs rhs rs).1.toRat B) (ctxAddSub B m c dub p lhs rhs rs).2 :=
  addSub_far_contract B hB m c hc dub hdub p hp lhs rhs rs hrs hl0 hr0 h

/-- **`Context::add` (`rs = 1`) / `Context::sub` (`rs = -1`) honour the rounding contract for all operands
    that fit the precision** — every sign, every exponent gap (total overlap to far beyond the precision),
    cancellation to zero or to a single digit, carries into a new digit, operands shorter than `p`; for
    every sound `digits_ub` estimator `dub` and every sound coarse test `c`.
    (`hwl`/`hwr`: a zero significand comes with exponent 0, the invariant of `Repr`.) -/
theorem add_sub_contract (B : Nat) (hB : 2 ≤ B) (m : Mode) (c : Coarse) (hc : CoarseSound c)
    (dub : Int → Nat) (hdub : DubSound B dub) (p : Nat) (hp : 1 ≤ p) (lhs rhs : FRepr) (rs : Int)
    (hrs : rs = 1 ∨ rs = -1) (hl : Normalized B lhs) (hr : Normalized B rhs)
    (hwl : lhs.signif = 0 → lhs.exp = 0) (hwr : rhs.signif = 0 → rhs.exp = 0)
    (hld : lhs.digits B ≤ p) (hrd : rhs.digits B ≤ p) :
    Contract B m p (lhs.toRat B + (rs : ℚ) * rhs.toRat B)
      ((ctxAddSub B m c dub p lhs rhs rs).1.toRat B) (ctxAddSub B m c dub p lhs rhs rs).2 :=
  addSub_fits_contract B hB m c hc dub hdub p hp lhs rhs rs hrs hl hr hwl hwr hld hrd

/-- the operators `a + b`, `a - b` (all four ownership forms and the assign forms; `opAddSub`: since fix 164990d a
    zero operand returns the other one ROUNDED to the `Context::max` precision) return the value of `Context::add` /
    `sub` at that precision for ALL operands — so `add_sub_contract` is also a theorem about the operators.
    (Rounds 3–5 carried `lhs.digits ≤ p`, `rhs.digits ≤ p` here only because the zero-operand arms returned the
    other operand unrounded; the defect is repaired and the hypotheses are gone.) -/
theorem operators_add_sub (B : Nat) (m : Mode) (c : Coarse) (dub : Int → Nat) (p : Nat) (lhs rhs : FRepr) (rs : Int)
    (hrs : rs = 1 ∨ rs = -1) :
    opAddSub B m c dub p lhs rhs rs = (ctxAddSub B m c dub p lhs rhs rs).1 :=
  opAddSub_eq_ctx_all B m c dub p lhs rhs rs hrs

/-- non-vacuity of the dropped hypothesis: `0 + 12345` at `Context::max` precision 2 (HalfEven, base 10) is the
    ROUNDED `12e3` for the operators as for `Context::add` (it was the unrounded 12345 before the fix) -/
example : opAddSub 10 .halfEven coarseNone (fun v => digitsI 10 v) 2 ⟨0, 0⟩ ⟨12345, 0⟩ 1 = ⟨12, 3⟩ := by decide +kernel

/-- **the operators `a + b` / `a - b`** (all ownership and assign forms, `opAddSub` at the `Context::max` precision `p`)
    honour the rounding contract for all operands that fit `p`: the value they return is the value of a contract-meeting
    `Rounded` result (the operators drop the flag, so it is existentially quantified), and a sum representable in `p`
    digits is returned exactly. -/
theorem operators_add_sub_contract (B : Nat) (hB : 2 ≤ B) (m : Mode) (c : Coarse) (hc : CoarseSound c)
    (dub : Int → Nat) (hdub : DubSound B dub) (p : Nat) (hp : 1 ≤ p) (lhs rhs : FRepr) (rs : Int)
    (hrs : rs = 1 ∨ rs = -1) (hl : Normalized B lhs) (hr : Normalized B rhs)
    (hwl : lhs.signif = 0 → lhs.exp = 0) (hwr : rhs.signif = 0 → rhs.exp = 0)
    (hld : lhs.digits B ≤ p) (hrd : rhs.digits B ≤ p) :
    (∃ flag, Contract B m p (lhs.toRat B + (rs : ℚ) * rhs.toRat B) ((opAddSub B m c dub p lhs rhs rs).toRat B) flag) ∧
    (Representable B p (lhs.toRat B + (rs : ℚ) * rhs.toRat B) →
      (opAddSub B m c dub p lhs rhs rs).toRat B = lhs.toRat B + (rs : ℚ) * rhs.toRat B) := by
  rw [operators_add_sub B m c dub p lhs rhs rs hrs]
  have h := add_sub_contract B hB m c hc dub hdub p hp lhs rhs rs hrs hl hr hwl hwr hld hrd
  exact ⟨⟨_, h⟩, fun hrep => (h.representable_exact hB hrep).1⟩

/-- non-vacuity: `1.01e3 − 1.99e1` at 3 digits (HalfEven) through the operator = 990 (the hypotheses are those of the
    `add_sub_contract` example below) -/
example : opAddSub 10 .halfEven coarseNone (digitsI 10) 3 ⟨101, 1⟩ ⟨199, -1⟩ (-1) = ⟨99, 1⟩ := by decide +kernel

/-- `Context::repr_round_sum(signif, exp, (low, lk), is_sub)` in general: the contract for the exact value
    `(signif·B^lk + low)·B^(exp − lk)` under the guard-digit hypothesis `hguard` — which the four
    alignment branches establish for operands that fit `p`, and which fails for longer Reprs. -/
theorem round_sum_contract (B : Nat) (hB : 2 ≤ B) (m : Mode) (c : Coarse) (hc : CoarseSound c)
    (p : Nat) (hp : 1 ≤ p) (s e lv : Int) (lk : Nat) (isSub : Bool)
    (hA : |lv| < ((B ^ lk : Nat) : Int)) (hs0 : s ≠ 0)
    (hsign : isSub = false → (0 ≤ s → 0 ≤ lv) ∧ (s ≤ 0 → lv ≤ 0))
    (hguard : isSub = true → digitsI B s < p + 1 → p + 1 - digitsI B s < lk →
      ((B ^ (lk - (p + 1 - digitsI B s)) : Nat) : Int) * ((B ^ (p - 1) : Nat) : Int) ≤
        |s * ((B ^ lk : Nat) : Int) + lv|) :
    Contract B m p (((s * ((B ^ lk : Nat) : Int) + lv : Int) : ℚ) * bpowQ B (e - lk))
      ((reprRoundSum B m c p s e (lv, lk) isSub).1.toRat B) (reprRoundSum B m c p s e (lv, lk) isSub).2 :=
  reprRoundSum_contract B hB m c hc p hp s e lv lk isSub hA hs0 hsign hguard

/-- `repr_round_sum` with an empty low part: the contract, at `p` or `p+1` digits -/
theorem round_sum_nolow_contract (B : Nat) (hB : 2 ≤ B) (m : Mode) (c : Coarse) (hc : CoarseSound c)
    (p : Nat) (hp : 1 ≤ p) (s e : Int) (isSub : Bool) :
    Contract B m p ((s : ℚ) * bpowQ B e) ((reprRoundSum B m c p s e (0, 0) isSub).1.toRat B)
      (reprRoundSum B m c p s e (0, 0) isSub).2 :=
  reprRoundSum_nolow_contract B hB m c hc p hp s e isSub

/-- **`Context::repr_div`** (the operator `/` at `Context::max`): for every dividend and every
    non-zero divisor the quotient honours the contract (results may carry `p+1` digits). -/
theorem div_contract (B : Nat) (hB : 2 ≤ B) (m : Mode) (p : Nat) (hp : 1 ≤ p) (lhs rhs : FRepr)
    (hb : rhs.signif ≠ 0) :
    ∃ r, reprDiv B m p lhs rhs = .ok r ∧ Contract B m p (lhs.toRat B / rhs.toRat B) (r.1.toRat B) r.2 :=
  reprDiv_contract B hB m p hp lhs rhs hb

/-- `Context::div` for dividends of at most `rhs.digits() + p` digits (all that fit `p`), any digit
    estimators.  (`…_partial`: longer dividends are pre-shrunk — recorded finding.) -/
theorem ctx_div_contract_partial (B : Nat) (hB : 2 ≤ B) (m : Mode) (c : Coarse) (dub dlb : Int → Nat)
    (p : Nat) (hp : 1 ≤ p) (lhs rhs : FRepr) (hb : rhs.signif ≠ 0) (hfit : lhs.digits B ≤ rhs.digits B + p) :
    ∃ r, ctxDiv B m c dub dlb p lhs rhs = .ok r ∧
      Contract B m p (lhs.toRat B / rhs.toRat B) (r.1.toRat B) r.2 := by
  rw [ctxDiv_noshrink B m c dub dlb p lhs rhs hfit]
  exact reprDiv_contract B hB m p hp lhs rhs hb

/-- `Context::inv` -/
theorem inv_contract (B : Nat) (hB : 2 ≤ B) (m : Mode) (p : Nat) (hp : 1 ≤ p) (f : FRepr) (hf : f.signif ≠ 0) :
    ∃ r, ctxInv B m p f = .ok r ∧ Contract B m p ((⟨1, 0⟩ : FRepr).toRat B / f.toRat B) (r.1.toRat B) r.2 :=
  reprDiv_contract B hB m p hp ⟨1, 0⟩ f hf

/-- the documented panics of division: unlimited precision, then division by zero -/
theorem div_panics (B : Nat) (m : Mode) (p : Nat) (lhs rhs : FRepr) :
    (p = 0 → reprDiv B m p lhs rhs = .error .unlimitedPrecision) ∧
    (p ≠ 0 → rhs.signif = 0 → reprDiv B m p lhs rhs = .error .divideByZero) :=
  reprDiv_panics B m p lhs rhs

/-- **`Context::sqrt`** (as repaired by 92fc29e) for every non-negative operand (of any length): `r ≥ 0`,
    `Exact ⇔ r² = x`, otherwise `√x` within one ulp (half an ulp for the nearest modes) of `r`, on the
    side the mode prescribes; every comparison with `√x` is stated on squares (`ContractSqrt`).
    `sr` is the integer kernel `UBig::sqrt_rem`, any function meeting its contract `SqrtRemOk`. -/
theorem sqrt_contract (B : Nat) (hB : 2 ≤ B) (m : Mode) (c : Coarse) (sr : Nat → Nat × Nat) (hsr : SqrtRemOk sr)
    (p : Nat) (hp : 1 ≤ p) (x : FRepr) (hs : 0 ≤ x.signif) :
    ∃ r, ctxSqrt B m c sr p x = .ok r ∧ ContractSqrt B m p (x.toRat B) (r.1.toRat B) r.2 :=
  ctxSqrt_contract B hB m c sr hsr p hp x hs

/-- the integer kernel the driver runs (core `Nat.sqrt`) meets the `sqrt_rem` contract; the link to the
    mirrored `UBig::sqrt_rem` of property C12 is `Props/C03Link.lean` -/
theorem sqrt_kernel_nat : SqrtRemOk natSqrtRem := natSqrtRem_ok

/-- **the `Exact` flag of `Context::sqrt`, structurally**: with `(S, low, k, e) = sqrtScale` (the scaled significand, the
    digits the scaling DISCARDED, their count) and `(root, rem) = sqrt_rem(S)`, the returned flag is `Exact` iff
    `rem = 0` AND `low = 0` — a perfect-square prefix followed by non-zero discarded digits is flagged `Inexact`
    (the defect repaired by 92fc29e looked at `rem` only).  All bases, precisions, modes, non-negative operands of any
    length. -/
theorem sqrt_exact_flag_iff (B : Nat) (hB : 2 ≤ B) (m : Mode) (c : Coarse) (sr : Nat → Nat × Nat) (hsr : SqrtRemOk sr)
    (p : Nat) (hp : 1 ≤ p) (x : FRepr) (hs : 0 ≤ x.signif) :
    ∃ r, ctxSqrt B m c sr p x = .ok r ∧
      (r.2 = none ↔ ((sr (sqrtScale B p x).1.natAbs).2 = 0 ∧ (sqrtScale B p x).2.1 = 0)) := by
  obtain ⟨r, h1, h2⟩ := ctxSqrt_flag B hB m c sr hsr p hp x hs
  exact ⟨r, h1, by rw [h2]; exact sqrtRound_flag_none_iff B m sr _ _ _⟩

/-- … and its consequence for the case the round-5 brief names: whenever the scaling discards non-zero low digits the
    result is flagged `Inexact`, and rightly so — its square differs from the operand -/
theorem sqrt_discarded_low_inexact (B : Nat) (hB : 2 ≤ B) (m : Mode) (c : Coarse) (sr : Nat → Nat × Nat)
    (hsr : SqrtRemOk sr) (p : Nat) (hp : 1 ≤ p) (x : FRepr) (hs : 0 ≤ x.signif) (hlow : (sqrtScale B p x).2.1 ≠ 0) :
    ∃ r adj, ctxSqrt B m c sr p x = .ok (r, some adj) ∧ r.toRat B * r.toRat B ≠ x.toRat B := by
  obtain ⟨r, h1, h2⟩ := sqrt_exact_flag_iff B hB m c sr hsr p hp x hs
  obtain ⟨r', h1', hc⟩ := ctxSqrt_contract B hB m c sr hsr p hp x hs
  have hrr : r' = r := by rw [h1] at h1'; exact (Except.ok.inj h1').symm
  subst hrr
  obtain ⟨v, f⟩ := r'
  cases f with
  | none => exact absurd (h2.mp rfl).2 hlow
  | some adj =>
    refine ⟨v, adj, h1, ?_⟩
    intro he
    have := hc.exact_iff.mpr he
    simp at this

/-- non-vacuity, and the witness of the repaired defect: `√401` at one decimal digit — kept prefix `4 = 2²` (remainder 0),
    discarded digits `01 ≠ 0` — is `2·10¹` flagged Inexact -/
example : ctxSqrt 10 .zero coarseNone natSqrtRem 1 ⟨401, 0⟩ = .ok (⟨2, 1⟩, some .NoOp) ∧
    (sqrtScale 10 1 ⟨401, 0⟩).2.1 = 1 ∧ (natSqrtRem (sqrtScale 10 1 ⟨401, 0⟩).1.natAbs).2 = 0 := by decide +kernel

/-- the documented panics of `sqrt`: unlimited precision first, then a negative operand -/
theorem sqrt_panics (B : Nat) (m : Mode) (c : Coarse) (sr : Nat → Nat × Nat) (p : Nat) (x : FRepr) :
    (p = 0 → ctxSqrt B m c sr p x = .error .unlimitedPrecision) ∧
    (p ≠ 0 → x.signif < 0 → ctxSqrt B m c sr p x = .error .rootNegative) := by
  unfold ctxSqrt
  constructor
  · intro h; simp [h]
  · intro h1 h2; simp [h1, h2]

/-- unlimited precision (`p = 0`): `repr_round` is the identity, flagged `Exact` -/
theorem unlimited_exact (B : Nat) (m : Mode) (c : Coarse) (r : FRepr) : reprRound B m c 0 r = (r, none) :=
  reprRound_unlimited B m c r

/-! ### the recorded findings: excluded regions in closed form

The three remaining `known_findings.jsonl` entries of C03 are keyed by the predicates below (the Python
twins are `vlib.props.c03.kf_long_operand`; digit counts are those of the normalised operands, which is
what `Repr::new` / the driver build).  Outside each region the full contract is a theorem; inside, a
counterexample theorem shows that the code as it is violates it. -/

/-- `Context::mul` pre-shrinks an operand: some operand has more than `2p` digits -/
def MulShrinkRegion (B p : Nat) (a b : FRepr) : Prop := p ≠ 0 ∧ (a.digits B > 2 * p ∨ b.digits B > 2 * p)
/-- `Context::sqr` / `cubic` pre-shrink: more than `2p` / `3p` digits -/
def SqrShrinkRegion (B p : Nat) (a : FRepr) : Prop := p ≠ 0 ∧ a.digits B > 2 * p
def CubicShrinkRegion (B p : Nat) (a : FRepr) : Prop := p ≠ 0 ∧ a.digits B > 3 * p
/-- `Context::div` pre-shrinks the dividend: more than `rhs.digits + p` digits -/
def DivShrinkRegion (B p : Nat) (lhs rhs : FRepr) : Prop := p ≠ 0 ∧ rhs.signif ≠ 0 ∧ lhs.digits B > rhs.digits B + p
/-- `Context::add` / `sub` beyond the single guard digit: an operand longer than the precision -/
def AddLongRegion (B p : Nat) (lhs rhs : FRepr) : Prop := p ≠ 0 ∧ (lhs.digits B > p ∨ rhs.digits B > p)

theorem mul_contract_outside_region (B : Nat) (hB : 2 ≤ B) (m : Mode) (c : Coarse) (hc : CoarseSound c)
    (p : Nat) (hp : 1 ≤ p) (a b : FRepr) (h : ¬ MulShrinkRegion B p a b) :
    Contract B m p (a.toRat B * b.toRat B) ((ctxMul false B m c p a b).1.toRat B) (ctxMul false B m c p a b).2 := by
  unfold MulShrinkRegion at h
  exact mul_contract_partial B hB m c hc p hp a b (by omega) (by omega)

theorem sqr_contract_outside_region (B : Nat) (hB : 2 ≤ B) (m : Mode) (c : Coarse) (hc : CoarseSound c)
    (p : Nat) (hp : 1 ≤ p) (a : FRepr) (h : ¬ SqrShrinkRegion B p a) :
    Contract B m p (a.toRat B * a.toRat B) ((ctxSqr false B m c p a).1.toRat B) (ctxSqr false B m c p a).2 := by
  unfold SqrShrinkRegion at h
  exact sqr_contract_partial B hB m c hc p hp a (by omega)

theorem cubic_contract_outside_region (B : Nat) (hB : 2 ≤ B) (m : Mode) (c : Coarse) (hc : CoarseSound c)
    (p : Nat) (hp : 1 ≤ p) (a : FRepr) (h : ¬ CubicShrinkRegion B p a) :
    Contract B m p (a.toRat B * a.toRat B * a.toRat B) ((ctxCubic false B m c p a).1.toRat B)
      (ctxCubic false B m c p a).2 := by
  unfold CubicShrinkRegion at h
  exact cubic_contract_partial B hB m c hc p hp a (by omega)

theorem div_contract_outside_region (B : Nat) (hB : 2 ≤ B) (m : Mode) (c : Coarse) (dub dlb : Int → Nat)
    (p : Nat) (hp : 1 ≤ p) (lhs rhs : FRepr) (hb : rhs.signif ≠ 0) (h : ¬ DivShrinkRegion B p lhs rhs) :
    ∃ r, ctxDiv B m c dub dlb p lhs rhs = .ok r ∧
      Contract B m p (lhs.toRat B / rhs.toRat B) (r.1.toRat B) r.2 := by
  unfold DivShrinkRegion at h
  exact ctx_div_contract_partial B hB m c dub dlb p hp lhs rhs hb (by omega)

theorem add_sub_contract_outside_region (B : Nat) (hB : 2 ≤ B) (m : Mode) (c : Coarse) (hc : CoarseSound c)
    (dub : Int → Nat) (hdub : DubSound B dub) (p : Nat) (hp : 1 ≤ p) (lhs rhs : FRepr) (rs : Int)
    (hrs : rs = 1 ∨ rs = -1) (hl : Normalized B lhs) (hr : Normalized B rhs)
    (hwl : lhs.signif = 0 → lhs.exp = 0) (hwr : rhs.signif = 0 → rhs.exp = 0)
    (h : ¬ AddLongRegion B p lhs rhs) :
    Contract B m p (lhs.toRat B + (rs : ℚ) * rhs.toRat B)
      ((ctxAddSub B m c dub p lhs rhs rs).1.toRat B) (ctxAddSub B m c dub p lhs rhs rs).2 := by
  unfold AddLongRegion at h
  exact add_sub_contract B hB m c hc dub hdub p hp lhs rhs rs hrs hl hr hwl hwr (by omega) (by omega)

/-- inside `DivShrinkRegion` the contract fails for the code as it is: base 16, p = 2, HalfAway,
    `0x17ff·16⁻² / (−2·16²)`: the dividend (4 digits > 1 + 2) is pre-rounded to `0x18·16⁰`, the quotient
    `−0xc·16⁻²` is returned flagged `Exact`, but `0x17ff` is odd, so the true quotient is not `−0xc·16⁻²`
    (`0x17ff ≠ 2 · 0xc · 16²`). -/
theorem div_preshrink_counterexample :
    ctxDiv 16 .halfAway coarseNone (digitsI 16) (digitsI 16) 2 ⟨0x17ff, -2⟩ ⟨-2, 2⟩ = .ok (⟨-0xc, -2⟩, none) ∧
    (0x17ff : Int) ≠ 2 * 0xc * 16 ^ 2 ∧
    (⟨0x17ff, -2⟩ : FRepr).digits 16 > (⟨-2, 2⟩ : FRepr).digits 16 + 2 := by
  refine ⟨by decide +kernel, by decide, by decide +kernel⟩

/-- inside `AddLongRegion` the contract fails for the code as it is: base 36, p = 1, Down,
    `21·36⁴⁰ − 979775·36³⁷ = 1·36³⁷` exactly (`21·36³ − 979775 = 1`), but the cancellation is deeper than
    the single guard digit and the code returns `0` flagged `Inexact(SubOne)`. -/
theorem add_guard_digit_counterexample :
    ctxAddSub 36 .down coarseNone (digitsI 36) 1 ⟨21, 40⟩ ⟨-979775, 37⟩ 1 = (⟨0, 0⟩, some .SubOne) ∧
    (21 : Int) * 36 ^ 3 - 979775 = 1 ∧ (⟨-979775, 37⟩ : FRepr).digits 36 > 1 := by
  refine ⟨by decide +kernel, by decide, by decide +kernel⟩

/-! ### closing clause 1: `x` representable in `p` digits ⇒ the result is `x`, flagged `Exact`

`Representable B p x :⇔ ∃ M j, |M| < B^p ∧ x = M · B^j`. -/

/-- the clause is a consequence of the contract, for every operation at once -/
theorem representable_exact (B : Nat) (hB : 2 ≤ B) (m : Mode) (p : Nat) (x r : ℚ) (flag : Option Rounding)
    (h : Contract B m p x r flag) (hrep : Representable B p x) : r = x ∧ flag = none :=
  h.representable_exact hB hrep

/-- … and of `ContractSqrt`: if `√v` is a `p`-digit number `w`, the result is `w`, flagged `Exact` -/
theorem sqrt_representable_exact_of_contract (B : Nat) (hB : 2 ≤ B) (m : Mode) (p : Nat) (v r : ℚ)
    (flag : Option Rounding) (h : ContractSqrt B m p v r flag) (w : ℚ) (hw0 : 0 ≤ w)
    (hrep : Representable B p w) (hwv : w * w = v) : r = w ∧ flag = none :=
  h.representable_exact hB w hw0 hrep hwv

theorem add_sub_representable_exact (B : Nat) (hB : 2 ≤ B) (m : Mode) (c : Coarse) (hc : CoarseSound c)
    (dub : Int → Nat) (hdub : DubSound B dub) (p : Nat) (hp : 1 ≤ p) (lhs rhs : FRepr) (rs : Int)
    (hrs : rs = 1 ∨ rs = -1) (hl : Normalized B lhs) (hr : Normalized B rhs)
    (hwl : lhs.signif = 0 → lhs.exp = 0) (hwr : rhs.signif = 0 → rhs.exp = 0)
    (hld : lhs.digits B ≤ p) (hrd : rhs.digits B ≤ p)
    (hrep : Representable B p (lhs.toRat B + (rs : ℚ) * rhs.toRat B)) :
    (ctxAddSub B m c dub p lhs rhs rs).1.toRat B = lhs.toRat B + (rs : ℚ) * rhs.toRat B ∧
    (ctxAddSub B m c dub p lhs rhs rs).2 = none :=
  (addSub_fits_contract B hB m c hc dub hdub p hp lhs rhs rs hrs hl hr hwl hwr hld hrd).representable_exact hB hrep

theorem mul_representable_exact (B : Nat) (hB : 2 ≤ B) (m : Mode) (c : Coarse) (hc : CoarseSound c)
    (p : Nat) (hp : 1 ≤ p) (a b : FRepr) (hrep : Representable B p (a.toRat B * b.toRat B)) :
    (opMul B m c p a b).1.toRat B = a.toRat B * b.toRat B ∧ (opMul B m c p a b).2 = none :=
  (opMul_contract B hB m c hc p hp a b).representable_exact hB hrep

theorem sqr_representable_exact (B : Nat) (hB : 2 ≤ B) (m : Mode) (c : Coarse) (hc : CoarseSound c)
    (p : Nat) (hp : 1 ≤ p) (a : FRepr) (hrep : Representable B p (a.toRat B * a.toRat B)) :
    (ctxSqr true B m c p a).1.toRat B = a.toRat B * a.toRat B ∧ (ctxSqr true B m c p a).2 = none :=
  (ctxSqr_contract B hB m c hc p hp a).representable_exact hB hrep

theorem cubic_representable_exact (B : Nat) (hB : 2 ≤ B) (m : Mode) (c : Coarse) (hc : CoarseSound c)
    (p : Nat) (hp : 1 ≤ p) (a : FRepr) (hrep : Representable B p (a.toRat B * a.toRat B * a.toRat B)) :
    (ctxCubic true B m c p a).1.toRat B = a.toRat B * a.toRat B * a.toRat B ∧ (ctxCubic true B m c p a).2 = none :=
  (ctxCubic_contract B hB m c hc p hp a).representable_exact hB hrep

theorem div_representable_exact (B : Nat) (hB : 2 ≤ B) (m : Mode) (p : Nat) (hp : 1 ≤ p) (lhs rhs : FRepr)
    (hb : rhs.signif ≠ 0) (hrep : Representable B p (lhs.toRat B / rhs.toRat B)) :
    ∃ r, reprDiv B m p lhs rhs = .ok r ∧ r.1.toRat B = lhs.toRat B / rhs.toRat B ∧ r.2 = none := by
  obtain ⟨r, h1, h2⟩ := reprDiv_contract B hB m p hp lhs rhs hb
  exact ⟨r, h1, h2.representable_exact hB hrep⟩

/-! round 7: the same clause for the `Context` methods AS THEY ARE (`fixed = false`, `ctxDiv`) on operands that fit -/

/-- closing clause 1 for `Context::mul` as it is (operands of at most `2p` digits — all that fit `p`) -/
theorem ctx_mul_representable_exact (B : Nat) (hB : 2 ≤ B) (m : Mode) (c : Coarse) (hc : CoarseSound c)
    (p : Nat) (hp : 1 ≤ p) (a b : FRepr) (ha : a.digits B ≤ 2 * p) (hb : b.digits B ≤ 2 * p)
    (hrep : Representable B p (a.toRat B * b.toRat B)) :
    (ctxMul false B m c p a b).1.toRat B = a.toRat B * b.toRat B ∧ (ctxMul false B m c p a b).2 = none :=
  (mul_contract_partial B hB m c hc p hp a b ha hb).representable_exact hB hrep

/-- … for `Context::sqr` as it is -/
theorem ctx_sqr_representable_exact (B : Nat) (hB : 2 ≤ B) (m : Mode) (c : Coarse) (hc : CoarseSound c)
    (p : Nat) (hp : 1 ≤ p) (a : FRepr) (ha : a.digits B ≤ 2 * p)
    (hrep : Representable B p (a.toRat B * a.toRat B)) :
    (ctxSqr false B m c p a).1.toRat B = a.toRat B * a.toRat B ∧ (ctxSqr false B m c p a).2 = none :=
  (sqr_contract_partial B hB m c hc p hp a ha).representable_exact hB hrep

/-- … for `Context::cubic` as it is -/
theorem ctx_cubic_representable_exact (B : Nat) (hB : 2 ≤ B) (m : Mode) (c : Coarse) (hc : CoarseSound c)
    (p : Nat) (hp : 1 ≤ p) (a : FRepr) (ha : a.digits B ≤ 3 * p)
    (hrep : Representable B p (a.toRat B * a.toRat B * a.toRat B)) :
    (ctxCubic false B m c p a).1.toRat B = a.toRat B * a.toRat B * a.toRat B ∧ (ctxCubic false B m c p a).2 = none :=
  (cubic_contract_partial B hB m c hc p hp a ha).representable_exact hB hrep

/-- … for `Context::div` (dividends that fit) -/
theorem ctx_div_representable_exact (B : Nat) (hB : 2 ≤ B) (m : Mode) (c : Coarse) (dub dlb : Int → Nat)
    (p : Nat) (hp : 1 ≤ p) (lhs rhs : FRepr) (hb : rhs.signif ≠ 0) (hfit : lhs.digits B ≤ rhs.digits B + p)
    (hrep : Representable B p (lhs.toRat B / rhs.toRat B)) :
    ∃ r, ctxDiv B m c dub dlb p lhs rhs = .ok r ∧ r.1.toRat B = lhs.toRat B / rhs.toRat B ∧ r.2 = none := by
  obtain ⟨r, h1, h2⟩ := ctx_div_contract_partial B hB m c dub dlb p hp lhs rhs hb hfit
  exact ⟨r, h1, h2.representable_exact hB hrep⟩

theorem sqrt_representable_exact (B : Nat) (hB : 2 ≤ B) (m : Mode) (c : Coarse) (sr : Nat → Nat × Nat)
    (hsr : SqrtRemOk sr) (p : Nat) (hp : 1 ≤ p)
    (x : FRepr) (hs : 0 ≤ x.signif) (w : ℚ) (hw0 : 0 ≤ w) (hrep : Representable B p w)
    (hwv : w * w = x.toRat B) :
    ∃ r, ctxSqrt B m c sr p x = .ok r ∧ r.1.toRat B = w ∧ r.2 = none := by
  obtain ⟨r, h1, h2⟩ := ctxSqrt_contract B hB m c sr hsr p hp x hs
  exact ⟨r, h1, h2.representable_exact hB w hw0 hrep hwv⟩

/-! ### closing clause 2: no result carries more than `p+1` significant digits — and when the `p+1`-st
    digit can occur at all -/

/-- `repr_round` (hence `with_precision`, `mul`, `sqr`, `cubic`, `sqrt`): never more than `p` digits -/
theorem repr_round_digits (B : Nat) (hB : 2 ≤ B) (m : Mode) (c : Coarse) (p : Nat) (hp : 1 ≤ p) (r : FRepr) :
    (reprRound B m c p r).1.digits B ≤ p := reprRound_digits_le B hB m c p hp r

theorem mul_sqr_cubic_digits (fixed : Bool) (B : Nat) (hB : 2 ≤ B) (m : Mode) (c : Coarse) (p : Nat) (hp : 1 ≤ p)
    (a b : FRepr) :
    (ctxMul fixed B m c p a b).1.digits B ≤ p ∧ (opMul B m c p a b).1.digits B ≤ p ∧
    (ctxSqr fixed B m c p a).1.digits B ≤ p ∧ (ctxCubic fixed B m c p a).1.digits B ≤ p :=
  ⟨ctxMul_digits_le fixed B hB m c p hp a b, ctxMul_digits_le true B hB m c p hp a b,
   ctxSqr_digits_le fixed B hB m c p hp a, ctxCubic_digits_le fixed B hB m c p hp a⟩

theorem sqrt_digits (B : Nat) (hB : 2 ≤ B) (m : Mode) (c : Coarse) (sr : Nat → Nat × Nat) (p : Nat) (hp : 1 ≤ p)
    (x : FRepr) (hs : 0 ≤ x.signif) : ∃ r, ctxSqrt B m c sr p x = .ok r ∧ r.1.digits B ≤ p :=
  ctxSqrt_digits_le B hB m c sr p hp x hs

/-- `add` / `sub` (operands of any length): at most `p+1` digits; at most `p` unless the operation is an
    effective subtraction (`sign lhs ≠ rs · sign rhs`) of non-zero operands with different exponents —
    exactly the case in which `repr_round_sum` keeps its guard digit -/
theorem add_sub_digits (B : Nat) (hB : 2 ≤ B) (m : Mode) (c : Coarse) (dub : Int → Nat)
    (p : Nat) (hp : 1 ≤ p) (lhs rhs : FRepr) (rs : Int) (hrs : rs = 1 ∨ rs = -1)
    (hwl : lhs.signif = 0 → lhs.exp = 0) (hwr : rhs.signif = 0 → rhs.exp = 0) :
    (ctxAddSub B m c dub p lhs rhs rs).1.digits B ≤ p + 1 ∧
    ((lhs.isZero = true ∨ rhs.isZero = true ∨ lhs.exp = rhs.exp ∨ sgn lhs.signif = rs * sgn rhs.signif) →
      (ctxAddSub B m c dub p lhs rhs rs).1.digits B ≤ p) :=
  ctxAddSub_digits_le B hB m c dub p hp lhs rhs rs hrs hwl hwr

/-- `repr_div` / `inv` (dividend of at most `rhs.digits + p` digits): at most `p+1` digits; at most `p`
    whenever the integer quotient of the significands is non-zero and below `B^p` — so for operands that
    fit `p` the `p+1`-st digit can appear only when `|lhs.signif| < |rhs.signif|` (e.g. `2/13` at 2 digits
    = `0.153`) -/
theorem div_digits (B : Nat) (hB : 2 ≤ B) (m : Mode) (p : Nat) (hp : 1 ≤ p) (lhs rhs : FRepr)
    (hb : rhs.signif ≠ 0) (hfit : lhs.digits B ≤ rhs.digits B + p) :
    ∃ r, reprDiv B m p lhs rhs = .ok r ∧ r.1.digits B ≤ p + 1 ∧
      (Int.tdiv lhs.signif rhs.signif ≠ 0 → |Int.tdiv lhs.signif rhs.signif| < ((B ^ p : Nat) : Int) →
        r.1.digits B ≤ p) :=
  reprDiv_digits_le B hB m p hp lhs rhs hb hfit

/-! round 7: the digit clause for `Context::div` itself -/

/-- **`Context::div`, digit clause with NO fit hypothesis**: for every dividend (of any length), every non-zero
    divisor and every sound pair of digit estimators the quotient carries at most `p+1` digits — an over-long
    dividend is pre-shrunk to `rhs.digits + p` digits, a dividend that is not pre-shrunk has at most that many. -/
theorem ctx_div_digits_all (B : Nat) (hB : 2 ≤ B) (m : Mode) (c : Coarse) (dub dlb : Int → Nat)
    (hdub : DubSound B dub) (hdlb : DlbSound B dlb) (p : Nat) (hp : 1 ≤ p) (lhs rhs : FRepr) (hb : rhs.signif ≠ 0) :
    ∃ r, ctxDiv B m c dub dlb p lhs rhs = .ok r ∧ r.1.digits B ≤ p + 1 := by
  unfold ctxDiv
  split
  · obtain ⟨r, h1, h2, _⟩ := reprDiv_digits_le B hB m p hp (reprRound B m c (rhs.digits B + p) lhs).1 rhs hb
      (reprRound_digits_le B hB m c (rhs.digits B + p) (by omega) lhs)
    exact ⟨r, h1, h2⟩
  · rename_i hns
    have hfit : lhs.digits B ≤ rhs.digits B + p := by
      by_cases hz : lhs.isZero = true
      · have h0 : lhs.signif = 0 := by
          unfold FRepr.isZero at hz
          simp only [Bool.and_eq_true, beq_iff_eq] at hz
          exact hz.1
        unfold FRepr.digits; rw [h0, digitsI_zero]; omega
      · have h1 : ¬ (dub lhs.signif > dlb rhs.signif + p) := fun h => hns ⟨hz, h⟩
        have h2 := hdub lhs.signif
        have h3 := hdlb rhs.signif
        unfold FRepr.digits; omega
    obtain ⟨r, h1, h2, _⟩ := reprDiv_digits_le B hB m p hp lhs rhs hb hfit
    exact ⟨r, h1, h2⟩

/-- `Context::div` for dividends that fit (`≤ rhs.digits + p` digits): the full digit clause of `div_digits` -/
theorem ctx_div_digits (B : Nat) (hB : 2 ≤ B) (m : Mode) (c : Coarse) (dub dlb : Int → Nat) (p : Nat) (hp : 1 ≤ p)
    (lhs rhs : FRepr) (hb : rhs.signif ≠ 0) (hfit : lhs.digits B ≤ rhs.digits B + p) :
    ∃ r, ctxDiv B m c dub dlb p lhs rhs = .ok r ∧ r.1.digits B ≤ p + 1 ∧
      (Int.tdiv lhs.signif rhs.signif ≠ 0 → |Int.tdiv lhs.signif rhs.signif| < ((B ^ p : Nat) : Int) →
        r.1.digits B ≤ p) := by
  rw [ctxDiv_noshrink B m c dub dlb p lhs rhs hfit]
  exact reprDiv_digits_le B hB m p hp lhs rhs hb hfit

/-! ### non-vacuity -/

-- 9.9 × 9.9 = 98.01 at 2 digits, HalfAway: 98 (NoOp); the operands fit p
example : opMul 10 .halfAway coarseNone 2 ⟨99, -1⟩ ⟨99, -1⟩ = (⟨98, 0⟩, some .NoOp) := by decide +kernel
-- 2^10 + 1 at 5 bits, base 2, HalfAway (the far-apart branch, repaired stand-in): 2^10, NoOp
example : ctxAddSub 2 .halfAway coarseNone (digitsI 2) 5 ⟨1, 10⟩ ⟨1, 0⟩ 1 = (⟨1, 10⟩, some .NoOp) := by decide +kernel
-- aligned addition meeting the hypothesis of `add_sub_contract_partial`: 12e1 + 7 at 3 digits = 127 exactly
example : ctxAddSub 10 .zero coarseNone (digitsI 10) 3 ⟨12, 1⟩ ⟨7, 0⟩ 1 = (⟨127, 0⟩, none) ∧
    (((⟨12, 1⟩ : FRepr).exp - (⟨7, 0⟩ : FRepr).exp).toNat + (⟨12, 1⟩ : FRepr).digits 10 ≤ 3) := by
  decide +kernel
-- sqrt(2.1) at 2 digits, HalfAway: 1.4 (NoOp) — 1.5 before fix 92fc29e
example : ctxSqrt 10 .halfAway coarseNone natSqrtRem 2 ⟨21, -1⟩ = .ok (⟨14, -1⟩, some .NoOp) := by decide +kernel

-- every hypothesis of `add_sub_contract` on concrete operands of the splitting branch with cancellation:
-- 1.01e3 − 1.99e1 at 3 digits (HalfEven) = 990 (SubOne)
example : Normalized 10 ⟨101, 1⟩ ∧ Normalized 10 ⟨199, -1⟩ ∧ (⟨101, 1⟩ : FRepr).digits 10 ≤ 3 ∧
    (⟨199, -1⟩ : FRepr).digits 10 ≤ 3 ∧ DubSound 10 (digitsI 10) ∧
    ctxAddSub 10 .halfEven coarseNone (digitsI 10) 3 ⟨101, 1⟩ ⟨199, -1⟩ (-1) = (⟨99, 1⟩, some .SubOne) := by
  refine ⟨by unfold Normalized; decide, by unfold Normalized; decide, by decide +kernel, by decide +kernel,
    fun _ => le_refl _, by decide +kernel⟩
-- `Representable`: 1.2 × 0.5 = 0.6 has one digit, so at 2 digits the product must be exact
example : Representable 10 2 ((⟨12, -1⟩ : FRepr).toRat 10 * (⟨5, -1⟩ : FRepr).toRat 10) ∧
    opMul 10 .up coarseNone 2 ⟨12, -1⟩ ⟨5, -1⟩ = (⟨6, -1⟩, none) := by
  refine ⟨⟨6, -1, by decide, ?_⟩, by decide +kernel⟩
  simp [FRepr.toRat, bpowQ]; norm_num
-- hypotheses of `div_contract` / `sqrt_contract`: a non-zero divisor, a non-negative radicand
example : (⟨13, 0⟩ : FRepr).signif ≠ 0 ∧ (0 : Int) ≤ (⟨21, -1⟩ : FRepr).signif ∧ SqrtRemOk natSqrtRem :=
  ⟨by decide, by decide, natSqrtRem_ok⟩
-- the p+1-st digit does occur: 2 / 13 at 2 digits (mode Zero) is 153e-3; 26 / 13 is exact
example : reprDiv 10 .zero 2 ⟨2, 0⟩ ⟨13, 0⟩ = .ok (⟨153, -3⟩, some .NoOp) ∧
    reprDiv 10 .zero 2 ⟨26, 0⟩ ⟨13, 0⟩ = .ok (⟨2, 0⟩, none) := by decide +kernel
-- … and in a subtraction: 12e10 − 1 at 2 digits (mode Zero) keeps the guard digit: 119e9
example : ctxAddSub 10 .zero coarseNone (digitsI 10) 2 ⟨12, 10⟩ ⟨1, 0⟩ (-1) = (⟨119, 9⟩, some .SubOne) := by
  decide +kernel

/-- non-vacuity of `ctx_div_digits_all` OUTSIDE the fit region (the dividend IS pre-shrunk), and the `p+1`-st digit does
    occur there: `200456 / 13` at 2 digits, base 10, mode Zero: 6 digits > 2 + 2, dividend pre-rounded to `2004e2`,
    quotient `154e2` (3 = p+1 digits); the exact estimators are sound -/
example : DubSound 10 (digitsI 10) ∧ DlbSound 10 (digitsI 10) ∧
    (⟨200456, 0⟩ : FRepr).digits 10 > (⟨13, 0⟩ : FRepr).digits 10 + 2 ∧
    ctxDiv 10 .zero coarseNone (digitsI 10) (digitsI 10) 2 ⟨200456, 0⟩ ⟨13, 0⟩ = .ok (⟨154, 2⟩, some .NoOp) :=
  ⟨fun _ => le_refl _, fun _ => le_refl _, by decide +kernel, by decide +kernel⟩

/-- non-vacuity of the `Context` instances of closing clause 1: `1.2 × 0.5`, `0.5²`, `0.2³`, `2.6 / 1.3` at 2 digits -/
example : ctxMul false 10 .up coarseNone 2 ⟨12, -1⟩ ⟨5, -1⟩ = (⟨6, -1⟩, none) ∧
    ctxSqr false 10 .up coarseNone 2 ⟨5, -1⟩ = (⟨25, -2⟩, none) ∧
    ctxCubic false 10 .up coarseNone 2 ⟨2, -1⟩ = (⟨8, -3⟩, none) ∧
    ctxDiv 10 .up coarseNone (digitsI 10) (digitsI 10) 2 ⟨26, -1⟩ ⟨13, -1⟩ = .ok (⟨2, 0⟩, none) := by
  decide +kernel

/-! ### round 8: closing clause 1 INSIDE the regions of the findings — proved for `Context::div` (vacuous in `DivShrinkRegion`
    for normalised dividends, so the fit hypothesis goes), refuted for `Context::mul` and `Context::add/sub` -/

/-- a representable quotient forces the dividend to be representable in `rhs.digits + p` digits -/
theorem dividend_representable (B : Nat) (hB : 2 ≤ B) (p : Nat) (lhs rhs : FRepr) (hb : rhs.signif ≠ 0)
    (hrep : Representable B p (lhs.toRat B / rhs.toRat B)) : Representable B (rhs.digits B + p) (lhs.toRat B) := by
  have hB0 : 0 < B := by omega
  obtain ⟨M, j, hM, hx⟩ := hrep
  refine ⟨M * rhs.signif, j + rhs.exp, ?_, ?_⟩
  · rw [Int.natAbs_mul, Nat.add_comm, pow_add]
    have h2 : rhs.signif.natAbs < B ^ rhs.digits B := digitsI_upper B hB rhs.signif
    exact Nat.mul_lt_mul'' hM h2
  · have hr0 : rhs.toRat B ≠ 0 := by
      unfold FRepr.toRat
      exact mul_ne_zero (by exact_mod_cast hb) (bpowQ_pos B hB0 _).ne'
    have h3 : lhs.toRat B = (lhs.toRat B / rhs.toRat B) * rhs.toRat B := by field_simp
    rw [h3, hx, bpowQ_add B hB0]
    unfold FRepr.toRat
    push_cast
    ring

/-- a normalised `Repr` (what `Repr::new` builds: significand not divisible by `B`) whose VALUE is representable in `q ≥ 1`
    digits HAS at most `q` digits (`repr_round` to `q` digits would be flagged `Exact` by its contract, and the shrinking
    branch never returns that flag) -/
theorem normalized_representable_digits (B : Nat) (hB : 2 ≤ B) (q : Nat) (hq : 1 ≤ q) (x : FRepr) (hn : Normalized B x)
    (hrep : Representable B q (x.toRat B)) : x.digits B ≤ q := by
  have hc : CoarseSound coarseNone := by intro _ _ _ _ h; cases h
  have h2 : (reprRound B .zero coarseNone q x).2 = none :=
    ((reprRound_contract B hB .zero coarseNone hc q hq x hn).representable_exact hB hrep).2
  by_contra hd
  have hd' : x.digits B > q := by omega
  have hq0 : q ≠ 0 := by omega
  unfold reprRound at h2
  simp only [hq0, if_false, hd', if_true] at h2
  cases h2

/-- closing clause 1 is VACUOUS inside `DivShrinkRegion` for every value in memory: a normalised dividend longer than
    `rhs.digits + p` digits never has a quotient representable in `p` digits -/
theorem div_region_not_representable (B : Nat) (hB : 2 ≤ B) (p : Nat) (lhs rhs : FRepr) (hn : Normalized B lhs)
    (h : DivShrinkRegion B p lhs rhs) : ¬ Representable B p (lhs.toRat B / rhs.toRat B) := by
  intro hrep
  obtain ⟨hp, hb, hlong⟩ := h
  have := normalized_representable_digits B hB (rhs.digits B + p) (by omega) lhs hn
    (dividend_representable B hB p lhs rhs hb hrep)
  omega

/-- HYPOTHESIS `hfit` of `ctx_div_representable_exact` DROPPED: closing clause 1 for `Context::div` as it is, EVERY normalised
    dividend of any length, any (even unsound) digit estimators: a representable quotient is returned exactly, flagged `Exact`. -/
theorem ctx_div_representable_exact_all (B : Nat) (hB : 2 ≤ B) (m : Mode) (c : Coarse)
    (dub dlb : Int → Nat) (p : Nat) (hp : 1 ≤ p) (lhs rhs : FRepr) (hb : rhs.signif ≠ 0) (hn : Normalized B lhs)
    (hrep : Representable B p (lhs.toRat B / rhs.toRat B)) :
    ∃ r, ctxDiv B m c dub dlb p lhs rhs = .ok r ∧ r.1.toRat B = lhs.toRat B / rhs.toRat B ∧ r.2 = none :=
  ctx_div_representable_exact B hB m c dub dlb p hp lhs rhs hb
    (normalized_representable_digits B hB (rhs.digits B + p) (by omega) lhs hn
      (dividend_representable B hB p lhs rhs hb hrep)) hrep

/-- non-vacuity: 2197/13 @p=3 = 169; the estimators (sound, one digit slack each) DO trigger the pre-shrink (5 > 1+3) -/
example : Normalized 10 ⟨2197, 0⟩ ∧ Representable 10 3 ((⟨2197, 0⟩ : FRepr).toRat 10 / (⟨13, 0⟩ : FRepr).toRat 10) ∧
    ctxDiv 10 .zero coarseNone (fun v => digitsI 10 v + 1) (fun v => digitsI 10 v - 1) 3 ⟨2197, 0⟩ ⟨13, 0⟩
      = .ok (⟨169, 0⟩, none) ∧
    (fun v => digitsI 10 v + 1) (2197 : Int) > (fun v => digitsI 10 v - 1) (13 : Int) + 3 := by
  refine ⟨Or.inr (by decide), ⟨169, 0, by decide, ?_⟩, by decide +kernel, by decide +kernel⟩
  simp only [FRepr.toRat, bpowQ_eq_zpow]; norm_num

/-- REFUTED inside `MulShrinkRegion` (directed modes): base 10, p = 2, Zero: `390625 × 64 = 25·10⁶` is representable in 2
    digits, but the code as it is pre-rounds `390625` (6 digits > 2p) to `3906e2`, forms `249984e2` and returns `24e6`
    flagged `Inexact`; without the pre-shrink the result is `25e6`, `Exact`. -/
theorem mul_representable_preshrink_counterexample :
    MulShrinkRegion 10 2 ⟨390625, 0⟩ ⟨64, 0⟩ ∧ Normalized 10 ⟨390625, 0⟩ ∧ Normalized 10 ⟨64, 0⟩ ∧
    Representable 10 2 ((⟨390625, 0⟩ : FRepr).toRat 10 * (⟨64, 0⟩ : FRepr).toRat 10) ∧
    ctxMul false 10 .zero coarseNone 2 ⟨390625, 0⟩ ⟨64, 0⟩ = (⟨24, 6⟩, some .NoOp) ∧
    (⟨24, 6⟩ : FRepr).toRat 10 ≠ (⟨390625, 0⟩ : FRepr).toRat 10 * (⟨64, 0⟩ : FRepr).toRat 10 ∧
    ctxMul true 10 .zero coarseNone 2 ⟨390625, 0⟩ ⟨64, 0⟩ = (⟨25, 6⟩, none) := by
  refine ⟨⟨by decide, Or.inl (by decide +kernel)⟩, Or.inr (by decide), Or.inr (by decide), ⟨25, 6, by decide, ?_⟩,
    by decide +kernel, ?_, by decide +kernel⟩
  · simp only [FRepr.toRat, bpowQ_eq_zpow]; norm_num
  · simp only [FRepr.toRat, bpowQ_eq_zpow]; norm_num

/-- REFUTED inside `AddLongRegion` (formal restatement of `add_guard_digit_counterexample` with `Representable`): base 36,
    p = 1, Down: `21·36⁴⁰ − 979775·36³⁷ = 1·36³⁷` is representable in 1 digit; the code returns `0`, `Inexact(SubOne)`. -/
theorem add_representable_guard_counterexample :
    AddLongRegion 36 1 ⟨21, 40⟩ ⟨-979775, 37⟩ ∧ Normalized 36 ⟨21, 40⟩ ∧ Normalized 36 ⟨-979775, 37⟩ ∧
    Representable 36 1 ((⟨21, 40⟩ : FRepr).toRat 36 + ((1 : Int) : ℚ) * (⟨-979775, 37⟩ : FRepr).toRat 36) ∧
    ctxAddSub 36 .down coarseNone (digitsI 36) 1 ⟨21, 40⟩ ⟨-979775, 37⟩ 1 = (⟨0, 0⟩, some .SubOne) ∧
    (⟨0, 0⟩ : FRepr).toRat 36 ≠ (⟨21, 40⟩ : FRepr).toRat 36 + ((1 : Int) : ℚ) * (⟨-979775, 37⟩ : FRepr).toRat 36 := by
  refine ⟨⟨by decide, Or.inr (by decide +kernel)⟩, Or.inr (by decide), Or.inr (by decide), ⟨1, 37, by decide, ?_⟩,
    by decide +kernel, ?_⟩
  · simp only [FRepr.toRat, bpowQ_eq_zpow]; norm_num
  · simp only [FRepr.toRat, bpowQ_eq_zpow]; norm_num

/-! round 8 (second item): the clause inside `SqrShrinkRegion` / `CubicShrinkRegion` — vacuous for normalised operands, so the
    length hypotheses of `ctx_sqr_representable_exact` / `ctx_cubic_representable_exact` go -/

/-- `B ∤ s`, `s^n = M·B^k` with `|M| < B^p` ⇒ `|s|^n < B^(p+n-1)` (`B^n ∤ s^n`, so `k ≤ n-1`) -/
theorem pow_repr_bound (B : Nat) (hB : 2 ≤ B) (n : Nat) (hn1 : 1 ≤ n) (s M k : Int) (hs : s % (B : Int) ≠ 0) (p : Nat)
    (hM : M.natAbs < B ^ p) (h : ((s ^ n : Int) : ℚ) = (M : ℚ) * bpowQ B k) : s.natAbs ^ n < B ^ (p + n - 1) := by
  have hB0 : 0 < B := by omega
  obtain ⟨t, rfl | rfl⟩ := Int.eq_nat_or_neg k
  · rw [bpowQ_nat] at h
    have h' : s ^ n = M * ((B ^ t : Nat) : Int) := by exact_mod_cast h
    have ht : t < n := by
      by_contra hge
      have hge : n ≤ t := by omega
      apply hs
      have hd : ((B : Int)) ^ n ∣ s ^ n := by
        rw [h']; push_cast
        exact Dvd.dvd.mul_left (pow_dvd_pow _ hge) _
      have := (Int.pow_dvd_pow_iff (by omega)).mp hd
      exact Int.emod_eq_zero_of_dvd this
    have h2 : s.natAbs ^ n = M.natAbs * B ^ t := by
      have := congrArg Int.natAbs h'
      rwa [Int.natAbs_pow, Int.natAbs_mul, Int.natAbs_natCast] at this
    rw [h2]
    calc M.natAbs * B ^ t < B ^ p * B ^ t := Nat.mul_lt_mul_of_pos_right hM (Nat.pow_pos hB0)
      _ = B ^ (p + t) := (pow_add _ _ _).symm
      _ ≤ B ^ (p + n - 1) := Nat.pow_le_pow_right hB0 (by omega)
  · have hneg : bpowQ B (-(t : Int)) * bpowQ B (t : Int) = 1 := by
      rw [← bpowQ_add B hB0]; simp [bpowQ]
    have h3 : ((s ^ n : Int) : ℚ) * bpowQ B (t : Int) = M := by rw [h, mul_assoc, hneg, mul_one]
    rw [bpowQ_nat] at h3
    have h' : s ^ n * ((B ^ t : Nat) : Int) = M := by exact_mod_cast h3
    have h2 : s.natAbs ^ n * B ^ t = M.natAbs := by
      have := congrArg Int.natAbs h'
      rwa [Int.natAbs_mul, Int.natAbs_pow, Int.natAbs_natCast] at this
    calc s.natAbs ^ n ≤ s.natAbs ^ n * B ^ t := Nat.le_mul_of_pos_right _ (Nat.pow_pos hB0)
      _ = M.natAbs := h2
      _ < B ^ p := hM
      _ ≤ B ^ (p + n - 1) := Nat.pow_le_pow_right hB0 (by omega)

/-- closing clause 1 is VACUOUS inside `SqrShrinkRegion` for every value in memory: a normalised operand of more than `2p`
    digits never has a square representable in `p` digits -/
theorem sqr_region_not_representable (B : Nat) (hB : 2 ≤ B) (p : Nat) (a : FRepr) (hn : Normalized B a)
    (h : SqrShrinkRegion B p a) : ¬ Representable B p (a.toRat B * a.toRat B) := by
  rintro ⟨M, j, hM, hx⟩
  obtain ⟨hp, hlong⟩ := h
  have hB0 : 0 < B := by omega
  unfold FRepr.digits at hlong
  have hs0 : a.signif ≠ 0 := by
    intro h0; rw [h0, digitsI_zero] at hlong; omega
  have hs : a.signif % (B : Int) ≠ 0 := by
    rcases hn with h | h
    · exact absurd h hs0
    · exact h
  have hq : ((a.signif ^ 2 : Int) : ℚ) = (M : ℚ) * bpowQ B (j - 2 * a.exp) := by
    have e1 : bpowQ B (j - 2 * a.exp) * (bpowQ B a.exp * bpowQ B a.exp) = bpowQ B j := by
      rw [← bpowQ_add B hB0, ← bpowQ_add B hB0]; congr 1; ring
    unfold FRepr.toRat at hx
    have hpos := bpowQ_pos B hB0 a.exp
    rw [← e1] at hx
    push_cast
    have : (a.signif : ℚ) ^ 2 * (bpowQ B a.exp * bpowQ B a.exp)
        = (M : ℚ) * bpowQ B (j - 2 * a.exp) * (bpowQ B a.exp * bpowQ B a.exp) := by
      rw [mul_assoc (M : ℚ), ← hx]; ring
    exact mul_right_cancel₀ (by positivity) this
  have hb := pow_repr_bound B hB 2 (by omega) a.signif M _ hs p hM hq
  have hl := (digitsI_lower B hB a.signif hs0).1
  have h1 : B ^ (2 * p) ≤ a.signif.natAbs := le_trans (Nat.pow_le_pow_right hB0 (by omega)) hl
  have h2 : B ^ (p + 2 - 1) ≤ B ^ (2 * p) := Nat.pow_le_pow_right hB0 (by omega)
  have h3 : a.signif.natAbs ≤ a.signif.natAbs ^ 2 := Nat.le_self_pow (by omega) _
  omega

/-- … and inside `CubicShrinkRegion` (more than `3p` digits, cube) -/
theorem cubic_region_not_representable (B : Nat) (hB : 2 ≤ B) (p : Nat) (a : FRepr) (hn : Normalized B a)
    (h : CubicShrinkRegion B p a) : ¬ Representable B p (a.toRat B * a.toRat B * a.toRat B) := by
  rintro ⟨M, j, hM, hx⟩
  obtain ⟨hp, hlong⟩ := h
  have hB0 : 0 < B := by omega
  unfold FRepr.digits at hlong
  have hs0 : a.signif ≠ 0 := by
    intro h0; rw [h0, digitsI_zero] at hlong; omega
  have hs : a.signif % (B : Int) ≠ 0 := by
    rcases hn with h | h
    · exact absurd h hs0
    · exact h
  have hq : ((a.signif ^ 3 : Int) : ℚ) = (M : ℚ) * bpowQ B (j - 3 * a.exp) := by
    have e1 : bpowQ B (j - 3 * a.exp) * (bpowQ B a.exp * bpowQ B a.exp * bpowQ B a.exp) = bpowQ B j := by
      rw [← bpowQ_add B hB0, ← bpowQ_add B hB0, ← bpowQ_add B hB0]; congr 1; ring
    unfold FRepr.toRat at hx
    have hpos := bpowQ_pos B hB0 a.exp
    rw [← e1] at hx
    push_cast
    have : (a.signif : ℚ) ^ 3 * (bpowQ B a.exp * bpowQ B a.exp * bpowQ B a.exp)
        = (M : ℚ) * bpowQ B (j - 3 * a.exp) * (bpowQ B a.exp * bpowQ B a.exp * bpowQ B a.exp) := by
      rw [mul_assoc (M : ℚ), ← hx]; ring
    exact mul_right_cancel₀ (by positivity) this
  have hb := pow_repr_bound B hB 3 (by omega) a.signif M _ hs p hM hq
  have hl := (digitsI_lower B hB a.signif hs0).1
  have h1 : B ^ (3 * p) ≤ a.signif.natAbs := le_trans (Nat.pow_le_pow_right hB0 (by omega)) hl
  have h2 : B ^ (p + 3 - 1) ≤ B ^ (3 * p) := Nat.pow_le_pow_right hB0 (by omega)
  have h3 : a.signif.natAbs ≤ a.signif.natAbs ^ 3 := Nat.le_self_pow (by omega) _
  omega

/-- HYPOTHESIS `ha` of `ctx_sqr_representable_exact` DROPPED: closing clause 1 for `Context::sqr` as it is and EVERY normalised
    operand of any length -/
theorem ctx_sqr_representable_exact_all (B : Nat) (hB : 2 ≤ B) (m : Mode) (c : Coarse) (hc : CoarseSound c)
    (p : Nat) (hp : 1 ≤ p) (a : FRepr) (hn : Normalized B a) (hrep : Representable B p (a.toRat B * a.toRat B)) :
    (ctxSqr false B m c p a).1.toRat B = a.toRat B * a.toRat B ∧ (ctxSqr false B m c p a).2 = none := by
  by_cases ha : a.digits B ≤ 2 * p
  · exact ctx_sqr_representable_exact B hB m c hc p hp a ha hrep
  · exact absurd hrep (sqr_region_not_representable B hB p a hn ⟨by omega, by omega⟩)

/-- … `ha` of `ctx_cubic_representable_exact` dropped: `Context::cubic` as it is, every normalised operand -/
theorem ctx_cubic_representable_exact_all (B : Nat) (hB : 2 ≤ B) (m : Mode) (c : Coarse) (hc : CoarseSound c)
    (p : Nat) (hp : 1 ≤ p) (a : FRepr) (hn : Normalized B a)
    (hrep : Representable B p (a.toRat B * a.toRat B * a.toRat B)) :
    (ctxCubic false B m c p a).1.toRat B = a.toRat B * a.toRat B * a.toRat B ∧ (ctxCubic false B m c p a).2 = none := by
  by_cases ha : a.digits B ≤ 3 * p
  · exact ctx_cubic_representable_exact B hB m c hc p hp a ha hrep
  · exact absurd hrep (cubic_region_not_representable B hB p a hn ⟨by omega, by omega⟩)

/-- non-vacuity: base 4 (where `B ∣ s²` although `B ∤ s`): `6² = 36 = 9·4¹` is representable in 2 base-4 digits, `6` normalised;
    `0.2³` base 10 @2 -/
example : Normalized 4 ⟨6, 0⟩ ∧ Representable 4 2 ((⟨6, 0⟩ : FRepr).toRat 4 * (⟨6, 0⟩ : FRepr).toRat 4) ∧
    ctxSqr false 4 .zero coarseNone 2 ⟨6, 0⟩ = (⟨9, 1⟩, none) ∧
    Normalized 10 ⟨2, -1⟩ ∧
    Representable 10 2 ((⟨2, -1⟩ : FRepr).toRat 10 * (⟨2, -1⟩ : FRepr).toRat 10 * (⟨2, -1⟩ : FRepr).toRat 10) := by
  refine ⟨Or.inr (by decide), ⟨9, 1, by decide, ?_⟩, by decide +kernel, Or.inr (by decide), ⟨8, -3, by decide, ?_⟩⟩
  · simp only [FRepr.toRat, bpowQ_eq_zpow]; norm_num
  · simp only [FRepr.toRat, bpowQ_eq_zpow]; norm_num

end Dashu.Props.C03
