import Dashu.Props.C10
/-
  C03 — placeholder while the correspondence is brought up (replaced by the property theorems).
-/
namespace Dashu.Props.C03
open Dashu.Model.Float

theorem placeholder : andThenFlag none none = none := rfl

end Dashu.Props.C03
