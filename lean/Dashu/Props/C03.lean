import Dashu.Proofs.Float.Sqrt
import Dashu.Proofs.Float.AddSplit
/-
  C03 — Float arithmetic honours the documented rounding contract of its mode.

  `Contract B m p x r flag` (`Model/Float/Spec.lean`) over `Rat`: `flag = Exact ⇔ r = x`; otherwise
  `|r − x| < 1 ulp` (`≤ ½ ulp` for HalfEven / HalfAway) where the ulp is that of `x` at `p` digits
  (any `B^e` with `B^(e+p-1) ≤ |x|`); the side condition of the directed modes; `AddOne ⇒ r > x`,
  `SubOne ⇒ r < x`.  Every theorem quantifies over all bases `B ≥ 2`, all precisions `p ≥ 1`, all six
  modes and all operands; `c` is the coarse `f32` test of `round_fract` (any sound oracle), `dub` the
  `digits_ub` estimate.

  The model mirrors /repo including the `fix:` commits 92fc29e (sqrt scaling / Exact flag),
  0d97e26 (far-apart addition stand-in), d197d6e (`sub` from zero) found by this property's check.
  `Context::mul/sqr/cubic` still pre-shrink operands longer than 2p / 3p digits (recorded finding,
  outside "operands that fit p"): `fixed = false` is the code as it is, `fixed = true` without the
  pre-shrink.

  What is proved (all without bound on operand size, exponent gap, base, precision):
  * `repr_round` (C10); `mul` / `*` / `sqr` / `cubic` for operands of at most 2p (3p) digits — in
    particular all operands that fit `p` — and, without the pre-shrink, for all operands;
  * `add` / `sub` for ALL operands that fit `p` (`add_sub_contract`): zero operands, equal exponents,
    and the four alignment branches of `repr_add_large_small` / `repr_add_small_large` (far-apart with
    the sticky stand-in, the two splitting branches, full alignment) composed with the three
    re-alignment branches of `repr_round_sum`; for every sound `digits_ub` estimator;
  * `repr_div` / `/` / `inv` for every dividend and non-zero divisor, `Context::div` for dividends of at
    most `rhs.digits + p` digits; `sqrt` for every non-negative operand (`ContractSqrt`);
  * the documented panics of `div` and `sqrt`.
  Not covered by theorems (recorded findings, outside "operands that fit p"): `Context::add/sub/mul/
  sqr/cubic/div` on Reprs LONGER than the working length — there the contract is false for the code
  as it is (`mul_preshrink_counterexample`; `repr_round_sum`'s single guard digit is the hypothesis
  `hguard` of `round_sum_contract`).
-/
namespace Dashu.Props.C03
open Dashu Dashu.Model.Float

/-- `FBig * FBig` (all operator forms): one rounding of the exact product -/
theorem mul_operator_contract (B : Nat) (hB : 2 ≤ B) (m : Mode) (c : Coarse) (hc : CoarseSound c)
    (p : Nat) (hp : 1 ≤ p) (a b : FRepr) :
    Contract B m p (a.toRat B * b.toRat B) ((opMul B m c p a b).1.toRat B) (opMul B m c p a b).2 :=
  opMul_contract B hB m c hc p hp a b

/-- `Context::mul` as it is, for operands of at most `2p` digits (every operand that fits `p`): equal to
    the operator form, hence the contract.  (`…_partial`: the hypothesis excludes the pre-shrink.) -/
theorem mul_contract_partial (B : Nat) (hB : 2 ≤ B) (m : Mode) (c : Coarse) (hc : CoarseSound c)
    (p : Nat) (hp : 1 ≤ p) (a b : FRepr) (ha : a.digits B ≤ 2 * p) (hb : b.digits B ≤ 2 * p) :
    Contract B m p (a.toRat B * b.toRat B) ((ctxMul false B m c p a b).1.toRat B) (ctxMul false B m c p a b).2 := by
  rw [ctxMul_asis B m c p a b ha hb, ctxMul_fixed_eq_op]
  exact opMul_contract B hB m c hc p hp a b

/-- without the pre-shrink `Context::mul` honours the contract for all operands -/
theorem mul_contract_fixed (B : Nat) (hB : 2 ≤ B) (m : Mode) (c : Coarse) (hc : CoarseSound c)
    (p : Nat) (hp : 1 ≤ p) (a b : FRepr) :
    Contract B m p (a.toRat B * b.toRat B) ((ctxMul true B m c p a b).1.toRat B) (ctxMul true B m c p a b).2 :=
  opMul_contract B hB m c hc p hp a b

/-- the hypothesis of `mul_contract_partial` is needed: HalfEven, p = 1, base 10: `1.01 × 2.5 = 2.525`.
    The code as it is pre-rounds `1.01` (3 digits > 2p) to `1.0` and returns `2` (`NoOp`): error `0.525 > ½ ulp`;
    without the pre-shrink the result is `3` (`AddOne`). -/
theorem mul_preshrink_counterexample :
    ctxMul false 10 .halfEven coarseNone 1 ⟨101, -2⟩ ⟨25, -1⟩ = (⟨2, 0⟩, some .NoOp) ∧
    ctxMul true 10 .halfEven coarseNone 1 ⟨101, -2⟩ ⟨25, -1⟩ = (⟨3, 0⟩, some .AddOne) ∧
    ¬ (2 * |(2000 : Int) - 2525| ≤ 1000) := by
  refine ⟨by decide +kernel, by decide +kernel, by norm_num⟩

theorem sqr_contract_partial (B : Nat) (hB : 2 ≤ B) (m : Mode) (c : Coarse) (hc : CoarseSound c)
    (p : Nat) (hp : 1 ≤ p) (a : FRepr) (ha : a.digits B ≤ 2 * p) :
    Contract B m p (a.toRat B * a.toRat B) ((ctxSqr false B m c p a).1.toRat B) (ctxSqr false B m c p a).2 := by
  rw [ctxSqr_asis B m c p a ha]
  exact ctxSqr_contract B hB m c hc p hp a

theorem sqr_contract_fixed (B : Nat) (hB : 2 ≤ B) (m : Mode) (c : Coarse) (hc : CoarseSound c)
    (p : Nat) (hp : 1 ≤ p) (a : FRepr) :
    Contract B m p (a.toRat B * a.toRat B) ((ctxSqr true B m c p a).1.toRat B) (ctxSqr true B m c p a).2 :=
  ctxSqr_contract B hB m c hc p hp a

theorem cubic_contract_partial (B : Nat) (hB : 2 ≤ B) (m : Mode) (c : Coarse) (hc : CoarseSound c)
    (p : Nat) (hp : 1 ≤ p) (a : FRepr) (ha : a.digits B ≤ 3 * p) :
    Contract B m p (a.toRat B * a.toRat B * a.toRat B) ((ctxCubic false B m c p a).1.toRat B)
      (ctxCubic false B m c p a).2 := by
  rw [ctxCubic_asis B m c p a ha]
  exact ctxCubic_contract B hB m c hc p hp a

theorem cubic_contract_fixed (B : Nat) (hB : 2 ≤ B) (m : Mode) (c : Coarse) (hc : CoarseSound c)
    (p : Nat) (hp : 1 ≤ p) (a : FRepr) :
    Contract B m p (a.toRat B * a.toRat B * a.toRat B) ((ctxCubic true B m c p a).1.toRat B)
      (ctxCubic true B m c p a).2 :=
  ctxCubic_contract B hB m c hc p hp a

/-- `Context::add` (`rs = 1`) / `Context::sub` (`rs = -1`) whenever the alignment keeps all digits:
    one operand zero (incl. `sub` from zero), equal exponents, or
    `exponent gap + digits of the operand with the larger exponent ≤ p`.
    (for operands of ANY length; the general statement for operands that fit `p` is `add_sub_contract`.) -/
theorem add_sub_contract_partial (B : Nat) (hB : 2 ≤ B) (m : Mode) (c : Coarse) (hc : CoarseSound c)
    (dub : Int → Nat) (p : Nat) (hp : 1 ≤ p) (lhs rhs : FRepr) (rs : Int) (hrs : rs = 1 ∨ rs = -1)
    (hl : Normalized B lhs) (hr : Normalized B rhs)
    (h : lhs.isZero = true ∨ rhs.isZero = true ∨ lhs.exp = rhs.exp ∨
      (rhs.exp < lhs.exp ∧ (lhs.exp - rhs.exp).toNat + lhs.digits B ≤ p) ∨
      (lhs.exp < rhs.exp ∧ (rhs.exp - lhs.exp).toNat + rhs.digits B ≤ p)) :
    Contract B m p (lhs.toRat B + (rs : ℚ) * rhs.toRat B)
      ((ctxAddSub B m c dub p lhs rhs rs).1.toRat B) (ctxAddSub B m c dub p lhs rhs rs).2 :=
  addSub_aligned_contract B hB m c hc dub p hp lhs rhs rs hrs hl hr h

/-- `Context::add` / `sub` in the far-apart branch (the sticky-bit argument): the operand with the larger
    exponent has at most `p` digits, the other one lies more than `digits_ub + 1` digits below it and below
    the rounding position; the result computed from the stand-in `±1` is the rounding of the exact sum.
    Holds for every sound `digits_ub` estimator and small operands of any length. -/
theorem add_sub_far_contract (B : Nat) (hB : 2 ≤ B) (m : Mode) (c : Coarse) (hc : CoarseSound c)
    (dub : Int → Nat) (hdub : DubSound B dub) (p : Nat) (hp : 1 ≤ p) (lhs rhs : FRepr) (rs : Int)
    (hrs : rs = 1 ∨ rs = -1) (hl0 : lhs.signif ≠ 0) (hr0 : rhs.signif ≠ 0)
    (h : (rhs.exp < lhs.exp ∧ lhs.digits B ≤ p ∧
          dub rhs.signif + 1 < (lhs.exp - rhs.exp).toNat ∧
          dub rhs.signif + 1 + (p + if decide (sgn lhs.signif ≠ rs * sgn rhs.signif) = true then 1 else 0) <
            lhs.digits B + (lhs.exp - rhs.exp).toNat) ∨
         (lhs.exp < rhs.exp ∧ rhs.digits B ≤ p ∧
          dub lhs.signif + 1 < (rhs.exp - lhs.exp).toNat ∧
          dub lhs.signif + 1 + (p + if decide (rs * sgn rhs.signif ≠ sgn lhs.signif) = true then 1 else 0) <
            rhs.digits B + (rhs.exp - lhs.exp).toNat)) :
    Contract B m p (lhs.toRat B + (rs : ℚ) * rhs.toRat B)
      ((ctxAddSub B m c dub p lhs rhs rs).1.toRat B) (ctxAddSub B m c dub p lhs rhs rs).2 :=
  addSub_far_contract B hB m c hc dub hdub p hp lhs rhs rs hrs hl0 hr0 h

/-- **`Context::add` (`rs = 1`) / `Context::sub` (`rs = -1`) honour the rounding contract for all operands
    that fit the precision** — every sign, every exponent gap (total overlap to far beyond the precision),
    cancellation to zero or to a single digit, carries into a new digit, operands shorter than `p`; for
    every sound `digits_ub` estimator `dub` and every sound coarse test `c`.
    (`hwl`/`hwr`: a zero significand comes with exponent 0, the invariant of `Repr`.) -/
theorem add_sub_contract (B : Nat) (hB : 2 ≤ B) (m : Mode) (c : Coarse) (hc : CoarseSound c)
    (dub : Int → Nat) (hdub : DubSound B dub) (p : Nat) (hp : 1 ≤ p) (lhs rhs : FRepr) (rs : Int)
    (hrs : rs = 1 ∨ rs = -1) (hl : Normalized B lhs) (hr : Normalized B rhs)
    (hwl : lhs.signif = 0 → lhs.exp = 0) (hwr : rhs.signif = 0 → rhs.exp = 0)
    (hld : lhs.digits B ≤ p) (hrd : rhs.digits B ≤ p) :
    Contract B m p (lhs.toRat B + (rs : ℚ) * rhs.toRat B)
      ((ctxAddSub B m c dub p lhs rhs rs).1.toRat B) (ctxAddSub B m c dub p lhs rhs rs).2 :=
  addSub_fits_contract B hB m c hc dub hdub p hp lhs rhs rs hrs hl hr hwl hwr hld hrd

/-- `Context::repr_round_sum(signif, exp, (low, lk), is_sub)` in general: the contract for the exact value
    `(signif·B^lk + low)·B^(exp − lk)` under the guard-digit hypothesis `hguard` — which the four
    alignment branches establish for operands that fit `p`, and which fails for longer Reprs. -/
theorem round_sum_contract (B : Nat) (hB : 2 ≤ B) (m : Mode) (c : Coarse) (hc : CoarseSound c)
    (p : Nat) (hp : 1 ≤ p) (s e lv : Int) (lk : Nat) (isSub : Bool)
    (hA : |lv| < ((B ^ lk : Nat) : Int)) (hs0 : s ≠ 0)
    (hsign : isSub = false → (0 ≤ s → 0 ≤ lv) ∧ (s ≤ 0 → lv ≤ 0))
    (hguard : isSub = true → digitsI B s < p + 1 → p + 1 - digitsI B s < lk →
      ((B ^ (lk - (p + 1 - digitsI B s)) : Nat) : Int) * ((B ^ (p - 1) : Nat) : Int) ≤
        |s * ((B ^ lk : Nat) : Int) + lv|) :
    Contract B m p (((s * ((B ^ lk : Nat) : Int) + lv : Int) : ℚ) * bpowQ B (e - lk))
      ((reprRoundSum B m c p s e (lv, lk) isSub).1.toRat B) (reprRoundSum B m c p s e (lv, lk) isSub).2 :=
  reprRoundSum_contract B hB m c hc p hp s e lv lk isSub hA hs0 hsign hguard

/-- `repr_round_sum` with an empty low part: the contract, at `p` or `p+1` digits -/
theorem round_sum_nolow_contract (B : Nat) (hB : 2 ≤ B) (m : Mode) (c : Coarse) (hc : CoarseSound c)
    (p : Nat) (hp : 1 ≤ p) (s e : Int) (isSub : Bool) :
    Contract B m p ((s : ℚ) * bpowQ B e) ((reprRoundSum B m c p s e (0, 0) isSub).1.toRat B)
      (reprRoundSum B m c p s e (0, 0) isSub).2 :=
  reprRoundSum_nolow_contract B hB m c hc p hp s e isSub

/-- **`Context::repr_div`** (the operator `/` at `Context::max`): for every dividend and every
    non-zero divisor the quotient honours the contract (results may carry `p+1` digits). -/
theorem div_contract (B : Nat) (hB : 2 ≤ B) (m : Mode) (p : Nat) (hp : 1 ≤ p) (lhs rhs : FRepr)
    (hb : rhs.signif ≠ 0) :
    ∃ r, reprDiv B m p lhs rhs = .ok r ∧ Contract B m p (lhs.toRat B / rhs.toRat B) (r.1.toRat B) r.2 :=
  reprDiv_contract B hB m p hp lhs rhs hb

/-- `Context::div` for dividends of at most `rhs.digits() + p` digits (all that fit `p`), any digit
    estimators.  (`…_partial`: longer dividends are pre-shrunk — recorded finding.) -/
theorem ctx_div_contract_partial (B : Nat) (hB : 2 ≤ B) (m : Mode) (c : Coarse) (dub dlb : Int → Nat)
    (p : Nat) (hp : 1 ≤ p) (lhs rhs : FRepr) (hb : rhs.signif ≠ 0) (hfit : lhs.digits B ≤ rhs.digits B + p) :
    ∃ r, ctxDiv B m c dub dlb p lhs rhs = .ok r ∧
      Contract B m p (lhs.toRat B / rhs.toRat B) (r.1.toRat B) r.2 := by
  rw [ctxDiv_noshrink B m c dub dlb p lhs rhs hfit]
  exact reprDiv_contract B hB m p hp lhs rhs hb

/-- `Context::inv` -/
theorem inv_contract (B : Nat) (hB : 2 ≤ B) (m : Mode) (p : Nat) (hp : 1 ≤ p) (f : FRepr) (hf : f.signif ≠ 0) :
    ∃ r, ctxInv B m p f = .ok r ∧ Contract B m p ((⟨1, 0⟩ : FRepr).toRat B / f.toRat B) (r.1.toRat B) r.2 :=
  reprDiv_contract B hB m p hp ⟨1, 0⟩ f hf

/-- the documented panics of division: unlimited precision, then division by zero -/
theorem div_panics (B : Nat) (m : Mode) (p : Nat) (lhs rhs : FRepr) :
    (p = 0 → reprDiv B m p lhs rhs = .error .unlimitedPrecision) ∧
    (p ≠ 0 → rhs.signif = 0 → reprDiv B m p lhs rhs = .error .divideByZero) :=
  reprDiv_panics B m p lhs rhs

/-- **`Context::sqrt`** (as repaired by 92fc29e) for every non-negative operand (of any length): `r ≥ 0`,
    `Exact ⇔ r² = x`, otherwise `√x` within one ulp (half an ulp for the nearest modes) of `r`, on the
    side the mode prescribes; every comparison with `√x` is stated on squares (`ContractSqrt`). -/
theorem sqrt_contract (B : Nat) (hB : 2 ≤ B) (m : Mode) (c : Coarse) (p : Nat) (hp : 1 ≤ p) (x : FRepr)
    (hs : 0 ≤ x.signif) :
    ∃ r, ctxSqrt B m c p x = .ok r ∧ ContractSqrt B m p (x.toRat B) (r.1.toRat B) r.2 :=
  ctxSqrt_contract B hB m c p hp x hs

/-- the documented panics of `sqrt`: unlimited precision first, then a negative operand -/
theorem sqrt_panics (B : Nat) (m : Mode) (c : Coarse) (p : Nat) (x : FRepr) :
    (p = 0 → ctxSqrt B m c p x = .error .unlimitedPrecision) ∧
    (p ≠ 0 → x.signif < 0 → ctxSqrt B m c p x = .error .rootNegative) := by
  unfold ctxSqrt
  constructor
  · intro h; simp [h]
  · intro h1 h2; simp [h1, h2]

/-- unlimited precision (`p = 0`): `repr_round` is the identity, flagged `Exact` -/
theorem unlimited_exact (B : Nat) (m : Mode) (c : Coarse) (r : FRepr) : reprRound B m c 0 r = (r, none) :=
  reprRound_unlimited B m c r

/-! ### non-vacuity -/

-- 9.9 × 9.9 = 98.01 at 2 digits, HalfAway: 98 (NoOp); the operands fit p
example : opMul 10 .halfAway coarseNone 2 ⟨99, -1⟩ ⟨99, -1⟩ = (⟨98, 0⟩, some .NoOp) := by decide +kernel
-- 2^10 + 1 at 5 bits, base 2, HalfAway (the far-apart branch, repaired stand-in): 2^10, NoOp
example : ctxAddSub 2 .halfAway coarseNone (digitsI 2) 5 ⟨1, 10⟩ ⟨1, 0⟩ 1 = (⟨1, 10⟩, some .NoOp) := by decide +kernel
-- aligned addition meeting the hypothesis of `add_sub_contract_partial`: 12e1 + 7 at 3 digits = 127 exactly
example : ctxAddSub 10 .zero coarseNone (digitsI 10) 3 ⟨12, 1⟩ ⟨7, 0⟩ 1 = (⟨127, 0⟩, none) ∧
    (((⟨12, 1⟩ : FRepr).exp - (⟨7, 0⟩ : FRepr).exp).toNat + (⟨12, 1⟩ : FRepr).digits 10 ≤ 3) := by
  decide +kernel
-- sqrt(2.1) at 2 digits, HalfAway: 1.4 (NoOp) — 1.5 before fix 92fc29e
example : ctxSqrt 10 .halfAway coarseNone 2 ⟨21, -1⟩ = .ok (⟨14, -1⟩, some .NoOp) := by decide +kernel

end Dashu.Props.C03
