import Dashu.Proofs.Text.ParseLink
/-
  C07 — link theorems (round 8): the multi-word arithmetic INSIDE the non-power-of-two parser — `mul_word_in_place_with_carry`
  in `parse_chunk`, `Repr::from_buffer`, `UBig * &UBig + UBig` in `parse_large_divide_conquer`, `UBig::from(range_per_word).pow(CHUNK_LEN)`
  and `prev * prev` in `parse_large` — replaced by C01's mirrored kernels (`mulWordInPlace`, `fromBuffer`, `TRepr.mul`, `TRepr.add`,
  `ubigPow`, `ofNat`) and proved, THROUGH C01's property theorems (imported from `Dashu.Props.C01`), to compute what the Nat-valued
  parser model of `Model/Text/Parse.lean` computes — the model all parser theorems of `Props/C07.lean` are about.  (A separate module
  because it imports another property's theorem file.)  Until this round the two were linked by name only (FRONTIER).
-/
namespace Dashu.Props.C07ParseLink
open Dashu.Model Dashu.Model.Text

/-- **`parse_chunk` on the word buffer with C01's `mul_word_in_place_with_carry`**: for every word size, radix `2 ≤ r < 2^W` and byte
    string (no length bound), the word-level loop `carry = mul_word_in_place_with_carry(&mut buffer, range_per_word, parse_word(group));
    if carry != 0 { buffer.push(carry) }` fails exactly where the numeric model fails, with the same error, and otherwise leaves
    a list of words `< 2^W` whose value is the model's number; its length never exceeds `groups.len()`, the capacity asked from
    `Buffer::allocate` (the kernel's hypotheses `rhs < 2^W`, `carry_in < 2^W`, `IsWords buffer` of
    `Props/C01.mul_word_in_place_exact` are discharged at every iteration: `parse_word(group) < range_per_word < 2^W`) -/
theorem parse_chunk_on_mul_word_kernel (W r : Nat) (hr : 2 ≤ r) (hrW : r < 2 ^ W) (bytes : List Nat) :
    Except.map (val W) (parseChunkW W r bytes) = parseChunk W r bytes ∧
    ∀ ws, parseChunkW W r bytes = .ok ws →
      IsWords W ws ∧ ws.length ≤ (rchunksRev (radixInfo W r).dpw bytes).length :=
  parseChunkW_spec W r hr hrW bytes

/-- **the whole non-power-of-two parser on C01's `UBig` kernels**: `non_power_two::parse` with `parse_word(..).into()` = `ofNat`,
    `parse_chunk` ending in `Repr::from_buffer`, `parse_large` with the power tower `UBig::from(range_per_word).pow(CHUNK_LEN)`,
    `prev * prev` and the recursion `res_hi * radix_power + res_lo` on typed representations (`TRepr.mul`, `TRepr.add` in any
    ownership form, `ubigPow`) returns, for every `W ≥ 4`, radix and byte string, the same error as the numeric model or a
    CANONICAL representation (a valid `UBig`) of the model's number — by `Props/C01`: `of_nat_exact`, `from_buffer_exact`,
    `mul_word_in_place_exact`, `u_mul_exact`, `u_add_exact`, `u_pow_exact` -/
theorem parse_non_pow2_on_ubig_kernels (W r : Nat) (hW : 4 ≤ W) (hr : 2 ≤ r) (hrW : r < 2 ^ W) (form : Nat) (src : List Nat) :
    (Except.map (TRepr.value W) (parseNonPow2T W r form src) = parseNonPow2 W r src ∧
      ∀ t, parseNonPow2T W r form src = .ok t → t.Canon W) ∧
    (Except.map (TRepr.value W) (parseLargeT W r form src) = parseLarge W r src ∧
      ∀ t, parseLargeT W r form src = .ok t → t.Canon W) :=
  ⟨parseNonPow2T_spec W r hW hr hrW form src, parseLargeT_spec W r hW hr hrW form src⟩

-- non-vacuity: the hypotheses hold for the real word size and radix 10; the word loop is run on "1", "23", "45" with W = 8
-- (range_per_word = 100): 12345 = 0x3039, one carry pushed; an invalid digit is the model's error
example := parse_chunk_on_mul_word_kernel 64 10 (by decide) (by decide) [49, 50, 51, 52, 53]
example := parse_non_pow2_on_ubig_kernels 64 10 (by decide) (by decide) (by decide) 0 [49, 50, 51, 52, 53]
example : parseChunkLoopW 8 10 100 [[49], [50, 51], [52, 53]] [] = .ok [0x39, 0x30] := by decide
example : parseChunkLoopW 8 10 100 [[49], [50, 47], [52, 53]] [] = .error .invalidDigit := by decide

end Dashu.Props.C07ParseLink
