import Dashu.Proofs.Int.Repr
/-
  C01 — Integer ring arithmetic is exact for every operand size and sign.

  Property theorems only (helper lemmas live in `Dashu/Proofs`).  Every statement quantifies over
  all word sizes `W` and all operand lengths; nothing is bounded.  Operands are word lists
  (`IsWords W`), or canonical magnitudes (`TRepr.Canon W`).
-/
namespace Dashu.Props.C01
open Dashu.Model

/-- `add_same_len_in_place`: digits + carry·B^n = a + b + carry-in; length and word-ness kept. -/
theorem add_same_len_exact (W : Nat) (as bs : List Nat) (c : Nat)
    (ha : IsWords W as) (hb : IsWords W bs) (hl : as.length = bs.length) (hc : c ≤ 1) :
    let r := addSameLen W as bs c
    val W r.1 + 2 ^ (W * as.length) * r.2 = val W as + val W bs + c ∧
    r.1.length = as.length ∧ IsWords W r.1 ∧ r.2 ≤ 1 :=
  addSameLen_spec W as bs c ha hb hl hc

/-- `sub_same_len_in_place`: digits + b + borrow-in = a + borrow·B^n. -/
theorem sub_same_len_exact (W : Nat) (as bs : List Nat) (c : Nat)
    (ha : IsWords W as) (hb : IsWords W bs) (hl : as.length = bs.length) (hc : c ≤ 1) :
    let r := subSameLen W as bs c
    val W r.1 + val W bs + c = val W as + 2 ^ (W * as.length) * r.2 ∧
    r.1.length = as.length ∧ IsWords W r.1 ∧ r.2 ≤ 1 :=
  subSameLen_spec W as bs c ha hb hl hc

/-- `add_one_in_place` / `sub_one_in_place` -/
theorem add_one_exact (W : Nat) (ws : List Nat) (h : IsWords W ws) :
    let r := addOne W ws
    val W r.1 + 2 ^ (W * ws.length) * r.2 = val W ws + 1 ∧
    r.1.length = ws.length ∧ IsWords W r.1 ∧ r.2 ≤ 1 :=
  addOne_spec W ws h

theorem sub_one_exact (W : Nat) (ws : List Nat) (h : IsWords W ws) :
    let r := subOne W ws
    val W r.1 + 1 = val W ws + 2 ^ (W * ws.length) * r.2 ∧
    r.1.length = ws.length ∧ IsWords W r.1 ∧ r.2 ≤ 1 :=
  subOne_spec W ws h

/-- `Repr::from_buffer` keeps the value and produces the canonical form, for any buffer content. -/
theorem from_buffer_exact (W : Nat) (ws : List Nat) (h : IsWords W ws) :
    (fromBuffer W ws).value W = val W ws ∧ (fromBuffer W ws).Canon W :=
  ⟨fromBuffer_value W ws, fromBuffer_canon W ws h⟩

/-- inline + inline addition, including the spill into a 3-word heap value -/
theorem add_dword_exact (W a b : Nat) (ha : a < 2 ^ (2 * W)) (hb : b < 2 ^ (2 * W)) :
    (addDword W a b).value W = a + b ∧ (addDword W a b).Canon W :=
  ⟨addDword_value W a b ha hb, addDword_canon W a b ha hb⟩

-- non-vacuity: a concrete 3-word operand pair meets the hypotheses and carries out of the top word
example : IsWords 64 [2^64-1, 2^64-1, 2^64-1] ∧ IsWords 64 [1, 0, 0] ∧
    (addSameLen 64 [2^64-1, 2^64-1, 2^64-1] [1, 0, 0] 0) = ([0, 0, 0], 1) := by
  refine ⟨by decide, by decide, by decide⟩

end Dashu.Props.C01
